/-
M-Parse lemmas, part 5 — the left-factored grammar (`parenType`, `knotF`; candidate repair of
C18-F1): closure properties (`Sound`, `Tot`, `PLe`) of its functions, the one-level equality with
the original alternatives (`paren_eq`), and the equality of the two grammars (`knotF_eq`).
-/
import QuiverModel.Lemmas.Parse.RoundTrip
namespace QM.Parse

/-! ### Closure properties of the new pieces -/

theorem Sound.withInput {α : Type} {f : Str → P α} (h : ∀ x, Sound (f x)) : Sound (withInput f) :=
  fun i => h i i
theorem Strict.withInput {α : Type} {f : Str → P α} (h : ∀ x, Strict (f x)) : Strict (withInput f) :=
  fun i => h i i
theorem Tot.withInput {α : Type} {m : Nat} {f : Str → P α} (h : ∀ x, Tot m (f x)) :
    Tot m (withInput f) := fun i hi => h i i hi
theorem PLe.withInput {α : Type} {f f' : Str → P α} (h : ∀ x, PLe (f x) (f' x)) :
    PLe (withInput f) (withInput f') := fun i hi => h i i hi

theorem Sound.sepList0Pos {α β : Type} {sep : P β} {p : P α} (hs : Sound sep) (hp : Sound p) :
    Sound (sepList0Pos sep p) := by
  intro i
  unfold QM.Parse.sepList0Pos
  cases e : p i with
  | ok a r =>
    try dsimp only at *
    have := sepLoop_sound hs hp (r.length + 1) r
    cases e2 : sepLoop sep p (r.length + 1) r with
    | ok as r' => rw [e2] at this; exact List.IsSuffix.trans this (hp.ok e)
    | err x c => rw [e2] at this; exact List.IsSuffix.trans this (hp.ok e)
    | out => trivial
  | err x c => exact List.suffix_refl _
  | out => trivial

theorem Tot.sepList0Pos {α β : Type} {m : Nat} {sep : P β} {p : P α} (ss : Sound sep) (sp : Sound p)
    (hs : Tot m sep) (hp : Tot m p) : Tot m (sepList0Pos sep p) := by
  intro i hi
  unfold QM.Parse.sepList0Pos
  cases e : p i with
  | ok a r =>
    try dsimp only at *
    have hle := (sp.ok e).length_le
    have := sepLoop_tot ss sp hs hp (r.length + 1) r (by omega) (by omega)
    cases e2 : sepLoop sep p (r.length + 1) r with
    | ok as r' => simp
    | err x c => simp
    | out => exact absurd e2 this
  | err x c => simp
  | out => exact absurd e (hp i hi)

theorem PLe.sepList0Pos {α β : Type} {sep sep' : P β} {p p' : P α} (hs : PLe sep sep')
    (hp : PLe p p') : PLe (sepList0Pos sep p) (sepList0Pos sep' p') := by
  intro i h
  unfold QM.Parse.sepList0Pos at h ⊢
  cases e : p i with
  | ok a r =>
    rw [hp i (by rw [e]; simp), e]
    rw [e] at h
    try dsimp only at h ⊢
    cases e2 : sepLoop sep p (r.length + 1) r with
    | ok as r' => rw [sepLoop_ple hs hp _ r (by rw [e2]; simp), e2]
    | err x c => rw [sepLoop_ple hs hp _ r (by rw [e2]; simp), e2]
    | out => rw [e2] at h; exact absurd rfl h
  | err x c => rw [hp i (by rw [e]; simp), e]
  | out => rw [e] at h; exact absurd rfl h

/-- the first element's end is a suffix of the input -/
theorem sepList0Pos_firstEnd {α β : Type} {sep : P β} {p : P α} (hp : Sound p) {i pos fe : Str}
    {l : List α} (h : sepList0Pos sep p i = .ok (l, some fe) pos) : fe <:+ i := by
  unfold QM.Parse.sepList0Pos at h
  cases e : p i with
  | ok a r =>
    rw [e] at h
    dsimp only at h
    cases e2 : sepLoop sep p (r.length + 1) r with
    | ok as r' =>
      rw [e2] at h
      simp only [Res.ok.injEq, Prod.mk.injEq, Option.some.injEq] at h
      rw [← h.1.2]; exact hp.ok e
    | err x c => rw [e2] at h; simp at h
    | out => rw [e2] at h; simp at h
  | err x c => rw [e] at h; simp at h
  | out => rw [e] at h; simp at h

theorem Sound.closeParen : Sound closeParen := by unfold QM.Parse.closeParen; sound_tac
theorem NoOut.closeParen : NoOut Parse.closeParen := by
  intro i
  have h : Tot (i.length + 1) Parse.closeParen := by unfold QM.Parse.closeParen; noout_tac
  exact h i (Nat.lt_succ_self _)

section
variable {k : Knot} (hk : KSound k)
include hk

theorem namedPartialType_sound : Sound (namedPartialType k) := by
  unfold namedPartialType; have := fieldsIn_sound hk '(' ')'; sound_tac
theorem parenProcessType_sound : Sound (parenProcessType k) := by
  unfold parenProcessType; have := hk.2; have := Sound.arrow; sound_tac
theorem atProcessType_sound : Sound (atProcessType k) := by
  unfold atProcessType; have := hk.2; sound_tac
theorem parenList_sound : Sound (parenList k) := by
  unfold parenList
  have := fieldType_sound hk; have := Sound.commaWsc
  refine Sound.seq (Sound.pchar _) (Sound.withInput fun _ => Sound.seq Sound.wsc
    (Sound.withInput fun _ => Sound.pmap (Sound.sepList0Pos Sound.commaWsc (fieldType_sound hk))))

theorem parenList_firstEnd {i pos fe : Str} {l : ParenList} (h : parenList k i = .ok l pos)
    (hf : l.firstEnd = some fe) : fe <:+ i := by
  unfold parenList at h
  cases i with
  | nil => simp [seq, Parse.bind, pchar] at h
  | cons c ao =>
    by_cases hc : c = '('
    · subst hc
      simp only [seq, Parse.bind, pchar, if_true, withInput, wsc, pmap] at h
      cases e : sepList0Pos commaWsc (fieldType k) (skipWsc false ao) with
      | ok r pos' =>
        rw [e] at h
        simp only [Res.ok.injEq] at h
        obtain ⟨h1, _⟩ := h
        subst h1
        simp only at hf
        have e' : sepList0Pos commaWsc (fieldType k) (skipWsc false ao) = .ok (r.1, some fe) pos' := by
          rw [e, ← hf]
        exact List.IsSuffix.trans (sepList0Pos_firstEnd (fieldType_sound hk) e')
          (List.IsSuffix.trans (skipWsc_suffix false ao) (List.suffix_cons _ _))
      | err x c => rw [e] at h; simp at h
      | out => rw [e] at h; simp at h
    · simp [seq, Parse.bind, pchar, hc] at h

omit hk in
theorem groupDecision_within {i : Str} {l : ParenList}
    (h : ∀ fe, l.firstEnd = some fe → fe <:+ i) : (groupDecision i (some l)).Within i := by
  unfold groupDecision
  split
  · rename_i t firstEnd afterOpen content heq
    simp only [Option.some.injEq] at heq
    split
    · have hfe : firstEnd <:+ i := h firstEnd (by rw [heq])
      have hs : Sound (seq ws0 (pchar ')')) := Sound.seq Sound.ws0 (Sound.pchar _)
      cases e : seq ws0 (pchar ')') firstEnd with
      | ok u rest => exact List.IsSuffix.trans (hs.ok e) hfe
      | err x c => exact List.suffix_refl _
      | out => exact List.suffix_refl _
    · exact List.suffix_refl _
  · exact List.suffix_refl _

omit hk in
theorem parenAfterPartial_within {gf : Bool} {i : Str} {l : Option ParenList} {q : Res Ty} (hq : q.Within i)
    (h : ∀ l', l = some l' → ∀ fe, l'.firstEnd = some fe → fe <:+ i) :
    (parenAfterPartial gf i l q).Within i := by
  have hg : (groupDecision i l).Within i := by
    cases l with
    | none => exact List.suffix_refl _
    | some l' => exact groupDecision_within (h l' rfl)
  unfold parenAfterPartial
  cases gf with
  | true =>
    simp only [if_true]
    cases eg : groupDecision i l with
    | ok t r => rw [eg] at hg; exact hg
    | err x c => cases q <;> first | exact hq | trivial | exact List.suffix_refl _
    | out => cases q <;> first | exact hq | trivial | exact List.suffix_refl _
  | false =>
    simp only [Bool.false_eq_true, if_false]
    cases q with
    | ok t r => exact hq
    | out => trivial
    | err x c => exact hg

theorem parenType_sound (gf : Bool) : Sound (parenType gf k) := by
  intro i
  unfold parenType
  have hq := parenProcessType_sound hk i
  cases e : parenList k i with
  | out => trivial
  | err x c => exact parenAfterPartial_within hq (by intro l' h; cases h)
  | ok l pos =>
    have hpos := (parenList_sound hk).ok e
    have hfe : ∀ l', some l = some l' → ∀ fe, l'.firstEnd = some fe → fe <:+ i := by
      intro l' h fe hf; cases h; exact parenList_firstEnd hk e hf
    dsimp only
    cases e2 : closeParen pos with
    | ok u rest =>
      dsimp only
      split
      · exact List.IsSuffix.trans (Sound.closeParen.ok e2) hpos
      · exact parenAfterPartial_within hq hfe
    | err x c => exact parenAfterPartial_within hq hfe
    | out => exact parenAfterPartial_within hq hfe

theorem functionIoTypeF_sound : Sound (functionIoTypeF k) := by
  unfold functionIoTypeF
  have := namedPartialType_sound hk; have := parenType_sound hk true; have := parenType_sound hk false; have := tupleType_sound hk
  have := Sound.resourceType; have := Sound.typeCycle; have := atProcessType_sound hk
  have := moduleType_sound hk; have := typeIdentifier_sound hk; have := selfDefaultType_sound hk
  sound_tac
theorem functionTypeF_sound : Sound (functionTypeF k) := by
  unfold functionTypeF; have := functionIoTypeF_sound hk; have := Sound.arrow; sound_tac
theorem baseTypeF_sound : Sound (baseTypeF k) := by
  unfold baseTypeF
  have := namedPartialType_sound hk; have := parenType_sound hk true; have := parenType_sound hk false; have := tupleType_sound hk
  have := Sound.resourceType; have := Sound.typeCycle; have := atProcessType_sound hk
  have := moduleType_sound hk; have := typeIdentifier_sound hk; have := selfDefaultType_sound hk
  have := Sound.typeParameter
  sound_tac
end

theorem typeDefinitionF_sound {k : Knot} (hk : KSound k) {bt : P Ty} (hb : Sound bt) :
    Sound (typeDefinitionF k bt) := by
  unfold typeDefinitionF
  have := functionTypeF_sound hk; have := intersectionType_sound hb; have := Sound.barOp '|'
  sound_tac

theorem KSound.stepF {k : Knot} (hk : KSound k) : KSound k.stepF :=
  ⟨typeDefinitionF_sound hk (baseTypeF_sound hk), baseTypeF_sound hk⟩

/-! ### Fuel: total below a length, monotone -/

section
variable {k : Knot} {m : Nat} (sk : KSound k) (hk : KTot m k)
include sk hk

theorem namedPartialType_tot : Tot (m + 1) (namedPartialType k) := by
  unfold namedPartialType
  have := fieldsIn_sound sk '(' ')'; have := fieldsIn_tot sk hk '(' ')'
  tot_tac

theorem parenProcessType_tot : Tot (m + 1) (parenProcessType k) := by
  unfold parenProcessType
  have := sk.2; have := hk.2
  refine Tot.delimited_strict (Strict.pchar _) ?_ ?_ ?_ ?_
  · tot_tac
  · tot_tac
  · refine Tot.alt (Tot.pmap (Tot.seq ?_ ?_ ?_)) (Tot.seq ?_ ?_ ?_) <;> tot_tac
  · tot_tac

theorem atProcessType_tot : Tot (m + 1) (atProcessType k) := by
  unfold atProcessType
  have := sk.2; have := hk.2
  refine Tot.seq_strict (Strict.pchar _) ?_ ?_ <;> tot_tac

theorem parenList_tot : Tot (m + 1) (parenList k) := by
  unfold parenList
  have := fieldType_sound sk; have := fieldType_tot sk hk
  refine Tot.seq_strict (Strict.pchar _) (NoOut.tot (NoOut.pchar _) _)
    (Tot.withInput fun _ => Tot.seq Sound.wsc (NoOut.tot NoOut.wsc _)
      (Tot.withInput fun _ => Tot.pmap (Tot.sepList0Pos Sound.commaWsc (fieldType_sound sk)
        (Tot.commaWsc _) (fieldType_tot sk hk))))

theorem parenType_tot (gf : Bool) : Tot (m + 1) (parenType gf k) := by
  intro i hi
  have h1 := parenList_tot sk hk i hi
  have h2 := parenProcessType_tot sk hk i hi
  unfold parenType
  have hgd : ∀ l, groupDecision i l ≠ .out := by
    intro l; unfold groupDecision
    split
    · split
      · split <;> simp
      · simp
    · simp
  have hap : ∀ l, parenAfterPartial gf i l (parenProcessType k i) ≠ .out := by
    intro l; unfold parenAfterPartial
    cases gf with
    | true =>
      simp only [if_true]
      cases eg : groupDecision i l with
      | ok t r => simp
      | out => exact absurd eg (hgd l)
      | err x c =>
        dsimp only
        cases e : parenProcessType k i with
        | ok t r => simp
        | out => exact absurd e h2
        | err x c => simp
    | false =>
      simp only [Bool.false_eq_true, if_false]
      cases e : parenProcessType k i with
      | ok t r => simp
      | out => exact absurd e h2
      | err x c => exact hgd l
  cases e : parenList k i with
  | out => exact absurd e h1
  | err x c => exact hap none
  | ok l pos =>
    dsimp only
    cases e2 : closeParen pos with
    | ok u rest =>
      dsimp only
      split
      · simp
      · exact hap _
    | err x c => exact hap _
    | out => exact hap _

theorem functionIoTypeF_tot : Tot (m + 1) (functionIoTypeF k) := by
  unfold functionIoTypeF
  have := namedPartialType_tot sk hk; have := parenType_tot sk hk true; have := parenType_tot sk hk false; have := tupleType_tot sk hk
  have := atProcessType_tot sk hk; have := moduleType_tot sk hk; have := typeIdentifier_tot sk hk
  have := selfDefaultType_tot sk hk
  tot_tac

theorem functionTypeF_tot : Tot (m + 1) (functionTypeF k) := by
  unfold functionTypeF
  have := functionIoTypeF_sound sk; have := functionIoTypeF_tot sk hk
  tot_tac

theorem baseTypeF_tot : Tot (m + 1) (baseTypeF k) := by
  unfold baseTypeF
  have := namedPartialType_tot sk hk; have := parenType_tot sk hk true; have := parenType_tot sk hk false; have := tupleType_tot sk hk
  have := atProcessType_tot sk hk; have := moduleType_tot sk hk; have := typeIdentifier_tot sk hk
  have := selfDefaultType_tot sk hk
  tot_tac
end

theorem typeDefinitionF_tot {k : Knot} {m : Nat} (sk : KSound k) (hk : KTot m k) {bt : P Ty}
    (sb : Sound bt) (hb : Tot (m + 1) bt) : Tot (m + 1) (typeDefinitionF k bt) := by
  unfold typeDefinitionF
  have := functionTypeF_tot sk hk
  have := intersectionType_sound sb; have := intersectionType_tot sb hb
  tot_tac

section
variable {k k' : Knot} (h : KLe k k')
include h

theorem namedPartialType_ple : PLe (namedPartialType k) (namedPartialType k') := by
  unfold namedPartialType; have := fieldsIn_ple h '(' ')'; ple_tac
theorem parenProcessType_ple : PLe (parenProcessType k) (parenProcessType k') := by
  unfold parenProcessType; have := h.2; ple_tac
theorem atProcessType_ple : PLe (atProcessType k) (atProcessType k') := by
  unfold atProcessType; have := h.2; ple_tac
theorem parenList_ple : PLe (parenList k) (parenList k') := by
  unfold parenList
  exact PLe.seq (PLe.refl _) (PLe.withInput fun _ => PLe.seq (PLe.refl _)
    (PLe.withInput fun _ => PLe.pmap (PLe.sepList0Pos (PLe.refl _) (fieldType_ple h))))

theorem parenType_ple (gf : Bool) : PLe (parenType gf k) (parenType gf k') := by
  intro i hne
  have hl := parenList_ple h i
  have hq := parenProcessType_ple h i
  unfold parenType at hne ⊢
  have hap : ∀ l, parenAfterPartial gf i l (parenProcessType k i) ≠ .out →
      parenAfterPartial gf i l (parenProcessType k' i) =
        parenAfterPartial gf i l (parenProcessType k i) := by
    intro l hn
    unfold parenAfterPartial at hn ⊢
    cases gf with
    | true =>
      simp only [if_true] at hn ⊢
      cases eg : groupDecision i l with
      | ok t r => rfl
      | out =>
        rw [eg] at hn; dsimp only at hn ⊢
        have : parenProcessType k i ≠ .out := by intro e; rw [e] at hn; simp at hn
        rw [hq this]
      | err x c =>
        rw [eg] at hn; dsimp only at hn ⊢
        have : parenProcessType k i ≠ .out := by intro e; rw [e] at hn; simp at hn
        rw [hq this]
    | false =>
      simp only [Bool.false_eq_true, if_false] at hn ⊢
      have : parenProcessType k i ≠ .out := by intro e; rw [e] at hn; simp at hn
      rw [hq this]
  cases e : parenList k i with
  | out => rw [e] at hne; exact absurd rfl hne
  | err x c =>
    rw [hl (by rw [e]; simp), e]
    rw [e] at hne
    exact hap none hne
  | ok l pos =>
    rw [hl (by rw [e]; simp), e]
    rw [e] at hne
    dsimp only at hne ⊢
    cases e2 : closeParen pos with
    | ok u rest =>
      rw [e2] at hne
      dsimp only at hne ⊢
      split
      · rfl
      · rename_i hp; simp only [hp] at hne; exact hap _ hne
    | err x c => rw [e2] at hne; exact hap _ hne
    | out => rw [e2] at hne; exact hap _ hne

theorem functionIoTypeF_ple : PLe (functionIoTypeF k) (functionIoTypeF k') := by
  unfold functionIoTypeF
  have := namedPartialType_ple h; have := parenType_ple h true; have := parenType_ple h false; have := tupleType_ple h
  have := atProcessType_ple h; have := moduleType_ple h; have := typeIdentifier_ple h
  have := selfDefaultType_ple h
  ple_tac
theorem functionTypeF_ple : PLe (functionTypeF k) (functionTypeF k') := by
  unfold functionTypeF; have := functionIoTypeF_ple h; ple_tac
theorem baseTypeF_ple : PLe (baseTypeF k) (baseTypeF k') := by
  unfold baseTypeF
  have := namedPartialType_ple h; have := parenType_ple h true; have := parenType_ple h false; have := tupleType_ple h
  have := atProcessType_ple h; have := moduleType_ple h; have := typeIdentifier_ple h
  have := selfDefaultType_ple h
  ple_tac
end

theorem typeDefinitionF_ple {k k' : Knot} (h : KLe k k') {bt bt' : P Ty} (hb : PLe bt bt') :
    PLe (typeDefinitionF k bt) (typeDefinitionF k' bt') := by
  unfold typeDefinitionF
  have := functionTypeF_ple h; have := intersectionType_ple hb
  ple_tac

/-! ### One level: the three old alternatives and `parenType` -/

/-- equal, or both errors (an error inside an `alt` chain only says "next alternative") -/
def Res.errEq {α : Type} (r r' : Res α) : Prop :=
  r = r' ∨ ((∃ e c, r = .err e c) ∧ (∃ e c, r' = .err e c))

theorem Res.errEq.rfl' {α : Type} (r : Res α) : Res.errEq r r := Or.inl rfl

theorem alt_congr {α : Type} {p p' q q' : P α} {i : Str} (h1 : Res.errEq (p i) (p' i))
    (h2 : Res.errEq (q i) (q' i)) : Res.errEq (alt p q i) (alt p' q' i) := by
  rcases h1 with h1 | ⟨⟨e, c, h1⟩, ⟨e', c', h1'⟩⟩
  · unfold alt; rw [h1]
    cases p' i with
    | ok a r => exact Or.inl rfl
    | out => exact Or.inl rfl
    | err x y => exact h2
  · rw [alt_of_fails ⟨e, c, h1⟩, alt_of_fails ⟨e', c', h1'⟩]; exact h2

/-- an alternative chain that ends in the same LAST alternative gives equal results -/
theorem alt_last {α : Type} {p p' q : P α} {i : Str} (h : Res.errEq (p i) (p' i)) :
    alt p q i = alt p' q i := by
  rcases h with h | ⟨⟨e, c, h1⟩, ⟨e', c', h1'⟩⟩
  · unfold alt; rw [h]
  · rw [alt_of_fails ⟨e, c, h1⟩, alt_of_fails ⟨e', c', h1'⟩]

theorem dropWhile_head {p : Char → Bool} {s : Str} {c : Char} {r : Str}
    (h : s.dropWhile p = c :: r) : p c = false := by
  induction s with
  | nil => simp at h
  | cons x xs ih =>
    by_cases hx : p x = true
    · simp only [List.dropWhile_cons, hx, if_true] at h; exact ih h
    · simp only [List.dropWhile_cons, hx] at h
      simp only [Bool.false_eq_true, if_false, List.cons.injEq] at h
      rw [← h.1]; simpa using hx

theorem skipWsc_dropWhile (s : Str) :
    skipWsc false s = skipWsc false (s.dropWhile isMultispace) := by
  induction s with
  | nil => rfl
  | cons c r ih =>
    by_cases hc : isMultispace c = true
    · have h1 : skipWsc false (c :: r) = skipWsc false r := by
        rw [skipWsc]; simp [hc]
        all_goals (intro r' e _; subst e; revert hc; decide)
      rw [List.dropWhile_cons, if_pos hc, ← ih, h1]
    · rw [List.dropWhile_cons, if_neg hc]

/-- behind whitespace, `wsc` skips more than `ws0` only if a comment starts there -/
theorem skipWsc_ne_comment {y : Str} (hy : ∀ c r, y = c :: r → isMultispace c = false)
    (h : skipWsc false y ≠ y) : ∃ t, y = '/' :: '/' :: t := by
  cases y with
  | nil => simp [skipWsc] at h
  | cons c r =>
    have hc := hy c r rfl
    unfold skipWsc at h
    simp only [Bool.false_eq_true, if_false, hc] at h
    split at h
    · rename_i r'; exact ⟨r', rfl⟩
    · exact absurd rfl h

theorem sepList0_eq_pos {α β : Type} (sep : P β) (p : P α) (i : Str) :
    sepList0 sep p i = pmap (sepList0Pos sep p) (fun r => r.1) i := by
  simp only [sepList0, sepList0Pos, pmap]
  cases e : p i with
  | ok a r =>
    dsimp only
    cases e2 : sepLoop sep p (r.length + 1) r <;> rfl
  | err x c => rfl
  | out => rfl

theorem sepLoop_no_err {α β : Type} {sep : P β} {p : P α} (hs : Strict sep) (n : Nat) :
    ∀ i e c, sepLoop sep p n i ≠ .err e c := by
  induction n with
  | zero => intro i e c; simp [sepLoop]
  | succ n ih =>
    intro i e c
    simp only [sepLoop]
    cases h : sep i with
    | ok b i1 =>
      have := hs.ok h
      have hne : ¬ i1.length = i.length := by omega
      simp only [hne, if_false]
      cases h1 : p i1 with
      | ok a i2 =>
        dsimp only
        cases h2 : sepLoop sep p n i2 with
        | ok as r' => simp
        | err x y => exact absurd h2 (ih i2 x y)
        | out => simp
      | err x y => simp
      | out => simp
    | err x y => simp
    | out => simp

theorem alt_ok_inv {α : Type} {p q : P α} {i r : Str} {a : α} (h : alt p q i = .ok a r) :
    p i = .ok a r ∨ (Fails p i ∧ q i = .ok a r) := by
  unfold alt at h
  cases e : p i with
  | ok b r' => rw [e] at h; exact Or.inl h
  | err x y => rw [e] at h; exact Or.inr ⟨⟨x, y, e⟩, h⟩
  | out => rw [e] at h; simp at h

theorem bind_ok_inv {α β : Type} {p : P α} {q : α → P β} {i r : Str} {b : β}
    (h : bind p q i = .ok b r) : ∃ a r1, p i = .ok a r1 ∧ q a r1 = .ok b r := by
  unfold Parse.bind at h
  cases e : p i with
  | ok a r1 => rw [e] at h; exact ⟨a, r1, rfl, h⟩
  | err x y => rw [e] at h; simp at h
  | out => rw [e] at h; simp at h

theorem seq_ok_inv {α β : Type} {p : P α} {q : P β} {i r : Str} {b : β}
    (h : seq p q i = .ok b r) : ∃ a r1, p i = .ok a r1 ∧ q r1 = .ok b r := bind_ok_inv h

theorem pmap_ok_inv {α β : Type} {p : P α} {f : α → β} {i r : Str} {b : β}
    (h : pmap p f i = .ok b r) : ∃ a, p i = .ok a r ∧ b = f a := by
  unfold Parse.pmap at h
  cases e : p i with
  | ok a r1 =>
    rw [e] at h
    simp only [Res.ok.injEq] at h
    exact ⟨a, by rw [h.2], h.1.symm⟩
  | err x y => rw [e] at h; simp at h
  | out => rw [e] at h; simp at h

/-- a positional field can only come from the `type_definition` arm of `field_type` -/
theorem fieldType_none {k : Knot} {content p2 : Str} {T : Ty}
    (h : fieldType k content = .ok (.field none T) p2) : k.td content = .ok T p2 := by
  unfold fieldType at h
  rcases alt_ok_inv h with h1 | ⟨_, h1⟩
  · obtain ⟨u, r1, _, h2⟩ := seq_ok_inv h1
    obtain ⟨b, _, hb⟩ := pmap_ok_inv h2
    cases b with
    | none => simp at hb
    | some pr => simp at hb
  · rcases alt_ok_inv h1 with h2 | ⟨_, h2⟩
    · obtain ⟨n, r1, _, h3⟩ := bind_ok_inv h2
      obtain ⟨_, r2, _, h4⟩ := seq_ok_inv h3
      obtain ⟨_, r3, _, h5⟩ := seq_ok_inv h4
      obtain ⟨t, _, ht⟩ := pmap_ok_inv h5
      simp at ht
    · obtain ⟨t, h3, ht⟩ := pmap_ok_inv h2
      simp only [Field.field.injEq, true_and] at ht
      rw [ht]; exact h3

/-- What `paren_type` needs to know about the knot: it is one unfolding of a grammar (so it rejects
    by the first character, and skips a comment only in front of a leading `|`). -/
structure KHead (k : Knot) : Prop where
  lowdot : ∀ (c : Char) (s : Str), c = '.' ∨ isLower c = true → Fails k.td (c :: s)
  commentBar : ∀ t : Str, headIs '|' (skipWsc false ('/' :: '/' :: t)) = true →
    k.td ('/' :: '/' :: t) = k.td (skipWsc false ('/' :: '/' :: t))
  commentNoBar : ∀ t : Str, headIs '|' (skipWsc false ('/' :: '/' :: t)) = false →
    Fails k.td ('/' :: '/' :: t)

section
variable {k : Knot} (hk : KHead k)
include hk

/-- the heart: with the type read at `content`, the grouping arm and the grouping decision agree -/
theorem group_core {i content pos : Str} {fields : List Field} {firstEnd : Option Str}
    (afterOpen : Str)
    (hl : sepList0Pos commaWsc (fieldType k) content = .ok (fields, firstEnd) pos)
    (hcond : ((afterOpen.dropWhile isMultispace).length = content.length || headIs '|' content) = true) :
    Res.errEq (before k.td (seq ws0 (pchar ')')) content)
      (groupDecision i (some ⟨fields, firstEnd, afterOpen, content⟩)) := by
  have hno : ∀ x, seq ws0 (pchar ')') x ≠ .out := by
    intro x
    have : Tot (x.length + 1) (seq ws0 (pchar ')')) := by noout_tac
    exact this x (Nat.lt_succ_self _)
  unfold sepList0Pos at hl
  simp only [before]
  cases htd : k.td content with
  | ok T p2 =>
    -- the field at `content` is the positional field `T`
    have hhead : headAll (fun c => c != '.' && !isLower c) content = true := by
      cases content with
      | nil => rfl
      | cons c r =>
        simp only [headAll, Bool.and_eq_true, bne_iff_ne, ne_eq, Bool.not_eq_true']
        refine ⟨fun e => ?_, ?_⟩
        · obtain ⟨x, y, hf⟩ := hk.lowdot c r (Or.inl e); rw [hf] at htd; simp at htd
        · cases hc : isLower c with
          | false => rfl
          | true => obtain ⟨x, y, hf⟩ := hk.lowdot c r (Or.inr hc); rw [hf] at htd; simp at htd
    have hft : fieldType k content = .ok (.field none T) p2 := by
      unfold fieldType
      rw [alt_of_fails (Fails.seq (ptag_fails_of_head rfl (by
          cases content with
          | nil => rfl
          | cons c r => simp only [headAll, Bool.and_eq_true, bne_iff_ne] at hhead; simpa [headAll] using hhead.1))),
        alt_of_fails (Fails.bind (identifier_fails_of_head (by
          cases content with
          | nil => rfl
          | cons c r => simp only [headAll, Bool.and_eq_true] at hhead; simpa [headAll] using hhead.2))),
        pmap_ok htd]
    rw [hft] at hl
    dsimp only at hl
    cases hsl : sepLoop commaWsc (fieldType k) (p2.length + 1) p2 with
    | out => rw [hsl] at hl; simp at hl
    | err x y => rw [hsl] at hl; simp at hl
    | ok more pos' =>
      rw [hsl] at hl
      simp only [Res.ok.injEq, Prod.mk.injEq] at hl
      obtain ⟨⟨hf, hfe⟩, _⟩ := hl
      subst hf hfe
      dsimp only
      cases more with
      | nil =>
        unfold groupDecision
        simp only [hcond, if_true]
        cases hcl : seq ws0 (pchar ')') p2 with
        | ok u r => exact Or.inl rfl
        | err x y => exact Or.inr ⟨⟨x, y, rfl⟩, ⟨i, .verify, rfl⟩⟩
        | out => exact absurd hcl (hno p2)
      | cons f2 more2 =>
        have hgd : groupDecision i (some ⟨Field.field none T :: f2 :: more2, some p2, afterOpen, content⟩) =
            .err i .verify := by simp [groupDecision]
        rw [hgd]
        -- a second field means a comma follows, so no `)` follows
        cases hcl : seq ws0 (pchar ')') p2 with
        | err x y => exact Or.inr ⟨⟨x, y, rfl⟩, ⟨i, .verify, rfl⟩⟩
        | out => exact absurd hcl (hno p2)
        | ok u r =>
          exfalso
          have hws : ∃ t, p2.dropWhile isMultispace = ')' :: t := by
            simp only [seq, Parse.bind, ws0, pchar] at hcl
            cases hd : p2.dropWhile isMultispace with
            | nil => rw [hd] at hcl; simp at hcl
            | cons c t =>
              rw [hd] at hcl
              by_cases hc : c = ')'
              · exact ⟨t, by rw [hc]⟩
              · simp [hc] at hcl
          obtain ⟨t, ht⟩ := hws
          have hsk : skipWsc false p2 = ')' :: t := by
            rw [skipWsc_dropWhile, ht]
            exact skipWsc_of_head (by simp [headAll, isMultispace])
          have hcomma : Fails commaWsc p2 :=
            Fails.seq_ok (a := ()) (r := ')' :: t) (by simp [wsc, hsk]) (Fails.seq (pchar_ne (by decide) _))
          obtain ⟨x, y, hx⟩ := hcomma
          simp [sepLoop, hx] at hsl
  | err x y =>
    dsimp only
    refine Or.inr ⟨⟨x, y, rfl⟩, ?_⟩
    -- no positional field can have been read at `content`
    have hnf : ∀ T p2, fieldType k content ≠ .ok (.field none T) p2 := by
      intro T p2 hft
      have := fieldType_none hft
      rw [htd] at this; simp at this
    unfold groupDecision
    split
    · rename_i t fe ao ct heq
      simp only [Option.some.injEq, ParenList.mk.injEq] at heq
      obtain ⟨hf, hfe, _, _⟩ := heq
      exfalso
      cases hft : fieldType k content with
      | ok f r =>
        rw [hft] at hl; dsimp only at hl
        cases hsl : sepLoop commaWsc (fieldType k) (r.length + 1) r with
        | ok more pos' =>
          rw [hsl] at hl
          simp only [Res.ok.injEq, Prod.mk.injEq] at hl
          rw [hf] at hl
          have : f = Field.field none t := by
            have := hl.1.1; simp only [List.cons.injEq] at this; exact this.1
          rw [this] at hft
          exact hnf t r hft
        | err a b => rw [hsl] at hl; simp at hl
        | out => rw [hsl] at hl; simp at hl
      | err a b =>
        rw [hft] at hl
        simp only [Res.ok.injEq, Prod.mk.injEq] at hl
        rw [hf] at hl; simp at hl
      | out => rw [hft] at hl; simp at hl
    · exact ⟨i, .verify, rfl⟩
  | out =>
    exfalso
    -- then the field list ran out of fuel as well
    have hhead : headAll (fun c => c != '.' && !isLower c) content = true := by
      cases content with
      | nil => rfl
      | cons c r =>
        simp only [headAll, Bool.and_eq_true, bne_iff_ne, ne_eq, Bool.not_eq_true']
        refine ⟨fun e => ?_, ?_⟩
        · obtain ⟨x, y, hf⟩ := hk.lowdot c r (Or.inl e); rw [hf] at htd; simp at htd
        · cases hc : isLower c with
          | false => rfl
          | true => obtain ⟨x, y, hf⟩ := hk.lowdot c r (Or.inr hc); rw [hf] at htd; simp at htd
    have hft : fieldType k content = .out := by
      unfold fieldType
      rw [alt_of_fails (Fails.seq (ptag_fails_of_head rfl (by
          cases content with
          | nil => rfl
          | cons c r => simp only [headAll, Bool.and_eq_true, bne_iff_ne] at hhead; simpa [headAll] using hhead.1))),
        alt_of_fails (Fails.bind (identifier_fails_of_head (by
          cases content with
          | nil => rfl
          | cons c r => simp only [headAll, Bool.and_eq_true] at hhead; simpa [headAll] using hhead.2)))]
      simp [Parse.pmap, htd]
    rw [hft] at hl; simp at hl

end

theorem before_before {α β γ : Type} (A : P α) (B : P β) (C : P γ) (x : Str) :
    before (before A B) C x = before A (seq B C) x := by
  simp only [before, seq, Parse.bind]
  cases A x with
  | ok a r =>
    dsimp only
    cases B r with
    | ok b r' => dsimp only
    | err e c => rfl
    | out => rfl
  | err e c => rfl
  | out => rfl

/-- the partial-type test of `paren_type`, as a function of the one parse -/
def partialDecision (i : Str) (rl : Res ParenList) : Res Ty :=
  match rl with
  | .out => .out
  | .err e c => .err e c
  | .ok l pos =>
    match closeParen pos with
    | .ok _ rest =>
      if isPartialFields l.fields then .ok (.tuple none l.fields true) rest else .err i .verify
    | .err e c => .err e c
    | .out => .out

theorem parenList_cons (k : Knot) (s : Str) :
    parenList k ('(' :: s) =
      pmap (sepList0Pos commaWsc (fieldType k)) (fun r => ⟨r.1, r.2, s, skipWsc false s⟩)
        (skipWsc false s) := by
  simp [parenList, seq, Parse.bind, pchar, withInput, wsc]

theorem fieldsIn_paren_cons (k : Knot) (s : Str) :
    fieldsIn '(' ')' k ('(' :: s) =
      before (sepList0 commaWsc (fieldType k)) closeParen (skipWsc false s) := by
  have : fieldsIn '(' ')' k ('(' :: s) =
      before (before (sepList0 commaWsc (fieldType k)) (opt (seq wsc (pchar ',')))) (seq wsc (pchar ')'))
        (skipWsc false s) := by
    simp [fieldsIn, delimited, seq, Parse.bind, pchar, wsc, fieldTypeList]
  rw [this, before_before]; rfl

theorem partial_rel (k : Knot) (s : Str) :
    Res.errEq (partialType k ('(' :: s)) (partialDecision ('(' :: s) (parenList k ('(' :: s))) := by
  unfold partialType
  rw [alt_of_fails (Fails.bind (tupleName_fails_of_head (by simp [headAll, isUpper])))]
  rw [parenList_cons]
  simp only [verify, pmap, fieldsIn_paren_cons, before, sepList0_eq_pos, partialDecision]
  cases e : sepList0Pos commaWsc (fieldType k) (skipWsc false s) with
  | out => exact Or.inl rfl
  | err x y => exact Or.inl rfl
  | ok r pos =>
    dsimp only
    cases e2 : closeParen pos with
    | ok u rest =>
      dsimp only
      by_cases hp : isPartialFields r.1 = true
      · simp only [isPartialFields] at hp
        simp [isPartialFields, hp]; exact Or.inl rfl
      · simp only [isPartialFields] at hp
        simp only [isPartialFields, hp]
        exact Or.inr ⟨⟨_, _, rfl⟩, ⟨_, _, rfl⟩⟩
    | err x y => exact Or.inl rfl
    | out => exact Or.inl rfl

theorem process_rel (k : Knot) (s : Str) :
    Res.errEq (processType k ('(' :: s)) (parenProcessType k ('(' :: s)) := by
  have hat : Fails (seq (pchar '@') (pmap (opt k.bt) fun a => Ty.proc a none)) ('(' :: s) :=
    Fails.seq (pchar_ne (by decide) _)
  show Res.errEq (alt (parenProcessType k) _ ('(' :: s)) _
  cases e : parenProcessType k ('(' :: s) with
  | ok t r => rw [alt_of_ok e]; exact Or.inl rfl
  | out => simp only [alt, e]; exact Or.inl rfl
  | err x y =>
    rw [alt_of_fails ⟨x, y, e⟩]
    obtain ⟨x', y', h'⟩ := hat
    exact Or.inr ⟨⟨x', y', h'⟩, ⟨x, y, rfl⟩⟩

theorem groupType_cons (k : Knot) (s : Str) :
    groupType k ('(' :: s) =
      before k.td (seq ws0 (pchar ')')) (s.dropWhile isMultispace) := by
  simp [groupType, delimited, seq, Parse.bind, pchar, ws0]

section
variable {k : Knot} (hk : KHead k)
include hk

theorem group_rel {s pos : Str} {l : ParenList} (h : parenList k ('(' :: s) = .ok l pos) :
    Res.errEq (groupType k ('(' :: s)) (groupDecision ('(' :: s) (some l)) := by
  rw [parenList_cons] at h
  obtain ⟨r, hr, hl⟩ := pmap_ok_inv h
  subst hl
  have hr' : sepList0Pos commaWsc (fieldType k) (skipWsc false s) = .ok (r.1, r.2) pos := hr
  rw [groupType_cons]
  have hsuf : skipWsc false s <:+ s.dropWhile isMultispace := by
    rw [skipWsc_dropWhile]; exact skipWsc_suffix _ _
  by_cases hlen : (s.dropWhile isMultispace).length = (skipWsc false s).length
  · have heq : skipWsc false s = s.dropWhile isMultispace :=
      List.IsSuffix.eq_of_length hsuf hlen.symm
    have := group_core hk (i := '(' :: s) s hr' (by simp [hlen])
    rw [← heq]
    exact this
  · have hne : skipWsc false (s.dropWhile isMultispace) ≠ s.dropWhile isMultispace := by
      intro e; rw [← skipWsc_dropWhile] at e; rw [e] at hlen; exact hlen rfl
    obtain ⟨t, ht⟩ := skipWsc_ne_comment (fun c r e => dropWhile_head e) hne
    have hct : skipWsc false s = skipWsc false ('/' :: '/' :: t) := by rw [skipWsc_dropWhile, ht]
    cases hbar : headIs '|' (skipWsc false s) with
    | true =>
      have htd := hk.commentBar t (by rw [← hct]; exact hbar)
      have := group_core hk (i := '(' :: s) s hr' (by simp [hbar])
      rw [ht]
      have hb : before k.td (seq ws0 (pchar ')')) ('/' :: '/' :: t) =
          before k.td (seq ws0 (pchar ')')) (skipWsc false s) := by
        simp only [before, htd, ← hct]
      rw [hb]; exact this
    | false =>
      obtain ⟨x, y, hx⟩ := hk.commentNoBar t (by rw [← hct]; exact hbar)
      rw [ht]
      simp only [before, hx]
      refine Or.inr ⟨⟨x, y, rfl⟩, ?_⟩
      unfold groupDecision
      split
      · rename_i t' fe ao ct heq
        simp only [Option.some.injEq, ParenList.mk.injEq] at heq
        obtain ⟨_, _, h3, h4⟩ := heq
        subst h3 h4
        rw [if_neg (by simp [hlen, hbar])]
        exact ⟨_, _, rfl⟩
      · exact ⟨_, _, rfl⟩

omit hk in
theorem parenList_not_err (s : Str) (x : Str) (y : Code) : parenList k ('(' :: s) ≠ .err x y := by
  rw [parenList_cons]
  intro h
  simp only [pmap, sepList0Pos] at h
  cases e : fieldType k (skipWsc false s) with
  | ok a r =>
    rw [e] at h; dsimp only at h
    cases e2 : sepLoop commaWsc (fieldType k) (r.length + 1) r with
    | ok as r' => rw [e2] at h; simp at h
    | err a b => exact absurd e2 (sepLoop_no_err Strict.commaWsc _ _ _ _)
    | out => rw [e2] at h; simp at h
  | err a b => rw [e] at h; simp at h
  | out => rw [e] at h; simp at h

/-- **paren_eq**: on a `(`-headed input the three old alternatives, in the order of `base_type`
    (partial type, process form, grouping), and `paren_type` give the same result (up to which
    error is reported). -/
theorem paren_eq (s : Str) :
    Res.errEq (alt (partialType k) (alt (processType k) (groupType k)) ('(' :: s))
      (parenType false k ('(' :: s)) := by
  have hP := partial_rel k s
  have hQ := process_rel k s
  unfold parenType
  cases e : parenList k ('(' :: s) with
  | out =>
    rw [e] at hP
    simp only [partialDecision] at hP
    rcases hP with hP | ⟨_, ⟨_, _, h⟩⟩
    · simp only [alt, hP]; exact Or.inl rfl
    · simp at h
  | err x y => exact absurd e (parenList_not_err s x y)
  | ok l pos =>
    rw [e] at hP
    have hG := group_rel hk e
    have hrest : Res.errEq (alt (processType k) (groupType k) ('(' :: s))
        (parenAfterPartial false ('(' :: s) (some l) (parenProcessType k ('(' :: s))) := by
      unfold parenAfterPartial
      simp only [Bool.false_eq_true, if_false]
      rcases hQ with hQ | ⟨⟨a, b, h1⟩, ⟨a', b', h2⟩⟩
      · cases eq : parenProcessType k ('(' :: s) with
        | ok t r => rw [eq] at hQ; rw [alt_of_ok hQ]; exact Or.inl rfl
        | out => rw [eq] at hQ; simp only [alt, hQ]; exact Or.inl rfl
        | err a b => rw [eq] at hQ; rw [alt_of_fails ⟨a, b, hQ⟩]; exact hG
      · rw [alt_of_fails ⟨a, b, h1⟩, h2]; exact hG
    simp only [partialDecision] at hP
    dsimp only
    cases e2 : closeParen pos with
    | ok u rest =>
      rw [e2] at hP
      dsimp only at hP ⊢
      by_cases hp : isPartialFields l.fields = true
      · simp only [hp, if_true] at hP ⊢
        rcases hP with hP | ⟨_, ⟨_, _, h⟩⟩
        · rw [alt_of_ok hP]; exact Or.inl rfl
        · simp at h
      · simp only [hp] at hP ⊢
        rcases hP with hP | ⟨⟨a, b, h1⟩, _⟩
        · rw [alt_of_fails ⟨_, _, hP⟩]; exact hrest
        · rw [alt_of_fails ⟨a, b, h1⟩]; exact hrest
    | err a b =>
      rw [e2] at hP
      rcases hP with hP | ⟨⟨a', b', h1⟩, _⟩
      · rw [alt_of_fails ⟨_, _, hP⟩]; exact hrest
      · rw [alt_of_fails ⟨a', b', h1⟩]; exact hrest
    | out => exact absurd e2 (NoOut.closeParen pos)

/-- the same in the order of `function_input_type` (partial type, grouping, process form) -/
theorem paren_eq_gf (s : Str) :
    Res.errEq (alt (partialType k) (alt (groupType k) (processType k)) ('(' :: s))
      (parenType true k ('(' :: s)) := by
  have hP := partial_rel k s
  have hQ := process_rel k s
  unfold parenType
  cases e : parenList k ('(' :: s) with
  | out =>
    rw [e] at hP
    simp only [partialDecision] at hP
    rcases hP with hP | ⟨_, ⟨_, _, h⟩⟩
    · simp only [alt, hP]; exact Or.inl rfl
    · simp at h
  | err x y => exact absurd e (parenList_not_err s x y)
  | ok l pos =>
    rw [e] at hP
    have hG := group_rel hk e
    have hgno : groupDecision ('(' :: s) (some l) ≠ .out := by
      unfold groupDecision
      split
      · split
        · split <;> simp
        · simp
      · simp
    have hrest : Res.errEq (alt (groupType k) (processType k) ('(' :: s))
        (parenAfterPartial true ('(' :: s) (some l) (parenProcessType k ('(' :: s))) := by
      unfold parenAfterPartial
      simp only [if_true]
      have hQ' : Res.errEq (processType k ('(' :: s))
          (match parenProcessType k ('(' :: s) with
            | .ok t r => Res.ok t r
            | .out => Res.out
            | .err _ _ => Res.err ('(' :: s) .verify) := by
        rcases hQ with hQ | ⟨h1, ⟨a', b', h2⟩⟩
        · rw [hQ]; cases parenProcessType k ('(' :: s) with
          | ok t r => exact Or.inl rfl
          | out => exact Or.inl rfl
          | err a b => exact Or.inr ⟨⟨_, _, rfl⟩, ⟨_, _, rfl⟩⟩
        · rw [h2]; exact Or.inr ⟨h1, ⟨_, _, rfl⟩⟩
      rcases hG with hG | ⟨⟨a, b, h1⟩, ⟨a', b', h2⟩⟩
      · cases eg : groupDecision ('(' :: s) (some l) with
        | ok t r => rw [eg] at hG; rw [alt_of_ok hG]; exact Or.inl rfl
        | out => exact absurd eg hgno
        | err a b => rw [eg] at hG; rw [alt_of_fails ⟨a, b, hG⟩]; exact hQ'
      · rw [alt_of_fails ⟨a, b, h1⟩, h2]; exact hQ'
    simp only [partialDecision] at hP
    dsimp only
    cases e2 : closeParen pos with
    | ok u rest =>
      rw [e2] at hP
      dsimp only at hP ⊢
      by_cases hp : isPartialFields l.fields = true
      · simp only [hp, if_true] at hP ⊢
        rcases hP with hP | ⟨_, ⟨_, _, h⟩⟩
        · rw [alt_of_ok hP]; exact Or.inl rfl
        · simp at h
      · simp only [hp] at hP ⊢
        rcases hP with hP | ⟨⟨a, b, h1⟩, _⟩
        · rw [alt_of_fails ⟨_, _, hP⟩]; exact hrest
        · rw [alt_of_fails ⟨a, b, h1⟩]; exact hrest
    | err a b =>
      rw [e2] at hP
      rcases hP with hP | ⟨⟨a', b', h1⟩, _⟩
      · rw [alt_of_fails ⟨_, _, hP⟩]; exact hrest
      · rw [alt_of_fails ⟨a', b', h1⟩]; exact hrest
    | out => exact absurd e2 (NoOut.closeParen pos)

end

theorem partial_named {k : Knot} {i : Str} (hh : headAll (· ≠ '(') i = true) :
    Res.errEq (partialType k i) (namedPartialType k i) := by
  have hun : Fails (verify (pmap (fieldsIn '(' ')' k) fun fs => Ty.tuple none fs true)
      fun | .tuple _ fs _ => fs.isEmpty || fs.any Field.isNamed | _ => false) i :=
    Fails.verify (Fails.pmap (fieldsIn_fails_head k _ _ hh))
  show Res.errEq (alt (namedPartialType k) _ i) _
  cases e : namedPartialType k i with
  | ok t r => rw [alt_of_ok e]; exact Or.inl rfl
  | out => simp only [alt, e]; exact Or.inl rfl
  | err x y =>
    rw [alt_of_fails ⟨x, y, e⟩]
    obtain ⟨a, b, h⟩ := hun
    exact Or.inr ⟨⟨a, b, h⟩, ⟨x, y, rfl⟩⟩

theorem parenType_fails_head (gf : Bool) (k : Knot) {i : Str} (hh : headAll (· ≠ '(') i = true) :
    Fails (parenType gf k) i := by
  have h1 : Fails (parenList k) i := Fails.seq (pchar_fails_of_head hh)
  have h2 : Fails (parenProcessType k) i := Fails.delimited (pchar_fails_of_head hh)
  obtain ⟨a, b, h1⟩ := h1
  obtain ⟨c, d, h2⟩ := h2
  unfold Fails parenType
  simp only [h1, h2]
  cases gf <;> simp [parenAfterPartial, groupDecision]

theorem process_at {k : Knot} {i : Str} (hh : headAll (· ≠ '(') i = true) :
    processType k i = atProcessType k i := by
  show alt (parenProcessType k) (atProcessType k) i = _
  exact alt_of_fails (Fails.delimited (pchar_fails_of_head hh))

theorem baseTypeF_eq_nonparen (k : Knot) {i : Str} (hh : headAll (· ≠ '(') i = true) :
    baseTypeF k i = baseTypeWith k i := by
  obtain ⟨a, b, hg⟩ := groupType_fails_head k hh
  obtain ⟨c, d, hp⟩ := parenType_fails_head false k hh
  have hq := process_at (k := k) hh
  have hn := partial_named (k := k) hh
  simp only [baseTypeF, baseTypeWith, alt, hg, hp, hq]
  rcases hn with hn | ⟨⟨x, y, h1⟩, ⟨x', y', h2⟩⟩
  · rw [hn]
  · rw [h1, h2]

theorem functionIoTypeF_eq_nonparen (k : Knot) {i : Str} (hh : headAll (· ≠ '(') i = true) :
    functionIoTypeF k i = functionIoType k i := by
  obtain ⟨a, b, hg⟩ := groupType_fails_head k hh
  obtain ⟨c, d, hp⟩ := parenType_fails_head true k hh
  have hq := process_at (k := k) hh
  have hn := partial_named (k := k) hh
  simp only [functionIoTypeF, functionIoType, alt, hg, hp, hq]
  rcases hn with hn | ⟨⟨x, y, h1⟩, ⟨x', y', h2⟩⟩
  · rw [hn]
  · rw [h1, h2]


section
variable {k : Knot} (hk : KHead k)
include hk

theorem baseTypeF_eq_paren (s : Str) : baseTypeF k ('(' :: s) = baseTypeWith k ('(' :: s) := by
  obtain ⟨a1, b1, h1⟩ := tupleType_fails_head k (i := '(' :: s) (by simp [headAll, isUpper])
  obtain ⟨a2, b2, h2⟩ := resourceType_fails_head (i := '(' :: s) (by simp [headAll])
  obtain ⟨a3, b3, h3⟩ := typeCycle_fails_head (i := '(' :: s) (by simp [headAll])
  obtain ⟨a4, b4, h4⟩ := typeParameter_fails_head (i := '(' :: s) (by simp [headAll])
  obtain ⟨a5, b5, h5⟩ := moduleType_fails_head k (i := '(' :: s) (by simp [headAll])
  obtain ⟨a6, b6, h6⟩ := typeIdentifier_fails_head k (i := '(' :: s) (by simp [headAll])
  have h7 : Fails (namedPartialType k) ('(' :: s) :=
    Fails.bind (tupleName_fails_of_head (by simp [headAll, isUpper]))
  obtain ⟨a7, b7, h7⟩ := h7
  have h8 : Fails (atProcessType k) ('(' :: s) := Fails.seq (pchar_ne (by decide) _)
  obtain ⟨a8, b8, h8⟩ := h8
  have hx := paren_eq hk s
  simp only [alt] at hx
  simp only [baseTypeF, baseTypeWith, alt, h1, h2, h3, h4, h5, h6, h7, h8]
  cases hP : partialType k ('(' :: s) <;> cases hQ : processType k ('(' :: s) <;>
    cases hG : groupType k ('(' :: s) <;> simp only [hP, hQ, hG] at hx ⊢ <;>
    (rcases hx with hx | ⟨⟨_, _, e1⟩, ⟨_, _, e2⟩⟩
     · rw [← hx]
     · first | (cases e1; done) | (rw [e2]))

theorem functionIoTypeF_eq_paren (s : Str) :
    functionIoTypeF k ('(' :: s) = functionIoType k ('(' :: s) := by
  obtain ⟨a1, b1, h1⟩ := tupleType_fails_head k (i := '(' :: s) (by simp [headAll, isUpper])
  obtain ⟨a2, b2, h2⟩ := resourceType_fails_head (i := '(' :: s) (by simp [headAll])
  obtain ⟨a3, b3, h3⟩ := typeCycle_fails_head (i := '(' :: s) (by simp [headAll])
  obtain ⟨a5, b5, h5⟩ := moduleType_fails_head k (i := '(' :: s) (by simp [headAll])
  obtain ⟨a6, b6, h6⟩ := typeIdentifier_fails_head k (i := '(' :: s) (by simp [headAll])
  have h7 : Fails (namedPartialType k) ('(' :: s) :=
    Fails.bind (tupleName_fails_of_head (by simp [headAll, isUpper]))
  obtain ⟨a7, b7, h7⟩ := h7
  have h8 : Fails (atProcessType k) ('(' :: s) := Fails.seq (pchar_ne (by decide) _)
  obtain ⟨a8, b8, h8⟩ := h8
  have hx := paren_eq_gf hk s
  simp only [alt] at hx
  simp only [functionIoTypeF, functionIoType, alt, h1, h2, h3, h5, h6, h7, h8]
  cases hP : partialType k ('(' :: s) <;> cases hQ : processType k ('(' :: s) <;>
    cases hG : groupType k ('(' :: s) <;> simp only [hP, hQ, hG] at hx ⊢ <;>
    (rcases hx with hx | ⟨⟨_, _, e1⟩, ⟨_, _, e2⟩⟩
     · rw [← hx]
     · first | (cases e1; done) | (rw [e2]))

/-- one level, every input: the patched `base_type` is the old one -/
theorem baseTypeF_eq : baseTypeF k = baseTypeWith k := by
  funext i
  cases i with
  | nil => exact baseTypeF_eq_nonparen k rfl
  | cons c s =>
    by_cases hc : c = '('
    · subst hc; exact baseTypeF_eq_paren hk s
    · exact baseTypeF_eq_nonparen k (by simpa [headAll] using hc)

theorem functionIoTypeF_eq : functionIoTypeF k = functionIoType k := by
  funext i
  cases i with
  | nil => exact functionIoTypeF_eq_nonparen k rfl
  | cons c s =>
    by_cases hc : c = '('
    · subst hc; exact functionIoTypeF_eq_paren hk s
    · exact functionIoTypeF_eq_nonparen k (by simpa [headAll] using hc)

theorem typeDefinitionF_eq :
    typeDefinitionF k (baseTypeF k) = typeDefinitionWith k (baseTypeWith k) := by
  unfold typeDefinitionF typeDefinitionWith functionTypeF functionType
  rw [baseTypeF_eq hk, functionIoTypeF_eq hk]

end

/-! ### Every unfolded knot has `KHead` -/

/-- the first character cannot start a type (nor whitespace / a comment in front of a leading `|`) -/
def notTypeStart (c : Char) : Bool :=
  !isUpper c && c != '\'' && c != '[' && c != '(' && c != '#' && c != '|' && c != '\\' &&
  c != '^' && c != '@' && c != '<' && c != '/' && !isMultispace c

theorem base_fails_head (k : Knot) {c : Char} (s : Str)
    (hc : (!isUpper c && c != '\'' && c != '[' && c != '(' && c != '\\' && c != '^' && c != '@' &&
      c != '<') = true) : Fails (baseTypeWith k) (c :: s) := by
  simp only [Bool.and_eq_true, Bool.not_eq_true', bne_iff_ne, ne_eq] at hc
  obtain ⟨⟨⟨⟨⟨⟨⟨h1, h2⟩, h3⟩, h4⟩, h5⟩, h6⟩, h7⟩, h8⟩ := hc
  have hd : ∀ d : Char, c ≠ d → headAll (· ≠ d) (c :: s) = true := by
    intro d h; simpa [headAll] using h
  unfold baseTypeWith
  refine Fails.alt (tupleType_fails_head k (by simp [headAll, h1, h2, h3]))
    (Fails.alt (partialType_fails_head k (by simp [headAll, h1, h4])) ?_)
  refine Fails.alt (resourceType_fails_head (hd _ h5)) ?_
  refine Fails.alt (typeCycle_fails_head (hd _ h6)) ?_
  refine Fails.alt (processType_fails_head k (hd _ h4) (hd _ h7)) ?_
  refine Fails.alt (typeParameter_fails_head (hd _ h8)) ?_
  refine Fails.alt (moduleType_fails_head k (hd _ h2)) ?_
  refine Fails.alt (groupType_fails_head k (hd _ h4)) ?_
  refine Fails.alt (typeIdentifier_fails_head k (hd _ h2)) ?_
  exact Fails.seq (pchar_fails_of_head (hd _ h2))

theorem td_fails_head (k : Knot) {c : Char} (s : Str) (hc : notTypeStart c = true) :
    Fails (typeDefinitionWith k (baseTypeWith k)) (c :: s) := by
  have hc' := hc
  simp only [notTypeStart, Bool.and_eq_true, Bool.not_eq_true', bne_iff_ne, ne_eq] at hc'
  obtain ⟨⟨⟨⟨⟨⟨⟨⟨⟨⟨⟨h1, h2⟩, h3⟩, h4⟩, h5⟩, h6⟩, h7⟩, h8⟩, h9⟩, h10⟩, h11⟩, h12⟩ := hc'
  have hwsc : wsc (c :: s) = .ok () (c :: s) := wsc_of_head (by simp [headAll, h12, h11])
  unfold typeDefinitionWith
  refine Fails.alt (functionType_fails_head k (by simpa [headAll] using h5)) ?_
  have hbar : Fails (barOp '|') (c :: s) :=
    Fails.seq_ok (a := ()) hwsc (Fails.seq (pchar_ne h6 _))
  refine Fails.seq_ok (opt_of_fails hbar) (Fails.bind (Fails.bind ?_))
  exact base_fails_head k s (by simp [h1, h2, h3, h4, h7, h8, h9, h10])

theorem lower_notTypeStart {c : Char} (h : isLower c = true) : notTypeStart c = true := by
  have h' := h
  simp only [isLower, Bool.and_eq_true, decide_eq_true_eq] at h'
  have hu : isUpper c = false := (lower_facts h).1
  have hws := lower_not_ws h
  simp only [Bool.and_eq_true, Bool.not_eq_true', bne_iff_ne, ne_eq] at hws
  simp only [notTypeStart, Bool.and_eq_true, Bool.not_eq_true', bne_iff_ne, ne_eq, hu, hws.1, true_and,
    and_true]
  refine ⟨⟨⟨⟨⟨⟨⟨⟨⟨?_, ?_⟩, ?_⟩, ?_⟩, ?_⟩, ?_⟩, ?_⟩, ?_⟩, ?_⟩, ?_⟩ <;>
    (intro e; subst e; revert h; decide)

theorem KHead.step (k : Knot) : KHead k.step where
  lowdot := by
    intro c s hc
    simp only [Knot.step]
    rcases hc with rfl | hc
    · exact td_fails_head k s (by decide)
    · exact td_fails_head k s (lower_notTypeStart hc)
  commentBar := by
    intro t hbar
    simp only [Knot.step]
    cases hq : skipWsc false ('/' :: '/' :: t) with
    | nil => rw [hq] at hbar; simp [headIs] at hbar
    | cons d q0 =>
      rw [hq] at hbar
      have hd : d = '|' := by simpa [headIs] using hbar
      subst hd
      have hb1 : barOp '|' ('/' :: '/' :: t) = .ok () (skipWsc false q0) := by
        simp [barOp, seq, Parse.bind, wsc, hq, pchar]
      have hb2 : barOp '|' ('|' :: q0) = .ok () (skipWsc false q0) := by
        have : skipWsc false ('|' :: q0) = '|' :: q0 :=
          skipWsc_of_head (by simp [headAll, isMultispace])
        simp [barOp, seq, Parse.bind, wsc, this, pchar]
      unfold typeDefinitionWith
      rw [alt_of_fails (functionType_fails_head k (by simp [headAll])),
        alt_of_fails (functionType_fails_head k (by simp [headAll])),
        seq_ok (opt_ok hb1), seq_ok (opt_ok hb2)]
  commentNoBar := by
    intro t hbar
    simp only [Knot.step]
    unfold typeDefinitionWith
    refine Fails.alt (functionType_fails_head k (by simp [headAll])) ?_
    have hb : Fails (barOp '|') ('/' :: '/' :: t) := by
      refine Fails.seq_ok (a := ()) (r := skipWsc false ('/' :: '/' :: t)) (by simp [wsc]) (Fails.seq ?_)
      cases hq : skipWsc false ('/' :: '/' :: t) with
      | nil => exact pchar_nil _
      | cons d q0 =>
        rw [hq] at hbar
        exact pchar_ne (by simpa [headIs] using hbar) _
    refine Fails.seq_ok (opt_of_fails hb) (Fails.bind (Fails.bind ?_))
    exact base_fails_head k _ (by decide)

theorem knot_khead (n : Nat) : KHead (knot (n + 1)) := KHead.step (knot n)

/-! ### The two grammars are the same function of the input -/

/-- the knot `knot n`, cut off (fuel-out) at inputs of length `≥ n` -/
def knotCut (n : Nat) : Knot :=
  { td := fun j => if j.length < n then (knot n).td j else .out,
    bt := fun j => if j.length < n then (knot n).bt j else .out }

theorem knotCut_sound (n : Nat) : KSound (knotCut n) := by
  have := knot_sound n
  constructor
  · intro j; simp only [knotCut]; split
    · exact this.1 j
    · trivial
  · intro j; simp only [knotCut]; split
    · exact this.2 j
    · trivial

theorem knotCut_tot (n : Nat) : KTot n (knotCut n) := by
  have := knot_tot n
  constructor
  · intro j hj; simp only [knotCut, hj, if_true]; exact this.1 j hj
  · intro j hj; simp only [knotCut, hj, if_true]; exact this.2 j hj

theorem knotCut_le (n : Nat) : KLe (knotCut n) (knot n) := by
  constructor
  · intro j hj; simp only [knotCut] at hj ⊢; split at hj
    · rename_i h; simp [h]
    · exact absurd rfl hj
  · intro j hj; simp only [knotCut] at hj ⊢; split at hj
    · rename_i h; simp [h]
    · exact absurd rfl hj

theorem base_fails_nil (k : Knot) : Fails (baseTypeWith k) [] := by
  unfold baseTypeWith
  refine Fails.alt (tupleType_fails_head k rfl) (Fails.alt (partialType_fails_head k rfl) ?_)
  refine Fails.alt (resourceType_fails_head rfl) ?_
  refine Fails.alt (typeCycle_fails_head rfl) ?_
  refine Fails.alt (processType_fails_head k rfl rfl) ?_
  refine Fails.alt (typeParameter_fails_head rfl) ?_
  refine Fails.alt (moduleType_fails_head k rfl) ?_
  refine Fails.alt (groupType_fails_head k rfl) ?_
  refine Fails.alt (typeIdentifier_fails_head k rfl) ?_
  exact Fails.seq (pchar_fails_of_head rfl)

theorem td_nil_eq (k : Knot) :
    typeDefinitionF k (baseTypeF k) [] = typeDefinitionWith k (baseTypeWith k) [] := by
  have hb := baseTypeF_eq_nonparen k (i := []) rfl
  obtain ⟨e, c, he⟩ := base_fails_nil k
  simp [typeDefinitionF, typeDefinitionWith, alt, functionTypeF, functionType, seq, Parse.bind,
    pchar, opt, barOp, wsc, skipWsc, intersectionType, hb, he]

/-- **knotF_eq**: with any fuel, on every input within that fuel, the left-factored grammar and the
    original grammar give the same answer (value, remainder, error position and code). -/
theorem knotF_eq (n : Nat) : ∀ i : Str, i.length < n →
    (knotF n).td i = (knot n).td i ∧ (knotF n).bt i = (knot n).bt i := by
  induction n with
  | zero => intro i h; omega
  | succ n ih =>
    intro i hi
    -- the cut knot is below both
    have hle1 := knotCut_le n
    have hle2 : KLe (knotCut n) (knotF n) := by
      constructor
      · intro j hj; simp only [knotCut] at hj ⊢; split at hj
        · rename_i h; simp only [h, if_true]; exact (ih j h).1
        · exact absurd rfl hj
      · intro j hj; simp only [knotCut] at hj ⊢; split at hj
        · rename_i h; simp only [h, if_true]; exact (ih j h).2
        · exact absurd rfl hj
    have sk := knotCut_sound n
    have tk := knotCut_tot n
    have hbt : baseTypeF (knotF n) i = baseTypeF (knot n) i := by
      have hne := baseTypeF_tot sk tk i hi
      rw [baseTypeF_ple hle2 i hne, baseTypeF_ple hle1 i hne]
    have htd : typeDefinitionF (knotF n) (baseTypeF (knotF n)) i =
        typeDefinitionF (knot n) (baseTypeF (knot n)) i := by
      have hne := typeDefinitionF_tot sk tk (baseTypeF_sound sk) (baseTypeF_tot sk tk) i hi
      rw [typeDefinitionF_ple hle2 (baseTypeF_ple hle2) i hne,
        typeDefinitionF_ple hle1 (baseTypeF_ple hle1) i hne]
    show typeDefinitionF (knotF n) (baseTypeF (knotF n)) i = typeDefinitionWith (knot n) (baseTypeWith (knot n)) i ∧
      baseTypeF (knotF n) i = baseTypeWith (knot n) i
    rw [hbt, htd]
    cases n with
    | zero =>
      have : i = [] := List.eq_nil_of_length_eq_zero (by omega)
      subst this
      exact ⟨td_nil_eq _, baseTypeF_eq_nonparen _ rfl⟩
    | succ m =>
      have hk := knot_khead m
      exact ⟨by rw [typeDefinitionF_eq hk], by rw [baseTypeF_eq hk]⟩

end QM.Parse
