/-
M-Parse lemmas, part 3 — evaluation lemmas for the round-trip theorem: how the lexical parsers and
the combinators behave on a text of the form `printed ++ rest`.
-/
import QuiverModel.Lemmas.Parse.Grammar
namespace QM.Parse

/-- what may follow a name without being absorbed into it -/
def IdStop (rest : Str) : Prop :=
  match rest with
  | [] => True
  | c :: _ => isIdentBody c = false ∧ c ≠ '?' ∧ c ≠ '!'

theorem takeWhile_append_stop {p : Char → Bool} {a rest : Str} (ha : a.all p = true)
    (hr : ∀ c t, rest = c :: t → p c = false) :
    (a ++ rest).takeWhile p = a ∧ (a ++ rest).dropWhile p = rest := by
  induction a with
  | nil =>
    cases rest with
    | nil => simp
    | cons c t => simp [hr c t rfl]
  | cons x xs ih =>
    simp only [List.all_cons, Bool.and_eq_true] at ha
    simp [ha.1, ih ha.2]

theorem all_takeWhile (p : Char → Bool) (l : Str) : (l.takeWhile p).all p = true := by
  induction l with
  | nil => simp
  | cons x xs ih =>
    by_cases h : p x = true
    · simp [h, ih]
    · simp [h]

theorem tupleName_append {n rest : Str} (hn : isTupleNameStr n = true)
    (hr : ∀ c t, rest = c :: t → isIdentBody c = false) :
    tupleName (n ++ rest) = .ok n rest := by
  cases n with
  | nil => simp [isTupleNameStr] at hn
  | cons c r =>
    simp only [isTupleNameStr, Bool.and_eq_true] at hn
    have := takeWhile_append_stop hn.2 hr
    simp [tupleName, hn.1, this.1, this.2]

theorem identifier_append {n rest : Str} (hn : isIdentStr n = true) (hr : IdStop rest) :
    identifier (n ++ rest) = .ok n rest := by
  cases n with
  | nil => simp [isIdentStr] at hn
  | cons c r =>
    simp only [isIdentStr, Bool.and_eq_true, Bool.or_eq_true, decide_eq_true_eq] at hn
    obtain ⟨hc, hsuf⟩ := hn
    have hsplit : r = r.takeWhile isIdentBody ++ r.dropWhile isIdentBody :=
      List.takeWhile_append_dropWhile.symm
    have hall : (r.takeWhile isIdentBody).all isIdentBody = true := all_takeWhile _ _
    generalize hb : r.takeWhile isIdentBody = body at hsplit hall
    generalize hd : r.dropWhile isIdentBody = suf at hsplit hsuf
    have hrest : ∀ c t, rest = c :: t → isIdentBody c = false := by
      intro c t h; subst h; exact hr.1
    rcases hsuf with ((h | h) | h) | h <;> subst h
    · -- no suffix
      simp only [List.append_nil] at hsplit
      subst hsplit
      have := takeWhile_append_stop hall hrest
      cases rest with
      | nil =>
        simp only [List.append_nil] at this ⊢
        simp [identifier, hc, this.1, this.2]
      | cons d t =>
        obtain ⟨h1, h2, h3⟩ := hr
        simp only [identifier, List.cons_append, hc, if_true, this.1, this.2]
        split <;> simp_all
    · -- "?"
      subst hsplit
      have h1 : isIdentBody '?' = false := by decide
      have := takeWhile_append_stop (rest := '?' :: rest) hall (by intro c t h; cases h; exact h1)
      simp only [List.append_assoc, List.cons_append, List.nil_append] at this ⊢
      simp only [identifier, hc, if_true, this.1, this.2]
      cases rest with
      | nil => simp
      | cons d t =>
        obtain ⟨_, _, h3⟩ := hr
        simp [h3]
    · -- "!"
      subst hsplit
      have h1 : isIdentBody '!' = false := by decide
      have := takeWhile_append_stop (rest := '!' :: rest) hall (by intro c t h; cases h; exact h1)
      simp only [List.append_assoc, List.cons_append, List.nil_append] at this ⊢
      simp [identifier, hc, this.1, this.2]
    · -- "?!"
      subst hsplit
      have h1 : isIdentBody '?' = false := by decide
      have := takeWhile_append_stop (rest := '?' :: '!' :: rest) hall (by intro c t h; cases h; exact h1)
      simp only [List.append_assoc, List.cons_append, List.nil_append] at this ⊢
      simp [identifier, hc, this.1, this.2]


/-! ### Failing parsers -/

def Fails {α : Type} (p : P α) (i : Str) : Prop := ∃ e c, p i = .err e c

theorem alt_of_fails {α : Type} {p q : P α} {i : Str} (h : Fails p i) : Parse.alt p q i = q i := by
  obtain ⟨e, c, h⟩ := h; simp [alt, h]
theorem alt_of_ok {α : Type} {p q : P α} {i : Str} {a : α} {r : Str} (h : p i = .ok a r) :
    Parse.alt p q i = .ok a r := by simp [alt, h]
theorem Fails.alt {α : Type} {p q : P α} {i : Str} (hp : Fails p i) (hq : Fails q i) :
    Fails (Parse.alt p q) i := by rw [Fails, alt_of_fails hp]; exact hq
theorem Fails.bind {α β : Type} {p : P α} {q : α → P β} {i : Str} (h : Fails p i) :
    Fails (Parse.bind p q) i := by obtain ⟨e, c, h⟩ := h; exact ⟨e, c, by simp [Parse.bind, h]⟩
theorem Fails.bind_ok {α β : Type} {p : P α} {q : α → P β} {i r : Str} {a : α} (h : p i = .ok a r)
    (hq : Fails (q a) r) : Fails (Parse.bind p q) i := by
  obtain ⟨e, c, hq⟩ := hq; exact ⟨e, c, by simp [Parse.bind, h, hq]⟩
theorem Fails.seq {α β : Type} {p : P α} {q : P β} {i : Str} (h : Fails p i) : Fails (Parse.seq p q) i :=
  Fails.bind h
theorem Fails.seq_ok {α β : Type} {p : P α} {q : P β} {i r : Str} {a : α} (h : p i = .ok a r)
    (hq : Fails q r) : Fails (Parse.seq p q) i := Fails.bind_ok h hq
theorem Fails.pmap {α β : Type} {p : P α} {f : α → β} {i : Str} (h : Fails p i) :
    Fails (Parse.pmap p f) i := by obtain ⟨e, c, h⟩ := h; exact ⟨e, c, by simp [Parse.pmap, h]⟩
theorem Fails.verify {α : Type} {p : P α} {f : α → Bool} {i : Str} (h : Fails p i) :
    Fails (Parse.verify p f) i := by obtain ⟨e, c, h⟩ := h; exact ⟨e, c, by simp [Parse.verify, h]⟩
theorem Fails.verify_false {α : Type} {p : P α} {f : α → Bool} {i r : Str} {a : α}
    (h : p i = .ok a r) (hf : f a = false) : Fails (Parse.verify p f) i :=
  ⟨i, .verify, by simp [Parse.verify, h, hf]⟩
theorem Fails.before {α β : Type} {p : P α} {q : P β} {i : Str} (h : Fails p i) :
    Fails (Parse.before p q) i := by obtain ⟨e, c, h⟩ := h; exact ⟨e, c, by simp [Parse.before, h]⟩
theorem Fails.before_ok {α β : Type} {p : P α} {q : P β} {i r : Str} {a : α} (h : p i = .ok a r)
    (hq : Fails q r) : Fails (Parse.before p q) i := by
  obtain ⟨e, c, hq⟩ := hq; exact ⟨e, c, by simp [Parse.before, h, hq]⟩
theorem Fails.delimited {α β γ : Type} {o : P α} {p : P β} {c : P γ} {i : Str} (h : Fails o i) :
    Fails (Parse.delimited o p c) i := Fails.seq h

theorem bind_ok {α β : Type} {p : P α} {q : α → P β} {i r : Str} {a : α} (h : p i = .ok a r) :
    Parse.bind p q i = q a r := by simp [Parse.bind, h]
theorem seq_ok {α β : Type} {p : P α} {q : P β} {i r : Str} {a : α} (h : p i = .ok a r) :
    Parse.seq p q i = q r := by simp [Parse.seq, Parse.bind, h]
theorem pmap_ok {α β : Type} {p : P α} {f : α → β} {i r : Str} {a : α} (h : p i = .ok a r) :
    Parse.pmap p f i = .ok (f a) r := by simp [Parse.pmap, h]
theorem before_ok {α β : Type} {p : P α} {q : P β} {i r r' : Str} {a : α} {b : β}
    (h : p i = .ok a r) (hq : q r = .ok b r') : Parse.before p q i = .ok a r' := by
  simp [Parse.before, h, hq]
theorem opt_ok {α : Type} {p : P α} {i r : Str} {a : α} (h : p i = .ok a r) :
    Parse.opt p i = .ok (some a) r := by simp [Parse.opt, h]
theorem opt_of_fails {α : Type} {p : P α} {i : Str} (h : Fails p i) : Parse.opt p i = .ok none i := by
  obtain ⟨e, c, h⟩ := h; simp [Parse.opt, h]
theorem verify_ok {α : Type} {p : P α} {f : α → Bool} {i r : Str} {a : α} (h : p i = .ok a r)
    (hf : f a = true) : Parse.verify p f i = .ok a r := by simp [Parse.verify, h, hf]
theorem peekNot_of_fails {α : Type} {p : P α} {i : Str} (h : Fails p i) :
    Parse.peekNot p i = .ok () i := by obtain ⟨e, c, h⟩ := h; simp [Parse.peekNot, h]

theorem pchar_self (c : Char) (r : Str) : pchar c (c :: r) = .ok () r := by simp [pchar]
theorem pchar_ne {c d : Char} (h : d ≠ c) (r : Str) : Fails (pchar c) (d :: r) :=
  ⟨d :: r, .char, by simp [pchar, h]⟩
theorem pchar_nil (c : Char) : Fails (pchar c) [] := ⟨[], .char, by simp [pchar]⟩

/-- the first character of `i`, if any, satisfies `f` -/
def headAll (f : Char → Bool) : Str → Bool
  | [] => true
  | c :: _ => f c

theorem pchar_fails_of_head {c : Char} {i : Str} (h : headAll (· ≠ c) i = true) :
    Fails (pchar c) i := by
  cases i with
  | nil => exact pchar_nil c
  | cons d r => exact pchar_ne (by simpa [headAll] using h) r

theorem identifier_fails_of_head {i : Str} (h : headAll (fun c => !isLower c) i = true) :
    Fails identifier i := by
  cases i with
  | nil => exact ⟨[], .satisfy, by simp [identifier]⟩
  | cons d r =>
    have : isLower d = false := by simpa [headAll] using h
    exact ⟨d :: r, .satisfy, by simp [identifier, this]⟩

theorem tupleName_fails_of_head {i : Str} (h : headAll (fun c => !isUpper c) i = true) :
    Fails tupleName i := by
  cases i with
  | nil => exact ⟨[], .satisfy, by simp [tupleName]⟩
  | cons d r =>
    have : isUpper d = false := by simpa [headAll] using h
    exact ⟨d :: r, .satisfy, by simp [tupleName, this]⟩

theorem ptag_fails_of_head {s : Str} {c : Char} {t : Str} {i : Str} (hs : s = c :: t)
    (h : headAll (· ≠ c) i = true) : Fails (ptag s) i := by
  subst hs
  cases i with
  | nil => exact ⟨[], .tag, by simp [ptag, isPrefix]⟩
  | cons d r =>
    have : ¬ c = d := by simp [headAll] at h; exact fun e => h e.symm
    exact ⟨d :: r, .tag, by simp [ptag, isPrefix, this]⟩

theorem ptag_append (s r : Str) : ptag s (s ++ r) = .ok () r := by
  have : ∀ s : Str, isPrefix s (s ++ r) = true := by
    intro s; induction s with
    | nil => simp [isPrefix]
    | cons a as ih => simp [isPrefix, ih]
  simp [ptag, this s]

theorem skipWsc_of_head {i : Str} (h : headAll (fun c => !isMultispace c && c != '/') i = true) :
    skipWsc false i = i := by
  cases i with
  | nil => simp [skipWsc]
  | cons c r =>
    simp only [headAll, Bool.and_eq_true, Bool.not_eq_true', bne_iff_ne, ne_eq] at h
    unfold skipWsc
    simp only [Bool.false_eq_true, if_false, h.1]
    split
    · exact absurd rfl h.2
    · rfl

theorem wsc_of_head {i : Str} (h : headAll (fun c => !isMultispace c && c != '/') i = true) :
    wsc i = .ok () i := by simp [wsc, skipWsc_of_head h]

theorem ws0_of_head {i : Str} (h : headAll (fun c => !isMultispace c) i = true) :
    ws0 i = .ok () i := by
  cases i with
  | nil => simp [ws0]
  | cons c r =>
    have : isMultispace c = false := by simpa [headAll] using h
    simp [ws0, this]

/-! ### The repetition combinators without their counters -/

theorem many0Loop_fuel {α : Type} {p : P α} (sp : Sound p) (n : Nat) :
    ∀ (m : Nat) (i : Str), i.length < n → i.length < m → many0Loop p n i = many0Loop p m i := by
  induction n with
  | zero => intro m i h; omega
  | succ n ih =>
    intro m i hn hm
    cases m with
    | zero => omega
    | succ m =>
      simp only [many0Loop]
      cases e : p i with
      | ok a r =>
        by_cases hl : r.length = i.length
        · simp [hl]
        · have := (sp.ok e).length_le
          simp only [hl, if_false]
          rw [ih m r (by omega) (by omega)]
      | err x c => rfl
      | out => rfl

theorem many0_of_fails {α : Type} {p : P α} {i : Str} (h : Fails p i) : many0 p i = .ok [] i := by
  obtain ⟨e, c, h⟩ := h; simp [many0, many0Loop, h]

theorem many0_cons {α : Type} {p : P α} (sp : Sound p) {i r r' : Str} {a : α} {as : List α}
    (h : p i = .ok a r) (hl : r.length < i.length) (ht : many0 p r = .ok as r') :
    many0 p i = .ok (a :: as) r' := by
  unfold many0 at ht ⊢
  simp only [many0Loop, h]
  have : ¬ r.length = i.length := by omega
  simp only [this, if_false]
  rw [many0Loop_fuel sp i.length (r.length + 1) r hl (by omega), ht]

theorem sepLoop_fuel {α β : Type} {sep : P β} {p : P α} (ss : Sound sep) (sp : Sound p) (n : Nat) :
    ∀ (m : Nat) (i : Str), i.length < n → i.length < m → sepLoop sep p n i = sepLoop sep p m i := by
  induction n with
  | zero => intro m i h; omega
  | succ n ih =>
    intro m i hn hm
    cases m with
    | zero => omega
    | succ m =>
      simp only [sepLoop]
      cases e : sep i with
      | ok b i1 =>
        by_cases hl : i1.length = i.length
        · simp [hl]
        · have h1 := (ss.ok e).length_le
          simp only [hl, if_false]
          cases e1 : p i1 with
          | ok a i2 =>
            have h2 := (sp.ok e1).length_le
            simp only []
            rw [ih m i2 (by omega) (by omega)]
          | err x c => rfl
          | out => rfl
      | err x c => rfl
      | out => rfl

/-- the loop of `separated_list0/1` with the counter the list parsers give it -/
def sepTail {α β : Type} (sep : P β) (p : P α) : P (List α) := fun i => sepLoop sep p (i.length + 1) i

theorem sepTail_of_fails {α β : Type} {sep : P β} {p : P α} {i : Str} (h : Fails sep i) :
    sepTail sep p i = .ok [] i := by
  obtain ⟨e, c, h⟩ := h; simp [sepTail, sepLoop, h]

theorem sepTail_cons {α β : Type} {sep : P β} {p : P α} (ss : Sound sep) (sp : Sound p)
    {i i1 i2 r' : Str} {b : β} {a : α} {as : List α} (h : sep i = .ok b i1)
    (hl : i1.length < i.length) (h1 : p i1 = .ok a i2) (ht : sepTail sep p i2 = .ok as r') :
    sepTail sep p i = .ok (a :: as) r' := by
  unfold sepTail at ht ⊢
  simp only [sepLoop, h]
  have : ¬ i1.length = i.length := by omega
  simp only [this, if_false, h1]
  have h2 := (sp.ok h1).length_le
  rw [sepLoop_fuel ss sp i.length (i2.length + 1) i2 (by omega) (by omega), ht]

theorem sepList0_cons {α β : Type} {sep : P β} {p : P α} {i r r' : Str} {a : α} {as : List α}
    (h : p i = .ok a r) (ht : sepTail sep p r = .ok as r') :
    sepList0 sep p i = .ok (a :: as) r' := by
  unfold sepTail at ht; simp [sepList0, h, ht]

theorem sepList0_of_fails {α β : Type} {sep : P β} {p : P α} {i : Str} (h : Fails p i) :
    sepList0 sep p i = .ok [] i := by
  obtain ⟨e, c, h⟩ := h; simp [sepList0, h]

/-! ### Decimal digits (`^N`) -/

theorem digitChar_facts {d : Nat} (h : d < 10) :
    isDigit (Char.ofNat (48 + d)) = true ∧ (Char.ofNat (48 + d)).toNat - 48 = d := by
  have : d = 0 ∨ d = 1 ∨ d = 2 ∨ d = 3 ∨ d = 4 ∨ d = 5 ∨ d = 6 ∨ d = 7 ∨ d = 8 ∨ d = 9 := by omega
  rcases this with rfl | rfl | rfl | rfl | rfl | rfl | rfl | rfl | rfl | rfl <;> decide

theorem digitsVal_append (xs : Str) (c : Char) :
    digitsVal (xs ++ [c]) = digitsVal xs * 10 + (c.toNat - 48) := by
  simp [digitsVal, List.foldl_append]

theorem natDigits_spec (n : Nat) :
    (natDigits n).all isDigit = true ∧ natDigits n ≠ [] ∧ digitsVal (natDigits n) = n := by
  induction n using Nat.strongRecOn with
  | _ n ih =>
    rw [natDigits]
    by_cases h : n < 10
    · simp only [h, dif_pos]
      have := digitChar_facts h
      refine ⟨by simp [this.1], by simp, ?_⟩
      simp [digitsVal, this.2]
    · simp only [h, dif_neg, not_false_eq_true]
      obtain ⟨h1, h2, h3⟩ := ih (n / 10) (by omega)
      have := digitChar_facts (d := n % 10) (by omega)
      refine ⟨by simp [h1, this.1], by simp, ?_⟩
      rw [digitsVal_append, h3, this.2]; omega

theorem usize_append {n : Nat} {rest : Str} (hn : n < 2 ^ 64)
    (hr : ∀ c t, rest = c :: t → isDigit c = false) :
    usize (natDigits n ++ rest) = .ok n rest := by
  obtain ⟨h1, h2, h3⟩ := natDigits_spec n
  have := takeWhile_append_stop h1 hr
  unfold usize
  simp only [this.1, this.2, h3]
  have : (natDigits n).isEmpty = false := by
    cases hd : natDigits n with
    | nil => exact absurd hd h2
    | cons a b => rfl
  simp [this, hn]


end QM.Parse
