/-
M-Parse lemmas, part 7 — the round trip of a whole alias STATEMENT through `format_program`:
`fmtAlias a` (the `Doc` of `statement_doc`, laid out by the engine at width 100, then
`collapse_blanks` and `expand_literals`) is one of two explicit texts — the flat line or, for a union
right-hand side, the broken layout with one member per line behind `  | ` — and `type_alias` reads
either of them back to exactly `a`.
-/
import QuiverModel.Lemmas.Parse.RoundTrip
import QuiverModel.Lemmas.Parse.Factored
import QuiverModel.Lemmas.Parse.Receive
import QuiverModel.Lemmas.Text.Pieces
namespace QM.Parse
open QM.Text

/-! ### 1. The parser on the two layouts of a union right-hand side -/

theorem skipWsc_ms {c : Char} (hc : isMultispace c = true) (r : Str) :
    skipWsc false (c :: r) = skipWsc false r := by
  rw [skipWsc]; simp [hc]
  all_goals (intro r' e _; subst e; revert hc; decide)

theorem barOp_brk_step {X : Str} (h : headAll (fun c => !isMultispace c && c != '/') X = true) :
    barOp '|' (brkSep ++ X) = .ok () X := by
  have h1 : skipWsc false (brkSep ++ X) = '|' :: ' ' :: X := by
    show skipWsc false ('\n' :: ' ' :: ' ' :: '|' :: ' ' :: X) = _
    rw [skipWsc_ms (by decide), skipWsc_ms (by decide), skipWsc_ms (by decide)]
    exact skipWsc_of_head (by simp [headAll, isMultispace])
  unfold barOp
  rw [seq_ok (a := ()) (r := '|' :: ' ' :: X) (by simp [wsc, h1]), seq_ok (pchar_self _ _)]
  simp [wsc, skipWsc_space h]

theorem amp_fails_brk (s : Str) : Fails (barOp '&') (brkSep ++ s) := by
  have h1 : skipWsc false (brkSep ++ s) = '|' :: ' ' :: s := by
    show skipWsc false ('\n' :: ' ' :: ' ' :: '|' :: ' ' :: s) = _
    rw [skipWsc_ms (by decide), skipWsc_ms (by decide), skipWsc_ms (by decide)]
    exact skipWsc_of_head (by simp [headAll, isMultispace])
  exact Fails.seq_ok (a := ()) (r := '|' :: ' ' :: s) (by simp [wsc, h1]) (Fails.seq (pchar_ne (by decide) _))

theorem stopB_brk (s : Str) : stopB (brkSep ++ s) = true := by
  simp [brkSep, stopB, headAll, contChar, isIdentBody, isLower, isUpper, isDigit, isMultispace,
    List.dropWhile_cons]

section
variable {k : Knot} {L : Nat} (hk : GoodK k L)
include hk

/-- the `many0(pair(bar, intersection))` loop over members that each start a new line -/
theorem members_loop_brk : ∀ ms : List Ty, Ty.fragList ms = true → Ty.wfList ms = true →
    Ty.lvAList ms ≤ L + 1 → ∀ rest : Str, stopTd rest = true →
    many0 (seq (barOp '|') (intersectionType (baseTypeWith k))) (brokenMembers ms ++ rest) =
      .ok ms rest := by
  intro ms
  induction ms with
  | nil =>
    intro _ _ _ rest hr
    exact many0_of_fails (Fails.seq (stopTd_bar hr (Or.inl rfl)))
  | cons m ms ih =>
    intro hf hw hl rest hr
    simp only [Ty.fragList, Ty.wfList, Bool.and_eq_true] at hf hw
    have hl1 : m.lvM ≤ L + 1 :=
      Nat.le_trans m.lvM_le_lvA (Nat.le_trans (Nat.le_max_left _ _) hl)
    have hl2 : Ty.lvAList ms ≤ L + 1 := Nat.le_trans (Nat.le_max_right _ _) hl
    have sb := baseTypeWith_sound hk.sound
    have sp : Sound (seq (barOp '|') (intersectionType (baseTypeWith k))) :=
      Sound.seq (Sound.barOp _) (intersectionType_sound sb)
    have stp : Strict (seq (barOp '|') (intersectionType (baseTypeWith k))) :=
      Strict.seq_left (Strict.barOp _) (intersectionType_sound sb)
    have hbm : brokenMembers (m :: ms) ++ rest =
        brkSep ++ (printMember m ++ (brokenMembers ms ++ rest)) := by
      simp [brokenMembers, List.append_assoc]
    rw [hbm]
    have htail : stopB (brokenMembers ms ++ rest) = true ∧
        Fails (barOp '&') (brokenMembers ms ++ rest) := by
      cases ms with
      | nil => exact ⟨stopTd_stopB hr, stopTd_bar hr (Or.inr rfl)⟩
      | cons m2 ms2 =>
        have : brokenMembers (m2 :: ms2) ++ rest =
            brkSep ++ (printMember m2 ++ (brokenMembers ms2 ++ rest)) := by
          simp [brokenMembers, List.append_assoc]
        rw [this]
        exact ⟨stopB_brk _, amp_fails_brk _⟩
    have hstep : seq (barOp '|') (intersectionType (baseTypeWith k))
        (brkSep ++ (printMember m ++ (brokenMembers ms ++ rest))) =
        .ok m (brokenMembers ms ++ rest) := by
      rw [seq_ok (barOp_brk_step (member_tail_head hf.1 hw.1 _).1)]
      exact member_ok hk hf.1 hw.1 hl1 htail.1 htail.2
    exact many0_cons sp hstep (stp.ok hstep) (ih hf.2 hw.2 hl2 rest hr)

/-- the broken layout, entered behind `=` and the white space `ws0` skips: `| m1⏎  | m2 …` -/
theorem broken_ok {m : Ty} {ms : List Ty} (hf : Ty.fragList (m :: ms) = true)
    (hw : Ty.wfList (m :: ms) = true) (h2 : 1 ≤ ms.length) (hl : Ty.lvAList (m :: ms) ≤ L + 1)
    {rest : Str} (hr : stopTd rest = true) :
    typeDefinitionWith k (baseTypeWith k) ('|' :: ' ' :: (printMember m ++ (brokenMembers ms ++ rest))) =
      .ok (.union (m :: ms)) rest := by
  cases ms with
  | nil => simp at h2
  | cons m2 ms2 =>
    simp only [Ty.fragList, Ty.wfList, Bool.and_eq_true] at hf hw
    have hl1 : m.lvM ≤ L + 1 :=
      Nat.le_trans m.lvM_le_lvA (Nat.le_trans (Nat.le_max_left _ _) hl)
    have hl2 : Ty.lvAList (m2 :: ms2) ≤ L + 1 := Nat.le_trans (Nat.le_max_right _ _) hl
    have hh := member_tail_head hf.1 hw.1 (brokenMembers (m2 :: ms2) ++ rest)
    unfold typeDefinitionWith
    rw [alt_of_fails (functionType_fails_head k (by simp [headAll]))]
    have hbar : barOp '|' ('|' :: ' ' :: (printMember m ++ (brokenMembers (m2 :: ms2) ++ rest))) =
        .ok () (printMember m ++ (brokenMembers (m2 :: ms2) ++ rest)) := by
      unfold barOp
      rw [seq_ok (wsc_of_head (by simp [headAll, isMultispace])), seq_ok (pchar_self _ _)]
      simp [wsc, skipWsc_space hh.1]
    rw [seq_ok (opt_ok hbar)]
    have hb2 : brokenMembers (m2 :: ms2) ++ rest =
        brkSep ++ (printMember m2 ++ (brokenMembers ms2 ++ rest)) := by
      simp [brokenMembers, List.append_assoc]
    have hfirst := member_ok hk hf.1 hw.1 hl1 (tail := brokenMembers (m2 :: ms2) ++ rest)
      (by rw [hb2]; exact stopB_brk _) (by rw [hb2]; exact amp_fails_brk _)
    rw [bind_ok hfirst,
      pmap_ok (members_loop_brk hk (m2 :: ms2) (by simp [Ty.fragList, hf.2]) (by simp [Ty.wfList, hw.2]) hl2 rest hr)]
    simp

end

/-! ### 2. From a knot level to `parseType`; the left-hand side of the alias -/

theorem parseType_of_knot {n : Nat} {i : Str} {t : Ty} {r : Str} (h : (knot n).td i = .ok t r) :
    parseType i = .ok t r := by
  have hne : (knot n).td i ≠ .out := by rw [h]; simp
  have h1 := (knot_mono_le (Nat.le_max_left n (i.length + 1))).1 i hne
  have h0 : (knot (i.length + 1)).td i ≠ .out := (knot_tot _).1 i (Nat.lt_succ_self _)
  have h2 := (knot_mono_le (Nat.le_max_right n (i.length + 1))).1 i h0
  unfold parseType typeDefinition
  rw [← h2, h1, h]

/-- the flat right-hand side of a union alias: the members without parentheses -/
theorem parseType_bare {ts : List Ty} (hw : Ty.wfList ts = true) (h2 : 2 ≤ ts.length) {rest : Str}
    (hr : stopTd rest = true) : parseType (printMembers ts ++ rest) = .ok (.union ts) rest :=
  parseType_of_knot
    ((knot_good (Ty.lvAList ts)).bare ts (Ty.fragList_all ts) hw h2 (Nat.le_refl _) rest hr)

/-- the broken right-hand side of a union alias, from the first `|` on -/
theorem parseType_broken {m : Ty} {ms : List Ty} (hw : Ty.wfList (m :: ms) = true)
    (h2 : 1 ≤ ms.length) {rest : Str} (hr : stopTd rest = true) :
    parseType ('|' :: ' ' :: (printMember m ++ (brokenMembers ms ++ rest))) =
      .ok (.union (m :: ms)) rest :=
  parseType_of_knot (n := Ty.lvAList (m :: ms) + 2)
    (broken_ok (knot_good (Ty.lvAList (m :: ms))) (Ty.fragList_all _) hw h2 (Nat.le_succ _) hr)

theorem stopB_comma (s : Str) : stopB (',' :: s) = true := by
  simp [stopB, headAll, contChar, isIdentBody, isLower, isUpper, isDigit, isMultispace,
    List.dropWhile_cons]

/-- the tail `, 'b, 'c>` of a parameter list -/
theorem params_tail : ∀ ps : List Str, ps.all isIdentStr = true → ∀ rest : Str,
    sepTail commaWs0 typeName ((ps.map ([',', ' ', '\''] ++ ·)).flatten ++ '>' :: rest) =
      .ok ps ('>' :: rest) := by
  intro ps
  induction ps with
  | nil => intro _ rest; exact sepTail_of_fails (commaWs0_fails_gt rest)
  | cons p ps ih =>
    intro hp rest
    simp only [List.all_cons, Bool.and_eq_true] at hp
    simp only [List.map_cons, List.flatten_cons, List.append_assoc, List.cons_append,
      List.nil_append]
    refine sepTail_cons Sound.commaWs0 Sound.typeName
      (commaWs0_step (by simp [headAll, isMultispace])) (by simp) ?_ (ih hp.2 rest)
    refine typeName_quote hp.1 ?_
    cases ps with
    | nil => exact stopTd_stopB (stopTd_gt _)
    | cons q qs => exact stopB_comma _

/-- `render_type_parameters` read back by `opt(delimited('<', separated_list1(…), '>'))` -/
theorem params_ok {ps : List Str} (hp : ps.all isIdentStr = true) (Y : Str) :
    opt (delimited (pchar '<') (sepList1 commaWs0 typeName) (pchar '>'))
      (printParams ps ++ ' ' :: Y) = .ok (if ps.isEmpty then none else some ps) (' ' :: Y) := by
  cases ps with
  | nil =>
    simp only [printParams, List.isEmpty_nil, if_true, List.nil_append]
    exact opt_of_fails (Fails.delimited (pchar_ne (by decide) _))
  | cons p ps =>
    simp only [List.all_cons, Bool.and_eq_true] at hp
    have hpp : printParams (p :: ps) ++ ' ' :: Y =
        '<' :: '\'' :: (p ++ ((ps.map ([',', ' ', '\''] ++ ·)).flatten ++ '>' :: ' ' :: Y)) := by
      simp only [printParams, List.isEmpty_cons, Bool.false_eq_true, if_false, List.map_cons]
      rw [sepBy_cons, List.map_map]
      simp [Function.comp_def]
    rw [hpp]
    simp only [List.isEmpty_cons, Bool.false_eq_true, if_false]
    refine opt_ok ?_
    unfold delimited
    rw [seq_ok (pchar_self _ _)]
    refine before_ok (sepList1_cons (typeName_quote hp.1 ?_) (params_tail ps hp.2 _)) (pchar_self _ _)
    cases ps with
    | nil => exact stopTd_stopB (stopTd_gt _)
    | cons q qs => exact stopB_comma _

theorem dropWhile_ms_append {W X : Str} (hW : W.all isMultispace = true)
    (hX : headAll (fun c => !isMultispace c) X = true) : (W ++ X).dropWhile isMultispace = X := by
  induction W with
  | nil =>
    cases X with
    | nil => rfl
    | cons c t =>
      have : isMultispace c = false := by simpa [headAll] using hX
      simp [List.dropWhile_cons, this]
  | cons w W ih =>
    simp only [List.all_cons, Bool.and_eq_true] at hW
    simp [List.dropWhile_cons, hW.1, ih hW.2]

/-- `type_alias` on `'name<'a, 'b> =`, white space, and a text its type parser accepts -/
theorem typeAlias_lhs (name : Option Str) (ps : List Str)
    (hn : ∀ n, name = some n → isIdentStr n = true) (hp : ps.all isIdentStr = true)
    {W X : Str} (hW : W.all isMultispace = true) (hX : headAll (fun c => !isMultispace c) X = true)
    {t : Ty} {r : Str} (ht : parseTypeG X = .ok t r) :
    typeAlias (aliasLhs name ps ++ (W ++ X)) = .ok ⟨name, ps, t⟩ r := by
  have htxt : aliasLhs name ps ++ (W ++ X) =
      '\'' :: (name.getD [] ++ (printParams ps ++ ' ' :: '=' :: (W ++ X))) := by
    simp [aliasLhs, List.append_assoc]
  rw [htxt]
  -- what follows the name: `<` or a space
  have hstop : IdStop (printParams ps ++ ' ' :: '=' :: (W ++ X)) ∧
      headAll (fun c => !isLower c) (printParams ps ++ ' ' :: '=' :: (W ++ X)) = true := by
    cases ps with
    | nil => simp [printParams, IdStop, headAll, isIdentBody, isLower, isUpper, isDigit]
    | cons p ps => simp [printParams, IdStop, headAll, isIdentBody, isLower, isUpper, isDigit]
  have hname : seq (pchar '\'') (opt identifier)
      ('\'' :: (name.getD [] ++ (printParams ps ++ ' ' :: '=' :: (W ++ X)))) =
      .ok name (printParams ps ++ ' ' :: '=' :: (W ++ X)) := by
    rw [seq_ok (pchar_self _ _)]
    cases name with
    | none => exact opt_of_fails (identifier_fails_of_head hstop.2)
    | some n => exact opt_ok (identifier_append (hn n rfl) hstop.1)
  unfold typeAlias
  rw [bind_ok hname, bind_ok (params_ok hp _)]
  have heq : seq ws0 (seq (pchar '=') ws0) (' ' :: '=' :: (W ++ X)) = .ok () X := by
    rw [seq_ok (a := ()) (r := '=' :: (W ++ X)) (by simp [ws0, List.dropWhile_cons, isMultispace]),
      seq_ok (pchar_self _ _)]
    simp [ws0, dropWhile_ms_append hW hX]
  rw [seq_ok heq, pmap_ok ht]
  cases ps <;> simp

/-! ### 3. What the engine prints for the alias `Doc` -/

open QM.Frag

/-- the pieces of the members of `union_alias_doc` in a given mode of its group -/
def memberPieces (m : Mode) : Bool → List Ty → List Piece
  | _, [] => []
  | first, t :: rest =>
    (match m with
     | .flat => if first then [Piece.sp] else [Piece.sp, Piece.atom ['|', ' ']]
     | .brk => [Piece.nl 2, Piece.atom ['|', ' ']]) ++
      Piece.atom (printMember t) :: memberPieces m false rest

theorem parts_pieces (w : Nat) (m : Mode) : ∀ (ts : List Ty) (first : Bool) (col : Nat),
    printLoop w col (mkFrames 2 m (unionAliasParts first ts) ++ [⟨0, .brk, .nil⟩]) [] =
      memberPieces m first ts := by
  intro ts
  induction ts with
  | nil =>
    intro first col
    simp only [unionAliasParts, mkFrames, List.nil_append, pl_nil, printLoop_nil_nil, memberPieces]
  | cons t rest ih =>
    intro first col
    cases m <;> cases first <;>
      simp only [unionAliasParts, mkFrames, List.cons_append, List.nil_append, pl_line_flat,
        pl_line_brk, pl_ifBreak_flat, pl_ifBreak_brk, pl_nil, pl_text, ih, memberPieces,
        if_true, if_false, Bool.false_eq_true]

/-- a union alias: the left-hand side, then the members in the mode the group got -/
theorem printPieces_union (name : Option Str) (ps : List Str) (ts : List Ty) :
    ∃ m, printPieces (Doc.join .hardline [aliasDoc ⟨name, ps, .union ts⟩]) 100 =
      Piece.atom (aliasLhs name ps) :: memberPieces m true ts := by
  obtain ⟨m, hm⟩ := pl_group 100 (0 + (aliasLhs name ps).length) 0 .brk [⟨0, .brk, .nil⟩]
    (.nest 2 (.concat (unionAliasParts true ts))) (forcesBreak (.nest 2 (.concat (unionAliasParts true ts))))
  refine ⟨m, ?_⟩
  simp only [printPieces, Doc.join, Doc.joinList, aliasDoc, unionAliasDoc, Doc.mkGroup, pl_concat,
    mkFrames, List.cons_append, List.nil_append, pl_nil, pl_text]
  rw [hm, pl_nest, pl_concat, parts_pieces]

/-- any other alias: one text -/
theorem printPieces_plain (name : Option Str) (ps : List Str) (t : Ty) (hu : ∀ ts, t ≠ .union ts) :
    printPieces (Doc.join .hardline [aliasDoc ⟨name, ps, t⟩]) 100 =
      [Piece.atom (aliasLhs name ps ++ ' ' :: printTy t)] := by
  cases t with
  | union ts => exact absurd rfl (hu ts)
  | _ =>
    simp only [printPieces, Doc.join, Doc.joinList, aliasDoc, pl_concat,
      mkFrames, List.cons_append, List.nil_append, pl_nil, pl_text, printLoop_nil_nil]

theorem render_members_flat (m : Ty) (ms : List Ty) :
    renderPieces (memberPieces .flat true (m :: ms)) = ' ' :: printMembers (m :: ms) := by
  have h : ∀ ms : List Ty, renderPieces (memberPieces .flat false ms) =
      (ms.map ([' ', '|', ' '] ++ printMember ·)).flatten := by
    intro ms
    induction ms with
    | nil => rfl
    | cons x xs ih => simp [memberPieces, renderPieces, Piece.render, ih]
  rw [printMembers, printMembersL_eq, List.map_cons, sepBy_cons, List.map_map]
  simp [memberPieces, renderPieces, Piece.render, h, Function.comp_def]

theorem render_members_brk : ∀ (first : Bool) (ts : List Ty),
    renderPieces (memberPieces .brk first ts) = brokenMembers ts := by
  intro first ts
  induction ts generalizing first with
  | nil => rfl
  | cons x xs ih =>
    simp [memberPieces, renderPieces, Piece.render, ih, brokenMembers, brkSep, List.replicate]

/-! ### 4. The post-passes leave the layout alone

The atoms of the alias `Doc` contain spaces (a whole rendered type is one `Text`), so the piece list
is first exploded into one piece per character; the rendered text is the same, and the tidiness
lemmas of `Lemmas/Text/Pieces.lean` apply. -/

/-- a character of a rendered type: a space, or neither white space nor NUL -/
def okc (c : Char) : Bool := c == ' ' || (!isWhitespace c && c != '\x00')

def lastOk : Str → Bool
  | [] => false
  | [c] => c != ' '
  | _ :: r => lastOk r

/-- a text the post-passes leave alone wherever it ends a line -/
def GoodS (s : Str) : Bool := s.all okc && lastOk s

def charPiece (c : Char) : Piece := if c = ' ' then .sp else .atom [c]

def explode : List Piece → List Piece
  | [] => []
  | .atom s :: r => s.map charPiece ++ explode r
  | p :: r => p :: explode r

theorem render_chars (s : Str) : renderPieces (s.map charPiece) = s := by
  induction s with
  | nil => rfl
  | cons c s ih =>
    by_cases hc : c = ' '
    · simp [charPiece, hc, renderPieces, Piece.render, ih]
    · simp [charPiece, hc, renderPieces, Piece.render, ih]

theorem render_explode (ps : List Piece) : renderPieces (explode ps) = renderPieces ps := by
  induction ps with
  | nil => rfl
  | cons p r ih =>
    cases p with
    | atom s => simp [explode, renderPieces_append, render_chars, renderPieces, Piece.render, ih]
    | sp => simp [explode, renderPieces, ih]
    | nl k => simp [explode, renderPieces, ih]

theorem tidyPs_mono : ∀ (r : List Piece) (b : Bool), tidyPs false r = true → tidyPs b r = true
  | [], _, h => by simp [tidyPs] at h
  | .atom s :: r, _, h => by simpa [tidyPs] using h
  | .sp :: r, _, h => by simpa [tidyPs] using h
  | .nl k :: r, _, h => by simp [tidyPs] at h

theorem goodAtom_char {c : Char} (h : okc c = true) (hc : c ≠ ' ') : okAtom [c] = true := by
  simp only [okc, Bool.or_eq_true, beq_iff_eq, Bool.and_eq_true, Bool.not_eq_true'] at h
  rcases h with h | h
  · exact absurd h hc
  · simp [okAtom, goodAtom, h.1]

theorem tidy_good : ∀ (s : Str), GoodS s = true → ∀ (b : Bool) (r : List Piece),
    tidyPs true r = true → tidyPs b (s.map charPiece ++ r) = true := by
  intro s
  induction s with
  | nil => intro h; simp [GoodS, lastOk] at h
  | cons c s ih =>
    intro h b r hr
    simp only [GoodS, List.all_cons, Bool.and_eq_true] at h
    cases s with
    | nil =>
      have hc : c ≠ ' ' := by simpa [lastOk] using h.2
      simp [charPiece, hc, tidyPs, goodAtom_char h.1.1 hc, hr]
    | cons d s =>
      have hrec := ih (by simp only [GoodS, Bool.and_eq_true]; exact ⟨h.1.2, by simpa [lastOk] using h.2⟩)
      by_cases hc : c = ' '
      · simp only [List.map_cons, List.cons_append, charPiece, hc, if_true, tidyPs]
        have := hrec false r hr
        simpa [List.map_cons, charPiece] using this
      · have := hrec true r hr
        simp only [List.map_cons, List.cons_append] at this ⊢
        simp only [charPiece, hc, if_false, tidyPs, goodAtom_char h.1.1 hc, Bool.true_and]
        simpa [charPiece] using this

theorem nulFree_chars : ∀ (s : Str), s.all okc = true → ∀ r : List Piece,
    nulFree (s.map charPiece ++ r) = nulFree r := by
  intro s
  induction s with
  | nil => intro _ r; rfl
  | cons c s ih =>
    intro h r
    simp only [List.all_cons, Bool.and_eq_true] at h
    by_cases hc : c = ' '
    · simp [charPiece, hc, nulFree, ih h.2]
    · have : c ≠ '\x00' := by
        have := h.1
        simp only [okc, Bool.or_eq_true, beq_iff_eq, Bool.and_eq_true, bne_iff_ne] at this
        rcases this with e | e
        · exact absurd e hc
        · exact e.2
      simp [charPiece, hc, nulFree, nulAtom, ih h.2, this]

theorem goodS_bar : GoodS ['|'] = true := by decide

theorem tidy_members (m : Mode) : ∀ (ts : List Ty) (first : Bool),
    (∀ t ∈ ts, GoodS (printMember t) = true) →
    tidyPs true (explode (memberPieces m first ts)) = true ∧
    nulFree (explode (memberPieces m first ts)) = true := by
  intro ts
  induction ts with
  | nil => intro _ _; exact ⟨rfl, rfl⟩
  | cons t rest ih =>
    intro first h
    have ht := h t (by simp)
    have hrest := ih false (fun x hx => h x (by simp [hx]))
    have hok : (printMember t).all okc = true := by
      simp only [GoodS, Bool.and_eq_true] at ht; exact ht.1
    have h1 : ∀ b, tidyPs b ((printMember t).map charPiece ++ explode (memberPieces m false rest)) = true :=
      fun b => tidy_good _ ht b _ hrest.1
    have h2 : nulFree ((printMember t).map charPiece ++ explode (memberPieces m false rest)) = true := by
      rw [nulFree_chars _ hok]; exact hrest.2
    cases m <;> cases first <;>
      simp [memberPieces, explode, charPiece, tidyPs, nulFree, nulAtom, okAtom, goodAtom, isWhitespace, h1, h2]

/-- `print`, `collapse_blanks` and `expand_literals` on a layout whose exploded pieces are tidy -/
theorem passes_of_tidy {P : List Piece} (h1 : tidyPs false (explode P) = true)
    (h2 : nulFree (explode P) = true) :
    stripTrailingWhitespace (renderPieces P) = renderPieces P ∧
    collapseBlanks (renderPieces P) = renderPieces P ++ ['\n'] ∧
    expandLiterals (renderPieces P ++ ['\n']) [] = some (renderPieces P ++ ['\n']) := by
  have hs := strip_renderPieces (tidyPs_mono _ true h1)
  have hp := post_passes h1 h2
  rw [render_explode] at hs hp
  exact ⟨hs, hp.1, hp.2⟩

/-! ### 5. Every rendered type is a text the post-passes leave alone -/

theorem lastOk_ne_nil {b : Str} (h : lastOk b = true) : b ≠ [] := by
  intro e; subst e; simp [lastOk] at h

theorem lastOk_append {a b : Str} (hb : lastOk b = true) : lastOk (a ++ b) = true := by
  induction a with
  | nil => simpa using hb
  | cons c a ih =>
    cases h : a ++ b with
    | nil =>
      have := lastOk_ne_nil hb
      simp only [List.append_eq_nil_iff] at h
      exact absurd h.2 this
    | cons x xs =>
      rw [List.cons_append, h]
      simp only [lastOk]
      rw [← h]; exact ih

theorem goodS_ok {s : Str} (h : GoodS s = true) : s.all okc = true := by
  simp only [GoodS, Bool.and_eq_true] at h; exact h.1

theorem goodS_append {a b : Str} (ha : a.all okc = true) (hb : GoodS b = true) :
    GoodS (a ++ b) = true := by
  simp only [GoodS, Bool.and_eq_true] at hb ⊢
  exact ⟨by rw [List.all_append, ha, hb.1]; rfl, lastOk_append hb.2⟩

theorem goodS_cons {c : Char} {b : Str} (hc : okc c = true) (hb : GoodS b = true) :
    GoodS (c :: b) = true :=
  goodS_append (a := [c]) (by simp [hc]) hb

/-- `a` followed by something empty or good -/
theorem goodS_app_or {a b : Str} (ha : GoodS a = true) (hb : b = [] ∨ GoodS b = true) :
    GoodS (a ++ b) = true := by
  rcases hb with rfl | hb
  · simpa using ha
  · exact goodS_append (goodS_ok ha) hb

theorem goodS_end {a : Str} {c : Char} (ha : a.all okc = true) (hc : okc c = true) (hne : c ≠ ' ') :
    GoodS (a ++ [c]) = true :=
  goodS_append ha (by simp [GoodS, lastOk, hc, hne])

theorem all_okc_sepBy {sep : Str} (hsep : sep.all okc = true) : ∀ xs : List Str,
    (∀ x ∈ xs, GoodS x = true) → (sepBy sep xs).all okc = true := by
  intro xs
  induction xs with
  | nil => intro _; rfl
  | cons x xs ih =>
    intro h
    rw [sepBy_cons]
    have hx := (goodS_ok (h x (by simp)))
    have hxs : ∀ y ∈ xs, y.all okc = true := fun y hy => (goodS_ok (h y (by simp [hy])))
    rw [List.all_append, hx, Bool.true_and]
    simp only [List.all_flatten, List.all_map, List.all_eq_true, Function.comp]
    intro y hy c hc
    rcases List.mem_append.mp hc with hc | hc
    · exact (List.all_eq_true.mp hsep) c hc
    · exact (List.all_eq_true.mp (hxs y hy)) c hc

theorem goodS_sepBy {sep : Str} (hsep : sep.all okc = true) : ∀ xs : List Str, xs ≠ [] →
    (∀ x ∈ xs, GoodS x = true) → GoodS (sepBy sep xs) = true := by
  intro xs
  induction xs with
  | nil => intro h; exact absurd rfl h
  | cons x xs ih =>
    intro _ h
    cases xs with
    | nil => simpa [sepBy] using h x (by simp)
    | cons y ys =>
      have : sepBy sep (x :: y :: ys) = (x ++ sep) ++ sepBy sep (y :: ys) := by simp [sepBy]
      rw [this]
      refine goodS_append ?_ (ih (by simp) (fun z hz => h z (by simp [hz])))
      rw [List.all_append, (goodS_ok (h x (by simp))), hsep]; rfl

theorem all_okc_open {c : Char} (hc : okc c = true) (xs : List Str)
    (h : ∀ x ∈ xs, GoodS x = true) : (c :: sepBy [',', ' '] xs).all okc = true := by
  simp only [List.all_cons, Bool.and_eq_true]
  exact ⟨hc, all_okc_sepBy (by decide) _ h⟩

theorem all_okc_nm_open {nm : Str} (hnm : nm.all okc = true) {c : Char} (hc : okc c = true)
    (xs : List Str) (h : ∀ x ∈ xs, GoodS x = true) :
    (nm ++ c :: sepBy [',', ' '] xs).all okc = true := by
  rw [List.all_append, hnm, all_okc_open hc xs h]; rfl

theorem goodS_plain' : ∀ s : Str, s ≠ [] → (∀ c ∈ s, okc c = true ∧ c ≠ ' ') → GoodS s = true := by
  intro s
  induction s with
  | nil => intro h; exact absurd rfl h
  | cons c s ih =>
    intro _ h
    cases s with
    | nil =>
      have := h c (by simp)
      simp [GoodS, lastOk, this.1, this.2]
    | cons d s' =>
      exact goodS_cons (h c (by simp)).1 (ih (by simp) (fun x hx => h x (by simp [hx])))

theorem goodS_plain {s : Str} (hne : s ≠ []) (hw : s.all (fun c => !isWhitespace c) = true)
    (hn : s.all (· ≠ '\x00') = true) : GoodS s = true := by
  refine goodS_plain' s hne ?_
  intro c hc
  have h1 := (List.all_eq_true.mp hw) c hc
  have h2 := (List.all_eq_true.mp hn) c hc
  simp only [Bool.not_eq_true', decide_eq_true_eq] at h1 h2
  refine ⟨by simp [okc, h1, h2], ?_⟩
  intro e; rw [e, isWhitespace_space] at h1; exact Bool.noConfusion h1

theorem goodS_ident {n : Str} (h : isIdentStr n = true) : GoodS n = true := by
  have hg := goodAtom_ident h
  simp only [goodAtom, Bool.and_eq_true, Bool.not_eq_true', List.isEmpty_eq_false_iff] at hg
  exact goodS_plain hg.1 hg.2 (ident_nulFree h)

theorem goodS_body {s : Str} (hne : s ≠ []) (h : s.all isIdentBody = true) : GoodS s = true := by
  refine goodS_plain hne ?_ ?_
  · rw [List.all_eq_true] at h ⊢
    intro c hc; simp [not_ws_of_identBody (h c hc)]
  · rw [List.all_eq_true] at h ⊢
    intro c hc
    simp only [decide_eq_true_eq]
    intro e
    have := h c hc
    rw [e] at this
    exact absurd this (by decide)

theorem goodS_tupleName {n : Str} (h : isTupleNameStr n = true) : GoodS n = true := by
  cases n with
  | nil => simp [isTupleNameStr] at h
  | cons c r =>
    simp only [isTupleNameStr, Bool.and_eq_true] at h
    refine goodS_body (by simp) ?_
    simp only [List.all_cons, Bool.and_eq_true]
    exact ⟨by simp [isIdentBody, h.1], h.2⟩

theorem goodS_natDigits (n : Nat) : GoodS (natDigits n) = true := by
  have h := natDigits_spec n
  refine goodS_body h.2.1 ?_
  rw [List.all_eq_true] at *
  intro c hc
  simp [isIdentBody, h.1 c hc]

theorem angle_good (xs : List Str) (h : ∀ x ∈ xs, GoodS x = true) :
    angle xs = [] ∨ GoodS (angle xs) = true := by
  cases xs with
  | nil => left; rfl
  | cons x xs =>
    right
    simp only [angle, List.isEmpty_cons, Bool.false_eq_true, if_false]
    refine goodS_end ?_ (by decide) (by decide)
    simp only [List.all_cons, Bool.and_eq_true]
    exact ⟨by decide, all_okc_sepBy (by decide) _ h⟩

theorem goodS_paren {s : Str} (h : s.all okc = true) : GoodS ('(' :: s ++ [')']) = true := by
  exact goodS_end (by simp [h]; decide) (by decide) (by decide)

theorem goodS_atomWrap (t : Ty) {s : Str} (h : GoodS s = true) : GoodS (atomWrap t s) = true := by
  unfold atomWrap
  split
  · exact goodS_paren (goodS_ok h)
  · exact goodS_paren (goodS_ok h)
  · split
    · exact goodS_paren (goodS_ok h)
    · exact h
  · exact h

theorem goodS_memberWrap (t : Ty) {s : Str} (h : GoodS s = true) : GoodS (memberWrap t s) = true := by
  unfold memberWrap
  split
  · exact goodS_paren (goodS_ok h)
  · exact h

theorem mem_map_of {α : Type} {f : α → Str} {xs : List α} (h : ∀ a ∈ xs, GoodS (f a) = true) :
    ∀ x ∈ xs.map f, GoodS x = true := by
  intro x hx
  obtain ⟨a, ha, rfl⟩ := List.mem_map.mp hx
  exact h a ha

theorem goodS_tuple (name : Option Str) (fields : List Field) (isPartial : Bool)
    (hname : ∀ n, name = some n → GoodS n = true)
    (hfs' : ∀ x ∈ printFieldsL fields, GoodS x = true) :
    GoodS (printTy (.tuple name fields isPartial)) = true := by
  cases name with
  | none =>
    cases fields with
    | nil => cases isPartial <;> decide
    | cons f fs =>
      cases isPartial
      · simp only [printTy, List.nil_append, Bool.false_eq_true, if_false]
        exact goodS_end (all_okc_open (by decide) _ hfs') (by decide) (by decide)
      · simp only [printTy, List.nil_append, if_true]
        exact goodS_end (all_okc_open (by decide) _ hfs') (by decide) (by decide)
  | some n =>
    have hn0 := hname n rfl
    have hn : GoodS (if startsLower n then '\'' :: n else n) = true := by
      split
      · exact goodS_cons (by decide) hn0
      · exact hn0
    cases fields with
    | nil =>
      cases isPartial
      · simp only [printTy, Option.isSome_some, Bool.false_eq_true, if_false, if_true]
        exact hn
      · simp only [printTy, if_true]
        rw [show (['(', ')'] : Str) = ['('] ++ [')'] from rfl, ← List.append_assoc]
        exact goodS_end (by rw [List.all_append, goodS_ok hn]; decide) (by decide) (by decide)
    | cons f fs =>
      cases isPartial
      · simp only [printTy, Bool.false_eq_true, if_false]
        exact goodS_end (all_okc_nm_open (goodS_ok hn) (by decide) _ hfs') (by decide) (by decide)
      · simp only [printTy, if_true]
        exact goodS_end (all_okc_nm_open (goodS_ok hn) (by decide) _ hfs') (by decide) (by decide)

mutual
theorem goodS_printTy : (t : Ty) → t.wf = true → GoodS (printTy t) = true
  | .prim p, _ => by cases p <;> decide
  | .ident n args, hw => by
    simp only [Ty.wf, Bool.and_eq_true] at hw
    have hargs := goodS_printTys args hw.2
    simp only [printTy]
    split
    · exact goodS_end (by simp [(goodS_ok (goodS_ident hw.1))]; decide) (by decide) (by decide)
    · exact goodS_app_or (goodS_cons (by decide) (goodS_ident hw.1))
        (angle_good _ (by rw [printTys_eq]; exact mem_map_of hargs))
  | .tuple name fields isPartial, hw => by
    simp only [Ty.wf, Bool.and_eq_true] at hw
    have hfs := goodS_printFields fields hw.1
    refine goodS_tuple name fields isPartial ?_ (by rw [printFieldsL_eq]; exact mem_map_of hfs)
    intro n e
    subst e
    have := hw.2
    simp only [Bool.or_eq_true, Bool.and_eq_true] at this
    rcases this with h | h
    · exact goodS_tupleName h
    · exact goodS_ident h.1.1.1
  | .func i o, hw => by
    simp only [Ty.wf, Bool.and_eq_true] at hw
    have hi := goodS_atomWrap i (goodS_printTy i hw.1)
    have ho := goodS_atomWrap o (goodS_printTy o hw.2)
    simp only [printTy]
    refine goodS_append ?_ ho
    rw [List.all_append]
    simp [(goodS_ok hi)]; decide
  | .union ts, hw => by
    simp only [Ty.wf, Bool.and_eq_true] at hw
    have hts := goodS_printTys ts hw.2
    simp only [printTy]
    refine goodS_end ?_ (by decide) (by decide)
    simp only [List.all_cons, Bool.and_eq_true]
    refine ⟨by decide, all_okc_sepBy (by decide) _ ?_⟩
    rw [printMembersL_eq]
    exact mem_map_of (fun t ht => goodS_memberWrap t (hts t ht))
  | .inter ts, hw => by
    simp only [Ty.wf, Bool.and_eq_true, decide_eq_true_eq] at hw
    have hts := goodS_printTys ts hw.2
    simp only [printTy]
    refine goodS_sepBy (by decide) _ ?_ ?_
    · rw [printAtomsL_eq]
      cases ts with
      | nil => simp at hw
      | cons a as => simp
    · rw [printAtomsL_eq]
      exact mem_map_of (fun t ht => goodS_atomWrap t (hts t ht))
  | .cycle none, _ => by decide
  | .cycle (some n), _ => by
    simp only [printTy]
    exact goodS_cons (by decide) (goodS_natDigits n)
  | .proc a r, hw => by
    simp only [Ty.wf, Bool.and_eq_true] at hw
    have ha := goodS_printOpt a hw.1
    have hr := goodS_printOpt r hw.2
    cases a with
    | none =>
      cases r with
      | none => decide
      | some r =>
        simp only [printTy]
        refine goodS_end ?_ (by decide) (by decide)
        rw [List.all_append, (goodS_ok (goodS_atomWrap r (hr r rfl)))]; decide
    | some a =>
      cases r with
      | none =>
        simp only [printTy]
        exact goodS_cons (by decide) (goodS_atomWrap a (ha a rfl))
      | some r =>
        simp only [printTy]
        refine goodS_end ?_ (by decide) (by decide)
        simp [List.all_append, (goodS_ok (goodS_atomWrap r (hr r rfl))), (goodS_ok (goodS_atomWrap a (ha a rfl)))]
        decide
  | .resource n, hw => by
    simp only [Ty.wf] at hw
    simp only [printTy]
    exact goodS_cons (by decide) (goodS_tupleName hw)
  | .modty m mem args, hw => by
    simp only [Ty.wf, Bool.and_eq_true, Bool.not_eq_true', List.isEmpty_eq_false_iff] at hw
    have hargs := goodS_printTys args hw.2
    have hm : GoodS (sepBy ['/'] m) = true :=
      goodS_sepBy (by decide) m hw.1.1.1
        (fun x hx => goodS_ident ((List.all_eq_true.mp hw.1.1.2) x hx))
    have h1 : GoodS ('\'' :: '%' :: sepBy ['/'] m) = true :=
      goodS_cons (by decide) (goodS_cons (by decide) hm)
    have hang := angle_good (printTys args) (by rw [printTys_eq]; exact mem_map_of hargs)
    cases mem with
    | none =>
      simp only [printTy, List.append_nil]
      exact goodS_app_or h1 hang
    | some x =>
      simp only [printTy]
      exact goodS_app_or (goodS_app_or h1 (.inr (goodS_cons (by decide) (goodS_ident (by simpa using hw.1.2))))) hang
  | .selfDefault args, hw => by
    simp only [Ty.wf] at hw
    have hargs := goodS_printTys args hw
    simp only [printTy]
    exact goodS_app_or (a := ['\'']) (by decide)
      (angle_good _ (by rw [printTys_eq]; exact mem_map_of hargs))
theorem goodS_printTys : (ts : List Ty) → Ty.wfList ts = true → ∀ t ∈ ts, GoodS (printTy t) = true
  | [], _ => by intro t ht; simp at ht
  | a :: as, hw => by
    simp only [Ty.wfList, Bool.and_eq_true] at hw
    intro t ht
    rcases List.mem_cons.mp ht with h | ht
    · rw [h]; exact goodS_printTy a hw.1
    · exact goodS_printTys as hw.2 t ht
theorem goodS_printOpt : (o : Option Ty) → Ty.wfOpt o = true → ∀ t, o = some t → GoodS (printTy t) = true
  | none, _ => by intro t e; cases e
  | some a, hw => by
    simp only [Ty.wfOpt] at hw
    intro t e
    rw [← Option.some.inj e]
    exact goodS_printTy a hw
theorem goodS_printField : (f : Field) → f.wf = true → GoodS (printField f) = true
  | .field (some n) t, hw => by
    simp only [Field.wf, Bool.and_eq_true] at hw
    simp only [printField]
    rw [show n ++ ':' :: ' ' :: printTy t = (n ++ [':', ' ']) ++ printTy t by simp]
    refine goodS_append ?_ (goodS_printTy t hw.2)
    rw [List.all_append, (goodS_ok (goodS_ident hw.1))]; decide
  | .field none t, hw => by
    simp only [Field.wf] at hw
    simp only [printField]
    exact goodS_printTy t hw
  | .spread none _, _ => by simp only [printField]; decide
  | .spread (some id) args, hw => by
    simp only [Field.wf, Bool.and_eq_true] at hw
    have hargs := goodS_printTys args hw.2
    simp only [printField]
    rw [show '.' :: '.' :: '.' :: '\'' :: id ++ angle (printTys args) =
      ('.' :: '.' :: '.' :: '\'' :: id) ++ angle (printTys args) by simp]
    refine goodS_app_or ?_ (angle_good _ (by rw [printTys_eq]; exact mem_map_of hargs))
    exact goodS_cons (by decide) (goodS_cons (by decide) (goodS_cons (by decide)
      (goodS_cons (by decide) (goodS_ident hw.1))))
theorem goodS_printFields : (fs : List Field) → Field.wfList fs = true →
    ∀ f ∈ fs, GoodS (printField f) = true
  | [], _ => by intro f hf; simp at hf
  | a :: as, hw => by
    simp only [Field.wfList, Bool.and_eq_true] at hw
    intro f hf
    rcases List.mem_cons.mp hf with h | hf
    · rw [h]; exact goodS_printField a hw.1
    · exact goodS_printFields as hw.2 f hf
end

/-! ### 6. `format_program` of one alias is one of two explicit texts, and `type_alias` reads both -/

theorem goodS_lhs (name : Option Str) (ps : List Str)
    (hn : ∀ n, name = some n → isIdentStr n = true) (hp : ps.all isIdentStr = true) :
    GoodS (aliasLhs name ps) = true := by
  have h1 : (name.getD []).all okc = true := by
    cases name with
    | none => rfl
    | some n => exact goodS_ok (goodS_ident (hn n rfl))
  have h2 : (printParams ps).all okc = true := by
    unfold printParams
    split
    · rfl
    · refine goodS_ok (goodS_end (all_okc_open (by decide) _ ?_) (by decide) (by decide))
      refine mem_map_of (fun p hpm => goodS_cons (by decide) (goodS_ident ((List.all_eq_true.mp hp) p hpm)))
  unfold aliasLhs
  refine goodS_append ?_ (by decide)
  simp only [List.all_cons, List.all_append, Bool.and_eq_true]
  exact ⟨⟨by decide, h1⟩, h2⟩

/-- **the text of `format_program`** on a program that is one well-formed alias: the flat line, or —
    only for a union right-hand side — one member per line; then a newline. (Which of the two the
    group gets is the engine's `fits` at width 100; both are read back.) -/
theorem fmtAlias_text (a : Alias) (hw : a.wf = true) :
    fmtAlias a = printAlias a ++ ['\n'] ∨
    ∃ ts, a.ty = .union ts ∧ fmtAlias a = brokenAlias a.name a.params ts ++ ['\n'] := by
  obtain ⟨name, ps, ty⟩ := a
  simp only [Alias.wf, Bool.and_eq_true] at hw
  have hn : ∀ n, name = some n → isIdentStr n = true := by
    intro n e; subst e; exact hw.1.1
  have hlhs := goodS_lhs name ps hn hw.1.2
  have key : ∀ P : List Piece, printPieces (Doc.join .hardline [aliasDoc ⟨name, ps, ty⟩]) 100 = P →
      tidyPs false (explode P) = true → nulFree (explode P) = true →
      fmtAlias ⟨name, ps, ty⟩ = renderPieces P ++ ['\n'] := by
    intro P hP h1 h2
    obtain ⟨p1, p2, p3⟩ := passes_of_tidy h1 h2
    unfold fmtAlias QM.Text.print
    rw [hP, p1, p2, p3]
  by_cases hu : ∃ ts, ty = .union ts
  · obtain ⟨ts, rfl⟩ := hu
    have hwt : 2 ≤ ts.length ∧ Ty.wfList ts = true := by
      simpa [Ty.wf] using hw.2
    have hmem : ∀ t ∈ ts, GoodS (printMember t) = true := fun t ht =>
      goodS_memberWrap t (goodS_printTys ts hwt.2 t ht)
    obtain ⟨m, hm⟩ := printPieces_union name ps ts
    have htm := tidy_members m ts true hmem
    have hfmt := key _ hm
      (by simp only [explode]; exact tidy_good _ hlhs false _ htm.1)
      (by simp only [explode]; rw [nulFree_chars _ (goodS_ok hlhs)]; exact htm.2)
    cases m with
    | flat =>
      left
      rw [hfmt]
      cases ts with
      | nil => simp at hwt
      | cons t ts =>
        simp only [renderPieces, Piece.render, render_members_flat, printAlias]
    | brk =>
      right
      refine ⟨ts, rfl, ?_⟩
      rw [hfmt]
      simp only [renderPieces, Piece.render, render_members_brk, brokenAlias]
  · left
    have hu' : ∀ ts, ty ≠ .union ts := fun ts e => hu ⟨ts, e⟩
    have hg : GoodS (aliasLhs name ps ++ ' ' :: printTy ty) = true := by
      rw [show aliasLhs name ps ++ ' ' :: printTy ty = (aliasLhs name ps ++ [' ']) ++ printTy ty by simp]
      refine goodS_append ?_ (goodS_printTy ty hw.2)
      rw [List.all_append, goodS_ok hlhs]; decide
    have hfmt := key _ (printPieces_plain name ps ty hu')
      (by simp only [explode]; exact tidy_good _ hg false [] rfl)
      (by simp only [explode]; rw [nulFree_chars _ (goodS_ok hg)]; rfl)
    rw [hfmt]
    cases ty with
    | union ts => exact absurd rfl (hu' ts)
    | _ => simp [renderPieces, Piece.render, printAlias]

theorem parseTypeG_eq_parseType (i : Str) : parseTypeG i = parseType i :=
  (knotG_eq (i.length + 1) i (Nat.lt_succ_self _)).1

theorem stopTd_nl : stopTd ['\n'] = true := by decide

theorem headAll_weaken {X : Str} (h : headAll (fun c => !isMultispace c && c != '/') X = true) :
    headAll (fun c => !isMultispace c) X = true := by
  cases X with
  | nil => rfl
  | cons c t =>
    simp only [headAll, Bool.and_eq_true] at h ⊢
    exact h.1

/-- `type_alias` reads the flat line back -/
theorem typeAlias_flat (a : Alias) (hw : a.wf = true) (rest : Str) (hr : stopTd rest = true) :
    typeAlias (printAlias a ++ rest) = .ok a rest := by
  obtain ⟨name, ps, ty⟩ := a
  simp only [Alias.wf, Bool.and_eq_true] at hw
  have hn : ∀ n, name = some n → isIdentStr n = true := by
    intro n e; subst e; exact hw.1.1
  by_cases hu : ∃ ts, ty = .union ts
  · obtain ⟨ts, rfl⟩ := hu
    have hwt : 2 ≤ ts.length ∧ Ty.wfList ts = true := by
      simpa [Ty.wf] using hw.2
    have htxt : printAlias ⟨name, ps, .union ts⟩ ++ rest =
        aliasLhs name ps ++ ([' '] ++ (printMembers ts ++ rest)) := by
      simp [printAlias]
    rw [htxt]
    refine typeAlias_lhs name ps hn hw.1.2 (by decide) ?_
      (by rw [parseTypeG_eq_parseType]; exact parseType_bare hwt.2 hwt.1 hr)
    cases ts with
    | nil => simp at hwt
    | cons m ms =>
      have hpm : printMembers (m :: ms) ++ rest =
          printMember m ++ ((ms.map ([' ', '|', ' '] ++ printMember ·)).flatten ++ rest) := by
        rw [printMembers, printMembersL_eq, List.map_cons, sepBy_cons, List.map_map, List.append_assoc]
        rfl
      rw [hpm]
      simp only [Ty.wfList, Bool.and_eq_true] at hwt
      exact headAll_weaken (member_tail_head (Ty.frag_all m) hwt.2.1 _).1
  · have hu' : ∀ ts, ty ≠ .union ts := fun ts e => hu ⟨ts, e⟩
    have htxt : printAlias ⟨name, ps, ty⟩ ++ rest =
        aliasLhs name ps ++ ([' '] ++ (printTy ty ++ rest)) := by
      cases ty with
      | union ts => exact absurd rfl (hu' ts)
      | _ => simp [printAlias]
    rw [htxt]
    refine typeAlias_lhs name ps hn hw.1.2 (by decide) ?_ ?_
    · obtain ⟨c, s, hp, hc⟩ := printTy_head (Ty.frag_all ty) hw.2
      rw [hp]
      simp [headAll, (typeHead_facts hc).2.2.2.2.2.2]
    · rw [parseTypeG_eq_parseType]
      have h := (knot_good ty.lvT).td ty (Ty.frag_all ty) hw.2 (Nat.le_refl _) rest hr
      exact parseType_of_knot h

/-- `type_alias` reads the broken layout back -/
theorem typeAlias_broken (name : Option Str) (ps : List Str) (ts : List Ty)
    (hw : Alias.wf ⟨name, ps, .union ts⟩ = true) (rest : Str) (hr : stopTd rest = true) :
    typeAlias (brokenAlias name ps ts ++ rest) = .ok ⟨name, ps, .union ts⟩ rest := by
  simp only [Alias.wf, Bool.and_eq_true] at hw
  have hn : ∀ n, name = some n → isIdentStr n = true := by
    intro n e; subst e; exact hw.1.1
  have hwt : 2 ≤ ts.length ∧ Ty.wfList ts = true := by
    simpa [Ty.wf] using hw.2
  cases ts with
  | nil => simp at hwt
  | cons m ms =>
    have htxt : brokenAlias name ps (m :: ms) ++ rest =
        aliasLhs name ps ++ (['\n', ' ', ' '] ++
          ('|' :: ' ' :: (printMember m ++ (brokenMembers ms ++ rest)))) := by
      simp [brokenAlias, brokenMembers, brkSep, List.append_assoc]
    rw [htxt]
    refine typeAlias_lhs name ps hn hw.1.2 (by decide) (by simp [headAll, isMultispace]) ?_
    rw [parseTypeG_eq_parseType]
    exact parseType_broken hwt.2 (by simpa using hwt.1) hr

theorem fmtAlias_quote (a : Alias) (hw : a.wf = true) : ∃ s, fmtAlias a = '\'' :: s := by
  rcases fmtAlias_text a hw with h | ⟨ts, _, h⟩
  · refine ⟨(printAlias a ++ ['\n']).tail, ?_⟩
    rw [h]
    obtain ⟨name, ps, ty⟩ := a
    cases ty <;> simp [printAlias, aliasLhs]
  · exact ⟨_, by rw [h]; simp [brokenAlias, aliasLhs]; rfl⟩

/-! ### 7. Which layout: the group breaks exactly when the flat line exceeds 100 columns -/

section
variable (R : Int) (i : Nat) (m : Mode) (loc rest : List Frame)

theorem fl_nil (h0 : ¬ R < 0) : fitsLoop R (⟨i, m, .nil⟩ :: loc) rest = fitsLoop R loc rest :=
  fitsLoop_docNil R (⟨i, m, .nil⟩ :: loc) rest loc rest ⟨i, m, .nil⟩ h0 rfl rfl
theorem fl_text (s : List Char) (h0 : ¬ R < 0) :
    fitsLoop R (⟨i, m, .text s⟩ :: loc) rest = fitsLoop (R - (s.length : Int)) loc rest :=
  fitsLoop_text R (⟨i, m, .text s⟩ :: loc) rest loc rest ⟨i, m, .text s⟩ h0 rfl s rfl
theorem fl_line_flat (h0 : ¬ R < 0) :
    fitsLoop R (⟨i, .flat, .line⟩ :: loc) rest = fitsLoop (R - 1) loc rest :=
  fitsLoop_line_flat R (⟨i, .flat, .line⟩ :: loc) rest loc rest ⟨i, .flat, .line⟩ h0 rfl rfl rfl
theorem fl_ifBreak_flat (b fl : Doc) (h0 : ¬ R < 0) :
    fitsLoop R (⟨i, .flat, .ifBreak b fl⟩ :: loc) rest = fitsLoop R (⟨i, .flat, fl⟩ :: loc) rest :=
  fitsLoop_ifBreak_flat R (⟨i, .flat, .ifBreak b fl⟩ :: loc) rest loc rest ⟨i, .flat, .ifBreak b fl⟩ h0 rfl
    b fl rfl rfl
theorem fl_nest (n : Nat) (d : Doc) (h0 : ¬ R < 0) :
    fitsLoop R (⟨i, m, .nest n d⟩ :: loc) rest = fitsLoop R (⟨i + n, m, d⟩ :: loc) rest :=
  fitsLoop_nest R (⟨i, m, .nest n d⟩ :: loc) rest loc rest ⟨i, m, .nest n d⟩ h0 rfl n d rfl
theorem fl_concat (ds : List Doc) (h0 : ¬ R < 0) :
    fitsLoop R (⟨i, m, .concat ds⟩ :: loc) rest = fitsLoop R (mkFrames i m ds ++ loc) rest :=
  fitsLoop_concat R (⟨i, m, .concat ds⟩ :: loc) rest loc rest ⟨i, m, .concat ds⟩ h0 rfl ds rfl
end

/-- the width of the members on the flat line: a space, `| ` except before the first, the member -/
def membersWidth : Bool → List Ty → Nat
  | _, [] => 0
  | first, t :: rest =>
    1 + (if first then 0 else 2) + (printMember t).length + membersWidth false rest

theorem fits_end (R : Int) : fitsLoop R [] [⟨0, .brk, .nil⟩] = decide ((0 : Int) ≤ R) := by
  by_cases h0 : R < 0
  · rw [fitsLoop_neg R _ _ h0]; simp; omega
  · rw [fitsLoop_docNil R [] [⟨0, .brk, .nil⟩] [] [] ⟨0, .brk, .nil⟩ h0 rfl rfl,
      fitsLoop_none R [] [] h0 rfl]
    simp; omega

/-- `fits` on the members: true exactly when their flat width is within the remaining columns -/
theorem fits_parts : ∀ (ts : List Ty) (first : Bool) (R : Int),
    fitsLoop R (mkFrames 2 .flat (unionAliasParts first ts)) [⟨0, .brk, .nil⟩] =
      decide ((membersWidth first ts : Int) ≤ R) := by
  intro ts
  induction ts with
  | nil =>
    intro first R
    simp only [unionAliasParts, mkFrames, membersWidth]
    exact fits_end R
  | cons t rest ih =>
    intro first R
    have hneg : ∀ {R' : Int} {X : Prop} [Decidable X], R' < 0 → (X → 0 ≤ R') →
        ∀ loc, fitsLoop R' loc [⟨0, .brk, .nil⟩] = decide X := by
      intro R' X _ h hx loc
      rw [fitsLoop_neg R' _ _ h]
      simp only [Bool.false_eq, decide_eq_false_iff_not]
      intro x; have := hx x; omega
    simp only [unionAliasParts, mkFrames, membersWidth]
    by_cases h0 : R < 0
    · exact hneg h0 (by intro h; omega) _
    rw [fl_line_flat R 2 _ _ h0]
    by_cases h1 : R - 1 < 0
    · exact hneg h1 (by intro h; omega) _
    cases first with
    | true =>
      simp only [if_true]
      rw [fl_ifBreak_flat (R - 1) 2 _ _ _ _ h1, fl_nil (R - 1) 2 .flat _ _ h1,
        fl_text (R - 1) 2 .flat _ _ _ h1, ih false]
      simp only [decide_eq_decide]
      omega
    | false =>
      simp only [Bool.false_eq_true, if_false]
      rw [fl_text (R - 1) 2 .flat _ _ _ h1]
      by_cases h2 : R - 1 - ((['|', ' '] : List Char).length : Int) < 0
      · exact hneg h2 (by intro h; simp only [List.length_cons, List.length_nil] at h2 ⊢; omega) _
      rw [fl_text _ 2 .flat _ _ _ h2, ih false]
      simp only [decide_eq_decide, List.length_cons, List.length_nil]
      omega

theorem forcesBreak_parts : ∀ (ts : List Ty) (first : Bool),
    forcesBreakAny (unionAliasParts first ts) = false := by
  intro ts
  induction ts with
  | nil => intro _; rfl
  | cons t rest ih =>
    intro first
    cases first <;> simp [unionAliasParts, forcesBreakAny, forcesBreak, ih]

/-- the mode the group of `union_alias_doc` gets -/
def unionMode (name : Option Str) (ps : List Str) (ts : List Ty) : Mode :=
  if (aliasLhs name ps).length + membersWidth true ts ≤ 100 then .flat else .brk

theorem printPieces_union_mode (name : Option Str) (ps : List Str) (ts : List Ty) (hne : ts ≠ []) :
    printPieces (Doc.join .hardline [aliasDoc ⟨name, ps, .union ts⟩]) 100 =
      Piece.atom (aliasLhs name ps) :: memberPieces (unionMode name ps ts) true ts := by
  have hfb : forcesBreak (.nest 2 (.concat (unionAliasParts true ts))) = false := by
    simp [forcesBreak, forcesBreak_parts]
  have hW : 1 ≤ membersWidth true ts := by
    cases ts with
    | nil => exact absurd rfl hne
    | cons t rest => simp only [membersWidth]; omega
  have hfits : fits (100 - (0 + (aliasLhs name ps).length)) 0
      (.nest 2 (.concat (unionAliasParts true ts))) [⟨0, .brk, .nil⟩] =
      decide ((aliasLhs name ps).length + membersWidth true ts ≤ 100) := by
    unfold fits
    rw [toIsize_small _ (by omega)]
    have h0 : ¬ (((100 - (0 + (aliasLhs name ps).length) : Nat) : Int) < 0) := by omega
    rw [fl_nest _ 0 .flat _ _ _ _ h0, fl_concat _ (0 + 2) .flat _ _ _ h0]
    simp only [List.append_nil, Nat.zero_add]
    rw [fits_parts]
    simp only [decide_eq_decide]
    omega
  simp only [printPieces, Doc.join, Doc.joinList, aliasDoc, unionAliasDoc, Doc.mkGroup, pl_concat,
    mkFrames, List.cons_append, List.nil_append, pl_nil, pl_text]
  rw [printLoop_group 100 _ _ _ [] _ _ rfl, hfb, hfits]
  simp only [Bool.false_or]
  rw [pl_nest, pl_concat]
  unfold unionMode
  by_cases hle : (aliasLhs name ps).length + membersWidth true ts ≤ 100
  · simp only [hle, decide_true, Bool.not_true, Bool.false_eq_true, if_false, if_true, Nat.zero_add]
    rw [parts_pieces 100 .flat ts true _]
  · simp only [hle, decide_false, Bool.not_false, if_true, if_false, Nat.zero_add]
    rw [parts_pieces 100 .brk ts true _]

theorem length_printAlias_union (name : Option Str) (ps : List Str) (m : Ty) (ms : List Ty) :
    (printAlias ⟨name, ps, .union (m :: ms)⟩).length =
      (aliasLhs name ps).length + membersWidth true (m :: ms) := by
  have h : ∀ ms : List Ty, ((ms.map ([' ', '|', ' '] ++ printMember ·)).flatten).length =
      membersWidth false ms := by
    intro ms
    induction ms with
    | nil => rfl
    | cons x xs ih =>
      simp only [List.map_cons, List.flatten_cons, List.length_append, List.length_cons,
        List.length_nil, membersWidth, Bool.false_eq_true, if_false]
      rw [ih] <;> omega
  simp only [printAlias, printMembers, printMembersL_eq, List.map_cons]
  rw [sepBy_cons, List.map_map]
  simp only [List.length_append, List.length_cons, membersWidth, if_true]
  have := h ms
  simp only [Function.comp_def] at this ⊢
  rw [this]; omega

/-- **the layout is decided by the length of the flat line**: `format_program` writes the flat line
    unless the right-hand side is a union and the flat line is longer than 100 characters; then every
    member gets its own line. -/
theorem fmtAlias_decided (a : Alias) (hw : a.wf = true) :
    fmtAlias a =
      (match a.ty with
       | .union ts =>
         if (printAlias a).length ≤ 100 then printAlias a else brokenAlias a.name a.params ts
       | _ => printAlias a) ++ ['\n'] := by
  obtain ⟨name, ps, ty⟩ := a
  by_cases hu : ∃ ts, ty = .union ts
  · obtain ⟨ts, rfl⟩ := hu
    have hw' := hw
    simp only [Alias.wf, Bool.and_eq_true] at hw
    have hn : ∀ n, name = some n → isIdentStr n = true := by
      intro n e; subst e; exact hw.1.1
    have hlhs := goodS_lhs name ps hn hw.1.2
    have hwt : 2 ≤ ts.length ∧ Ty.wfList ts = true := by
      simpa [Ty.wf] using hw.2
    cases ts with
    | nil => simp at hwt
    | cons t ts =>
      have hmem : ∀ x ∈ t :: ts, GoodS (printMember x) = true := fun x hx =>
        goodS_memberWrap x (goodS_printTys (t :: ts) hwt.2 x hx)
      have hm := printPieces_union_mode name ps (t :: ts) (by simp)
      have htm := tidy_members (unionMode name ps (t :: ts)) (t :: ts) true hmem
      obtain ⟨p1, p2, p3⟩ := passes_of_tidy (P := Piece.atom (aliasLhs name ps) ::
          memberPieces (unionMode name ps (t :: ts)) true (t :: ts))
        (by simp only [explode]; exact tidy_good _ hlhs false _ htm.1)
        (by simp only [explode]; rw [nulFree_chars _ (goodS_ok hlhs)]; exact htm.2)
      have hfmt : fmtAlias ⟨name, ps, .union (t :: ts)⟩ =
          renderPieces (Piece.atom (aliasLhs name ps) ::
            memberPieces (unionMode name ps (t :: ts)) true (t :: ts)) ++ ['\n'] := by
        unfold fmtAlias QM.Text.print
        rw [hm, p1, p2, p3]
      rw [hfmt, length_printAlias_union]
      unfold unionMode
      by_cases hle : (aliasLhs name ps).length + membersWidth true (t :: ts) ≤ 100
      · simp only [hle, if_true, renderPieces, Piece.render, render_members_flat, printAlias]
      · simp only [hle, if_false, renderPieces, Piece.render, render_members_brk, brokenAlias]
  · rcases fmtAlias_text ⟨name, ps, ty⟩ hw with h | ⟨ts, hty, _⟩
    · rw [h]
      cases ty with
      | union ts => exact absurd ⟨ts, rfl⟩ hu
      | _ => rfl
    · exact absurd ⟨ts, hty⟩ hu

end QM.Parse
