/-
M-Parse lemmas, part 4 — the round trip `parse (print t ++ rest) = (normalize t, rest)`.

Side conditions on the text that follows the printed type (`stopB`, `stopTd`), the fragment of the
type language for which the round trip is proved here (`Ty.frag`), the nesting level that bounds the
fuel a printed type needs (`Ty.lvA`, `Ty.lvT`), and the induction over knot levels (`GoodK`).
-/
import QuiverModel.Lemmas.Parse.Eval
namespace QM.Parse

/-! ### What may follow a printed type -/

/-- characters that, directly behind a type, could be read as a continuation of it -/
def contChar (c : Char) : Bool :=
  isIdentBody c || c == '?' || c == '!' || c == '<' || c == '[' || c == '(' || c == '\'' ||
  c == '%' || c == '/' || c == '.' || c == '@' || c == '^' || c == '\\' || c == '#'

/-- `rest` cannot continue a `base_type`: it does not start with a continuation character, and it is
    not whitespace followed by `(` (a bare tuple name is not accepted in front of that). -/
def stopB (rest : Str) : Bool :=
  headAll (fun c => !contChar c) rest && headAll (fun c => c != '(') (rest.dropWhile isMultispace)

/-- `rest` cannot continue a `type_definition`: as `stopB`, and after whitespace and comments there
    is no `|` or `&`. -/
def stopTd (rest : Str) : Bool :=
  stopB rest && headAll (fun c => c != '|' && c != '&') (skipWsc false rest)

theorem stopB_head {rest : Str} (h : stopB rest = true) {c : Char} (hc : contChar c = true) :
    headAll (· ≠ c) rest = true := by
  cases rest with
  | nil => rfl
  | cons d t =>
    simp only [stopB, headAll, Bool.and_eq_true, Bool.not_eq_true'] at h
    simp only [headAll, decide_eq_true_eq]
    intro e; subst e; rw [hc] at h; exact absurd h.1 (by simp)

theorem stopB_idstop {rest : Str} (h : stopB rest = true) : IdStop rest := by
  cases rest with
  | nil => trivial
  | cons d t =>
    simp only [stopB, headAll, Bool.and_eq_true, Bool.not_eq_true'] at h
    have h1 := h.1
    simp only [contChar, Bool.or_eq_false_iff, beq_eq_false_iff_ne, ne_eq] at h1
    exact ⟨h1.1.1.1.1.1.1.1.1.1.1.1.1.1, h1.1.1.1.1.1.1.1.1.1.1.1.1.2, h1.1.1.1.1.1.1.1.1.1.1.1.2⟩

theorem stopB_body {rest : Str} (h : stopB rest = true) :
    ∀ c t, rest = c :: t → isIdentBody c = false := by
  intro c t e; subst e; exact (stopB_idstop h).1

theorem stopB_digit {rest : Str} (h : stopB rest = true) :
    ∀ c t, rest = c :: t → isDigit c = false := by
  intro c t e
  have := stopB_body h c t e
  simp only [isIdentBody, Bool.or_eq_false_iff] at this
  exact this.1.2

theorem stopB_peek {rest : Str} (h : stopB rest = true) :
    peekNot (seq ws0 (pchar '(')) rest = .ok () rest := by
  apply peekNot_of_fails
  simp only [stopB, Bool.and_eq_true] at h
  have h2 : headAll (· ≠ '(') (rest.dropWhile isMultispace) = true := by
    cases hh : rest.dropWhile isMultispace with
    | nil => rfl
    | cons d t => have := h.2; rw [hh] at this; simpa [headAll] using this
  exact Fails.seq_ok (a := ()) (r := rest.dropWhile isMultispace) (by simp [ws0]) (pchar_fails_of_head h2)

theorem stopTd_stopB {rest : Str} (h : stopTd rest = true) : stopB rest = true := by
  simp only [stopTd, Bool.and_eq_true] at h; exact h.1

theorem stopTd_bar {rest : Str} (h : stopTd rest = true) {c : Char} (hc : c = '|' ∨ c = '&') :
    Fails (barOp c) rest := by
  simp only [stopTd, Bool.and_eq_true] at h
  have h2 : headAll (· ≠ c) (skipWsc false rest) = true := by
    cases hh : skipWsc false rest with
    | nil => rfl
    | cons d t =>
      have := h.2; rw [hh] at this
      simp only [headAll, Bool.and_eq_true, bne_iff_ne, ne_eq] at this
      simp only [headAll, decide_eq_true_eq]
      rcases hc with rfl | rfl
      · exact this.1
      · exact this.2
  unfold barOp
  exact Fails.seq_ok (a := ()) (r := skipWsc false rest) (by simp [wsc]) (Fails.seq (pchar_fails_of_head h2))

/-! ### Failure of an alternative by the first character -/

section
variable (k : Knot)

theorem tupleType_fails_head {i : Str}
    (h : headAll (fun c => !isUpper c && c != '\'' && c != '[') i = true) :
    Fails (tupleType k) i := by
  have hu : headAll (fun c => !isUpper c) i = true := by
    cases i with
    | nil => rfl
    | cons c r => simp only [headAll, Bool.and_eq_true] at h ⊢; exact h.1.1
  have hq : headAll (· ≠ '\'') i = true := by
    cases i with
    | nil => rfl
    | cons c r => simp only [headAll, Bool.and_eq_true, bne_iff_ne] at h; simpa [headAll] using h.1.2
  have hb : headAll (· ≠ '[') i = true := by
    cases i with
    | nil => rfl
    | cons c r => simp only [headAll, Bool.and_eq_true, bne_iff_ne] at h; simpa [headAll] using h.2
  unfold tupleType
  refine Fails.alt (Fails.bind (tupleName_fails_of_head hu)) (Fails.alt (Fails.verify (Fails.bind ?_))
    (Fails.alt (Fails.pmap ?_) (Fails.bind (tupleName_fails_of_head hu))))
  · exact Fails.seq (pchar_fails_of_head hq)
  · exact Fails.delimited (Fails.seq (pchar_fails_of_head hb))

theorem partialType_fails_head {i : Str}
    (h : headAll (fun c => !isUpper c && c != '(') i = true) : Fails (partialType k) i := by
  have hu : headAll (fun c => !isUpper c) i = true := by
    cases i with
    | nil => rfl
    | cons c r => simp only [headAll, Bool.and_eq_true] at h ⊢; exact h.1
  have hb : headAll (· ≠ '(') i = true := by
    cases i with
    | nil => rfl
    | cons c r => simp only [headAll, Bool.and_eq_true, bne_iff_ne] at h; simpa [headAll] using h.2
  unfold partialType
  exact Fails.alt (Fails.bind (tupleName_fails_of_head hu))
    (Fails.verify (Fails.pmap (Fails.delimited (Fails.seq (pchar_fails_of_head hb)))))

theorem resourceType_fails_head {i : Str} (h : headAll (· ≠ '\\') i = true) :
    Fails resourceType i := Fails.pmap (Fails.seq (pchar_fails_of_head h))

theorem typeCycle_fails_head {i : Str} (h : headAll (· ≠ '^') i = true) : Fails typeCycle i :=
  Fails.seq (pchar_fails_of_head h)

theorem processType_fails_head {i : Str} (h1 : headAll (· ≠ '(') i = true)
    (h2 : headAll (· ≠ '@') i = true) : Fails (processType k) i := by
  unfold processType
  exact Fails.alt (Fails.delimited (pchar_fails_of_head h1)) (Fails.seq (pchar_fails_of_head h2))

theorem typeParameter_fails_head {i : Str} (h : headAll (· ≠ '<') i = true) :
    Fails typeParameter i := Fails.pmap (Fails.delimited (pchar_fails_of_head h))

theorem moduleType_fails_head {i : Str} (h : headAll (· ≠ '\'') i = true) :
    Fails (moduleType k) i := Fails.seq (pchar_fails_of_head h)

theorem groupType_fails_head {i : Str} (h : headAll (· ≠ '(') i = true) :
    Fails (groupType k) i := Fails.delimited (Fails.seq (pchar_fails_of_head h))

theorem typeIdentifier_fails_head {i : Str} (h : headAll (· ≠ '\'') i = true) :
    Fails (typeIdentifier k) i := Fails.bind (Fails.seq (pchar_fails_of_head h))

end

/-! ### Cascades of `base_type` and `function_input_type` by first character -/

section
variable (k : Knot)

theorem base_of_tuple {i r : Str} {t : Ty} (h : tupleType k i = .ok t r) :
    baseTypeWith k i = .ok t r := by unfold baseTypeWith; exact alt_of_ok h

/-- input starting with `'`: only `tuple_type` (alias form), `module_type`, `type_identifier`,
    `self_default_type` can apply -/
theorem base_quote {s : Str} (h1 : Fails (tupleType k) ('\'' :: s))
    (h2 : Fails (moduleType k) ('\'' :: s)) :
    baseTypeWith k ('\'' :: s) = alt (typeIdentifier k) (selfDefaultType k) ('\'' :: s) := by
  unfold baseTypeWith
  rw [alt_of_fails h1, alt_of_fails (partialType_fails_head k (by simp [headAll, isUpper])),
    alt_of_fails (resourceType_fails_head (by simp [headAll])),
    alt_of_fails (typeCycle_fails_head (by simp [headAll])),
    alt_of_fails (processType_fails_head k (by simp [headAll]) (by simp [headAll])),
    alt_of_fails (typeParameter_fails_head (by simp [headAll])), alt_of_fails h2,
    alt_of_fails (groupType_fails_head k (by simp [headAll]))]

theorem fio_quote {s : Str} (h1 : Fails (tupleType k) ('\'' :: s))
    (h2 : Fails (moduleType k) ('\'' :: s)) :
    functionIoType k ('\'' :: s) = alt (typeIdentifier k) (selfDefaultType k) ('\'' :: s) := by
  unfold functionIoType
  rw [alt_of_fails (partialType_fails_head k (by simp [headAll, isUpper])),
    alt_of_fails (groupType_fails_head k (by simp [headAll])), alt_of_fails h1,
    alt_of_fails (resourceType_fails_head (by simp [headAll])),
    alt_of_fails (typeCycle_fails_head (by simp [headAll])),
    alt_of_fails (processType_fails_head k (by simp [headAll]) (by simp [headAll])),
    alt_of_fails h2]

/-- input starting with `(` -/
theorem base_paren {s r : Str} {t : Ty} (h1 : Fails (partialType k) ('(' :: s))
    (h2 : Fails (processType k) ('(' :: s)) (h3 : groupType k ('(' :: s) = .ok t r) :
    baseTypeWith k ('(' :: s) = .ok t r := by
  unfold baseTypeWith
  rw [alt_of_fails (tupleType_fails_head k (by simp [headAll, isUpper])), alt_of_fails h1,
    alt_of_fails (resourceType_fails_head (by simp [headAll])),
    alt_of_fails (typeCycle_fails_head (by simp [headAll])), alt_of_fails h2,
    alt_of_fails (typeParameter_fails_head (by simp [headAll])),
    alt_of_fails (moduleType_fails_head k (by simp [headAll])), alt_of_ok h3]

theorem fio_paren {s r : Str} {t : Ty} (h1 : Fails (partialType k) ('(' :: s))
    (h3 : groupType k ('(' :: s) = .ok t r) : functionIoType k ('(' :: s) = .ok t r := by
  unfold functionIoType
  rw [alt_of_fails h1, alt_of_ok h3]

/-- input for which `partial_type` and the parenthesis group fail and `tuple_type` succeeds -/
theorem fio_of_tuple {i r : Str} {t : Ty} (h1 : Fails (partialType k) i)
    (h2 : headAll (· ≠ '(') i = true) (h : tupleType k i = .ok t r) :
    functionIoType k i = .ok t r := by
  unfold functionIoType
  rw [alt_of_fails h1, alt_of_fails (groupType_fails_head k h2), alt_of_ok h]

/-! ### Leaves -/

theorem isIdentStr_head {n : Str} (h : isIdentStr n = true) : ∃ c r, n = c :: r ∧ isLower c = true := by
  cases n with
  | nil => simp [isIdentStr] at h
  | cons c r => simp only [isIdentStr, Bool.and_eq_true] at h; exact ⟨c, r, rfl, h.1⟩

theorem isTupleNameStr_head {n : Str} (h : isTupleNameStr n = true) :
    ∃ c r, n = c :: r ∧ isUpper c = true := by
  cases n with
  | nil => simp [isTupleNameStr] at h
  | cons c r => simp only [isTupleNameStr, Bool.and_eq_true] at h; exact ⟨c, r, rfl, h.1⟩

theorem lower_facts {c : Char} (h : isLower c = true) :
    isUpper c = false ∧ c ≠ '%' ∧ c ≠ '\'' ∧ c ≠ '[' ∧ c ≠ '(' := by
  simp only [isLower, Bool.and_eq_true, decide_eq_true_eq] at h
  refine ⟨?_, ?_, ?_, ?_, ?_⟩
  · simp only [isUpper, Bool.and_eq_false_iff, decide_eq_false_iff_not]; omega
  all_goals (intro e; subst e; revert h; decide)

theorem upper_facts {c : Char} (h : isUpper c = true) :
    isLower c = false ∧ c ≠ '\'' ∧ c ≠ '[' ∧ c ≠ '(' ∧ c ≠ '#' ∧ c ≠ '|' ∧ c ≠ '@' := by
  simp only [isUpper, Bool.and_eq_true, decide_eq_true_eq] at h
  refine ⟨?_, ?_, ?_, ?_, ?_, ?_, ?_⟩
  · simp only [isLower, Bool.and_eq_false_iff, decide_eq_false_iff_not]; omega
  all_goals (intro e; subst e; revert h; decide)

theorem typeName_quote {n rest : Str} (hn : isIdentStr n = true) (hr : stopB rest = true) :
    typeName ('\'' :: (n ++ rest)) = .ok n rest := by
  unfold typeName
  rw [seq_ok (pchar_self _ _)]
  exact identifier_append hn (stopB_idstop hr)

theorem typeArgs_fails_stop {rest : Str} (hr : stopB rest = true) : Fails (typeArgs k) rest :=
  Fails.delimited (pchar_fails_of_head (stopB_head hr (c := '<') rfl))

theorem typeIdentifier_ident {n rest : Str} (hn : isIdentStr n = true) (hr : stopB rest = true) :
    typeIdentifier k ('\'' :: (n ++ rest)) = .ok (identifierToType n) rest := by
  unfold typeIdentifier
  rw [bind_ok (typeName_quote hn hr), pmap_ok (opt_of_fails (typeArgs_fails_stop k hr))]

theorem tupleType_fails_ident {n rest : Str} (hn : isIdentStr n = true) (hr : stopB rest = true) :
    Fails (tupleType k) ('\'' :: (n ++ rest)) := by
  unfold tupleType
  refine Fails.alt (Fails.bind (tupleName_fails_of_head (by simp [headAll, isUpper])))
    (Fails.alt (Fails.verify (Fails.bind_ok (typeName_quote hn hr) (Fails.pmap ?_)))
    (Fails.alt (Fails.pmap (Fails.delimited (Fails.seq (pchar_ne (by decide) _))))
      (Fails.bind (tupleName_fails_of_head (by simp [headAll, isUpper])))))
  exact Fails.delimited (Fails.seq (pchar_fails_of_head (stopB_head hr (c := '[') rfl)))

theorem moduleType_fails_ident {n rest : Str} (hn : isIdentStr n = true) :
    Fails (moduleType k) ('\'' :: (n ++ rest)) := by
  obtain ⟨c, r, rfl, hc⟩ := isIdentStr_head hn
  unfold moduleType
  refine Fails.seq_ok (pchar_self _ _) (Fails.bind ?_)
  exact Fails.seq (pchar_ne (lower_facts hc).2.1 _)

theorem base_ident {n rest : Str} (hn : isIdentStr n = true) (hr : stopB rest = true) :
    baseTypeWith k ('\'' :: (n ++ rest)) = .ok (identifierToType n) rest := by
  rw [base_quote k (tupleType_fails_ident k hn hr) (moduleType_fails_ident k hn),
    alt_of_ok (typeIdentifier_ident k hn hr)]

theorem fio_ident {n rest : Str} (hn : isIdentStr n = true) (hr : stopB rest = true) :
    functionIoType k ('\'' :: (n ++ rest)) = .ok (identifierToType n) rest := by
  rw [fio_quote k (tupleType_fails_ident k hn hr) (moduleType_fails_ident k hn),
    alt_of_ok (typeIdentifier_ident k hn hr)]

theorem resourceType_ok {n rest : Str} (hn : isTupleNameStr n = true) (hr : stopB rest = true) :
    resourceType ('\\' :: (n ++ rest)) = .ok (.resource n) rest := by
  unfold resourceType
  rw [pmap_ok (a := n) (r := rest)]
  rw [seq_ok (pchar_self _ _)]
  exact tupleName_append hn (stopB_body hr)

theorem base_resource {n rest : Str} (hn : isTupleNameStr n = true) (hr : stopB rest = true) :
    baseTypeWith k ('\\' :: (n ++ rest)) = .ok (.resource n) rest := by
  unfold baseTypeWith
  rw [alt_of_fails (tupleType_fails_head k (by simp [headAll, isUpper])),
    alt_of_fails (partialType_fails_head k (by simp [headAll, isUpper])),
    alt_of_ok (resourceType_ok hn hr)]

theorem fio_resource {n rest : Str} (hn : isTupleNameStr n = true) (hr : stopB rest = true) :
    functionIoType k ('\\' :: (n ++ rest)) = .ok (.resource n) rest := by
  unfold functionIoType
  rw [alt_of_fails (partialType_fails_head k (by simp [headAll, isUpper])),
    alt_of_fails (groupType_fails_head k (by simp [headAll])),
    alt_of_fails (tupleType_fails_head k (by simp [headAll, isUpper])),
    alt_of_ok (resourceType_ok hn hr)]

/-- the digits behind `^` -/
def printCycle : Option Nat → Str
  | none => []
  | some n => natDigits n

theorem typeCycle_ok {l : Option Nat} (hl : ∀ n, l = some n → n < 2 ^ 64) {rest : Str}
    (hr : stopB rest = true) : typeCycle ('^' :: (printCycle l ++ rest)) = .ok (.cycle l) rest := by
  unfold typeCycle
  rw [seq_ok (pchar_self _ _)]
  cases l with
  | none =>
    have : Fails usize rest := by
      refine ⟨rest, .digit, ?_⟩
      have : rest.takeWhile isDigit = [] := by
        cases rest with
        | nil => rfl
        | cons c t => simp [stopB_digit hr c t rfl]
      simp [usize, this]
    simp only [printCycle, List.nil_append]
    rw [pmap_ok (opt_of_fails this)]
  | some n =>
    simp only [printCycle]
    rw [pmap_ok (opt_ok (usize_append (hl n rfl) (stopB_digit hr)))]

theorem base_cycle {l : Option Nat} (hl : ∀ n, l = some n → n < 2 ^ 64) {rest : Str}
    (hr : stopB rest = true) : baseTypeWith k ('^' :: (printCycle l ++ rest)) = .ok (.cycle l) rest := by
  unfold baseTypeWith
  rw [alt_of_fails (tupleType_fails_head k (by simp [headAll, isUpper])),
    alt_of_fails (partialType_fails_head k (by simp [headAll, isUpper])),
    alt_of_fails (resourceType_fails_head (by simp [headAll])),
    alt_of_ok (typeCycle_ok hl hr)]

theorem fio_cycle {l : Option Nat} (hl : ∀ n, l = some n → n < 2 ^ 64) {rest : Str}
    (hr : stopB rest = true) : functionIoType k ('^' :: (printCycle l ++ rest)) = .ok (.cycle l) rest := by
  unfold functionIoType
  rw [alt_of_fails (partialType_fails_head k (by simp [headAll, isUpper])),
    alt_of_fails (groupType_fails_head k (by simp [headAll])),
    alt_of_fails (tupleType_fails_head k (by simp [headAll, isUpper])),
    alt_of_fails (resourceType_fails_head (by simp [headAll])),
    alt_of_ok (typeCycle_ok hl hr)]

theorem printTy_cycle (l : Option Nat) : printTy (.cycle l) = '^' :: printCycle l := by
  cases l <;> simp [printTy, printCycle]

end

/-! ### The fragment, nesting levels, and the invariant of a knot level -/

mutual
/-- The fragment of the type language for which the round trip is proved: primitives, alias
    references without arguments, `^`, resources, non-partial tuples (named or not) with named or
    positional fields, function types and unions, nested without bound. -/
def Ty.frag : Ty → Bool
  | .prim _ => true
  | .ident _ args => Ty.fragList args
  | .selfDefault args => Ty.fragList args
  | .modty _ _ args => Ty.fragList args
  | .cycle _ => true
  | .resource _ => true
  | .tuple _ fs _ => Field.fragList fs
  | .func i o => i.frag && o.frag
  | .union ts => Ty.fragList ts
  | .inter ts => Ty.fragList ts
  | .proc a r => Ty.fragOpt a && Ty.fragOpt r
def Ty.fragOpt : Option Ty → Bool
  | none => true
  | some t => t.frag
def Ty.fragList : List Ty → Bool
  | [] => true
  | t :: ts => t.frag && Ty.fragList ts
def Field.frag : Field → Bool
  | .field _ t => t.frag
  | .spread _ args => Ty.fragList args
def Field.fragList : List Field → Bool
  | [] => true
  | f :: fs => f.frag && Field.fragList fs
end

mutual
/-- knot levels needed to read the printed ATOM form of a type -/
def Ty.lvA : Ty → Nat
  | .func i o => max i.lvA o.lvA + 1
  | .union ts => Ty.lvAList ts + 1
  | .tuple _ fs _ => Field.lvList fs + 1
  | .inter ts => Ty.lvAList ts + 1
  | .ident n args => if args.isEmpty && isPrimName n then 2 else Ty.lvAList args + 1
  | .proc a none => Ty.lvAOpt a + 1
  | .proc a (some r) => max (Ty.lvAOpt a + 1) r.lvA + 1
  | .modty _ _ args => Ty.lvAList args + 1
  | .selfDefault args => Ty.lvAList args + 1
  | .prim _ => 1
  | .cycle _ => 1
  | .resource _ => 1
def Ty.lvAList : List Ty → Nat
  | [] => 0
  | t :: ts => max t.lvA (Ty.lvAList ts)
def Ty.lvAOpt : Option Ty → Nat
  | none => 0
  | some t => t.lvA
def Field.lv : Field → Nat
  | .field _ t => t.lvA
  | .spread _ args => Ty.lvAList args
def Field.lvList : List Field → Nat
  | [] => 0
  | f :: fs => max f.lv (Field.lvList fs)
end

/-- knot levels needed to read the printed form of a type as a UNION MEMBER (intersection level) -/
def Ty.lvM : Ty → Nat
  | .inter ts => Ty.lvAList ts
  | .ident _ [] => 1
  | t => t.lvA

/-- knot levels needed to read the printed form of a type at `type_definition` level -/
def Ty.lvT : Ty → Nat
  | .func i o => max i.lvA o.lvA
  | t => t.lvM

theorem Ty.lvM_le_lvA (t : Ty) : t.lvM ≤ t.lvA := by
  cases t with
  | ident n args =>
    cases args with
    | nil => simp only [Ty.lvM, Ty.lvA]; split <;> simp [Ty.lvAList]
    | cons a as => simp [Ty.lvM]
  | _ => simp [Ty.lvM, Ty.lvA]

theorem Ty.lvT_le_lvA (t : Ty) : t.lvT ≤ t.lvA := by
  cases t with
  | func i o => simp [Ty.lvT, Ty.lvA]
  | _ => simp only [Ty.lvT]; exact Ty.lvM_le_lvA _

/-- an argument-less reference named like a primitive (printed `<'int>`, as an atom `(<'int>)`) -/
def Ty.isPrimRef : Ty → Bool
  | .ident n [] => isPrimName n
  | _ => false

/-- `k.td` rejects a text that starts with a closing bracket -/
def KClose (k : Knot) : Prop := ∀ (c : Char) (s : Str), c = ']' ∨ c = ')' → Fails k.td (c :: s)

/-- What a knot that is `L` levels deep reads back. -/
structure GoodK (k : Knot) (L : Nat) : Prop where
  sound : KSound k
  close : KClose k
  /-- `k.bt` rejects a text that cannot continue a type (what follows a bare `@`) -/
  btstop : ∀ rest : Str, stopB rest = true → Fails k.bt rest
  td : ∀ t : Ty, t.frag = true → t.wf = true → t.lvT ≤ L → ∀ rest, stopTd rest = true →
    k.td (printTy t ++ rest) = .ok t rest
  bt : ∀ t : Ty, t.frag = true → t.wf = true → t.lvA ≤ L → ∀ rest, stopB rest = true →
    k.bt (printAtom t ++ rest) = .ok t rest
  bare : ∀ ts : List Ty, Ty.fragList ts = true → Ty.wfList ts = true → 2 ≤ ts.length →
    Ty.lvAList ts ≤ L → ∀ rest, stopTd rest = true →
    k.td (printMembers ts ++ rest) = .ok (.union ts) rest

/-! ### Heads of printed types -/

/-- the first character of a printed atom -/
def atomHead (c : Char) : Bool :=
  c == '\'' || isUpper c || c == '[' || c == '(' || c == '^' || c == '\\' || c == '@'

theorem atomHead_facts {c : Char} (h : atomHead c = true) :
    c ≠ '#' ∧ c ≠ '|' ∧ c ≠ '.' ∧ c ≠ '/' ∧ True ∧ c ≠ ',' ∧ isLower c = false ∧
      isMultispace c = false := by
  simp only [atomHead, Bool.or_eq_true, beq_iff_eq] at h
  rcases h with (((((h | h) | h) | h) | h) | h) | h
  · subst h; decide
  · have := upper_facts h
    refine ⟨this.2.2.2.2.1, this.2.2.2.2.2.1, ?_, ?_, trivial, ?_, this.1, ?_⟩
    · intro e; subst e; revert h; decide
    · intro e; subst e; revert h; decide
    · intro e; subst e; revert h; decide
    · simp only [isMultispace, Bool.or_eq_false_iff, decide_eq_false_iff_not]
      refine ⟨⟨⟨?_, ?_⟩, ?_⟩, ?_⟩ <;> (intro e; subst e; revert h; decide)
  · subst h; decide
  · subst h; decide
  · subst h; decide
  · subst h; decide
  · subst h; decide

theorem atomHead_ne_dash {c : Char} (h : atomHead c = true) : c ≠ '-' := by
  simp only [atomHead, Bool.or_eq_true, beq_iff_eq] at h
  rcases h with (((((h | h) | h) | h) | h) | h) | h
  · subst h; decide
  · intro e; subst e; revert h; decide
  · subst h; decide
  · subst h; decide
  · subst h; decide
  · subst h; decide
  · subst h; decide

theorem printAtom_head {t : Ty} (hf : t.frag = true) (hw : t.wf = true) :
    ∃ c s, printAtom t = c :: s ∧ atomHead c = true := by
  cases t with
  | prim p => cases p <;> exact ⟨'\'', _, rfl, rfl⟩
  | ident n args =>
    cases args with
    | nil =>
      cases hp : isPrimName n with
      | false => exact ⟨'\'', _, by simp [printAtom, atomWrap, printTy, hp]; rfl, rfl⟩
      | true => exact ⟨'(', _, by simp [printAtom, atomWrap, printTy, hp]; rfl, rfl⟩
    | cons a as => exact ⟨'\'', _, by simp [printAtom, atomWrap, printTy]; rfl, rfl⟩
  | cycle l => exact ⟨'^', printCycle l, by show printTy (.cycle l) = _; exact printTy_cycle l, rfl⟩
  | resource n => exact ⟨'\\', n, rfl, rfl⟩
  | func i o => exact ⟨'(', _, by simp [printAtom, atomWrap]; rfl, rfl⟩
  | union ts => exact ⟨'(', _, by simp [printAtom, atomWrap, printTy]; rfl, rfl⟩
  | tuple name fs p =>
    cases name with
    | none =>
      cases p with
      | false =>
        cases fs with
        | nil => exact ⟨'[', [']'], rfl, rfl⟩
        | cons f fs => exact ⟨'[', _, by simp [printAtom, atomWrap, printTy]; rfl, rfl⟩
      | true =>
        cases fs with
        | nil => exact ⟨'(', [')'], rfl, rfl⟩
        | cons f fs => exact ⟨'(', _, by simp [printAtom, atomWrap, printTy]; rfl, rfl⟩
    | some n =>
      have hcase : isTupleNameStr n = true ∨ isIdentStr n = true := by
        simp only [Ty.wf, Bool.and_eq_true, Bool.or_eq_true] at hw
        rcases hw.2 with h | h
        · exact Or.inl h
        · exact Or.inr h.1.1.1
      rcases hcase with hn | hn
      · obtain ⟨c, r, rfl, hc⟩ := isTupleNameStr_head hn
        have hl : startsLower (c :: r) = false := by simp [startsLower, (upper_facts hc).1]
        cases p <;> cases fs with
        | nil => exact ⟨c, _, by simp [printAtom, atomWrap, printTy, hl]; rfl, by simp [atomHead, hc]⟩
        | cons f fs =>
          exact ⟨c, _, by simp [printAtom, atomWrap, printTy, hl]; rfl, by simp [atomHead, hc]⟩
      · obtain ⟨c, r, rfl, hc⟩ := isIdentStr_head hn
        have hl : startsLower (c :: r) = true := by simp [startsLower, hc]
        cases p <;> cases fs with
        | nil => exact ⟨'\'', _, by simp [printAtom, atomWrap, printTy, hl]; rfl, rfl⟩
        | cons f fs => exact ⟨'\'', _, by simp [printAtom, atomWrap, printTy, hl]; rfl, rfl⟩
  | inter ts => exact ⟨'(', _, by simp [printAtom, atomWrap]; rfl, rfl⟩
  | proc a r =>
    cases r with
    | none =>
      cases a with
      | none => exact ⟨'@', [], rfl, rfl⟩
      | some x => exact ⟨'@', _, by simp [printAtom, atomWrap, printTy]; rfl, rfl⟩
    | some y => cases a <;> exact ⟨'(', _, by simp [printAtom, atomWrap, printTy]; rfl, rfl⟩
  | modty a b c => exact ⟨'\'', _, by simp [printAtom, atomWrap, printTy]; rfl, rfl⟩
  | selfDefault a => exact ⟨'\'', _, by simp [printAtom, atomWrap, printTy]; rfl, rfl⟩

/-! ### One knot level -/

/-- only a process type without return type prints with a leading `@` -/
theorem printAtom_at {t : Ty} (hw : t.wf = true) {s : Str} (h : printAtom t = '@' :: s) :
    ∃ a, t = .proc a none := by
  cases t with
  | prim p => cases p <;> simp [printAtom, atomWrap, printTy] at h
  | ident n args =>
    cases args with
    | nil =>
      cases hp : isPrimName n <;> simp [printAtom, atomWrap, printTy, hp] at h
    | cons a as => simp [printAtom, atomWrap, printTy] at h
  | tuple name fs p =>
    cases name with
    | none => cases p <;> cases fs <;> simp [printAtom, atomWrap, printTy] at h
    | some n =>
      have hcase : isTupleNameStr n = true ∨ isIdentStr n = true := by
        simp only [Ty.wf, Bool.and_eq_true, Bool.or_eq_true] at hw
        rcases hw.2 with h' | h'
        · exact Or.inl h'
        · exact Or.inr h'.1.1.1
      rcases hcase with hn | hn
      · obtain ⟨c, r, rfl, hc⟩ := isTupleNameStr_head hn
        have hl : startsLower (c :: r) = false := by simp [startsLower, (upper_facts hc).1]
        have hne := (upper_facts hc).2.2.2.2.2.2
        cases p <;> cases fs <;> simp [printAtom, atomWrap, printTy, hl] at h <;> exact absurd h.1 hne
      · obtain ⟨c, r, rfl, hc⟩ := isIdentStr_head hn
        have hl : startsLower (c :: r) = true := by simp [startsLower, hc]
        cases p <;> cases fs <;> simp [printAtom, atomWrap, printTy, hl] at h
  | func i o => simp [printAtom, atomWrap] at h
  | union ts => simp [printAtom, atomWrap, printTy] at h
  | inter ts => simp [printAtom, atomWrap] at h
  | cycle l => cases l <;> simp [printAtom, atomWrap, printTy] at h
  | proc a r =>
    cases r with
    | none => exact ⟨a, rfl⟩
    | some y => cases a <;> simp [printAtom, atomWrap, printTy] at h
  | resource n => simp [printAtom, atomWrap, printTy] at h
  | modty a b c => simp [printAtom, atomWrap, printTy] at h
  | selfDefault a => simp [printAtom, atomWrap, printTy] at h

theorem stopTd_of_close {c : Char} (s : Str) (hc : c = ',' ∨ c = ']' ∨ c = ')') :
    stopTd (c :: s) = true := by
  have h1 : skipWsc false (c :: s) = c :: s :=
    skipWsc_of_head (by rcases hc with rfl | rfl | rfl <;> simp [headAll, isMultispace])
  have h2 : isMultispace c = false := by rcases hc with rfl | rfl | rfl <;> decide
  simp only [stopTd, stopB, h1, List.dropWhile_cons, h2]
  rcases hc with rfl | rfl | rfl <;> simp [headAll, contChar, isIdentBody, isLower, isUpper, isDigit]

theorem skipWsc_space {X : Str} (h : headAll (fun c => !isMultispace c && c != '/') X = true) :
    skipWsc false (' ' :: X) = X := by
  unfold skipWsc
  simp only [Bool.false_eq_true, if_false]
  have : isMultispace ' ' = true := by decide
  simp only [this, if_true]
  exact skipWsc_of_head h

theorem sepBy_cons (sep x : Str) (xs : List Str) :
    sepBy sep (x :: xs) = x ++ (xs.map (sep ++ ·)).flatten := by
  induction xs generalizing x with
  | nil => simp [sepBy]
  | cons y ys ih => simp [sepBy, ih y]

theorem printFieldsL_eq (fs : List Field) : printFieldsL fs = fs.map printField := by
  induction fs with
  | nil => rfl
  | cons f fs ih => simp [printFieldsL, ih]

theorem printMembersL_eq (ts : List Ty) : printMembersL ts = ts.map printMember := by
  induction ts with
  | nil => rfl
  | cons t ts ih => simp [printMembersL, printMember, ih]

theorem printAtomsL_eq (ts : List Ty) : printAtomsL ts = ts.map printAtom := by
  induction ts with
  | nil => rfl
  | cons t ts ih => simp [printAtomsL, printAtom, ih]

/-- outside function types, intersections and primitive-named references the three printed forms
    coincide -/
theorem printMember_eq_atom {t : Ty} (hf : t.frag = true) (hni : ∀ ts, t ≠ .inter ts)
    (hnp : t.isPrimRef = false) : printMember t = printAtom t := by
  cases t with
  | ident n args =>
    cases args with
    | nil =>
      have : isPrimName n = false := by simpa [Ty.isPrimRef] using hnp
      simp [printMember, printAtom, memberWrap, atomWrap, this]
    | cons a as => simp [printMember, printAtom, memberWrap, atomWrap]
  | inter ts => exact absurd rfl (hni ts)
  | _ => simp_all [printMember, printAtom, memberWrap, atomWrap, Ty.frag]

theorem printTy_eq_member {t : Ty} (hfn : ¬ ∃ i o, t = .func i o) : printTy t = printMember t := by
  cases t with
  | func i o => exact absurd ⟨i, o, rfl⟩ hfn
  | _ => rfl

/-- the first character of a printed type -/
def typeHead (c : Char) : Bool := atomHead c || c == '#' || c == '<'

theorem printMember_head {t : Ty} (hf : t.frag = true) (hw : t.wf = true) :
    ∃ c s, printMember t = c :: s ∧ typeHead c = true ∧ c ≠ '#' := by
  by_cases hi : ∃ ts, t = .inter ts
  · obtain ⟨ts, rfl⟩ := hi
    simp only [Ty.frag] at hf
    simp only [Ty.wf, Bool.and_eq_true, decide_eq_true_eq] at hw
    cases ts with
    | nil => simp at hw
    | cons a as =>
      simp only [Ty.fragList, Ty.wfList, Bool.and_eq_true] at hf hw
      obtain ⟨c, s, hp, hc⟩ := printAtom_head hf.1 hw.2.1
      refine ⟨c, s ++ ((as.map printAtom).map ([' ', '&', ' '] ++ ·)).flatten, ?_, by simp [typeHead, hc],
        (atomHead_facts hc).1⟩
      show printTy (.inter (a :: as)) = _
      simp only [printTy]
      rw [printAtomsL_eq, List.map_cons, sepBy_cons, hp]; simp
  · by_cases hp : t.isPrimRef = true
    · cases t with
      | ident n args =>
        cases args with
        | nil =>
          have : isPrimName n = true := by simpa [Ty.isPrimRef] using hp
          exact ⟨'<', _, by simp [printMember, memberWrap, printTy, this]; rfl, by decide, by decide⟩
        | cons a as => simp [Ty.isPrimRef] at hp
      | _ => simp [Ty.isPrimRef] at hp
    · obtain ⟨c, s, h1, h2⟩ := printAtom_head hf hw
      refine ⟨c, s, ?_, by simp [typeHead, h2], (atomHead_facts h2).1⟩
      rw [printMember_eq_atom hf (fun ts e => hi ⟨ts, e⟩) (by simpa using hp)]; exact h1

theorem printTy_head {t : Ty} (hf : t.frag = true) (hw : t.wf = true) :
    ∃ c s, printTy t = c :: s ∧ typeHead c = true := by
  by_cases hfn : ∃ i o, t = .func i o
  · obtain ⟨i, o, rfl⟩ := hfn
    exact ⟨'#', _, by simp [printTy]; rfl, by decide⟩
  · obtain ⟨c, s, h1, h2, _⟩ := printMember_head hf hw
    exact ⟨c, s, by rw [printTy_eq_member hfn]; exact h1, h2⟩

theorem typeHead_facts {c : Char} (h : typeHead c = true) :
    c ≠ '|' ∧ c ≠ '.' ∧ c ≠ '/' ∧ True ∧ c ≠ ',' ∧ isLower c = false ∧ isMultispace c = false := by
  simp only [typeHead, Bool.or_eq_true, beq_iff_eq] at h
  rcases h with (h | h) | h
  · have := atomHead_facts h
    exact ⟨this.2.1, this.2.2.1, this.2.2.2.1, this.2.2.2.2.1, this.2.2.2.2.2.1, this.2.2.2.2.2.2.1,
      this.2.2.2.2.2.2.2⟩
  · subst h; decide
  · subst h; decide

theorem processType_paren_nonat (k : Knot) {c : Char} (hc : c ≠ '@') (X : Str) :
    Fails (processType k) ('(' :: c :: X) := by
  unfold processType delimited
  refine Fails.alt (Fails.seq_ok (pchar_self _ _) (Fails.before (Fails.alt ?_ ?_)))
    (Fails.seq (pchar_ne (by decide) _))
  · exact Fails.pmap (Fails.seq (Fails.seq (pchar_ne hc _)))
  · exact Fails.seq (pchar_ne hc _)

theorem stopTd_dash (s : Str) : stopTd ('-' :: s) = true := by
  have h1 : skipWsc false ('-' :: s) = '-' :: s := skipWsc_of_head (by simp [headAll, isMultispace])
  simp [stopTd, stopB, h1, headAll, contChar, isIdentBody, isLower, isUpper, isDigit, isMultispace]

theorem stopTd_sp_dash (s : Str) : stopTd (' ' :: '-' :: s) = true := by
  have h1 : skipWsc false (' ' :: '-' :: s) = '-' :: s :=
    skipWsc_space (by simp [headAll, isMultispace])
  simp [stopTd, stopB, h1, headAll, contChar, isIdentBody, isLower, isUpper, isDigit, isMultispace]

theorem ws1_space {Z : Str} (h : headAll (fun c => !isMultispace c) Z = true) :
    ws1 (' ' :: Z) = .ok () Z := by
  have : Z.dropWhile isMultispace = Z := by
    cases Z with
    | nil => rfl
    | cons c t =>
      have : isMultispace c = false := by simpa [headAll] using h
      simp [List.dropWhile_cons, this]
  simp [ws1, isMultispace, this]

theorem ws0_space_nonws {d : Char} {tail : Str} (h : isMultispace d = false) :
    ws0 (' ' :: d :: tail) = .ok () (d :: tail) := by
  have h1 : isMultispace ' ' = true := by decide
  simp [ws0, List.dropWhile_cons, h1, h]

/-- ` -> ` in front of a text that does not start with whitespace -/
theorem arrow_step {Z : Str} (h : headAll (fun c => !isMultispace c) Z = true) :
    arrow (' ' :: '-' :: '>' :: ' ' :: Z) = .ok () Z := by
  unfold arrow
  rw [seq_ok (ws1_space (Z := '-' :: '>' :: ' ' :: Z) (by simp [headAll, isMultispace])),
    seq_ok (a := ()) (r := ' ' :: Z) (by simp [ptag, isPrefix])]
  exact ws1_space h

theorem typeName_fails_head' {i : Str} (h : headAll (· ≠ '\'') i = true) : Fails typeName i :=
  Fails.seq (pchar_fails_of_head h)

/-! ### Type arguments `<a, b>` -/

theorem stopTd_gt (s : Str) : stopTd ('>' :: s) = true := by
  have h1 : skipWsc false ('>' :: s) = '>' :: s := skipWsc_of_head (by simp [headAll, isMultispace])
  simp [stopTd, stopB, h1, headAll, contChar, isIdentBody, isLower, isUpper, isDigit, isMultispace]

theorem commaWs0_step {X : Str} (h : headAll (fun c => !isMultispace c) X = true) :
    commaWs0 (',' :: ' ' :: X) = .ok () X := by
  unfold commaWs0
  rw [seq_ok (ws0_of_head (by simp [headAll, isMultispace])), seq_ok (pchar_self _ _)]
  have : (' ' :: X).dropWhile isMultispace = X := by
    rw [List.dropWhile_cons, if_pos (by decide)]
    cases X with
    | nil => rfl
    | cons c t =>
      have : isMultispace c = false := by simpa [headAll] using h
      simp [List.dropWhile_cons, this]
  simp [ws0, this]

theorem commaWs0_fails_gt (rest : Str) : Fails commaWs0 ('>' :: rest) :=
  Fails.seq_ok (a := ()) (r := '>' :: rest) (ws0_of_head (by simp [headAll, isMultispace]))
    (Fails.seq (pchar_ne (by decide) _))

theorem sepList1_cons {α β : Type} {sep : P β} {p : P α} {i r r' : Str} {a : α} {as : List α}
    (h : p i = .ok a r) (ht : sepTail sep p r = .ok as r') :
    sepList1 sep p i = .ok (a :: as) r' := by
  unfold sepTail at ht; simp [sepList1, h, ht]

theorem printTys_eq (ts : List Ty) : printTys ts = ts.map printTy := by
  induction ts with
  | nil => rfl
  | cons t ts ih => simp [printTys, ih]

theorem stopTd_args_tail (as : List Ty) (rest : Str) :
    stopTd ((as.map ([',', ' '] ++ printTy ·)).flatten ++ '>' :: rest) = true := by
  cases as with
  | nil => exact stopTd_gt _
  | cons a as => exact stopTd_of_close _ (Or.inl rfl)

/-- what follows `'name` / `'` / a module path when type arguments may follow: not a name character,
    not `%`, `[`, a lowercase letter -/
theorem angle_head (args : List Ty) {rest : Str} (hr : stopB rest = true) :
    IdStop (angle (printTys args) ++ rest) ∧
    headAll (fun c => !isLower c && c != '%' && c != '[') (angle (printTys args) ++ rest) = true := by
  cases args with
  | nil =>
    simp only [printTys, angle, List.isEmpty_nil, if_true, List.nil_append]
    refine ⟨stopB_idstop hr, ?_⟩
    cases rest with
    | nil => rfl
    | cons c t =>
      have h1 := stopB_head hr (c := '%') rfl
      have h2 := stopB_head hr (c := '[') rfl
      have h3 := (stopB_idstop hr).1
      simp only [headAll, decide_eq_true_eq] at h1 h2
      simp only [isIdentBody, Bool.or_eq_false_iff] at h3
      simp [headAll, h1, h2, h3.1.1.1]
  | cons a as =>
    simp only [printTys, angle, List.isEmpty_cons, Bool.false_eq_true, if_false, List.cons_append]
    exact ⟨by simp [IdStop, isIdentBody, isLower, isUpper, isDigit], by simp [headAll, isLower]⟩

section
variable {k : Knot} {L : Nat} (hk : GoodK k L)
include hk

theorem paren_wrap {c : Char} {s rest : Str} {t' : Ty}
    (hproc : Fails (processType k) ('(' :: c :: (s ++ ')' :: rest)))
    (hc2 : isMultispace c = false) (hc3 : c ≠ '/') (hc4 : c ≠ '.') (hc5 : isLower c = false)
    (h : k.td (c :: (s ++ ')' :: rest)) = .ok t' (')' :: rest)) :
    baseTypeWith k ('(' :: c :: (s ++ ')' :: rest)) = .ok t' rest ∧
      functionIoType k ('(' :: c :: (s ++ ')' :: rest)) = .ok t' rest := by
  have _ := hk.sound
  generalize hX : c :: (s ++ ')' :: rest) = X at h hproc
  have hhd : headAll (fun c => !isMultispace c && c != '/') X = true := by
    subst hX; simp [headAll, hc2, hc3]
  have hwscX : wsc X = .ok () X := wsc_of_head hhd
  have hws0X : ws0 X = .ok () X := ws0_of_head (by subst hX; simp [headAll, hc2])
  have hcl : headAll (fun c => !isMultispace c && c != '/') (')' :: rest) = true := by
    simp [headAll, isMultispace]
  have hft : fieldType k X = .ok (.field none t') (')' :: rest) := by
    unfold fieldType
    rw [alt_of_fails (Fails.seq (ptag_fails_of_head rfl (by subst hX; simpa [headAll] using hc4))),
      alt_of_fails (Fails.bind (identifier_fails_of_head (by subst hX; simp [headAll, hc5]))),
      pmap_ok h]
  have hcomma : Fails commaWsc (')' :: rest) :=
    Fails.seq_ok (wsc_of_head hcl) (Fails.seq (pchar_ne (by decide) _))
  have hftl : fieldTypeList k X = .ok [.field none t'] (')' :: rest) := by
    unfold fieldTypeList
    exact before_ok (sepList0_cons hft (sepTail_of_fails hcomma))
      (opt_of_fails (Fails.seq_ok (wsc_of_head hcl) (pchar_ne (by decide) _)))
  have hclose : seq wsc (pchar ')') (')' :: rest) = .ok () rest := by
    rw [seq_ok (wsc_of_head hcl), pchar_self]
  have hfi : fieldsIn '(' ')' k ('(' :: X) = .ok [.field none t'] rest := by
    unfold fieldsIn delimited
    rw [seq_ok (a := ()) (r := X) (by rw [seq_ok (pchar_self _ _), hwscX])]
    exact before_ok hftl hclose
  have hpart : Fails (partialType k) ('(' :: X) := by
    unfold partialType
    exact Fails.alt (Fails.bind (tupleName_fails_of_head (by simp [headAll, isUpper])))
      (Fails.verify_false (pmap_ok hfi) (by simp [Field.isNamed]))
  have hgrp : groupType k ('(' :: X) = .ok t' rest := by
    unfold groupType delimited
    rw [seq_ok (a := ()) (r := X) (by rw [seq_ok (pchar_self _ _), hws0X])]
    refine before_ok (b := ()) h ?_
    rw [seq_ok (ws0_of_head (by simp [headAll, isMultispace])), pchar_self]
  exact ⟨base_paren k hpart hproc hgrp, fio_paren k hpart hgrp⟩

theorem args_tail : ∀ as : List Ty, Ty.fragList as = true → Ty.wfList as = true →
    Ty.lvAList as ≤ L → ∀ rest : Str,
    sepTail commaWs0 k.td ((as.map ([',', ' '] ++ printTy ·)).flatten ++ '>' :: rest) =
      .ok as ('>' :: rest) := by
  intro as
  induction as with
  | nil => intro _ _ _ rest; exact sepTail_of_fails (commaWs0_fails_gt rest)
  | cons a as ih =>
    intro hf hw hl rest
    simp only [Ty.fragList, Ty.wfList, Bool.and_eq_true] at hf hw
    have hl1 : a.lvT ≤ L := Nat.le_trans a.lvT_le_lvA (Nat.le_trans (Nat.le_max_left _ _) hl)
    have hl2 : Ty.lvAList as ≤ L := Nat.le_trans (Nat.le_max_right _ _) hl
    simp only [List.map_cons, List.flatten_cons, List.append_assoc, List.cons_append,
      List.nil_append]
    obtain ⟨c, s, hp, hc⟩ := printTy_head hf.1 hw.1
    have hws := (typeHead_facts hc).2.2.2.2.2.2
    refine sepTail_cons Sound.commaWs0 hk.sound.1
      (commaWs0_step (by rw [hp]; simp [headAll, hws])) (by simp; omega) ?_ (ih hf.2 hw.2 hl2 rest)
    exact hk.td a hf.1 hw.1 hl1 _ (stopTd_args_tail as rest)

theorem optArgs_ok {args : List Ty} (hf : Ty.fragList args = true) (hw : Ty.wfList args = true)
    (hl : Ty.lvAList args ≤ L) {rest : Str} (hr : stopB rest = true) :
    optArgs k (angle (printTys args) ++ rest) = .ok args rest ∧
    opt (typeArgs k) (angle (printTys args) ++ rest) =
      .ok (if args.isEmpty then none else some args) rest := by
  cases args with
  | nil =>
    simp only [printTys, angle, List.isEmpty_nil, if_true, List.nil_append]
    unfold optArgs
    rw [pmap_ok (opt_of_fails (typeArgs_fails_stop k hr))]
    exact ⟨rfl, opt_of_fails (typeArgs_fails_stop k hr)⟩
  | cons a as =>
    simp only [Ty.fragList, Ty.wfList, Bool.and_eq_true] at hf hw
    have hl1 : a.lvT ≤ L := Nat.le_trans a.lvT_le_lvA (Nat.le_trans (Nat.le_max_left _ _) hl)
    have hl2 : Ty.lvAList as ≤ L := Nat.le_trans (Nat.le_max_right _ _) hl
    have hta : typeArgs k (angle (printTys (a :: as)) ++ rest) = .ok (a :: as) rest := by
      have hang : angle (printTys (a :: as)) ++ rest =
          '<' :: (printTy a ++ ((as.map ([',', ' '] ++ printTy ·)).flatten ++ '>' :: rest)) := by
        simp only [angle, printTys_eq, List.map_cons, List.isEmpty_cons, Bool.false_eq_true, if_false]
        rw [sepBy_cons, List.map_map]
        simp
        rfl
      rw [hang]
      unfold typeArgs delimited
      rw [seq_ok (pchar_self _ _)]
      exact before_ok (sepList1_cons (hk.td a hf.1 hw.1 hl1 _ (stopTd_args_tail as rest))
        (args_tail hk as hf.2 hw.2 hl2 rest)) (pchar_self _ _)
    unfold optArgs
    rw [pmap_ok (opt_ok hta)]
    exact ⟨rfl, by simpa using opt_ok hta⟩

/-- one field followed by a text that ends a type -/
theorem field_ok {f : Field} (hf : f.frag = true) (hw : f.wf = true) (hl : f.lv ≤ L) {tail : Str}
    (ht : stopTd tail = true) : fieldType k (printField f ++ tail) = .ok f tail := by
  cases f with
  | spread o args =>
    simp only [Field.frag] at hf
    have hrb := stopTd_stopB ht
    cases o with
    | none =>
      have hargs : args = [] := by
        cases args with
        | nil => rfl
        | cons a as => simp [Field.wf] at hw
      subst hargs
      have htn : Fails typeName tail := typeName_fails_head' (stopB_head hrb (c := '\'') rfl)
      simp only [printField]
      unfold fieldType
      rw [alt_of_ok]
      rw [seq_ok (ptag_append _ _), pmap_ok (opt_of_fails (Fails.bind htn))]
    | some id =>
      simp only [Field.wf, Bool.and_eq_true] at hw
      have hla : Ty.lvAList args ≤ L := by simpa [Field.lv] using hl
      have hah := angle_head args hrb
      have htn : typeName ('\'' :: (id ++ (angle (printTys args) ++ tail))) =
          .ok id (angle (printTys args) ++ tail) := by
        unfold typeName
        rw [seq_ok (pchar_self _ _)]
        exact identifier_append hw.1 hah.1
      have hp : printField (.spread (some id) args) ++ tail =
          ['.', '.', '.'] ++ ('\'' :: (id ++ (angle (printTys args) ++ tail))) := by
        simp [printField]
      rw [hp]
      unfold fieldType
      rw [alt_of_ok]
      rw [seq_ok (ptag_append _ _)]
      rw [pmap_ok (opt_ok (r := tail) (a := (id, if args.isEmpty then none else some args)) (by
        rw [bind_ok htn, pmap_ok (optArgs_ok hk hf hw.2 hla hrb).2]))]
      cases args <;> simp
  | field nm ty =>
    simp only [Field.frag] at hf
    have hlv : ty.lvT ≤ L := Nat.le_trans ty.lvT_le_lvA (by simpa [Field.lv] using hl)
    cases nm with
    | none =>
      simp only [Field.wf] at hw
      obtain ⟨c, s, hp, hc⟩ := printTy_head hf hw
      have hfacts := typeHead_facts hc
      have htd := hk.td ty hf hw hlv tail ht
      simp only [printField]
      unfold fieldType
      rw [alt_of_fails (Fails.seq (ptag_fails_of_head rfl (by rw [hp]; simpa [headAll] using hfacts.2.1))),
        alt_of_fails (Fails.bind (identifier_fails_of_head (by rw [hp]; simp [headAll, hfacts.2.2.2.2.2.1]))),
        pmap_ok htd]
    | some n =>
      simp only [Field.wf, Bool.and_eq_true] at hw
      obtain ⟨c, s, hp, hc⟩ := printTy_head hf hw.2
      have hfacts := typeHead_facts hc
      have htd := hk.td ty hf hw.2 hlv tail ht
      obtain ⟨d, r, hn, hd⟩ := isIdentStr_head hw.1
      simp only [printField, List.append_assoc, List.cons_append]
      unfold fieldType
      have hhead : headAll (· ≠ '.') (n ++ ':' :: ' ' :: (printTy ty ++ tail)) = true := by
        subst hn
        simp only [List.cons_append, headAll, decide_eq_true_eq]
        intro e; subst e; revert hd; decide
      rw [alt_of_fails (Fails.seq (ptag_fails_of_head rfl hhead))]
      have hid : identifier (n ++ ':' :: ' ' :: (printTy ty ++ tail)) =
          .ok n (':' :: ' ' :: (printTy ty ++ tail)) :=
        identifier_append hw.1 (by simp [IdStop, isIdentBody, isLower, isUpper, isDigit])
      have hws1 : ws1 (' ' :: (printTy ty ++ tail)) = .ok () (printTy ty ++ tail) := by
        rw [hp]
        simp [ws1, isMultispace, List.dropWhile_cons, hfacts.2.2.2.2.2.2]
        have := hfacts.2.2.2.2.2.2
        simp only [isMultispace, Bool.or_eq_false_iff, decide_eq_false_iff_not] at this
        simp [this.1.1.1, this.1.1.2, this.1.2, this.2]
      rw [alt_of_ok]
      rw [bind_ok hid, seq_ok (pchar_self _ _), seq_ok hws1, pmap_ok htd]

end

theorem lower_not_ws {d : Char} (h : isLower d = true) :
    (!isMultispace d && d != '/') = true := by
  simp only [isLower, Bool.and_eq_true, decide_eq_true_eq] at h
  simp only [Bool.and_eq_true, Bool.not_eq_true', bne_iff_ne, ne_eq, isMultispace,
    Bool.or_eq_false_iff, decide_eq_false_iff_not]
  refine ⟨⟨⟨⟨?_, ?_⟩, ?_⟩, ?_⟩, ?_⟩ <;> (intro e; subst e; revert h; decide)

theorem printField_head {f : Field} (hf : f.frag = true) (hw : f.wf = true) (tail : Str) :
    headAll (fun c => !isMultispace c && c != '/') (printField f ++ tail) = true := by
  cases f with
  | spread o args => cases o <;> simp [printField, headAll, isMultispace]
  | field nm ty =>
    simp only [Field.frag] at hf
    cases nm with
    | none =>
      simp only [Field.wf] at hw
      obtain ⟨c, s, hp, hc⟩ := printTy_head hf hw
      have := typeHead_facts hc
      simp [printField, hp, headAll, this.2.2.2.2.2.2, this.2.2.1]
    | some n =>
      simp only [Field.wf, Bool.and_eq_true] at hw
      obtain ⟨d, r, rfl, hd⟩ := isIdentStr_head hw.1
      simpa [printField, headAll] using lower_not_ws hd

theorem commaWsc_step {X : Str} (h : headAll (fun c => !isMultispace c && c != '/') X = true) :
    commaWsc (',' :: ' ' :: X) = .ok () X := by
  unfold commaWsc
  rw [seq_ok (wsc_of_head (by simp [headAll, isMultispace])), seq_ok (pchar_self _ _)]
  simp [wsc, skipWsc_space h]

theorem commaWsc_fails_close {c : Char} (rest : Str) (hc : c = ']' ∨ c = ')') :
    Fails commaWsc (c :: rest) := by
  refine Fails.seq_ok (a := ()) (r := c :: rest) (wsc_of_head ?_) (Fails.seq (pchar_ne ?_ _))
  · rcases hc with rfl | rfl <;> simp [headAll, isMultispace]
  · rcases hc with rfl | rfl <;> decide

theorem stopTd_fields_tail_gen {c : Char} (hc : c = ']' ∨ c = ')') (fs : List Field) (rest : Str) :
    stopTd ((fs.map ([',', ' '] ++ printField ·)).flatten ++ c :: rest) = true := by
  cases fs with
  | nil => exact stopTd_of_close _ (Or.inr hc)
  | cons f fs => exact stopTd_of_close _ (Or.inl rfl)

theorem close_char {c : Char} (hc : c = ']' ∨ c = ')') (rest : Str) :
    seq wsc (pchar c) (c :: rest) = .ok () rest := by
  rw [seq_ok (wsc_of_head (by rcases hc with rfl | rfl <;> simp [headAll, isMultispace])), pchar_self]

section
variable {k : Knot} {L : Nat} (hk : GoodK k L)
include hk

theorem fields_tail_gen {c : Char} (hc : c = ']' ∨ c = ')') : ∀ fs : List Field, Field.fragList fs = true → Field.wfList fs = true →
    Field.lvList fs ≤ L → ∀ rest : Str,
    sepTail commaWsc (fieldType k)
      ((fs.map ([',', ' '] ++ printField ·)).flatten ++ c :: rest) = .ok fs (c :: rest) := by
  intro fs
  induction fs with
  | nil => intro _ _ _ rest; exact sepTail_of_fails (commaWsc_fails_close rest hc)
  | cons f fs ih =>
    intro hf hw hl rest
    simp only [Field.fragList, Field.wfList, Bool.and_eq_true] at hf hw
    have hl1 : f.lv ≤ L := Nat.le_trans (Nat.le_max_left _ _) hl
    have hl2 : Field.lvList fs ≤ L := Nat.le_trans (Nat.le_max_right _ _) hl
    simp only [List.map_cons, List.flatten_cons, List.append_assoc, List.cons_append,
      List.nil_append]
    refine sepTail_cons Sound.commaWsc (fieldType_sound hk.sound)
      (commaWsc_step (printField_head hf.1 hw.1 _)) (by simp; omega) ?_ (ih hf.2 hw.2 hl2 rest)
    exact field_ok hk hf.1 hw.1 hl1 (stopTd_fields_tail_gen hc fs rest)

theorem fieldsIn_gen {o c : Char} (hc : c = ']' ∨ c = ')') {fs : List Field} (hf : Field.fragList fs = true)
    (hw : Field.wfList fs = true) (hl : Field.lvList fs ≤ L) (rest : Str) :
    fieldsIn o c k (o :: (sepBy [',', ' '] (printFieldsL fs) ++ c :: rest)) = .ok fs rest := by
  have hopt : opt (seq wsc (pchar ',')) (c :: rest) = .ok none (c :: rest) :=
    opt_of_fails (Fails.seq_ok (a := ()) (r := c :: rest)
      (wsc_of_head (by rcases hc with rfl | rfl <;> simp [headAll, isMultispace]))
      (pchar_ne (by rcases hc with rfl | rfl <;> decide) _))
  cases fs with
  | nil =>
    have hft : Fails (fieldType k) (c :: rest) := by
      unfold fieldType
      exact Fails.alt (Fails.seq (ptag_fails_of_head rfl (by rcases hc with rfl | rfl <;> simp [headAll])))
        (Fails.alt (Fails.bind (identifier_fails_of_head (by rcases hc with rfl | rfl <;> simp [headAll, isLower])))
          (Fails.pmap (hk.close c rest hc)))
    unfold fieldsIn delimited
    simp only [printFieldsL, sepBy, List.nil_append]
    rw [seq_ok (a := ()) (r := c :: rest)
      (by rw [seq_ok (pchar_self _ _)]; exact wsc_of_head (by rcases hc with rfl | rfl <;> simp [headAll, isMultispace]))]
    refine before_ok (b := ()) ?_ (close_char hc rest)
    unfold fieldTypeList
    exact before_ok (sepList0_of_fails hft) hopt
  | cons f fs =>
    simp only [Field.fragList, Field.wfList, Bool.and_eq_true] at hf hw
    have hl1 : f.lv ≤ L := Nat.le_trans (Nat.le_max_left _ _) hl
    have hl2 : Field.lvList fs ≤ L := Nat.le_trans (Nat.le_max_right _ _) hl
    rw [printFieldsL_eq, List.map_cons, sepBy_cons, List.map_map, List.append_assoc]
    unfold fieldsIn delimited
    rw [seq_ok (a := ()) (r := printField f ++ ((fs.map (([',', ' '] ++ ·) ∘ printField)).flatten ++ c :: rest))
      (by rw [seq_ok (pchar_self _ _)]; exact wsc_of_head (printField_head hf.1 hw.1 _))]
    refine before_ok (b := ()) ?_ (close_char hc rest)
    unfold fieldTypeList
    exact before_ok (sepList0_cons (field_ok hk hf.1 hw.1 hl1 (stopTd_fields_tail_gen hc fs rest))
      (fields_tail_gen hk hc fs hf.2 hw.2 hl2 rest)) hopt

end

theorem stopTd_fields_tail (fs : List Field) (rest : Str) :
    stopTd ((fs.map ([',', ' '] ++ printField ·)).flatten ++ ']' :: rest) = true :=
  stopTd_fields_tail_gen (Or.inl rfl) fs rest

section
variable {k : Knot} {L : Nat} (hk : GoodK k L)
include hk
theorem fieldsIn_bracket {fs : List Field} (hf : Field.fragList fs = true)
    (hw : Field.wfList fs = true) (hl : Field.lvList fs ≤ L) (rest : Str) :
    fieldsIn '[' ']' k ('[' :: (sepBy [',', ' '] (printFieldsL fs) ++ ']' :: rest)) = .ok fs rest :=
  fieldsIn_gen hk (Or.inl rfl) hf hw hl rest
theorem fieldsIn_paren {fs : List Field} (hf : Field.fragList fs = true)
    (hw : Field.wfList fs = true) (hl : Field.lvList fs ≤ L) (rest : Str) :
    fieldsIn '(' ')' k ('(' :: (sepBy [',', ' '] (printFieldsL fs) ++ ')' :: rest)) = .ok fs rest :=
  fieldsIn_gen hk (Or.inr rfl) hf hw hl rest
end

theorem typeName_fails_head {i : Str} (h : headAll (· ≠ '\'') i = true) : Fails typeName i :=
  Fails.seq (pchar_fails_of_head h)

theorem fieldsIn_fails_head (k : Knot) (o c : Char) {i : Str} (h : headAll (· ≠ o) i = true) :
    Fails (fieldsIn o c k) i := Fails.delimited (Fails.seq (pchar_fails_of_head h))

theorem functionType_fails_head (k : Knot) {i : Str} (h : headAll (· ≠ '#') i = true) :
    Fails (functionType k) i := Fails.seq (pchar_fails_of_head h)

theorem identifierToType_not_prim {n : Str} (h : isPrimName n = false) :
    identifierToType n = .ident n [] := by
  simp only [isPrimName, Bool.or_eq_false_iff, decide_eq_false_iff_not] at h
  simp [identifierToType, h.1.1, h.1.2, h.2]

theorem printTy_tuple_none (fs : List Field) :
    printTy (.tuple none fs false) = '[' :: (sepBy [',', ' '] (printFieldsL fs) ++ [']']) := by
  cases fs <;> simp [printTy, sepBy, printFieldsL]

theorem barOp_step {c : Char} {X : Str} (hc : c = '|' ∨ c = '&')
    (h : headAll (fun c => !isMultispace c && c != '/') X = true) :
    barOp c (' ' :: c :: ' ' :: X) = .ok () X := by
  have h1 : skipWsc false (' ' :: c :: ' ' :: X) = c :: ' ' :: X :=
    skipWsc_space (by rcases hc with rfl | rfl <;> simp [headAll, isMultispace])
  unfold barOp
  rw [seq_ok (a := ()) (r := c :: ' ' :: X) (by simp [wsc, h1]), seq_ok (pchar_self _ _)]
  simp [wsc, skipWsc_space h]

theorem amp_fails_bar (s : Str) : Fails (barOp '&') (' ' :: '|' :: s) := by
  have h1 : skipWsc false (' ' :: '|' :: s) = '|' :: s :=
    skipWsc_space (by simp [headAll, isMultispace])
  exact Fails.seq_ok (a := ()) (r := '|' :: s) (by simp [wsc, h1]) (Fails.seq (pchar_ne (by decide) _))

theorem stopB_amp (s : Str) : stopB (' ' :: '&' :: s) = true := by
  simp [stopB, headAll, contChar, isIdentBody, isLower, isUpper, isDigit, isMultispace]

theorem stopB_bar (s : Str) : stopB (' ' :: '|' :: s) = true := by
  simp [stopB, headAll, contChar, isIdentBody, isLower, isUpper, isDigit, isMultispace]

theorem stopB_arrow (s : Str) : stopB (' ' :: '-' :: s) = true := by
  simp [stopB, headAll, contChar, isIdentBody, isLower, isUpper, isDigit, isMultispace]

section
variable {k : Knot} {L : Nat} (hk : GoodK k L)
include hk

omit hk in
theorem inherit_id (n : Str) : ∀ fs : List Field, fs.any Field.isBareSpread = false →
    fs.map (Field.inheritSpread n) = fs := by
  intro fs
  induction fs with
  | nil => intro _; rfl
  | cons f fs ih =>
    intro h
    simp only [List.any_cons, Bool.or_eq_false_iff] at h
    rw [List.map_cons, ih h.2]
    cases f with
    | field nm t => rfl
    | spread o args =>
      cases o with
      | none => simp [Field.isBareSpread] at h
      | some x => rfl

/-- `'alias[...'alias, x: T]`: a tuple type that inherits its name from an alias -/
theorem alias_tuple_ok {n : Str} {fs : List Field} (hn : isIdentStr n = true)
    (hf : Field.fragList fs = true) (hw : Field.wfList fs = true) (hl : Field.lvList fs ≤ L)
    (hsp : fs.any Field.isSpread = true) (hbare : fs.any Field.isBareSpread = false) {rest : Str}
    (hr : stopB rest = true) :
    baseTypeWith k (printTy (.tuple (some n) fs false) ++ rest) = .ok (.tuple (some n) fs false) rest ∧
    functionIoType k (printTy (.tuple (some n) fs false) ++ rest) = .ok (.tuple (some n) fs false) rest := by
  have _ := hr
  obtain ⟨c, r, hcr, hc⟩ := isIdentStr_head hn
  have hlow : startsLower n = true := by subst hcr; simp [startsLower, hc]
  cases fs with
  | nil => simp at hsp
  | cons f fs =>
    have hp : printTy (.tuple (some n) (f :: fs) false) =
        '\'' :: (n ++ '[' :: (sepBy [',', ' '] (printFieldsL (f :: fs)) ++ [']'])) := by
      simp [printTy, hlow]
    rw [hp]
    simp only [List.cons_append, List.append_assoc, List.nil_append]
    have htn : typeName ('\'' :: (n ++ '[' :: (sepBy [',', ' '] (printFieldsL (f :: fs)) ++ ']' :: rest))) =
        .ok n ('[' :: (sepBy [',', ' '] (printFieldsL (f :: fs)) ++ ']' :: rest)) := by
      unfold typeName
      rw [seq_ok (pchar_self _ _)]
      exact identifier_append hn (by simp [IdStop, isIdentBody, isLower, isUpper, isDigit])
    have ht : tupleType k ('\'' :: (n ++ '[' :: (sepBy [',', ' '] (printFieldsL (f :: fs)) ++ ']' :: rest))) =
        .ok (.tuple (some n) (f :: fs) false) rest := by
      unfold tupleType
      rw [alt_of_fails (Fails.bind (tupleName_fails_of_head (by simp [headAll, isUpper])))]
      refine alt_of_ok (verify_ok (a := Ty.tuple (some n) (f :: fs) false) ?_ (by simpa using hsp))
      rw [bind_ok htn, pmap_ok (fieldsIn_bracket hk hf hw hl rest), inherit_id n _ hbare]
    exact ⟨base_of_tuple k ht, fio_of_tuple k (partialType_fails_head k (by simp [headAll, isUpper]))
      (by simp [headAll]) ht⟩

theorem tuple_ok {name : Option Str} {fs : List Field} (hf : Field.fragList fs = true)
    (hw : (Ty.tuple name fs false).wf = true) (hl : Field.lvList fs ≤ L) {rest : Str}
    (hr : stopB rest = true) :
    baseTypeWith k (printTy (.tuple name fs false) ++ rest) = .ok (.tuple name fs false) rest ∧
    functionIoType k (printTy (.tuple name fs false) ++ rest) = .ok (.tuple name fs false) rest := by
  simp only [Ty.wf, Bool.and_eq_true] at hw
  cases name with
  | none =>
    rw [printTy_tuple_none]
    simp only [List.cons_append, List.append_assoc, List.nil_append]
    have ht : tupleType k ('[' :: (sepBy [',', ' '] (printFieldsL fs) ++ ']' :: rest)) =
        .ok (.tuple none fs false) rest := by
      unfold tupleType
      rw [alt_of_fails (Fails.bind (tupleName_fails_of_head (by simp [headAll, isUpper]))),
        alt_of_fails (Fails.verify (Fails.bind (typeName_fails_head (by simp [headAll])))),
        alt_of_ok (pmap_ok (fieldsIn_bracket hk hf hw.1 hl rest))]
    exact ⟨base_of_tuple k ht, fio_of_tuple k (partialType_fails_head k (by simp [headAll, isUpper]))
      (by simp [headAll]) ht⟩
  | some n =>
    by_cases hn : isTupleNameStr n = true
    case neg =>
      -- `'alias[..., x: T]`: the name is inherited from an alias
      have hal : isIdentStr n = true ∧ fs.any Field.isSpread = true ∧ fs.any Field.isBareSpread = false := by
        have := hw.2
        simp only [Bool.or_eq_true, Bool.and_eq_true, Bool.not_eq_true', Bool.not_false] at this
        rcases this with h | h
        · exact absurd h hn
        · exact ⟨h.1.1.1, h.1.2, h.2⟩
      exact alias_tuple_ok hk hal.1 hf hw.1 hl hal.2.1 hal.2.2 hr
    obtain ⟨c, r, hcr, hc⟩ := isTupleNameStr_head hn
    have hup := upper_facts hc
    have hlow : startsLower n = false := by subst hcr; simp [startsLower, hup.1]
    have hhead : ∀ (d : Char) (tl : Str), d ≠ c → headAll (· ≠ d) (n ++ tl) = true := by
      intro d tl hd; subst hcr; simp only [List.cons_append, headAll, decide_eq_true_eq]
      exact fun e => hd e.symm
    cases fs with
    | nil =>
      have hp : printTy (.tuple (some n) [] false) = n := by simp [printTy, hlow]
      rw [hp]
      have htn : tupleName (n ++ rest) = .ok n rest := tupleName_append hn (stopB_body hr)
      have ht : tupleType k (n ++ rest) = .ok (.tuple (some n) [] false) rest := by
        unfold tupleType
        rw [alt_of_fails (Fails.bind_ok htn (Fails.pmap
            (fieldsIn_fails_head k _ _ (stopB_head hr (c := '[') rfl)))),
          alt_of_fails (Fails.verify (Fails.bind
            (typeName_fails_head (hhead '\'' rest (Ne.symm hup.2.1))))),
          alt_of_fails (Fails.pmap (fieldsIn_fails_head k _ _ (hhead '[' rest (Ne.symm hup.2.2.1)))),
          bind_ok htn, pmap_ok (stopB_peek hr)]
      have hpt : Fails (partialType k) (n ++ rest) := by
        unfold partialType
        exact Fails.alt (Fails.bind_ok htn (Fails.pmap
            (fieldsIn_fails_head k _ _ (stopB_head hr (c := '(') rfl))))
          (Fails.verify (Fails.pmap
            (fieldsIn_fails_head k _ _ (hhead '(' rest (Ne.symm hup.2.2.2.1)))))
      exact ⟨base_of_tuple k ht, fio_of_tuple k hpt (hhead '(' rest (Ne.symm hup.2.2.2.1)) ht⟩
    | cons f fs =>
      have hp : printTy (.tuple (some n) (f :: fs) false) =
          n ++ '[' :: (sepBy [',', ' '] (printFieldsL (f :: fs)) ++ [']']) := by
        simp [printTy, hlow]
      rw [hp]
      simp only [List.cons_append, List.append_assoc, List.nil_append]
      have htn : tupleName (n ++ '[' :: (sepBy [',', ' '] (printFieldsL (f :: fs)) ++ ']' :: rest)) =
          .ok n ('[' :: (sepBy [',', ' '] (printFieldsL (f :: fs)) ++ ']' :: rest)) :=
        tupleName_append hn (by intro d tl e; cases e; decide)
      have ht : tupleType k (n ++ '[' :: (sepBy [',', ' '] (printFieldsL (f :: fs)) ++ ']' :: rest)) =
          .ok (.tuple (some n) (f :: fs) false) rest := by
        unfold tupleType
        rw [alt_of_ok]
        rw [bind_ok htn, pmap_ok (fieldsIn_bracket hk hf hw.1 hl rest)]
      have hpt : Fails (partialType k)
          (n ++ '[' :: (sepBy [',', ' '] (printFieldsL (f :: fs)) ++ ']' :: rest)) := by
        unfold partialType
        exact Fails.alt (Fails.bind_ok htn (Fails.pmap
            (fieldsIn_fails_head k _ _ (by simp [headAll]))))
          (Fails.verify (Fails.pmap
            (fieldsIn_fails_head k _ _ (hhead '(' _ (Ne.symm hup.2.2.2.1)))))
      exact ⟨base_of_tuple k ht, fio_of_tuple k hpt (hhead '(' _ (Ne.symm hup.2.2.2.1)) ht⟩

theorem partial_ok {name : Option Str} {fs : List Field} (hf : Field.fragList fs = true)
    (hw : (Ty.tuple name fs true).wf = true) (hl : Field.lvList fs ≤ L) {rest : Str}
    (hr : stopB rest = true) :
    baseTypeWith k (printTy (.tuple name fs true) ++ rest) = .ok (.tuple name fs true) rest ∧
    functionIoType k (printTy (.tuple name fs true) ++ rest) = .ok (.tuple name fs true) rest := by
  have _ := hr
  simp only [Ty.wf, Bool.and_eq_true] at hw
  cases name with
  | none =>
    have hp : printTy (.tuple none fs true) = '(' :: (sepBy [',', ' '] (printFieldsL fs) ++ [')']) := by
      cases fs <;> simp [printTy, sepBy, printFieldsL]
    rw [hp]
    simp only [List.cons_append, List.append_assoc, List.nil_append]
    have hpt : partialType k ('(' :: (sepBy [',', ' '] (printFieldsL fs) ++ ')' :: rest)) =
        .ok (.tuple none fs true) rest := by
      unfold partialType
      rw [alt_of_fails (Fails.bind (tupleName_fails_of_head (by simp [headAll, isUpper])))]
      exact verify_ok (pmap_ok (fieldsIn_paren hk hf hw.1 hl rest)) (by simpa using hw.2)
    refine ⟨?_, ?_⟩
    · unfold baseTypeWith
      rw [alt_of_fails (tupleType_fails_head k (by simp [headAll, isUpper])), alt_of_ok hpt]
    · unfold functionIoType
      rw [alt_of_ok hpt]
  | some n =>
    have hn : isTupleNameStr n = true := by simpa using hw.2
    obtain ⟨c, r, hcr, hc⟩ := isTupleNameStr_head hn
    have hup := upper_facts hc
    have hlow : startsLower n = false := by subst hcr; simp [startsLower, hup.1]
    have hhead : ∀ (d : Char) (tl : Str), d ≠ c → headAll (· ≠ d) (n ++ tl) = true := by
      intro d tl hd; subst hcr; simp only [List.cons_append, headAll, decide_eq_true_eq]
      exact fun e => hd e.symm
    have hp : printTy (.tuple (some n) fs true) =
        n ++ '(' :: (sepBy [',', ' '] (printFieldsL fs) ++ [')']) := by
      cases fs <;> simp [printTy, hlow, sepBy, printFieldsL]
    rw [hp]
    simp only [List.cons_append, List.append_assoc, List.nil_append]
    have htn : tupleName (n ++ '(' :: (sepBy [',', ' '] (printFieldsL fs) ++ ')' :: rest)) =
        .ok n ('(' :: (sepBy [',', ' '] (printFieldsL fs) ++ ')' :: rest)) :=
      tupleName_append hn (by intro d tl e; cases e; decide)
    have hpt : partialType k (n ++ '(' :: (sepBy [',', ' '] (printFieldsL fs) ++ ')' :: rest)) =
        .ok (.tuple (some n) fs true) rest := by
      unfold partialType
      rw [alt_of_ok]
      rw [bind_ok htn, pmap_ok (fieldsIn_paren hk hf hw.1 hl rest)]
    have hpeek : Fails (peekNot (seq ws0 (pchar '(')))
        ('(' :: (sepBy [',', ' '] (printFieldsL fs) ++ ')' :: rest)) := by
      have : seq ws0 (pchar '(') ('(' :: (sepBy [',', ' '] (printFieldsL fs) ++ ')' :: rest)) =
          .ok () (sepBy [',', ' '] (printFieldsL fs) ++ ')' :: rest) := by
        rw [seq_ok (ws0_of_head (by simp [headAll, isMultispace])), pchar_self]
      exact ⟨'(' :: (sepBy [',', ' '] (printFieldsL fs) ++ ')' :: rest), .not, by simp [peekNot, this]⟩
    have htt : Fails (tupleType k) (n ++ '(' :: (sepBy [',', ' '] (printFieldsL fs) ++ ')' :: rest)) := by
      unfold tupleType
      exact Fails.alt (Fails.bind_ok htn (Fails.pmap (fieldsIn_fails_head k _ _ (by simp [headAll]))))
        (Fails.alt (Fails.verify (Fails.bind (typeName_fails_head (hhead '\'' _ (Ne.symm hup.2.1)))))
        (Fails.alt (Fails.pmap (fieldsIn_fails_head k _ _ (hhead '[' _ (Ne.symm hup.2.2.1))))
          (Fails.bind_ok htn (Fails.pmap hpeek))))
    refine ⟨?_, ?_⟩
    · unfold baseTypeWith
      rw [alt_of_fails htt, alt_of_ok hpt]
    · unfold functionIoType
      rw [alt_of_ok hpt]

/-- `'name<args>` (an applied alias) and `'` / `'<args>` (the module's own default type) -/
theorem quote_ok {rest : Str} (hr : stopB rest = true) :
    (∀ (n : Str) (a : Ty) (as : List Ty), isIdentStr n = true → Ty.fragList (a :: as) = true →
      Ty.wfList (a :: as) = true → Ty.lvAList (a :: as) ≤ L →
      baseTypeWith k ('\'' :: (n ++ (angle (printTys (a :: as)) ++ rest))) = .ok (.ident n (a :: as)) rest ∧
      functionIoType k ('\'' :: (n ++ (angle (printTys (a :: as)) ++ rest))) = .ok (.ident n (a :: as)) rest) ∧
    (∀ args : List Ty, Ty.fragList args = true → Ty.wfList args = true → Ty.lvAList args ≤ L →
      baseTypeWith k ('\'' :: (angle (printTys args) ++ rest)) = .ok (.selfDefault args) rest ∧
      functionIoType k ('\'' :: (angle (printTys args) ++ rest)) = .ok (.selfDefault args) rest) := by
  refine ⟨?_, ?_⟩
  · intro n a as hn hf hw hl
    have hah := angle_head (a :: as) hr
    have htn : typeName ('\'' :: (n ++ (angle (printTys (a :: as)) ++ rest))) =
        .ok n (angle (printTys (a :: as)) ++ rest) := by
      unfold typeName
      rw [seq_ok (pchar_self _ _)]
      exact identifier_append hn hah.1
    have hhb : headAll (· ≠ '[') (angle (printTys (a :: as)) ++ rest) = true := by
      simp [angle, printTys, headAll]
    have htt : Fails (tupleType k) ('\'' :: (n ++ (angle (printTys (a :: as)) ++ rest))) := by
      unfold tupleType
      exact Fails.alt (Fails.bind (tupleName_fails_of_head (by simp [headAll, isUpper])))
        (Fails.alt (Fails.verify (Fails.bind_ok htn (Fails.pmap (fieldsIn_fails_head k _ _ hhb))))
        (Fails.alt (Fails.pmap (fieldsIn_fails_head k _ _ (by simp [headAll])))
          (Fails.bind (tupleName_fails_of_head (by simp [headAll, isUpper])))))
    have hti : typeIdentifier k ('\'' :: (n ++ (angle (printTys (a :: as)) ++ rest))) =
        .ok (.ident n (a :: as)) rest := by
      unfold typeIdentifier
      rw [bind_ok htn, pmap_ok (optArgs_ok hk hf hw hl hr).2]
      simp
    rw [base_quote k htt (moduleType_fails_ident k hn), fio_quote k htt (moduleType_fails_ident k hn),
      alt_of_ok hti]
    exact ⟨rfl, rfl⟩
  · intro args hf hw hl
    have hah := angle_head args hr
    have hlow : headAll (fun c => !isLower c) (angle (printTys args) ++ rest) = true := by
      cases h : angle (printTys args) ++ rest with
      | nil => rfl
      | cons c t => have := hah.2; rw [h] at this; simp only [headAll, Bool.and_eq_true] at this ⊢; exact this.1.1
    have hpc : headAll (· ≠ '%') (angle (printTys args) ++ rest) = true := by
      cases h : angle (printTys args) ++ rest with
      | nil => rfl
      | cons c t =>
        have := hah.2; rw [h] at this
        simp only [headAll, Bool.and_eq_true, bne_iff_ne] at this
        simpa [headAll] using this.1.2
    have htnf : Fails typeName ('\'' :: (angle (printTys args) ++ rest)) :=
      Fails.seq_ok (pchar_self _ _) (identifier_fails_of_head hlow)
    have htt : Fails (tupleType k) ('\'' :: (angle (printTys args) ++ rest)) := by
      unfold tupleType
      exact Fails.alt (Fails.bind (tupleName_fails_of_head (by simp [headAll, isUpper])))
        (Fails.alt (Fails.verify (Fails.bind htnf))
        (Fails.alt (Fails.pmap (fieldsIn_fails_head k _ _ (by simp [headAll])))
          (Fails.bind (tupleName_fails_of_head (by simp [headAll, isUpper])))))
    have hmod : Fails (moduleType k) ('\'' :: (angle (printTys args) ++ rest)) :=
      Fails.seq_ok (pchar_self _ _) (Fails.bind (Fails.seq (pchar_fails_of_head hpc)))
    have hti : Fails (typeIdentifier k) ('\'' :: (angle (printTys args) ++ rest)) := Fails.bind htnf
    have hsd : selfDefaultType k ('\'' :: (angle (printTys args) ++ rest)) =
        .ok (.selfDefault args) rest := by
      unfold selfDefaultType
      rw [seq_ok (pchar_self _ _), pmap_ok (optArgs_ok hk hf hw hl hr).1]
    rw [base_quote k htt hmod, fio_quote k htt hmod, alt_of_fails hti, hsd]
    exact ⟨rfl, rfl⟩

/-! ### Module types `'%m/n.t<args>` -/

omit hk in
/-- the path behind `%`: `m1/m2/…` -/
theorem importPath_ok : ∀ (m : Str) (ms : List Str) (tail : Str), isIdentStr m = true →
    ms.all isIdentStr = true → IdStop tail → headAll (· ≠ '/') tail = true →
    sepList1 (pchar '/') identifier (sepBy ['/'] (m :: ms) ++ tail) = .ok (m :: ms) tail := by
  intro m ms
  have htail : ∀ (ms : List Str) (tail : Str), ms.all isIdentStr = true → IdStop tail →
      headAll (· ≠ '/') tail = true →
      sepTail (pchar '/') identifier ((ms.map (['/'] ++ ·)).flatten ++ tail) = .ok ms tail := by
    intro ms
    induction ms with
    | nil => intro tail _ _ h; exact sepTail_of_fails (pchar_fails_of_head h)
    | cons x xs ih =>
      intro tail hall hid hh
      simp only [List.all_cons, Bool.and_eq_true] at hall
      simp only [List.map_cons, List.flatten_cons, List.append_assoc, List.cons_append, List.nil_append]
      have hstop : IdStop ((xs.map (['/'] ++ ·)).flatten ++ tail) := by
        cases xs with
        | nil => simpa using hid
        | cons y ys => simp [IdStop, isIdentBody, isLower, isUpper, isDigit]
      refine sepTail_cons (Sound.pchar _) Sound.identifier (pchar_self _ _) (by simp) ?_
        (ih tail hall.2 hid hh)
      exact identifier_append hall.1 hstop
  intro tail hm hall hid hh
  rw [sepBy_cons, List.append_assoc]
  have hstop : IdStop ((ms.map (['/'] ++ ·)).flatten ++ tail) := by
    cases ms with
    | nil => simpa using hid
    | cons y ys => simp [IdStop, isIdentBody, isLower, isUpper, isDigit]
  exact sepList1_cons (identifier_append hm hstop) (htail ms tail hall hid hh)

theorem module_ok {m : List Str} {mem : Option Str} {args : List Ty}
    (hw : (Ty.modty m mem args).wf = true) (hf : Ty.fragList args = true)
    (hl : Ty.lvAList args ≤ L) {rest : Str} (hr : stopB rest = true) :
    baseTypeWith k (printTy (.modty m mem args) ++ rest) = .ok (.modty m mem args) rest ∧
    functionIoType k (printTy (.modty m mem args) ++ rest) = .ok (.modty m mem args) rest := by
  simp only [Ty.wf, Bool.and_eq_true, Bool.not_eq_true', List.isEmpty_eq_false_iff] at hw
  obtain ⟨⟨⟨hne, hall⟩, hmem⟩, hwa⟩ := hw
  cases m with
  | nil => exact absurd rfl hne
  | cons m1 ms =>
    simp only [List.all_cons, Bool.and_eq_true] at hall
    have hah := angle_head args hr
    -- what follows the path
    obtain ⟨after, hdef⟩ : ∃ after : Str, after =
        (match mem with | some x => '.' :: x | none => []) ++ (angle (printTys args) ++ rest) := ⟨_, rfl⟩
    have hp : printTy (.modty (m1 :: ms) mem args) ++ rest = '\'' :: '%' :: (sepBy ['/'] (m1 :: ms) ++ after) := by
      rw [hdef]; cases mem <;> simp [printTy]
    have hslash : headAll (· ≠ '/') (angle (printTys args) ++ rest) = true ∧
        headAll (· ≠ '.') (angle (printTys args) ++ rest) = true := by
      cases args with
      | nil =>
        simp only [printTys, angle, List.isEmpty_nil, if_true, List.nil_append]
        exact ⟨stopB_head hr (c := '/') rfl, stopB_head hr (c := '.') rfl⟩
      | cons a as => simp [angle, printTys, headAll]
    have hafter : IdStop after ∧ headAll (· ≠ '/') after = true := by
      cases mem with
      | none => rw [hdef]; simp only [List.nil_append]; exact ⟨hah.1, hslash.1⟩
      | some x => rw [hdef]; simp [IdStop, isIdentBody, isLower, isUpper, isDigit, headAll]
    have hpath : importPath ('%' :: (sepBy ['/'] (m1 :: ms) ++ after)) = .ok (m1 :: ms) after := by
      unfold importPath
      rw [seq_ok (pchar_self _ _)]
      exact importPath_ok m1 ms after hall.1 hall.2 hafter.1 hafter.2
    have hmemp : opt (seq (pchar '.') identifier) after = .ok mem (angle (printTys args) ++ rest) := by
      cases mem with
      | none =>
        rw [hdef]; simp only [List.nil_append]
        exact opt_of_fails (Fails.seq (pchar_fails_of_head hslash.2))
      | some x =>
        have hx : isIdentStr x = true := hmem
        have : seq (pchar '.') identifier ('.' :: (x ++ (angle (printTys args) ++ rest))) =
            .ok x (angle (printTys args) ++ rest) := by
          rw [seq_ok (pchar_self _ _)]; exact identifier_append hx hah.1
        rw [hdef]; simp only [List.cons_append]
        exact opt_ok this
    have hmod : moduleType k ('\'' :: '%' :: (sepBy ['/'] (m1 :: ms) ++ after)) =
        .ok (.modty (m1 :: ms) mem args) rest := by
      unfold moduleType
      rw [seq_ok (pchar_self _ _), bind_ok hpath, bind_ok hmemp, pmap_ok (optArgs_ok hk hf hwa hl hr).1]
    have htnf : Fails typeName ('\'' :: '%' :: (sepBy ['/'] (m1 :: ms) ++ after)) :=
      Fails.seq_ok (pchar_self _ _) (identifier_fails_of_head (by simp [headAll, isLower]))
    have htt : Fails (tupleType k) ('\'' :: '%' :: (sepBy ['/'] (m1 :: ms) ++ after)) := by
      unfold tupleType
      exact Fails.alt (Fails.bind (tupleName_fails_of_head (by simp [headAll, isUpper])))
        (Fails.alt (Fails.verify (Fails.bind htnf))
        (Fails.alt (Fails.pmap (fieldsIn_fails_head k _ _ (by simp [headAll])))
          (Fails.bind (tupleName_fails_of_head (by simp [headAll, isUpper])))))
    rw [hp]
    refine ⟨?_, ?_⟩
    · unfold baseTypeWith
      rw [alt_of_fails htt, alt_of_fails (partialType_fails_head k (by simp [headAll, isUpper])),
        alt_of_fails (resourceType_fails_head (by simp [headAll])),
        alt_of_fails (typeCycle_fails_head (by simp [headAll])),
        alt_of_fails (processType_fails_head k (by simp [headAll]) (by simp [headAll])),
        alt_of_fails (typeParameter_fails_head (by simp [headAll])), alt_of_ok hmod]
    · unfold functionIoType
      rw [alt_of_fails (partialType_fails_head k (by simp [headAll, isUpper])),
        alt_of_fails (groupType_fails_head k (by simp [headAll])), alt_of_fails htt,
        alt_of_fails (resourceType_fails_head (by simp [headAll])),
        alt_of_fails (typeCycle_fails_head (by simp [headAll])),
        alt_of_fails (processType_fails_head k (by simp [headAll]) (by simp [headAll])),
        alt_of_ok hmod]

/-! ### Process types -/

omit hk in
/-- the unnamed-partial attempt on `( X …` when `k.td` reads a type off `X` and neither `,` nor `)`
    follows it -/
theorem partial_fails_after_td {X Y Z : Str} {T : Ty} {d : Char}
    (hX : headAll (fun c => !isMultispace c && c != '/' && c != '.' && !isLower c) X = true)
    (htd : k.td X = .ok T Y) (hsk : skipWsc false Y = d :: Z) (hd1 : d ≠ ',') (hd2 : d ≠ ')') :
    Fails (partialType k) ('(' :: X) := by
  have hX1 : headAll (fun c => !isMultispace c && c != '/') X = true := by
    cases X with
    | nil => rfl
    | cons c t => simp only [headAll, Bool.and_eq_true] at hX ⊢; exact hX.1.1
  have hX2 : headAll (· ≠ '.') X = true := by
    cases X with
    | nil => rfl
    | cons c t => simp only [headAll, Bool.and_eq_true, bne_iff_ne] at hX; simpa [headAll] using hX.1.2
  have hX3 : headAll (fun c => !isLower c) X = true := by
    cases X with
    | nil => rfl
    | cons c t => simp only [headAll, Bool.and_eq_true] at hX ⊢; exact hX.2
  have hft : fieldType k X = .ok (.field none T) Y := by
    unfold fieldType
    rw [alt_of_fails (Fails.seq (ptag_fails_of_head rfl hX2)),
      alt_of_fails (Fails.bind (identifier_fails_of_head hX3)), pmap_ok htd]
  have hwscY : wsc Y = .ok () (d :: Z) := by simp [wsc, hsk]
  have hcomma : Fails commaWsc Y := Fails.seq_ok hwscY (Fails.seq (pchar_ne hd1 _))
  have hftl : fieldTypeList k X = .ok [.field none T] Y := by
    unfold fieldTypeList
    exact before_ok (sepList0_cons hft (sepTail_of_fails hcomma))
      (opt_of_fails (Fails.seq_ok hwscY (pchar_ne hd1 _)))
  have hfi : Fails (fieldsIn '(' ')' k) ('(' :: X) := by
    unfold fieldsIn delimited
    refine Fails.seq_ok (a := ()) (r := X) (by rw [seq_ok (pchar_self _ _)]; exact wsc_of_head hX1) ?_
    exact Fails.before_ok hftl (Fails.seq_ok hwscY (pchar_ne hd2 _))
  unfold partialType
  exact Fails.alt (Fails.bind (tupleName_fails_of_head (by simp [headAll, isUpper])))
    (Fails.verify (Fails.pmap hfi))

omit hk in
/-- the grouping attempt on `( X …` when no `)` follows the type read off `X` -/
theorem group_fails_after_td {X Y Z : Str} {T : Ty} {d : Char}
    (hX : headAll (fun c => !isMultispace c) X = true)
    (htd : k.td X = .ok T Y) (hdw : Y.dropWhile isMultispace = d :: Z) (hd2 : d ≠ ')') :
    Fails (groupType k) ('(' :: X) := by
  unfold groupType delimited
  refine Fails.seq_ok (a := ()) (r := X) (by rw [seq_ok (pchar_self _ _)]; exact ws0_of_head hX) ?_
  exact Fails.before_ok htd (Fails.seq_ok (a := ()) (r := d :: Z) (by simp [ws0, hdw]) (pchar_ne hd2 _))

/-- behind `(`, an atom followed by ` | ` or ` & ` is not a parenthesised process form -/
theorem proc_atom_paren_fails {A : Ty} (hf : A.frag = true) (hw : A.wf = true) (hl : A.lvA ≤ L)
    {d : Char} (hd : d = '|' ∨ d = '&') (tail : Str) :
    Fails (processType k) ('(' :: (printAtom A ++ ' ' :: d :: tail)) := by
  obtain ⟨c, s, hp, hc⟩ := printAtom_head hf hw
  by_cases hat : c = '@'
  case neg => rw [hp]; exact processType_paren_nonat k hat _
  subst hat
  obtain ⟨a, rfl⟩ := printAtom_at hw hp
  have hsb : stopB (' ' :: d :: tail) = true := by
    rcases hd with rfl | rfl
    · exact stopB_bar _
    · exact stopB_amp _
  have hdd : d ≠ '-' := by rcases hd with rfl | rfl <;> decide
  have hdws : isMultispace d = false := by rcases hd with rfl | rfl <;> decide
  have harrow : Fails arrow (' ' :: d :: tail) := by
    unfold arrow
    exact Fails.seq_ok (ws1_space (Z := d :: tail) (by simp [headAll, hdws]))
      (Fails.seq (ptag_fails_of_head rfl (by simpa [headAll] using hdd)))
  unfold processType delimited
  refine Fails.alt (Fails.seq_ok (pchar_self _ _) (Fails.before (Fails.alt ?_ ?_)))
    (Fails.seq (pchar_ne (by decide) _))
  · -- `(@ ws0 -> …`
    cases a with
    | none =>
      have : printAtom (.proc none none) = ['@'] := rfl
      rw [this]
      refine Fails.pmap (Fails.seq (Fails.seq_ok (pchar_self _ _) ?_))
      refine Fails.seq_ok (a := ()) (r := d :: tail) (ws0_space_nonws hdws) ?_
      exact Fails.seq (ptag_fails_of_head rfl (by simpa [headAll] using hdd))
    | some x =>
      simp only [Ty.frag, Ty.fragOpt, Bool.and_true] at hf
      have hwx : x.wf = true := by simpa [Ty.wf, Ty.wfOpt] using hw
      obtain ⟨c2, s2, hp2, hc2⟩ := printAtom_head hf hwx
      have : printAtom (.proc (some x) none) = '@' :: printAtom x := by simp [printAtom, atomWrap, printTy]
      rw [this, hp2]
      refine Fails.pmap (Fails.seq (Fails.seq_ok (pchar_self _ _) ?_))
      refine Fails.seq_ok (a := ()) (r := c2 :: (s2 ++ ' ' :: d :: tail))
        (ws0_of_head (by simp [headAll, (atomHead_facts hc2).2.2.2.2.2.2.2])) ?_
      exact Fails.seq (ptag_fails_of_head rfl (by simpa [headAll] using atomHead_ne_dash hc2))
  · -- `(@type -> …`
    cases a with
    | none =>
      have : printAtom (.proc none none) = ['@'] := rfl
      rw [this]
      exact Fails.seq_ok (pchar_self _ _) (Fails.bind (hk.btstop _ hsb))
    | some x =>
      simp only [Ty.frag, Ty.fragOpt, Bool.and_true] at hf
      have hwx : x.wf = true := by simpa [Ty.wf, Ty.wfOpt] using hw
      have hlx : x.lvA ≤ L := by simp only [Ty.lvA, Ty.lvAOpt] at hl; omega
      have : printAtom (.proc (some x) none) = '@' :: printAtom x := by simp [printAtom, atomWrap, printTy]
      rw [this]
      simp only [List.cons_append]
      exact Fails.seq_ok (pchar_self _ _) (Fails.bind_ok (hk.bt x hf hwx hlx _ hsb) (Fails.seq harrow))

theorem proc_ok {a r : Option Ty} (hf : Ty.fragOpt a = true ∧ Ty.fragOpt r = true)
    (hw : (Ty.proc a r).wf = true) (hl : (Ty.proc a r).lvA ≤ L + 1) {rest : Str}
    (hr : stopB rest = true) :
    baseTypeWith k (printTy (.proc a r) ++ rest) = .ok (.proc a r) rest ∧
    functionIoType k (printTy (.proc a r) ++ rest) = .ok (.proc a r) rest := by
  simp only [Ty.wf, Bool.and_eq_true] at hw
  have hclose : stopB (')' :: rest) = true := stopTd_stopB (stopTd_of_close _ (Or.inr (Or.inr rfl)))
  cases r with
  | none =>
    -- `@` / `@type`
    have hpt : ∀ X : Str, printTy (.proc a none) ++ rest = '@' :: X →
        processType k ('@' :: X) = .ok (.proc a none) rest →
        baseTypeWith k (printTy (.proc a none) ++ rest) = .ok (.proc a none) rest ∧
        functionIoType k (printTy (.proc a none) ++ rest) = .ok (.proc a none) rest := by
      intro X hX hp
      rw [hX]
      refine ⟨?_, ?_⟩
      · unfold baseTypeWith
        rw [alt_of_fails (tupleType_fails_head k (by simp [headAll, isUpper])),
          alt_of_fails (partialType_fails_head k (by simp [headAll, isUpper])),
          alt_of_fails (resourceType_fails_head (by simp [headAll])),
          alt_of_fails (typeCycle_fails_head (by simp [headAll])), alt_of_ok hp]
      · unfold functionIoType
        rw [alt_of_fails (partialType_fails_head k (by simp [headAll, isUpper])),
          alt_of_fails (groupType_fails_head k (by simp [headAll])),
          alt_of_fails (tupleType_fails_head k (by simp [headAll, isUpper])),
          alt_of_fails (resourceType_fails_head (by simp [headAll])),
          alt_of_fails (typeCycle_fails_head (by simp [headAll])), alt_of_ok hp]
    cases a with
    | none =>
      refine hpt rest rfl ?_
      unfold processType
      rw [alt_of_fails (Fails.delimited (pchar_ne (by decide) _)), seq_ok (pchar_self _ _),
        pmap_ok (opt_of_fails (hk.btstop rest hr))]
    | some x =>
      have hfx : x.frag = true := by simpa [Ty.fragOpt] using hf.1
      have hwx : x.wf = true := by simpa [Ty.wfOpt] using hw.1
      have hlx : x.lvA ≤ L := by simp only [Ty.lvA, Ty.lvAOpt] at hl; omega
      refine hpt (printAtom x ++ rest) (by simp [printTy, printAtom]) ?_
      unfold processType
      rw [alt_of_fails (Fails.delimited (pchar_ne (by decide) _)), seq_ok (pchar_self _ _),
        pmap_ok (opt_ok (hk.bt x hfx hwx hlx rest hr))]
  | some y =>
    have hfy : y.frag = true := by simpa [Ty.fragOpt] using hf.2
    have hwy : y.wf = true := by simpa [Ty.wfOpt] using hw.2
    have hly : y.lvA ≤ L := by
      simp only [Ty.lvA] at hl; omega
    obtain ⟨cy, sy, hpy, hcy⟩ := printAtom_head hfy hwy
    have hyws : headAll (fun c => !isMultispace c) (printAtom y ++ ')' :: rest) = true := by
      rw [hpy]; simp [headAll, (atomHead_facts hcy).2.2.2.2.2.2.2]
    have hbty := hk.bt y hfy hwy hly (')' :: rest) hclose
    -- the cascade for a `(`-headed text on which the partial attempt and the grouping fail
    have hcasc : ∀ X : Str, Fails (partialType k) ('(' :: X) → Fails (groupType k) ('(' :: X) →
        processType k ('(' :: X) = .ok (.proc a (some y)) rest →
        baseTypeWith k ('(' :: X) = .ok (.proc a (some y)) rest ∧
        functionIoType k ('(' :: X) = .ok (.proc a (some y)) rest := by
      intro X h1 h2 hp
      refine ⟨?_, ?_⟩
      · unfold baseTypeWith
        rw [alt_of_fails (tupleType_fails_head k (by simp [headAll, isUpper])), alt_of_fails h1,
          alt_of_fails (resourceType_fails_head (by simp [headAll])),
          alt_of_fails (typeCycle_fails_head (by simp [headAll])), alt_of_ok hp]
      · unfold functionIoType
        rw [alt_of_fails h1, alt_of_fails h2,
          alt_of_fails (tupleType_fails_head k (by simp [headAll, isUpper])),
          alt_of_fails (resourceType_fails_head (by simp [headAll])),
          alt_of_fails (typeCycle_fails_head (by simp [headAll])), alt_of_ok hp]
    cases a with
    | none =>
      have hL : 1 ≤ L := by simp only [Ty.lvA, Ty.lvAOpt] at hl; omega
      have hptx : printTy (.proc none (some y)) ++ rest =
          '(' :: '@' :: '-' :: '>' :: ' ' :: (printAtom y ++ ')' :: rest) := by
        simp [printTy, printAtom]
      rw [hptx]
      have htd : k.td ('@' :: '-' :: '>' :: ' ' :: (printAtom y ++ ')' :: rest)) =
          .ok (.proc none none) ('-' :: '>' :: ' ' :: (printAtom y ++ ')' :: rest)) :=
        hk.td (.proc none none) (by simp [Ty.frag, Ty.fragOpt]) (by simp [Ty.wf, Ty.wfOpt])
          (by simp [Ty.lvT, Ty.lvM, Ty.lvA, Ty.lvAOpt]; exact hL) _ (stopTd_dash _)
      refine hcasc _ (partial_fails_after_td (d := '-') (by simp [headAll, isMultispace, isLower]) htd
          (skipWsc_of_head (by simp [headAll, isMultispace])) (by decide) (by decide))
        (group_fails_after_td (d := '-') (Z := '>' :: ' ' :: (printAtom y ++ ')' :: rest))
          (by simp [headAll, isMultispace]) htd
          (by simp [List.dropWhile_cons, isMultispace]) (by decide)) ?_
      unfold processType delimited
      rw [alt_of_ok]
      rw [seq_ok (pchar_self _ _)]
      refine before_ok (b := ()) ?_ (pchar_self _ _)
      rw [alt_of_ok]
      rw [pmap_ok (a := y) (r := ')' :: rest)]
      rw [seq_ok (a := ()) (r := printAtom y ++ ')' :: rest)]
      · exact hbty
      · rw [seq_ok (pchar_self _ _), seq_ok (ws0_of_head (by simp [headAll, isMultispace])),
          seq_ok (a := ()) (r := ' ' :: (printAtom y ++ ')' :: rest)) (by simp [ptag, isPrefix])]
        exact ws1_space hyws
    | some x =>
      have hfx : x.frag = true := by simpa [Ty.fragOpt] using hf.1
      have hwx : x.wf = true := by simpa [Ty.wfOpt] using hw.1
      have hlx : x.lvA + 1 ≤ L := by simp only [Ty.lvA, Ty.lvAOpt] at hl; omega
      obtain ⟨cx, sx, hpx, hcx⟩ := printAtom_head hfx hwx
      have hptx : printTy (.proc (some x) (some y)) ++ rest =
          '(' :: '@' :: (printAtom x ++ ' ' :: '-' :: '>' :: ' ' :: (printAtom y ++ ')' :: rest)) := by
        simp [printTy, printAtom]
      rw [hptx]
      have htd : k.td ('@' :: (printAtom x ++ ' ' :: '-' :: '>' :: ' ' :: (printAtom y ++ ')' :: rest))) =
          .ok (.proc (some x) none) (' ' :: '-' :: '>' :: ' ' :: (printAtom y ++ ')' :: rest)) := by
        have := hk.td (.proc (some x) none) (by simp [Ty.frag, Ty.fragOpt, hfx])
          (by simp [Ty.wf, Ty.wfOpt, hwx]) (by simp [Ty.lvT, Ty.lvM, Ty.lvA, Ty.lvAOpt]; exact hlx)
          (' ' :: '-' :: '>' :: ' ' :: (printAtom y ++ ')' :: rest)) (stopTd_sp_dash _)
        simpa [printTy, printAtom] using this
      refine hcasc _ (partial_fails_after_td (d := '-') (by simp [headAll, isMultispace, isLower]) htd
          (skipWsc_space (by simp [headAll, isMultispace])) (by decide) (by decide))
        (group_fails_after_td (d := '-') (Z := '>' :: ' ' :: (printAtom y ++ ')' :: rest))
          (by simp [headAll, isMultispace]) htd
          (by simp [List.dropWhile_cons, isMultispace]) (by decide)) ?_
      unfold processType delimited
      rw [alt_of_ok]
      rw [seq_ok (pchar_self _ _)]
      refine before_ok (b := ()) ?_ (pchar_self _ _)
      -- `(@ ws0 ->` fails on the receive type, `(@type -> type` reads both
      have hq1 : Fails (pmap (seq (seq (pchar '@') (seq ws0 (seq (ptag ['-', '>']) ws1))) k.bt)
          fun r => Ty.proc none (some r))
          ('@' :: (printAtom x ++ ' ' :: '-' :: '>' :: ' ' :: (printAtom y ++ ')' :: rest))) := by
        rw [hpx]
        refine Fails.pmap (Fails.seq (Fails.seq_ok (pchar_self _ _) ?_))
        refine Fails.seq_ok (a := ()) (r := cx :: (sx ++ ' ' :: '-' :: '>' :: ' ' :: (printAtom y ++ ')' :: rest)))
          (ws0_of_head (by simp [headAll, (atomHead_facts hcx).2.2.2.2.2.2.2])) ?_
        exact Fails.seq (ptag_fails_of_head rfl (by simpa [headAll] using atomHead_ne_dash hcx))
      rw [alt_of_fails hq1, seq_ok (pchar_self _ _),
        bind_ok (hk.bt x hfx hwx (by omega) _ (stopB_arrow _)), seq_ok (arrow_step hyws), pmap_ok hbty]

/-- (A) and (C): the printed atom is read back by `base_type` and by `function_input_type` one
    level above the knot -/
theorem atom_ok {t : Ty} (hf : t.frag = true) (hw : t.wf = true) (hl : t.lvA ≤ L + 1) {rest : Str}
    (hr : stopB rest = true) :
    baseTypeWith k (printAtom t ++ rest) = .ok t rest ∧
      functionIoType k (printAtom t ++ rest) = .ok t rest := by
  cases t with
  | prim p =>
    cases p
    · exact ⟨base_ident k (n := ['i', 'n', 't']) (by decide) hr, fio_ident k (n := ['i', 'n', 't']) (by decide) hr⟩
    · exact ⟨base_ident k (n := ['b', 'i', 'n']) (by decide) hr, fio_ident k (n := ['b', 'i', 'n']) (by decide) hr⟩
    · exact ⟨base_ident k (n := ['r', 'e', 'f']) (by decide) hr, fio_ident k (n := ['r', 'e', 'f']) (by decide) hr⟩
  | ident n args =>
    cases args with
    | cons a as =>
      simp only [Ty.frag] at hf
      simp only [Ty.wf, Bool.and_eq_true] at hw
      have hla : Ty.lvAList (a :: as) ≤ L := by
        simp only [Ty.lvA, List.isEmpty_cons, Bool.false_and, Bool.false_eq_true, if_false] at hl; omega
      have hp : printAtom (.ident n (a :: as)) ++ rest =
          '\'' :: (n ++ (angle (printTys (a :: as)) ++ rest)) := by
        simp [printAtom, atomWrap, printTy]
      rw [hp]
      exact (quote_ok hk hr).1 n a as hw.1 hf hw.2 hla
    | nil =>
      have hn : isIdentStr n = true := by simpa [Ty.wf, Ty.wfList] using hw
      cases hnp : isPrimName n with
      | false =>
        have hp : printAtom (.ident n []) ++ rest = '\'' :: (n ++ rest) := by
          simp [printAtom, atomWrap, printTy, hnp, printTys, angle]
        rw [hp, ← identifierToType_not_prim hnp]
        exact ⟨base_ident k hn hr, fio_ident k hn hr⟩
      | true =>
        -- the atom form `(<'int>)`: grouping parentheses around the reference form
        have hlt : (Ty.ident n []).lvT ≤ L := by
          simp only [Ty.lvA, List.isEmpty_nil, hnp, Bool.and_self, if_true] at hl
          simp only [Ty.lvT, Ty.lvM]; omega
        have htd := hk.td (.ident n []) hf hw hlt (')' :: rest)
          (stopTd_of_close _ (Or.inr (Or.inr rfl)))
        have hpt : printTy (.ident n []) = '<' :: ('\'' :: n ++ ['>']) := by simp [printTy, hnp]
        have hpa : printAtom (.ident n []) ++ rest =
            '(' :: '<' :: (('\'' :: n ++ ['>']) ++ ')' :: rest) := by
          simp [printAtom, atomWrap, hpt, hnp]
        rw [hpa]
        rw [hpt] at htd
        exact paren_wrap hk (processType_paren_nonat k (by decide) _) (by decide) (by decide) (by decide)
          (by decide) (by simpa using htd)
  | cycle l =>
    have hl : ∀ n, l = some n → n < 2 ^ 64 := by
      intro n e; subst e; simpa [Ty.wf] using hw
    have hp : printAtom (.cycle l) ++ rest = '^' :: (printCycle l ++ rest) := by
      show printTy (.cycle l) ++ rest = _
      rw [printTy_cycle]; rfl
    rw [hp]
    exact ⟨base_cycle k hl hr, fio_cycle k hl hr⟩
  | resource n =>
    have hn : isTupleNameStr n = true := by simpa [Ty.wf] using hw
    exact ⟨base_resource k hn hr, fio_resource k hn hr⟩
  | tuple name fs p =>
    cases p with
    | true =>
      have : printAtom (.tuple name fs true) = printTy (.tuple name fs true) := rfl
      rw [this]
      exact partial_ok hk (by simpa [Ty.frag] using hf) hw (by simp only [Ty.lvA] at hl; omega) hr
    | false =>
      have : printAtom (.tuple name fs false) = printTy (.tuple name fs false) := rfl
      rw [this]
      exact tuple_ok hk (by simpa [Ty.frag] using hf) hw (by simp only [Ty.lvA] at hl; omega) hr
  | func i o =>
    obtain ⟨c, s, hp, hc⟩ := printTy_head hf hw
    have hlt : (Ty.func i o).lvT ≤ L := by simp only [Ty.lvT, Ty.lvA] at hl ⊢; omega
    have htd := hk.td (.func i o) hf hw hlt (')' :: rest) (stopTd_of_close _ (Or.inr (Or.inr rfl)))
    have hfacts := typeHead_facts hc
    have hpa : printAtom (.func i o) ++ rest = '(' :: c :: (s ++ ')' :: rest) := by
      simp [printAtom, atomWrap, hp]
    rw [hpa]
    rw [hp] at htd
    have hcat : c ≠ '@' := by
      simp only [printTy, List.cons_append, List.cons.injEq] at hp
      rw [← hp.1]; decide
    exact paren_wrap hk (processType_paren_nonat k hcat _) hfacts.2.2.2.2.2.2 hfacts.2.2.1 hfacts.2.1
      hfacts.2.2.2.2.2.1 htd
  | union ts =>
    simp only [Ty.frag] at hf
    simp only [Ty.wf, Bool.and_eq_true, decide_eq_true_eq] at hw
    cases ts with
    | nil => simp at hw
    | cons m ms =>
      simp only [Ty.fragList, Ty.wfList, Bool.and_eq_true] at hf hw
      obtain ⟨c, s, hp, hc, _⟩ := printMember_head hf.1 hw.2.1
      have hfacts := typeHead_facts hc
      have hbare := hk.bare (m :: ms) (by simp [Ty.fragList, hf]) (by simp [Ty.wfList, hw.2]) hw.1
        (by simp only [Ty.lvA] at hl; omega) (')' :: rest) (stopTd_of_close _ (Or.inr (Or.inr rfl)))
      have hpm : printMembers (m :: ms) = c :: (s ++ ((ms.map printMember).map ([' ', '|', ' '] ++ ·)).flatten) := by
        rw [printMembers, printMembersL_eq, List.map_cons, sepBy_cons, hp]
        simp
      have hpa : printAtom (.union (m :: ms)) ++ rest =
          '(' :: c :: ((s ++ ((ms.map printMember).map ([' ', '|', ' '] ++ ·)).flatten) ++ ')' :: rest) := by
        have : printAtom (.union (m :: ms)) = '(' :: (printMembers (m :: ms) ++ [')']) := rfl
        rw [this, hpm]; simp
      rw [hpa]
      rw [hpm] at hbare
      have hlm : Ty.lvAList (m :: ms) ≤ L := by simp only [Ty.lvA] at hl; omega
      have hproc : Fails (processType k) ('(' :: (printMembers (m :: ms) ++ ')' :: rest)) := by
        cases ms with
        | nil => simp at hw
        | cons m2 ms2 =>
          have hlm1 : m.lvA ≤ L := Nat.le_trans (Nat.le_max_left _ _) hlm
          by_cases hi : ∃ as, m = .inter as
          · obtain ⟨as, rfl⟩ := hi
            have hfi := hf.1; have hwi := hw.2.1
            simp only [Ty.frag] at hfi
            simp only [Ty.wf, Bool.and_eq_true, decide_eq_true_eq] at hwi
            cases as with
            | nil => simp at hwi
            | cons a1 as1 =>
              cases as1 with
              | nil => simp at hwi
              | cons a2 as2 =>
                simp only [Ty.fragList, Ty.wfList, Bool.and_eq_true] at hfi hwi
                have hla1 : a1.lvA ≤ L := by
                  simp only [Ty.lvA, Ty.lvAList] at hlm1; omega
                have hdec : printMembers (.inter (a1 :: a2 :: as2) :: m2 :: ms2) ++ ')' :: rest =
                    printAtom a1 ++ ' ' :: '&' :: (' ' :: (sepBy [' ', '&', ' '] (printAtomsL (a2 :: as2)) ++
                      ([' ', '|', ' '] ++ (printMembers (m2 :: ms2) ++ ')' :: rest)))) := by
                  simp [printMembers, printMembersL, memberWrap, printTy, printAtomsL, printAtom, sepBy]
                rw [hdec]
                exact proc_atom_paren_fails hk hfi.1 hwi.2.1 hla1 (Or.inr rfl) _
          · by_cases hpr : m.isPrimRef = true
            · cases m with
              | ident n args =>
                cases args with
                | nil =>
                  have hpn : isPrimName n = true := by simpa [Ty.isPrimRef] using hpr
                  have hdec : printMembers (.ident n [] :: m2 :: ms2) ++ ')' :: rest =
                      '<' :: ('\'' :: n ++ ['>'] ++ ([' ', '|', ' '] ++ (printMembers (m2 :: ms2) ++ ')' :: rest))) := by
                    simp [printMembers, printMembersL, memberWrap, printTy, hpn, sepBy]
                  rw [hdec]
                  exact processType_paren_nonat k (by decide) _
                | cons a as => simp [Ty.isPrimRef] at hpr
              | _ => simp [Ty.isPrimRef] at hpr
            · have hdec : printMembers (m :: m2 :: ms2) ++ ')' :: rest =
                  printAtom m ++ ' ' :: '|' :: (' ' :: (printMembers (m2 :: ms2) ++ ')' :: rest)) := by
                rw [printMembers, printMembersL_eq, List.map_cons, sepBy_cons,
                  printMember_eq_atom hf.1 (fun ts e => hi ⟨ts, e⟩) (by simpa using hpr)]
                simp [printMembers, printMembersL_eq, sepBy_cons]
              rw [hdec]
              exact proc_atom_paren_fails hk hf.1 hw.2.1 hlm1 (Or.inl rfl) _
      rw [hpm] at hproc
      exact paren_wrap hk (by simpa using hproc) hfacts.2.2.2.2.2.2 hfacts.2.2.1 hfacts.2.1
        hfacts.2.2.2.2.2.1 (by simpa using hbare)
  | inter ts =>
    obtain ⟨c, s, hp, hc⟩ := printTy_head hf hw
    have hlt : (Ty.inter ts).lvT ≤ L := by
      simp only [Ty.lvA] at hl
      simp only [Ty.lvT, Ty.lvM]; omega
    have htd := hk.td (.inter ts) hf hw hlt (')' :: rest) (stopTd_of_close _ (Or.inr (Or.inr rfl)))
    have hfacts := typeHead_facts hc
    have hpa : printAtom (.inter ts) ++ rest = '(' :: c :: (s ++ ')' :: rest) := by
      have : printAtom (.inter ts) = '(' :: (printTy (.inter ts) ++ [')']) := rfl
      rw [this, hp]; simp
    have hproc : Fails (processType k) ('(' :: (printTy (.inter ts) ++ ')' :: rest)) := by
      have hfi := hf; have hwi := hw
      simp only [Ty.frag] at hfi
      simp only [Ty.wf, Bool.and_eq_true, decide_eq_true_eq] at hwi
      cases ts with
      | nil => simp at hwi
      | cons a1 as1 =>
        cases as1 with
        | nil => simp at hwi
        | cons a2 as2 =>
          simp only [Ty.fragList, Ty.wfList, Bool.and_eq_true] at hfi hwi
          have hla1 : a1.lvA ≤ L := by simp only [Ty.lvA, Ty.lvAList] at hl; omega
          have hdec : printTy (.inter (a1 :: a2 :: as2)) ++ ')' :: rest =
              printAtom a1 ++ ' ' :: '&' :: (' ' :: (sepBy [' ', '&', ' '] (printAtomsL (a2 :: as2)) ++ ')' :: rest)) := by
            simp [printTy, printAtomsL, printAtom, sepBy]
          rw [hdec]
          exact proc_atom_paren_fails hk hfi.1 hwi.2.1 hla1 (Or.inr rfl) _
    rw [hpa]
    rw [hp] at htd hproc
    exact paren_wrap hk hproc hfacts.2.2.2.2.2.2 hfacts.2.2.1 hfacts.2.1 hfacts.2.2.2.2.2.1 htd
  | proc a r =>
    have : printAtom (.proc a r) = printTy (.proc a r) := rfl
    rw [this]
    exact proc_ok hk (by simpa [Ty.frag] using hf) hw hl hr
  | modty m mem args =>
    simp only [Ty.frag] at hf
    have hla : Ty.lvAList args ≤ L := by simp only [Ty.lvA] at hl; omega
    exact module_ok hk hw hf hla hr
  | selfDefault args =>
    simp only [Ty.frag] at hf
    simp only [Ty.wf] at hw
    have hla : Ty.lvAList args ≤ L := by simp only [Ty.lvA] at hl; omega
    have hp : printAtom (.selfDefault args) ++ rest = '\'' :: (angle (printTys args) ++ rest) := by
      simp [printAtom, atomWrap, printTy]
    rw [hp]
    exact (quote_ok hk hr).2 args hf hw hla

end

theorem atom_tail_head {t : Ty} (hf : t.frag = true) (hw : t.wf = true) (tail : Str) :
    headAll (fun c => !isMultispace c && c != '/') (printAtom t ++ tail) = true ∧
    headAll (· ≠ '#') (printAtom t ++ tail) = true ∧ headAll (· ≠ '|') (printAtom t ++ tail) = true := by
  obtain ⟨c, s, hp, hc⟩ := printAtom_head hf hw
  have := atomHead_facts hc
  rw [hp]
  simp [headAll, this.1, this.2.1, this.2.2.2.1, this.2.2.2.2.2.2.2]

theorem member_tail_head {t : Ty} (hf : t.frag = true) (hw : t.wf = true) (tail : Str) :
    headAll (fun c => !isMultispace c && c != '/') (printMember t ++ tail) = true ∧
    headAll (· ≠ '#') (printMember t ++ tail) = true ∧
    headAll (· ≠ '|') (printMember t ++ tail) = true := by
  obtain ⟨c, s, hp, hc, hh⟩ := printMember_head hf hw
  have := typeHead_facts hc
  rw [hp]
  simp [headAll, this.1, this.2.2.1, this.2.2.2.2.2.2, hh]

theorem amp_fails_close_or_stop {tail : Str} (h : stopTd tail = true) : Fails (barOp '&') tail :=
  stopTd_bar h (Or.inr rfl)

/-- `<'name>` at `base_type` level (the `type_parameter` arm) -/
theorem base_typeParam (k : Knot) {n : Str} (hn : isIdentStr n = true) (tail : Str) :
    baseTypeWith k ('<' :: '\'' :: (n ++ '>' :: tail)) = .ok (.ident n []) tail := by
  have htn : typeName ('\'' :: (n ++ '>' :: tail)) = .ok n ('>' :: tail) := by
    unfold typeName
    rw [seq_ok (pchar_self _ _)]
    exact identifier_append hn (by simp [IdStop, isIdentBody, isLower, isUpper, isDigit])
  have htp : typeParameter ('<' :: '\'' :: (n ++ '>' :: tail)) = .ok (.ident n []) tail := by
    unfold typeParameter delimited
    rw [pmap_ok (a := n) (r := tail)]
    rw [seq_ok (pchar_self _ _)]
    exact before_ok htn (pchar_self _ _)
  unfold baseTypeWith
  rw [alt_of_fails (tupleType_fails_head k (by simp [headAll, isUpper])),
    alt_of_fails (partialType_fails_head k (by simp [headAll, isUpper])),
    alt_of_fails (resourceType_fails_head (by simp [headAll])),
    alt_of_fails (typeCycle_fails_head (by simp [headAll])),
    alt_of_fails (processType_fails_head k (by simp [headAll]) (by simp [headAll])),
    alt_of_ok htp]

section
variable {k : Knot} {L : Nat} (hk : GoodK k L)
include hk

/-- the `& atom` loop of an intersection -/
theorem amp_loop : ∀ ms : List Ty, Ty.fragList ms = true → Ty.wfList ms = true →
    Ty.lvAList ms ≤ L + 1 → ∀ tail : Str, stopB tail = true → Fails (barOp '&') tail →
    many0 (seq (barOp '&') (baseTypeWith k))
      ((ms.map ([' ', '&', ' '] ++ printAtom ·)).flatten ++ tail) = .ok ms tail := by
  intro ms
  induction ms with
  | nil => intro _ _ _ tail _ ha; exact many0_of_fails (Fails.seq ha)
  | cons m ms ih =>
    intro hf hw hl tail hr ha
    simp only [Ty.fragList, Ty.wfList, Bool.and_eq_true] at hf hw
    have hl1 : m.lvA ≤ L + 1 := Nat.le_trans (Nat.le_max_left _ _) hl
    have hl2 : Ty.lvAList ms ≤ L + 1 := Nat.le_trans (Nat.le_max_right _ _) hl
    have sb := baseTypeWith_sound hk.sound
    have sp : Sound (seq (barOp '&') (baseTypeWith k)) := Sound.seq (Sound.barOp _) sb
    have stp : Strict (seq (barOp '&') (baseTypeWith k)) := Strict.seq_left (Strict.barOp _) sb
    simp only [List.map_cons, List.flatten_cons, List.append_assoc, List.cons_append,
      List.nil_append]
    have htail : stopB ((ms.map ([' ', '&', ' '] ++ printAtom ·)).flatten ++ tail) = true := by
      cases ms with
      | nil => exact hr
      | cons m2 ms2 => exact stopB_amp _
    have hstep : seq (barOp '&') (baseTypeWith k)
        (' ' :: '&' :: ' ' :: (printAtom m ++ ((ms.map ([' ', '&', ' '] ++ printAtom ·)).flatten ++ tail))) =
        .ok m ((ms.map ([' ', '&', ' '] ++ printAtom ·)).flatten ++ tail) := by
      rw [seq_ok (barOp_step (Or.inr rfl) (atom_tail_head hf.1 hw.1 _).1)]
      exact (atom_ok hk hf.1 hw.1 hl1 htail).1
    exact many0_cons sp hstep (stp.ok hstep) (ih hf.2 hw.2 hl2 tail hr ha)

/-- an intersection-level member (a union member, or a whole type that is not a function type):
    an atom, the reference form `<'int>`, or a bare intersection; no `&` behind it -/
theorem member_ok {t : Ty} (hf : t.frag = true) (hw : t.wf = true) (hl : t.lvM ≤ L + 1)
    {tail : Str} (hr : stopB tail = true) (ha : Fails (barOp '&') tail) :
    intersectionType (baseTypeWith k) (printMember t ++ tail) = .ok t tail := by
  by_cases hi : ∃ ts, t = .inter ts
  · obtain ⟨ts, rfl⟩ := hi
    simp only [Ty.frag] at hf
    simp only [Ty.wf, Bool.and_eq_true, decide_eq_true_eq] at hw
    simp only [Ty.lvM] at hl
    cases ts with
    | nil => simp at hw
    | cons a as =>
      cases as with
      | nil => simp at hw
      | cons a2 as2 =>
        simp only [Ty.fragList, Ty.wfList, Bool.and_eq_true] at hf hw
        have hl1 : a.lvA ≤ L + 1 := Nat.le_trans (Nat.le_max_left _ _) hl
        have hl2 : Ty.lvAList (a2 :: as2) ≤ L + 1 := Nat.le_trans (Nat.le_max_right _ _) hl
        have hpm : printMember (.inter (a :: a2 :: as2)) ++ tail =
            printAtom a ++ (((a2 :: as2).map ([' ', '&', ' '] ++ printAtom ·)).flatten ++ tail) := by
          show printTy (.inter (a :: a2 :: as2)) ++ tail = _
          simp only [printTy]
          rw [printAtomsL_eq, List.map_cons, sepBy_cons, List.map_map, List.append_assoc]
          rfl
        rw [hpm]
        unfold intersectionType
        rw [bind_ok (atom_ok hk hf.1 hw.2.1 hl1 (by
            simp only [List.map_cons, List.flatten_cons, List.append_assoc, List.cons_append]
            exact stopB_amp _)).1,
          pmap_ok (amp_loop hk (a2 :: as2) (by simp [Ty.fragList, hf.2]) (by simp [Ty.wfList, hw.2.2])
            hl2 tail hr ha)]
        simp
  · by_cases hp : t.isPrimRef = true
    · cases t with
      | ident n args =>
        cases args with
        | nil =>
          have hpn : isPrimName n = true := by simpa [Ty.isPrimRef] using hp
          have hn : isIdentStr n = true := by simpa [Ty.wf, Ty.wfList] using hw
          have hpm : printMember (.ident n []) ++ tail = '<' :: '\'' :: (n ++ '>' :: tail) := by
            simp [printMember, memberWrap, printTy, hpn]
          rw [hpm]
          unfold intersectionType
          rw [bind_ok (base_typeParam k hn tail), pmap_ok (many0_of_fails (Fails.seq ha))]
          simp
        | cons a as => simp [Ty.isPrimRef] at hp
      | _ => simp [Ty.isPrimRef] at hp
    · have hnp : t.isPrimRef = false := by simpa using hp
      have hla : t.lvA ≤ L + 1 := by
        cases t with
        | inter ts => exact absurd ⟨ts, rfl⟩ hi
        | ident n args =>
          cases args with
          | nil =>
            have : isPrimName n = false := by simpa [Ty.isPrimRef] using hnp
            simp [Ty.lvA, this, Ty.lvAList]
          | cons a as => simpa [Ty.lvM] using hl
        | _ => simpa [Ty.lvM] using hl
      rw [printMember_eq_atom hf (fun ts e => hi ⟨ts, e⟩) hnp]
      unfold intersectionType
      rw [bind_ok (atom_ok hk hf hw hla hr).1, pmap_ok (many0_of_fails (Fails.seq ha))]
      simp

theorem members_loop : ∀ ms : List Ty, Ty.fragList ms = true → Ty.wfList ms = true →
    Ty.lvAList ms ≤ L + 1 → ∀ rest : Str, stopTd rest = true →
    many0 (seq (barOp '|') (intersectionType (baseTypeWith k)))
      ((ms.map ([' ', '|', ' '] ++ printMember ·)).flatten ++ rest) = .ok ms rest := by
  intro ms
  induction ms with
  | nil =>
    intro _ _ _ rest hr
    exact many0_of_fails (Fails.seq (stopTd_bar hr (Or.inl rfl)))
  | cons m ms ih =>
    intro hf hw hl rest hr
    simp only [Ty.fragList, Ty.wfList, Bool.and_eq_true] at hf hw
    have hl1 : m.lvM ≤ L + 1 :=
      Nat.le_trans m.lvM_le_lvA (Nat.le_trans (Nat.le_max_left _ _) hl)
    have hl2 : Ty.lvAList ms ≤ L + 1 := Nat.le_trans (Nat.le_max_right _ _) hl
    have sb := baseTypeWith_sound hk.sound
    have sp : Sound (seq (barOp '|') (intersectionType (baseTypeWith k))) :=
      Sound.seq (Sound.barOp _) (intersectionType_sound sb)
    have stp : Strict (seq (barOp '|') (intersectionType (baseTypeWith k))) :=
      Strict.seq_left (Strict.barOp _) (intersectionType_sound sb)
    simp only [List.map_cons, List.flatten_cons, List.append_assoc, List.cons_append,
      List.nil_append]
    have htail : stopB ((ms.map ([' ', '|', ' '] ++ printMember ·)).flatten ++ rest) = true ∧
        Fails (barOp '&') ((ms.map ([' ', '|', ' '] ++ printMember ·)).flatten ++ rest) := by
      cases ms with
      | nil => exact ⟨stopTd_stopB hr, stopTd_bar hr (Or.inr rfl)⟩
      | cons m2 ms2 => exact ⟨stopB_bar _, amp_fails_bar _⟩
    have hstep : seq (barOp '|') (intersectionType (baseTypeWith k))
        (' ' :: '|' :: ' ' :: (printMember m ++ ((ms.map ([' ', '|', ' '] ++ printMember ·)).flatten ++ rest))) =
        .ok m ((ms.map ([' ', '|', ' '] ++ printMember ·)).flatten ++ rest) := by
      rw [seq_ok (barOp_step (Or.inl rfl) (member_tail_head hf.1 hw.1 _).1)]
      exact member_ok hk hf.1 hw.1 hl1 htail.1 htail.2
    exact many0_cons sp hstep (stp.ok hstep) (ih hf.2 hw.2 hl2 rest hr)

/-- a bare union `m1 | m2 | …` one level above the knot -/
theorem bare_ok {ts : List Ty} (hf : Ty.fragList ts = true) (hw : Ty.wfList ts = true)
    (h2 : 2 ≤ ts.length) (hl : Ty.lvAList ts ≤ L + 1) {rest : Str} (hr : stopTd rest = true) :
    typeDefinitionWith k (baseTypeWith k) (printMembers ts ++ rest) = .ok (.union ts) rest := by
  cases ts with
  | nil => simp at h2
  | cons m ms =>
    cases ms with
    | nil => simp at h2
    | cons m2 ms2 =>
      simp only [Ty.fragList, Ty.wfList, Bool.and_eq_true] at hf hw
      have hl1 : m.lvM ≤ L + 1 :=
        Nat.le_trans m.lvM_le_lvA (Nat.le_trans (Nat.le_max_left _ _) hl)
      have hl2 : Ty.lvAList (m2 :: ms2) ≤ L + 1 := Nat.le_trans (Nat.le_max_right _ _) hl
      have hpm : printMembers (m :: m2 :: ms2) ++ rest =
          printMember m ++ (((m2 :: ms2).map ([' ', '|', ' '] ++ printMember ·)).flatten ++ rest) := by
        rw [printMembers, printMembersL_eq, List.map_cons, sepBy_cons, List.map_map, List.append_assoc]
        rfl
      rw [hpm]
      have hh := member_tail_head hf.1 hw.1
        (((m2 :: ms2).map ([' ', '|', ' '] ++ printMember ·)).flatten ++ rest)
      unfold typeDefinitionWith
      rw [alt_of_fails (functionType_fails_head k hh.2.1)]
      have hbar : Fails (barOp '|')
          (printMember m ++ (((m2 :: ms2).map ([' ', '|', ' '] ++ printMember ·)).flatten ++ rest)) :=
        Fails.seq_ok (a := ()) (wsc_of_head hh.1) (Fails.seq (pchar_fails_of_head hh.2.2))
      rw [seq_ok (opt_of_fails hbar)]
      have hfirst := member_ok hk hf.1 hw.1 hl1 (tail := ((m2 :: ms2).map ([' ', '|', ' '] ++ printMember ·)).flatten ++ rest)
        (by simp only [List.map_cons, List.flatten_cons, List.append_assoc, List.cons_append]; exact stopB_bar _)
        (by simp only [List.map_cons, List.flatten_cons, List.append_assoc, List.cons_append]; exact amp_fails_bar _)
      rw [bind_ok hfirst,
        pmap_ok (members_loop hk (m2 :: ms2) (by simp [Ty.fragList, hf.2]) (by simp [Ty.wfList, hw.2]) hl2 rest hr)]
      simp

/-- a printed type at `type_definition` level, one level above the knot -/
theorem td_ok {t : Ty} (hf : t.frag = true) (hw : t.wf = true) (hl : t.lvT ≤ L + 1) {rest : Str}
    (hr : stopTd rest = true) :
    typeDefinitionWith k (baseTypeWith k) (printTy t ++ rest) = .ok t rest := by
  have hrb := stopTd_stopB hr
  by_cases hfn : ∃ i o, t = .func i o
  · obtain ⟨i, o, rfl⟩ := hfn
    simp only [Ty.frag, Ty.wf, Bool.and_eq_true] at hf hw
    simp only [Ty.lvT] at hl
    have hli : i.lvA ≤ L + 1 := Nat.le_trans (Nat.le_max_left _ _) hl
    have hlo : o.lvA ≤ L + 1 := Nat.le_trans (Nat.le_max_right _ _) hl
    have hp : printTy (.func i o) ++ rest =
        '#' :: (printAtom i ++ ' ' :: '-' :: '>' :: ' ' :: (printAtom o ++ rest)) := by
      simp [printTy, printAtom]
    rw [hp]
    unfold typeDefinitionWith
    rw [alt_of_ok]
    unfold functionType
    rw [seq_ok (pchar_self _ _), bind_ok (atom_ok hk hf.1 hw.1 hli (stopB_arrow _)).2]
    have harrow : arrow (' ' :: '-' :: '>' :: ' ' :: (printAtom o ++ rest)) = .ok () (printAtom o ++ rest) := by
      have hh := (atom_tail_head hf.2 hw.2 rest).1
      obtain ⟨c, s, hpo, hc⟩ := printAtom_head hf.2 hw.2
      have hws := (atomHead_facts hc).2.2.2.2.2.2.2
      unfold arrow
      rw [seq_ok (a := ()) (r := '-' :: '>' :: ' ' :: (printAtom o ++ rest))
        (by simp [ws1, isMultispace, List.dropWhile_cons])]
      rw [seq_ok (a := ()) (r := ' ' :: (printAtom o ++ rest))
        (by simp [ptag, isPrefix])]
      rw [hpo]
      simp [ws1, isMultispace, List.dropWhile_cons]
      simp only [isMultispace, Bool.or_eq_false_iff, decide_eq_false_iff_not] at hws
      simp [hws.1.1.1, hws.1.1.2, hws.1.2, hws.2]
    rw [seq_ok harrow, pmap_ok (atom_ok hk hf.2 hw.2 hlo hrb).2]
  · have hlv : t.lvM ≤ L + 1 := by
      cases t with
      | func i o => exact absurd ⟨i, o, rfl⟩ hfn
      | _ => simpa [Ty.lvT] using hl
    rw [printTy_eq_member hfn]
    have hh := member_tail_head hf hw rest
    unfold typeDefinitionWith
    rw [alt_of_fails (functionType_fails_head k hh.2.1)]
    have hbar : Fails (barOp '|') (printMember t ++ rest) :=
      Fails.seq_ok (a := ()) (wsc_of_head hh.1) (Fails.seq (pchar_fails_of_head hh.2.2))
    rw [seq_ok (opt_of_fails hbar),
      bind_ok (member_ok hk hf hw hlv hrb (stopTd_bar hr (Or.inr rfl))),
      pmap_ok (many0_of_fails (Fails.seq (stopTd_bar hr (Or.inl rfl))))]
    simp

end

/-- `base_type` rejects a text that cannot continue a type -/
theorem base_fails_stop (k : Knot) {rest : Str} (hr : stopB rest = true) :
    Fails (baseTypeWith k) rest := by
  have hd : ∀ d : Char, contChar d = true → headAll (· ≠ d) rest = true :=
    fun d hd => stopB_head hr hd
  have hu : headAll (fun c => !isUpper c) rest = true := by
    cases rest with
    | nil => rfl
    | cons c t =>
      have := (stopB_idstop hr).1
      simp only [isIdentBody, Bool.or_eq_false_iff] at this
      simp [headAll, this.1.1.2]
  have h3 : headAll (fun c => !isUpper c && c != '\'' && c != '[') rest = true := by
    cases rest with
    | nil => rfl
    | cons c t =>
      have a := hd '\'' rfl; have b := hd '[' rfl
      simp only [headAll, decide_eq_true_eq] at a b hu
      simp [headAll, hu, a, b]
  have h2 : headAll (fun c => !isUpper c && c != '(') rest = true := by
    cases rest with
    | nil => rfl
    | cons c t =>
      have a := hd '(' rfl
      simp only [headAll, decide_eq_true_eq] at a hu
      simp [headAll, hu, a]
  unfold baseTypeWith
  refine Fails.alt (tupleType_fails_head k h3) (Fails.alt (partialType_fails_head k h2) ?_)
  refine Fails.alt (resourceType_fails_head (hd _ rfl)) ?_
  refine Fails.alt (typeCycle_fails_head (hd _ rfl)) ?_
  refine Fails.alt (processType_fails_head k (hd _ rfl) (hd _ rfl)) ?_
  refine Fails.alt (typeParameter_fails_head (hd _ rfl)) ?_
  refine Fails.alt (moduleType_fails_head k (hd _ rfl)) ?_
  refine Fails.alt (groupType_fails_head k (hd _ rfl)) ?_
  refine Fails.alt (typeIdentifier_fails_head k (hd _ rfl)) ?_
  exact Fails.seq (pchar_fails_of_head (hd _ rfl))

/-- a knot produced by one unfolding rejects a text that starts with a closing bracket -/
theorem KClose.step (k : Knot) : KClose k.step := by
  intro c s hc
  have h1 : ∀ d : Char, d ≠ ']' → d ≠ ')' → headAll (· ≠ d) (c :: s) = true := by
    intro d h1 h2; simp only [headAll, decide_eq_true_eq]
    rcases hc with rfl | rfl
    · exact fun e => h1 e.symm
    · exact fun e => h2 e.symm
  have hu : headAll (fun c => !isUpper c && c != '\'' && c != '[') (c :: s) = true := by
    rcases hc with rfl | rfl <;> simp [headAll, isUpper]
  have hu2 : headAll (fun c => !isUpper c && c != '(') (c :: s) = true := by
    rcases hc with rfl | rfl <;> simp [headAll, isUpper]
  have hwsc : wsc (c :: s) = .ok () (c :: s) :=
    wsc_of_head (by rcases hc with rfl | rfl <;> simp [headAll, isMultispace])
  show Fails (typeDefinitionWith k (baseTypeWith k)) (c :: s)
  unfold typeDefinitionWith
  refine Fails.alt (Fails.seq (pchar_fails_of_head (h1 '#' (by decide) (by decide)))) ?_
  have hbar : Fails (barOp '|') (c :: s) :=
    Fails.seq_ok (a := ()) hwsc (Fails.seq (pchar_fails_of_head (h1 '|' (by decide) (by decide))))
  refine Fails.seq_ok (opt_of_fails hbar) (Fails.bind (Fails.bind ?_))
  unfold baseTypeWith
  refine Fails.alt (tupleType_fails_head k hu) (Fails.alt (partialType_fails_head k hu2) ?_)
  refine Fails.alt (resourceType_fails_head (h1 '\\' (by decide) (by decide))) ?_
  refine Fails.alt (typeCycle_fails_head (h1 '^' (by decide) (by decide))) ?_
  refine Fails.alt (processType_fails_head k (h1 '(' (by decide) (by decide))
    (h1 '@' (by decide) (by decide))) ?_
  refine Fails.alt (typeParameter_fails_head (h1 '<' (by decide) (by decide))) ?_
  refine Fails.alt (moduleType_fails_head k (h1 '\'' (by decide) (by decide))) ?_
  refine Fails.alt (groupType_fails_head k (h1 '(' (by decide) (by decide))) ?_
  refine Fails.alt (typeIdentifier_fails_head k (h1 '\'' (by decide) (by decide))) ?_
  exact Fails.seq (pchar_fails_of_head (h1 '\'' (by decide) (by decide)))

theorem GoodK.step {k : Knot} {L : Nat} (hk : GoodK k L) : GoodK k.step (L + 1) where
  sound := hk.sound.step
  close := KClose.step k
  btstop := fun rest hr => base_fails_stop k hr
  td := fun _ hf hw hl _ hr => td_ok hk hf hw hl hr
  bt := fun _ hf hw hl _ hr => (atom_ok hk hf hw hl hr).1
  bare := fun _ hf hw h2 hl _ hr => bare_ok hk hf hw h2 hl hr

theorem lvA_pos (t : Ty) : 1 ≤ t.lvA := by
  cases t with
  | ident n args => simp only [Ty.lvA]; split <;> omega
  | proc a r => cases r <;> simp [Ty.lvA]
  | _ => simp [Ty.lvA]

theorem lvT_pos {t : Ty} (hw : t.wf = true) : 1 ≤ t.lvT := by
  cases t with
  | func i o => simp only [Ty.lvT]; have := lvA_pos i; omega
  | inter ts =>
    simp only [Ty.wf, Bool.and_eq_true, decide_eq_true_eq] at hw
    cases ts with
    | nil => simp at hw
    | cons a as => simp only [Ty.lvT, Ty.lvM, Ty.lvAList]; have := lvA_pos a; omega
  | ident n args =>
    cases args with
    | nil => simp [Ty.lvT, Ty.lvM]
    | cons a as => simp only [Ty.lvT, Ty.lvM]; exact lvA_pos _
  | _ => simp only [Ty.lvT, Ty.lvM]; exact lvA_pos _

/-- the knot with fuel `L + 1` reads back everything of nesting level `≤ L` -/
theorem knot_good (L : Nat) : GoodK (knot (L + 1)) L := by
  induction L with
  | zero =>
    refine ⟨knot_sound 1, KClose.step (knot 0), fun rest hr => base_fails_stop (knot 0) hr, ?_, ?_, ?_⟩
    · intro t _ hw hl; have := lvT_pos hw; omega
    · intro t _ _ hl; have := lvA_pos t; omega
    · intro ts _ _ h2 hl
      cases ts with
      | nil => simp at h2
      | cons m ms => simp only [Ty.lvAList] at hl; have := lvA_pos m; omega
  | succ L ih => exact ih.step

/-! ### The fragment is everything -/

mutual
theorem Ty.frag_all : (t : Ty) → t.frag = true
  | .prim _ => rfl
  | .tuple _ fs _ => by simp only [Ty.frag]; exact Field.fragList_all fs
  | .func i o => by simp only [Ty.frag, Bool.and_eq_true]; exact ⟨Ty.frag_all i, Ty.frag_all o⟩
  | .union ts => by simp only [Ty.frag]; exact Ty.fragList_all ts
  | .inter ts => by simp only [Ty.frag]; exact Ty.fragList_all ts
  | .ident _ args => by simp only [Ty.frag]; exact Ty.fragList_all args
  | .cycle _ => rfl
  | .proc a r => by
    simp only [Ty.frag, Bool.and_eq_true]; exact ⟨Ty.fragOpt_all a, Ty.fragOpt_all r⟩
  | .resource _ => rfl
  | .modty _ _ args => by simp only [Ty.frag]; exact Ty.fragList_all args
  | .selfDefault args => by simp only [Ty.frag]; exact Ty.fragList_all args
theorem Ty.fragList_all : (ts : List Ty) → Ty.fragList ts = true
  | [] => rfl
  | t :: ts => by
    simp only [Ty.fragList, Bool.and_eq_true]; exact ⟨Ty.frag_all t, Ty.fragList_all ts⟩
theorem Ty.fragOpt_all : (o : Option Ty) → Ty.fragOpt o = true
  | none => rfl
  | some t => by simp only [Ty.fragOpt]; exact Ty.frag_all t
theorem Field.frag_all : (f : Field) → f.frag = true
  | .field _ t => by simp only [Field.frag]; exact Ty.frag_all t
  | .spread _ args => by simp only [Field.frag]; exact Ty.fragList_all args
theorem Field.fragList_all : (fs : List Field) → Field.fragList fs = true
  | [] => rfl
  | f :: fs => by
    simp only [Field.fragList, Bool.and_eq_true]; exact ⟨Field.frag_all f, Field.fragList_all fs⟩
end

end QM.Parse
