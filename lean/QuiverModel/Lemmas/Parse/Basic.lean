/-
M-Parse lemmas, part 1 — compositional properties of the nom-style combinators of
`Core/Parse/Type.lean`:

* `Sound p`  : whatever `p` returns (remaining input of a success, position of an error) is a SUFFIX
               of its input;
* `Strict p` : a success consumed at least one character;
* `NoOut p`  : `p` never runs out of fuel;
* `Tot m p`  : `p` does not run out of fuel on inputs shorter than `m`;
* `PLe p p'` : wherever `p` has an answer (not `out`), `p'` has the same answer.

Each comes with one closure lemma per combinator, so the property of a grammar function follows the
shape of its definition (`Lemmas/Parse/Grammar.lean`).
-/
import QuiverModel.Core.Parse.Type
namespace QM.Parse

/-! ### Suffixes -/

def Res.Within {α : Type} (i : Str) : Res α → Prop
  | .ok _ r => r <:+ i
  | .err e _ => e <:+ i
  | .out => True

def Res.StrictIn {α : Type} (i : Str) : Res α → Prop
  | .ok _ r => r.length < i.length
  | _ => True

def Sound {α : Type} (p : P α) : Prop := ∀ i, (p i).Within i
def Strict {α : Type} (p : P α) : Prop := ∀ i, (p i).StrictIn i

theorem Res.Within.mono {α : Type} {i j : Str} {r : Res α} (h : j <:+ i) (hr : r.Within j) :
    r.Within i := by
  cases r with
  | ok a r => exact List.IsSuffix.trans hr h
  | err e c => exact List.IsSuffix.trans hr h
  | out => trivial

theorem Sound.ok {α : Type} {p : P α} (h : Sound p) {i : Str} {a : α} {r : Str}
    (e : p i = .ok a r) : r <:+ i := by
  have := h i; rw [e] at this; exact this

theorem Sound.err {α : Type} {p : P α} (h : Sound p) {i : Str} {x : Str} {c : Code}
    (e : p i = .err x c) : x <:+ i := by
  have := h i; rw [e] at this; exact this

theorem Strict.ok {α : Type} {p : P α} (h : Strict p) {i : Str} {a : α} {r : Str}
    (e : p i = .ok a r) : r.length < i.length := by
  have := h i; rw [e] at this; exact this

theorem Sound.bind {α β : Type} {p : P α} {q : α → P β} (hp : Sound p) (hq : ∀ a, Sound (q a)) :
    Sound (Parse.bind p q) := by
  intro i
  unfold QM.Parse.bind
  cases e : p i with
  | ok a r => exact Res.Within.mono (hp.ok e) (hq a r)
  | err x c => exact hp.err e
  | out => trivial

theorem Sound.seq {α β : Type} {p : P α} {q : P β} (hp : Sound p) (hq : Sound q) :
    Sound (Parse.seq p q) := Sound.bind hp (fun _ => hq)

theorem Sound.before {α β : Type} {p : P α} {q : P β} (hp : Sound p) (hq : Sound q) :
    Sound (Parse.before p q) := by
  intro i
  unfold QM.Parse.before
  cases e : p i with
  | ok a r =>
    try dsimp only at *
    cases e2 : q r with
    | ok b r' => exact List.IsSuffix.trans (hq.ok e2) (hp.ok e)
    | err x c => exact List.IsSuffix.trans (hq.err e2) (hp.ok e)
    | out => trivial
  | err x c => exact hp.err e
  | out => trivial

theorem Sound.delimited {α β γ : Type} {o : P α} {p : P β} {c : P γ} (ho : Sound o) (hp : Sound p)
    (hc : Sound c) : Sound (Parse.delimited o p c) := Sound.seq ho (Sound.before hp hc)

theorem Sound.pmap {α β : Type} {p : P α} {f : α → β} (hp : Sound p) : Sound (Parse.pmap p f) := by
  intro i
  unfold QM.Parse.pmap
  cases e : p i with
  | ok a r => exact hp.ok e
  | err x c => exact hp.err e
  | out => trivial

theorem Sound.void {α : Type} {p : P α} (hp : Sound p) : Sound (Parse.void p) := Sound.pmap hp

theorem Sound.alt {α : Type} {p q : P α} (hp : Sound p) (hq : Sound q) : Sound (Parse.alt p q) := by
  intro i
  unfold QM.Parse.alt
  cases e : p i with
  | ok a r => exact hp.ok e
  | err x c => exact hq i
  | out => trivial

theorem Sound.opt {α : Type} {p : P α} (hp : Sound p) : Sound (Parse.opt p) := by
  intro i
  unfold QM.Parse.opt
  cases e : p i with
  | ok a r => exact hp.ok e
  | err x c => exact List.suffix_refl i
  | out => trivial

theorem Sound.verify {α : Type} {p : P α} {f : α → Bool} (hp : Sound p) : Sound (Parse.verify p f) := by
  intro i
  unfold QM.Parse.verify
  cases e : p i with
  | ok a r =>
    try dsimp only at *
    by_cases h : f a = true
    · simp only [h, if_true]; exact hp.ok e
    · simp only [h]; exact List.suffix_refl i
  | err x c => exact hp.err e
  | out => trivial

theorem Sound.peekNot {α : Type} (p : P α) : Sound (Parse.peekNot p) := by
  intro i
  unfold QM.Parse.peekNot
  cases e : p i with
  | ok a r => exact List.suffix_refl i
  | err x c => exact List.suffix_refl i
  | out => trivial

theorem Sound.pchar (c : Char) : Sound (Parse.pchar c) := by
  intro i
  unfold QM.Parse.pchar
  cases i with
  | nil => exact List.suffix_refl _
  | cons d r =>
    by_cases h : d = c
    · simp only [h, if_true]; exact List.suffix_cons c r
    · simp only [h, if_false]; exact List.suffix_refl _

theorem Sound.ptag (s : Str) : Sound (Parse.ptag s) := by
  intro i
  unfold QM.Parse.ptag
  by_cases h : isPrefix s i = true
  · simp only [h, if_true]; exact List.drop_suffix _ _
  · simp only [h]; exact List.suffix_refl _

theorem many0Loop_sound {α : Type} {p : P α} (hp : Sound p) (n : Nat) : Sound (many0Loop p n) := by
  induction n with
  | zero => intro i; simp [many0Loop, Res.Within]
  | succ n ih =>
    intro i
    simp only [many0Loop]
    cases e : p i with
    | ok a r =>
      try dsimp only at *
      by_cases hl : r.length = i.length
      · simp only [hl, if_true]; exact List.suffix_refl _
      · simp only [hl, if_false]
        have := ih r
        cases e2 : many0Loop p n r with
        | ok as r' => rw [e2] at this; exact List.IsSuffix.trans this (hp.ok e)
        | err x c => rw [e2] at this; exact List.IsSuffix.trans this (hp.ok e)
        | out => trivial
    | err x c => exact List.suffix_refl _
    | out => trivial

theorem Sound.many0 {α : Type} {p : P α} (hp : Sound p) : Sound (Parse.many0 p) :=
  fun i => many0Loop_sound hp _ i

theorem sepLoop_sound {α β : Type} {sep : P β} {p : P α} (hs : Sound sep) (hp : Sound p) (n : Nat) :
    Sound (sepLoop sep p n) := by
  induction n with
  | zero => intro i; simp [sepLoop, Res.Within]
  | succ n ih =>
    intro i
    simp only [sepLoop]
    cases e : sep i with
    | ok b i1 =>
      try dsimp only at *
      by_cases hl : i1.length = i.length
      · simp only [hl, if_true]; exact hs.ok e
      · simp only [hl, if_false]
        cases e1 : p i1 with
        | ok a i2 =>
          try dsimp only at *
          have := ih i2
          have h2 : i2 <:+ i := List.IsSuffix.trans (hp.ok e1) (hs.ok e)
          cases e2 : sepLoop sep p n i2 with
          | ok as r' => rw [e2] at this; exact List.IsSuffix.trans this h2
          | err x c => rw [e2] at this; exact List.IsSuffix.trans this h2
          | out => trivial
        | err x c => exact List.suffix_refl _
        | out => trivial
    | err x c => exact List.suffix_refl _
    | out => trivial

theorem Sound.sepList1 {α β : Type} {sep : P β} {p : P α} (hs : Sound sep) (hp : Sound p) :
    Sound (Parse.sepList1 sep p) := by
  intro i
  unfold QM.Parse.sepList1
  cases e : p i with
  | ok a r =>
    try dsimp only at *
    have := sepLoop_sound hs hp (r.length + 1) r
    cases e2 : sepLoop sep p (r.length + 1) r with
    | ok as r' => rw [e2] at this; exact List.IsSuffix.trans this (hp.ok e)
    | err x c => rw [e2] at this; exact List.IsSuffix.trans this (hp.ok e)
    | out => trivial
  | err x c => exact hp.err e
  | out => trivial

theorem Sound.sepList0 {α β : Type} {sep : P β} {p : P α} (hs : Sound sep) (hp : Sound p) :
    Sound (Parse.sepList0 sep p) := by
  intro i
  unfold QM.Parse.sepList0
  cases e : p i with
  | ok a r =>
    try dsimp only at *
    have := sepLoop_sound hs hp (r.length + 1) r
    cases e2 : sepLoop sep p (r.length + 1) r with
    | ok as r' => rw [e2] at this; exact List.IsSuffix.trans this (hp.ok e)
    | err x c => rw [e2] at this; exact List.IsSuffix.trans this (hp.ok e)
    | out => trivial
  | err x c => exact List.suffix_refl _
  | out => trivial

/-! ### Strictness -/

theorem Strict.bind_left {α β : Type} {p : P α} {q : α → P β} (hp : Strict p)
    (hq : ∀ a, Sound (q a)) : Strict (Parse.bind p q) := by
  intro i
  unfold QM.Parse.bind
  cases e : p i with
  | ok a r =>
    try dsimp only at *
    have h1 := hp.ok e
    cases e2 : q a r with
    | ok b r' =>
      have := ((hq a).ok e2).length_le
      show r'.length < i.length
      omega
    | err x c => trivial
    | out => trivial
  | err x c => trivial
  | out => trivial

theorem Strict.bind_right {α β : Type} {p : P α} {q : α → P β} (hp : Sound p)
    (hq : ∀ a, Strict (q a)) : Strict (Parse.bind p q) := by
  intro i
  unfold QM.Parse.bind
  cases e : p i with
  | ok a r =>
    try dsimp only at *
    have h1 := (hp.ok e).length_le
    cases e2 : q a r with
    | ok b r' =>
      have := (hq a).ok e2
      show r'.length < i.length
      omega
    | err x c => trivial
    | out => trivial
  | err x c => trivial
  | out => trivial

theorem Strict.seq_left {α β : Type} {p : P α} {q : P β} (hp : Strict p) (hq : Sound q) :
    Strict (Parse.seq p q) := Strict.bind_left hp (fun _ => hq)

theorem Strict.seq_right {α β : Type} {p : P α} {q : P β} (hp : Sound p) (hq : Strict q) :
    Strict (Parse.seq p q) := Strict.bind_right hp (fun _ => hq)

theorem Strict.before_left {α β : Type} {p : P α} {q : P β} (hp : Strict p) (hq : Sound q) :
    Strict (Parse.before p q) := by
  intro i
  unfold QM.Parse.before
  cases e : p i with
  | ok a r =>
    try dsimp only at *
    have h1 := hp.ok e
    cases e2 : q r with
    | ok b r' =>
      have := (hq.ok e2).length_le
      show r'.length < i.length
      omega
    | err x c => trivial
    | out => trivial
  | err x c => trivial
  | out => trivial

theorem Strict.delimited {α β γ : Type} {o : P α} {p : P β} {c : P γ} (ho : Strict o) (hp : Sound p)
    (hc : Sound c) : Strict (Parse.delimited o p c) := Strict.seq_left ho (Sound.before hp hc)

theorem Strict.pmap {α β : Type} {p : P α} {f : α → β} (hp : Strict p) : Strict (Parse.pmap p f) := by
  intro i
  unfold QM.Parse.pmap
  cases e : p i with
  | ok a r => exact hp.ok e
  | err x c => trivial
  | out => trivial

theorem Strict.alt {α : Type} {p q : P α} (hp : Strict p) (hq : Strict q) : Strict (Parse.alt p q) := by
  intro i
  unfold QM.Parse.alt
  cases e : p i with
  | ok a r => exact hp.ok e
  | err x c => exact hq i
  | out => trivial

theorem Strict.verify {α : Type} {p : P α} {f : α → Bool} (hp : Strict p) : Strict (Parse.verify p f) := by
  intro i
  unfold QM.Parse.verify
  cases e : p i with
  | ok a r =>
    try dsimp only at *
    by_cases h : f a = true
    · simp only [h, if_true]; exact hp.ok e
    · simp only [h]; trivial
  | err x c => trivial
  | out => trivial

theorem Strict.pchar (c : Char) : Strict (Parse.pchar c) := by
  intro i
  unfold QM.Parse.pchar
  cases i with
  | nil => trivial
  | cons d r =>
    by_cases h : d = c
    · simp only [h, if_true]; show r.length < (c :: r).length; simp
    · simp only [h, if_false]; trivial

theorem isPrefix_length {s i : Str} (h : isPrefix s i = true) : s.length ≤ i.length := by
  induction s generalizing i with
  | nil => simp
  | cons a as ih =>
    cases i with
    | nil => simp [isPrefix] at h
    | cons b bs =>
      simp only [isPrefix, Bool.and_eq_true] at h
      have := ih h.2
      simp; omega

theorem Strict.ptag {s : Str} (hs : s ≠ []) : Strict (Parse.ptag s) := by
  intro i
  unfold QM.Parse.ptag
  by_cases h : isPrefix s i = true
  · simp only [h, if_true]
    show (i.drop s.length).length < i.length
    have := isPrefix_length h
    have : 0 < s.length := List.length_pos_iff.mpr hs
    simp; omega
  · simp only [h]; trivial

/-! ### Fuel: never out / not out below a length / monotone -/

def NoOut {α : Type} (p : P α) : Prop := ∀ i, p i ≠ .out
def Tot {α : Type} (m : Nat) (p : P α) : Prop := ∀ i, i.length < m → p i ≠ .out
def PLe {α : Type} (p p' : P α) : Prop := ∀ i, p i ≠ .out → p' i = p i

theorem NoOut.tot {α : Type} {p : P α} (h : NoOut p) (m : Nat) : Tot m p := fun i _ => h i
theorem Tot.weaken {α : Type} {p : P α} {m : Nat} (h : Tot (m + 1) p) : Tot m p :=
  fun i hi => h i (by omega)
theorem PLe.refl {α : Type} (p : P α) : PLe p p := fun _ _ => rfl

theorem Tot.bind {α β : Type} {m : Nat} {p : P α} {q : α → P β} (sp : Sound p) (hp : Tot m p)
    (hq : ∀ a, Tot m (q a)) : Tot m (Parse.bind p q) := by
  intro i hi
  unfold QM.Parse.bind
  cases e : p i with
  | ok a r => exact hq a r (by have := (sp.ok e).length_le; omega)
  | err x c => simp
  | out => exact absurd e (hp i hi)

/-- after a strict prefix the continuation only needs to be total one level below -/
theorem Tot.bind_strict {α β : Type} {m : Nat} {p : P α} {q : α → P β} (sp : Strict p)
    (hp : Tot (m + 1) p) (hq : ∀ a, Tot m (q a)) : Tot (m + 1) (Parse.bind p q) := by
  intro i hi
  unfold QM.Parse.bind
  cases e : p i with
  | ok a r => exact hq a r (by have := sp.ok e; omega)
  | err x c => simp
  | out => exact absurd e (hp i hi)

theorem Tot.seq {α β : Type} {m : Nat} {p : P α} {q : P β} (sp : Sound p) (hp : Tot m p)
    (hq : Tot m q) : Tot m (Parse.seq p q) := Tot.bind sp hp (fun _ => hq)

theorem Tot.seq_strict {α β : Type} {m : Nat} {p : P α} {q : P β} (sp : Strict p)
    (hp : Tot (m + 1) p) (hq : Tot m q) : Tot (m + 1) (Parse.seq p q) := Tot.bind_strict sp hp (fun _ => hq)

theorem Tot.before {α β : Type} {m : Nat} {p : P α} {q : P β} (sp : Sound p) (hp : Tot m p)
    (hq : Tot m q) : Tot m (Parse.before p q) := by
  intro i hi
  unfold QM.Parse.before
  cases e : p i with
  | ok a r =>
    try dsimp only at *
    have := hq r (by have := (sp.ok e).length_le; omega)
    cases e2 : q r with
    | ok b r' => simp
    | err x c => simp
    | out => exact absurd e2 this
  | err x c => simp
  | out => exact absurd e (hp i hi)

theorem Tot.delimited {α β γ : Type} {m : Nat} {o : P α} {p : P β} {c : P γ} (so : Sound o)
    (sp : Sound p) (ho : Tot m o) (hp : Tot m p) (hc : Tot m c) : Tot m (Parse.delimited o p c) :=
  Tot.seq so ho (Tot.before sp hp hc)

theorem Tot.delimited_strict {α β γ : Type} {m : Nat} {o : P α} {p : P β} {c : P γ} (so : Strict o)
    (sp : Sound p) (ho : Tot (m + 1) o) (hp : Tot m p) (hc : Tot m c) :
    Tot (m + 1) (Parse.delimited o p c) :=
  Tot.seq_strict so ho (Tot.before sp hp hc)

theorem Tot.pmap {α β : Type} {m : Nat} {p : P α} {f : α → β} (hp : Tot m p) : Tot m (Parse.pmap p f) := by
  intro i hi
  unfold QM.Parse.pmap
  cases e : p i with
  | ok a r => simp
  | err x c => simp
  | out => exact absurd e (hp i hi)

theorem Tot.alt {α : Type} {m : Nat} {p q : P α} (hp : Tot m p) (hq : Tot m q) : Tot m (Parse.alt p q) := by
  intro i hi
  unfold QM.Parse.alt
  cases e : p i with
  | ok a r => simp
  | err x c => exact hq i hi
  | out => exact absurd e (hp i hi)

theorem Tot.opt {α : Type} {m : Nat} {p : P α} (hp : Tot m p) : Tot m (Parse.opt p) := by
  intro i hi
  unfold QM.Parse.opt
  cases e : p i with
  | ok a r => simp
  | err x c => simp
  | out => exact absurd e (hp i hi)

theorem Tot.verify {α : Type} {m : Nat} {p : P α} {f : α → Bool} (hp : Tot m p) :
    Tot m (Parse.verify p f) := by
  intro i hi
  unfold QM.Parse.verify
  cases e : p i with
  | ok a r => by_cases h : f a = true <;> simp [h]
  | err x c => simp
  | out => exact absurd e (hp i hi)

theorem Tot.peekNot {α : Type} {m : Nat} {p : P α} (hp : Tot m p) : Tot m (Parse.peekNot p) := by
  intro i hi
  unfold QM.Parse.peekNot
  cases e : p i with
  | ok a r => simp
  | err x c => simp
  | out => exact absurd e (hp i hi)

theorem many0Loop_tot {α : Type} {m : Nat} {p : P α} (sp : Sound p) (hp : Tot m p) (n : Nat) :
    ∀ i, i.length < n → i.length < m → many0Loop p n i ≠ .out := by
  induction n with
  | zero => intro i h; omega
  | succ n ih =>
    intro i hn hm
    simp only [many0Loop]
    cases e : p i with
    | ok a r =>
      try dsimp only at *
      by_cases hl : r.length = i.length
      · simp [hl]
      · simp only [hl, if_false]
        have hle := (sp.ok e).length_le
        have := ih r (by omega) (by omega)
        cases e2 : many0Loop p n r with
        | ok as r' => simp
        | err x c => simp
        | out => exact absurd e2 this
    | err x c => simp
    | out => exact absurd e (hp i hm)

theorem Tot.many0 {α : Type} {m : Nat} {p : P α} (sp : Sound p) (hp : Tot m p) : Tot m (Parse.many0 p) :=
  fun i hi => many0Loop_tot sp hp _ i (by omega) hi

theorem sepLoop_tot {α β : Type} {m : Nat} {sep : P β} {p : P α} (ss : Sound sep) (sp : Sound p)
    (hs : Tot m sep) (hp : Tot m p) (n : Nat) :
    ∀ i, i.length < n → i.length < m → sepLoop sep p n i ≠ .out := by
  induction n with
  | zero => intro i h; omega
  | succ n ih =>
    intro i hn hm
    simp only [sepLoop]
    cases e : sep i with
    | ok b i1 =>
      try dsimp only at *
      by_cases hl : i1.length = i.length
      · simp [hl]
      · simp only [hl, if_false]
        have hle := (ss.ok e).length_le
        cases e1 : p i1 with
        | ok a i2 =>
          try dsimp only at *
          have hle2 := (sp.ok e1).length_le
          have := ih i2 (by omega) (by omega)
          cases e2 : sepLoop sep p n i2 with
          | ok as r' => simp
          | err x c => simp
          | out => exact absurd e2 this
        | err x c => simp
        | out => exact absurd e1 (hp i1 (by omega))
    | err x c => simp
    | out => exact absurd e (hs i hm)

theorem Tot.sepList1 {α β : Type} {m : Nat} {sep : P β} {p : P α} (ss : Sound sep) (sp : Sound p)
    (hs : Tot m sep) (hp : Tot m p) : Tot m (Parse.sepList1 sep p) := by
  intro i hi
  unfold QM.Parse.sepList1
  cases e : p i with
  | ok a r =>
    try dsimp only at *
    have hle := (sp.ok e).length_le
    have := sepLoop_tot ss sp hs hp (r.length + 1) r (by omega) (by omega)
    cases e2 : sepLoop sep p (r.length + 1) r with
    | ok as r' => simp
    | err x c => simp
    | out => exact absurd e2 this
  | err x c => simp
  | out => exact absurd e (hp i hi)

theorem Tot.sepList0 {α β : Type} {m : Nat} {sep : P β} {p : P α} (ss : Sound sep) (sp : Sound p)
    (hs : Tot m sep) (hp : Tot m p) : Tot m (Parse.sepList0 sep p) := by
  intro i hi
  unfold QM.Parse.sepList0
  cases e : p i with
  | ok a r =>
    try dsimp only at *
    have hle := (sp.ok e).length_le
    have := sepLoop_tot ss sp hs hp (r.length + 1) r (by omega) (by omega)
    cases e2 : sepLoop sep p (r.length + 1) r with
    | ok as r' => simp
    | err x c => simp
    | out => exact absurd e2 this
  | err x c => simp
  | out => exact absurd e (hp i hi)

/-! ### Monotonicity -/

theorem PLe.bind {α β : Type} {p p' : P α} {q q' : α → P β} (hp : PLe p p')
    (hq : ∀ a, PLe (q a) (q' a)) : PLe (Parse.bind p q) (Parse.bind p' q') := by
  intro i h
  unfold QM.Parse.bind at h ⊢
  cases e : p i with
  | ok a r =>
    try dsimp only at *
    rw [hp i (by rw [e]; simp), e]
    rw [e] at h
    try dsimp only at h ⊢
    exact hq a r h
  | err x c => rw [hp i (by rw [e]; simp), e]
  | out => rw [e] at h; exact absurd rfl h

theorem PLe.seq {α β : Type} {p p' : P α} {q q' : P β} (hp : PLe p p') (hq : PLe q q') :
    PLe (Parse.seq p q) (Parse.seq p' q') := PLe.bind hp (fun _ => hq)

theorem PLe.before {α β : Type} {p p' : P α} {q q' : P β} (hp : PLe p p') (hq : PLe q q') :
    PLe (Parse.before p q) (Parse.before p' q') := by
  intro i h
  unfold QM.Parse.before at h ⊢
  cases e : p i with
  | ok a r =>
    try dsimp only at *
    rw [hp i (by rw [e]; simp), e]
    rw [e] at h
    try dsimp only at h ⊢
    cases e2 : q r with
    | ok b r' => rw [hq r (by rw [e2]; simp), e2]
    | err x c => rw [hq r (by rw [e2]; simp), e2]
    | out => rw [e2] at h; exact absurd rfl h
  | err x c => rw [hp i (by rw [e]; simp), e]
  | out => rw [e] at h; exact absurd rfl h

theorem PLe.delimited {α β γ : Type} {o o' : P α} {p p' : P β} {c c' : P γ} (ho : PLe o o')
    (hp : PLe p p') (hc : PLe c c') : PLe (Parse.delimited o p c) (Parse.delimited o' p' c') :=
  PLe.seq ho (PLe.before hp hc)

theorem PLe.pmap {α β : Type} {p p' : P α} {f : α → β} (hp : PLe p p') :
    PLe (Parse.pmap p f) (Parse.pmap p' f) := by
  intro i h
  unfold QM.Parse.pmap at h ⊢
  cases e : p i with
  | ok a r => rw [hp i (by rw [e]; simp), e]
  | err x c => rw [hp i (by rw [e]; simp), e]
  | out => rw [e] at h; exact absurd rfl h

theorem PLe.alt {α : Type} {p p' q q' : P α} (hp : PLe p p') (hq : PLe q q') :
    PLe (Parse.alt p q) (Parse.alt p' q') := by
  intro i h
  unfold QM.Parse.alt at h ⊢
  cases e : p i with
  | ok a r => rw [hp i (by rw [e]; simp), e]
  | err x c =>
    rw [hp i (by rw [e]; simp), e]
    rw [e] at h
    try dsimp only at h ⊢
    exact hq i h
  | out => rw [e] at h; exact absurd rfl h

theorem PLe.opt {α : Type} {p p' : P α} (hp : PLe p p') : PLe (Parse.opt p) (Parse.opt p') := by
  intro i h
  unfold QM.Parse.opt at h ⊢
  cases e : p i with
  | ok a r => rw [hp i (by rw [e]; simp), e]
  | err x c => rw [hp i (by rw [e]; simp), e]
  | out => rw [e] at h; exact absurd rfl h

theorem PLe.verify {α : Type} {p p' : P α} {f : α → Bool} (hp : PLe p p') :
    PLe (Parse.verify p f) (Parse.verify p' f) := by
  intro i h
  unfold QM.Parse.verify at h ⊢
  cases e : p i with
  | ok a r => rw [hp i (by rw [e]; simp), e]
  | err x c => rw [hp i (by rw [e]; simp), e]
  | out => rw [e] at h; exact absurd rfl h

theorem PLe.peekNot {α : Type} {p p' : P α} (hp : PLe p p') : PLe (Parse.peekNot p) (Parse.peekNot p') := by
  intro i h
  unfold QM.Parse.peekNot at h ⊢
  cases e : p i with
  | ok a r => rw [hp i (by rw [e]; simp), e]
  | err x c => rw [hp i (by rw [e]; simp), e]
  | out => rw [e] at h; exact absurd rfl h

theorem many0Loop_ple {α : Type} {p p' : P α} (hp : PLe p p') (n : Nat) :
    PLe (many0Loop p n) (many0Loop p' n) := by
  induction n with
  | zero => intro i h; simp [many0Loop] at h
  | succ n ih =>
    intro i h
    simp only [many0Loop] at h ⊢
    cases e : p i with
    | ok a r =>
      try dsimp only at *
      rw [hp i (by rw [e]; simp), e]
      rw [e] at h
      try dsimp only at h ⊢
      by_cases hl : r.length = i.length
      · simp [hl]
      · simp only [hl, if_false] at h ⊢
        cases e2 : many0Loop p n r with
        | ok as r' => rw [ih r (by rw [e2]; simp), e2]
        | err x c => rw [ih r (by rw [e2]; simp), e2]
        | out => rw [e2] at h; exact absurd rfl h
    | err x c => rw [hp i (by rw [e]; simp), e]
    | out => rw [e] at h; exact absurd rfl h

theorem PLe.many0 {α : Type} {p p' : P α} (hp : PLe p p') : PLe (Parse.many0 p) (Parse.many0 p') :=
  fun i h => many0Loop_ple hp _ i h

theorem sepLoop_ple {α β : Type} {sep sep' : P β} {p p' : P α} (hs : PLe sep sep') (hp : PLe p p')
    (n : Nat) : PLe (sepLoop sep p n) (sepLoop sep' p' n) := by
  induction n with
  | zero => intro i h; simp [sepLoop] at h
  | succ n ih =>
    intro i h
    simp only [sepLoop] at h ⊢
    cases e : sep i with
    | ok b i1 =>
      try dsimp only at *
      rw [hs i (by rw [e]; simp), e]
      rw [e] at h
      try dsimp only at h ⊢
      by_cases hl : i1.length = i.length
      · simp [hl]
      · simp only [hl, if_false] at h ⊢
        cases e1 : p i1 with
        | ok a i2 =>
          try dsimp only at *
          rw [hp i1 (by rw [e1]; simp), e1]
          rw [e1] at h
          try dsimp only at h ⊢
          cases e2 : sepLoop sep p n i2 with
          | ok as r' => rw [ih i2 (by rw [e2]; simp), e2]
          | err x c => rw [ih i2 (by rw [e2]; simp), e2]
          | out => rw [e2] at h; exact absurd rfl h
        | err x c => rw [hp i1 (by rw [e1]; simp), e1]
        | out => rw [e1] at h; exact absurd rfl h
    | err x c => rw [hs i (by rw [e]; simp), e]
    | out => rw [e] at h; exact absurd rfl h

theorem PLe.sepList1 {α β : Type} {sep sep' : P β} {p p' : P α} (hs : PLe sep sep')
    (hp : PLe p p') : PLe (Parse.sepList1 sep p) (Parse.sepList1 sep' p') := by
  intro i h
  unfold QM.Parse.sepList1 at h ⊢
  cases e : p i with
  | ok a r =>
    try dsimp only at *
    rw [hp i (by rw [e]; simp), e]
    rw [e] at h
    try dsimp only at h ⊢
    cases e2 : sepLoop sep p (r.length + 1) r with
    | ok as r' => rw [sepLoop_ple hs hp _ r (by rw [e2]; simp), e2]
    | err x c => rw [sepLoop_ple hs hp _ r (by rw [e2]; simp), e2]
    | out => rw [e2] at h; exact absurd rfl h
  | err x c => rw [hp i (by rw [e]; simp), e]
  | out => rw [e] at h; exact absurd rfl h

theorem PLe.sepList0 {α β : Type} {sep sep' : P β} {p p' : P α} (hs : PLe sep sep')
    (hp : PLe p p') : PLe (Parse.sepList0 sep p) (Parse.sepList0 sep' p') := by
  intro i h
  unfold QM.Parse.sepList0 at h ⊢
  cases e : p i with
  | ok a r =>
    try dsimp only at *
    rw [hp i (by rw [e]; simp), e]
    rw [e] at h
    try dsimp only at h ⊢
    cases e2 : sepLoop sep p (r.length + 1) r with
    | ok as r' => rw [sepLoop_ple hs hp _ r (by rw [e2]; simp), e2]
    | err x c => rw [sepLoop_ple hs hp _ r (by rw [e2]; simp), e2]
    | out => rw [e2] at h; exact absurd rfl h
  | err x c => rw [hp i (by rw [e]; simp), e]
  | out => rw [e] at h; exact absurd rfl h

end QM.Parse
