/-
M-Parse lemmas, part 2 — the lexical parsers and every grammar function of `Core/Parse/Type.lean`
are `Sound` (results are suffixes of the input), the type parsers are `Strict` (consume at least one
character), fuel `length + 1` suffices (`knot_tot`) and more fuel never changes an answer
(`knot_mono`, `knot_mono_le`).
-/
import QuiverModel.Lemmas.Parse.Basic
namespace QM.Parse

/-! ### Lexical parsers -/

theorem Sound.ws0 : Sound ws0 := fun _ => List.dropWhile_suffix _

theorem Sound.ws1 : Sound ws1 := by
  intro i
  unfold QM.Parse.ws1
  cases i with
  | nil => exact List.suffix_refl _
  | cons c r =>
    by_cases h : isMultispace c = true
    · simp only [h, if_true]
      exact List.IsSuffix.trans (List.dropWhile_suffix _) (List.suffix_cons c r)
    · simp only [h]; exact List.suffix_refl _

theorem Strict.ws1 : Strict ws1 := by
  intro i
  unfold QM.Parse.ws1
  cases i with
  | nil => trivial
  | cons c r =>
    by_cases h : isMultispace c = true
    · simp only [h, if_true]
      show (r.dropWhile isMultispace).length < (c :: r).length
      have := (List.dropWhile_suffix (l := r) isMultispace).length_le
      simp; omega
    · simp only [h]; trivial

theorem skipWsc_suffix_aux (n : Nat) : ∀ (b : Bool) (i : Str), i.length ≤ n → skipWsc b i <:+ i := by
  induction n with
  | zero =>
    intro b i h
    have : i = [] := List.eq_nil_of_length_eq_zero (by omega)
    subst this; simp [skipWsc]
  | succ n ih =>
    intro b i h
    cases i with
    | nil => simp [skipWsc]
    | cons c r =>
      have hr : r.length ≤ n := by simp at h; omega
      unfold skipWsc
      split
      · split
        · exact List.IsSuffix.trans (ih _ r hr) (List.suffix_cons c r)
        · exact List.IsSuffix.trans (ih _ r hr) (List.suffix_cons c r)
      · split
        · exact List.IsSuffix.trans (ih _ r hr) (List.suffix_cons c r)
        · split
          · rename_i r' _
            have hr' : r'.length ≤ n := by simp at hr; omega
            exact List.IsSuffix.trans (ih _ r' hr')
              (List.IsSuffix.trans (List.suffix_cons '/' r') (List.suffix_cons '/' ('/' :: r')))
          · exact List.suffix_refl _

theorem skipWsc_suffix (b : Bool) (i : Str) : skipWsc b i <:+ i :=
  skipWsc_suffix_aux i.length b i (Nat.le_refl _)

theorem Sound.wsc : Sound wsc := fun i => skipWsc_suffix false i

theorem identifier_ok {i a r : Str} (h : identifier i = .ok a r) : i = a ++ r ∧ a ≠ [] := by
  unfold QM.Parse.identifier at h
  cases i with
  | nil => simp at h
  | cons c t =>
    by_cases hl : isLower c = true
    · simp only [hl, if_true] at h
      have htd : t.takeWhile isIdentBody ++ t.dropWhile isIdentBody = t :=
        List.takeWhile_append_dropWhile
      generalize t.dropWhile isIdentBody = r1 at h htd
      split at h
      · injection h with h1 h2; subst h1 h2
        exact ⟨by simpa using htd.symm, by simp⟩
      · injection h with h1 h2; subst h1 h2
        exact ⟨by simpa using htd.symm, by simp⟩
      · injection h with h1 h2; subst h1 h2
        exact ⟨by simpa using htd.symm, by simp⟩
      · injection h with h1 h2; subst h1 h2
        exact ⟨by simpa using htd.symm, by simp⟩
    · simp [hl] at h

theorem identifier_err {i e : Str} {c : Code} (h : identifier i = .err e c) : e = i := by
  unfold QM.Parse.identifier at h
  cases i with
  | nil => simp at h; exact h.1
  | cons d t =>
    by_cases hl : isLower d = true
    · simp only [hl, if_true] at h
      split at h <;> simp at h
    · simp [hl] at h; exact h.1.symm
theorem Sound.identifier : Sound identifier := by
  intro i
  cases h : QM.Parse.identifier i with
  | ok a r => rw [(identifier_ok h).1]; exact List.suffix_append a r
  | err e c => rw [identifier_err h]; exact List.suffix_refl _
  | out => trivial

theorem Strict.identifier : Strict identifier := by
  intro i
  cases h : QM.Parse.identifier i with
  | ok a r =>
    obtain ⟨h1, h2⟩ := identifier_ok h
    show r.length < i.length
    have : 0 < a.length := List.length_pos_iff.mpr h2
    rw [h1]; simp; omega
  | err e c => trivial
  | out => trivial

theorem Sound.tupleName : Sound tupleName := by
  intro i
  unfold QM.Parse.tupleName
  cases i with
  | nil => exact List.suffix_refl _
  | cons c r =>
    by_cases h : isUpper c = true
    · simp only [h, if_true]
      exact List.IsSuffix.trans (List.dropWhile_suffix _) (List.suffix_cons c r)
    · simp only [h]; exact List.suffix_refl _

theorem Strict.tupleName : Strict tupleName := by
  intro i
  unfold QM.Parse.tupleName
  cases i with
  | nil => trivial
  | cons c r =>
    by_cases h : isUpper c = true
    · simp only [h, if_true]
      show (r.dropWhile isIdentBody).length < (c :: r).length
      have := (List.dropWhile_suffix (l := r) isIdentBody).length_le
      simp; omega
    · simp only [h]; trivial

theorem Sound.usize : Sound usize := by
  intro i
  unfold QM.Parse.usize
  simp only
  split
  · exact List.suffix_refl _
  · split
    · exact List.dropWhile_suffix _
    · exact List.suffix_refl _

theorem NoOut.pchar (c : Char) : NoOut (pchar c) := by
  intro i; unfold QM.Parse.pchar; cases i with
  | nil => simp
  | cons d r => by_cases h : d = c <;> simp [h]
theorem NoOut.ptag (s : Str) : NoOut (ptag s) := by
  intro i; unfold QM.Parse.ptag; by_cases h : isPrefix s i = true <;> simp [h]
theorem NoOut.ws0 : NoOut ws0 := by intro i; simp [QM.Parse.ws0]
theorem NoOut.ws1 : NoOut ws1 := by
  intro i; unfold QM.Parse.ws1; cases i with
  | nil => simp
  | cons c r => by_cases h : isMultispace c = true <;> simp [h]
theorem NoOut.wsc : NoOut wsc := by intro i; simp [QM.Parse.wsc]
theorem NoOut.identifier : NoOut identifier := by
  intro i; unfold QM.Parse.identifier; cases i with
  | nil => simp
  | cons c r =>
    by_cases h : isLower c = true
    · simp only [h, if_true]; split <;> simp
    · simp [h]
theorem NoOut.tupleName : NoOut tupleName := by
  intro i; unfold QM.Parse.tupleName; cases i with
  | nil => simp
  | cons c r => by_cases h : isUpper c = true <;> simp [h]
theorem NoOut.usize : NoOut usize := by
  intro i; unfold QM.Parse.usize; simp only; split
  · simp
  · split <;> simp

/-- closes `Sound` goals by following the combinators -/
macro "sound_tac" : tactic => `(tactic|
  repeat (with_reducible first
    | assumption
    | exact Sound.pchar _ | exact Sound.ptag _ | exact Sound.ws0 | exact Sound.ws1 | exact Sound.wsc
    | exact Sound.identifier | exact Sound.tupleName | exact Sound.usize | exact Sound.peekNot _
    | apply Sound.bind | apply Sound.seq | apply Sound.before | apply Sound.delimited
    | apply Sound.pmap | apply Sound.void | apply Sound.alt | apply Sound.opt | apply Sound.verify
    | apply Sound.many0 | apply Sound.sepList1 | apply Sound.sepList0
    | intro _))

/-- closes `Tot m` goals of parsers that contain no knot call -/
macro "noout_tac" : tactic => `(tactic|
  repeat (with_reducible first
    | assumption
    | exact NoOut.tot (NoOut.pchar _) _ | exact NoOut.tot (NoOut.ptag _) _
    | exact NoOut.tot NoOut.ws0 _ | exact NoOut.tot NoOut.ws1 _ | exact NoOut.tot NoOut.wsc _
    | exact NoOut.tot NoOut.identifier _ | exact NoOut.tot NoOut.tupleName _
    | exact NoOut.tot NoOut.usize _
    | exact Sound.pchar _ | exact Sound.ptag _ | exact Sound.ws0 | exact Sound.ws1 | exact Sound.wsc
    | exact Sound.identifier | exact Sound.tupleName | exact Sound.usize
    | apply Tot.bind | apply Tot.seq | apply Tot.before | apply Tot.delimited
    | apply Tot.pmap | apply Tot.alt | apply Tot.opt | apply Tot.verify | apply Tot.peekNot
    | apply Tot.many0 | apply Tot.sepList1 | apply Tot.sepList0
    | apply Sound.bind | apply Sound.seq | apply Sound.before | apply Sound.delimited
    | apply Sound.pmap | apply Sound.alt | apply Sound.opt | apply Sound.verify
    | apply Sound.many0 | apply Sound.sepList1 | apply Sound.sepList0
    | intro _))

theorem Sound.typeName : Sound typeName := by unfold QM.Parse.typeName; sound_tac
theorem Strict.typeName : Strict typeName := Strict.seq_left (Strict.pchar _) Sound.identifier
theorem Sound.importPath : Sound importPath := by unfold QM.Parse.importPath; sound_tac
theorem Sound.commaWs0 : Sound commaWs0 := by unfold QM.Parse.commaWs0; sound_tac
theorem Sound.commaWsc : Sound commaWsc := by unfold QM.Parse.commaWsc; sound_tac
theorem Sound.arrow : Sound arrow := by unfold QM.Parse.arrow; sound_tac
theorem Sound.barOp (c : Char) : Sound (barOp c) := by unfold QM.Parse.barOp; sound_tac
theorem Sound.resourceType : Sound resourceType := by unfold QM.Parse.resourceType; sound_tac
theorem Sound.typeCycle : Sound typeCycle := by unfold QM.Parse.typeCycle; sound_tac
theorem Sound.typeParameter : Sound typeParameter := by
  unfold QM.Parse.typeParameter; have := Sound.typeName; sound_tac

theorem Strict.commaWs0 : Strict commaWs0 :=
  Strict.seq_right Sound.ws0 (Strict.seq_left (Strict.pchar _) Sound.ws0)
theorem Strict.commaWsc : Strict commaWsc :=
  Strict.seq_right Sound.wsc (Strict.seq_left (Strict.pchar _) Sound.wsc)
theorem Strict.barOp (c : Char) : Strict (barOp c) :=
  Strict.seq_right Sound.wsc (Strict.seq_left (Strict.pchar _) Sound.wsc)
theorem Strict.resourceType : Strict resourceType :=
  Strict.pmap (Strict.seq_left (Strict.pchar _) Sound.tupleName)
theorem Strict.typeCycle : Strict typeCycle :=
  Strict.seq_left (Strict.pchar _) (Sound.pmap (Sound.opt Sound.usize))
theorem Strict.typeParameter : Strict typeParameter :=
  Strict.pmap (Strict.delimited (Strict.pchar _) Sound.typeName (Sound.pchar _))

theorem Tot.typeName (m : Nat) : Tot m typeName := by unfold QM.Parse.typeName; noout_tac
theorem Tot.importPath (m : Nat) : Tot m importPath := by unfold QM.Parse.importPath; noout_tac
theorem Tot.commaWs0 (m : Nat) : Tot m commaWs0 := by unfold QM.Parse.commaWs0; noout_tac
theorem Tot.commaWsc (m : Nat) : Tot m commaWsc := by unfold QM.Parse.commaWsc; noout_tac
theorem Tot.arrow (m : Nat) : Tot m arrow := by unfold QM.Parse.arrow; noout_tac
theorem Tot.barOp (m : Nat) (c : Char) : Tot m (barOp c) := by unfold QM.Parse.barOp; noout_tac
theorem Tot.resourceType (m : Nat) : Tot m resourceType := by
  unfold QM.Parse.resourceType; noout_tac
theorem Tot.typeCycle (m : Nat) : Tot m typeCycle := by unfold QM.Parse.typeCycle; noout_tac
theorem Tot.typeParameter (m : Nat) : Tot m typeParameter := by
  unfold QM.Parse.typeParameter
  have := Tot.typeName m; have := Sound.typeName
  noout_tac

/-! ### The knot: soundness -/

def KSound (k : Knot) : Prop := Sound k.td ∧ Sound k.bt

section
variable {k : Knot} (hk : KSound k)
include hk

theorem typeArgs_sound : Sound (typeArgs k) := by
  unfold typeArgs; have := hk.1; have := Sound.commaWs0; sound_tac
theorem optArgs_sound : Sound (optArgs k) := by
  unfold optArgs; have := typeArgs_sound hk; sound_tac
theorem fieldType_sound : Sound (fieldType k) := by
  unfold fieldType
  have := hk.1; have := typeArgs_sound hk; have := Sound.typeName
  sound_tac
theorem fieldTypeList_sound : Sound (fieldTypeList k) := by
  unfold fieldTypeList; have := fieldType_sound hk; have := Sound.commaWsc; sound_tac
theorem fieldsIn_sound (o c : Char) : Sound (fieldsIn o c k) := by
  unfold fieldsIn; have := fieldTypeList_sound hk; sound_tac
theorem partialType_sound : Sound (partialType k) := by
  unfold partialType; have := fieldsIn_sound hk '(' ')'; sound_tac
theorem tupleType_sound : Sound (tupleType k) := by
  unfold tupleType; have := fieldsIn_sound hk '[' ']'; have := Sound.typeName; sound_tac
theorem selfDefaultType_sound : Sound (selfDefaultType k) := by
  unfold selfDefaultType; have := optArgs_sound hk; sound_tac
theorem moduleType_sound : Sound (moduleType k) := by
  unfold moduleType; have := optArgs_sound hk; have := Sound.importPath; sound_tac
theorem typeIdentifier_sound : Sound (typeIdentifier k) := by
  unfold typeIdentifier; have := typeArgs_sound hk; have := Sound.typeName; sound_tac
theorem processType_sound : Sound (processType k) := by
  unfold processType; have := hk.2; have := Sound.arrow; sound_tac
theorem groupType_sound : Sound (groupType k) := by
  unfold groupType; have := hk.1; sound_tac
theorem functionIoType_sound : Sound (functionIoType k) := by
  unfold functionIoType
  have := partialType_sound hk; have := groupType_sound hk; have := tupleType_sound hk
  have := Sound.resourceType; have := Sound.typeCycle; have := processType_sound hk
  have := moduleType_sound hk; have := typeIdentifier_sound hk; have := selfDefaultType_sound hk
  sound_tac
theorem functionType_sound : Sound (functionType k) := by
  unfold functionType; have := functionIoType_sound hk; have := Sound.arrow; sound_tac
theorem baseTypeWith_sound : Sound (baseTypeWith k) := by
  unfold baseTypeWith
  have := partialType_sound hk; have := groupType_sound hk; have := tupleType_sound hk
  have := Sound.resourceType; have := Sound.typeCycle; have := processType_sound hk
  have := moduleType_sound hk; have := typeIdentifier_sound hk; have := selfDefaultType_sound hk
  have := Sound.typeParameter
  sound_tac
end

theorem intersectionType_sound {bt : P Ty} (hb : Sound bt) : Sound (intersectionType bt) := by
  unfold intersectionType; have := Sound.barOp '&'; sound_tac

theorem typeDefinitionWith_sound {k : Knot} (hk : KSound k) {bt : P Ty} (hb : Sound bt) :
    Sound (typeDefinitionWith k bt) := by
  unfold typeDefinitionWith
  have := functionType_sound hk; have := intersectionType_sound hb; have := Sound.barOp '|'
  sound_tac

theorem KSound.step {k : Knot} (hk : KSound k) : KSound k.step :=
  ⟨typeDefinitionWith_sound hk (baseTypeWith_sound hk), baseTypeWith_sound hk⟩

theorem knot_sound (n : Nat) : KSound (knot n) := by
  induction n with
  | zero => exact ⟨fun _ => trivial, fun _ => trivial⟩
  | succ n ih => exact ih.step

/-! ### The knot: strictness (a type is never empty) -/

def KStrict (k : Knot) : Prop := Strict k.td ∧ Strict k.bt

section
variable {k : Knot} (hk : KSound k)
include hk

theorem fieldsIn_strict (o c : Char) : Strict (fieldsIn o c k) :=
  Strict.delimited (Strict.seq_left (Strict.pchar _) Sound.wsc) (fieldTypeList_sound hk)
    (Sound.seq Sound.wsc (Sound.pchar _))

theorem partialType_strict : Strict (partialType k) := by
  unfold partialType
  exact Strict.alt
    (Strict.bind_left Strict.tupleName (fun _ => Sound.pmap (fieldsIn_sound hk _ _)))
    (Strict.verify (Strict.pmap (fieldsIn_strict hk _ _)))

theorem tupleType_strict : Strict (tupleType k) := by
  unfold tupleType
  exact Strict.alt
    (Strict.bind_left Strict.tupleName (fun _ => Sound.pmap (fieldsIn_sound hk _ _)))
    (Strict.alt
      (Strict.verify (Strict.bind_left Strict.typeName (fun _ => Sound.pmap (fieldsIn_sound hk _ _))))
      (Strict.alt (Strict.pmap (fieldsIn_strict hk _ _))
        (Strict.bind_left Strict.tupleName (fun _ => Sound.pmap (Sound.peekNot _)))))

theorem selfDefaultType_strict : Strict (selfDefaultType k) :=
  Strict.seq_left (Strict.pchar _) (Sound.pmap (optArgs_sound hk))

theorem moduleType_strict : Strict (moduleType k) := by
  unfold moduleType
  exact Strict.seq_left (Strict.pchar _)
    (Sound.bind Sound.importPath (fun _ => Sound.bind
      (Sound.opt (Sound.seq (Sound.pchar _) Sound.identifier)) (fun _ => Sound.pmap (optArgs_sound hk))))

theorem typeIdentifier_strict : Strict (typeIdentifier k) :=
  Strict.bind_left Strict.typeName (fun _ => Sound.pmap (Sound.opt (typeArgs_sound hk)))

theorem processType_strict : Strict (processType k) := by
  unfold processType
  refine Strict.alt (Strict.delimited (Strict.pchar _) ?_ (Sound.pchar _))
    (Strict.seq_left (Strict.pchar _) (Sound.pmap (Sound.opt hk.2)))
  have := hk.2; have := Sound.arrow
  sound_tac

theorem groupType_strict : Strict (groupType k) :=
  Strict.delimited (Strict.seq_left (Strict.pchar _) Sound.ws0) hk.1
    (Sound.seq Sound.ws0 (Sound.pchar _))

theorem functionIoType_strict : Strict (functionIoType k) := by
  unfold functionIoType
  exact Strict.alt (partialType_strict hk) (Strict.alt (groupType_strict hk)
    (Strict.alt (tupleType_strict hk) (Strict.alt Strict.resourceType (Strict.alt Strict.typeCycle
    (Strict.alt (processType_strict hk) (Strict.alt (moduleType_strict hk)
    (Strict.alt (typeIdentifier_strict hk) (selfDefaultType_strict hk))))))))

theorem functionType_strict : Strict (functionType k) := by
  unfold functionType
  exact Strict.seq_left (Strict.pchar _)
    (Sound.bind (functionIoType_sound hk) (fun _ => Sound.seq Sound.arrow
      (Sound.pmap (functionIoType_sound hk))))

theorem baseTypeWith_strict : Strict (baseTypeWith k) := by
  unfold baseTypeWith
  exact Strict.alt (tupleType_strict hk) (Strict.alt (partialType_strict hk)
    (Strict.alt Strict.resourceType (Strict.alt Strict.typeCycle (Strict.alt (processType_strict hk)
    (Strict.alt Strict.typeParameter (Strict.alt (moduleType_strict hk)
    (Strict.alt (groupType_strict hk)
    (Strict.alt (typeIdentifier_strict hk) (selfDefaultType_strict hk)))))))))
end

theorem intersectionType_strict {bt : P Ty} (sb : Sound bt) (hb : Strict bt) :
    Strict (intersectionType bt) := by
  unfold intersectionType
  exact Strict.bind_left hb
    (fun _ => Sound.pmap (Sound.many0 (Sound.seq (Sound.barOp _) sb)))

theorem typeDefinitionWith_strict {k : Knot} (hk : KSound k) {bt : P Ty} (sb : Sound bt)
    (hb : Strict bt) : Strict (typeDefinitionWith k bt) := by
  unfold typeDefinitionWith
  refine Strict.alt (functionType_strict hk)
    (Strict.seq_right (Sound.opt (Sound.barOp _))
      (Strict.bind_left (intersectionType_strict sb hb) (fun _ => Sound.pmap
        (Sound.many0 (Sound.seq (Sound.barOp _) (intersectionType_sound sb))))))

theorem knot_strict (n : Nat) : KStrict (knot n) := by
  cases n with
  | zero => exact ⟨fun _ => trivial, fun _ => trivial⟩
  | succ n =>
    have hk := knot_sound n
    exact ⟨typeDefinitionWith_strict hk (baseTypeWith_sound hk) (baseTypeWith_strict hk),
      baseTypeWith_strict hk⟩

/-! ### The knot: fuel `length + 1` suffices -/

/-- The knot answers (no `out`) on every input shorter than `m`. -/
def KTot (m : Nat) (k : Knot) : Prop := Tot m k.td ∧ Tot m k.bt

/-- closes `Tot` goals; `Tot.bind_strict`/`seq_strict`/`delimited_strict` are applied by hand where
    a knot call sits behind a consumed character. -/
macro "tot_tac" : tactic => `(tactic|
  repeat (with_reducible first
    | assumption
    | exact NoOut.tot (NoOut.pchar _) _ | exact NoOut.tot (NoOut.ptag _) _
    | exact NoOut.tot NoOut.ws0 _ | exact NoOut.tot NoOut.ws1 _ | exact NoOut.tot NoOut.wsc _
    | exact NoOut.tot NoOut.identifier _ | exact NoOut.tot NoOut.tupleName _
    | exact NoOut.tot NoOut.usize _
    | exact Tot.typeName _ | exact Tot.importPath _ | exact Tot.commaWs0 _ | exact Tot.commaWsc _
    | exact Tot.arrow _ | exact Tot.barOp _ _ | exact Tot.resourceType _ | exact Tot.typeCycle _
    | exact Tot.typeParameter _
    | exact Sound.pchar _ | exact Sound.ptag _ | exact Sound.ws0 | exact Sound.ws1 | exact Sound.wsc
    | exact Sound.identifier | exact Sound.tupleName | exact Sound.usize | exact Sound.typeName
    | exact Sound.importPath | exact Sound.commaWs0 | exact Sound.commaWsc | exact Sound.arrow
    | exact Sound.barOp _ | exact Sound.peekNot _
    | exact Strict.pchar _ | exact Strict.typeName | exact Strict.tupleName
    | apply Tot.bind | apply Tot.seq | apply Tot.before | apply Tot.delimited
    | apply Tot.pmap | apply Tot.alt | apply Tot.opt | apply Tot.verify | apply Tot.peekNot
    | apply Tot.many0 | apply Tot.sepList1 | apply Tot.sepList0
    | apply Sound.bind | apply Sound.seq | apply Sound.before | apply Sound.delimited
    | apply Sound.pmap | apply Sound.alt | apply Sound.opt | apply Sound.verify
    | apply Sound.many0 | apply Sound.sepList1 | apply Sound.sepList0
    | intro _))

section
variable {k : Knot} {m : Nat} (sk : KSound k) (hk : KTot m k)
include sk hk

theorem typeArgs_tot : Tot (m + 1) (typeArgs k) := by
  unfold typeArgs
  have := sk.1; have := hk.1
  refine Tot.delimited_strict (Strict.pchar _) ?_ ?_ ?_ ?_ <;> tot_tac

theorem optArgs_tot : Tot (m + 1) (optArgs k) := by
  unfold optArgs; have := typeArgs_tot sk hk; tot_tac

theorem fieldType_tot : Tot m (fieldType k) := by
  unfold fieldType
  have := sk.1; have := hk.1
  have := typeArgs_sound sk; have := (typeArgs_tot sk hk).weaken
  tot_tac

theorem fieldTypeList_tot : Tot m (fieldTypeList k) := by
  unfold fieldTypeList
  have := fieldType_sound sk; have := fieldType_tot sk hk
  tot_tac

theorem fieldsIn_tot (o c : Char) : Tot (m + 1) (fieldsIn o c k) := by
  unfold fieldsIn
  have := fieldTypeList_sound sk; have := fieldTypeList_tot sk hk
  refine Tot.delimited_strict (Strict.seq_left (Strict.pchar _) Sound.wsc) ?_ ?_ ?_ ?_ <;> tot_tac

theorem partialType_tot : Tot (m + 1) (partialType k) := by
  unfold partialType
  have := fieldsIn_sound sk '(' ')'; have := fieldsIn_tot sk hk '(' ')'
  tot_tac

theorem tupleType_tot : Tot (m + 1) (tupleType k) := by
  unfold tupleType
  have := fieldsIn_sound sk '[' ']'; have := fieldsIn_tot sk hk '[' ']'
  tot_tac

theorem selfDefaultType_tot : Tot (m + 1) (selfDefaultType k) := by
  unfold selfDefaultType; have := optArgs_tot sk hk; tot_tac

theorem moduleType_tot : Tot (m + 1) (moduleType k) := by
  unfold moduleType; have := optArgs_tot sk hk; tot_tac

theorem typeIdentifier_tot : Tot (m + 1) (typeIdentifier k) := by
  unfold typeIdentifier; have := typeArgs_tot sk hk; tot_tac

theorem processType_tot : Tot (m + 1) (processType k) := by
  unfold processType
  have := sk.2; have := hk.2
  refine Tot.alt (Tot.delimited_strict (Strict.pchar _) ?_ ?_ ?_ ?_) (Tot.seq_strict (Strict.pchar _) ?_ ?_)
  · tot_tac
  · tot_tac
  · refine Tot.alt (Tot.pmap (Tot.seq ?_ ?_ ?_)) (Tot.seq ?_ ?_ ?_) <;> tot_tac
  · tot_tac
  · tot_tac
  · tot_tac

theorem groupType_tot : Tot (m + 1) (groupType k) := by
  unfold groupType
  have := sk.1; have := hk.1
  refine Tot.delimited_strict (Strict.seq_left (Strict.pchar _) Sound.ws0) ?_ ?_ ?_ ?_ <;> tot_tac

theorem functionIoType_tot : Tot (m + 1) (functionIoType k) := by
  unfold functionIoType
  have := partialType_tot sk hk; have := groupType_tot sk hk; have := tupleType_tot sk hk
  have := processType_tot sk hk; have := moduleType_tot sk hk; have := typeIdentifier_tot sk hk
  have := selfDefaultType_tot sk hk
  tot_tac

theorem functionType_tot : Tot (m + 1) (functionType k) := by
  unfold functionType
  have := functionIoType_sound sk; have := functionIoType_tot sk hk
  tot_tac

theorem baseTypeWith_tot : Tot (m + 1) (baseTypeWith k) := by
  unfold baseTypeWith
  have := partialType_tot sk hk; have := groupType_tot sk hk; have := tupleType_tot sk hk
  have := processType_tot sk hk; have := moduleType_tot sk hk; have := typeIdentifier_tot sk hk
  have := selfDefaultType_tot sk hk
  tot_tac
end

theorem intersectionType_tot {m : Nat} {bt : P Ty} (sb : Sound bt) (hb : Tot m bt) :
    Tot m (intersectionType bt) := by
  unfold intersectionType; tot_tac

theorem typeDefinitionWith_tot {k : Knot} {m : Nat} (sk : KSound k) (hk : KTot m k) {bt : P Ty}
    (sb : Sound bt) (hb : Tot (m + 1) bt) : Tot (m + 1) (typeDefinitionWith k bt) := by
  unfold typeDefinitionWith
  have := functionType_tot sk hk
  have := intersectionType_sound sb; have := intersectionType_tot sb hb
  tot_tac

/-- **fuel_suffices**, knot form: with fuel `n` the parsers answer on every input shorter than `n`. -/
theorem knot_tot (n : Nat) : KTot n (knot n) := by
  induction n with
  | zero => exact ⟨fun i h => by omega, fun i h => by omega⟩
  | succ n ih =>
    have sk := knot_sound n
    exact ⟨typeDefinitionWith_tot sk ih (baseTypeWith_sound sk) (baseTypeWith_tot sk ih),
      baseTypeWith_tot sk ih⟩

/-! ### The knot: more fuel never changes an answer -/

def KLe (k k' : Knot) : Prop := PLe k.td k'.td ∧ PLe k.bt k'.bt

macro "ple_tac" : tactic => `(tactic|
  repeat (with_reducible first
    | exact PLe.refl _
    | assumption
    | apply PLe.bind | apply PLe.seq | apply PLe.before | apply PLe.delimited
    | apply PLe.pmap | apply PLe.alt | apply PLe.opt | apply PLe.verify | apply PLe.peekNot
    | apply PLe.many0 | apply PLe.sepList1 | apply PLe.sepList0
    | intro _))

section
variable {k k' : Knot} (h : KLe k k')
include h

theorem typeArgs_ple : PLe (typeArgs k) (typeArgs k') := by
  unfold typeArgs; have := h.1; ple_tac
theorem optArgs_ple : PLe (optArgs k) (optArgs k') := by
  unfold optArgs; have := typeArgs_ple h; ple_tac
theorem fieldType_ple : PLe (fieldType k) (fieldType k') := by
  unfold fieldType; have := h.1; have := typeArgs_ple h; ple_tac
theorem fieldTypeList_ple : PLe (fieldTypeList k) (fieldTypeList k') := by
  unfold fieldTypeList; have := fieldType_ple h; ple_tac
theorem fieldsIn_ple (o c : Char) : PLe (fieldsIn o c k) (fieldsIn o c k') := by
  unfold fieldsIn; have := fieldTypeList_ple h; ple_tac
theorem partialType_ple : PLe (partialType k) (partialType k') := by
  unfold partialType; have := fieldsIn_ple h '(' ')'; ple_tac
theorem tupleType_ple : PLe (tupleType k) (tupleType k') := by
  unfold tupleType; have := fieldsIn_ple h '[' ']'; ple_tac
theorem selfDefaultType_ple : PLe (selfDefaultType k) (selfDefaultType k') := by
  unfold selfDefaultType; have := optArgs_ple h; ple_tac
theorem moduleType_ple : PLe (moduleType k) (moduleType k') := by
  unfold moduleType; have := optArgs_ple h; ple_tac
theorem typeIdentifier_ple : PLe (typeIdentifier k) (typeIdentifier k') := by
  unfold typeIdentifier; have := typeArgs_ple h; ple_tac
theorem processType_ple : PLe (processType k) (processType k') := by
  unfold processType; have := h.2; ple_tac
theorem groupType_ple : PLe (groupType k) (groupType k') := by
  unfold groupType; have := h.1; ple_tac
theorem functionIoType_ple : PLe (functionIoType k) (functionIoType k') := by
  unfold functionIoType
  have := partialType_ple h; have := groupType_ple h; have := tupleType_ple h
  have := processType_ple h; have := moduleType_ple h; have := typeIdentifier_ple h
  have := selfDefaultType_ple h
  ple_tac
theorem functionType_ple : PLe (functionType k) (functionType k') := by
  unfold functionType; have := functionIoType_ple h; ple_tac
theorem baseTypeWith_ple : PLe (baseTypeWith k) (baseTypeWith k') := by
  unfold baseTypeWith
  have := partialType_ple h; have := groupType_ple h; have := tupleType_ple h
  have := processType_ple h; have := moduleType_ple h; have := typeIdentifier_ple h
  have := selfDefaultType_ple h
  ple_tac
end

theorem intersectionType_ple {bt bt' : P Ty} (hb : PLe bt bt') :
    PLe (intersectionType bt) (intersectionType bt') := by
  unfold intersectionType; ple_tac

theorem typeDefinitionWith_ple {k k' : Knot} (h : KLe k k') {bt bt' : P Ty} (hb : PLe bt bt') :
    PLe (typeDefinitionWith k bt) (typeDefinitionWith k' bt') := by
  unfold typeDefinitionWith
  have := functionType_ple h; have := intersectionType_ple hb
  ple_tac

theorem KLe.step {k k' : Knot} (h : KLe k k') : KLe k.step k'.step :=
  ⟨typeDefinitionWith_ple h (baseTypeWith_ple h), baseTypeWith_ple h⟩

theorem knot_mono (n : Nat) : KLe (knot n) (knot (n + 1)) := by
  induction n with
  | zero => exact ⟨fun i h => absurd rfl h, fun i h => absurd rfl h⟩
  | succ n ih => exact ih.step

theorem knot_mono_le {n m : Nat} (h : n ≤ m) : KLe (knot n) (knot m) := by
  induction m with
  | zero =>
    have : n = 0 := by omega
    subst this; exact ⟨PLe.refl _, PLe.refl _⟩
  | succ m ih =>
    by_cases hn : n = m + 1
    · subst hn; exact ⟨PLe.refl _, PLe.refl _⟩
    · have h1 := ih (by omega)
      have h2 := knot_mono m
      exact ⟨fun i hi => by rw [h2.1 i (by rw [h1.1 i hi]; exact hi), h1.1 i hi],
             fun i hi => by rw [h2.2 i (by rw [h1.2 i hi]; exact hi), h1.2 i hi]⟩

end QM.Parse
