/-
M-Parse lemmas, part 6 — everything the type parsers return is well-formed (`Ty.wf`): `Post Q p`
(every value `p` returns satisfies `Q`), its closure lemmas, and `knot_wf`.
-/
import QuiverModel.Lemmas.Parse.Eval
namespace QM.Parse

def Post {α : Type} (Q : α → Prop) (p : P α) : Prop := ∀ i a r, p i = .ok a r → Q a

theorem Post.mono {α : Type} {Q Q' : α → Prop} {p : P α} (h : Post Q p) (hq : ∀ a, Q a → Q' a) :
    Post Q' p := fun i a r e => hq a (h i a r e)

theorem Post.bind {α β : Type} {Qa : α → Prop} {Qb : β → Prop} {p : P α} {q : α → P β}
    (hp : Post Qa p) (hq : ∀ a, Qa a → Post Qb (q a)) : Post Qb (bind p q) := by
  intro i b r e
  unfold Parse.bind at e
  cases h : p i with
  | ok a r1 => rw [h] at e; exact hq a (hp i a r1 h) r1 b r e
  | err x y => rw [h] at e; simp at e
  | out => rw [h] at e; simp at e

theorem Post.seq {α β : Type} {Qb : β → Prop} {p : P α} {q : P β} (hq : Post Qb q) :
    Post Qb (seq p q) :=
  Post.bind (Qa := fun _ => True) (fun _ _ _ _ => trivial) (fun _ _ => hq)

theorem Post.before {α β : Type} {Qa : α → Prop} {p : P α} {q : P β} (hp : Post Qa p) :
    Post Qa (before p q) := by
  intro i a r e
  unfold Parse.before at e
  cases h : p i with
  | ok a' r1 =>
    rw [h] at e; dsimp only at e
    cases h2 : q r1 with
    | ok b r2 => rw [h2] at e; simp only [Res.ok.injEq] at e; rw [← e.1]; exact hp i a' r1 h
    | err x y => rw [h2] at e; simp at e
    | out => rw [h2] at e; simp at e
  | err x y => rw [h] at e; simp at e
  | out => rw [h] at e; simp at e

theorem Post.delimited {α β γ : Type} {Qb : β → Prop} {o : P α} {p : P β} {c : P γ}
    (hp : Post Qb p) : Post Qb (delimited o p c) := Post.seq (Post.before hp)

theorem Post.pmap {α β : Type} {Qa : α → Prop} {Qb : β → Prop} {p : P α} {f : α → β}
    (hp : Post Qa p) (hf : ∀ a, Qa a → Qb (f a)) : Post Qb (pmap p f) := by
  intro i b r e
  obtain ⟨a, h, hb⟩ := pmap_ok_inv' e
  rw [hb]; exact hf a (hp i a r h)
where
  pmap_ok_inv' {α β : Type} {p : P α} {f : α → β} {i r : Str} {b : β}
      (h : Parse.pmap p f i = .ok b r) : ∃ a, p i = .ok a r ∧ b = f a := by
    unfold Parse.pmap at h
    cases e : p i with
    | ok a r1 =>
      rw [e] at h
      simp only [Res.ok.injEq] at h
      exact ⟨a, by rw [h.2], h.1.symm⟩
    | err x y => rw [e] at h; simp at h
    | out => rw [e] at h; simp at h

theorem Post.alt {α : Type} {Q : α → Prop} {p q : P α} (hp : Post Q p) (hq : Post Q q) :
    Post Q (alt p q) := by
  intro i a r e
  unfold Parse.alt at e
  cases h : p i with
  | ok a' r1 => rw [h] at e; simp only [Res.ok.injEq] at e; rw [← e.1]; exact hp i a' r1 h
  | err x y => rw [h] at e; exact hq i a r e
  | out => rw [h] at e; simp at e

theorem Post.opt {α : Type} {Q : α → Prop} {p : P α} (hp : Post Q p) :
    Post (fun o => ∀ a, o = some a → Q a) (opt p) := by
  intro i o r e
  unfold Parse.opt at e
  cases h : p i with
  | ok a r1 =>
    rw [h] at e; simp only [Res.ok.injEq] at e
    intro a' ha; rw [← e.1] at ha; cases ha; exact hp i a r1 h
  | err x y => rw [h] at e; simp only [Res.ok.injEq] at e; intro a' ha; rw [← e.1] at ha; cases ha
  | out => rw [h] at e; simp at e

theorem Post.verify {α : Type} {Q : α → Prop} {p : P α} {f : α → Bool} (hp : Post Q p) :
    Post (fun a => Q a ∧ f a = true) (verify p f) := by
  intro i a r e
  unfold Parse.verify at e
  cases h : p i with
  | ok a' r1 =>
    rw [h] at e; dsimp only at e
    by_cases hf : f a' = true
    · simp only [hf, if_true, Res.ok.injEq] at e; rw [← e.1]; exact ⟨hp i a' r1 h, hf⟩
    · simp [hf] at e
  | err x y => rw [h] at e; simp at e
  | out => rw [h] at e; simp at e

theorem many0Loop_post {α : Type} {Q : α → Prop} {p : P α} (hp : Post Q p) (n : Nat) :
    Post (fun l => ∀ a ∈ l, Q a) (many0Loop p n) := by
  induction n with
  | zero => intro i l r e; simp [many0Loop] at e
  | succ n ih =>
    intro i l r e
    simp only [many0Loop] at e
    cases h : p i with
    | ok a r1 =>
      rw [h] at e; dsimp only at e
      by_cases hl : r1.length = i.length
      · simp [hl] at e
      · simp only [hl, if_false] at e
        cases h2 : many0Loop p n r1 with
        | ok as r2 =>
          rw [h2] at e; simp only [Res.ok.injEq] at e; rw [← e.1]
          intro x hx
          rcases List.mem_cons.mp hx with rfl | hx
          · exact hp i _ r1 h
          · exact ih r1 as r2 h2 x hx
        | err x y => rw [h2] at e; simp at e
        | out => rw [h2] at e; simp at e
    | err x y => rw [h] at e; simp only [Res.ok.injEq] at e; rw [← e.1]; intro x hx; cases hx
    | out => rw [h] at e; simp at e

theorem Post.many0 {α : Type} {Q : α → Prop} {p : P α} (hp : Post Q p) :
    Post (fun l => ∀ a ∈ l, Q a) (many0 p) := fun i l r e => many0Loop_post hp _ i l r e

theorem sepLoop_post {α β : Type} {Q : α → Prop} {sep : P β} {p : P α} (hp : Post Q p) (n : Nat) :
    Post (fun l => ∀ a ∈ l, Q a) (sepLoop sep p n) := by
  induction n with
  | zero => intro i l r e; simp [sepLoop] at e
  | succ n ih =>
    intro i l r e
    simp only [sepLoop] at e
    cases h : sep i with
    | ok b i1 =>
      rw [h] at e; dsimp only at e
      by_cases hl : i1.length = i.length
      · simp [hl] at e
      · simp only [hl, if_false] at e
        cases h1 : p i1 with
        | ok a i2 =>
          rw [h1] at e; dsimp only at e
          cases h2 : sepLoop sep p n i2 with
          | ok as r2 =>
            rw [h2] at e; simp only [Res.ok.injEq] at e; rw [← e.1]
            intro x hx
            rcases List.mem_cons.mp hx with rfl | hx
            · exact hp i1 _ i2 h1
            · exact ih i2 as r2 h2 x hx
          | err x y => rw [h2] at e; simp at e
          | out => rw [h2] at e; simp at e
        | err x y => rw [h1] at e; simp only [Res.ok.injEq] at e; rw [← e.1]; intro x hx; cases hx
        | out => rw [h1] at e; simp at e
    | err x y => rw [h] at e; simp only [Res.ok.injEq] at e; rw [← e.1]; intro x hx; cases hx
    | out => rw [h] at e; simp at e

theorem Post.sepList1 {α β : Type} {Q : α → Prop} {sep : P β} {p : P α} (hp : Post Q p) :
    Post (fun l => l ≠ [] ∧ ∀ a ∈ l, Q a) (sepList1 sep p) := by
  intro i l r e
  unfold Parse.sepList1 at e
  cases h : p i with
  | ok a r1 =>
    rw [h] at e; dsimp only at e
    cases h2 : sepLoop sep p (r1.length + 1) r1 with
    | ok as r2 =>
      rw [h2] at e; simp only [Res.ok.injEq] at e; rw [← e.1]
      refine ⟨by simp, ?_⟩
      intro x hx
      rcases List.mem_cons.mp hx with rfl | hx
      · exact hp i _ r1 h
      · exact sepLoop_post hp _ r1 as r2 h2 x hx
    | err x y => rw [h2] at e; simp at e
    | out => rw [h2] at e; simp at e
  | err x y => rw [h] at e; simp at e
  | out => rw [h] at e; simp at e

theorem Post.sepList0 {α β : Type} {Q : α → Prop} {sep : P β} {p : P α} (hp : Post Q p) :
    Post (fun l => ∀ a ∈ l, Q a) (sepList0 sep p) := by
  intro i l r e
  unfold Parse.sepList0 at e
  cases h : p i with
  | ok a r1 =>
    rw [h] at e; dsimp only at e
    cases h2 : sepLoop sep p (r1.length + 1) r1 with
    | ok as r2 =>
      rw [h2] at e; simp only [Res.ok.injEq] at e; rw [← e.1]
      intro x hx
      rcases List.mem_cons.mp hx with rfl | hx
      · exact hp i _ r1 h
      · exact sepLoop_post hp _ r1 as r2 h2 x hx
    | err x y => rw [h2] at e; simp at e
    | out => rw [h2] at e; simp at e
  | err x y => rw [h] at e; simp only [Res.ok.injEq] at e; rw [← e.1]; intro x hx; cases hx
  | out => rw [h] at e; simp at e

/-! ### Lexical parsers -/

theorem Post.identifier : Post (fun n => isIdentStr n = true) identifier := by
  intro i a r e
  unfold Parse.identifier at e
  cases i with
  | nil => simp at e
  | cons c t =>
    by_cases hl : isLower c = true
    · simp only [hl, if_true] at e
      have hall := all_takeWhile isIdentBody t
      have key : ∀ suf : Str, (suf = [] ∨ suf = ['?'] ∨ suf = ['!'] ∨ suf = ['?', '!']) →
          isIdentStr (c :: (t.takeWhile isIdentBody ++ suf)) = true := by
        intro suf hs
        have hstop : ∀ d tl, suf = d :: tl → isIdentBody d = false := by
          intro d tl h
          rcases hs with h' | h' | h' | h' <;> rw [h'] at h <;> cases h <;> decide
        have := (takeWhile_append_stop hall hstop).2
        simp only [isIdentStr, hl, Bool.true_and, this]
        rcases hs with h' | h' | h' | h' <;> simp [h']
      split at e
      · simp only [Res.ok.injEq] at e; rw [← e.1]
        have := key ['?', '!'] (by simp); simpa using this
      · simp only [Res.ok.injEq] at e; rw [← e.1]
        have := key ['?'] (by simp); simpa using this
      · simp only [Res.ok.injEq] at e; rw [← e.1]
        have := key ['!'] (by simp); simpa using this
      · simp only [Res.ok.injEq] at e; rw [← e.1]
        have := key [] (by simp); simpa using this
    · simp [hl] at e

theorem Post.tupleName : Post (fun n => isTupleNameStr n = true) tupleName := by
  intro i a r e
  unfold Parse.tupleName at e
  cases i with
  | nil => simp at e
  | cons c t =>
    by_cases hl : isUpper c = true
    · simp only [hl, if_true, Res.ok.injEq] at e
      rw [← e.1]
      simp [isTupleNameStr, hl, all_takeWhile]
    · simp [hl] at e

theorem Post.usize : Post (fun n => n < 2 ^ 64) usize := by
  intro i a r e
  unfold Parse.usize at e
  simp only at e
  split at e
  · simp at e
  · split at e
    · rename_i h; simp only [Res.ok.injEq] at e; rw [← e.1]; exact h
    · simp at e

theorem Post.typeName : Post (fun n => isIdentStr n = true) typeName := Post.seq Post.identifier

theorem Post.importPath :
    Post (fun m : List Str => m ≠ [] ∧ ∀ a ∈ m, isIdentStr a = true) importPath :=
  Post.seq (Post.sepList1 Post.identifier)

/-! ### The grammar -/

def WFp (t : Ty) : Prop := t.wf = true
def WFl (l : List Ty) : Prop := Ty.wfList l = true
def WFf (f : Field) : Prop := f.wf = true
def WFfl (l : List Field) : Prop := Field.wfList l = true

theorem wfList_of_mem {l : List Ty} (h : ∀ a ∈ l, a.wf = true) : Ty.wfList l = true := by
  induction l with
  | nil => rfl
  | cons x xs ih =>
    simp only [Ty.wfList, Bool.and_eq_true]
    exact ⟨h x (by simp), ih (fun a ha => h a (by simp [ha]))⟩

theorem fwfList_of_mem {l : List Field} (h : ∀ a ∈ l, a.wf = true) : Field.wfList l = true := by
  induction l with
  | nil => rfl
  | cons x xs ih =>
    simp only [Field.wfList, Bool.and_eq_true]
    exact ⟨h x (by simp), ih (fun a ha => h a (by simp [ha]))⟩

theorem all_of_mem {l : List Str} (h : ∀ a ∈ l, isIdentStr a = true) : l.all isIdentStr = true := by
  simp only [List.all_eq_true]; exact h

def KWF (k : Knot) : Prop := Post WFp k.td ∧ Post WFp k.bt

section
variable {k : Knot} (hk : KWF k)
include hk

theorem typeArgs_wf : Post WFl (typeArgs k) :=
  Post.delimited (Post.mono (Post.sepList1 hk.1) (fun _ h => wfList_of_mem h.2))

theorem optArgs_wf : Post WFl (optArgs k) := by
  unfold optArgs
  refine Post.pmap (Post.opt (typeArgs_wf hk)) ?_
  intro o ho
  cases o with
  | none => rfl
  | some a => exact ho a rfl

theorem fieldType_wf : Post WFf (fieldType k) := by
  unfold fieldType
  refine Post.alt (Post.seq (Post.pmap (Qa := fun o : Option (Str × Option (List Ty)) =>
      ∀ pr, o = some pr → isIdentStr pr.1 = true ∧ ∀ a, pr.2 = some a → WFl a) (Post.opt ?_) ?_))
    (Post.alt ?_ ?_)
  · refine Post.bind Post.typeName (fun id hid => Post.pmap (Post.opt (typeArgs_wf hk)) ?_)
    intro o ho; exact ⟨hid, ho⟩
  · intro o ho
    cases o with
    | none => rfl
    | some pr =>
      obtain ⟨id, a⟩ := pr
      obtain ⟨h1, h2⟩ := ho (id, a) rfl
      show (Field.spread (some id) (a.getD [])).wf = true
      simp only [Field.wf, Bool.and_eq_true]
      refine ⟨h1, ?_⟩
      cases a with
      | none => rfl
      | some l => exact h2 l rfl
  · refine Post.bind Post.identifier (fun n hn => Post.seq (Post.seq (Post.pmap hk.1 ?_)))
    intro t ht
    show (Field.field (some n) t).wf = true
    simp only [Field.wf, Bool.and_eq_true]; exact ⟨hn, ht⟩
  · exact Post.pmap hk.1 (fun t ht => ht)

theorem fieldTypeList_wf : Post WFfl (fieldTypeList k) :=
  Post.before (Post.mono (Post.sepList0 (fieldType_wf hk)) (fun _ h => fwfList_of_mem h))

theorem fieldsIn_wf (o c : Char) : Post WFfl (fieldsIn o c k) :=
  Post.delimited (fieldTypeList_wf hk)

theorem partialType_wf : Post WFp (partialType k) := by
  unfold partialType
  refine Post.alt (Post.bind Post.tupleName (fun n hn => Post.pmap (fieldsIn_wf hk _ _) ?_)) ?_
  · intro fs hfs
    show (Ty.tuple (some n) fs true).wf = true
    simp only [Ty.wf, Bool.and_eq_true, Bool.or_eq_true]; exact ⟨hfs, Or.inl hn⟩
  · refine Post.mono (Post.verify (Post.pmap (Qb := fun t => ∃ fs, t = Ty.tuple none fs true ∧ WFfl fs)
      (fieldsIn_wf hk _ _) (fun fs hfs => ⟨fs, rfl, hfs⟩))) ?_
    intro t ⟨⟨fs, ht, hfs⟩, hv⟩
    subst ht
    show (Ty.tuple none fs true).wf = true
    simp only [Ty.wf, Bool.and_eq_true]
    exact ⟨hfs, by simpa using hv⟩

omit hk in
theorem inherit_wf {id : Str} (hid : isIdentStr id = true) :
    ∀ fs : List Field, Field.wfList fs = true →
      Field.wfList (fs.map (Field.inheritSpread id)) = true ∧
      (fs.map (Field.inheritSpread id)).any Field.isBareSpread = false ∧
      (fs.map (Field.inheritSpread id)).any Field.isSpread = fs.any Field.isSpread := by
  intro fs
  induction fs with
  | nil => intro _; exact ⟨rfl, rfl, rfl⟩
  | cons f fs ih =>
    intro h
    simp only [Field.wfList, Bool.and_eq_true] at h
    obtain ⟨i1, i2, i3⟩ := ih h.2
    cases f with
    | field nm t =>
      simp only [List.map_cons, Field.inheritSpread, Field.wfList, Bool.and_eq_true, List.any_cons,
        Field.isBareSpread, Field.isSpread, Bool.false_or]
      exact ⟨⟨h.1, i1⟩, i2, i3⟩
    | spread o args =>
      cases o with
      | none =>
        have ha : args = [] := by
          have := h.1; simp only [Field.wf] at this
          cases args with
          | nil => rfl
          | cons a as => simp at this
        subst ha
        simp only [List.map_cons, Field.inheritSpread, Field.wfList, Field.wf, Bool.and_eq_true,
          List.any_cons, Field.isBareSpread, Field.isSpread, Bool.false_or, Bool.true_or, Ty.wfList]
        exact ⟨⟨⟨hid, trivial⟩, i1⟩, i2, trivial⟩
      | some x =>
        simp only [List.map_cons, Field.inheritSpread, Field.wfList, Bool.and_eq_true, List.any_cons,
          Field.isBareSpread, Field.isSpread, Bool.false_or, Bool.true_or]
        exact ⟨⟨h.1, i1⟩, i2, trivial⟩

theorem tupleType_wf : Post WFp (tupleType k) := by
  unfold tupleType
  refine Post.alt (Post.bind Post.tupleName (fun n hn => Post.pmap (fieldsIn_wf hk _ _) ?_))
    (Post.alt ?_ (Post.alt (Post.pmap (fieldsIn_wf hk _ _) ?_)
      (Post.bind Post.tupleName (fun n hn => Post.pmap (Qa := fun _ => True) (fun _ _ _ _ => trivial) ?_))))
  · intro fs hfs
    show (Ty.tuple (some n) fs false).wf = true
    simp only [Ty.wf, Bool.and_eq_true, Bool.or_eq_true]; exact ⟨hfs, Or.inl hn⟩
  · refine Post.mono (Post.verify (Post.bind (Qb := fun t => ∃ id fs, t = Ty.tuple (some id)
        (fs.map (Field.inheritSpread id)) false ∧ isIdentStr id = true ∧ WFfl fs)
        Post.typeName (fun id hid => Post.pmap (fieldsIn_wf hk _ _)
          (fun fs hfs => ⟨id, fs, rfl, hid, hfs⟩)))) ?_
    intro t ⟨⟨id, fs, ht, hid, hfs⟩, hv⟩
    subst ht
    obtain ⟨i1, i2, i3⟩ := inherit_wf hid fs hfs
    show (Ty.tuple (some id) (fs.map (Field.inheritSpread id)) false).wf = true
    simp only [Ty.wf, Bool.and_eq_true, Bool.or_eq_true, i1, i2, true_and]
    refine Or.inr ⟨⟨⟨hid, rfl⟩, ?_⟩, rfl⟩
    simpa using hv
  · intro fs hfs
    show (Ty.tuple none fs false).wf = true
    simp only [Ty.wf, Bool.and_eq_true]; exact ⟨hfs, rfl⟩
  · intro _ _
    show (Ty.tuple (some n) [] false).wf = true
    simp only [Ty.wf, Field.wfList, Bool.true_and, Bool.or_eq_true]; exact Or.inl hn

theorem selfDefaultType_wf : Post WFp (selfDefaultType k) :=
  Post.seq (Post.pmap (optArgs_wf hk) (fun a ha => by show (Ty.selfDefault a).wf = true; exact ha))

theorem moduleType_wf : Post WFp (moduleType k) := by
  unfold moduleType
  refine Post.seq (Post.bind Post.importPath (fun m hm =>
    Post.bind (Post.opt (Post.seq Post.identifier)) (fun mem hmem => Post.pmap (optArgs_wf hk) ?_)))
  intro a ha
  show (Ty.modty m mem a).wf = true
  simp only [Ty.wf, Bool.and_eq_true, Bool.not_eq_true', List.isEmpty_eq_false_iff]
  refine ⟨⟨⟨hm.1, all_of_mem hm.2⟩, ?_⟩, ha⟩
  cases mem with
  | none => rfl
  | some x => exact hmem x rfl

omit hk in
theorem identifierToType_wf {n : Str} (hn : isIdentStr n = true) : (identifierToType n).wf = true := by
  unfold identifierToType
  split
  · rfl
  · split
    · rfl
    · split
      · rfl
      · simp only [Ty.wf, Ty.wfList, Bool.and_true]; exact hn

theorem typeIdentifier_wf : Post WFp (typeIdentifier k) := by
  unfold typeIdentifier
  refine Post.bind Post.typeName (fun n hn => Post.pmap (Post.opt (typeArgs_wf hk)) ?_)
  intro o ho
  cases o with
  | none => exact identifierToType_wf hn
  | some a =>
    show (Ty.ident n a).wf = true
    simp only [Ty.wf, Bool.and_eq_true]; exact ⟨hn, ho a rfl⟩

theorem processType_wf : Post WFp (processType k) := by
  unfold processType
  refine Post.alt (Post.delimited (Post.alt (Post.pmap (Post.seq hk.2) ?_)
    (Post.seq (Post.bind hk.2 (fun a ha => Post.seq (Post.pmap hk.2 ?_)))))) (Post.seq (Post.pmap (Post.opt hk.2) ?_))
  · intro r hr; show (Ty.proc none (some r)).wf = true; simp only [Ty.wf, Ty.wfOpt, Bool.true_and]; exact hr
  · intro r hr; show (Ty.proc (some a) (some r)).wf = true
    simp only [Ty.wf, Ty.wfOpt, Bool.and_eq_true]; exact ⟨ha, hr⟩
  · intro o ho
    show (Ty.proc o none).wf = true
    cases o with
    | none => rfl
    | some a => simp only [Ty.wf, Ty.wfOpt, Bool.and_true]; exact ho a rfl

theorem groupType_wf : Post WFp (groupType k) := Post.delimited hk.1

omit hk in
theorem resourceType_wf' : Post WFp resourceType :=
  Post.pmap (Post.seq Post.tupleName) (fun n hn => by show (Ty.resource n).wf = true; exact hn)

omit hk in
theorem typeCycle_wf' : Post WFp typeCycle := by
  refine Post.seq (Post.pmap (Post.opt Post.usize) ?_)
  intro o ho
  show (Ty.cycle o).wf = true
  cases o with
  | none => rfl
  | some n => simp only [Ty.wf, decide_eq_true_eq]; exact ho n rfl

omit hk in
theorem typeParameter_wf' : Post WFp typeParameter :=
  Post.pmap (Post.delimited Post.typeName)
    (fun n hn => by show (Ty.ident n []).wf = true; simp only [Ty.wf, Ty.wfList, Bool.and_true]; exact hn)

theorem functionIoType_wf : Post WFp (functionIoType k) := by
  unfold functionIoType
  exact Post.alt (partialType_wf hk) (Post.alt (groupType_wf hk) (Post.alt (tupleType_wf hk)
    (Post.alt resourceType_wf' (Post.alt typeCycle_wf' (Post.alt (processType_wf hk)
    (Post.alt (moduleType_wf hk) (Post.alt (typeIdentifier_wf hk) (selfDefaultType_wf hk))))))))

theorem functionType_wf : Post WFp (functionType k) := by
  unfold functionType
  refine Post.seq (Post.bind (functionIoType_wf hk) (fun a ha => Post.seq (Post.pmap (functionIoType_wf hk) ?_)))
  intro b hb
  show (Ty.func a b).wf = true
  simp only [Ty.wf, Bool.and_eq_true]; exact ⟨ha, hb⟩

theorem baseTypeWith_wf : Post WFp (baseTypeWith k) := by
  unfold baseTypeWith
  exact Post.alt (tupleType_wf hk) (Post.alt (partialType_wf hk) (Post.alt resourceType_wf'
    (Post.alt typeCycle_wf' (Post.alt (processType_wf hk) (Post.alt typeParameter_wf'
    (Post.alt (moduleType_wf hk) (Post.alt (groupType_wf hk)
    (Post.alt (typeIdentifier_wf hk) (selfDefaultType_wf hk)))))))))

end

theorem intersectionType_wf {bt : P Ty} (hb : Post WFp bt) : Post WFp (intersectionType bt) := by
  unfold intersectionType
  refine Post.bind hb (fun first hf => Post.pmap (Post.many0 (Post.seq hb)) ?_)
  intro rest hr
  cases rest with
  | nil => simpa using hf
  | cons x xs =>
    show (if (x :: xs).isEmpty then first else Ty.inter (first :: x :: xs)).wf = true
    simp only [List.isEmpty_cons, Bool.false_eq_true, if_false, Ty.wf, Bool.and_eq_true, decide_eq_true_eq]
    refine ⟨by simp, ?_⟩
    exact wfList_of_mem (fun a ha => by
      rcases List.mem_cons.mp ha with rfl | ha
      · exact hf
      · exact hr a ha)

theorem typeDefinitionWith_wf {k : Knot} (hk : KWF k) {bt : P Ty} (hb : Post WFp bt) :
    Post WFp (typeDefinitionWith k bt) := by
  unfold typeDefinitionWith
  refine Post.alt (functionType_wf hk) (Post.seq (Post.bind (intersectionType_wf hb)
    (fun first hf => Post.pmap (Post.many0 (Post.seq (intersectionType_wf hb))) ?_)))
  intro rest hr
  cases rest with
  | nil => simpa using hf
  | cons x xs =>
    show (if (x :: xs).isEmpty then first else Ty.union (first :: x :: xs)).wf = true
    simp only [List.isEmpty_cons, Bool.false_eq_true, if_false, Ty.wf, Bool.and_eq_true, decide_eq_true_eq]
    refine ⟨by simp, ?_⟩
    exact wfList_of_mem (fun a ha => by
      rcases List.mem_cons.mp ha with rfl | ha
      · exact hf
      · exact hr a ha)

/-- everything the grammar returns, with any fuel, is well-formed -/
theorem knot_wf (n : Nat) : KWF (knot n) := by
  induction n with
  | zero => exact ⟨fun i a r e => by simp [knot] at e, fun i a r e => by simp [knot] at e⟩
  | succ n ih =>
    exact ⟨typeDefinitionWith_wf ih (baseTypeWith_wf ih), baseTypeWith_wf ih⟩

end QM.Parse
