/-
M-Parse lemmas, part 7 — the grammar since /repo 1d93429 (`parenTypeG`, `knotG`: the parenthesised
process forms are continued from the first field `paren_type` has read): closure properties, the
one-level equality with the separate `(@t -> t)` alternative (`Q_eq`, `parenTypeG_eq`, for any knot
`k'.step` whose lower knot has `KRecv`: it rejects a text that continues with `-`, and the knot above
agrees with it — monotonicity across knot levels), and the equality of the grammars (`knotG_eq`).
-/
import QuiverModel.Lemmas.Parse.Factored
namespace QM.Parse

/-! ### closure -/

/-- the arrow in front of the return type: `ws0 -> ws1` behind a bare `@`, `ws1 -> ws1` behind `@t` -/
def procArrow (recv : Option Ty) : P Unit :=
  match recv with
  | none => seq ws0 (seq (ptag ['-', '>']) ws1)
  | some _ => arrow

theorem Sound.procArrow (recv : Option Ty) : Sound (Parse.procArrow recv) := by
  cases recv with
  | none => unfold QM.Parse.procArrow; sound_tac
  | some x => exact Sound.arrow

theorem Strict.procArrow (recv : Option Ty) : Strict (Parse.procArrow recv) := by
  cases recv with
  | none =>
    exact Strict.seq_right Sound.ws0 (Strict.seq_left (Strict.ptag (by simp)) Sound.ws1)
  | some x => exact Strict.seq_left Strict.ws1 (Sound.seq (Sound.ptag _) Sound.ws1)

theorem NoOut.procArrow (recv : Option Ty) : NoOut (Parse.procArrow recv) := by
  intro i
  have h : Tot (i.length + 1) (Parse.procArrow recv) := by
    cases recv with
    | none => unfold QM.Parse.procArrow; noout_tac
    | some x => exact Tot.arrow _
  exact h i (Nat.lt_succ_self _)

/-- `parenProcessFromFirst` through `procArrow` -/
theorem parenProcessFromFirst_eq (k : Knot) (i : Str) (recv : Option Ty) (more : List Field)
    (firstEnd afterOpen content : Str) :
    parenProcessFromFirst k i (some ⟨Field.field none (Ty.proc recv none) :: more, some firstEnd, afterOpen, content⟩) =
      if headIs '@' afterOpen then
        match procArrow recv firstEnd with
        | .ok _ r1 =>
          match k.bt r1 with
          | .ok ret r2 =>
            match pchar ')' r2 with
            | .ok _ rest => .ok (.proc recv (some ret)) rest
            | _ => .err i .verify
          | .err _ _ => .err i .verify
          | .out => .out
        | _ => .err i .verify
      else .err i .verify := by
  cases recv <;> rfl

theorem ppff_shape (i : Str) (l : Option ParenList) :
    (∃ recv more fe ao ct, l = some ⟨Field.field none (Ty.proc recv none) :: more, some fe, ao, ct⟩) ∨
    (∀ k : Knot, parenProcessFromFirst k i l = .err i .verify) := by
  by_cases h : ∃ recv more fe ao ct,
      l = some ⟨Field.field none (Ty.proc recv none) :: more, some fe, ao, ct⟩
  · exact Or.inl h
  · refine Or.inr (fun k => ?_)
    unfold parenProcessFromFirst
    split
    · rename_i recv more fe ao ct
      exact absurd ⟨recv, more, fe, ao, ct, rfl⟩ h
    · rfl

theorem ppff_within {k : Knot} (hk : KSound k) {i : Str} {l : ParenList}
    (hfe : ∀ fe, l.firstEnd = some fe → fe <:+ i) :
    (parenProcessFromFirst k i (some l)).Within i := by
  rcases ppff_shape i (some l) with ⟨recv, more, fe, ao, ct, h⟩ | h
  · simp only [Option.some.injEq] at h
    subst h
    rw [parenProcessFromFirst_eq]
    have hfe' : fe <:+ i := hfe fe rfl
    split
    · cases e1 : procArrow recv fe with
      | ok u r1 =>
        have h1 := (Sound.procArrow recv).ok e1
        dsimp only
        cases e2 : k.bt r1 with
        | ok ret r2 =>
          have h2 := hk.2.ok e2
          dsimp only
          cases e3 : pchar ')' r2 with
          | ok u2 rest =>
            exact List.IsSuffix.trans ((Sound.pchar _).ok e3)
              (List.IsSuffix.trans h2 (List.IsSuffix.trans h1 hfe'))
          | err x y => exact List.suffix_refl _
          | out => exact List.suffix_refl _
        | err x y => exact List.suffix_refl _
        | out => trivial
      | err x y => exact List.suffix_refl _
      | out => exact List.suffix_refl _
    · exact List.suffix_refl _
  · rw [h k]; exact List.suffix_refl _

theorem ppff_tot {k : Knot} {m : Nat} (hk : KTot m k) {i : Str} {l : ParenList}
    (hfe : ∀ fe, l.firstEnd = some fe → fe.length ≤ m) :
    parenProcessFromFirst k i (some l) ≠ .out := by
  rcases ppff_shape i (some l) with ⟨recv, more, fe, ao, ct, h⟩ | h
  · simp only [Option.some.injEq] at h
    subst h
    rw [parenProcessFromFirst_eq]
    have hfe' : fe.length ≤ m := hfe fe rfl
    split
    · cases e1 : procArrow recv fe with
      | ok u r1 =>
        have h1 := (Strict.procArrow recv).ok e1
        dsimp only
        cases e2 : k.bt r1 with
        | ok ret r2 => dsimp only; cases pchar ')' r2 <;> simp
        | err x y => simp
        | out => exact absurd e2 (hk.2 r1 (by omega))
      | err x y => simp
      | out => simp
    · simp
  · rw [h k]; simp

theorem ppff_ple {k k' : Knot} (h : KLe k k') (i : Str) (l : Option ParenList)
    (hne : parenProcessFromFirst k i l ≠ .out) :
    parenProcessFromFirst k' i l = parenProcessFromFirst k i l := by
  rcases ppff_shape i l with ⟨recv, more, fe, ao, ct, hl⟩ | hl
  · subst hl
    rw [parenProcessFromFirst_eq] at hne ⊢
    rw [parenProcessFromFirst_eq]
    split
    · rename_i hat
      simp only [hat, if_true] at hne
      cases e1 : procArrow recv fe with
      | ok u r1 =>
        rw [e1] at hne
        dsimp only at hne ⊢
        have : k.bt r1 ≠ .out := by intro e; rw [e] at hne; exact hne rfl
        rw [h.2 r1 this]
      | err x y => rfl
      | out => rfl
    · rfl
  · rw [hl k, hl k']

/-! ### closure of `parenTypeG` -/

theorem parenTypeG_sound {k : Knot} (hk : KSound k) (gf : Bool) : Sound (parenTypeG gf k) := by
  intro i
  unfold parenTypeG
  cases e : parenList k i with
  | out => trivial
  | err x c =>
    exact parenAfterPartial_within (List.suffix_refl _) (by intro l' h; cases h)
  | ok l pos =>
    have hpos := (parenList_sound hk).ok e
    have hfe0 : ∀ fe, l.firstEnd = some fe → fe <:+ i := fun fe hf => parenList_firstEnd hk e hf
    have hfe : ∀ l', some l = some l' → ∀ fe, l'.firstEnd = some fe → fe <:+ i := by
      intro l' h fe hf; cases h; exact hfe0 fe hf
    have hq := ppff_within hk (i := i) (l := l) hfe0
    dsimp only
    cases e2 : closeParen pos with
    | ok u rest =>
      dsimp only
      split
      · exact List.IsSuffix.trans (Sound.closeParen.ok e2) hpos
      · exact parenAfterPartial_within hq hfe
    | err x c => exact parenAfterPartial_within hq hfe
    | out => exact parenAfterPartial_within hq hfe

theorem groupDecision_ne_out (i : Str) (l : Option ParenList) : groupDecision i l ≠ .out := by
  unfold groupDecision
  split
  · split
    · split <;> simp
    · simp
  · simp

theorem parenAfterPartial_ne_out {gf : Bool} {i : Str} {l : Option ParenList} {q : Res Ty}
    (hq : q ≠ .out) : parenAfterPartial gf i l q ≠ .out := by
  unfold parenAfterPartial
  cases gf with
  | true =>
    simp only [if_true]
    cases eg : groupDecision i l with
    | ok t r => simp
    | out => exact absurd eg (groupDecision_ne_out i l)
    | err x c => dsimp only; cases q <;> simp_all
  | false =>
    simp only [Bool.false_eq_true, if_false]
    cases q with
    | ok t r => simp
    | out => exact absurd rfl hq
    | err x c => exact groupDecision_ne_out i l

theorem parenTypeG_tot {k : Knot} {m : Nat} (sk : KSound k) (hk : KTot m k) (gf : Bool) :
    Tot (m + 1) (parenTypeG gf k) := by
  intro i hi
  have h1 := parenList_tot sk hk i hi
  unfold parenTypeG
  cases e : parenList k i with
  | out => exact absurd e h1
  | err x c => exact parenAfterPartial_ne_out (by simp)
  | ok l pos =>
    have hq : parenProcessFromFirst k i (some l) ≠ .out :=
      ppff_tot hk (fun fe hf => by have := (parenList_firstEnd sk e hf).length_le; omega)
    dsimp only
    cases e2 : closeParen pos with
    | ok u rest =>
      dsimp only
      split
      · simp
      · exact parenAfterPartial_ne_out hq
    | err x c => exact parenAfterPartial_ne_out hq
    | out => exact parenAfterPartial_ne_out hq

theorem parenAfterPartial_ple {gf : Bool} {i : Str} {l : Option ParenList} {q q' : Res Ty}
    (hq : q ≠ .out → q' = q) (hne : parenAfterPartial gf i l q ≠ .out) :
    parenAfterPartial gf i l q' = parenAfterPartial gf i l q := by
  unfold parenAfterPartial at hne ⊢
  cases gf with
  | true =>
    simp only [if_true] at hne ⊢
    cases eg : groupDecision i l with
    | ok t r => rfl
    | out =>
      rw [eg] at hne; dsimp only at hne ⊢
      have : q ≠ .out := by intro e; rw [e] at hne; simp at hne
      rw [hq this]
    | err x c =>
      rw [eg] at hne; dsimp only at hne ⊢
      have : q ≠ .out := by intro e; rw [e] at hne; simp at hne
      rw [hq this]
  | false =>
    simp only [Bool.false_eq_true, if_false] at hne ⊢
    have : q ≠ .out := by intro e; rw [e] at hne; simp at hne
    rw [hq this]

theorem parenTypeG_ple {k k' : Knot} (h : KLe k k') (gf : Bool) :
    PLe (parenTypeG gf k) (parenTypeG gf k') := by
  intro i hne
  have hl := parenList_ple h i
  unfold parenTypeG at hne ⊢
  cases e : parenList k i with
  | out => rw [e] at hne; exact absurd rfl hne
  | err x c => rw [hl (by rw [e]; simp), e]
  | ok l pos =>
    rw [hl (by rw [e]; simp), e]
    rw [e] at hne
    dsimp only at hne ⊢
    have hq := ppff_ple h i (some l)
    cases e2 : closeParen pos with
    | ok u rest =>
      rw [e2] at hne
      dsimp only at hne ⊢
      split
      · rfl
      · rename_i hp; simp only [hp] at hne; exact parenAfterPartial_ple hq hne
    | err x c => rw [e2] at hne; exact parenAfterPartial_ple hq hne
    | out => rw [e2] at hne; exact parenAfterPartial_ple hq hne

section
variable {k : Knot} (hk : KSound k)
include hk
theorem functionIoTypeG_sound : Sound (functionIoTypeG k) := by
  unfold functionIoTypeG
  have := namedPartialType_sound hk; have := parenTypeG_sound hk true; have := tupleType_sound hk
  have := Sound.resourceType; have := Sound.typeCycle; have := atProcessType_sound hk
  have := moduleType_sound hk; have := typeIdentifier_sound hk; have := selfDefaultType_sound hk
  sound_tac
theorem functionTypeG_sound : Sound (functionTypeG k) := by
  unfold functionTypeG; have := functionIoTypeG_sound hk; have := Sound.arrow; sound_tac
theorem baseTypeG_sound : Sound (baseTypeG k) := by
  unfold baseTypeG
  have := namedPartialType_sound hk; have := parenTypeG_sound hk false; have := tupleType_sound hk
  have := Sound.resourceType; have := Sound.typeCycle; have := atProcessType_sound hk
  have := moduleType_sound hk; have := typeIdentifier_sound hk; have := selfDefaultType_sound hk
  have := Sound.typeParameter
  sound_tac
end

theorem typeDefinitionG_sound {k : Knot} (hk : KSound k) {bt : P Ty} (hb : Sound bt) :
    Sound (typeDefinitionG k bt) := by
  unfold typeDefinitionG
  have := functionTypeG_sound hk; have := intersectionType_sound hb; have := Sound.barOp '|'
  sound_tac

section
variable {k : Knot} {m : Nat} (sk : KSound k) (hk : KTot m k)
include sk hk
theorem functionIoTypeG_tot : Tot (m + 1) (functionIoTypeG k) := by
  unfold functionIoTypeG
  have := namedPartialType_tot sk hk; have := parenTypeG_tot sk hk true; have := tupleType_tot sk hk
  have := atProcessType_tot sk hk; have := moduleType_tot sk hk; have := typeIdentifier_tot sk hk
  have := selfDefaultType_tot sk hk
  tot_tac
theorem functionTypeG_tot : Tot (m + 1) (functionTypeG k) := by
  unfold functionTypeG
  have := functionIoTypeG_sound sk; have := functionIoTypeG_tot sk hk
  tot_tac
theorem baseTypeG_tot : Tot (m + 1) (baseTypeG k) := by
  unfold baseTypeG
  have := namedPartialType_tot sk hk; have := parenTypeG_tot sk hk false; have := tupleType_tot sk hk
  have := atProcessType_tot sk hk; have := moduleType_tot sk hk; have := typeIdentifier_tot sk hk
  have := selfDefaultType_tot sk hk
  tot_tac
end

theorem typeDefinitionG_tot {k : Knot} {m : Nat} (sk : KSound k) (hk : KTot m k) {bt : P Ty}
    (sb : Sound bt) (hb : Tot (m + 1) bt) : Tot (m + 1) (typeDefinitionG k bt) := by
  unfold typeDefinitionG
  have := functionTypeG_tot sk hk
  have := intersectionType_sound sb; have := intersectionType_tot sb hb
  tot_tac

section
variable {k k' : Knot} (h : KLe k k')
include h
theorem functionIoTypeG_ple : PLe (functionIoTypeG k) (functionIoTypeG k') := by
  unfold functionIoTypeG
  have := namedPartialType_ple h; have := parenTypeG_ple h true; have := tupleType_ple h
  have := atProcessType_ple h; have := moduleType_ple h; have := typeIdentifier_ple h
  have := selfDefaultType_ple h
  ple_tac
theorem functionTypeG_ple : PLe (functionTypeG k) (functionTypeG k') := by
  unfold functionTypeG; have := functionIoTypeG_ple h; ple_tac
theorem baseTypeG_ple : PLe (baseTypeG k) (baseTypeG k') := by
  unfold baseTypeG
  have := namedPartialType_ple h; have := parenTypeG_ple h false; have := tupleType_ple h
  have := atProcessType_ple h; have := moduleType_ple h; have := typeIdentifier_ple h
  have := selfDefaultType_ple h
  ple_tac
end

theorem typeDefinitionG_ple {k k' : Knot} (h : KLe k k') {bt bt' : P Ty} (hb : PLe bt bt') :
    PLe (typeDefinitionG k bt) (typeDefinitionG k' bt') := by
  unfold typeDefinitionG
  have := functionTypeG_ple h; have := intersectionType_ple hb
  ple_tac

/-! ### one level: the separate `(@t -> t)` alternative and `parenProcessFromFirst` -/

/-- what `type_definition` does behind the first intersection member -/
def contTd (bt : P Ty) (first : Ty) : P Ty :=
  bind (pmap (many0 (seq (barOp '&') bt)) fun rest =>
      if rest.isEmpty then first else Ty.inter (first :: rest)) fun f1 =>
    pmap (many0 (seq (barOp '|') (intersectionType bt))) fun rest =>
      if rest.isEmpty then f1 else Ty.union (f1 :: rest)

theorem many0_nil_rest {α : Type} {p : P α} {i r : Str} (h : many0 p i = .ok [] r) : r = i := by
  unfold many0 at h
  simp only [many0Loop] at h
  cases e : p i with
  | ok a r1 =>
    rw [e] at h; dsimp only at h
    by_cases hl : r1.length = i.length
    · simp [hl] at h
    · simp only [hl, if_false] at h
      cases e2 : many0Loop p i.length r1 with
      | ok as r' => rw [e2] at h; simp at h
      | err x y => rw [e2] at h; simp at h
      | out => rw [e2] at h; simp at h
  | err x y => rw [e] at h; simp at h; exact h.symm
  | out => rw [e] at h; simp at h

theorem contTd_nil {bt : P Ty} {first : Ty} {p : Str} (h1 : Fails (barOp '&') p)
    (h2 : Fails (barOp '|') p) : contTd bt first p = .ok first p := by
  unfold contTd
  rw [bind_ok (pmap_ok (many0_of_fails (Fails.seq h1))), pmap_ok (many0_of_fails (Fails.seq h2))]
  simp

theorem contTd_proc {bt : P Ty} {first T : Ty} {p pT : Str} (h : contTd bt first p = .ok T pT)
    (hi : ∀ ts, T ≠ .inter ts) (hu : ∀ ts, T ≠ .union ts) : T = first ∧ pT = p := by
  unfold contTd at h
  obtain ⟨f1, p1, h1, h2⟩ := bind_ok_inv h
  obtain ⟨rest1, h1', hf1⟩ := pmap_ok_inv h1
  obtain ⟨rest2, h2', hT⟩ := pmap_ok_inv h2
  cases rest2 with
  | cons x xs => simp at hT; exact absurd hT (hu _)
  | nil =>
    simp at hT
    have hp2 := many0_nil_rest h2'
    cases rest1 with
    | cons y ys => simp at hf1; rw [hT, hf1] at hi; exact absurd rfl (hi _)
    | nil =>
      simp at hf1
      have hp1 := many0_nil_rest h1'
      exact ⟨by rw [hT, hf1], by rw [hp2, hp1]⟩

/-- `base_type` on a text that starts with `@` -/
theorem base_at (k' : Knot) (u : Str) :
    baseTypeWith k' ('@' :: u) = pmap (opt k'.bt) (fun a => Ty.proc a none) u := by
  unfold baseTypeWith
  rw [alt_of_fails (tupleType_fails_head k' (by simp [headAll, isUpper])),
    alt_of_fails (partialType_fails_head k' (by simp [headAll, isUpper])),
    alt_of_fails (resourceType_fails_head (by simp [headAll])),
    alt_of_fails (typeCycle_fails_head (by simp [headAll]))]
  have hp : processType k' ('@' :: u) = pmap (opt k'.bt) (fun a => Ty.proc a none) u := by
    unfold processType
    rw [alt_of_fails (Fails.delimited (pchar_ne (by decide) _)), seq_ok (pchar_self _ _)]
  unfold alt
  rw [hp]
  unfold pmap opt
  cases k'.bt u <;> rfl

/-- `type_definition` on a text that starts with `@` -/
theorem td_at (k' : Knot) (u : Str) :
    typeDefinitionWith k' (baseTypeWith k') ('@' :: u) =
      match k'.bt u with
      | .ok A u1 => contTd (baseTypeWith k') (.proc (some A) none) u1
      | .err _ _ => contTd (baseTypeWith k') (.proc none none) u
      | .out => .out := by
  unfold typeDefinitionWith
  rw [alt_of_fails (functionType_fails_head k' (by simp [headAll]))]
  have hbar : Fails (barOp '|') ('@' :: u) :=
    Fails.seq_ok (a := ()) (wsc_of_head (by simp [headAll, isMultispace])) (Fails.seq (pchar_ne (by decide) _))
  rw [seq_ok (opt_of_fails hbar)]
  unfold intersectionType contTd
  simp only [Parse.bind, base_at, Parse.pmap, Parse.opt]
  cases k'.bt u <;> rfl

/-- the arrow, the return type and the closing parenthesis of a parenthesised process form -/
def procTail (k : Knot) (recv : Option Ty) (p : Str) : Res Ty :=
  match procArrow recv p with
  | .ok _ v =>
    match k.bt v with
    | .ok R v2 =>
      match pchar ')' v2 with
      | .ok _ rest => .ok (.proc recv (some R)) rest
      | .err e c => .err e c
      | .out => .out
    | .err e c => .err e c
    | .out => .out
  | .err e c => .err e c
  | .out => .out

theorem ppff_procTail (k : Knot) (i : Str) (recv : Option Ty) (more : List Field)
    (fe ao ct : Str) (hat : headIs '@' ao = true) :
    Res.errEq (procTail k recv fe)
      (parenProcessFromFirst k i (some ⟨Field.field none (Ty.proc recv none) :: more, some fe, ao, ct⟩)) := by
  rw [parenProcessFromFirst_eq]
  simp only [hat, if_true]
  unfold procTail
  cases e1 : procArrow recv fe with
  | ok u v =>
    dsimp only
    cases e2 : k.bt v with
    | ok R v2 =>
      dsimp only
      cases e3 : pchar ')' v2 with
      | ok u2 rest => exact Or.inl rfl
      | err x y => exact Or.inr ⟨⟨_, _, rfl⟩, ⟨_, _, rfl⟩⟩
      | out => exact absurd e3 (NoOut.pchar _ _)
    | err x y => exact Or.inr ⟨⟨_, _, rfl⟩, ⟨_, _, rfl⟩⟩
    | out => exact Or.inl rfl
  | err x y => exact Or.inr ⟨⟨_, _, rfl⟩, ⟨_, _, rfl⟩⟩
  | out => exact absurd e1 (NoOut.procArrow _ _)

/-- the old alternative `(@t -> t)` / `(@-> t)` in terms of `procTail` -/
theorem parenProcessType_some (k : Knot) (u u1 : Str) (A : Ty) (hbt : k.bt u = .ok A u1)
    (hq1 : Fails (seq ws0 (seq (ptag ['-', '>']) ws1)) u) :
    Res.errEq (parenProcessType k ('(' :: '@' :: u)) (procTail k (some A) u1) := by
  have hq1a : Fails (pmap (seq (seq (pchar '@') (seq ws0 (seq (ptag ['-', '>']) ws1))) k.bt)
      fun r => Ty.proc none (some r)) ('@' :: u) :=
    Fails.pmap (Fails.seq (Fails.seq_ok (pchar_self _ _) hq1))
  unfold parenProcessType delimited
  rw [seq_ok (pchar_self _ _)]
  unfold before
  rw [alt_of_fails hq1a, seq_ok (pchar_self _ _), bind_ok hbt]
  unfold procTail
  simp only [procArrow, seq, Parse.bind, Parse.pmap]
  cases e1 : arrow u1 with
  | ok x v =>
    dsimp only
    cases e2 : k.bt v with
    | ok R v2 =>
      dsimp only
      cases e3 : pchar ')' v2 with
      | ok u2 rest => exact Or.inl rfl
      | err x y => exact Or.inl rfl
      | out => exact Or.inl rfl
    | err x y => exact Or.inl rfl
    | out => exact Or.inl rfl
  | err x y => exact Or.inl rfl
  | out => exact Or.inl rfl

theorem parenProcessType_none (k : Knot) (u : Str) (hbt : Fails k.bt u) :
    Res.errEq (parenProcessType k ('(' :: '@' :: u)) (procTail k none u) := by
  have hq1b : Fails (seq (pchar '@')
      (bind k.bt fun a => seq arrow (pmap k.bt fun r => Ty.proc (some a) (some r)))) ('@' :: u) :=
    Fails.seq_ok (pchar_self _ _) (Fails.bind hbt)
  unfold parenProcessType delimited
  rw [seq_ok (pchar_self _ _)]
  unfold before procTail
  -- the first arm decides
  cases e1 : procArrow none u with
  | ok x v =>
    have hpre : seq (pchar '@') (seq ws0 (seq (ptag ['-', '>']) ws1)) ('@' :: u) = .ok () v := by
      rw [seq_ok (pchar_self _ _)]; exact e1
    dsimp only
    cases e2 : k.bt v with
    | ok R v2 =>
      rw [alt_of_ok (pmap_ok (a := R) (r := v2) (by rw [seq_ok hpre]; exact e2))]
      dsimp only
      cases e3 : pchar ')' v2 with
      | ok u2 rest => exact Or.inl rfl
      | err x y => exact Or.inl rfl
      | out => exact Or.inl rfl
    | err x y =>
      have : Fails (pmap (seq (seq (pchar '@') (seq ws0 (seq (ptag ['-', '>']) ws1))) k.bt)
          fun r => Ty.proc none (some r)) ('@' :: u) :=
        Fails.pmap (Fails.seq_ok hpre ⟨x, y, e2⟩)
      rw [alt_of_fails this]
      obtain ⟨a, b, h⟩ := hq1b
      rw [h]; exact Or.inr ⟨⟨_, _, rfl⟩, ⟨_, _, rfl⟩⟩
    | out =>
      have : pmap (seq (seq (pchar '@') (seq ws0 (seq (ptag ['-', '>']) ws1))) k.bt)
          (fun r => Ty.proc none (some r)) ('@' :: u) = .out := by
        simp only [Parse.pmap, seq_ok hpre, e2]
      simp only [alt, this]; exact Or.inl rfl
  | err x y =>
    have : Fails (pmap (seq (seq (pchar '@') (seq ws0 (seq (ptag ['-', '>']) ws1))) k.bt)
        fun r => Ty.proc none (some r)) ('@' :: u) :=
      Fails.pmap (Fails.seq (Fails.seq_ok (pchar_self _ _) ⟨x, y, e1⟩))
    rw [alt_of_fails this]
    obtain ⟨a, b, h⟩ := hq1b
    rw [h]; exact Or.inr ⟨⟨_, _, rfl⟩, ⟨_, _, rfl⟩⟩
  | out => exact absurd e1 (NoOut.procArrow _ _)

theorem Res.errEq.trans {α : Type} {a b c : Res α} (h1 : Res.errEq a b) (h2 : Res.errEq b c) :
    Res.errEq a c := by
  rcases h1 with h1 | ⟨ha, hb⟩
  · rw [h1]; exact h2
  · rcases h2 with h2 | ⟨_, hc⟩
    · rw [← h2]; exact Or.inr ⟨ha, hb⟩
    · exact Or.inr ⟨ha, hc⟩

theorem Res.errEq.symm {α : Type} {a b : Res α} (h : Res.errEq a b) : Res.errEq b a := by
  rcases h with h | ⟨ha, hb⟩
  · exact Or.inl h.symm
  · exact Or.inr ⟨hb, ha⟩

theorem Res.errEq.err_right {α : Type} {a b : Res α} (h : Res.errEq a b) (ha : ∃ e c, a = .err e c) :
    ∃ e c, b = .err e c := by
  rcases h with h | ⟨_, hb⟩
  · rw [← h]; exact ha
  · exact hb

theorem sepList0Pos_first {α β : Type} {sep : P β} {p : P α} {x pos : Str} {fs : List α}
    {fe : Option Str} (h : sepList0Pos sep p x = .ok (fs, fe) pos) :
    (∀ a r, p x = .ok a r → ∃ more, fs = a :: more ∧ fe = some r) ∧
    (Fails p x → fs = [] ∧ fe = none) := by
  unfold sepList0Pos at h
  cases e : p x with
  | ok a r =>
    rw [e] at h; dsimp only at h
    cases e2 : sepLoop sep p (r.length + 1) r with
    | ok as r' =>
      rw [e2] at h
      simp only [Res.ok.injEq, Prod.mk.injEq] at h
      refine ⟨fun a' r'' h' => ?_, fun ⟨x1, y1, hf⟩ => (by rw [e] at hf; cases hf)⟩
      simp only [Res.ok.injEq] at h'
      exact ⟨as, by rw [← h.1.1, h'.1], by rw [← h.1.2, h'.2]⟩
    | err a b => rw [e2] at h; simp at h
    | out => rw [e2] at h; simp at h
  | err a b =>
    rw [e] at h
    simp only [Res.ok.injEq, Prod.mk.injEq] at h
    exact ⟨fun a' r' h' => (by cases h'), fun _ => ⟨h.1.1.symm, h.1.2.symm⟩⟩
  | out => rw [e] at h; simp at h

/-- an arrow at `p` means: after whitespace, `p` continues with `-` -/
theorem procArrow_dash {recv : Option Ty} {p v : Str} (h : procArrow recv p = .ok () v) :
    ∃ t, p.dropWhile isMultispace = '-' :: t := by
  have hpre : ∀ q w, seq (ptag ['-', '>']) ws1 q = .ok () w → ∃ t, q = '-' :: t := by
    intro q w hq
    obtain ⟨_, r1, h1, _⟩ := seq_ok_inv hq
    unfold ptag at h1
    cases q with
    | nil => simp [isPrefix] at h1
    | cons c t =>
      by_cases hc : c = '-'
      · exact ⟨t, by rw [hc]⟩
      · have hne : ¬ ('-' = c) := fun e => hc e.symm
        simp [isPrefix, hne] at h1
  cases recv with
  | none =>
    simp only [procArrow] at h
    obtain ⟨_, r1, h1, h2⟩ := seq_ok_inv h
    simp only [ws0, Res.ok.injEq] at h1
    rw [← h1.2] at h2
    exact hpre _ _ h2
  | some x =>
    simp only [procArrow, arrow] at h
    obtain ⟨_, r1, h1, h2⟩ := seq_ok_inv h
    unfold ws1 at h1
    cases p with
    | nil => simp at h1
    | cons c r =>
      by_cases hc : isMultispace c = true
      · simp only [hc, if_true, Res.ok.injEq] at h1
        rw [List.dropWhile_cons, if_pos hc, h1.2]
        exact hpre _ _ h2
      · simp [hc] at h1

theorem bar_fails_of_dash {p t : Str} {c : Char} (hc : c ≠ '-')
    (h : p.dropWhile isMultispace = '-' :: t) : Fails (barOp c) p := by
  have hsk : skipWsc false p = '-' :: t := by
    rw [skipWsc_dropWhile, h]; exact skipWsc_of_head (by simp [headAll, isMultispace])
  exact Fails.seq_ok (a := ()) (r := '-' :: t) (by simp [wsc, hsk])
    (Fails.seq (pchar_ne (fun e => hc e.symm) _))

theorem fieldType_at (k : Knot) (u : Str) :
    fieldType k ('@' :: u) = pmap k.td (fun t => Field.field none t) ('@' :: u) := by
  unfold fieldType
  rw [alt_of_fails (Fails.seq (ptag_fails_of_head rfl (by simp [headAll]))),
    alt_of_fails (Fails.bind (identifier_fails_of_head (by simp [headAll, isLower])))]

/-- What the one-level lemma needs of the knot below: its `base_type` rejects a text that, after
    whitespace, continues with `-` (true of every unfolded knot), and the knot above agrees with it
    wherever it has an answer. -/
structure KRecv (k' : Knot) : Prop where
  dash : ∀ (x t : Str) (A : Ty) (r : Str), x.dropWhile isMultispace = '-' :: t → k'.bt x ≠ .ok A r
  mono : PLe k'.bt k'.step.bt

/-- **Q_eq**: behind the partial-type test, the separate alternative `(@t -> t)` / `(@-> t)` and its
    continuation from the first field agree (up to which error is reported). -/
theorem Q_eq {k' : Knot} (hk : KRecv k') {s pos : Str} {l : ParenList}
    (hl : parenList k'.step ('(' :: s) = .ok l pos) :
    Res.errEq (parenProcessType k'.step ('(' :: s))
      (parenProcessFromFirst k'.step ('(' :: s) (some l)) := by
  rw [parenList_cons] at hl
  obtain ⟨r, hr, hl'⟩ := pmap_ok_inv hl
  subst hl'
  have hr' : sepList0Pos commaWsc (fieldType k'.step) (skipWsc false s) = .ok (r.1, r.2) pos := hr
  by_cases hat : headIs '@' s = true
  case neg =>
    -- no `(@`: both fail
    have hold : Fails (parenProcessType k'.step) ('(' :: s) := by
      have hh : headAll (· ≠ '@') s = true := by
        cases s with
        | nil => rfl
        | cons c t => simpa [headAll, headIs] using hat
      unfold parenProcessType delimited
      exact Fails.seq_ok (pchar_self _ _) (Fails.before (Fails.alt
        (Fails.pmap (Fails.seq (Fails.seq (pchar_fails_of_head hh)))) (Fails.seq (pchar_fails_of_head hh))))
    refine Or.inr ⟨hold, ?_⟩
    rcases ppff_shape ('(' :: s) (some ⟨r.1, r.2, s, skipWsc false s⟩) with ⟨recv, more, fe, ao, ct, h⟩ | h
    · simp only [Option.some.injEq, ParenList.mk.injEq] at h
      obtain ⟨h1, h2, h3, h4⟩ := h
      rw [show (⟨r.1, r.2, s, skipWsc false s⟩ : ParenList) =
        ⟨Field.field none (Ty.proc recv none) :: more, some fe, s, skipWsc false s⟩ by rw [h1, h2]]
      rw [parenProcessFromFirst_eq]
      simp only [hat]
      exact ⟨_, _, rfl⟩
    · exact ⟨_, _, h _⟩
  -- `(@ u`
  obtain ⟨u, rfl⟩ : ∃ u, s = '@' :: u := by
    cases s with
    | nil => simp [headIs] at hat
    | cons c t => exact ⟨t, by simp [headIs] at hat; rw [hat]⟩
  have hct : skipWsc false ('@' :: u) = '@' :: u := skipWsc_of_head (by simp [headAll, isMultispace])
  rw [hct] at hr'
  have hfirst := sepList0Pos_first hr'
  rw [fieldType_at] at hfirst
  have htd : k'.step.td ('@' :: u) = typeDefinitionWith k' (baseTypeWith k') ('@' :: u) := rfl
  -- whatever the new function sees as first field comes from `type_definition` on `@ u`
  have hnew : ∀ recv (p : Str), k'.step.td ('@' :: u) = contTd (baseTypeWith k') (.proc recv none) p →
      Res.errEq (procTail k'.step recv p)
        (parenProcessFromFirst k'.step ('(' :: '@' :: u) (some ⟨r.1, r.2, '@' :: u, skipWsc false ('@' :: u)⟩)) := by
    intro recv p hRT
    cases ea : procArrow recv p with
    | ok x v =>
      cases x
      obtain ⟨t, hd⟩ := procArrow_dash ea
      have hRT' : k'.step.td ('@' :: u) = .ok (.proc recv none) p := by
        rw [hRT]
        exact contTd_nil (bar_fails_of_dash (by decide) hd) (bar_fails_of_dash (by decide) hd)
      obtain ⟨more, h1, h2⟩ := hfirst.1 _ _ (pmap_ok hRT')
      rw [show (⟨r.1, r.2, '@' :: u, skipWsc false ('@' :: u)⟩ : ParenList) =
        ⟨Field.field none (Ty.proc recv none) :: more, some p, '@' :: u, skipWsc false ('@' :: u)⟩ by
          rw [h1, h2]]
      exact ppff_procTail _ _ _ _ _ _ _ rfl
    | err x y =>
      have hpt : ∃ e c, procTail k'.step recv p = .err e c := ⟨x, y, by simp [procTail, ea]⟩
      refine Or.inr ⟨hpt, ?_⟩
      rcases ppff_shape ('(' :: '@' :: u) (some ⟨r.1, r.2, '@' :: u, skipWsc false ('@' :: u)⟩)
        with ⟨recv2, more, fe, ao, ct, h⟩ | h
      · simp only [Option.some.injEq, ParenList.mk.injEq] at h
        obtain ⟨h1, h2, h3, h4⟩ := h
        -- the first field is a bare process type: it is the one `contTd` started from
        have hft : pmap k'.step.td (fun t => Field.field none t) ('@' :: u) =
            .ok (.field none (.proc recv2 none)) fe := by
          cases eft : pmap k'.step.td (fun t => Field.field none t) ('@' :: u) with
          | ok a r0 =>
            obtain ⟨more', h1', h2'⟩ := hfirst.1 a r0 eft
            rw [h1] at h1'; rw [h2] at h2'
            simp only [List.cons.injEq, Option.some.injEq] at h1' h2'
            rw [← h1'.1, ← h2']
          | err a b =>
            have := hfirst.2 ⟨a, b, eft⟩
            rw [h1] at this; simp at this
          | out =>
            unfold sepList0Pos at hr'
            rw [fieldType_at, eft] at hr'; simp at hr'
        obtain ⟨T, hT, hTe⟩ := pmap_ok_inv hft
        simp only [Field.field.injEq, true_and] at hTe
        rw [hRT] at hT
        obtain ⟨hT1, hT2⟩ := contTd_proc hT (by intro ts; rw [← hTe]; simp) (by intro ts; rw [← hTe]; simp)
        rw [← hTe] at hT1
        simp only [Ty.proc.injEq, and_true] at hT1
        rw [show (⟨r.1, r.2, '@' :: u, skipWsc false ('@' :: u)⟩ : ParenList) =
          ⟨Field.field none (Ty.proc recv none) :: more, some p, '@' :: u, skipWsc false ('@' :: u)⟩ by
            rw [h1, h2, hT1, hT2]]
        exact (ppff_procTail _ _ _ _ _ _ _ rfl).err_right hpt
      · exact ⟨_, _, h _⟩
    | out => exact absurd ea (NoOut.procArrow _ _)
  -- the receive type, read one level below
  cases e0 : k'.bt u with
  | ok A u1 =>
    have hkbt : k'.step.bt u = .ok A u1 := by rw [hk.mono u (by rw [e0]; simp), e0]
    have hpre : Fails (seq ws0 (seq (ptag ['-', '>']) ws1)) u := by
      cases ep : procArrow none u with
      | ok x v =>
        cases x
        obtain ⟨t, hd⟩ := procArrow_dash ep
        exact absurd e0 (hk.dash u t A u1 hd)
      | err x y => exact ⟨x, y, ep⟩
      | out => exact absurd ep (NoOut.procArrow _ _)
    have hRT : k'.step.td ('@' :: u) = contTd (baseTypeWith k') (.proc (some A) none) u1 := by
      rw [htd, td_at, e0]
    exact (parenProcessType_some _ u u1 A hkbt hpre).trans (hnew (some A) u1 hRT)
  | err x y =>
    have hkbt : Fails k'.step.bt u := ⟨x, y, by rw [hk.mono u (by rw [e0]; simp), e0]⟩
    have hRT : k'.step.td ('@' :: u) = contTd (baseTypeWith k') (.proc none none) u := by
      rw [htd, td_at, e0]
    exact (parenProcessType_none _ u hkbt).trans (hnew none u hRT)
  | out =>
    -- then the field list ran out of fuel as well
    unfold sepList0Pos at hr'
    rw [fieldType_at] at hr'
    simp [Parse.pmap, htd, td_at, e0] at hr'

theorem parenAfterPartial_congr {gf : Bool} {i : Str} {l : Option ParenList} {q q' : Res Ty}
    (h : Res.errEq q q') : parenAfterPartial gf i l q = parenAfterPartial gf i l q' := by
  rcases h with h | ⟨⟨a, b, h1⟩, ⟨a', b', h2⟩⟩
  · rw [h]
  · rw [h1, h2]; unfold parenAfterPartial; cases gf <;> rfl

/-- one level, every input: `paren_type` with the continuation from the first field IS `paren_type`
    with the separate alternative -/
theorem parenTypeG_eq {k' : Knot} (hk : KRecv k') (gf : Bool) :
    parenTypeG gf k'.step = parenType gf k'.step := by
  funext i
  unfold parenTypeG parenType
  cases e : parenList k'.step i with
  | out => rfl
  | err x y =>
    have hq : Fails (parenProcessType k'.step) i := by
      cases i with
      | nil => exact Fails.delimited (pchar_nil _)
      | cons c s =>
        by_cases hc : c = '('
        · subst hc; exact absurd e (parenList_not_err s x y)
        · exact Fails.delimited (pchar_ne hc _)
    obtain ⟨a, b, hq⟩ := hq
    dsimp only
    exact parenAfterPartial_congr (Or.inr ⟨⟨_, _, rfl⟩, ⟨a, b, hq⟩⟩)
  | ok l pos =>
    have hi : ∃ s, i = '(' :: s := by
      cases i with
      | nil => simp [parenList, seq, Parse.bind, pchar] at e
      | cons c s =>
        by_cases hc : c = '('
        · exact ⟨s, by rw [hc]⟩
        · simp [parenList, seq, Parse.bind, pchar, hc] at e
    obtain ⟨s, rfl⟩ := hi
    have hq := (Q_eq hk e).symm
    dsimp only
    cases closeParen pos with
    | ok u rest =>
      dsimp only
      split
      · rfl
      · exact parenAfterPartial_congr hq
    | err x y => exact parenAfterPartial_congr hq
    | out => exact parenAfterPartial_congr hq

theorem gradeG_eq {k' : Knot} (hk : KRecv k') :
    baseTypeG k'.step = baseTypeF k'.step ∧ functionIoTypeG k'.step = functionIoTypeF k'.step ∧
    typeDefinitionG k'.step (baseTypeG k'.step) = typeDefinitionF k'.step (baseTypeF k'.step) := by
  have hb : baseTypeG k'.step = baseTypeF k'.step := by
    unfold baseTypeG baseTypeF; rw [parenTypeG_eq hk]
  have hf : functionIoTypeG k'.step = functionIoTypeF k'.step := by
    unfold functionIoTypeG functionIoTypeF; rw [parenTypeG_eq hk]
  refine ⟨hb, hf, ?_⟩
  unfold typeDefinitionG typeDefinitionF functionTypeG functionTypeF
  rw [hb, hf]

/-- every knot of the grammar has `KRecv` -/
theorem knot_krecv (n : Nat) : KRecv (knot n) where
  dash := by
    intro x t A r hd
    cases n with
    | zero => simp [knot]
    | succ m =>
      have hf : Fails (baseTypeWith (knot m)) x := by
        cases x with
        | nil => simp at hd
        | cons c s =>
          by_cases hc : isMultispace c = true
          · refine base_fails_head (knot m) s ?_
            simp only [isMultispace, Bool.or_eq_true, decide_eq_true_eq] at hc
            rcases hc with ((rfl | rfl) | rfl) | rfl <;> decide
          · rw [List.dropWhile_cons, if_neg hc] at hd
            simp only [List.cons.injEq] at hd
            rw [hd.1]; exact base_fails_head (knot m) s (by decide)
      obtain ⟨a, b, hf⟩ := hf
      show baseTypeWith (knot m) x ≠ _
      rw [hf]; simp
  mono := (knot_mono n).2

theorem parenTypeG_eq_nonparen (gf : Bool) (k : Knot) {i : Str} (hh : headAll (· ≠ '(') i = true) :
    parenTypeG gf k i = parenType gf k i := by
  obtain ⟨a, b, h1⟩ : Fails (parenList k) i := Fails.seq (pchar_fails_of_head hh)
  obtain ⟨c, d, h2⟩ : Fails (parenProcessType k) i := Fails.delimited (pchar_fails_of_head hh)
  unfold parenTypeG parenType
  rw [h1]
  exact parenAfterPartial_congr (Or.inr ⟨⟨_, _, rfl⟩, ⟨c, d, h2⟩⟩)

theorem baseTypeG_nil (k : Knot) : baseTypeG k [] = baseTypeWith k [] := by
  rw [← baseTypeF_eq_nonparen k (i := []) rfl]
  have := parenTypeG_eq_nonparen false k (i := []) rfl
  simp only [baseTypeG, baseTypeF, alt, this]

theorem tdG_nil_eq (k : Knot) :
    typeDefinitionG k (baseTypeG k) [] = typeDefinitionWith k (baseTypeWith k) [] := by
  have hb := baseTypeG_nil k
  obtain ⟨e, c, he⟩ := base_fails_nil k
  simp [typeDefinitionG, typeDefinitionWith, alt, functionTypeG, functionType, seq, Parse.bind,
    pchar, opt, barOp, wsc, skipWsc, intersectionType, hb, he]

/-- **knotG_eq**: with any fuel, on every input within that fuel, the grammar of the code since
    1d93429 (`knotG`: the receive type of a parenthesised process type is read once) and the original
    grammar give the same answer (value, remainder, error position and code). -/
theorem knotG_eq (n : Nat) : ∀ i : Str, i.length < n →
    (knotG n).td i = (knot n).td i ∧ (knotG n).bt i = (knot n).bt i := by
  induction n with
  | zero => intro i h; omega
  | succ n ih =>
    intro i hi
    have hle1 := knotCut_le n
    have hle2 : KLe (knotCut n) (knotG n) := by
      constructor
      · intro j hj; simp only [knotCut] at hj ⊢; split at hj
        · rename_i h; simp only [h, if_true]; exact (ih j h).1
        · exact absurd rfl hj
      · intro j hj; simp only [knotCut] at hj ⊢; split at hj
        · rename_i h; simp only [h, if_true]; exact (ih j h).2
        · exact absurd rfl hj
    have sk := knotCut_sound n
    have tk := knotCut_tot n
    have hbt : baseTypeG (knotG n) i = baseTypeG (knot n) i := by
      have hne := baseTypeG_tot sk tk i hi
      rw [baseTypeG_ple hle2 i hne, baseTypeG_ple hle1 i hne]
    have htd : typeDefinitionG (knotG n) (baseTypeG (knotG n)) i =
        typeDefinitionG (knot n) (baseTypeG (knot n)) i := by
      have hne := typeDefinitionG_tot sk tk (baseTypeG_sound sk) (baseTypeG_tot sk tk) i hi
      rw [typeDefinitionG_ple hle2 (baseTypeG_ple hle2) i hne,
        typeDefinitionG_ple hle1 (baseTypeG_ple hle1) i hne]
    show typeDefinitionG (knotG n) (baseTypeG (knotG n)) i = typeDefinitionWith (knot n) (baseTypeWith (knot n)) i ∧
      baseTypeG (knotG n) i = baseTypeWith (knot n) i
    rw [hbt, htd]
    cases n with
    | zero =>
      have : i = [] := List.eq_nil_of_length_eq_zero (by omega)
      subst this
      exact ⟨tdG_nil_eq _, baseTypeG_nil _⟩
    | succ m =>
      have hk := knot_khead m
      obtain ⟨hb, _, ht⟩ := gradeG_eq (knot_krecv m)
      have hs : (knot m).step = knot (m + 1) := rfl
      rw [hs] at hb ht
      exact ⟨by rw [ht, typeDefinitionF_eq hk], by rw [hb, baseTypeF_eq hk]⟩

end QM.Parse
