import QuiverModel.Core.Resources.Basic
/-!
Helper lemmas about the ownership map of M-Sys/resources (`Core/Resources/Basic.lean`):
`ownGet` after `ownInsert` / `ownErase` / `transfer` / `eraseAll`, key-uniqueness, `ownedBy`.
Core Lean only.
-/
namespace QM.Resources

theorem ownGet_erase (m : Own) (r r' : Rid) :
    ownGet (ownErase m r) r' = if r' = r then none else ownGet m r' := by
  induction m with
  | nil => simp [ownErase, ownGet]
  | cons e t ih =>
    obtain ⟨k, p⟩ := e
    unfold ownErase at ih ⊢
    by_cases hk : k = r
    · subst hk
      simp only [List.filter_cons, ne_eq, not_true_eq_false, decide_false, Bool.false_eq_true,
        ↓reduceIte, ih, ownGet]
      by_cases h : r' = k
      · simp [h]
      · have : ¬ k = r' := fun h' => h h'.symm
        simp [h, this]
    · simp only [List.filter_cons, ne_eq, hk, not_false_eq_true, decide_true, ↓reduceIte, ownGet, ih]
      by_cases h : k = r'
      · subst h; simp [hk]
      · simp [h]

theorem ownGet_insert (m : Own) (r : Rid) (p : Pid) (r' : Rid) :
    ownGet (ownInsert m r p) r' = if r' = r then some p else ownGet m r' := by
  unfold ownInsert
  simp only [ownGet, ownGet_erase]
  by_cases h : r' = r
  · subst h; simp
  · have : ¬ r = r' := fun h' => h h'.symm
    simp [h, this]

theorem ownGet_eq_none_iff (m : Own) (r : Rid) : ownGet m r = none ↔ r ∉ ownKeys m := by
  induction m with
  | nil => simp [ownGet, ownKeys]
  | cons e t ih =>
    obtain ⟨k, p⟩ := e
    simp only [ownGet, ownKeys, List.map_cons, List.mem_cons, not_or] at ih ⊢
    by_cases h : k = r
    · subst h; simp
    · have : ¬ r = k := fun h' => h h'.symm
      simp [h, this, ih]

theorem ownGet_isSome_iff (m : Own) (r : Rid) : (ownGet m r).isSome ↔ r ∈ ownKeys m := by
  have := ownGet_eq_none_iff m r
  cases h : ownGet m r with
  | none => simp [h] at this; simp [this]
  | some p =>
    simp [h] at this
    simp [this]

/-- No resource id is registered twice. -/
def KeysNodup (m : Own) : Prop := (ownKeys m).Nodup

theorem ownKeys_erase (m : Own) (r : Rid) : ownKeys (ownErase m r) = (ownKeys m).filter (· ≠ r) := by
  unfold ownErase ownKeys
  rw [List.filter_map]
  rfl

theorem KeysNodup.erase {m : Own} (h : KeysNodup m) (r : Rid) : KeysNodup (ownErase m r) := by
  unfold KeysNodup at *
  rw [ownKeys_erase]
  exact h.sublist List.filter_sublist

theorem mem_ownKeys_erase {m : Own} {r x : Rid} : x ∈ ownKeys (ownErase m r) ↔ x ∈ ownKeys m ∧ x ≠ r := by
  rw [ownKeys_erase]; simp

theorem KeysNodup.insert {m : Own} (h : KeysNodup m) (r : Rid) (p : Pid) :
    KeysNodup (ownInsert m r p) := by
  unfold KeysNodup ownInsert ownKeys
  simp only [List.map_cons, List.nodup_cons]
  refine ⟨?_, h.erase r⟩
  intro hm
  have := (mem_ownKeys_erase (m := m) (r := r) (x := r)).1 hm
  exact this.2 rfl

theorem mem_ownKeys_insert {m : Own} {r x : Rid} {p : Pid} :
    x ∈ ownKeys (ownInsert m r p) ↔ x = r ∨ x ∈ ownKeys m := by
  unfold ownInsert
  show x ∈ ownKeys ((r, p) :: ownErase m r) ↔ _
  simp only [ownKeys, List.map_cons, List.mem_cons]
  have := mem_ownKeys_erase (m := m) (r := r) (x := x)
  unfold ownKeys at this
  rw [this]
  by_cases h : x = r
  · simp [h]
  · simp [h]

theorem mem_of_ownGet {m : Own} {r : Rid} {p : Pid} (h : ownGet m r = some p) : (r, p) ∈ m := by
  induction m with
  | nil => simp [ownGet] at h
  | cons e t ih =>
    obtain ⟨k, q⟩ := e
    simp only [ownGet] at h
    by_cases hk : k = r
    · simp [hk] at h; simp [hk, h]
    · simp [hk] at h; exact List.mem_cons_of_mem _ (ih h)

theorem ownGet_of_mem {m : Own} (hn : KeysNodup m) {r : Rid} {p : Pid} (h : (r, p) ∈ m) :
    ownGet m r = some p := by
  induction m with
  | nil => simp at h
  | cons e t ih =>
    obtain ⟨k, q⟩ := e
    unfold KeysNodup ownKeys at hn
    simp only [List.map_cons, List.nodup_cons] at hn
    simp only [ownGet]
    rcases List.mem_cons.1 h with h | h
    · cases h; simp
    · have hk : k ≠ r := by
        intro hk; subst hk
        exact hn.1 (List.mem_map.2 ⟨(k, p), h, rfl⟩)
      simp [hk]
      exact ih hn.2 h

theorem mem_ownedBy {m : Own} (hn : KeysNodup m) {r : Rid} {p : Pid} :
    r ∈ ownedBy m p ↔ ownGet m r = some p := by
  unfold ownedBy
  simp only [List.mem_map, List.mem_filter, decide_eq_true_eq]
  constructor
  · rintro ⟨⟨k, q⟩, ⟨hm, hq⟩, hk⟩
    simp at hq hk; subst hq; subst hk
    exact ownGet_of_mem hn hm
  · intro h
    exact ⟨(r, p), ⟨mem_of_ownGet h, rfl⟩, rfl⟩

theorem ownedBy_sublist_keys (m : Own) (p : Pid) : (ownedBy m p).Sublist (ownKeys m) := by
  unfold ownedBy ownKeys
  exact List.Sublist.map _ List.filter_sublist

theorem ownedBy_nodup {m : Own} (hn : KeysNodup m) (p : Pid) : (ownedBy m p).Nodup :=
  hn.sublist (ownedBy_sublist_keys m p)

/-! ### `eraseAll` -/

theorem ownGet_eraseAll (m : Own) (rs : List Rid) (r : Rid) :
    ownGet (eraseAll m rs) r = if r ∈ rs then none else ownGet m r := by
  induction rs generalizing m with
  | nil => simp [eraseAll]
  | cons x xs ih =>
    simp only [eraseAll, ih, ownGet_erase, List.mem_cons]
    by_cases h1 : r ∈ xs
    · simp [h1]
    · by_cases h2 : r = x
      · simp [h2]
      · simp [h1, h2]

theorem KeysNodup.eraseAll {m : Own} (h : KeysNodup m) (rs : List Rid) : KeysNodup (eraseAll m rs) := by
  induction rs generalizing m with
  | nil => exact h
  | cons x xs ih => exact ih (h.erase x)

theorem mem_ownKeys_eraseAll {m : Own} {rs : List Rid} {x : Rid} :
    x ∈ ownKeys (eraseAll m rs) ↔ x ∈ ownKeys m ∧ x ∉ rs := by
  induction rs generalizing m with
  | nil => simp [eraseAll]
  | cons y ys ih =>
    simp only [eraseAll, ih, mem_ownKeys_erase, List.mem_cons, not_or]
    constructor
    · rintro ⟨⟨a, b⟩, c⟩; exact ⟨a, b, c⟩
    · rintro ⟨a, b, c⟩; exact ⟨⟨a, b⟩, c⟩

/-! ### `transfer` = insert every resource of the value, in traversal order -/

def insertAll (m : Own) (rs : List Rid) (q : Pid) : Own := rs.foldl (fun m r => ownInsert m r q) m

theorem insertAll_append (m : Own) (a b : List Rid) (q : Pid) :
    insertAll m (a ++ b) q = insertAll (insertAll m a q) b q := by
  simp [insertAll, List.foldl_append]

mutual
theorem transfer_eq (m : Own) (v : Val) (q : Pid) : transfer m v q = insertAll m v.resources q := by
  cases v with
  | res r => simp [transfer, Val.resources, insertAll]
  | tuple fs => simp only [transfer, Val.resources]; exact transferList_eq m fs q
  | func cs => simp only [transfer, Val.resources]; exact transferList_eq m cs q
  | other => simp [transfer, Val.resources, insertAll]
theorem transferList_eq (m : Own) (vs : List Val) (q : Pid) :
    transferList m vs q = insertAll m (resourcesList vs) q := by
  cases vs with
  | nil => simp [transferList, resourcesList, insertAll]
  | cons v rest =>
    simp only [transferList, resourcesList, insertAll_append]
    rw [transfer_eq m v q, transferList_eq _ rest q]
end

theorem ownGet_insertAll (m : Own) (rs : List Rid) (q : Pid) (r : Rid) :
    ownGet (insertAll m rs q) r = if r ∈ rs then some q else ownGet m r := by
  induction rs generalizing m with
  | nil => simp [insertAll]
  | cons x xs ih =>
    have : insertAll m (x :: xs) q = insertAll (ownInsert m x q) xs q := rfl
    rw [this, ih, ownGet_insert]
    by_cases h1 : r ∈ xs
    · simp [h1]
    · by_cases h2 : r = x
      · simp [h2]
      · simp [h1, h2]

theorem KeysNodup.insertAll {m : Own} (h : KeysNodup m) (rs : List Rid) (q : Pid) :
    KeysNodup (insertAll m rs q) := by
  induction rs generalizing m with
  | nil => exact h
  | cons x xs ih => exact ih (h.insert x q)

theorem mem_ownKeys_insertAll {m : Own} {rs : List Rid} {q : Pid} {x : Rid} :
    x ∈ ownKeys (insertAll m rs q) ↔ x ∈ rs ∨ x ∈ ownKeys m := by
  induction rs generalizing m with
  | nil => simp [insertAll]
  | cons y ys ih =>
    have : insertAll m (y :: ys) q = insertAll (ownInsert m y q) ys q := rfl
    rw [this, ih, mem_ownKeys_insert, List.mem_cons]
    constructor
    · rintro (a | a | a)
      · exact .inl (.inr a)
      · exact .inl (.inl a)
      · exact .inr a
    · rintro ((a | a) | a)
      · exact .inr (.inl a)
      · exact .inl a
      · exact .inr (.inr a)

end QM.Resources
