import QuiverModel.Lemmas.Resources.Own
/-!
Frame lemmas for the handlers of M-Sys/resources: which fields each handler leaves alone, and what
it does to the ownership map / the backend log. Core Lean only.
-/
namespace QM.Resources

/-! ### report_effect_error -/

@[simp] theorem reportEffectError_owner (s : Env) (p : Pid) : (reportEffectError s p).owner = s.owner := by
  unfold reportEffectError; split <;> rfl
@[simp] theorem reportEffectError_backend (s : Env) (p : Pid) : (reportEffectError s p).backend = s.backend := by
  unfold reportEffectError; split <;> rfl
@[simp] theorem reportEffectError_router (s : Env) (p : Pid) : (reportEffectError s p).router = s.router := by
  unfold reportEffectError; split <;> rfl
@[simp] theorem reportEffectError_nextPid (s : Env) (p : Pid) : (reportEffectError s p).nextPid = s.nextPid := by
  unfold reportEffectError; split <;> rfl

theorem reportEffectError_out (s : Env) (p : Pid) (w : Wid) (h : routeGet s.router p = some w) :
    (reportEffectError s p).out = s.out ++ [.effectCompletion p .err] := by
  unfold reportEffectError; rw [h]

theorem reportEffectError_out_cases (s : Env) (p : Pid) :
    (reportEffectError s p).out = s.out ∨ (reportEffectError s p).out = s.out ++ [.effectCompletion p .err] := by
  unfold reportEffectError; split
  · exact .inl rfl
  · exact .inr rfl

/-! ### handle_effect_completion -/

def regOf (m : Own) (p : Pid) : Res → Own
  | .okRes r => ownInsert m r p
  | _ => m

@[simp] theorem handleEffectCompletion_owner (s : Env) (p : Pid) (res : Res) :
    (handleEffectCompletion s p res).owner = regOf s.owner p res := by
  unfold handleEffectCompletion regOf
  cases res <;> simp <;> split <;> rfl
@[simp] theorem handleEffectCompletion_backend (s : Env) (p : Pid) (res : Res) :
    (handleEffectCompletion s p res).backend = s.backend := by
  unfold handleEffectCompletion
  cases res <;> simp <;> split <;> rfl
@[simp] theorem handleEffectCompletion_router (s : Env) (p : Pid) (res : Res) :
    (handleEffectCompletion s p res).router = s.router := by
  unfold handleEffectCompletion
  cases res <;> simp <;> split <;> rfl
@[simp] theorem handleEffectCompletion_nextPid (s : Env) (p : Pid) (res : Res) :
    (handleEffectCompletion s p res).nextPid = s.nextPid := by
  unfold handleEffectCompletion
  cases res <;> simp <;> split <;> rfl

theorem handleEffectCompletion_out_cases (s : Env) (p : Pid) (res : Res) :
    (handleEffectCompletion s p res).out = s.out ∨
    (handleEffectCompletion s p res).out = s.out ++ [.effectCompletion p res] := by
  unfold handleEffectCompletion
  cases res <;> simp <;> split <;> simp

theorem handleEffectCompletion_out (s : Env) (p : Pid) (res : Res) (w : Wid)
    (h : routeGet s.router p = some w) :
    (handleEffectCompletion s p res).out = s.out ++ [.effectCompletion p res] := by
  unfold handleEffectCompletion
  cases res <;> simp [h]

/-! ### the backend -/

theorem execute_executed (b : Backend) (p : Pid) (e : Effect) (w : Bool) :
    (b.execute p e w).1.executed = b.executed ++ [(p, e)] := by
  unfold Backend.execute Backend.alloc
  cases e.kind.shape <;> simp <;> (repeat' split) <;> rfl

theorem execute_closeCalls (b : Backend) (p : Pid) (e : Effect) (w : Bool) :
    (b.execute p e w).1.closeCalls = b.closeCalls := by
  unfold Backend.execute Backend.alloc
  cases e.kind.shape <;> simp <;> (repeat' split) <;> rfl

theorem closeAll_closeCalls (b : Backend) (rs : List Rid) :
    (closeAll b rs).closeCalls = b.closeCalls ++ rs := by
  induction rs generalizing b with
  | nil => simp [closeAll]
  | cons r rest ih => simp [closeAll, ih, Backend.closeResource]

theorem closeAll_executed (b : Backend) (rs : List Rid) : (closeAll b rs).executed = b.executed := by
  induction rs generalizing b with
  | nil => simp [closeAll]
  | cons r rest ih => simp [closeAll, ih, Backend.closeResource]

theorem closeAll_nextRid (b : Backend) (rs : List Rid) : (closeAll b rs).nextRid = b.nextRid := by
  induction rs generalizing b with
  | nil => simp [closeAll]
  | cons r rest ih => simp [closeAll, ih, Backend.closeResource]

theorem closeAll_pending (b : Backend) (rs : List Rid) : (closeAll b rs).pending = b.pending := by
  induction rs generalizing b with
  | nil => simp [closeAll]
  | cons r rest ih => simp [closeAll, ih, Backend.closeResource]

theorem closeAll_openSet (b : Backend) (rs : List Rid) :
    (closeAll b rs).openSet = b.openSet.filter (fun x => x ∉ rs) := by
  induction rs generalizing b with
  | nil =>
    simp only [closeAll, List.not_mem_nil, not_false_eq_true, decide_true]
    induction b.openSet with
    | nil => rfl
    | cons a t ih => simp [List.filter_cons, ← ih]
  | cons r rest ih =>
    simp only [closeAll, ih, Backend.closeResource, List.filter_filter, List.mem_cons, not_or]
    congr 1
    funext x
    by_cases h1 : x = r <;> by_cases h2 : x ∈ rest <;> simp [h1, h2]

/-! ### handle_deliver / handle_spawn / start_process -/

/-- The ids a delivery passes to `close_resource`: if the target has already terminated, everything
it would own after the transfer (normally: what the message carries). -/
def deliverClosed (s : Env) (t : Pid) (v : Val) : List Rid :=
  if s.exited.contains t then ownedBy (insertAll s.owner v.resources t) t else []

theorem deliverClosed_alive {s : Env} {t : Pid} (v : Val) (h : s.exited.contains t = false) :
    deliverClosed s t v = [] := by
  unfold deliverClosed; simp only [h, Bool.false_eq_true, ↓reduceIte]

theorem deliverClosed_dead {s : Env} {t : Pid} (v : Val) (h : s.exited.contains t = true) :
    deliverClosed s t v = ownedBy (insertAll s.owner v.resources t) t := by
  unfold deliverClosed; simp only [h, ↓reduceIte]

theorem handleDeliver_owner (s : Env) (t : Pid) (v : Val) :
    (handleDeliver s t v).owner
      = eraseAll (insertAll s.owner v.resources t) (deliverClosed s t v) := by
  unfold handleDeliver deliverClosed
  simp only [transfer_eq]
  by_cases h : s.exited.contains t = true
  · simp only [h, ↓reduceIte]; split <;> rfl
  · simp only [h, Bool.false_eq_true, ↓reduceIte, eraseAll]; split <;> rfl

theorem handleDeliver_backend (s : Env) (t : Pid) (v : Val) :
    (handleDeliver s t v).backend = closeAll s.backend (deliverClosed s t v) := by
  unfold handleDeliver deliverClosed
  simp only [transfer_eq]
  by_cases h : s.exited.contains t = true
  · simp only [h, ↓reduceIte]; split <;> rfl
  · simp only [h, Bool.false_eq_true, ↓reduceIte, closeAll]; split <;> rfl

theorem handleDeliver_frame (s : Env) (t : Pid) (v : Val) :
    (handleDeliver s t v).persistent = s.persistent ∧ (handleDeliver s t v).nextPid = s.nextPid ∧
    (handleDeliver s t v).exited = s.exited ∧ (handleDeliver s t v).router = s.router := by
  unfold handleDeliver
  simp only
  by_cases h : s.exited.contains t = true
  · simp only [h, ↓reduceIte]; split <;> exact ⟨rfl, rfl, rfl, rfl⟩
  · simp only [h, Bool.false_eq_true, ↓reduceIte]; split <;> exact ⟨rfl, rfl, rfl, rfl⟩

theorem handleDeliver_out_cases (s : Env) (t : Pid) (v : Val) :
    (handleDeliver s t v).out = s.out ∨ (handleDeliver s t v).out = s.out ++ [.deliverMessage t] := by
  unfold handleDeliver
  simp only
  by_cases h : s.exited.contains t = true
  · simp only [h, ↓reduceIte]; split
    · exact .inl rfl
    · exact .inr rfl
  · simp only [h, Bool.false_eq_true, ↓reduceIte]; split
    · exact .inl rfl
    · exact .inr rfl

/-! ### handle_process_exited -/

@[simp] theorem handleProcessExited_owner (s : Env) (p : Pid) :
    (handleProcessExited s p).owner = eraseAll s.owner (ownedBy s.owner p) := rfl
@[simp] theorem handleProcessExited_backend (s : Env) (p : Pid) :
    (handleProcessExited s p).backend = closeAll s.backend (ownedBy s.owner p) := rfl
@[simp] theorem handleProcessExited_out (s : Env) (p : Pid) : (handleProcessExited s p).out = s.out := rfl
@[simp] theorem handleProcessExited_exited (s : Env) (p : Pid) :
    (handleProcessExited s p).exited = p :: s.exited := rfl
@[simp] theorem handleProcessExited_persistent (s : Env) (p : Pid) :
    (handleProcessExited s p).persistent = s.persistent := rfl
@[simp] theorem handleProcessExited_nextPid (s : Env) (p : Pid) :
    (handleProcessExited s p).nextPid = s.nextPid := rfl

@[simp] theorem handleSpawn_owner (s : Env) (c : Pid) (caps : List Val) (arg : Val) :
    (handleSpawn s c caps arg).owner
      = insertAll s.owner (resourcesList caps ++ arg.resources) s.nextPid := by
  unfold handleSpawn
  simp only [transfer_eq, transferList_eq, insertAll_append]
  split <;> rfl
@[simp] theorem handleSpawn_backend (s : Env) (c : Pid) (caps : List Val) (arg : Val) :
    (handleSpawn s c caps arg).backend = s.backend := by
  unfold handleSpawn; simp only; split <;> rfl

@[simp] theorem startProcess_owner (s : Env) : (startProcess s).owner = s.owner := rfl
@[simp] theorem startProcess_backend (s : Env) : (startProcess s).backend = s.backend := rfl

/-! ### cleanup -/

@[simp] theorem cleanup_owner (s : Env) (p : Pid) :
    (cleanupProcessResources s p).owner = eraseAll s.owner (ownedBy s.owner p) := rfl
@[simp] theorem cleanup_backend (s : Env) (p : Pid) :
    (cleanupProcessResources s p).backend = closeAll s.backend (ownedBy s.owner p) := rfl
@[simp] theorem cleanup_out (s : Env) (p : Pid) : (cleanupProcessResources s p).out = s.out := rfl

end QM.Resources

namespace QM.Resources

/-! ### handle_effect_request -/

theorem handleEffectRequest_rejected (s : Env) (p : Pid) (e : Effect) (w : Bool)
    (h : violatesOwnership s.owner p e = true) :
    handleEffectRequest s p e w = reportEffectError s p := by
  unfold handleEffectRequest; simp [h]

theorem handleEffectRequest_accepted (s : Env) (p : Pid) (e : Effect) (w : Bool)
    (h : violatesOwnership s.owner p e = false) :
    handleEffectRequest s p e w =
      match (s.backend.execute p e w).2 with
      | .immediate res => handleEffectCompletion { s with backend := (s.backend.execute p e w).1 } p res
      | .submitted => { s with backend := (s.backend.execute p e w).1 }
      | .failed => reportEffectError { s with backend := (s.backend.execute p e w).1 } p := by
  unfold handleEffectRequest
  simp only [h, Bool.false_eq_true, ↓reduceIte]
  rcases hx : s.backend.execute p e w with ⟨b', reply⟩
  cases reply <;> rfl

theorem handleEffectRequest_owner (s : Env) (p : Pid) (e : Effect) (w : Bool) :
    (handleEffectRequest s p e w).owner =
      if violatesOwnership s.owner p e then s.owner
      else match (s.backend.execute p e w).2 with
        | .immediate res => regOf s.owner p res
        | _ => s.owner := by
  by_cases h : violatesOwnership s.owner p e = true
  · simp [handleEffectRequest_rejected _ _ _ _ h, h]
  · have h' : violatesOwnership s.owner p e = false := by simpa using h
    rw [handleEffectRequest_accepted _ _ _ _ h']
    simp only [h', Bool.false_eq_true, ↓reduceIte]
    cases (s.backend.execute p e w).2 <;> simp

theorem handleEffectRequest_backend (s : Env) (p : Pid) (e : Effect) (w : Bool) :
    (handleEffectRequest s p e w).backend =
      if violatesOwnership s.owner p e then s.backend else (s.backend.execute p e w).1 := by
  by_cases h : violatesOwnership s.owner p e = true
  · simp [handleEffectRequest_rejected _ _ _ _ h, h]
  · have h' : violatesOwnership s.owner p e = false := by simpa using h
    rw [handleEffectRequest_accepted _ _ _ _ h']
    simp only [h', Bool.false_eq_true, ↓reduceIte]
    cases (s.backend.execute p e w).2 <;> simp

/-! ### completions -/

def regAll (m : Own) : List (Pid × Res) → Own
  | [] => m
  | (p, r) :: rest => regAll (regOf m p r) rest

theorem handleCompletionsList_owner (s : Env) (cs : List (Pid × Res)) :
    (handleCompletionsList s cs).owner = regAll s.owner cs := by
  induction cs generalizing s with
  | nil => rfl
  | cons c rest ih => obtain ⟨p, r⟩ := c; simp [handleCompletionsList, regAll, ih]

theorem handleCompletionsList_backend (s : Env) (cs : List (Pid × Res)) :
    (handleCompletionsList s cs).backend = s.backend := by
  induction cs generalizing s with
  | nil => rfl
  | cons c rest ih => obtain ⟨p, r⟩ := c; simp [handleCompletionsList, ih]

theorem handleCompletions_owner (s : Env) (n : Nat) :
    (handleCompletions s n).owner = regAll s.owner (s.backend.processCompletions n).2 := by
  unfold handleCompletions
  rcases h : s.backend.processCompletions n with ⟨b', cs⟩
  simp [handleCompletionsList_owner]

theorem handleCompletions_backend (s : Env) (n : Nat) :
    (handleCompletions s n).backend = (s.backend.processCompletions n).1 := by
  unfold handleCompletions
  rcases h : s.backend.processCompletions n with ⟨b', cs⟩
  simp [handleCompletionsList_backend]

theorem KeysNodup.regOf {m : Own} (h : KeysNodup m) (p : Pid) (r : Res) : KeysNodup (regOf m p r) := by
  cases r <;> simp [QM.Resources.regOf, h] ; exact h.insert _ _

theorem KeysNodup.regAll {m : Own} (h : KeysNodup m) (cs : List (Pid × Res)) : KeysNodup (regAll m cs) := by
  induction cs generalizing m with
  | nil => exact h
  | cons c rest ih => obtain ⟨p, r⟩ := c; exact ih (h.regOf p r)

/-! ### process results -/

/-- A property of the environment that every cleanup preserves is preserved by
`handle_process_results`. -/
theorem handleCleanups_induct {P : Env → Prop} (hc : ∀ s p, P s → P (cleanupProcessResources s p))
    (s : Env) (rs : List (Pid × Bool)) (h : P s) : P (handleCleanups s rs) := by
  induction rs generalizing s with
  | nil => exact h
  | cons x rest ih =>
    obtain ⟨p, b⟩ := x
    cases b
    · exact ih s h
    · exact ih _ (hc s p h)

end QM.Resources
