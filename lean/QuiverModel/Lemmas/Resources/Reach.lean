import QuiverModel.Lemmas.Resources.Invariant
/-!
The system invariant `Inv` and its preservation by `step` for events whose handles exist
(`handlesExist`); `BInv` alone is preserved by every event. Core Lean only.
-/
namespace QM.Resources

structure Inv (s : Sys) : Prop where
  keys : KeysNodup s.env.owner
  binv : BInv s.env.backend
  keys_lt : ∀ r ∈ ownKeys s.env.owner, r < s.env.backend.nextRid
  calls_lt : ∀ r ∈ s.env.backend.closeCalls, r < s.env.backend.nextRid

theorem inv_init (n : Nat) : Inv (init n) := by
  refine ⟨by simp [init, KeysNodup, ownKeys], ⟨?_, ?_, ?_, ?_⟩, ?_, ?_⟩ <;> simp [init, ownKeys]

/-- The ids a step passes to `close_resource`, in order: the cleanup of the processes a
`ProcessResults` reports, of a process whose `ProcessExited` arrives, and of an already terminated
target of a delivery. -/
def closedBy (s : Sys) : Event → List Rid
  | .results _ rs => cleanupList s.env.owner (classify s.env.persistent rs)
  | .exited p => ownedBy s.env.owner p
  | .send _ t v => deliverClosed s.env t v
  | _ => []

/-- The backend invariant survives every event (no hypothesis on the event). -/
theorem step_binv (s : Sys) (ev : Event) (h : BInv s.env.backend) : BInv (step s ev).env.backend := by
  cases ev with
  | start => exact h
  | terminate p => exact h
  | exited p => simp only [step, handleProcessExited_backend]; exact h.closeAll _
  | send a t v => simp only [step, handleDeliver_backend]; exact h.closeAll _
  | spawn c caps arg => simpa [step] using h
  | request p e w =>
    simp only [step, handleEffectRequest_backend]
    split
    · exact h
    · exact h.execute p e w
  | completions n =>
    simp only [step, handleCompletions_backend]
    exact h.processCompletions n
  | results a rs =>
    simp only [step, handleProcessResults_backend]
    exact h.closeAll _

theorem step_nextRid_mono (s : Sys) (ev : Event) :
    s.env.backend.nextRid ≤ (step s ev).env.backend.nextRid := by
  cases ev with
  | start => exact Nat.le_refl _
  | terminate p => exact Nat.le_refl _
  | exited p => simp only [step, handleProcessExited_backend, closeAll_nextRid]; exact Nat.le_refl _
  | send a t v => simp only [step, handleDeliver_backend, closeAll_nextRid]; exact Nat.le_refl _
  | spawn c caps arg => simp [step]
  | request p e w =>
    simp only [step, handleEffectRequest_backend]
    split
    · exact Nat.le_refl _
    · exact execute_nextRid_mono _ _ _ _
  | completions n =>
    simp only [step, handleCompletions_backend]
    exact processCompletions_nextRid_mono _ _
  | results a rs =>
    simp only [step, handleProcessResults_backend, closeAll_nextRid]
    exact Nat.le_refl _

theorem step_closeCalls (s : Sys) (ev : Event) :
    (step s ev).env.backend.closeCalls = s.env.backend.closeCalls ++ closedBy s ev := by
  cases ev with
  | start => simp [step, closedBy]
  | terminate p => simp [step, closedBy]
  | exited p => simp only [step, handleProcessExited_backend, closeAll_closeCalls, closedBy]
  | send a t v => simp only [step, handleDeliver_backend, closeAll_closeCalls, closedBy]
  | spawn c caps arg => simp [step, closedBy]
  | request p e w =>
    simp only [step, handleEffectRequest_backend, closedBy, List.append_nil]
    split
    · rfl
    · exact execute_closeCalls _ _ _ _
  | completions n =>
    simp only [step, handleCompletions_backend, processCompletions_closeCalls, closedBy, List.append_nil]
  | results a rs => simp only [step, handleProcessResults_backend, closeAll_closeCalls, closedBy]

theorem deliverClosed_sub (s : Env) (t : Pid) (v : Val) {r : Rid} (h : r ∈ deliverClosed s t v) :
    r ∈ ownKeys (insertAll s.owner v.resources t) := by
  unfold deliverClosed at h
  split at h
  · exact (ownedBy_sublist_keys _ _).subset h
  · cases h

/-- Every id a step passes to `close_resource` is registered before the step, or (delivery to a
terminated process) arrives with the message. -/
theorem closedBy_sub {s : Sys} (hk : KeysNodup s.env.owner) (ev : Event) {r : Rid} (h : r ∈ closedBy s ev) :
    r ∈ ownKeys s.env.owner ∨ ∃ a t v, ev = .send a t v ∧ r ∈ v.resources := by
  cases ev with
  | results a rs => exact .inl (cleanupList_sub_keys hk h)
  | exited p => exact .inl ((ownedBy_sublist_keys _ _).subset h)
  | send a t v =>
    have := deliverClosed_sub s.env t v h
    rw [mem_ownKeys_insertAll] at this
    rcases this with h1 | h1
    · exact .inr ⟨a, t, v, rfl, h1⟩
    · exact .inl h1
  | start => cases h
  | terminate p => cases h
  | spawn c caps arg => cases h
  | request p e w => cases h
  | completions n => cases h

theorem inv_step {s : Sys} (hs : Inv s) (ev : Event) (hev : handlesExist s ev = true) : Inv (step s ev) := by
  have hmono := step_nextRid_mono s ev
  have hcalls := step_closeCalls s ev
  refine ⟨?_, step_binv s ev hs.binv, ?_, ?_⟩
  · -- keys
    cases ev with
    | start => exact hs.keys
    | terminate p => exact hs.keys
    | exited p => simp only [step, handleProcessExited_owner]; exact hs.keys.eraseAll _
    | send a t v =>
      simp only [step, handleDeliver_owner]; exact (hs.keys.insertAll _ _).eraseAll _
    | spawn c caps arg => simp only [step, handleSpawn_owner]; exact hs.keys.insertAll _ _
    | completions n => simp only [step, handleCompletions_owner]; exact hs.keys.regAll _
    | request p e w =>
      simp only [step, handleEffectRequest_owner]
      split
      · exact hs.keys
      · split
        · exact hs.keys.regOf _ _
        · exact hs.keys
    | results a rs =>
      simp only [step, handleProcessResults_owner]; exact hs.keys.eraseAll _
  · -- keys_lt
    intro r hr
    cases ev with
    | start => exact hs.keys_lt r hr
    | terminate p => exact hs.keys_lt r hr
    | exited p =>
      simp only [step, handleProcessExited_owner, mem_ownKeys_eraseAll] at hr
      simp only [step, handleProcessExited_backend, closeAll_nextRid]
      exact hs.keys_lt r hr.1
    | send a t v =>
      simp only [step, handleDeliver_owner, mem_ownKeys_eraseAll, mem_ownKeys_insertAll] at hr
      simp only [step, handleDeliver_backend, closeAll_nextRid]
      rcases hr.1 with hr | hr
      · simp only [handlesExist, List.all_eq_true, decide_eq_true_eq] at hev
        exact hev r hr
      · exact hs.keys_lt r hr
    | spawn c caps arg =>
      simp only [step, handleSpawn_owner, mem_ownKeys_insertAll] at hr
      simp only [step, handleSpawn_backend]
      rcases hr with hr | hr
      · simp only [handlesExist, List.all_eq_true, decide_eq_true_eq] at hev
        exact hev r hr
      · exact hs.keys_lt r hr
    | completions n =>
      simp only [step, handleCompletions_owner, mem_ownKeys_regAll] at hr
      simp only [step, handleCompletions_backend]
      rcases hr with hr | hr
      · exact ((processCompletions_resIds s.env.backend n).2 r hr).2
      · exact Nat.lt_of_lt_of_le (hs.keys_lt r hr) (processCompletions_nextRid_mono _ _)
    | request p e w =>
      simp only [step, handleEffectRequest_owner] at hr
      have hm : s.env.backend.nextRid ≤ (step s (.request p e w)).env.backend.nextRid := hmono
      split at hr
      · exact Nat.lt_of_lt_of_le (hs.keys_lt r hr) hm
      · rename_i hv
        split at hr
        · rename_i res hres
          rw [mem_ownKeys_regOf] at hr
          rcases hr with hr | hr
          · subst hr
            obtain ⟨h1, h2⟩ := execute_reply_okRes hres
            simp only [step, handleEffectRequest_backend, hv, Bool.false_eq_true, ↓reduceIte, h2, h1]
            exact Nat.lt_succ_self _
          · exact Nat.lt_of_lt_of_le (hs.keys_lt r hr) hm
        · exact Nat.lt_of_lt_of_le (hs.keys_lt r hr) hm
    | results a rs =>
      simp only [step, handleProcessResults_owner, mem_ownKeys_eraseAll] at hr
      simp only [step, handleProcessResults_backend, closeAll_nextRid]
      exact hs.keys_lt r hr.1
  · -- calls_lt
    intro r hr
    rw [hcalls, List.mem_append] at hr
    rcases hr with hr | hr
    · exact Nat.lt_of_lt_of_le (hs.calls_lt r hr) hmono
    · rcases closedBy_sub hs.keys ev hr with hk | ⟨a, t, v, rfl, hm⟩
      · exact Nat.lt_of_lt_of_le (hs.keys_lt r hk) hmono
      · simp only [handlesExist, List.all_eq_true, decide_eq_true_eq] at hev
        exact Nat.lt_of_lt_of_le (hev r hm) hmono

/-- Handles exist along the whole history. -/
def handlesFrom (s : Sys) : List Event → Bool
  | [] => true
  | ev :: rest => handlesExist s ev && handlesFrom (step s ev) rest

theorem handlesFrom_of_wfFrom (s : Sys) (h : List Event) (hw : wfFrom s h = true) : handlesFrom s h = true := by
  induction h generalizing s with
  | nil => rfl
  | cons ev rest ih =>
    simp only [wfFrom, eventOk, Bool.and_eq_true] at hw
    simp only [handlesFrom, Bool.and_eq_true]
    exact ⟨hw.1.1, ih _ hw.2⟩

theorem inv_run {s : Sys} (hs : Inv s) (h : List Event) (hw : handlesFrom s h = true) : Inv (run s h) := by
  induction h generalizing s with
  | nil => exact hs
  | cons ev rest ih =>
    simp only [handlesFrom, Bool.and_eq_true] at hw
    exact ih (inv_step hs ev hw.1) hw.2

end QM.Resources

namespace QM.Resources

theorem ownGet_regAll_of_not_mem {m : Own} {cs : List (Pid × Res)} {r : Rid} (h : r ∉ resIds cs) :
    ownGet (regAll m cs) r = ownGet m r := by
  induction cs generalizing m with
  | nil => rfl
  | cons d rest ih =>
    obtain ⟨q, res⟩ := d
    simp only [regAll]
    have h1 : r ∉ resIds rest := by
      intro hc; apply h
      obtain ⟨p', hp'⟩ := mem_resIds.1 hc
      exact mem_resIds.2 ⟨p', List.mem_cons_of_mem _ hp'⟩
    rw [ih h1, ownGet_regOf]
    have : res ≠ .okRes r := by
      intro hc; apply h; subst hc
      exact mem_resIds.2 ⟨q, List.mem_cons_self⟩
    simp [this]

/-- What `handle_effect_completion`s append to `out`: completions of the given list only. -/
theorem handleCompletionsList_out (s : Env) (cs : List (Pid × Res)) :
    ∃ l, (handleCompletionsList s cs).out = s.out ++ l ∧
      ∀ c ∈ l, ∃ p r, c = Cmd.effectCompletion p r ∧ (p, r) ∈ cs := by
  induction cs generalizing s with
  | nil => exact ⟨[], by simp [handleCompletionsList], by simp⟩
  | cons c rest ih =>
    obtain ⟨p, r⟩ := c
    obtain ⟨l, hl, hsub⟩ := ih (handleEffectCompletion s p r)
    simp only [handleCompletionsList]
    rcases handleEffectCompletion_out_cases s p r with h | h
    · refine ⟨l, by rw [hl, h], ?_⟩
      intro c hc
      obtain ⟨p', r', h1, h2⟩ := hsub c hc
      exact ⟨p', r', h1, List.mem_cons_of_mem _ h2⟩
    · refine ⟨Cmd.effectCompletion p r :: l, by rw [hl, h]; simp, ?_⟩
      intro c hc
      rcases List.mem_cons.1 hc with hc | hc
      · exact ⟨p, r, hc, List.mem_cons_self⟩
      · obtain ⟨p', r', h1, h2⟩ := hsub c hc
        exact ⟨p', r', h1, List.mem_cons_of_mem _ h2⟩

theorem handleCompletions_out (s : Env) (n : Nat) :
    ∃ l, (handleCompletions s n).out = s.out ++ l ∧
      ∀ c ∈ l, ∃ p r, c = Cmd.effectCompletion p r ∧ (p, r) ∈ (s.backend.processCompletions n).2 := by
  unfold handleCompletions
  rcases h : s.backend.processCompletions n with ⟨b', cs⟩
  exact handleCompletionsList_out _ cs

end QM.Resources
