import QuiverModel.Lemmas.Resources.Cleanup
/-!
`persistent_processes` and `next_process_id` along a step: only `start_process` marks a process
persistent, and only `start_process` / `handle_spawn` allocate a process id. Core Lean only.
-/
namespace QM.Resources

@[simp] theorem reportEffectError_persistent (s : Env) (p : Pid) :
    (reportEffectError s p).persistent = s.persistent := by
  unfold reportEffectError; split <;> rfl

@[simp] theorem handleEffectCompletion_persistent (s : Env) (p : Pid) (res : Res) :
    (handleEffectCompletion s p res).persistent = s.persistent := by
  unfold handleEffectCompletion
  cases res <;> simp <;> split <;> rfl

theorem handleEffectRequest_persistent (s : Env) (p : Pid) (e : Effect) (w : Bool) :
    (handleEffectRequest s p e w).persistent = s.persistent := by
  by_cases h : violatesOwnership s.owner p e = true
  · simp [handleEffectRequest_rejected _ _ _ _ h]
  · have h' : violatesOwnership s.owner p e = false := by simpa using h
    rw [handleEffectRequest_accepted _ _ _ _ h']
    cases (s.backend.execute p e w).2 <;> simp

theorem handleEffectRequest_nextPid (s : Env) (p : Pid) (e : Effect) (w : Bool) :
    (handleEffectRequest s p e w).nextPid = s.nextPid := by
  by_cases h : violatesOwnership s.owner p e = true
  · simp [handleEffectRequest_rejected _ _ _ _ h]
  · have h' : violatesOwnership s.owner p e = false := by simpa using h
    rw [handleEffectRequest_accepted _ _ _ _ h']
    cases (s.backend.execute p e w).2 <;> simp

theorem handleCompletionsList_persistent (s : Env) (cs : List (Pid × Res)) :
    (handleCompletionsList s cs).persistent = s.persistent ∧
    (handleCompletionsList s cs).nextPid = s.nextPid := by
  induction cs generalizing s with
  | nil => exact ⟨rfl, rfl⟩
  | cons c rest ih => obtain ⟨p, r⟩ := c; simp [handleCompletionsList, ih]

theorem handleCompletions_persistent (s : Env) (n : Nat) :
    (handleCompletions s n).persistent = s.persistent ∧ (handleCompletions s n).nextPid = s.nextPid := by
  unfold handleCompletions
  rcases h : s.backend.processCompletions n with ⟨b', cs⟩
  simpa using handleCompletionsList_persistent { s with backend := b' } cs

theorem handleDeliver_persistent (s : Env) (t : Pid) (v : Val) :
    (handleDeliver s t v).persistent = s.persistent ∧ (handleDeliver s t v).nextPid = s.nextPid :=
  ⟨(handleDeliver_frame s t v).1, (handleDeliver_frame s t v).2.1⟩

theorem handleSpawn_persistent (s : Env) (c : Pid) (caps : List Val) (arg : Val) :
    (handleSpawn s c caps arg).persistent = s.persistent ∧
    (handleSpawn s c caps arg).nextPid = s.nextPid + 1 := by
  unfold handleSpawn; simp only; split <;> exact ⟨rfl, rfl⟩

theorem handleCleanups_nextPid (s : Env) (rs : List (Pid × Bool)) :
    (handleCleanups s rs).nextPid = s.nextPid := by
  induction rs generalizing s with
  | nil => rfl
  | cons x rest ih =>
    obtain ⟨p, b⟩ := x
    cases b <;> simp [handleCleanups, ih, cleanupProcessResources]

/-- Every persistent process id has been allocated. -/
def PersInv (s : Sys) : Prop := ∀ p ∈ s.env.persistent, p < s.env.nextPid

theorem persInv_step {s : Sys} (h : PersInv s) (ev : Event) : PersInv (step s ev) := by
  intro p hp
  cases ev with
  | start =>
    simp only [step, startProcess, List.mem_cons] at hp ⊢
    rcases hp with rfl | hp
    · exact Nat.lt_succ_self _
    · exact Nat.lt_succ_of_lt (h p hp)
  | terminate q => exact h p hp
  | exited q =>
    simp only [step, handleProcessExited_persistent, handleProcessExited_nextPid] at hp ⊢
    exact h p hp
  | request q e w =>
    simp only [step, handleEffectRequest_persistent, handleEffectRequest_nextPid] at hp ⊢
    exact h p hp
  | completions n =>
    simp only [step, (handleCompletions_persistent _ _).1, (handleCompletions_persistent _ _).2] at hp ⊢
    exact h p hp
  | send a t v =>
    simp only [step, (handleDeliver_persistent _ _ _).1, (handleDeliver_persistent _ _ _).2] at hp ⊢
    exact h p hp
  | spawn c caps arg =>
    simp only [step, (handleSpawn_persistent _ _ _ _).1, (handleSpawn_persistent _ _ _ _).2] at hp ⊢
    exact Nat.lt_succ_of_lt (h p hp)
  | results a rs =>
    simp only [step, handleProcessResults, handleCleanups_persistent, handleCleanups_nextPid] at hp ⊢
    exact h p hp

theorem persInv_run {s : Sys} (h : PersInv s) (evs : List Event) : PersInv (run s evs) := by
  induction evs generalizing s with
  | nil => exact h
  | cons ev rest ih => exact ih (persInv_step h ev)

/-! ### `exited_processes` along a step -/

@[simp] theorem reportEffectError_exited (s : Env) (p : Pid) :
    (reportEffectError s p).exited = s.exited := by
  unfold reportEffectError; split <;> rfl

@[simp] theorem handleEffectCompletion_exited (s : Env) (p : Pid) (res : Res) :
    (handleEffectCompletion s p res).exited = s.exited := by
  unfold handleEffectCompletion
  cases res <;> simp <;> split <;> rfl

theorem handleEffectRequest_exited (s : Env) (p : Pid) (e : Effect) (w : Bool) :
    (handleEffectRequest s p e w).exited = s.exited := by
  by_cases h : violatesOwnership s.owner p e = true
  · simp [handleEffectRequest_rejected _ _ _ _ h]
  · have h' : violatesOwnership s.owner p e = false := by simpa using h
    rw [handleEffectRequest_accepted _ _ _ _ h']
    cases (s.backend.execute p e w).2 <;> simp

theorem handleCompletionsList_exited (s : Env) (cs : List (Pid × Res)) :
    (handleCompletionsList s cs).exited = s.exited := by
  induction cs generalizing s with
  | nil => rfl
  | cons c rest ih => obtain ⟨p, r⟩ := c; simp [handleCompletionsList, ih]

theorem handleCompletions_exited (s : Env) (n : Nat) : (handleCompletions s n).exited = s.exited := by
  unfold handleCompletions
  rcases h : s.backend.processCompletions n with ⟨b', cs⟩
  simpa using handleCompletionsList_exited { s with backend := b' } cs

theorem handleSpawn_exited (s : Env) (c : Pid) (caps : List Val) (arg : Val) :
    (handleSpawn s c caps arg).exited = s.exited := by
  unfold handleSpawn; simp only; split <;> rfl

theorem handleCleanups_exited (s : Env) (rs : List (Pid × Bool)) :
    (handleCleanups s rs).exited = s.exited := by
  induction rs generalizing s with
  | nil => rfl
  | cons x rest ih =>
    obtain ⟨p, b⟩ := x
    cases b <;> simp [handleCleanups, ih, cleanupProcessResources]

/-- Only `ProcessExited` adds to `exited_processes`. -/
theorem step_exited (s : Sys) (ev : Event) :
    (step s ev).env.exited = match ev with
      | .exited p => p :: s.env.exited
      | _ => s.env.exited := by
  cases ev with
  | start => rfl
  | terminate p => rfl
  | exited p => rfl
  | request p e w => simp only [step, handleEffectRequest_exited]
  | completions n => simp only [step, handleCompletions_exited]
  | send a t v => simp only [step, (handleDeliver_frame _ _ _).2.2.1]
  | spawn c caps arg => simp only [step, handleSpawn_exited]
  | results a rs => simp only [step, handleProcessResults, handleCleanups_exited]

theorem step_terminated (s : Sys) (ev : Event) :
    (step s ev).terminated = match ev with
      | .terminate p => p :: s.terminated
      | _ => s.terminated := by
  cases ev <;> rfl


end QM.Resources
