import QuiverModel.Lemmas.Resources.Handlers
/-!
`handle_process_results` as one batch: which ids it closes (`cleanupList`), in which order, and what
is left of the ownership map. Backend frame lemmas for `process_completions`. Core Lean only.
-/
namespace QM.Resources

/-- The ids `handle_process_results` passes to `close_resource`, in order. -/
def cleanupList (m : Own) : List (Pid × Bool) → List Rid
  | [] => []
  | (p, true) :: rest => ownedBy m p ++ cleanupList (eraseAll m (ownedBy m p)) rest
  | (_, false) :: rest => cleanupList m rest

theorem closeAll_append (b : Backend) (xs ys : List Rid) :
    closeAll b (xs ++ ys) = closeAll (closeAll b xs) ys := by
  induction xs generalizing b with
  | nil => rfl
  | cons x rest ih => simp [closeAll, ih]

theorem eraseAll_append (m : Own) (xs ys : List Rid) :
    eraseAll m (xs ++ ys) = eraseAll (eraseAll m xs) ys := by
  induction xs generalizing m with
  | nil => rfl
  | cons x rest ih => simp [eraseAll, ih]

theorem handleCleanups_backend (s : Env) (rs : List (Pid × Bool)) :
    (handleCleanups s rs).backend = closeAll s.backend (cleanupList s.owner rs) := by
  induction rs generalizing s with
  | nil => rfl
  | cons x rest ih =>
    obtain ⟨p, b⟩ := x
    cases b
    · simp [handleCleanups, cleanupList, ih]
    · simp [handleCleanups, cleanupList, ih, closeAll_append]

theorem handleCleanups_owner (s : Env) (rs : List (Pid × Bool)) :
    (handleCleanups s rs).owner = eraseAll s.owner (cleanupList s.owner rs) := by
  induction rs generalizing s with
  | nil => rfl
  | cons x rest ih =>
    obtain ⟨p, b⟩ := x
    cases b
    · simp [handleCleanups, cleanupList, ih]
    · simp [handleCleanups, cleanupList, ih, eraseAll_append]

theorem handleCleanups_out (s : Env) (rs : List (Pid × Bool)) :
    (handleCleanups s rs).out = s.out := by
  induction rs generalizing s with
  | nil => rfl
  | cons x rest ih =>
    obtain ⟨p, b⟩ := x
    cases b <;> simp [handleCleanups, ih]

theorem mem_reportedOf {rs : List (Pid × Rep)} {p : Pid} :
    p ∈ reportedOf rs ↔ ∃ rep, (p, rep) ∈ rs ∧ rep ≠ .pending := by
  unfold reportedOf
  simp only [List.mem_map, List.mem_filter]
  constructor
  · rintro ⟨⟨q, b⟩, ⟨hm, hb⟩, hq⟩
    simp at hb hq; subst hq; exact ⟨b, hm, hb⟩
  · rintro ⟨rep, h, hne⟩; exact ⟨(p, rep), ⟨h, by simpa using hne⟩, rfl⟩

/-- The entries of a `ProcessResults`, classified by the cleanup rule. -/
def classify (pers : List Pid) (rs : List (Pid × Rep)) : List (Pid × Bool) :=
  rs.map fun x => (x.1, cleans pers x)

theorem mem_classify {pers : List Pid} {rs : List (Pid × Rep)} {p : Pid} :
    (p, true) ∈ classify pers rs ↔ ∃ rep, (p, rep) ∈ rs ∧ cleans pers (p, rep) = true := by
  unfold classify
  simp only [List.mem_map, Prod.mk.injEq]
  constructor
  · rintro ⟨⟨q, rep⟩, hm, hq, hc⟩
    simp only at hq hc; subst hq; exact ⟨rep, hm, hc⟩
  · rintro ⟨rep, hm, hc⟩; exact ⟨(p, rep), hm, rfl, hc⟩

theorem handleProcessResults_backend (s : Env) (rs : List (Pid × Rep)) :
    (handleProcessResults s rs).backend
      = closeAll s.backend (cleanupList s.owner (classify s.persistent rs)) :=
  handleCleanups_backend s _

theorem handleProcessResults_owner (s : Env) (rs : List (Pid × Rep)) :
    (handleProcessResults s rs).owner
      = eraseAll s.owner (cleanupList s.owner (classify s.persistent rs)) :=
  handleCleanups_owner s _

theorem handleProcessResults_out (s : Env) (rs : List (Pid × Rep)) :
    (handleProcessResults s rs).out = s.out :=
  handleCleanups_out s _

theorem handleCleanups_persistent (s : Env) (rs : List (Pid × Bool)) :
    (handleCleanups s rs).persistent = s.persistent := by
  induction rs generalizing s with
  | nil => rfl
  | cons x rest ih =>
    obtain ⟨p, b⟩ := x
    cases b <;> simp [handleCleanups, ih, cleanupProcessResources]

theorem mem_cleanupList {m : Own} (hn : KeysNodup m) {rs : List (Pid × Bool)} {r : Rid} :
    r ∈ cleanupList m rs ↔ ∃ p, (p, true) ∈ rs ∧ ownGet m r = some p := by
  induction rs generalizing m with
  | nil => simp [cleanupList]
  | cons x rest ih =>
    obtain ⟨q, b⟩ := x
    cases b
    · simp only [cleanupList, ih hn, List.mem_cons, Prod.mk.injEq, Bool.true_eq_false, and_false,
        false_or]
    · simp only [cleanupList, List.mem_append, mem_ownedBy hn, ih (hn.eraseAll _), ownGet_eraseAll,
        List.mem_cons, Prod.mk.injEq, and_true]
      constructor
      · rintro (h | ⟨p, hp, hg⟩)
        · exact ⟨q, .inl rfl, h⟩
        · refine ⟨p, .inr hp, ?_⟩
          split at hg
          · cases hg
          · exact hg
      · rintro ⟨p, hp | hp, hg⟩
        · subst hp; exact .inl hg
        · by_cases hq : ownGet m r = some q
          · exact .inl hq
          · refine .inr ⟨p, hp, ?_⟩
            rw [if_neg hq]; exact hg

theorem cleanupList_nodup {m : Own} (hn : KeysNodup m) (rs : List (Pid × Bool)) :
    (cleanupList m rs).Nodup := by
  induction rs generalizing m with
  | nil => simp [cleanupList]
  | cons x rest ih =>
    obtain ⟨q, b⟩ := x
    cases b
    · exact ih hn
    · simp only [cleanupList]
      refine List.nodup_append.2 ⟨ownedBy_nodup hn q, ih (hn.eraseAll _), ?_⟩
      intro a ha b hb hab
      subst hab
      obtain ⟨p, _, hg⟩ := (mem_cleanupList (hn.eraseAll _)).1 hb
      rw [ownGet_eraseAll, if_pos ha] at hg
      cases hg

theorem cleanupList_sub_keys {m : Own} (hn : KeysNodup m) {rs : List (Pid × Bool)} {r : Rid}
    (h : r ∈ cleanupList m rs) : r ∈ ownKeys m := by
  obtain ⟨p, _, hg⟩ := (mem_cleanupList hn).1 h
  exact (ownGet_isSome_iff m r).1 (by simp [hg])

/-! ### process_completions: frame -/

theorem completeOne_frame (b : Backend) (x : Pid × Pending) :
    (b.completeOne x).1.executed = b.executed ∧ (b.completeOne x).1.closeCalls = b.closeCalls ∧
    (b.completeOne x).1.effClosed = b.effClosed ∧ (b.completeOne x).1.pending = b.pending := by
  obtain ⟨p, pd⟩ := x
  cases pd with
  | plain ok => simp [Backend.completeOne]
  | creating ok => cases ok <;> simp [Backend.completeOne, Backend.alloc]

theorem completeAll_frame (b : Backend) (xs : List (Pid × Pending)) :
    (b.completeAll xs).1.executed = b.executed ∧ (b.completeAll xs).1.closeCalls = b.closeCalls ∧
    (b.completeAll xs).1.effClosed = b.effClosed ∧ (b.completeAll xs).1.pending = b.pending := by
  induction xs generalizing b with
  | nil => simp [Backend.completeAll]
  | cons x rest ih =>
    simp only [Backend.completeAll]
    have h1 := completeOne_frame b x
    have h2 := ih (b.completeOne x).1
    refine ⟨h2.1.trans h1.1, h2.2.1.trans h1.2.1, h2.2.2.1.trans h1.2.2.1, h2.2.2.2.trans h1.2.2.2⟩

theorem processCompletions_executed (b : Backend) (n : Nat) :
    (b.processCompletions n).1.executed = b.executed :=
  (completeAll_frame _ _).1
theorem processCompletions_closeCalls (b : Backend) (n : Nat) :
    (b.processCompletions n).1.closeCalls = b.closeCalls :=
  (completeAll_frame _ _).2.1
theorem processCompletions_effClosed (b : Backend) (n : Nat) :
    (b.processCompletions n).1.effClosed = b.effClosed :=
  (completeAll_frame _ _).2.2.1

theorem processCompletions_idle (b : Backend) (n : Nat) (h : b.pending = []) :
    b.processCompletions n = (b, []) := by
  unfold Backend.processCompletions
  simp only [h, List.take_nil, List.drop_nil, Backend.completeAll]
  cases b; simp_all

theorem handleCompletions_idle (s : Env) (n : Nat) (h : s.backend.pending = []) :
    handleCompletions s n = s := by
  unfold handleCompletions
  rw [processCompletions_idle _ _ h]
  rfl

end QM.Resources
