import QuiverModel.Lemmas.Resources.Cleanup
/-!
Invariants of M-Sys/resources along histories:
* `BInv` — the backend never reuses an id: open ids and effectively-closed ids are below the
  allocator, an effectively closed id is not open, and no id is effectively closed twice;
* `Inv`  — additionally every registered id and every id passed to `close_resource` is below the
  allocator (needs: handles are not forged, `handlesExist`).
Core Lean only.
-/
namespace QM.Resources

structure BInv (b : Backend) : Prop where
  open_lt : ∀ r ∈ b.openSet, r < b.nextRid
  eff_lt : ∀ r ∈ b.effClosed, r < b.nextRid
  eff_not_open : ∀ r ∈ b.effClosed, r ∉ b.openSet
  eff_nodup : b.effClosed.Nodup

theorem BInv.of_eq {b b' : Backend} (h : BInv b) (h1 : b'.openSet = b.openSet)
    (h2 : b'.effClosed = b.effClosed) (h3 : b'.nextRid = b.nextRid) : BInv b' :=
  ⟨by rw [h1, h3]; exact h.open_lt, by rw [h2, h3]; exact h.eff_lt,
   by rw [h1, h2]; exact h.eff_not_open, by rw [h2]; exact h.eff_nodup⟩

theorem BInv.alloc {b : Backend} (h : BInv b) : BInv b.alloc.1 := by
  refine ⟨?_, ?_, ?_, ?_⟩
  · intro r hr
    simp only [Backend.alloc, List.mem_cons] at hr ⊢
    rcases hr with rfl | hr
    · exact Nat.lt_succ_self _
    · exact Nat.lt_succ_of_lt (h.open_lt r hr)
  · intro r hr
    simp only [Backend.alloc] at hr ⊢
    exact Nat.lt_succ_of_lt (h.eff_lt r hr)
  · intro r hr
    simp only [Backend.alloc, List.mem_cons, not_or] at hr ⊢
    exact ⟨Nat.ne_of_lt (h.eff_lt r hr), h.eff_not_open r hr⟩
  · exact h.eff_nodup

theorem BInv.removeOpen {b : Backend} (h : BInv b) (r : Rid) (hr : r ∈ b.openSet) :
    BInv { b with openSet := b.openSet.filter (· ≠ r), effClosed := b.effClosed ++ [r] } := by
  refine ⟨?_, ?_, ?_, ?_⟩
  · intro x hx
    simp only [List.mem_filter] at hx
    exact h.open_lt x hx.1
  · intro x hx
    simp only [List.mem_append, List.mem_singleton] at hx
    rcases hx with hx | rfl
    · exact h.eff_lt x hx
    · exact h.open_lt _ hr
  · intro x hx hm
    simp only [List.mem_append, List.mem_singleton] at hx
    simp only [List.mem_filter, ne_eq, decide_not, Bool.not_eq_eq_eq_not, Bool.not_true,
      decide_eq_false_iff_not] at hm
    rcases hx with hx | rfl
    · exact h.eff_not_open x hx hm.1
    · exact hm.2 rfl
  · refine List.nodup_append.2 ⟨h.eff_nodup, by simp, ?_⟩
    intro a ha c hc hac
    simp only [List.mem_singleton] at hc
    subst hc; subst hac
    exact h.eff_not_open _ ha hr

theorem BInv.closeResource {b : Backend} (h : BInv b) (r : Rid) : BInv (b.closeResource r) := by
  by_cases hr : r ∈ b.openSet
  · have := h.removeOpen r hr
    refine this.of_eq ?_ ?_ ?_ <;> simp [Backend.closeResource, hr]
  · refine h.of_eq ?_ ?_ ?_
    · simp only [Backend.closeResource]
      apply List.filter_eq_self.2
      intro a ha
      simp only [ne_eq, decide_not, Bool.not_eq_eq_eq_not, Bool.not_true, decide_eq_false_iff_not]
      intro hx; subst hx; exact hr ha
    · simp [Backend.closeResource, hr]
    · simp [Backend.closeResource]

theorem BInv.closeAll {b : Backend} (h : BInv b) (rs : List Rid) : BInv (closeAll b rs) := by
  induction rs generalizing b with
  | nil => exact h
  | cons r rest ih => exact ih (h.closeResource r)

/-- The three fields `BInv` talks about, after `execute`. -/
theorem BInv.execute {b : Backend} (h : BInv b) (p : Pid) (e : Effect) (w : Bool) :
    BInv (b.execute p e w).1 := by
  have h0 : BInv { b with executed := b.executed ++ [(p, e)] } := h.of_eq rfl rfl rfl
  unfold Backend.execute
  cases e.kind.shape <;> simp only
  · split
    · exact h0.alloc
    · exact h0
  · exact h0.of_eq rfl rfl rfl
  · split <;> exact h0
  · split
    · split <;> exact h0
    · exact h0
  · split
    · exact h0.of_eq rfl rfl rfl
    · exact h0
  · split
    · exact h0.of_eq rfl rfl rfl
    · exact h0
  · split
    · rename_i hm
      exact (h0.removeOpen e.rid hm).of_eq rfl rfl rfl
    · exact h0

theorem execute_nextRid_mono (b : Backend) (p : Pid) (e : Effect) (w : Bool) :
    b.nextRid ≤ (b.execute p e w).1.nextRid := by
  unfold Backend.execute Backend.alloc
  cases e.kind.shape <;> simp only <;> (repeat' split) <;> simp

theorem execute_reply_okRes {b : Backend} {p : Pid} {e : Effect} {w : Bool} {r : Rid}
    (h : (b.execute p e w).2 = .immediate (.okRes r)) :
    r = b.nextRid ∧ (b.execute p e w).1.nextRid = b.nextRid + 1 := by
  unfold Backend.execute Backend.alloc at h ⊢
  cases hs : e.kind.shape <;> simp only [hs] at h ⊢ <;> (repeat' split at h) <;> simp_all

theorem BInv.completeOne {b : Backend} (h : BInv b) (x : Pid × Pending) : BInv (b.completeOne x).1 := by
  obtain ⟨p, pd⟩ := x
  cases pd with
  | plain ok => exact h
  | creating ok => cases ok <;> simp only [Backend.completeOne] <;> first | exact h | exact h.alloc

theorem BInv.completeAll {b : Backend} (h : BInv b) (xs : List (Pid × Pending)) :
    BInv (b.completeAll xs).1 := by
  induction xs generalizing b with
  | nil => exact h
  | cons x rest ih => simp only [Backend.completeAll]; exact ih (h.completeOne x)

theorem processCompletions_eq (b : Backend) (n : Nat) :
    b.processCompletions n = ({ b with pending := b.pending.drop n }).completeAll (b.pending.take n) := rfl

theorem BInv.processCompletions {b : Backend} (h : BInv b) (n : Nat) :
    BInv (b.processCompletions n).1 := by
  rw [processCompletions_eq]
  exact BInv.completeAll (b := { b with pending := b.pending.drop n }) (h.of_eq rfl rfl rfl) _

/-! ### ids handed out by one `process_completions` -/

def resIds (cs : List (Pid × Res)) : List Rid :=
  cs.filterMap (fun c => match c.2 with | .okRes r => some r | _ => none)

theorem completeOne_nextRid_mono (b : Backend) (x : Pid × Pending) :
    b.nextRid ≤ (b.completeOne x).1.nextRid := by
  obtain ⟨p, pd⟩ := x
  cases pd with
  | plain ok => simp [Backend.completeOne]
  | creating ok => cases ok <;> simp [Backend.completeOne, Backend.alloc]

theorem completeAll_nextRid_mono (b : Backend) (xs : List (Pid × Pending)) :
    b.nextRid ≤ (b.completeAll xs).1.nextRid := by
  induction xs generalizing b with
  | nil => simp [Backend.completeAll]
  | cons x rest ih =>
    simp only [Backend.completeAll]
    exact Nat.le_trans (completeOne_nextRid_mono b x) (ih _)

theorem completeAll_resIds (b : Backend) (xs : List (Pid × Pending)) :
    (resIds (b.completeAll xs).2).Nodup ∧
    ∀ r ∈ resIds (b.completeAll xs).2, b.nextRid ≤ r ∧ r < (b.completeAll xs).1.nextRid := by
  induction xs generalizing b with
  | nil => simp [Backend.completeAll, resIds]
  | cons x rest ih =>
    obtain ⟨p, pd⟩ := x
    have hmono := completeAll_nextRid_mono
    cases pd with
    | plain ok =>
      have := ih b
      cases ok <;> simpa [Backend.completeAll, Backend.completeOne, resIds] using this
    | creating ok =>
      cases ok
      · have := ih b
        simpa [Backend.completeAll, Backend.completeOne, resIds] using this
      · have := ih b.alloc.1
        have hm := hmono b.alloc.1 rest
        have e1 : b.alloc.2 = b.nextRid := rfl
        have e2 : b.alloc.1.nextRid = b.nextRid + 1 := rfl
        rw [e2] at this hm
        simp only [Backend.completeAll, Backend.completeOne, resIds, List.filterMap_cons,
          List.nodup_cons, List.mem_cons, forall_eq_or_imp, e1] at this ⊢
        generalize (b.alloc.1.completeAll rest).1.nextRid = N at *
        refine ⟨⟨?_, this.1⟩, ⟨Nat.le_refl _, ?_⟩, ?_⟩
        · intro hmem
          exact absurd (this.2 _ hmem).1 (Nat.not_succ_le_self _)
        · exact Nat.lt_of_succ_le hm
        · intro r hr
          have := this.2 r hr
          exact ⟨Nat.le_of_succ_le this.1, this.2⟩

theorem processCompletions_nextRid_mono (b : Backend) (n : Nat) :
    b.nextRid ≤ (b.processCompletions n).1.nextRid := by
  rw [processCompletions_eq]
  exact completeAll_nextRid_mono { b with pending := b.pending.drop n } _

theorem processCompletions_resIds (b : Backend) (n : Nat) :
    (resIds (b.processCompletions n).2).Nodup ∧
    ∀ r ∈ resIds (b.processCompletions n).2, b.nextRid ≤ r ∧ r < (b.processCompletions n).1.nextRid := by
  rw [processCompletions_eq]
  exact completeAll_resIds { b with pending := b.pending.drop n } _

theorem mem_resIds {cs : List (Pid × Res)} {r : Rid} : r ∈ resIds cs ↔ ∃ p, (p, Res.okRes r) ∈ cs := by
  unfold resIds
  simp only [List.mem_filterMap]
  constructor
  · rintro ⟨⟨p, res⟩, hm, hr⟩
    cases res <;> simp at hr
    subst hr; exact ⟨p, hm⟩
  · rintro ⟨p, hm⟩; exact ⟨(p, .okRes r), hm, rfl⟩

theorem mem_ownKeys_regOf {m : Own} {p : Pid} {res : Res} {x : Rid} :
    x ∈ ownKeys (regOf m p res) ↔ res = .okRes x ∨ x ∈ ownKeys m := by
  cases res with
  | okRes r =>
    simp only [regOf, mem_ownKeys_insert, Res.okRes.injEq]
    constructor
    · rintro (h | h); exact .inl h.symm; exact .inr h
    · rintro (h | h); exact .inl h.symm; exact .inr h
  | okOther => simp [regOf]
  | err => simp [regOf]

theorem mem_ownKeys_regAll {m : Own} {cs : List (Pid × Res)} {x : Rid} :
    x ∈ ownKeys (regAll m cs) ↔ x ∈ resIds cs ∨ x ∈ ownKeys m := by
  induction cs generalizing m with
  | nil => simp [regAll, resIds]
  | cons c rest ih =>
    obtain ⟨p, res⟩ := c
    simp only [regAll, ih, mem_ownKeys_regOf, mem_resIds, List.mem_cons, Prod.mk.injEq]
    constructor
    · rintro (⟨q, hq⟩ | h | h)
      · exact .inl ⟨q, .inr hq⟩
      · exact .inl ⟨p, .inl ⟨rfl, h.symm⟩⟩
      · exact .inr h
    · rintro (⟨q, ⟨_, hq⟩ | hq⟩ | h)
      · exact .inr (.inl hq.symm)
      · exact .inl ⟨q, hq⟩
      · exact .inr (.inr h)

theorem ownGet_regOf (m : Own) (p : Pid) (res : Res) (x : Rid) :
    ownGet (regOf m p res) x = if res = .okRes x then some p else ownGet m x := by
  cases res with
  | okRes r =>
    simp only [regOf, ownGet_insert, Res.okRes.injEq]
    by_cases h : x = r
    · simp [h]
    · have : ¬ r = x := fun h' => h h'.symm
      simp [h, this]
  | okOther => simp [regOf]
  | err => simp [regOf]

/-- With pairwise distinct new ids, each ends up registered to the process of its completion. -/
theorem ownGet_regAll_of_mem {m : Own} {cs : List (Pid × Res)} (hn : (resIds cs).Nodup) {p : Pid} {r : Rid}
    (h : (p, Res.okRes r) ∈ cs) : ownGet (regAll m cs) r = some p := by
  induction cs generalizing m with
  | nil => simp at h
  | cons c rest ih =>
    obtain ⟨q, res⟩ := c
    simp only [regAll]
    rcases List.mem_cons.1 h with h | h
    · cases h
      simp only [resIds, List.filterMap_cons, List.nodup_cons] at hn
      -- r does not occur again in the rest: the later registrations leave it alone
      have hnot : r ∉ resIds rest := hn.1
      have : ∀ (m' : Own), ownGet (regAll m' rest) r = ownGet m' r := by
        intro m'
        clear ih h hn
        induction rest generalizing m' with
        | nil => rfl
        | cons d rest' ih' =>
          obtain ⟨q', res'⟩ := d
          simp only [regAll]
          have h1 : r ∉ resIds rest' := by
            intro hc; apply hnot
            obtain ⟨p', hp'⟩ := mem_resIds.1 hc
            exact mem_resIds.2 ⟨p', List.mem_cons_of_mem _ hp'⟩
          rw [ih' h1, ownGet_regOf]
          have : res' ≠ .okRes r := by
            intro hc; apply hnot; subst hc
            exact mem_resIds.2 ⟨q', List.mem_cons_self⟩
          simp [this]
      rw [this, ownGet_regOf]; simp
    · have hn' : (resIds rest).Nodup := by
        cases res <;> simp_all [resIds]
      exact ih hn' h

end QM.Resources

namespace QM.Resources

/-! ### who can remove an id from the registry -/

theorem completeOne_openSet_mono (b : Backend) (x : Pid × Pending) {r : Rid} (h : r ∈ b.openSet) :
    r ∈ (b.completeOne x).1.openSet := by
  obtain ⟨p, pd⟩ := x
  cases pd with
  | plain ok => exact h
  | creating ok => cases ok <;> simp [Backend.completeOne, Backend.alloc, h]

theorem completeAll_openSet_mono (b : Backend) (xs : List (Pid × Pending)) {r : Rid} (h : r ∈ b.openSet) :
    r ∈ (b.completeAll xs).1.openSet := by
  induction xs generalizing b with
  | nil => exact h
  | cons x rest ih => simp only [Backend.completeAll]; exact ih _ (completeOne_openSet_mono b x h)

theorem processCompletions_openSet_mono (b : Backend) (n : Nat) {r : Rid} (h : r ∈ b.openSet) :
    r ∈ (b.processCompletions n).1.openSet := by
  rw [processCompletions_eq]
  exact completeAll_openSet_mono { b with pending := b.pending.drop n } _ h

theorem execute_openSet (b : Backend) (p : Pid) (e : Effect) (w : Bool) {r : Rid} (h : r ∈ b.openSet) :
    r ∈ (b.execute p e w).1.openSet ∨ (e.kind.shape = .closeSync ∧ e.rid = r) := by
  unfold Backend.execute Backend.alloc
  cases hs : e.kind.shape <;> simp only
  · split <;> simp [h]
  · simp [h]
  · split <;> simp [h]
  · split
    · split <;> simp [h]
    · simp [h]
  · split <;> simp [h]
  · split <;> simp [h]
  · split
    · by_cases hr : e.rid = r
      · exact .inr ⟨trivial, hr⟩
      · refine .inl ?_
        simp only [List.mem_filter, h, ne_eq, decide_not, Bool.not_eq_eq_eq_not, Bool.not_true,
          decide_eq_false_iff_not, true_and]
        exact fun hc => hr hc.symm
    · simp [h]

end QM.Resources
