import QuiverModel.Lemmas.Types.RecDer
/-
Stage 1, the arms: every ALL-mode run on recursive first-order types is `GoodS` for `Der`
(`checkRel_goodS`); hence the assumption set a successful top-level run returns is supported
(`run_supported`).
-/
namespace QM.Types

/-- every id on the two stacks is recursive first-order -/
def StkRFO (T : Table) (st : Stk) : Prop := (∀ x ∈ st.l, RFO T x) ∧ (∀ x ∈ st.r, RFO T x)

theorem pushStack_mem {st : List Nat} {a x : Nat} (h : x ∈ pushStack st a) : x = a ∨ x ∈ st := by
  unfold pushStack at h
  split at h
  · exact Or.inr h
  · exact List.mem_cons.mp h

theorem resolveCycle_mem {st : List Nat} {d sid : Nat} (h : resolveCycle st d = some sid) : sid ∈ st := by
  unfold resolveCycle at h
  split at h
  · cases h
  · exact List.mem_of_getElem? h

theorem StkRFO.pushL {T : Table} {st : Stk} {a : Nat} (h : StkRFO T st) (ha : RFO T a) :
    StkRFO T (st.pushL a) :=
  ⟨fun x hx => (pushStack_mem hx).elim (fun e => e ▸ ha) (h.1 x), h.2⟩

theorem StkRFO.pushR {T : Table} {st : Stk} {b : Nat} (h : StkRFO T st) (hb : RFO T b) :
    StkRFO T (st.pushR b) :=
  ⟨h.1, fun x hx => (pushStack_mem hx).elim (fun e => e ▸ hb) (h.2 x)⟩

theorem StkRFO.dropL {T : Table} {st : Stk} (h : StkRFO T st) (d : Nat) :
    StkRFO T { st with l := st.l.drop d } :=
  ⟨fun x hx => h.1 x (List.mem_of_mem_drop hx), h.2⟩

theorem StkRFO.dropR {T : Table} {st : Stk} (h : StkRFO T st) (d : Nat) :
    StkRFO T { st with r := st.r.drop d } :=
  ⟨h.1, fun x hx => h.2 x (List.mem_of_mem_drop hx)⟩

/-- the recursive call is good for `Der` on every recursive first-order pair -/
def RecGoodS (T : Table) (rec : Rec) : Prop :=
  ∀ asm st x y, RFO T x → RFO T y → StkRFO T st →
    GoodS T (rec asm st x y) asm (fun A => Der T A x y st)

theorem derMono (T : Table) (x y : Nat) (st : Stk) : MonoP (fun A => Der T A x y st) :=
  fun _ _ hA h => h.mono hA

section
variable {T : Table} {rec : Rec} {asm : Asm} {st : Stk} {a b : Nat}
  (ha : RFO T a) (hb : RFO T b) (hst : StkRFO T st) (hrec : RecGoodS T rec)
include ha hb hst hrec

theorem cycleLeft_goodS {d : Nat} (hta : T.types[a]? = some (.cycle d)) :
    GoodS T (cycleLeft Variant.current rec asm st d b) asm (fun A => Der T A a b st) := by
  unfold cycleLeft
  show GoodS T (match resolveCycle st.l d with
    | none => some (true, asm)
    | some sid => rec asm { st with l := st.l.drop d } sid b) asm _
  cases hr : resolveCycle st.l d with
  | none => exact GoodS.const_true (.cycle_left_dangling hta hr)
  | some sid =>
    exact (hrec asm _ sid b (hst.1 sid (resolveCycle_mem hr)) hb (hst.dropL d)).imp
      (fun A h => .cycle_left hta hr h)

theorem cycleRight_goodS {d : Nat} (htb : T.types[b]? = some (.cycle d)) :
    GoodS T (cycleRight Variant.current rec asm st a d) asm (fun A => Der T A a b st) := by
  unfold cycleRight
  show GoodS T (match resolveCycle st.r d with
    | none => some (true, asm)
    | some sid => rec asm { st with r := st.r.drop d } a sid) asm _
  cases hr : resolveCycle st.r d with
  | none => exact GoodS.const_true (.cycle_right_dangling htb hr)
  | some sid =>
    exact (hrec asm _ a sid ha (hst.2 sid (resolveCycle_mem hr)) (hst.dropR d)).imp
      (fun A h => .cycle_right htb hr h)

theorem unionLeft_goodS {vs : List Nat} (hta : T.types[a]? = some (.union vs)) :
    GoodS T (unionLeft Variant.current .all rec asm st a b vs) asm (fun A => Der T A a b st) := by
  unfold unionLeft
  show GoodS T (restoreOnFail Variant.current asm
    (allS (fun s v => rec s (st.pushL a) v b) vs ((a, b, st) :: asm))) asm _
  refine (GoodS.of_restore (k := (a, b, st)) (P := fun A => ∀ v ∈ vs, Der T A v b (st.pushL a)) ?_
    (fun A h => Or.inl ⟨vs, hta, h⟩)).imp (fun A h => .hyp h)
  exact allS_goodS T (fun v => derMono T v b _) vs
    (fun v hv s => hrec s _ v b (ha.union hta v hv) hb (hst.pushL ha)) _

theorem unionRight_goodS {ws : List Nat} (htb : T.types[b]? = some (.union ws)) :
    GoodS T (unionRight Variant.current rec asm st a b ws) asm (fun A => Der T A a b st) := by
  unfold unionRight
  show GoodS T (restoreOnFail Variant.current asm
    (anyS (fun s w => rec s (st.pushR b) a w) ws ((a, b, st) :: asm))) asm _
  refine (GoodS.of_restore (k := (a, b, st)) (P := fun A => ∃ w ∈ ws, Der T A a w (st.pushR b)) ?_
    (fun A ⟨w, hw, h⟩ => Or.inr ⟨ws, w, htb, hw, h⟩)).imp (fun A h => .hyp h)
  exact anyS_goodS T ws (fun w hw s => hrec s _ a w ha (hb.union htb w hw) (hst.pushR hb)) _

theorem tupleTuple_goodS {i1 i2 : Nat} (hta : T.types[a]? = some (.tuple i1))
    (htb : T.types[b]? = some (.tuple i2)) :
    GoodS T (tupleTuple Variant.current T .all rec asm st i1 i2) asm (fun A => Der T A a b st) := by
  obtain ⟨info1, h1, hf1⟩ := ha.tuple hta
  obtain ⟨info2, h2, hf2⟩ := hb.tuple htb
  unfold tupleTuple
  split
  · rename_i heq
    obtain ⟨heq, hctx⟩ := heq
    subst heq
    refine GoodS.const_true (.tuple_same hta htb ?_)
    simpa [sameContext, Variant.current] using hctx
  · simp only [h1, h2]
    split
    · rename_i hnl
      unfold tupleFields
      refine (allS_goodS T
        (R := fun (p : (Option Name × Nat) × (Option Name × Nat)) A =>
          p.1.1 = p.2.1 ∧ Der T A p.1.2 p.2.2 st)
        (fun p => (show MonoP (fun A => p.1.1 = p.2.1 ∧ Der T A p.1.2 p.2.2 st) from
          fun A A' hA h => ⟨h.1, h.2.mono hA⟩)) _ (fun p hp s => ?_) asm).imp
        (fun A hz => .tuple_tuple hta htb h1 h2 hnl.1 hnl.2 (fun p hp => (hz p hp).1)
          (fun p hp => (hz p hp).2))
      have hp1 : p.1 ∈ info1.fields := (List.of_mem_zip hp).1
      have hp2 : p.2 ∈ info2.fields := (List.of_mem_zip hp).2
      split
      · rename_i hl
        exact (hrec s st _ _ (hf1 _ hp1) (hf2 _ hp2) hst).imp (fun A hv => ⟨hl, hv⟩)
      · exact GoodS.const_false
    · exact GoodS.const_false

theorem tuplePart_goodS {c : Nat} {pn : Option Name} {pfs : List (Name × Nat)}
    (hta : T.types[a]? = some (.tuple c)) (htb : T.types[b]? = some (.part pn pfs)) :
    GoodS T (tuplePart T rec asm st c pn pfs) asm (fun A => Der T A a b st) := by
  obtain ⟨ci, hc, hfc⟩ := ha.tuple hta
  have hfp := hb.part htb
  unfold tuplePart
  simp only [hc]
  split
  · exact GoodS.const_false
  · rename_i hname
    unfold tuplePartFields
    refine (allS_goodS T
      (R := fun pf A => ∃ cf ∈ ci.fields, cf.1 = some pf.1 ∧ Der T A cf.2 pf.2 st)
      (fun pf A A' hA ⟨cf, h1, h2, h3⟩ => ⟨cf, h1, h2, h3.mono hA⟩) pfs
      (fun pf hpf s => ?_) asm).imp (fun A hf => ?_)
    · refine (anyS_goodS T (R := fun cf A => cf.1 = some pf.1 ∧ Der T A cf.2 pf.2 st) ci.fields
        (fun cf hcf s' => ?_) s).imp (fun A ⟨cf, h1, h2⟩ => ⟨cf, h1, h2⟩)
      split
      · rename_i hl
        exact (hrec s' st _ _ (hfc _ hcf) (hfp _ hpf) hst).imp (fun A hv => ⟨hl, hv⟩)
      · exact GoodS.const_false
    · -- choose the matching tuple field of each partial field
      classical
      let sel : Name × Nat → Option Name × Nat := fun pf =>
        if h : ∃ cf ∈ ci.fields, cf.1 = some pf.1 ∧ Der T A cf.2 pf.2 st then Classical.choose h
        else (none, 0)
      have hsel : ∀ pf ∈ pfs, sel pf ∈ ci.fields ∧ (sel pf).1 = some pf.1 ∧ Der T A (sel pf).2 pf.2 st := by
        intro pf hpf
        have h := hf pf hpf
        simp only [sel, h, dite_true]
        exact Classical.choose_spec h
      exact .tuple_part sel hta htb hc hname (fun pf hpf => ⟨(hsel pf hpf).1, (hsel pf hpf).2.1⟩)
        (fun pf hpf => (hsel pf hpf).2.2)

theorem partPart_goodS {n1 n2 : Option Name} {fs1 fs2 : List (Name × Nat)}
    (hta : T.types[a]? = some (.part n1 fs1)) (htb : T.types[b]? = some (.part n2 fs2)) :
    GoodS T (partPart Variant.current .all rec asm st n1 fs1 n2 fs2) asm (fun A => Der T A a b st) := by
  have hf1 := ha.part hta
  have hf2 := hb.part htb
  unfold partPart
  split
  · exact GoodS.const_false
  · rename_i hname
    unfold partPartFields
    simp only [Variant.current, Bool.false_eq_true, if_false]
    refine (allS_goodS T
      (R := fun f2 A => ∃ f1, fs1.find? (fun f1 => f1.1 == f2.1) = some f1 ∧ Der T A f1.2 f2.2 st)
      (fun f2 A A' hA ⟨f1, h1, h2⟩ => ⟨f1, h1, h2.mono hA⟩) fs2
      (fun f2 hf2mem s => ?_) asm).imp (fun A hf => ?_)
    · split
      · rename_i f1 hfind
        have hmem : f1 ∈ fs1 := List.mem_of_find?_eq_some hfind
        exact (hrec s st _ _ (hf1 _ hmem) (hf2 _ hf2mem) hst).imp (fun A hv => ⟨f1, hfind, hv⟩)
      · exact GoodS.const_false
    · let sel : Name × Nat → Name × Nat := fun f2 =>
        (fs1.find? (fun f1 => f1.1 == f2.1)).getD (0, 0)
      have hsel : ∀ f2 ∈ fs2, fs1.find? (fun f1 => f1.1 == f2.1) = some (sel f2) ∧
          Der T A (sel f2).2 f2.2 st := by
        intro f2 hf2mem
        obtain ⟨f1, hfind, hd⟩ := hf f2 hf2mem
        simp only [sel, hfind, Option.getD_some]
        exact ⟨trivial, hd⟩
      exact .part_part sel hta htb (by simpa using hname) (fun f2 h => (hsel f2 h).1)
        (fun f2 h => (hsel f2 h).2)

end

/-- one unfolding of the relation on a recursive first-order pair -/
theorem relStep_goodS {T : Table} {rec : Rec} {asm : Asm} {st : Stk} {a b : Nat} {ta tb : Ty}
    (ha : RFO T a) (hb : RFO T b) (hst : StkRFO T st) (hta : T.types[a]? = some ta)
    (htb : T.types[b]? = some tb) (hrec : RecGoodS T rec) :
    GoodS T (relStep Variant.current T .all rec asm st a b ta tb) asm (fun A => Der T A a b st) := by
  obtain ⟨ta', hta', hfa, hoka, hcha⟩ := ha.unfold
  obtain ⟨tb', htb', hfb, hokb, hchb⟩ := hb.unfold
  rw [hta] at hta'; cases hta'
  rw [htb] at htb'; cases htb'
  clear hoka hcha hokb hchb
  cases ta <;> simp only [Ty.isRFO, Bool.false_eq_true] at hfa <;>
    cases tb <;> simp only [Ty.isRFO, Bool.false_eq_true] at hfb
  all_goals first
    | (simp only [relStep]; exact GoodS.const_false)
    | (simp only [relStep, partTuple]; exact GoodS.const_false)
    | (simp only [relStep]; exact cycleLeft_goodS ha hb hst hrec hta)
    | (simp only [relStep, Variant.current, Bool.false_eq_true, false_and, if_false]
       exact cycleLeft_goodS ha hb hst hrec hta)
    | (simp only [relStep]; exact cycleRight_goodS ha hb hst hrec htb)
    | (simp only [relStep]; exact unionRight_goodS ha hb hst hrec htb)
    | (simp only [relStep]; exact tupleTuple_goodS ha hb hst hrec hta htb)
    | (simp only [relStep]; exact tuplePart_goodS ha hb hst hrec hta htb)
    | (simp only [relStep]; exact partPart_goodS ha hb hst hrec hta htb)
    | (simp only [relStep]
       exact GoodS.const_true (.atom hta htb (by simp [Atom])))
    | (-- two resource types
       simp only [relStep]
       intro r asm' h
       simp only [Option.some.injEq, Prod.mk.injEq] at h
       obtain ⟨rfl, rfl⟩ := h
       refine ⟨fun _ hp => hp, fun _ hp => Or.inl hp, fun hr => ?_⟩
       simp only [decide_eq_true_eq] at hr
       subst hr
       exact .atom hta htb (by simp [Atom]))
    | (-- a union on the left
       rename_i vs
       cases vs with
       | nil => simp only [relStep]; exact GoodS.const_true (.never_left hta)
       | cons x xs =>
         first
           | (simp only [relStep]; exact unionLeft_goodS ha hb hst hrec hta)
           | (simp only [relStep]; exact cycleRight_goodS ha hb hst hrec htb))
    | (rename_i vs _
       cases vs with
       | nil => simp only [relStep]; exact GoodS.const_true (.never_left hta)
       | cons x xs =>
         first
           | (simp only [relStep]; exact unionLeft_goodS ha hb hst hrec hta)
           | (simp only [relStep]; exact cycleRight_goodS ha hb hst hrec htb))
    | (rename_i vs _ _
       cases vs with
       | nil => simp only [relStep]; exact GoodS.const_true (.never_left hta)
       | cons x xs =>
         first
           | (simp only [relStep]; exact unionLeft_goodS ha hb hst hrec hta)
           | (simp only [relStep]; exact cycleRight_goodS ha hb hst hrec htb))

/-- **stage 1**: every ALL-mode run on recursive first-order types is good for `Der` -/
theorem checkRel_goodS (T : Table) : ∀ (n : Nat), RecGoodS T (checkRel T .all n) := by
  intro n
  induction n with
  | zero =>
    intro asm st x y _ _ _ r asm' h
    simp [checkRel, checkRelV] at h
  | succ n ih =>
    intro asm st x y hx hy hst
    unfold checkRel checkRelV
    split
    · rename_i heq
      obtain ⟨heq, hctx⟩ := heq
      subst heq
      exact GoodS.const_true (.refl (by simpa [sameContext, Variant.current] using hctx))
    · split
      · rename_i hc
        have hmem : (x, y, st) ∈ asm := by simpa [akey, Variant.current] using hc
        exact GoodS.const_true (.hyp hmem)
      · split
        · rename_i ta tb hta htb
          exact relStep_goodS hx hy hst hta htb ih
        · exact GoodS.const_false

/-- the assumptions a successful top-level run returns are all supported by the set itself, and the
pair is derivable from them -/
theorem run_supported (T : Table) (fuel : Nat) (a b : Nat) (ha : RFO T a) (hb : RFO T b) (asm' : Asm)
    (h : checkRel T .all fuel [] {} a b = some (true, asm')) :
    (∀ p ∈ asm', Supp T (· ∈ asm') p) ∧ Der T (· ∈ asm') a b {} := by
  have := checkRel_goodS T fuel [] {} a b ha hb ⟨fun x hx => by simp at hx, fun x hx => by simp at hx⟩
    true asm' h
  exact ⟨fun p hp => (this.2.1 p hp).elim (fun h => by simp at h) id, this.2.2 rfl⟩

end QM.Types
