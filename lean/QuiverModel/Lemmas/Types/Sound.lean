import QuiverModel.Lemmas.Types.ShapeLemmas
/-
Soundness of `checkRel` in mode ALL on first-order cycle-free types of an ordered table.

`Valid T a b` — every value of `a` is a value of `b` (under any boundary stacks; for first-order
types the stack is irrelevant). The bookkeeping (`Inv`, `Post`, `Good`, `RecGood`) is stated for an
arbitrary relation `W` on type ids that is closed under the rules the ALL-mode arms rely on (`Rules`):
`Valid` is one such relation (soundness), the stateless syntactic relation `Sub` (`Lemmas/Types/Sub.lean`)
another (the verdict does not depend on the assumption set and the stacks). The assumption set may contain *pending* pairs (the keys inserted
by the union arms before their variants are checked); on an ordered table every sub-check is about
a pair with a strictly smaller id sum, so a pending pair is never the one looked up:
`Inv W μ asm m` — every assumed pair is valid or has id sum ≥ m.
-/
namespace QM.Types

def Valid (T : Table) (a b : Nat) : Prop := ∀ st st' v, inh T st a v → inh T st' b v

/-- `μ` measures a type id; a sub-check is always about a pair with a strictly smaller `μ`-sum
(`ChildLt`): ids themselves on an ordered table, the first-order rank on any table. -/
def Inv (W : Nat → Nat → Prop) (μ : Nat → Nat) (asm : Asm) (m : Nat) : Prop :=
  ∀ p ∈ asm, W p.1 p.2.1 ∨ m ≤ μ p.1 + μ p.2.1

/-- the children of a first-order type are `μ`-smaller than the type -/
def ChildLt (T : Table) (μ : Nat → Nat) : Prop :=
  ∀ {t : Nat} {ty : Ty}, T.types[t]? = some ty → FO T t → ∀ c ∈ ty.children T, μ c < μ t

/-- everything new in `asm'` is valid -/
def Post (W : Nat → Nat → Prop) (asm asm' : Asm) : Prop := ∀ p ∈ asm', p ∈ asm ∨ W p.1 p.2.1

theorem Inv.mono {W : Nat → Nat → Prop} {μ : Nat → Nat} {asm : Asm} {m m' : Nat} (h : Inv W μ asm m) (hm : m' ≤ m) : Inv W μ asm m' :=
  fun p hp => (h p hp).imp id (fun h => Nat.le_trans hm h)

theorem Inv.post {W : Nat → Nat → Prop} {μ : Nat → Nat} {asm asm' : Asm} {m : Nat} (h : Inv W μ asm m) (hp : Post W asm asm') :
    Inv W μ asm' m :=
  fun p hp' => (hp p hp').elim (h p) Or.inl

theorem Post.refl (W : Nat → Nat → Prop) (asm : Asm) : Post W asm asm := fun _ hp => Or.inl hp

theorem Post.trans {W : Nat → Nat → Prop} {a b c : Asm} (h1 : Post W a b) (h2 : Post W b c) : Post W a c :=
  fun p hp => (h2 p hp).elim (h1 p) Or.inr

theorem Inv.cons {W : Nat → Nat → Prop} {μ : Nat → Nat} {asm : Asm} {k : AKey}
    (h : Inv W μ asm (μ k.1 + μ k.2.1 + 1)) : Inv W μ (k :: asm) (μ k.1 + μ k.2.1) := by
  intro p hp
  rcases List.mem_cons.mp hp with rfl | hp
  · exact Or.inr (Nat.le_refl _)
  · exact (h p hp).imp id (fun h => by omega)

/-- what a sub-check guarantees: new assumptions are valid; a `true` verdict is valid -/
def Good (W : Nat → Nat → Prop) (res : Res) (asm : Asm) (P : Prop) : Prop :=
  ∀ r asm', res = some (r, asm') → Post W asm asm' ∧ (r = true → P)

theorem allS_good {α : Type} (W : Nat → Nat → Prop) {μ : Nat → Nat} {f : Asm → α → Res} {R : α → Prop} {m : Nat} :
    ∀ (l : List α), (∀ x ∈ l, ∀ s, Inv W μ s m → Good W (f s x) s (R x)) →
      ∀ s, Inv W μ s m → Good W (allS f l s) s (∀ x ∈ l, R x) := by
  intro l
  induction l with
  | nil =>
    intro _ s _ r asm' h
    simp only [allS, Option.some.injEq, Prod.mk.injEq] at h
    obtain ⟨_, rfl⟩ := h
    exact ⟨Post.refl _ _, fun _ x hx => by simp at hx⟩
  | cons x xs ih =>
    intro hf s hs r asm' h
    unfold allS at h
    cases hfx : f s x with
    | none => simp [hfx] at h
    | some p =>
      obtain ⟨b, s1⟩ := p
      have hx := hf x (by simp) s hs b s1 hfx
      rw [hfx] at h
      cases b with
      | false =>
        simp only [Option.some.injEq, Prod.mk.injEq] at h
        obtain ⟨rfl, rfl⟩ := h
        exact ⟨hx.1, fun h => by simp at h⟩
      | true =>
        simp only at h
        have hrest := ih (fun y hy => hf y (by simp [hy])) s1 (hs.post hx.1) r asm' h
        refine ⟨hx.1.trans hrest.1, fun hr y hy => ?_⟩
        rcases List.mem_cons.mp hy with rfl | hy
        · exact hx.2 rfl
        · exact hrest.2 hr y hy

theorem anyS_good {α : Type} (W : Nat → Nat → Prop) {μ : Nat → Nat} {f : Asm → α → Res} {R : α → Prop} {m : Nat} :
    ∀ (l : List α), (∀ x ∈ l, ∀ s, Inv W μ s m → Good W (f s x) s (R x)) →
      ∀ s, Inv W μ s m → Good W (anyS f l s) s (∃ x ∈ l, R x) := by
  intro l
  induction l with
  | nil =>
    intro _ s _ r asm' h
    simp only [anyS, Option.some.injEq, Prod.mk.injEq] at h
    obtain ⟨rfl, rfl⟩ := h
    exact ⟨Post.refl _ _, fun h => by simp at h⟩
  | cons x xs ih =>
    intro hf s hs r asm' h
    unfold anyS at h
    cases hfx : f s x with
    | none => simp [hfx] at h
    | some p =>
      obtain ⟨b, s1⟩ := p
      have hx := hf x (by simp) s hs b s1 hfx
      rw [hfx] at h
      cases b with
      | true =>
        simp only [Option.some.injEq, Prod.mk.injEq] at h
        obtain ⟨rfl, rfl⟩ := h
        exact ⟨hx.1, fun _ => ⟨x, by simp, hx.2 rfl⟩⟩
      | false =>
        simp only at h
        have hrest := ih (fun y hy => hf y (by simp [hy])) s1 (hs.post hx.1) r asm' h
        refine ⟨hx.1.trans hrest.1, fun hr => ?_⟩
        obtain ⟨y, hy, hRy⟩ := hrest.2 hr
        exact ⟨y, by simp [hy], hRy⟩

theorem Good.const_false {W : Nat → Nat → Prop} {asm : Asm} {P : Prop} : Good W (some (false, asm)) asm P := by
  intro r asm' h
  simp only [Option.some.injEq, Prod.mk.injEq] at h
  obtain ⟨rfl, rfl⟩ := h
  exact ⟨Post.refl _ _, fun h => by simp at h⟩

theorem Good.const_true {W : Nat → Nat → Prop} {asm : Asm} {P : Prop} (hP : P) : Good W (some (true, asm)) asm P := by
  intro r asm' h
  simp only [Option.some.injEq, Prod.mk.injEq] at h
  obtain ⟨rfl, rfl⟩ := h
  exact ⟨Post.refl _ _, fun _ => hP⟩

theorem Good.imp {W : Nat → Nat → Prop} {res : Res} {asm : Asm} {P Q : Prop} (h : Good W res asm P) (hPQ : P → Q) :
    Good W res asm Q :=
  fun r asm' hr => ⟨(h r asm' hr).1, fun hrt => hPQ ((h r asm' hr).2 hrt)⟩

/-- the recursive call is good on every first-order pair with id sum below `bound` -/
def RecGood (T : Table) (W : Nat → Nat → Prop) (μ : Nat → Nat) (rec : Rec) (bound : Nat) : Prop :=
  ∀ asm st x y, FO T x → FO T y → μ x + μ y < bound → Inv W μ asm (μ x + μ y + 1) →
    Good W (rec asm st x y) asm (W x y)

/-! ### semantic steps -/

theorem Valid.refl_fo {T : Table} {a : Nat} (h : FO T a) : Valid T a a :=
  fun _ _ _ hv => h.stack_irrel hv

theorem Valid.never_left {T : Table} {a b : Nat} (h : T.types[a]? = some (.union [])) : Valid T a b := by
  intro st st' v hv
  obtain ⟨i, hi, _⟩ := (inh_union h).mp hv
  simp at hi

theorem Valid.union_left {T : Table} {a b : Nat} {vs : List Nat} (h : T.types[a]? = some (.union vs))
    (hv : ∀ i ∈ vs, Valid T i b) : Valid T a b := by
  intro st st' v hav
  obtain ⟨i, hi, hiv⟩ := (inh_union h).mp hav
  exact hv i hi _ _ v hiv

theorem Valid.union_right {T : Table} {a b : Nat} {vs : List Nat} (h : T.types[b]? = some (.union vs))
    (hv : ∃ i ∈ vs, Valid T a i) : Valid T a b := by
  intro st st' v hav
  obtain ⟨i, hi, hiv⟩ := hv
  exact (inh_union h).mpr ⟨i, hi, hiv _ _ v hav⟩

/-- position-wise valid fields carry a value's fields from one tuple type to the other -/
theorem FieldsRel.zip_valid {T : Table} {st st' : List Nat} :
    ∀ (f1 f2 : List (Option Name × Nat)) (fs : List (Option Name × V)),
      f1.length = f2.length →
      (∀ p ∈ f1.zip f2, p.1.1 = p.2.1 ∧ Valid T p.1.2 p.2.2) →
      FieldsRel (inh T st) f1 fs → FieldsRel (inh T st') f2 fs := by
  intro f1
  induction f1 with
  | nil =>
    intro f2 fs hlen _ hr
    cases hr
    cases f2 with
    | nil => exact .nil
    | cons _ _ => simp at hlen
  | cons p rest ih =>
    intro f2 fs hlen hz hr
    cases f2 with
    | nil => simp at hlen
    | cons q rest2 =>
      cases hr with
      | cons h1 h2 h3 =>
        have hpq := hz (p, q) (by simp)
        refine .cons (hpq.1 ▸ h1) (hpq.2 _ _ _ h2) (ih rest2 _ (by simpa using hlen) ?_ h3)
        intro z hzmem
        exact hz z (by simp [hzmem])

theorem Valid.tuple_tuple {T : Table} {a b i1 i2 : Nat} {info1 info2 : TupleInfo}
    (ha : T.types[a]? = some (.tuple i1)) (hb : T.types[b]? = some (.tuple i2))
    (h1 : T.tuples[i1]? = some info1) (h2 : T.tuples[i2]? = some info2)
    (hname : info1.name = info2.name) (hlen : info1.fields.length = info2.fields.length)
    (hz : ∀ p ∈ info1.fields.zip info2.fields, p.1.1 = p.2.1 ∧ Valid T p.1.2 p.2.2) : Valid T a b := by
  intro st st' v hv
  obtain ⟨name, fs, rfl, hn, hf⟩ := (inh_tuple ha h1).mp hv
  exact (inh_tuple hb h2).mpr ⟨name, fs, rfl, hn.trans hname, FieldsRel.zip_valid _ _ _ hlen hz hf⟩

/-- a value field sits at the position of every declared field -/
theorem FieldsRel.of_mem {P : Nat → V → Prop} {l : List (Option Name × Nat)}
    {fs : List (Option Name × V)} (h : FieldsRel P l fs) :
    ∀ cf ∈ l, ∃ q ∈ fs, cf.1 = q.1 ∧ P cf.2 q.2 := by
  induction h with
  | nil => intro cf hcf; simp at hcf
  | cons h1 h2 _ ih =>
    intro cf hcf
    rcases List.mem_cons.mp hcf with rfl | hcf
    · exact ⟨_, by simp, h1, h2⟩
    · obtain ⟨q, hq, hql, hqv⟩ := ih cf hcf
      exact ⟨q, by simp [hq], hql, hqv⟩

theorem Valid.tuple_part {T : Table} {a b c : Nat} {ci : TupleInfo} {pn : Option Name}
    {pfs : List (Name × Nat)}
    (ha : T.types[a]? = some (.tuple c)) (hb : T.types[b]? = some (.part pn pfs))
    (hc : T.tuples[c]? = some ci) (hname : ¬ (pn.isSome ∧ ci.name ≠ pn))
    (hf : ∀ pf ∈ pfs, ∃ cf ∈ ci.fields, cf.1 = some pf.1 ∧ Valid T cf.2 pf.2) : Valid T a b := by
  intro st st' v hv
  obtain ⟨name, fs, rfl, hn, hfs⟩ := (inh_tuple ha hc).mp hv
  refine (inh_part hb).mpr ⟨name, fs, rfl, ?_, fun pf hpf => ?_⟩
  · cases pn with
    | none => exact Or.inl rfl
    | some p =>
      right
      by_cases hcn : ci.name = some p
      · rw [hn, hcn]
      · exact absurd ⟨rfl, hcn⟩ hname
  · obtain ⟨cf, hcf, hcl, hcv⟩ := hf pf hpf
    obtain ⟨q, hq, hql, hqv⟩ := hfs.of_mem cf hcf
    exact ⟨q, hq, hql ▸ hcl, hcv _ _ _ hqv⟩

theorem Valid.part_part {T : Table} {a b : Nat} {n1 n2 : Option Name} {fs1 fs2 : List (Name × Nat)}
    (ha : T.types[a]? = some (.part n1 fs1)) (hb : T.types[b]? = some (.part n2 fs2))
    (hname : nameConflict Variant.current .all n1 n2 = false)
    (hf : ∀ f2 ∈ fs2, ∃ f1 ∈ fs1, f1.1 = f2.1 ∧ Valid T f1.2 f2.2) : Valid T a b := by
  intro st st' v hv
  obtain ⟨name, fs, rfl, hn, hfs⟩ := (inh_part ha).mp hv
  refine (inh_part hb).mpr ⟨name, fs, rfl, ?_, fun f2 hf2 => ?_⟩
  · simp only [nameConflict, Bool.false_eq_true, if_false, Bool.and_eq_false_iff,
      decide_eq_false_iff_not, ne_eq, Decidable.not_not] at hname
    cases n2 with
    | none => exact Or.inl rfl
    | some p =>
      right
      rcases hname with h | h
      · simp at h
      · rcases hn with hn | hn
        · rw [hn] at h; simp at h
        · rw [hn, h]
  · obtain ⟨f1, hf1, hl, hval⟩ := hf f2 hf2
    obtain ⟨q, hq, hql, hqv⟩ := hfs f1 hf1
    exact ⟨q, hq, hl ▸ hql, hval _ _ _ hqv⟩

/-- the closure rules of a relation on type ids that the ALL-mode arms of `check_type_relation` rely
on (one per arm; `refl_fo` / `tuple_same` for the two equal-id fast paths) -/
structure Rules (T : Table) (W : Nat → Nat → Prop) : Prop where
  refl_fo : ∀ {a : Nat}, FO T a → W a a
  never_left : ∀ {a b : Nat} {tb : Ty}, T.types[a]? = some (.union []) → T.types[b]? = some tb → W a b
  union_left : ∀ {a b : Nat} {vs : List Nat} {tb : Ty}, T.types[a]? = some (.union vs) →
    T.types[b]? = some tb → (∀ i ∈ vs, W i b) → W a b
  union_right : ∀ {a b : Nat} {vs : List Nat}, T.types[b]? = some (.union vs) → (∃ i ∈ vs, W a i) → W a b
  tuple_same : ∀ {a b i : Nat}, FO T a → T.types[a]? = some (.tuple i) → T.types[b]? = some (.tuple i) → W a b
  tuple_tuple : ∀ {a b i1 i2 : Nat} {info1 info2 : TupleInfo},
    T.types[a]? = some (.tuple i1) → T.types[b]? = some (.tuple i2) →
    T.tuples[i1]? = some info1 → T.tuples[i2]? = some info2 →
    info1.name = info2.name → info1.fields.length = info2.fields.length →
    (∀ p ∈ info1.fields.zip info2.fields, p.1.1 = p.2.1 ∧ W p.1.2 p.2.2) → W a b
  tuple_part : ∀ {a b c : Nat} {ci : TupleInfo} {pn : Option Name} {pfs : List (Name × Nat)},
    T.types[a]? = some (.tuple c) → T.types[b]? = some (.part pn pfs) →
    T.tuples[c]? = some ci → ¬ (pn.isSome ∧ ci.name ≠ pn) →
    (∀ pf ∈ pfs, ∃ cf ∈ ci.fields, cf.1 = some pf.1 ∧ W cf.2 pf.2) → W a b
  part_part : ∀ {a b : Nat} {n1 n2 : Option Name} {fs1 fs2 : List (Name × Nat)},
    T.types[a]? = some (.part n1 fs1) → T.types[b]? = some (.part n2 fs2) →
    nameConflict Variant.current .all n1 n2 = false →
    (∀ f2 ∈ fs2, ∃ f1, fs1.find? (fun f1 => f1.1 == f2.1) = some f1 ∧ W f1.2 f2.2) → W a b
  same_atom : ∀ {a b : Nat} {ty : Ty}, T.types[a]? = some ty → T.types[b]? = some ty →
    (ty = .integer ∨ ty = .binary ∨ ty = .reference ∨ ∃ r, ty = .resource r) → W a b

end QM.Types
