import QuiverModel.Lemmas.Types.Mono
/-
Facts about `inhB` / `inh`: list forms of the field tests, fuel monotonicity, and the unfolding
lemmas of `inh` per type constructor (the "meaning of a type" as propositions).
-/
namespace QM.Types

/-! ### list forms of `hasFieldB` and `fieldsB` -/

theorem hasFieldB_eq_any (f : Nat → V → Bool) (name : Name) (t : Nat) :
    (fs : VFields) → hasFieldB f name t fs =
      fs.toList.any (fun p => decide (p.1 = some name) && f t p.2)
  | .nil => by simp [hasFieldB, VFields.toList]
  | .cons l v vs => by
    simp [hasFieldB, VFields.toList, hasFieldB_eq_any f name t vs]

/-- the relation `fieldsB` decides between declared fields and value fields: same length, same
labels position by position, each value related to the declared field type. -/
inductive FieldsRel (P : Nat → V → Prop) : List (Option Name × Nat) → List (Option Name × V) → Prop
  | nil : FieldsRel P [] []
  | cons {p : Option Name × Nat} {q : Option Name × V} {l : List (Option Name × Nat)}
      {fs : List (Option Name × V)} :
      p.1 = q.1 → P p.2 q.2 → FieldsRel P l fs → FieldsRel P (p :: l) (q :: fs)

theorem fieldsB_iff (f : Nat → V → Bool) :
    (l : List (Option Name × Nat)) → (fs : VFields) →
      (fieldsB f l fs = true ↔ FieldsRel (fun c v => f c v = true) l fs.toList)
  | [], .nil => by simp [fieldsB, VFields.toList]; exact .nil
  | [], .cons _ _ _ => by
    simp only [fieldsB, VFields.toList]
    exact ⟨fun h => by simp at h, fun h => by cases h⟩
  | _ :: _, .nil => by
    simp only [fieldsB, VFields.toList]
    exact ⟨fun h => by simp at h, fun h => by cases h⟩
  | p :: rest, .cons l' v vs => by
    have ih := fieldsB_iff f rest vs
    simp only [fieldsB, VFields.toList, Bool.and_eq_true, decide_eq_true_eq]
    constructor
    · rintro ⟨⟨h1, h2⟩, h3⟩; exact .cons h1 h2 (ih.mp h3)
    · intro h
      cases h with
      | cons h1 h2 h3 => exact ⟨⟨h1, h2⟩, ih.mpr h3⟩

theorem FieldsRel.imp {P Q : Nat → V → Prop} {l : List (Option Name × Nat)}
    {fs : List (Option Name × V)} (h : ∀ c ∈ l.map (·.2), ∀ v, P c v → Q c v)
    (hr : FieldsRel P l fs) : FieldsRel Q l fs := by
  induction hr with
  | nil => exact .nil
  | cons h1 h2 _ ih =>
    refine .cons h1 (h _ (by simp) _ h2) (ih ?_)
    intro c hc v hP
    exact h c (by simp only [List.map_cons, List.mem_cons]; exact Or.inr hc) v hP

/-! ### fuel monotonicity of `inhB` -/

theorem inhB_succ (T : Table) :
    ∀ (n : Nat) (st : List Nat) (t : Nat) (v : V), inhB T n st t v = true → inhB T (n + 1) st t v = true := by
  intro n
  induction n with
  | zero => intro st t v h; simp [inhB] at h
  | succ n ih =>
    intro st t v h
    unfold inhB at h ⊢
    cases hty : T.types[t]? with
    | none => simp [hty] at h
    | some ty =>
      simp only [hty] at h ⊢
      cases ty with
      | integer => exact h
      | binary => exact h
      | reference => exact h
      | resource r => exact h
      | «variable» r => exact h
      | cycle d =>
        simp only at h ⊢
        cases hr : resolveCycle st d with
        | none => simp [hr] at h
        | some id => simp only [hr] at h ⊢; exact ih _ _ _ h
      | union ids =>
        simp only [List.any_eq_true] at h ⊢
        obtain ⟨i, hi, hv⟩ := h
        exact ⟨i, hi, ih _ _ _ hv⟩
      | tuple id =>
        simp only at h ⊢
        cases hinfo : T.tuples[id]? with
        | none => simp [hinfo] at h
        | some info =>
          cases v with
          | tup name fs =>
            simp only [hinfo, Bool.and_eq_true] at h ⊢
            refine ⟨h.1, ?_⟩
            rw [fieldsB_iff] at h ⊢
            exact FieldsRel.imp (fun c _ v hP => ih _ _ _ hP) h.2
          | _ => simp [hinfo] at h
      | part pn pfs =>
        cases v with
        | tup name fs =>
          simp only [Bool.and_eq_true, List.all_eq_true] at h ⊢
          refine ⟨h.1, fun pf hpf => ?_⟩
          have := h.2 pf hpf
          rw [hasFieldB_eq_any, List.any_eq_true] at this ⊢
          obtain ⟨q, hq, hqv⟩ := this
          refine ⟨q, hq, ?_⟩
          simp only [Bool.and_eq_true] at hqv ⊢
          exact ⟨hqv.1, ih _ _ _ hqv.2⟩
        | _ => simp at h
      | callable p r c =>
        cases v with
        | fn d =>
          simp only [Bool.and_eq_true] at h ⊢
          refine ⟨h.1, ?_⟩
          have h2 := h.2
          split at h2
          · rename_i s hc
            rw [checkRel_mono T .all (Nat.le_succ n) _ _ _ _ hc]
          · simp at h2
        | _ => simp at h
      | process s r =>
        cases v with
        | proc d =>
          simp only [Bool.and_eq_true] at h ⊢
          refine ⟨h.1, ?_⟩
          have h2 := h.2
          split at h2
          · rename_i s' hc
            rw [checkRel_mono T .all (Nat.le_succ n) _ _ _ _ hc]
          · simp at h2
        | _ => simp at h

theorem inhB_mono (T : Table) {n m : Nat} (hnm : n ≤ m) (st : List Nat) (t : Nat) (v : V)
    (h : inhB T n st t v = true) : inhB T m st t v = true := by
  induction hnm with
  | refl => exact h
  | step _ ih => exact inhB_succ T _ st t v ih

end QM.Types

namespace QM.Types

/-! ### the meaning of each type constructor -/

theorem inh_missing {T : Table} {st : List Nat} {t : Nat} {v : V} (h : T.types[t]? = none) :
    ¬ inh T st t v := by
  rintro ⟨n, hn⟩
  cases n with
  | zero => simp [inhB] at hn
  | succ n => unfold inhB at hn; simp [h] at hn

theorem inh_integer {T : Table} {st : List Nat} {t : Nat} {v : V} (h : T.types[t]? = some .integer) :
    inh T st t v ↔ ∃ z, v = .int z := by
  constructor
  · rintro ⟨n, hn⟩
    cases n with
    | zero => simp [inhB] at hn
    | succ n => unfold inhB at hn; simp only [h] at hn; cases v <;> simp_all
  · rintro ⟨z, rfl⟩; exact ⟨1, by unfold inhB; simp [h]⟩

theorem inh_binary {T : Table} {st : List Nat} {t : Nat} {v : V} (h : T.types[t]? = some .binary) :
    inh T st t v ↔ ∃ z, v = .bin z := by
  constructor
  · rintro ⟨n, hn⟩
    cases n with
    | zero => simp [inhB] at hn
    | succ n => unfold inhB at hn; simp only [h] at hn; cases v <;> simp_all
  · rintro ⟨z, rfl⟩; exact ⟨1, by unfold inhB; simp [h]⟩

theorem inh_reference {T : Table} {st : List Nat} {t : Nat} {v : V}
    (h : T.types[t]? = some .reference) : inh T st t v ↔ ∃ z, v = .ref z := by
  constructor
  · rintro ⟨n, hn⟩
    cases n with
    | zero => simp [inhB] at hn
    | succ n => unfold inhB at hn; simp only [h] at hn; cases v <;> simp_all
  · rintro ⟨z, rfl⟩; exact ⟨1, by unfold inhB; simp [h]⟩

theorem inh_resource {T : Table} {st : List Nat} {t : Nat} {v : V} {r : Name}
    (h : T.types[t]? = some (.resource r)) : inh T st t v ↔ v = .res r := by
  constructor
  · rintro ⟨n, hn⟩
    cases n with
    | zero => simp [inhB] at hn
    | succ n => unfold inhB at hn; simp only [h] at hn; cases v <;> simp_all
  · rintro rfl; exact ⟨1, by unfold inhB; simp [h]⟩

theorem inh_union {T : Table} {st : List Nat} {t : Nat} {v : V} {ids : List Nat}
    (h : T.types[t]? = some (.union ids)) : inh T st t v ↔ ∃ i ∈ ids, inh T (t :: st) i v := by
  constructor
  · rintro ⟨n, hn⟩
    cases n with
    | zero => simp [inhB] at hn
    | succ n =>
      unfold inhB at hn
      simp only [h, List.any_eq_true] at hn
      obtain ⟨i, hi, hv⟩ := hn
      exact ⟨i, hi, n, hv⟩
  · rintro ⟨i, hi, n, hn⟩
    refine ⟨n + 1, ?_⟩
    unfold inhB
    simp only [h, List.any_eq_true]
    exact ⟨i, hi, hn⟩

theorem inh_cycle {T : Table} {st : List Nat} {t d : Nat} {v : V}
    (h : T.types[t]? = some (.cycle d)) :
    inh T st t v ↔ ∃ id, resolveCycle st d = some id ∧ inh T (st.drop d) id v := by
  constructor
  · rintro ⟨n, hn⟩
    cases n with
    | zero => simp [inhB] at hn
    | succ n =>
      unfold inhB at hn
      simp only [h] at hn
      cases hr : resolveCycle st d with
      | none => simp [hr] at hn
      | some id => simp only [hr] at hn; exact ⟨id, rfl, n, hn⟩
  · rintro ⟨id, hr, n, hn⟩
    refine ⟨n + 1, ?_⟩
    unfold inhB
    simp only [h, hr]
    exact hn

/-- finitely many inhabitation facts share one fuel -/
theorem FieldsRel.common_fuel {T : Table} {st : List Nat} {l : List (Option Name × Nat)}
    {fs : List (Option Name × V)} (h : FieldsRel (inh T st) l fs) :
    ∃ n, FieldsRel (fun c v => inhB T n st c v = true) l fs := by
  induction h with
  | nil => exact ⟨0, .nil⟩
  | cons h1 h2 _ ih =>
    obtain ⟨n1, hn1⟩ := h2
    obtain ⟨n2, hn2⟩ := ih
    refine ⟨max n1 n2, .cons h1 (inhB_mono T (Nat.le_max_left _ _) _ _ _ hn1) ?_⟩
    exact FieldsRel.imp (fun c _ v hv => inhB_mono T (Nat.le_max_right _ _) _ _ _ hv) hn2

theorem inh_tuple {T : Table} {st : List Nat} {t id : Nat} {v : V} {info : TupleInfo}
    (h : T.types[t]? = some (.tuple id)) (hi : T.tuples[id]? = some info) :
    inh T st t v ↔
      ∃ name fs, v = .tup name fs ∧ name = info.name ∧ FieldsRel (inh T st) info.fields fs.toList := by
  constructor
  · rintro ⟨n, hn⟩
    cases n with
    | zero => simp [inhB] at hn
    | succ n =>
      unfold inhB at hn
      simp only [h] at hn
      cases v with
      | tup name fs =>
        simp only [hi, Bool.and_eq_true, decide_eq_true_eq] at hn
        refine ⟨name, fs, rfl, hn.1, ?_⟩
        have := (fieldsB_iff _ _ _).mp hn.2
        exact FieldsRel.imp (fun c _ v hv => ⟨n, hv⟩) this
      | _ => simp [hi] at hn
  · rintro ⟨name, fs, rfl, hname, hf⟩
    obtain ⟨n, hn⟩ := hf.common_fuel
    refine ⟨n + 1, ?_⟩
    unfold inhB
    simp only [h, hi, Bool.and_eq_true, decide_eq_true_eq]
    exact ⟨hname, (fieldsB_iff _ _ _).mpr hn⟩

/-- some field of the value is labelled `l` and inhabits `c` -/
def HasField (T : Table) (st : List Nat) (l : Name) (c : Nat) (fs : List (Option Name × V)) : Prop :=
  ∃ q ∈ fs, q.1 = some l ∧ inh T st c q.2

theorem inh_part {T : Table} {st : List Nat} {t : Nat} {v : V} {pn : Option Name}
    {pfs : List (Name × Nat)} (h : T.types[t]? = some (.part pn pfs)) :
    inh T st t v ↔
      ∃ name fs, v = .tup name fs ∧ (pn = none ∨ name = pn) ∧
        ∀ pf ∈ pfs, HasField T st pf.1 pf.2 fs.toList := by
  constructor
  · rintro ⟨n, hn⟩
    cases n with
    | zero => simp [inhB] at hn
    | succ n =>
      unfold inhB at hn
      simp only [h] at hn
      cases v with
      | tup name fs =>
        simp only [Bool.and_eq_true, Bool.or_eq_true, Option.isNone_iff_eq_none, decide_eq_true_eq,
          List.all_eq_true] at hn
        refine ⟨name, fs, rfl, hn.1, fun pf hpf => ?_⟩
        have := hn.2 pf hpf
        rw [hasFieldB_eq_any, List.any_eq_true] at this
        obtain ⟨q, hq, hqv⟩ := this
        simp only [Bool.and_eq_true, decide_eq_true_eq] at hqv
        exact ⟨q, hq, hqv.1, n, hqv.2⟩
      | _ => simp at hn
  · rintro ⟨name, fs, rfl, hname, hf⟩
    -- a common fuel for the finitely many partial fields
    have hcommon : ∃ n, ∀ pf ∈ pfs, ∃ q ∈ fs.toList, q.1 = some pf.1 ∧ inhB T n st pf.2 q.2 = true := by
      clear h
      induction pfs with
      | nil => exact ⟨0, by simp⟩
      | cons pf rest ih =>
        obtain ⟨q, hq, hql, n1, hn1⟩ := hf pf (by simp)
        obtain ⟨n2, hn2⟩ := ih (fun pf' hpf' => hf pf' (by simp [hpf']))
        refine ⟨max n1 n2, fun pf' hpf' => ?_⟩
        rcases List.mem_cons.mp hpf' with rfl | hmem
        · exact ⟨q, hq, hql, inhB_mono T (Nat.le_max_left _ _) _ _ _ hn1⟩
        · obtain ⟨q', hq', hql', hn'⟩ := hn2 pf' hmem
          exact ⟨q', hq', hql', inhB_mono T (Nat.le_max_right _ _) _ _ _ hn'⟩
    obtain ⟨n, hn⟩ := hcommon
    refine ⟨n + 1, ?_⟩
    unfold inhB
    simp only [h, Bool.and_eq_true, Bool.or_eq_true, Option.isNone_iff_eq_none, decide_eq_true_eq,
      List.all_eq_true]
    refine ⟨hname, fun pf hpf => ?_⟩
    rw [hasFieldB_eq_any, List.any_eq_true]
    obtain ⟨q, hq, hql, hv⟩ := hn pf hpf
    exact ⟨q, hq, by simp [hql, hv]⟩

end QM.Types
