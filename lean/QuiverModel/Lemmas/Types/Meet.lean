import QuiverModel.Lemmas.Types.Extend
import QuiverModel.Lemmas.Types.Overlap
/-
`intersect` (narrowing.rs `intersect_types` / `intersect_pair`) never drops a value on first-order
types: a well-labelled value of both operands is a value of the result, read in the table the
function returns. Invariant threaded through the loops: the table only grows (`Table.Sub`), every id
produced is first-order in the current table.
-/
namespace QM.Types

/-- what one intersection step guarantees about its result `(T', r)` for operands `a`, `b` of `T` -/
def MeetOk (T : Table) (a b : Nat) (res : TRes) : Prop :=
  ∀ T' r, res = some (T', r) →
    Table.Sub T T' ∧ FO T' r ∧
      ∀ v, v.wf = true → inh T [] a v → inh T [] b v → inh T' [] r v

/-- the recursive call is good on first-order operands of any table -/
def RecMeet (rec : Table → Nat → Nat → TRes) : Prop :=
  ∀ T a b, FO T a → FO T b → MeetOk T a b (rec T a b)

theorem never_spec (T : Table) :
    Table.Sub T T.never.1 ∧ T.never.1.types[T.never.2]? = some (.union []) ∧ FO T.never.1 T.never.2 ∧
      ∀ st v, ¬ inh T.never.1 st T.never.2 v := by
  obtain ⟨hsub, hget⟩ := registerType_spec T (.union [])
  refine ⟨hsub, hget, ⟨1, ?_⟩, fun st v h => ?_⟩
  · unfold foB
    simp only [Table.never, hget, Ty.isFO, Ty.tupleOk, Ty.children, List.all_nil, Bool.and_self]
  · obtain ⟨i, hi, _⟩ := (inh_union hget).mp h
    simp at hi

/-- a type that is still `never` in a larger table has no value there -/
theorem not_inh_never {T : Table} {n : Nat} (h : T.types[n]? = some (.union [])) (st : List Nat) (v : V) :
    ¬ inh T st n v := by
  intro hv
  obtain ⟨i, hi, _⟩ := (inh_union h).mp hv
  simp at hi

theorem registerTuple_spec (T : Table) (name : Option Name) (fields : List (Option Name × Nat)) :
    Table.Sub T (T.registerTuple name fields).1 ∧
      (T.registerTuple name fields).1.tuples[(T.registerTuple name fields).2]? = some ⟨name, fields⟩ := by
  unfold Table.registerTuple
  cases hp : position (⟨name, fields⟩ : TupleInfo) T.tuples with
  | some i => exact ⟨Table.Sub.refl T, position_some hp⟩
  | none =>
    refine ⟨⟨fun _ _ h => h, fun i info h => ?_⟩, by simp⟩
    simp only
    rw [List.getElem?_append_left (List.getElem?_eq_some_iff.mp h).1]
    exact h

/-- a tuple type over first-order fields is first-order -/
theorem FO.of_tuple {T : Table} {t id : Nat} {info : TupleInfo} (ht : T.types[t]? = some (.tuple id))
    (hi : T.tuples[id]? = some info) (hf : ∀ f ∈ info.fields, FO T f.2) : FO T t := by
  -- a common fuel for the finitely many fields
  have hcommon : ∃ n, ∀ f ∈ info.fields, foB T n f.2 = true := by
    have mono : ∀ (n m t : Nat), n ≤ m → foB T n t = true → foB T m t = true := by
      intro n
      induction n with
      | zero => intro m t _ h; simp [foB] at h
      | succ n ih =>
        intro m t hnm h
        cases m with
        | zero => omega
        | succ m =>
          unfold foB at h ⊢
          cases hty : T.types[t]? with
          | none => simp [hty] at h
          | some ty =>
            simp only [hty, Bool.and_eq_true, List.all_eq_true] at h ⊢
            exact ⟨h.1, fun c hc => ih m c (by omega) (h.2 c hc)⟩
    generalize info.fields = l at hf
    induction l with
    | nil => exact ⟨0, by simp⟩
    | cons f rest ih =>
      obtain ⟨n1, hn1⟩ := hf f (by simp)
      obtain ⟨n2, hn2⟩ := ih (fun g hg => hf g (by simp [hg]))
      refine ⟨max n1 n2, fun g hg => ?_⟩
      rcases List.mem_cons.mp hg with rfl | hg
      · exact mono n1 _ _ (Nat.le_max_left _ _) hn1
      · exact mono n2 _ _ (Nat.le_max_right _ _) (hn2 g hg)
  obtain ⟨n, hn⟩ := hcommon
  refine ⟨n + 1, ?_⟩
  unfold foB
  have hlt : id < T.tuples.length := (List.getElem?_eq_some_iff.mp hi).1
  simp only [ht, Ty.isFO, Ty.tupleOk, hlt, decide_true, Bool.and_self, Bool.true_and, List.all_eq_true,
    Ty.children, Table.fieldTypes, hi, List.mem_map]
  rintro c ⟨f, hf', rfl⟩
  exact hn f hf'

/-- the field loop: either some position has no common value (`none`), or the new fields carry
every value list that fits both field lists -/
theorem intersectFields_ok {rec : Table → Nat → Nat → TRes} (hrec : RecMeet rec) (never : Nat) :
    ∀ (l1 l2 : List (Option Name × Nat)) (T : Table), l1.length = l2.length →
      (∀ f ∈ l1, FO T f.2) → (∀ f ∈ l2, FO T f.2) → T.types[never]? = some (.union []) →
      ∀ T' res, intersectFields rec never T (l1.zip l2) = some (T', res) →
        Table.Sub T T' ∧
        match res with
        | none => ∀ qs, (∀ q ∈ qs, q.2.wf = true) →
            ¬ (FieldsRel (inh T []) l1 qs ∧ FieldsRel (inh T []) l2 qs)
        | some fields => (∀ f ∈ fields, FO T' f.2) ∧
            ∀ qs, (∀ q ∈ qs, q.2.wf = true) → FieldsRel (inh T []) l1 qs →
              FieldsRel (inh T []) l2 qs → FieldsRel (inh T' []) fields qs := by
  intro l1
  induction l1 with
  | nil =>
    intro l2 T hlen _ _ _ T' res h
    cases l2 with
    | cons _ _ => simp at hlen
    | nil =>
      simp only [List.zip_nil_left, intersectFields, Option.some.injEq, Prod.mk.injEq] at h
      obtain ⟨rfl, rfl⟩ := h
      refine ⟨Table.Sub.refl _, by simp, fun qs _ h1 _ => ?_⟩
      cases h1; exact .nil
  | cons p1 r1 ih =>
    intro l2 T hlen hf1 hf2 hnever T' res h
    cases l2 with
    | nil => simp at hlen
    | cons p2 r2 =>
      simp only [List.zip_cons_cons] at h
      unfold intersectFields at h
      cases hr : rec T p1.2 p2.2 with
      | none => simp [hr] at h
      | some pr =>
        obtain ⟨T1, fi⟩ := pr
        obtain ⟨hsub1, hfo1, hkeep1⟩ := hrec T p1.2 p2.2 (hf1 p1 (by simp)) (hf2 p2 (by simp)) T1 fi hr
        simp only [hr] at h
        have hnever1 : T1.types[never]? = some (.union []) := hsub1.types _ _ hnever
        split at h
        · -- this field has no common value
          rename_i hfi
          simp only [Option.some.injEq, Prod.mk.injEq] at h
          obtain ⟨rfl, rfl⟩ := h
          refine ⟨hsub1, fun qs hwf ⟨h1, h2⟩ => ?_⟩
          cases h1 with
          | cons ha hb hc =>
            cases h2 with
            | cons hd he hg =>
              have := hkeep1 _ (hwf _ (by simp)) hb he
              rw [hfi] at this
              exact not_inh_never hnever1 _ _ this
        · have hrest := ih r2 T1 (by simpa using hlen)
            (fun f hf => (hf1 f (by simp [hf])).sub hsub1) (fun f hf => (hf2 f (by simp [hf])).sub hsub1) hnever1
          -- move value lists from T to T1 (first-order field types mean the same)
          have move : ∀ (l : List (Option Name × Nat)), (∀ f ∈ l, FO T f.2) → ∀ qs,
              FieldsRel (inh T []) l qs → FieldsRel (inh T1 []) l qs := by
            intro l hl qs hq
            exact FieldsRel.imp (fun c hc v hv => by
              obtain ⟨f, hf, rfl⟩ := List.mem_map.mp hc
              exact ((hl f hf).inh_sub hsub1 [] [] v).mp hv) hq
          cases hrec2 : intersectFields rec never T1 (r1.zip r2) with
          | none => simp [hrec2] at h
          | some pr2 =>
            obtain ⟨T2, res2⟩ := pr2
            obtain ⟨hsub2, hres2⟩ := hrest T2 res2 hrec2
            simp only [hrec2] at h
            cases res2 with
            | none =>
              simp only [Option.some.injEq, Prod.mk.injEq] at h
              obtain ⟨rfl, rfl⟩ := h
              refine ⟨hsub1.trans hsub2, fun qs hwf ⟨h1, h2⟩ => ?_⟩
              cases h1 with
              | cons ha hb hc =>
                cases h2 with
                | cons hd he hg =>
                  exact hres2 _ (fun q hq => hwf q (by simp [hq]))
                    ⟨move r1 (fun f hf => hf1 f (by simp [hf])) _ hc,
                     move r2 (fun f hf => hf2 f (by simp [hf])) _ hg⟩
            | some fs =>
              simp only [Option.some.injEq, Prod.mk.injEq] at h
              obtain ⟨rfl, rfl⟩ := h
              obtain ⟨hfofs, hkeepfs⟩ := hres2
              refine ⟨hsub1.trans hsub2, ?_, fun qs hwf h1 h2 => ?_⟩
              · intro f hf
                rcases List.mem_cons.mp hf with rfl | hf
                · exact hfo1.sub hsub2
                · exact hfofs f hf
              · cases h1 with
                | cons ha hb hc =>
                  cases h2 with
                  | cons hd he hg =>
                    refine .cons ha ?_ (hkeepfs _ (fun q hq => hwf q (by simp [hq]))
                      (move r1 (fun f hf => hf1 f (by simp [hf])) _ hc)
                      (move r2 (fun f hf => hf2 f (by simp [hf])) _ hg))
                    exact (hfo1.inh_sub hsub2 [] [] _).mp (hkeep1 _ (hwf _ (by simp)) hb he)

theorem MeetOk.of_sub {T T0 : Table} {a b : Nat} {res : TRes} (hsub : Table.Sub T T0) (ha : FO T a)
    (hb : FO T b) (h : MeetOk T0 a b res) : MeetOk T a b res := by
  intro T' r hr
  obtain ⟨h1, h2, h3⟩ := h T' r hr
  exact ⟨hsub.trans h1, h2, fun v hwf hav hbv =>
    h3 v hwf ((ha.inh_sub hsub [] [] v).mp hav) ((hb.inh_sub hsub [] [] v).mp hbv)⟩

theorem MeetOk.keep_left {T : Table} {a b : Nat} (ha : FO T a) : MeetOk T a b (some (T, a)) := by
  intro T' r hr
  simp only [Option.some.injEq, Prod.mk.injEq] at hr
  obtain ⟨rfl, rfl⟩ := hr
  exact ⟨Table.Sub.refl _, ha, fun v _ hav _ => hav⟩

/-- answering `never` is right when the operands share no well-labelled value -/
theorem MeetOk.never {T : Table} {a b never : Nat} (hfo : FO T never)
    (hdis : ∀ v, v.wf = true → ¬ (inh T [] a v ∧ inh T [] b v)) : MeetOk T a b (some (T, never)) := by
  intro T' r hr
  simp only [Option.some.injEq, Prod.mk.injEq] at hr
  obtain ⟨rfl, rfl⟩ := hr
  exact ⟨Table.Sub.refl _, hfo, fun v hwf hav hbv => absurd ⟨hav, hbv⟩ (hdis v hwf)⟩

theorem meetFallback_ok (rf : Nat) {T : Table} {a b never : Nat} (ha : FO T a) (hb : FO T b)
    (hfo : FO T never) : MeetOk T a b (meetFallback rf T never a b) := by
  unfold meetFallback
  cases ho : typesOverlap T rf a b with
  | none => intro T' r hr; simp at hr
  | some ov =>
    cases ov with
    | true => exact MeetOk.keep_left ha
    | false =>
      refine MeetOk.never hfo (fun v hwf hboth => ?_)
      unfold typesOverlap at ho
      cases hc : checkRel T .any rf [] {} a b with
      | none => simp [hc] at ho
      | some p =>
        obtain ⟨r, asm'⟩ := p
        rw [hc] at ho
        simp only [Option.map_some, Option.some.injEq] at ho
        subst ho
        exact checkRel_any_bad rf [] {} a b asm' hc ha hb [] [] v hwf hboth

/-- positionwise related value fields force equal labels -/
theorem labelsDiffer_false_of_rel {P Q : Nat → V → Prop} :
    ∀ {l1 l2 : List (Option Name × Nat)} {qs : List (Option Name × V)},
      FieldsRel P l1 qs → FieldsRel Q l2 qs → labelsDiffer l1 l2 = false := by
  intro l1 l2 qs h1
  induction h1 generalizing l2 with
  | nil => intro h2; cases h2; rfl
  | cons ha _ _ ih =>
    intro h2
    cases h2 with
    | cons hc _ he =>
      have := ih he
      simp only [labelsDiffer, List.zip_cons_cons, List.any_cons, Bool.or_eq_false_iff,
        decide_eq_false_iff_not, ne_eq, Decidable.not_not] at this ⊢
      exact ⟨ha.trans hc.symm, this⟩

theorem meetTuple_ok (vr : Variant) {rec : Table → Nat → Nat → TRes} (hrec : RecMeet rec) {T : Table}
    {a b never id1 id2 : Nat} (ha : FO T a) (hb : FO T b) (hta : T.types[a]? = some (.tuple id1))
    (htb : T.types[b]? = some (.tuple id2)) (hnever : T.types[never]? = some (.union []))
    (hneverfo : FO T never) : MeetOk T a b (meetTuple vr rec T never id1 id2) := by
  obtain ⟨i1, h1, hf1⟩ := ha.tuple hta
  obtain ⟨i2, h2, hf2⟩ := hb.tuple htb
  unfold meetTuple
  simp only [h1, h2]
  split
  · rename_i hmis
    refine MeetOk.never hneverfo (fun v _ ⟨hav, hbv⟩ => ?_)
    obtain ⟨name, fs, rfl, hn1, hr1⟩ := (inh_tuple hta h1).mp hav
    obtain ⟨name', fs', hv', hn2, hr2⟩ := (inh_tuple htb h2).mp hbv
    simp only [V.tup.injEq] at hv'
    obtain ⟨rfl, rfl⟩ := hv'
    rcases hmis with h | h
    · exact h (hn1.symm.trans hn2)
    · exact h (by rw [hr1.length, hr2.length])
  · rename_i hok
    split
    · -- labels differ somewhere: no common value
      rename_i hlab
      refine MeetOk.never hneverfo (fun v _ ⟨hav, hbv⟩ => ?_)
      obtain ⟨name, fs, rfl, _, hr1⟩ := (inh_tuple hta h1).mp hav
      obtain ⟨name', fs', hv', _, hr2⟩ := (inh_tuple htb h2).mp hbv
      simp only [V.tup.injEq] at hv'
      obtain ⟨rfl, rfl⟩ := hv'
      simp only [Bool.and_eq_true] at hlab
      rw [labelsDiffer_false_of_rel hr1 hr2] at hlab
      simp at hlab
    have hlen : i1.fields.length = i2.fields.length := by
      by_cases h : i1.fields.length = i2.fields.length
      · exact h
      · exact absurd (Or.inr h) hok
    intro T' r hr
    cases hif : intersectFields rec never T (i1.fields.zip i2.fields) with
    | none => simp [hif] at hr
    | some pr =>
      obtain ⟨T1, res⟩ := pr
      obtain ⟨hsub1, hres⟩ := intersectFields_ok hrec never i1.fields i2.fields T hlen hf1 hf2 hnever T1 res hif
      simp only [hif] at hr
      cases res with
      | none =>
        simp only [Option.some.injEq, Prod.mk.injEq] at hr
        obtain ⟨rfl, rfl⟩ := hr
        refine ⟨hsub1, hneverfo.sub hsub1, fun v hwf hav hbv => ?_⟩
        obtain ⟨name, fs, rfl, _, hr1⟩ := (inh_tuple hta h1).mp hav
        obtain ⟨name', fs', hv', _, hr2⟩ := (inh_tuple htb h2).mp hbv
        simp only [V.tup.injEq] at hv'
        obtain ⟨rfl, rfl⟩ := hv'
        exact absurd ⟨hr1, hr2⟩ (hres _ (V.wf_tup hwf).2)
      | some fields =>
        obtain ⟨hfofs, hkeep⟩ := hres
        simp only [Option.some.injEq] at hr
        obtain ⟨hsub2, hget2⟩ := registerTuple_spec T1 i1.name fields
        obtain ⟨hsub3, hget3⟩ := registerType_spec (T1.registerTuple i1.name fields).1
          (.tuple (T1.registerTuple i1.name fields).2)
        have hT' : T' = ((T1.registerTuple i1.name fields).1.registerType
            (.tuple (T1.registerTuple i1.name fields).2)).1 := by rw [hr]
        have hr' : r = ((T1.registerTuple i1.name fields).1.registerType
            (.tuple (T1.registerTuple i1.name fields).2)).2 := by rw [hr]
        subst hT' hr'
        have hget2' := hsub3.tuples _ _ hget2
        have hsub13 := hsub2.trans hsub3
        refine ⟨hsub1.trans hsub13, FO.of_tuple hget3 hget2' (fun f hf => (hfofs f hf).sub hsub13),
          fun v hwf hav hbv => ?_⟩
        obtain ⟨name, fs, rfl, hn1, hr1⟩ := (inh_tuple hta h1).mp hav
        obtain ⟨name', fs', hv', _, hr2⟩ := (inh_tuple htb h2).mp hbv
        simp only [V.tup.injEq] at hv'
        obtain ⟨rfl, rfl⟩ := hv'
        refine (inh_tuple hget3 hget2').mpr ⟨name, fs, rfl, hn1, ?_⟩
        refine FieldsRel.imp (fun c hc v hv => ?_) (hkeep _ (V.wf_tup hwf).2 hr1 hr2)
        obtain ⟨f, hf, rfl⟩ := List.mem_map.mp hc
        exact ((hfofs f hf).inh_sub hsub13 [] [] v).mp hv

/-- a partial type over first-order fields is first-order -/
theorem FO.of_part {T : Table} {t : Nat} {pn : Option Name} {pfs : List (Name × Nat)}
    (ht : T.types[t]? = some (.part pn pfs)) (hf : ∀ f ∈ pfs, FO T f.2) : FO T t := by
  have mono : ∀ (n m t : Nat), n ≤ m → foB T n t = true → foB T m t = true := by
    intro n
    induction n with
    | zero => intro m t _ h; simp [foB] at h
    | succ n ih =>
      intro m t hnm h
      cases m with
      | zero => omega
      | succ m =>
        unfold foB at h ⊢
        cases hty : T.types[t]? with
        | none => simp [hty] at h
        | some ty =>
          simp only [hty, Bool.and_eq_true, List.all_eq_true] at h ⊢
          exact ⟨h.1, fun c hc => ih m c (by omega) (h.2 c hc)⟩
  have hcommon : ∃ n, ∀ f ∈ pfs, foB T n f.2 = true := by
    clear ht
    induction pfs with
    | nil => exact ⟨0, by simp⟩
    | cons f rest ih =>
      obtain ⟨n1, hn1⟩ := hf f (by simp)
      obtain ⟨n2, hn2⟩ := ih (fun g hg => hf g (by simp [hg]))
      refine ⟨max n1 n2, fun g hg => ?_⟩
      rcases List.mem_cons.mp hg with rfl | hg
      · exact mono n1 _ _ (Nat.le_max_left _ _) hn1
      · exact mono n2 _ _ (Nat.le_max_right _ _) (hn2 g hg)
  obtain ⟨n, hn⟩ := hcommon
  refine ⟨n + 1, ?_⟩
  unfold foB
  simp only [ht, Ty.isFO, Ty.tupleOk, Bool.and_self, Bool.true_and, List.all_eq_true, Ty.children,
    List.mem_map]
  rintro c ⟨f, hf', rfl⟩
  exact hn f hf'

/-- moving a field fact to a larger table (first-order field type) -/
theorem HasField.sub {T T' : Table} (hsub : Table.Sub T T') {l : Name} {c : Nat}
    {qs : List (Option Name × V)} (hc : FO T c) (h : HasField T [] l c qs) : HasField T' [] l c qs := by
  obtain ⟨q, hq, hl, hv⟩ := h
  exact ⟨q, hq, hl, (hc.inh_sub hsub [] [] _).mp hv⟩

/-- the field loop of the partial arm: either some common label has no common value (`none`), or the new
fields are carried by every well-labelled field list that has the fields of both operands -/
theorem meetPartFields_ok {rec : Table → Nat → Nat → TRes} (hrec : RecMeet rec) (never : Nat)
    (fs2 : List (Name × Nat)) :
    ∀ (l1 : List (Name × Nat)) (T : Table), (∀ f ∈ l1, FO T f.2) → (∀ f ∈ fs2, FO T f.2) →
      T.types[never]? = some (.union []) →
      ∀ T' res, meetPartFields rec never fs2 T l1 = some (T', res) →
        Table.Sub T T' ∧
        match res with
        | none => ∀ qs, labelsDistinct qs = true → (∀ q ∈ qs, q.2.wf = true) →
            ¬ ((∀ pf ∈ l1, HasField T [] pf.1 pf.2 qs) ∧ (∀ pf ∈ fs2, HasField T [] pf.1 pf.2 qs))
        | some fields => (∀ f ∈ fields, FO T' f.2) ∧
            ∀ qs, labelsDistinct qs = true → (∀ q ∈ qs, q.2.wf = true) →
              (∀ pf ∈ l1, HasField T [] pf.1 pf.2 qs) → (∀ pf ∈ fs2, HasField T [] pf.1 pf.2 qs) →
              ∀ pf ∈ fields, HasField T' [] pf.1 pf.2 qs := by
  intro l1
  induction l1 with
  | nil =>
    intro T _ _ _ T' res h
    simp only [meetPartFields, Option.some.injEq, Prod.mk.injEq] at h
    obtain ⟨rfl, rfl⟩ := h
    exact ⟨Table.Sub.refl _, by simp, fun _ _ _ _ _ pf hpf => by simp at hpf⟩
  | cons f1 rest ih =>
    intro T hf1 hf2 hnever T' res h
    unfold meetPartFields at h
    cases hfind : fs2.find? (fun f2 => f2.1 == f1.1) with
    | some f2 =>
      have hmem2 : f2 ∈ fs2 := List.mem_of_find?_eq_some hfind
      have hlab : f2.1 = f1.1 := by simpa using List.find?_some hfind
      simp only [hfind] at h
      cases hr : rec T f1.2 f2.2 with
      | none => simp [hr] at h
      | some pr =>
        obtain ⟨T1, both⟩ := pr
        obtain ⟨hsub1, hfo1, hkeep1⟩ := hrec T f1.2 f2.2 (hf1 f1 (by simp)) (hf2 f2 hmem2) T1 both hr
        simp only [hr] at h
        have hnever1 : T1.types[never]? = some (.union []) := hsub1.types _ _ hnever
        -- the one field of a well-labelled list that carries the common label is in both field types
        have common : ∀ qs, labelsDistinct qs = true → (∀ q ∈ qs, q.2.wf = true) →
            HasField T [] f1.1 f1.2 qs → HasField T [] f2.1 f2.2 qs → HasField T1 [] f1.1 both qs := by
          intro qs hld hwf ⟨q, hq, hql, hqv⟩ ⟨q', hq', hql', hqv'⟩
          have : q = q' := labelsDistinct_unique qs hld q hq q' hq' f1.1 hql (hlab ▸ hql')
          subst this
          exact ⟨q, hq, hql, hkeep1 _ (hwf q hq) hqv hqv'⟩
        split at h
        · rename_i hboth
          simp only [Option.some.injEq, Prod.mk.injEq] at h
          obtain ⟨rfl, rfl⟩ := h
          refine ⟨hsub1, fun qs hld hwf ⟨h1, h2⟩ => ?_⟩
          obtain ⟨q, _, _, hv⟩ := common qs hld hwf (h1 f1 (by simp)) (h2 f2 hmem2)
          rw [hboth] at hv
          exact not_inh_never hnever1 _ _ hv
        · have hrest := ih T1 (fun f hf => (hf1 f (by simp [hf])).sub hsub1)
            (fun f hf => (hf2 f hf).sub hsub1) hnever1
          cases hrec2 : meetPartFields rec never fs2 T1 rest with
          | none => simp [hrec2] at h
          | some pr2 =>
            obtain ⟨T2, res2⟩ := pr2
            obtain ⟨hsub2, hres2⟩ := hrest T2 res2 hrec2
            simp only [hrec2] at h
            have move1 : ∀ qs, (∀ pf ∈ rest, HasField T [] pf.1 pf.2 qs) →
                ∀ pf ∈ rest, HasField T1 [] pf.1 pf.2 qs :=
              fun qs hh pf hpf => (hh pf hpf).sub hsub1 (hf1 pf (by simp [hpf]))
            have move2 : ∀ qs, (∀ pf ∈ fs2, HasField T [] pf.1 pf.2 qs) →
                ∀ pf ∈ fs2, HasField T1 [] pf.1 pf.2 qs :=
              fun qs hh pf hpf => (hh pf hpf).sub hsub1 (hf2 pf hpf)
            cases res2 with
            | none =>
              simp only [Option.some.injEq, Prod.mk.injEq] at h
              obtain ⟨rfl, rfl⟩ := h
              exact ⟨hsub1.trans hsub2, fun qs hld hwf ⟨h1, h2⟩ =>
                hres2 qs hld hwf ⟨move1 qs (fun pf hpf => h1 pf (by simp [hpf])), move2 qs h2⟩⟩
            | some fs =>
              simp only [Option.some.injEq, Prod.mk.injEq] at h
              obtain ⟨rfl, rfl⟩ := h
              obtain ⟨hfofs, hkeepfs⟩ := hres2
              refine ⟨hsub1.trans hsub2, ?_, fun qs hld hwf h1 h2 pf hpf => ?_⟩
              · intro f hf
                rcases List.mem_cons.mp hf with rfl | hf
                · exact hfo1.sub hsub2
                · exact hfofs f hf
              · rcases List.mem_cons.mp hpf with rfl | hpf
                · exact (common qs hld hwf (h1 f1 (by simp)) (h2 f2 hmem2)).sub hsub2 hfo1
                · exact hkeepfs qs hld hwf (move1 qs (fun pf hpf => h1 pf (by simp [hpf])))
                    (move2 qs h2) pf hpf
    | none =>
      simp only [hfind] at h
      have hrest := ih T (fun f hf => hf1 f (by simp [hf])) hf2 hnever
      cases hrec2 : meetPartFields rec never fs2 T rest with
      | none => simp [hrec2] at h
      | some pr2 =>
        obtain ⟨T2, res2⟩ := pr2
        obtain ⟨hsub2, hres2⟩ := hrest T2 res2 hrec2
        simp only [hrec2] at h
        cases res2 with
        | none =>
          simp only [Option.some.injEq, Prod.mk.injEq] at h
          obtain ⟨rfl, rfl⟩ := h
          exact ⟨hsub2, fun qs hld hwf ⟨h1, h2⟩ =>
            hres2 qs hld hwf ⟨fun pf hpf => h1 pf (by simp [hpf]), h2⟩⟩
        | some fs =>
          simp only [Option.some.injEq, Prod.mk.injEq] at h
          obtain ⟨rfl, rfl⟩ := h
          obtain ⟨hfofs, hkeepfs⟩ := hres2
          refine ⟨hsub2, ?_, fun qs hld hwf h1 h2 pf hpf => ?_⟩
          · intro f hf
            rcases List.mem_cons.mp hf with rfl | hf
            · exact (hf1 _ (by simp)).sub hsub2
            · exact hfofs f hf
          · rcases List.mem_cons.mp hpf with rfl | hpf
            · exact (h1 _ (by simp)).sub hsub2 (hf1 _ (by simp))
            · exact hkeepfs qs hld hwf (fun pf hpf => h1 pf (by simp [hpf])) h2 pf hpf

/-- the partial-vs-partial arm (fix 02d463a) never drops a well-labelled value of both operands -/
theorem meetPart_ok {rec : Table → Nat → Nat → TRes} (hrec : RecMeet rec) {T : Table}
    {a b never : Nat} {n1 n2 : Option Name} {fs1 fs2 : List (Name × Nat)} (ha : FO T a) (hb : FO T b)
    (hta : T.types[a]? = some (.part n1 fs1)) (htb : T.types[b]? = some (.part n2 fs2))
    (hnever : T.types[never]? = some (.union [])) (hneverfo : FO T never) :
    MeetOk T a b (meetPart rec T never n1 fs1 n2 fs2) := by
  have hf1 := ha.part hta
  have hf2 := hb.part htb
  unfold meetPart
  split
  · rename_i hclash
    refine MeetOk.never hneverfo (fun v _ ⟨hav, hbv⟩ => ?_)
    obtain ⟨name, fs, rfl, hn1, _⟩ := (inh_part hta).mp hav
    obtain ⟨name', fs', hv', hn2, _⟩ := (inh_part htb).mp hbv
    simp only [V.tup.injEq] at hv'
    obtain ⟨rfl, rfl⟩ := hv'
    obtain ⟨h1, h2, hne⟩ := hclash
    rcases hn1 with h | h
    · rw [h] at h1; simp at h1
    · rcases hn2 with h' | h'
      · rw [h'] at h2; simp at h2
      · exact hne (h.symm.trans h')
  · intro T' r hr
    cases hif : meetPartFields rec never fs2 T fs1 with
    | none => simp [hif] at hr
    | some pr =>
      obtain ⟨T1, res⟩ := pr
      obtain ⟨hsub1, hres⟩ := meetPartFields_ok hrec never fs2 fs1 T hf1 hf2 hnever T1 res hif
      simp only [hif] at hr
      cases res with
      | none =>
        simp only [Option.some.injEq, Prod.mk.injEq] at hr
        obtain ⟨rfl, rfl⟩ := hr
        refine ⟨hsub1, hneverfo.sub hsub1, fun v hwf hav hbv => ?_⟩
        obtain ⟨name, fs, rfl, _, hr1⟩ := (inh_part hta).mp hav
        obtain ⟨name', fs', hv', _, hr2⟩ := (inh_part htb).mp hbv
        simp only [V.tup.injEq] at hv'
        obtain ⟨rfl, rfl⟩ := hv'
        exact absurd ⟨hr1, hr2⟩ (hres _ (V.wf_tup hwf).1 (V.wf_tup hwf).2)
      | some fields =>
        obtain ⟨hfofs, hkeep⟩ := hres
        simp only [Option.some.injEq] at hr
        obtain ⟨hsub2, hget2⟩ := registerType_spec T1
          (.part (orName n1 n2) (fields ++ fs2.filter (fun f2 => !fs1.any (fun f1 => f1.1 == f2.1))))
        have hT' : T' = (T1.registerType (.part (orName n1 n2)
            (fields ++ fs2.filter (fun f2 => !fs1.any (fun f1 => f1.1 == f2.1))))).1 := by rw [hr]
        have hr' : r = (T1.registerType (.part (orName n1 n2)
            (fields ++ fs2.filter (fun f2 => !fs1.any (fun f1 => f1.1 == f2.1))))).2 := by rw [hr]
        subst hT' hr'
        have hsub12 := hsub1.trans hsub2
        have hfoall : ∀ f ∈ fields ++ fs2.filter (fun f2 => !fs1.any (fun f1 => f1.1 == f2.1)),
            FO (T1.registerType (.part (orName n1 n2)
              (fields ++ fs2.filter (fun f2 => !fs1.any (fun f1 => f1.1 == f2.1))))).1 f.2 := by
          intro f hf
          rcases List.mem_append.mp hf with hf | hf
          · exact (hfofs f hf).sub hsub2
          · exact (hf2 f (List.mem_filter.mp hf).1).sub hsub12
        refine ⟨hsub12, FO.of_part hget2 hfoall, fun v hwf hav hbv => ?_⟩
        obtain ⟨name, fs, rfl, hn1, hr1⟩ := (inh_part hta).mp hav
        obtain ⟨name', fs', hv', hn2, hr2⟩ := (inh_part htb).mp hbv
        simp only [V.tup.injEq] at hv'
        obtain ⟨rfl, rfl⟩ := hv'
        refine (inh_part hget2).mpr ⟨name, fs, rfl, ?_, fun pf hpf => ?_⟩
        · cases n1 with
          | some p => right; rcases hn1 with h | h
                      · cases h
                      · simpa [orName] using h
          | none => simpa [orName] using hn2
        · rcases List.mem_append.mp hpf with hpf | hpf
          · exact (hkeep _ (V.wf_tup hwf).1 (V.wf_tup hwf).2 hr1 hr2 pf hpf).sub hsub2 (hfofs pf hpf)
          · have hm := (List.mem_filter.mp hpf).1
            exact (hr2 pf hm).sub hsub12 (hf2 pf hm)

/-- `intersect_pair` is good on first-order operands -/
theorem intersectPair_ok (vr : Variant) (rf : Nat) {rec : Table → Nat → Nat → TRes} (hrec : RecMeet rec) (T : Table)
    (a b : Nat) (ha : FO T a) (hb : FO T b) : MeetOk T a b (intersectPair vr rf rec T a b) := by
  unfold intersectPair
  split
  · exact MeetOk.keep_left ha
  · obtain ⟨hsub0, hnever, hneverfo, _⟩ := never_spec T
    refine MeetOk.of_sub hsub0 ha hb ?_
    have ha0 := ha.sub hsub0
    have hb0 := hb.sub hsub0
    obtain ⟨ta, hta, hfa, _, _⟩ := ha0.unfold
    obtain ⟨tb, htb, hfb, _, _⟩ := hb0.unfold
    simp only [hta, htb]
    cases ta <;> simp only [Ty.isFO, Bool.false_eq_true] at hfa <;>
      cases tb <;> simp only [Ty.isFO, Bool.false_eq_true] at hfb
    all_goals first
      | exact MeetOk.keep_left ha0
      | exact meetTuple_ok vr hrec ha0 hb0 hta htb hnever hneverfo
      | exact meetFallback_ok rf ha0 hb0 hneverfo
      | (show MeetOk _ a b (if vr.partialIntersectKeepsLeft = true then _ else _)
         split
         · exact meetFallback_ok rf ha0 hb0 hneverfo
         · split
           · exact meetPart_ok hrec ha0 hb0 hta htb hnever hneverfo
           · -- the guarded arm: whatever `contains_cycle` answers, both answers are good
             cases containsCycle vr T.never.1 a with
             | none => intro T' r hr; simp at hr
             | some ca =>
               cases ca with
               | true => exact meetFallback_ok rf ha0 hb0 hneverfo
               | false =>
                 cases containsCycle vr T.never.1 b with
                 | none => intro T' r hr; simp at hr
                 | some cb =>
                   cases cb with
                   | true => exact meetFallback_ok rf ha0 hb0 hneverfo
                   | false => exact meetPart_ok hrec ha0 hb0 hta htb hnever hneverfo)

/-! ### the loops of `intersect_types` -/

theorem foB_mono {T : Table} : ∀ (n m t : Nat), n ≤ m → foB T n t = true → foB T m t = true := by
  intro n
  induction n with
  | zero => intro m t _ h; simp [foB] at h
  | succ n ih =>
    intro m t hnm h
    cases m with
    | zero => omega
    | succ m =>
      unfold foB at h ⊢
      cases hty : T.types[t]? with
      | none => simp [hty] at h
      | some ty =>
        simp only [hty, Bool.and_eq_true, List.all_eq_true] at h ⊢
        exact ⟨h.1, fun c hc => ih m c (by omega) (h.2 c hc)⟩

/-- a union node over first-order variants is first-order -/
theorem FO.of_union {T : Table} {t : Nat} {ids : List Nat} (ht : T.types[t]? = some (.union ids))
    (hf : ∀ i ∈ ids, FO T i) : FO T t := by
  have hcommon : ∃ n, ∀ i ∈ ids, foB T n i = true := by
    clear ht
    induction ids with
    | nil => exact ⟨0, by simp⟩
    | cons i rest ih =>
      obtain ⟨n1, hn1⟩ := hf i (by simp)
      obtain ⟨n2, hn2⟩ := ih (fun j hj => hf j (by simp [hj]))
      refine ⟨max n1 n2, fun j hj => ?_⟩
      rcases List.mem_cons.mp hj with rfl | hj
      · exact foB_mono n1 _ _ (Nat.le_max_left _ _) hn1
      · exact foB_mono n2 _ _ (Nat.le_max_right _ _) (hn2 j hj)
  obtain ⟨n, hn⟩ := hcommon
  refine ⟨n + 1, ?_⟩
  unfold foB
  simp only [ht, Ty.isFO, Ty.tupleOk, Bool.and_self, Bool.true_and, List.all_eq_true, Ty.children]
  exact hn

theorem unionIds_sub_fo (T : Table) (ids : List Nat) (hfo : ∀ i ∈ ids, FO T i) :
    Table.Sub T (unionIds T ids).1 ∧ FO (unionIds T ids).1 (unionIds T ids).2 := by
  obtain ⟨hflatfo, _⟩ := flattenIds_sem ids hfo
  have hdedup : ∀ x, x ∈ dedupKeep [] (flattenIds T ids) → FO T x := by
    intro x hx
    exact hflatfo x (((mem_dedupKeep _ _ x).mp hx).1)
  unfold unionIds
  cases hd : dedupKeep [] (flattenIds T ids) with
  | nil =>
    obtain ⟨h1, _, h3, _⟩ := never_spec T
    exact ⟨h1, h3⟩
  | cons x rest =>
    rw [hd] at hdedup
    cases rest with
    | nil => exact ⟨Table.Sub.refl _, hdedup x (by simp)⟩
    | cons y rest' =>
      obtain ⟨hsub, hget⟩ := registerType_spec T (.union (x :: y :: rest'))
      exact ⟨hsub, FO.of_union hget (fun i hi => (hdedup i hi).sub hsub)⟩

/-- `get_type_variants` of a first-order type: first-order ids with the same values together -/
theorem getVariants_sem {T : Table} {a : Nat} (ha : FO T a) :
    (∀ x ∈ getVariants T a, FO T x) ∧ ∀ v, inh T [] a v ↔ ∃ x ∈ getVariants T a, inh T [] x v := by
  obtain ⟨ty, hty, _⟩ := ha.unfold
  by_cases hu : ∃ vs, ty = .union vs
  · obtain ⟨vs, rfl⟩ := hu
    have hg : getVariants T a = vs := by unfold getVariants; rw [hty]
    rw [hg]
    refine ⟨ha.union hty, fun v => ?_⟩
    rw [inh_union hty]
    constructor
    · rintro ⟨i, hi, hv⟩; exact ⟨i, hi, (ha.union hty i hi).stack_irrel hv⟩
    · rintro ⟨i, hi, hv⟩; exact ⟨i, hi, (ha.union hty i hi).stack_irrel hv⟩
  · have hg : getVariants T a = [a] := by
      unfold getVariants
      rw [hty]
      cases ty <;> first | rfl | exact absurd ⟨_, rfl⟩ hu
    rw [hg]
    exact ⟨fun x hx => by simp at hx; exact hx ▸ ha, fun v => by simp⟩

section
variable {pair : Table → Nat → Nat → TRes} (hpair : RecMeet pair) (never : Nat)
include hpair

theorem intersectLoopB_ok (av : Nat) :
    ∀ (bvs : List Nat) (T : Table), FO T av → (∀ b ∈ bvs, FO T b) →
      T.types[never]? = some (.union []) →
      ∀ T' pieces, intersectLoopB pair never av T bvs = some (T', pieces) →
        Table.Sub T T' ∧ (∀ p ∈ pieces, FO T' p) ∧
          ∀ b ∈ bvs, ∀ v, v.wf = true → inh T [] av v → inh T [] b v → ∃ p ∈ pieces, inh T' [] p v := by
  intro bvs
  induction bvs with
  | nil =>
    intro T _ _ _ T' pieces h
    simp only [intersectLoopB, Option.some.injEq, Prod.mk.injEq] at h
    obtain ⟨rfl, rfl⟩ := h
    exact ⟨Table.Sub.refl _, by simp, by simp⟩
  | cons bv rest ih =>
    intro T hav hbs hnever T' pieces h
    unfold intersectLoopB at h
    cases hp : pair T av bv with
    | none => simp [hp] at h
    | some pr =>
      obtain ⟨T1, piece⟩ := pr
      obtain ⟨hsub1, hfo1, hkeep1⟩ := hpair T av bv hav (hbs bv (by simp)) T1 piece hp
      simp only [hp] at h
      have hnever1 := hsub1.types _ _ hnever
      cases hl : intersectLoopB pair never av T1 rest with
      | none => simp [hl] at h
      | some pr2 =>
        obtain ⟨T2, ps⟩ := pr2
        obtain ⟨hsub2, hfo2, hkeep2⟩ := ih T1 (hav.sub hsub1) (fun b hb => (hbs b (by simp [hb])).sub hsub1)
          hnever1 T2 ps hl
        simp only [hl, Option.some.injEq, Prod.mk.injEq] at h
        obtain ⟨rfl, rfl⟩ := h
        refine ⟨hsub1.trans hsub2, ?_, ?_⟩
        · intro p hp'
          split at hp'
          · exact hfo2 p hp'
          · rcases List.mem_cons.mp hp' with rfl | hp'
            · exact hfo1.sub hsub2
            · exact hfo2 p hp'
        · intro b hb v hwf hvav hvb
          rcases List.mem_cons.mp hb with rfl | hb
          · have hv1 := hkeep1 v hwf hvav hvb
            split
            · rename_i heq
              rw [heq] at hv1
              exact absurd hv1 (not_inh_never hnever1 _ _)
            · exact ⟨piece, by simp, (hfo1.inh_sub hsub2 [] [] v).mp hv1⟩
          · obtain ⟨p, hp', hpv⟩ := hkeep2 b hb v hwf ((hav.inh_sub hsub1 [] [] v).mp hvav)
              (((hbs b (by simp [hb])).inh_sub hsub1 [] [] v).mp hvb)
            refine ⟨p, ?_, hpv⟩
            split
            · exact hp'
            · exact List.mem_cons_of_mem _ hp'

theorem intersectLoopA_ok (bvs : List Nat) :
    ∀ (avs : List Nat) (T : Table), (∀ a ∈ avs, FO T a) → (∀ b ∈ bvs, FO T b) →
      T.types[never]? = some (.union []) →
      ∀ T' pieces, intersectLoopA pair never bvs T avs = some (T', pieces) →
        Table.Sub T T' ∧ (∀ p ∈ pieces, FO T' p) ∧
          ∀ a ∈ avs, ∀ b ∈ bvs, ∀ v, v.wf = true → inh T [] a v → inh T [] b v →
            ∃ p ∈ pieces, inh T' [] p v := by
  intro avs
  induction avs with
  | nil =>
    intro T _ _ _ T' pieces h
    simp only [intersectLoopA, Option.some.injEq, Prod.mk.injEq] at h
    obtain ⟨rfl, rfl⟩ := h
    exact ⟨Table.Sub.refl _, by simp, by simp⟩
  | cons av rest ih =>
    intro T has hbs hnever T' pieces h
    unfold intersectLoopA at h
    cases hb : intersectLoopB pair never av T bvs with
    | none => simp [hb] at h
    | some pr =>
      obtain ⟨T1, ps1⟩ := pr
      obtain ⟨hsub1, hfo1, hkeep1⟩ := intersectLoopB_ok hpair never av bvs T (has av (by simp)) hbs hnever T1 ps1 hb
      simp only [hb] at h
      have hnever1 := hsub1.types _ _ hnever
      cases hl : intersectLoopA pair never bvs T1 rest with
      | none => simp [hl] at h
      | some pr2 =>
        obtain ⟨T2, ps2⟩ := pr2
        obtain ⟨hsub2, hfo2, hkeep2⟩ := ih T1 (fun a ha => (has a (by simp [ha])).sub hsub1)
          (fun b hb' => (hbs b hb').sub hsub1) hnever1 T2 ps2 hl
        simp only [hl, Option.some.injEq, Prod.mk.injEq] at h
        obtain ⟨rfl, rfl⟩ := h
        refine ⟨hsub1.trans hsub2, ?_, ?_⟩
        · intro p hp
          rcases List.mem_append.mp hp with hp | hp
          · exact (hfo1 p hp).sub hsub2
          · exact hfo2 p hp
        · intro a ha b hb' v hwf hva hvb
          rcases List.mem_cons.mp ha with rfl | ha
          · obtain ⟨p, hp, hpv⟩ := hkeep1 b hb' v hwf hva hvb
            exact ⟨p, List.mem_append.mpr (Or.inl hp), ((hfo1 p hp).inh_sub hsub2 [] [] v).mp hpv⟩
          · obtain ⟨p, hp, hpv⟩ := hkeep2 a ha b hb' v hwf
              (((has a (by simp [ha])).inh_sub hsub1 [] [] v).mp hva) (((hbs b hb').inh_sub hsub1 [] [] v).mp hvb)
            exact ⟨p, List.mem_append.mpr (Or.inr hp), hpv⟩

end

/-- **`intersect_types` never drops a value** (first-order operands, any fuels, any table) -/
theorem intersect_ok (vr : Variant) (rf : Nat) : ∀ (fuel : Nat), RecMeet (intersect vr rf fuel) := by
  intro fuel
  induction fuel with
  | zero => intro T a b _ _ T' r h; simp [intersect] at h
  | succ fuel ih =>
    intro T a b ha hb T' r h
    unfold intersect at h
    obtain ⟨hsub0, hnever, _, _⟩ := never_spec T
    obtain ⟨havfo, havsem⟩ := getVariants_sem ha
    obtain ⟨hbvfo, hbvsem⟩ := getVariants_sem hb
    simp only at h
    cases hl : intersectLoopA (intersectPair vr rf (intersect vr rf fuel)) T.never.2 (getVariants T b) T.never.1
        (getVariants T a) with
    | none => simp [hl] at h
    | some pr =>
      obtain ⟨T1, pieces⟩ := pr
      simp only [hl, Option.some.injEq] at h
      obtain ⟨hsub1, hfo1, hkeep1⟩ := intersectLoopA_ok (fun T a b ha hb => intersectPair_ok vr rf ih T a b ha hb)
        T.never.2 (getVariants T b) (getVariants T a) T.never.1 (fun x hx => (havfo x hx).sub hsub0)
        (fun x hx => (hbvfo x hx).sub hsub0) hnever T1 pieces hl
      obtain ⟨hsub2, hfo2⟩ := unionIds_sub_fo T1 pieces hfo1
      have hT' : T' = (unionIds T1 pieces).1 := by rw [h]
      have hr : r = (unionIds T1 pieces).2 := by rw [h]
      subst hT' hr
      refine ⟨hsub0.trans (hsub1.trans hsub2), hfo2, fun v hwf hav hbv => ?_⟩
      obtain ⟨x, hx, hxv⟩ := (havsem v).mp hav
      obtain ⟨y, hy, hyv⟩ := (hbvsem v).mp hbv
      obtain ⟨p, hp, hpv⟩ := hkeep1 x hx y hy v hwf (((havfo x hx).inh_sub hsub0 [] [] v).mp hxv)
        (((hbvfo y hy).inh_sub hsub0 [] [] v).mp hyv)
      exact (unionIds_sem T1 pieces hfo1 v).mpr ⟨p, hp, hpv⟩

end QM.Types
