import QuiverModel.Core.Types.Rename
/-
`checkRelV` commutes with injective renamings of type and tuple ids: if `T'` contains a renamed copy
of `T` (`Embeds ρ τ T T'`), the relation gives the same verdict on the images, with the same fuel,
from the image of any assumption set and stack. This is the core of "tree shaking, merging and
importing do not change a type test" (C08 `rename_invariant`, C10).
-/
namespace QM.Types


variable {ρ : Nat → Nat}

theorem mapRes_some (ρ : Nat → Nat) (r : Bool) (s : Asm) : mapRes ρ (some (r, s)) = some (r, mapAsm ρ s) := rfl
theorem mapRes_none (ρ : Nat → Nat) : mapRes ρ none = none := rfl

theorem allS_map {α β : Type} (ρ : Nat → Nat) {f : Asm → α → Res} {f' : Asm → β → Res} {g : α → β}
    (h : ∀ s x, f' (mapAsm ρ s) (g x) = mapRes ρ (f s x)) :
    ∀ (l : List α) (s : Asm), allS f' (l.map g) (mapAsm ρ s) = mapRes ρ (allS f l s) := by
  intro l
  induction l with
  | nil => intro s; rfl
  | cons x xs ih =>
    intro s
    simp only [List.map_cons, allS, h]
    cases hf : f s x with
    | none => rfl
    | some p =>
      obtain ⟨b, s1⟩ := p
      cases b with
      | false => rfl
      | true => simp only [mapRes_some]; exact ih s1

theorem anyS_map {α β : Type} (ρ : Nat → Nat) {f : Asm → α → Res} {f' : Asm → β → Res} {g : α → β}
    (h : ∀ s x, f' (mapAsm ρ s) (g x) = mapRes ρ (f s x)) :
    ∀ (l : List α) (s : Asm), anyS f' (l.map g) (mapAsm ρ s) = mapRes ρ (anyS f l s) := by
  intro l
  induction l with
  | nil => intro s; rfl
  | cons x xs ih =>
    intro s
    simp only [List.map_cons, anyS, h]
    cases hf : f s x with
    | none => rfl
    | some p =>
      obtain ⟨b, s1⟩ := p
      cases b with
      | true => rfl
      | false => simp only [mapRes_some]; exact ih s1

theorem restoreOnFail_map (ρ : Nat → Nat) (vr : Variant) (asm : Asm) (r : Res) :
    restoreOnFail vr (mapAsm ρ asm) (mapRes ρ r) = mapRes ρ (restoreOnFail vr asm r) := by
  cases r with
  | none => rfl
  | some p =>
    obtain ⟨b, s⟩ := p
    cases b <;> simp [restoreOnFail, mapRes] <;> split <;> rfl


theorem ite_map (ρ : Nat → Nat) {c : Prop} [Decidable c] {x y x' y' : Res} (hx : x' = mapRes ρ x)
    (hy : y' = mapRes ρ y) : (if c then x' else y') = mapRes ρ (if c then x else y) := by
  split <;> assumption

/-- the recursive calls correspond -/
def RecRel (ρ : Nat → Nat) (rec rec' : Rec) : Prop :=
  ∀ asm (st : Stk) a b, rec' (mapAsm ρ asm) (st.map ρ) (ρ a) (ρ b) = mapRes ρ (rec asm st a b)

section
variable {ρ τ : Nat → Nat} {T T' : Table} (E : Embeds ρ τ T T') {rec rec' : Rec} (hrec : RecRel ρ rec rec')
include E

theorem contains_map (st : List Nat) (b : Nat) : (st.map ρ).contains (ρ b) = st.contains b := by
  apply Bool.eq_iff_iff.mpr
  simp only [List.contains_iff_mem, List.mem_map]
  constructor
  · rintro ⟨x, hx, hρ⟩
    rw [← E.injTy _ _ hρ]; exact hx
  · intro h; exact ⟨b, h, rfl⟩

theorem pushStack_map (st : List Nat) (b : Nat) :
    pushStack (st.map ρ) (ρ b) = (pushStack st b).map ρ := by
  unfold pushStack
  rw [contains_map E]
  split <;> simp

theorem resolveCycle_map (st : List Nat) (d : Nat) :
    resolveCycle (st.map ρ) d = (resolveCycle st d).map ρ := by
  unfold resolveCycle
  split
  · rfl
  · simp [List.getElem?_map]

theorem map_inj_list : ∀ (l1 l2 : List Nat), l1.map ρ = l2.map ρ → l1 = l2 := by
  intro l1
  induction l1 with
  | nil => intro l2 h; cases l2 with | nil => rfl | cons _ _ => simp at h
  | cons x xs ih =>
    intro l2 h
    cases l2 with
    | nil => simp at h
    | cons y ys =>
      simp only [List.map_cons, List.cons.injEq] at h
      rw [E.injTy _ _ h.1, ih ys h.2]

omit E in
theorem akey_map (vr : Variant) (st : Stk) (a b : Nat) :
    akey vr (st.map ρ) (ρ a) (ρ b) =
      (ρ (akey vr st a b).1, ρ (akey vr st a b).2.1, (akey vr st a b).2.2.map ρ) := by
  simp only [akey]
  split <;> rfl

theorem asm_contains_map (asm : Asm) (k : AKey) :
    (mapAsm ρ asm).contains (ρ k.1, ρ k.2.1, k.2.2.map ρ) = asm.contains k := by
  apply Bool.eq_iff_iff.mpr
  simp only [mapAsm, List.contains_iff_mem, List.mem_map]
  constructor
  · rintro ⟨x, hx, hρ⟩
    simp only [Prod.mk.injEq, Stk.map, Stk.mk.injEq] at hρ
    have : x = k := by
      obtain ⟨x1, x2, ⟨xl, xr⟩⟩ := x
      obtain ⟨k1, k2, ⟨kl, kr⟩⟩ := k
      simp only at hρ
      rw [E.injTy _ _ hρ.1, E.injTy _ _ hρ.2.1, map_inj_list E _ _ hρ.2.2.1, map_inj_list E _ _ hρ.2.2.2]
    rw [← this]; exact hx
  · intro h; exact ⟨k, h, rfl⟩

theorem asm_contains_akey_map (vr : Variant) (asm : Asm) (st : Stk) (a b : Nat) :
    (mapAsm ρ asm).contains (akey vr (st.map ρ) (ρ a) (ρ b)) = asm.contains (akey vr st a b) := by
  rw [akey_map]; exact asm_contains_map E asm _

theorem sameContext_map (vr : Variant) (mode : Mode) (st : Stk) :
    sameContext vr mode (st.map ρ) = sameContext vr mode st := by
  unfold sameContext
  congr 1
  apply Bool.eq_iff_iff.mpr
  rw [decide_eq_true_iff, decide_eq_true_iff]
  exact ⟨fun h => map_inj_list E _ _ h, fun h => congrArg (List.map ρ) h⟩

theorem pushL_map (st : Stk) (a : Nat) : (st.map ρ).pushL (ρ a) = (st.pushL a).map ρ := by
  simp only [Stk.pushL, Stk.map, pushStack_map E]

theorem pushR_map (st : Stk) (b : Nat) : (st.map ρ).pushR (ρ b) = (st.pushR b).map ρ := by
  simp only [Stk.pushR, Stk.map, pushStack_map E]

omit E in
theorem swap_map (st : Stk) : (st.map ρ).swap = (st.swap).map ρ := rfl

omit E in
theorem resolved_map (vr : Variant) (side : Bool) (st : Stk) (d : Nat) :
    (st.map ρ).resolved vr side d = (st.resolved vr side d).map ρ := by
  unfold Stk.resolved
  split
  · rfl
  · split <;> simp [Stk.map, List.map_drop]

include hrec

theorem cycleLeft_map (vr : Variant) (asm : Asm) (st : Stk) (d b : Nat) :
    cycleLeft vr rec' (mapAsm ρ asm) (st.map ρ) d (ρ b) = mapRes ρ (cycleLeft vr rec asm st d b) := by
  unfold cycleLeft
  have : (if vr.leftCycleOnRightStack then (st.map ρ).r else (st.map ρ).l) =
      (if vr.leftCycleOnRightStack then st.r else st.l).map ρ := by split <;> rfl
  rw [this, resolveCycle_map E]
  cases resolveCycle (if vr.leftCycleOnRightStack then st.r else st.l) d with
  | none => rfl
  | some sid => simp only [Option.map_some, resolved_map]; exact hrec _ _ _ _

theorem cycleRight_map (vr : Variant) (asm : Asm) (st : Stk) (a d : Nat) :
    cycleRight vr rec' (mapAsm ρ asm) (st.map ρ) (ρ a) d = mapRes ρ (cycleRight vr rec asm st a d) := by
  unfold cycleRight
  have : (st.map ρ).r = st.r.map ρ := rfl
  rw [this, resolveCycle_map E]
  cases resolveCycle st.r d with
  | none => rfl
  | some sid => simp only [Option.map_some, resolved_map]; exact hrec _ _ _ _

theorem unionLeft_map (vr : Variant) (mode : Mode) (asm : Asm) (st : Stk) (a b : Nat)
    (vs : List Nat) :
    unionLeft vr mode rec' (mapAsm ρ asm) (st.map ρ) (ρ a) (ρ b) (vs.map ρ) =
      mapRes ρ (unionLeft vr mode rec asm st a b vs) := by
  unfold unionLeft
  rw [← restoreOnFail_map]
  congr 1
  rw [pushL_map E]
  rw [akey_map]
  cases mode
  · exact allS_map ρ (fun s v => hrec s (st.pushL a) v b) vs (akey vr st a b :: asm)
  · exact anyS_map ρ (fun s v => hrec s (st.pushL a) v b) vs (akey vr st a b :: asm)

theorem unionRight_map (vr : Variant) (asm : Asm) (st : Stk) (a b : Nat) (vs : List Nat) :
    unionRight vr rec' (mapAsm ρ asm) (st.map ρ) (ρ a) (ρ b) (vs.map ρ) =
      mapRes ρ (unionRight vr rec asm st a b vs) := by
  unfold unionRight
  rw [← restoreOnFail_map, pushR_map E]
  congr 1
  rw [akey_map]
  exact anyS_map ρ (fun s v => hrec s (st.pushR b) a v) vs (akey vr st a b :: asm)

def mapF (ρ : Nat → Nat) {κ : Type} (f : κ × Nat) : κ × Nat := (f.1, ρ f.2)

theorem tupleFields_map (st : Stk) (f1 f2 : List (Option Name × Nat)) (asm : Asm) :
    tupleFields rec' (st.map ρ) ((f1.map (mapF ρ)).zip (f2.map (mapF ρ))) (mapAsm ρ asm) =
      mapRes ρ (tupleFields rec st (f1.zip f2) asm) := by
  unfold tupleFields
  rw [List.zip_map]
  refine allS_map ρ (g := Prod.map (mapF ρ) (mapF ρ)) (fun s p => ?_) _ _
  simp only [Prod.map, mapF]
  exact ite_map ρ (hrec _ _ _ _) rfl

theorem tupleTuple_map (vr : Variant) (mode : Mode) (asm : Asm) (st : Stk) (i1 i2 : Nat) :
    tupleTuple vr T' mode rec' (mapAsm ρ asm) (st.map ρ) (τ i1) (τ i2) =
      mapRes ρ (tupleTuple vr T mode rec asm st i1 i2) := by
  unfold tupleTuple
  rw [sameContext_map E]
  by_cases h : i1 = i2 ∧ sameContext vr mode st = true
  · have h' : τ i1 = τ i2 ∧ sameContext vr mode st = true := ⟨by rw [h.1], h.2⟩
    simp [h, h', mapRes]
  · have this : ¬ (τ i1 = τ i2 ∧ sameContext vr mode st = true) := fun hh => h ⟨E.injTu _ _ hh.1, hh.2⟩
    simp only [h, this, if_false, E.tuples]
    cases T.tuples[i1]? with
    | none => rfl
    | some info1 =>
      cases T.tuples[i2]? with
      | none => rfl
      | some info2 =>
        simp only [Option.map_some, TupleInfo.rename, List.length_map]
        split
        · exact tupleFields_map E hrec st info1.fields info2.fields asm
        · rfl

theorem tuplePartFields_map (st : Stk) (cfs : List (Option Name × Nat)) (pfs : List (Name × Nat))
    (asm : Asm) :
    tuplePartFields rec' (st.map ρ) (cfs.map (mapF ρ)) (pfs.map (mapF ρ)) (mapAsm ρ asm) =
      mapRes ρ (tuplePartFields rec st cfs pfs asm) := by
  unfold tuplePartFields
  refine allS_map ρ (fun s pf => ?_) _ _
  refine anyS_map ρ (fun s' cf => ?_) _ _
  simp only [mapF]
  exact ite_map ρ (hrec _ _ _ _) rfl

theorem tuplePart_map (asm : Asm) (st : Stk) (c : Nat) (pn : Option Name)
    (pfs : List (Name × Nat)) :
    tuplePart T' rec' (mapAsm ρ asm) (st.map ρ) (τ c) pn (pfs.map (mapF ρ)) =
      mapRes ρ (tuplePart T rec asm st c pn pfs) := by
  unfold tuplePart
  simp only [E.tuples]
  cases T.tuples[c]? with
  | none => rfl
  | some ci =>
    simp only [Option.map_some, TupleInfo.rename]
    split
    · rfl
    · exact tuplePartFields_map E hrec st ci.fields pfs asm

theorem partTupleFields_map (st : Stk) (cfs : List (Option Name × Nat)) (pfs : List (Name × Nat))
    (asm : Asm) :
    partTupleFields rec' (st.map ρ) (cfs.map (mapF ρ)) (pfs.map (mapF ρ)) (mapAsm ρ asm) =
      mapRes ρ (partTupleFields rec st cfs pfs asm) := by
  unfold partTupleFields
  refine allS_map ρ (fun s pf => ?_) _ _
  refine anyS_map ρ (fun s' cf => ?_) _ _
  simp only [mapF]
  exact ite_map ρ (hrec _ _ _ _) rfl

theorem partTuple_map (vr : Variant) (mode : Mode) (asm : Asm) (st : Stk) (pn : Option Name)
    (pfs : List (Name × Nat)) (c : Nat) :
    partTuple vr T' mode rec' (mapAsm ρ asm) (st.map ρ) pn (pfs.map (mapF ρ)) (τ c) =
      mapRes ρ (partTuple vr T mode rec asm st pn pfs c) := by
  unfold partTuple
  split
  · rfl
  · rfl
  · simp only [E.tuples]
    cases T.tuples[c]? with
    | none => rfl
    | some ci =>
      simp only [Option.map_some, TupleInfo.rename]
      split
      · rfl
      · exact partTupleFields_map E hrec st ci.fields pfs asm

theorem partPartFields_map (vr : Variant) (mode : Mode) (st : Stk) (fs1 fs2 : List (Name × Nat))
    (asm : Asm) :
    partPartFields vr mode rec' (st.map ρ) (fs1.map (mapF ρ)) (fs2.map (mapF ρ)) (mapAsm ρ asm) =
      mapRes ρ (partPartFields vr mode rec st fs1 fs2 asm) := by
  unfold partPartFields
  split
  · refine allS_map ρ (fun s f2 => ?_) _ _
    refine anyS_map ρ (fun s' f1 => ?_) _ _
    simp only [mapF]
    exact ite_map ρ (hrec _ _ _ _) rfl
  · refine allS_map ρ (fun s f2 => ?_) _ _
    rw [List.find?_map]
    have : ((fun f1 : Name × Nat => f1.1 == (mapF ρ f2).1) ∘ mapF ρ) = (fun f1 => f1.1 == f2.1) := rfl
    rw [this]
    cases List.find? (fun f1 => f1.1 == f2.1) fs1 with
    | none => cases mode <;> rfl
    | some f1 => exact hrec _ _ _ _

theorem partPart_map (vr : Variant) (mode : Mode) (asm : Asm) (st : Stk) (n1 : Option Name)
    (fs1 : List (Name × Nat)) (n2 : Option Name) (fs2 : List (Name × Nat)) :
    partPart vr mode rec' (mapAsm ρ asm) (st.map ρ) n1 (fs1.map (mapF ρ)) n2 (fs2.map (mapF ρ)) =
      mapRes ρ (partPart vr mode rec asm st n1 fs1 n2 fs2) := by
  unfold partPart
  split
  · rfl
  · exact partPartFields_map E hrec vr mode st fs1 fs2 asm

theorem optRel_map (asm : Asm) (st : Stk) (x y : Option Nat) :
    optRel rec' (mapAsm ρ asm) (st.map ρ) (x.map ρ) (y.map ρ) = mapRes ρ (optRel rec asm st x y) := by
  cases x <;> cases y <;> simp only [optRel, Option.map_some, Option.map_none]
  · rfl
  · rfl
  · rfl
  · exact hrec _ _ _ _

theorem processProcess_map (asm : Asm) (st : Stk) (s1 r1 s2 r2 : Option Nat) :
    processProcess rec' (mapAsm ρ asm) (st.map ρ) (s1.map ρ) (r1.map ρ) (s2.map ρ) (r2.map ρ) =
      mapRes ρ (processProcess rec asm st s1 r1 s2 r2) := by
  unfold processProcess
  rw [optRel_map E hrec]
  cases optRel rec asm st s1 s2 with
  | none => rfl
  | some p1 =>
    obtain ⟨ok1, a1⟩ := p1
    simp only [mapRes_some]
    rw [optRel_map E hrec]
    cases optRel rec a1 st r1 r2 with
    | none => rfl
    | some p2 => rfl

theorem callableCallable_map (vr : Variant) (asm : Asm) (st : Stk) (a b p1 r1 c1 p2 r2 c2 : Nat) :
    callableCallable vr rec' (mapAsm ρ asm) (st.map ρ) (ρ a) (ρ b) (ρ p1) (ρ r1) (ρ c1) (ρ p2) (ρ r2) (ρ c2) =
      mapRes ρ (callableCallable vr rec asm st a b p1 r1 c1 p2 r2 c2) := by
  unfold callableCallable
  simp only [pushR_map E, pushL_map E]
  have hstc : (if vr.leftCycleOnRightStack then ((st.pushR b).pushL a).map ρ
      else (((st.pushR b).pushL a).map ρ).swap) =
      (if vr.leftCycleOnRightStack then (st.pushR b).pushL a else ((st.pushR b).pushL a).swap).map ρ := by
    split <;> rfl
  rw [hstc]
  generalize (if vr.leftCycleOnRightStack then (st.pushR b).pushL a else ((st.pushR b).pushL a).swap) = stc
  rw [hrec]
  cases rec asm stc p2 p1 with
  | none => rfl
  | some q1 =>
    obtain ⟨ok1, a1⟩ := q1
    cases ok1 with
    | false => rfl
    | true =>
      simp only [mapRes_some]
      rw [hrec]
      cases rec a1 ((st.pushR b).pushL a) r1 r2 with
      | none => rfl
      | some q2 =>
        obtain ⟨ok2, a2⟩ := q2
        cases ok2 with
        | false => rfl
        | true => simp only [mapRes_some]; exact hrec _ _ _ _

/-- one unfolding commutes with the renaming -/
theorem relStep_map (vr : Variant) (mode : Mode) (asm : Asm) (st : Stk) (a b : Nat) (ta tb : Ty) :
    relStep vr T' mode rec' (mapAsm ρ asm) (st.map ρ) (ρ a) (ρ b) (ta.rename ρ τ) (tb.rename ρ τ) =
      mapRes ρ (relStep vr T mode rec asm st a b ta tb) := by
  have hmapF : ∀ (fs : List (Name × Nat)), fs.map (fun f => (f.1, ρ f.2)) = fs.map (mapF ρ) := fun _ => rfl
  by_cases hu : ∃ vs, ta = .union vs
  · obtain ⟨vs, rfl⟩ := hu
    cases vs with
    | nil => simp only [Ty.rename, List.map_nil, relStep]; cases mode <;> rfl
    | cons x xs =>
      cases tb <;> simp only [Ty.rename, List.map_cons, relStep]
      all_goals first
        | rfl
        | exact cycleRight_map E hrec vr asm st a _
        | (rw [← List.map_cons]; exact unionLeft_map E hrec vr mode asm st a b (x :: xs))
  · cases ta <;> cases tb <;> simp only [Ty.rename, relStep, hmapF]
    all_goals first
      | exact absurd ⟨_, rfl⟩ hu
      | rfl
      | exact cycleLeft_map E hrec vr asm st _ b
      | exact cycleRight_map E hrec vr asm st a _
      | exact unionRight_map E hrec vr asm st a b _
      | exact tupleTuple_map E hrec vr mode asm st _ _
      | exact tuplePart_map E hrec asm st _ _ _
      | exact partPart_map E hrec vr mode asm st _ _ _ _
      | exact partTuple_map E hrec vr mode asm st _ _ _
      | exact processProcess_map E hrec asm st _ _ _ _
      | exact callableCallable_map E hrec vr asm st a b _ _ _ _ _ _
      | (split
         · exact callableCallable_map E hrec vr asm st a b _ _ _ _ _ _
         · rw [← restoreOnFail_map, akey_map]
           exact congrArg _ (callableCallable_map E hrec vr (akey vr st a b :: asm) st a b _ _ _ _ _ _))
      | (split
         · rfl
         · exact cycleLeft_map E hrec vr asm st _ b)
      | (simp only [mapRes, Option.map_some])

end

/-- **`checkRelV` commutes with injective renamings** (same fuel, any assumption set and stack) -/
theorem checkRelV_map {ρ τ : Nat → Nat} {T T' : Table} (E : Embeds ρ τ T T') (vr : Variant)
    (mode : Mode) : ∀ (n : Nat), RecRel ρ (checkRelV vr T mode n) (checkRelV vr T' mode n) := by
  intro n
  induction n with
  | zero => intro asm st a b; rfl
  | succ n ih =>
    intro asm st a b
    unfold checkRelV
    rw [sameContext_map E]
    by_cases hab : a = b ∧ sameContext vr mode st = true
    · have hab' : ρ a = ρ b ∧ sameContext vr mode st = true := ⟨by rw [hab.1], hab.2⟩
      simp [hab, hab', mapRes]
    · have hne : ¬ (ρ a = ρ b ∧ sameContext vr mode st = true) := fun hh => hab ⟨E.injTy _ _ hh.1, hh.2⟩
      simp only [hab, hne, if_false, asm_contains_akey_map E]
      split
      · rfl
      · simp only [E.types]
        cases T.types[a]? with
        | none => rfl
        | some ta =>
          cases T.types[b]? with
          | none => rfl
          | some tb => exact relStep_map E ih vr mode asm st a b ta tb

end QM.Types
