import QuiverModel.Core.Types.Basic
import QuiverModel.Core.Types.Inh
/-
Fuel monotonicity of `checkRelV` (hence `checkRel`, `isCompatible`, `typesOverlap`) and of `inhB`:
more fuel never changes an answer that was already given.
-/
namespace QM.Types

/-- `r'` extends `r`: whatever `r` answers, `r'` answers the same. -/
def Res.le (r r' : Res) : Prop := ∀ x, r = some x → r' = some x

theorem Res.le_refl (r : Res) : Res.le r r := fun _ h => h

theorem allS_mono {α : Type} {f g : Asm → α → Res} (h : ∀ s x, Res.le (f s x) (g s x)) :
    ∀ (l : List α) (s : Asm), Res.le (allS f l s) (allS g l s) := by
  intro l
  induction l with
  | nil => intro s; exact Res.le_refl _
  | cons x xs ih =>
    intro s r hr
    unfold allS at hr ⊢
    cases hf : f s x with
    | none => simp [hf] at hr
    | some p =>
      obtain ⟨b, s'⟩ := p
      rw [h s x _ hf]
      rw [hf] at hr
      cases b with
      | false => simpa using hr
      | true => simp at hr ⊢; exact ih s' r hr

theorem anyS_mono {α : Type} {f g : Asm → α → Res} (h : ∀ s x, Res.le (f s x) (g s x)) :
    ∀ (l : List α) (s : Asm), Res.le (anyS f l s) (anyS g l s) := by
  intro l
  induction l with
  | nil => intro s; exact Res.le_refl _
  | cons x xs ih =>
    intro s r hr
    unfold anyS at hr ⊢
    cases hf : f s x with
    | none => simp [hf] at hr
    | some p =>
      obtain ⟨b, s'⟩ := p
      rw [h s x _ hf]
      rw [hf] at hr
      cases b with
      | true => simpa using hr
      | false => simp at hr ⊢; exact ih s' r hr

theorem restoreOnFail_mono (vr : Variant) (a : Asm) {r r' : Res} (h : Res.le r r') :
    Res.le (restoreOnFail vr a r) (restoreOnFail vr a r') := by
  intro x hx
  cases hr : r with
  | none => simp [hr, restoreOnFail] at hx
  | some p => rw [h p hr]; rw [hr] at hx; exact hx

section
variable {rec rec' : Rec} (h : ∀ s st a b, Res.le (rec s st a b) (rec' s st a b))
include h

theorem cycleLeft_mono (vr : Variant) (asm : Asm) (st : Stk) (d b : Nat) :
    Res.le (cycleLeft vr rec asm st d b) (cycleLeft vr rec' asm st d b) := by
  unfold cycleLeft; split
  · exact Res.le_refl _
  · exact h _ _ _ _

theorem cycleRight_mono (vr : Variant) (asm : Asm) (st : Stk) (a d : Nat) :
    Res.le (cycleRight vr rec asm st a d) (cycleRight vr rec' asm st a d) := by
  unfold cycleRight; split
  · exact Res.le_refl _
  · exact h _ _ _ _

theorem unionLeft_mono (vr : Variant) (mode : Mode) (asm : Asm) (st : Stk) (a b : Nat)
    (vs : List Nat) :
    Res.le (unionLeft vr mode rec asm st a b vs) (unionLeft vr mode rec' asm st a b vs) := by
  unfold unionLeft
  apply restoreOnFail_mono
  cases mode
  · exact allS_mono (fun s v => h _ _ _ _) _ _
  · exact anyS_mono (fun s v => h _ _ _ _) _ _

theorem unionRight_mono (vr : Variant) (asm : Asm) (st : Stk) (a b : Nat) (vs : List Nat) :
    Res.le (unionRight vr rec asm st a b vs) (unionRight vr rec' asm st a b vs) := by
  unfold unionRight
  apply restoreOnFail_mono
  exact anyS_mono (fun s v => h _ _ _ _) _ _

theorem tupleFields_mono (st : Stk) (z : List ((Option Name × Nat) × (Option Name × Nat)))
    (asm : Asm) : Res.le (tupleFields rec st z asm) (tupleFields rec' st z asm) := by
  unfold tupleFields
  apply allS_mono
  intro s p
  split
  · exact h _ _ _ _
  · exact Res.le_refl _

theorem tupleTuple_mono (vr : Variant) (T : Table) (mode : Mode) (asm : Asm) (st : Stk) (i1 i2 : Nat) :
    Res.le (tupleTuple vr T mode rec asm st i1 i2) (tupleTuple vr T mode rec' asm st i1 i2) := by
  unfold tupleTuple
  repeat' split
  all_goals first | exact Res.le_refl _ | exact tupleFields_mono h _ _ _

theorem tuplePartFields_mono (st : Stk) (cfs : List (Option Name × Nat))
    (pfs : List (Name × Nat)) (asm : Asm) :
    Res.le (tuplePartFields rec st cfs pfs asm) (tuplePartFields rec' st cfs pfs asm) := by
  unfold tuplePartFields
  apply allS_mono
  intro s pf
  apply anyS_mono
  intro s' cf
  split
  · exact h _ _ _ _
  · exact Res.le_refl _

theorem tuplePart_mono (T : Table) (asm : Asm) (st : Stk) (c : Nat) (pn : Option Name)
    (pfs : List (Name × Nat)) :
    Res.le (tuplePart T rec asm st c pn pfs) (tuplePart T rec' asm st c pn pfs) := by
  unfold tuplePart
  repeat' split
  all_goals first | exact Res.le_refl _ | exact tuplePartFields_mono h _ _ _ _

theorem partPartFields_mono (vr : Variant) (mode : Mode) (st : Stk) (fs1 fs2 : List (Name × Nat))
    (asm : Asm) :
    Res.le (partPartFields vr mode rec st fs1 fs2 asm) (partPartFields vr mode rec' st fs1 fs2 asm) := by
  unfold partPartFields
  split
  · apply allS_mono
    intro s f2
    apply anyS_mono
    intro s' f1
    split
    · exact h _ _ _ _
    · exact Res.le_refl _
  · apply allS_mono
    intro s f2
    split
    · exact h _ _ _ _
    · exact Res.le_refl _

theorem partPart_mono (vr : Variant) (mode : Mode) (asm : Asm) (st : Stk)
    (n1 : Option Name) (fs1 : List (Name × Nat)) (n2 : Option Name) (fs2 : List (Name × Nat)) :
    Res.le (partPart vr mode rec asm st n1 fs1 n2 fs2) (partPart vr mode rec' asm st n1 fs1 n2 fs2) := by
  unfold partPart
  split
  · exact Res.le_refl _
  · exact partPartFields_mono h _ _ _ _ _ _

theorem partTupleFields_mono (st : Stk) (cfs : List (Option Name × Nat))
    (pfs : List (Name × Nat)) (asm : Asm) :
    Res.le (partTupleFields rec st cfs pfs asm) (partTupleFields rec' st cfs pfs asm) := by
  unfold partTupleFields
  apply allS_mono
  intro s pf
  apply anyS_mono
  intro s' cf
  split
  · exact h _ _ _ _
  · exact Res.le_refl _

theorem partTuple_mono (vr : Variant) (T : Table) (mode : Mode) (asm : Asm) (st : Stk)
    (pn : Option Name) (pfs : List (Name × Nat)) (c : Nat) :
    Res.le (partTuple vr T mode rec asm st pn pfs c) (partTuple vr T mode rec' asm st pn pfs c) := by
  unfold partTuple
  repeat' split
  all_goals first | exact Res.le_refl _ | exact partTupleFields_mono h _ _ _ _

theorem optRel_mono (asm : Asm) (st : Stk) (x y : Option Nat) :
    Res.le (optRel rec asm st x y) (optRel rec' asm st x y) := by
  unfold optRel
  split
  · exact h _ _ _ _
  · exact Res.le_refl _

theorem processProcess_mono (asm : Asm) (st : Stk) (s1 r1 s2 r2 : Option Nat) :
    Res.le (processProcess rec asm st s1 r1 s2 r2) (processProcess rec' asm st s1 r1 s2 r2) := by
  intro x hx
  unfold processProcess at hx ⊢
  cases h1 : optRel rec asm st s1 s2 with
  | none => simp [h1] at hx
  | some p1 =>
    obtain ⟨ok1, a1⟩ := p1
    rw [optRel_mono h _ _ _ _ _ h1]
    rw [h1] at hx
    simp only at hx ⊢
    cases h2 : optRel rec a1 st r1 r2 with
    | none => simp [h2] at hx
    | some p2 =>
      obtain ⟨ok2, a2⟩ := p2
      rw [optRel_mono h _ _ _ _ _ h2]
      rw [h2] at hx
      exact hx

theorem callableCallable_mono (vr : Variant) (asm : Asm) (st : Stk) (a b p1 r1 c1 p2 r2 c2 : Nat) :
    Res.le (callableCallable vr rec asm st a b p1 r1 c1 p2 r2 c2)
      (callableCallable vr rec' asm st a b p1 r1 c1 p2 r2 c2) := by
  intro x hx
  unfold callableCallable at hx ⊢
  simp only at hx ⊢
  generalize (if vr.leftCycleOnRightStack then (st.pushR b).pushL a else ((st.pushR b).pushL a).swap) = stc at hx ⊢
  cases h1 : rec asm stc p2 p1 with
  | none => simp [h1] at hx
  | some q1 =>
    obtain ⟨ok1, a1⟩ := q1
    rw [h _ _ _ _ _ h1]
    rw [h1] at hx
    cases ok1 with
    | false => exact hx
    | true =>
      simp only at hx ⊢
      cases h2 : rec a1 ((st.pushR b).pushL a) r1 r2 with
      | none => simp [h2] at hx
      | some q2 =>
        obtain ⟨ok2, a2⟩ := q2
        rw [h _ _ _ _ _ h2]
        rw [h2] at hx
        cases ok2 with
        | false => exact hx
        | true => simp only at hx ⊢; exact h _ _ _ _ _ hx

theorem relStep_mono (vr : Variant) (T : Table) (mode : Mode)
    (asm : Asm) (st : Stk) (a b : Nat) (ta tb : Ty) :
    Res.le (relStep vr T mode rec asm st a b ta tb) (relStep vr T mode rec' asm st a b ta tb) := by
  unfold relStep
  split
  all_goals first
    | exact Res.le_refl _
    | exact cycleLeft_mono h _ _ _ _ _
    | exact cycleRight_mono h _ _ _ _ _
    | exact unionLeft_mono h _ _ _ _ _ _ _
    | exact unionRight_mono h _ _ _ _ _ _
    | exact tupleTuple_mono h _ _ _ _ _ _ _
    | exact tuplePart_mono h _ _ _ _ _ _
    | exact partPart_mono h _ _ _ _ _ _ _ _
    | exact partTuple_mono h _ _ _ _ _ _ _ _
    | exact processProcess_mono h _ _ _ _ _ _
    | exact callableCallable_mono h _ _ _ _ _ _ _ _ _ _ _
    | (split
       · exact callableCallable_mono h _ _ _ _ _ _ _ _ _ _ _
       · exact restoreOnFail_mono _ _ (callableCallable_mono h _ _ _ _ _ _ _ _ _ _ _))
    | (split; exact Res.le_refl _; exact cycleLeft_mono h _ _ _ _ _)

end

/-- one more unit of fuel never changes an answer. -/
theorem checkRelV_succ (vr : Variant) (T : Table) (mode : Mode) :
    ∀ (n : Nat) (asm : Asm) (st : Stk) (a b : Nat),
      Res.le (checkRelV vr T mode n asm st a b) (checkRelV vr T mode (n + 1) asm st a b) := by
  intro n
  induction n with
  | zero => intro asm st a b x hx; simp [checkRelV] at hx
  | succ n ih =>
    intro asm st a b x hx
    unfold checkRelV at hx ⊢
    split at hx
    · rename_i h1; rw [if_pos h1]; exact hx
    · rename_i h1; rw [if_neg h1]
      split at hx
      · rename_i h2; rw [if_pos h2]; exact hx
      · rename_i h2; rw [if_neg h2]
        split at hx
        · rename_i ta tb hta htb
          exact relStep_mono ih vr T mode asm st a b ta tb x hx
        · exact hx

theorem checkRelV_mono (vr : Variant) (T : Table) (mode : Mode) {n m : Nat} (hnm : n ≤ m)
    (asm : Asm) (st : Stk) (a b : Nat) :
    Res.le (checkRelV vr T mode n asm st a b) (checkRelV vr T mode m asm st a b) := by
  induction hnm with
  | refl => exact Res.le_refl _
  | step _ ih => exact fun x hx => checkRelV_succ vr T mode _ asm st a b x (ih x hx)

theorem checkRel_mono (T : Table) (mode : Mode) {n m : Nat} (hnm : n ≤ m)
    (asm : Asm) (st : Stk) (a b : Nat) {r : Bool × Asm}
    (h : checkRel T mode n asm st a b = some r) : checkRel T mode m asm st a b = some r :=
  checkRelV_mono _ T mode hnm asm st a b r h

theorem isCompatible_mono (T : Table) {n m : Nat} (hnm : n ≤ m) (a b : Nat) {r : Bool}
    (h : isCompatible T n a b = some r) : isCompatible T m a b = some r := by
  unfold isCompatible at h ⊢
  cases hc : checkRel T .all n [] {} a b with
  | none => simp [hc] at h
  | some p => rw [checkRel_mono T .all hnm _ _ _ _ hc]; rw [hc] at h; exact h

theorem typesOverlap_mono (T : Table) {n m : Nat} (hnm : n ≤ m) (a b : Nat) {r : Bool}
    (h : typesOverlap T n a b = some r) : typesOverlap T m a b = some r := by
  unfold typesOverlap at h ⊢
  cases hc : checkRel T .any n [] {} a b with
  | none => simp [hc] at h
  | some p => rw [checkRel_mono T .any hnm _ _ _ _ hc]; rw [hc] at h; exact h

end QM.Types
