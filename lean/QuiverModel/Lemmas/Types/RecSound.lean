import QuiverModel.Lemmas.Types.RecInv
import QuiverModel.Lemmas.Types.RecDerMain
import QuiverModel.Lemmas.Types.Sound
/-
Stage 2 of the recursive soundness proof: a supported set of assumptions is semantically sound.

`Phi n`: for every pair derivable from the supported set `A`, a value that inhabits the left type with
fuel `n` inhabits the right type. Induction on `n` (every step that looks into the left type consumes
fuel); the steps that only unfold the RIGHT type (union on the right, `Cycle` on the right) are handled
by an inner induction on a measure of the right type below its stack: the number of guard flags that are
set, then the id — a `Cycle` is only closed when the flag of its target is set, resolving it drops that
flag and everything above, and entering a union sets no flag and lowers the id.
-/
namespace QM.Types

/-! ### `inhB`, one unfolding -/

theorem inhB_union {T : Table} {st : List Nat} {t : Nat} {v : V} {ids : List Nat} {n : Nat}
    (h : T.types[t]? = some (.union ids)) :
    inhB T (n + 1) st t v = true ↔ ∃ i ∈ ids, inhB T n (t :: st) i v = true := by
  constructor
  · intro hn
    unfold inhB at hn
    simpa only [h, List.any_eq_true] using hn
  · intro hn
    unfold inhB
    simpa only [h, List.any_eq_true] using hn

theorem inhB_cycle {T : Table} {st : List Nat} {t d : Nat} {v : V} {n : Nat}
    (h : T.types[t]? = some (.cycle d)) :
    inhB T (n + 1) st t v = true ↔
      ∃ id, resolveCycle st d = some id ∧ inhB T n (st.drop d) id v = true := by
  constructor
  · intro hn
    unfold inhB at hn
    simp only [h] at hn
    cases hr : resolveCycle st d with
    | none => simp [hr] at hn
    | some id => simp only [hr] at hn; exact ⟨id, rfl, hn⟩
  · rintro ⟨id, hr, hn⟩
    unfold inhB
    simp only [h, hr]
    exact hn

theorem inhB_tuple {T : Table} {st : List Nat} {t id : Nat} {v : V} {info : TupleInfo} {n : Nat}
    (h : T.types[t]? = some (.tuple id)) (hi : T.tuples[id]? = some info) :
    inhB T (n + 1) st t v = true →
      ∃ name fs, v = .tup name fs ∧ name = info.name ∧
        FieldsRel (fun c v => inhB T n st c v = true) info.fields fs.toList := by
  intro hn
  unfold inhB at hn
  simp only [h] at hn
  cases v with
  | tup name fs =>
    simp only [hi, Bool.and_eq_true, decide_eq_true_eq] at hn
    exact ⟨name, fs, rfl, hn.1, (fieldsB_iff _ _ _).mp hn.2⟩
  | _ => simp [hi] at hn

theorem inhB_part {T : Table} {st : List Nat} {t : Nat} {v : V} {pn : Option Name}
    {pfs : List (Name × Nat)} {n : Nat} (h : T.types[t]? = some (.part pn pfs)) :
    inhB T (n + 1) st t v = true →
      ∃ name fs, v = .tup name fs ∧ (pn = none ∨ name = pn) ∧
        ∀ pf ∈ pfs, ∃ q ∈ fs.toList, q.1 = some pf.1 ∧ inhB T n st pf.2 q.2 = true := by
  intro hn
  unfold inhB at hn
  simp only [h] at hn
  cases v with
  | tup name fs =>
    simp only [Bool.and_eq_true, Bool.or_eq_true, Option.isNone_iff_eq_none, decide_eq_true_eq,
      List.all_eq_true] at hn
    refine ⟨name, fs, rfl, hn.1, fun pf hpf => ?_⟩
    have := hn.2 pf hpf
    rw [hasFieldB_eq_any, List.any_eq_true] at this
    obtain ⟨q, hq, hqv⟩ := this
    simp only [Bool.and_eq_true, decide_eq_true_eq] at hqv
    exact ⟨q, hq, hqv.1, hqv.2⟩
  | _ => simp at hn

theorem FieldsRel.zip_imp {P Q : Nat → V → Prop} :
    ∀ (f1 f2 : List (Option Name × Nat)) (fs : List (Option Name × V)),
      f1.length = f2.length →
      (∀ p ∈ f1.zip f2, p.1.1 = p.2.1 ∧ ∀ v, P p.1.2 v → Q p.2.2 v) →
      FieldsRel P f1 fs → FieldsRel Q f2 fs := by
  intro f1
  induction f1 with
  | nil =>
    intro f2 fs hlen _ hr
    cases hr
    cases f2 with
    | nil => exact .nil
    | cons _ _ => simp at hlen
  | cons p rest ih =>
    intro f2 fs hlen hz hr
    cases f2 with
    | nil => simp at hlen
    | cons q rest2 =>
      cases hr with
      | cons h1 h2 h3 =>
        have hpq := hz (p, q) (by simp)
        refine .cons (hpq.1 ▸ h1) (hpq.2 _ h2) (ih rest2 _ (by simpa using hlen) ?_ h3)
        intro z hzmem
        exact hz z (by simp [hzmem])

/-! ### the invariant of the right-hand side and the measure -/

structure RInv (T : Table) (y : Nat) (str : List Nat) (fr : List Frame) (gs : List Bool) : Prop where
  stack : str = fr.map (·.1)
  frames : FramesOK T fr gs
  closed : ClosedAt T gs y
  chain : Chain y str

def Meas (T : Table) (gs : List Bool) (y : Nat) : Nat := countTrue gs * (T.types.length + 1) + y

theorem RInv.lt_length {T : Table} {y : Nat} {str : List Nat} {fr : List Frame} {gs : List Bool}
    (h : RInv T y str fr gs) : y < T.types.length := by
  obtain ⟨ty, hty⟩ := h.closed.in_table
  exact (List.getElem?_eq_some_iff.mp hty).1

/-- entering a union on the right -/
theorem RInv.enter {T : Table} (hT : Ordered T) {y w : Nat} {str : List Nat} {fr : List Frame}
    {gs : List Bool} {ws : List Nat} (h : RInv T y str fr gs) (hty : T.types[y]? = some (.union ws))
    (hw : w ∈ ws) : RInv T w (y :: str) ((y, gs) :: fr) (false :: gs) ∧ Meas T (false :: gs) w < Meas T gs y := by
  have hlt : w < y := ordered_children hT hty w (by simpa [Ty.children] using hw)
  refine ⟨⟨by simp [h.stack], h.frames.push h.closed, h.closed.union hty w hw, h.chain.push hlt⟩, ?_⟩
  simp only [Meas, countTrue]
  omega

/-- crossing a constructor on the right -/
theorem RInv.cross {T : Table} {y c : Nat} {str : List Nat} {fr : List Frame} {gs : List Bool}
    (h : RInv T y str fr gs) (hc : ClosedAt T (gs.map (fun _ => true)) c) (hlt : c < y) :
    RInv T c str fr (gs.map (fun _ => true)) :=
  ⟨h.stack, h.frames.allTrue, hc, h.chain.child hlt⟩

/-- resolving a `Cycle` on the right -/
theorem RInv.jump {T : Table} {y d sid : Nat} {str : List Nat} {fr : List Frame} {gs : List Bool}
    (h : RInv T y str fr gs) (hty : T.types[y]? = some (.cycle d))
    (hr : resolveCycle str d = some sid) :
    ∃ g, RInv T sid (str.drop d) (fr.drop d) g ∧ Meas T g sid < Meas T gs y := by
  obtain ⟨hd, hflag⟩ := h.closed.cycle hty
  have hk : str[d - 1]? = some sid := by
    unfold resolveCycle at hr
    simpa [hd] using hr
  -- the frame of the target
  have hfr : ∃ f, fr[d - 1]? = some f ∧ f.1 = sid := by
    rw [h.stack, List.getElem?_map] at hk
    cases hf : fr[d - 1]? with
    | none => simp [hf] at hk
    | some f => exact ⟨f, rfl, by simpa [hf] using hk⟩
  obtain ⟨f, hf, hf1⟩ := hfr
  obtain ⟨hclosed, hframes, hle⟩ := h.frames.jump (d - 1) hf
  have hdd : d - 1 + 1 = d := by omega
  rw [hdd] at hframes hle
  refine ⟨f.2, ⟨?_, hframes, hf1 ▸ hclosed, ?_⟩, ?_⟩
  · rw [h.stack, List.map_drop]
  · have := h.chain.drop (d - 1) hk
    rwa [hdd] at this
  · have h1 := countTrue_le hle
    have h2 := countTrue_drop gs (d - 1) hflag
    rw [hdd] at h2
    have hsid : sid < T.types.length := by
      obtain ⟨ty, hty'⟩ := (hf1 ▸ hclosed : ClosedAt T f.2 sid).in_table
      exact (List.getElem?_eq_some_iff.mp hty').1
    simp only [Meas]
    have : countTrue f.2 + 1 ≤ countTrue gs := by omega
    calc countTrue f.2 * (T.types.length + 1) + sid
        < countTrue f.2 * (T.types.length + 1) + (T.types.length + 1) := by omega
      _ = (countTrue f.2 + 1) * (T.types.length + 1) := by rw [Nat.add_mul, Nat.one_mul]
      _ ≤ countTrue gs * (T.types.length + 1) := Nat.mul_le_mul_right _ this
      _ ≤ countTrue gs * (T.types.length + 1) + y := Nat.le_add_right _ _

/-! ### the semantic claim -/

/-- a value that inhabits the left type with fuel `n` inhabits the right type, for every pair derivable
from `A` below sorted stacks whose right-hand side is closed -/
def Phi (T : Table) (A : AKey → Prop) (n : Nat) : Prop :=
  ∀ (a b : Nat) (st : Stk) (fr : List Frame) (gs : List Bool), Chain a st.l → RInv T b st.r fr gs →
    Der T A a b st → ∀ v, inhB T n st.l a v = true → inh T st.r b v

theorem Stk.pushL_chain {st : Stk} {a : Nat} (h : Chain a st.l) : st.pushL a = { st with l := a :: st.l } := by
  simp only [Stk.pushL, pushStack_chain h]

theorem Stk.pushR_chain {st : Stk} {b : Nat} (h : Chain b st.r) : st.pushR b = { st with r := b :: st.r } := by
  simp only [Stk.pushR, pushStack_chain h]

theorem phi_step {T : Table} (hT : Ordered T) {A : AKey → Prop} (hA : ∀ p, A p → Supp T A p) (n : Nat)
    (ih : Phi T A n) : Phi T A (n + 1) := by
  intro a b st fr gs hch hr hder v hv
  -- inner induction on the measure of the right-hand side
  generalize hm : Meas T gs b = m
  induction m using Nat.strongRecOn generalizing a b st fr gs with
  | _ m ihm =>
    -- the two kinds of step, stated once
    have leftUnion : ∀ {vs : List Nat}, T.types[a]? = some (.union vs) →
        (∀ v' ∈ vs, Der T A v' b (st.pushL a)) → inh T st.r b v := by
      intro vs hta hprem
      obtain ⟨i, hi, hiv⟩ := (inhB_union hta).mp hv
      have hlt : i < a := ordered_children hT hta i (by simpa [Ty.children] using hi)
      have hd := hprem i hi
      rw [Stk.pushL_chain hch] at hd
      exact ih i b { st with l := a :: st.l } fr gs (hch.push hlt) hr hd v hiv
    have rightUnion : ∀ {ws : List Nat} (w : Nat), T.types[b]? = some (.union ws) → w ∈ ws →
        Der T A a w (st.pushR b) → inh T st.r b v := by
      intro ws w htb hw hprem
      obtain ⟨hr', hlt⟩ := hr.enter hT htb hw
      rw [Stk.pushR_chain hr.chain] at hprem
      have := ihm _ (hm ▸ hlt) a w { st with r := b :: st.r } _ _ hch hr' hprem hv rfl
      exact (inh_union htb).mpr ⟨w, hw, this⟩
    cases hder with
    | refl hst =>
      exact ⟨n + 1, by rw [← hst]; exact hv⟩
    | hyp hp =>
      rcases hA _ hp with ⟨vs, hta, hprem⟩ | ⟨ws, w, htb, hw, hprem⟩
      · exact leftUnion hta hprem
      · exact rightUnion w htb hw hprem
    | never_left hta =>
      obtain ⟨i, hi, _⟩ := (inhB_union hta).mp hv
      simp at hi
    | atom hta htb hat =>
      have hinh : inh T st.l a v := ⟨n + 1, hv⟩
      rcases hat with rfl | rfl | rfl | ⟨r, rfl⟩
      · exact (inh_integer htb).mpr ((inh_integer hta).mp hinh)
      · exact (inh_binary htb).mpr ((inh_binary hta).mp hinh)
      · exact (inh_reference htb).mpr ((inh_reference hta).mp hinh)
      · exact (inh_resource htb).mpr ((inh_resource hta).mp hinh)
    | cycle_left_dangling hta hres =>
      obtain ⟨id, hid, _⟩ := (inhB_cycle hta).mp hv
      rw [hres] at hid
      cases hid
    | cycle_left hta hres hprem =>
      rename_i d sid
      obtain ⟨id, hid, hidv⟩ := (inhB_cycle hta).mp hv
      rw [hres] at hid
      cases hid
      exact ih sid b { st with l := st.l.drop d } fr gs (hch.resolve hres) hr hprem v hidv
    | cycle_right_dangling htb hres =>
      rename_i d
      -- a closed `Cycle` points into the stack
      obtain ⟨hd, hflag⟩ := hr.closed.cycle htb
      have hlen : d - 1 < gs.length := by
        by_cases h : d - 1 < gs.length
        · exact h
        · simp [List.getElem?_eq_none (Nat.le_of_not_lt h)] at hflag
      rw [hr.frames.length] at hlen
      have hlen' : st.r.length = fr.length := by rw [hr.stack]; simp
      unfold resolveCycle at hres
      simp [hd] at hres
      omega
    | cycle_right htb hres hprem =>
      rename_i d sid
      obtain ⟨g, hr', hlt⟩ := hr.jump htb hres
      have := ihm _ (hm ▸ hlt) a sid { st with r := st.r.drop d } _ _ hch hr' hprem hv rfl
      exact (inh_cycle htb).mpr ⟨_, hres, this⟩
    | union_left hta hprem => exact leftUnion hta hprem
    | union_right w htb hw hprem => exact rightUnion w htb hw hprem
    | tuple_same hta htb hst =>
      obtain ⟨info, hinfo, _⟩ := hr.closed.tuple htb
      have hinh : inh T st.l a v := ⟨n + 1, hv⟩
      rw [hst] at hinh
      exact (inh_tuple htb hinfo).mpr ((inh_tuple hta hinfo).mp hinh)
    | tuple_tuple hta htb h1 h2 hname hlen hlab hprem =>
      obtain ⟨name, fs, rfl, hn, hf⟩ := inhB_tuple hta h1 hv
      obtain ⟨info2', hinfo2', hclosed⟩ := hr.closed.tuple htb
      rw [h2] at hinfo2'; cases hinfo2'
      refine (inh_tuple htb h2).mpr ⟨name, fs, rfl, hn.trans hname, ?_⟩
      refine FieldsRel.zip_imp _ _ _ hlen (fun p hp => ⟨hlab p hp, fun v' hv' => ?_⟩) hf
      have hp1 : p.1 ∈ _ := (List.of_mem_zip hp).1
      have hp2 : p.2 ∈ _ := (List.of_mem_zip hp).2
      have hlt1 : p.1.2 < a := ordered_children hT hta _ (by
        simp only [Ty.children, Table.fieldTypes, h1, List.mem_map]; exact ⟨p.1, hp1, rfl⟩)
      have hlt2 : p.2.2 < b := ordered_children hT htb _ (by
        simp only [Ty.children, Table.fieldTypes, h2, List.mem_map]; exact ⟨p.2, hp2, rfl⟩)
      exact ih _ _ st fr _ (hch.child hlt1) (hr.cross (hclosed _ hp2) hlt2) (hprem p hp) v' hv'
    | tuple_part sel hta htb hc hname hsel hprem =>
      rename_i c ci pn pfs
      obtain ⟨name, fs, rfl, hn, hf⟩ := inhB_tuple hta hc hv
      have hclosed := hr.closed.part htb
      refine (inh_part htb).mpr ⟨name, fs, rfl, ?_, fun pf hpf => ?_⟩
      · cases pn with
        | none => exact Or.inl rfl
        | some p =>
          right
          by_cases hcn : ci.name = some p
          · rw [hn, hcn]
          · exact absurd ⟨rfl, hcn⟩ hname
      · obtain ⟨hmem, hl⟩ := hsel pf hpf
        obtain ⟨q, hq, hql, hqv⟩ := hf.of_mem _ hmem
        have hlt1 : (sel pf).2 < a := ordered_children hT hta _ (by
          simp only [Ty.children, Table.fieldTypes, hc, List.mem_map]; exact ⟨sel pf, hmem, rfl⟩)
        have hlt2 : pf.2 < b := ordered_children hT htb _ (by
          simp only [Ty.children, List.mem_map]; exact ⟨pf, hpf, rfl⟩)
        exact ⟨q, hq, hql ▸ hl, ih _ _ st fr _ (hch.child hlt1) (hr.cross (hclosed pf hpf) hlt2)
          (hprem pf hpf) q.2 hqv⟩
    | part_part sel hta htb hname hsel hprem =>
      rename_i n1 n2 fs1 fs2
      obtain ⟨name, fs, rfl, hn, hf⟩ := inhB_part hta hv
      have hclosed := hr.closed.part htb
      refine (inh_part htb).mpr ⟨name, fs, rfl, ?_, fun f2 hf2 => ?_⟩
      · simp only [nameConflict, Variant.current, Bool.false_eq_true, if_false, Bool.and_eq_false_iff,
          decide_eq_false_iff_not, ne_eq, Decidable.not_not] at hname
        cases n2 with
        | none => exact Or.inl rfl
        | some p =>
          right
          rcases hname with h | h
          · simp at h
          · rcases hn with hn | hn
            · rw [hn] at h; simp at h
            · rw [hn, h]
      · have hfind := hsel f2 hf2
        have hmem : sel f2 ∈ fs1 := List.mem_of_find?_eq_some hfind
        have hl : (sel f2).1 = f2.1 := by simpa using List.find?_some hfind
        obtain ⟨q, hq, hql, hqv⟩ := hf (sel f2) hmem
        have hlt1 : (sel f2).2 < a := ordered_children hT hta _ (by
          simp only [Ty.children, List.mem_map]; exact ⟨sel f2, hmem, rfl⟩)
        have hlt2 : f2.2 < b := ordered_children hT htb _ (by
          simp only [Ty.children, List.mem_map]; exact ⟨f2, hf2, rfl⟩)
        exact ⟨q, hq, hl ▸ hql, ih _ _ st fr _ (hch.child hlt1) (hr.cross (hclosed f2 hf2) hlt2)
          (hprem f2 hf2) q.2 hqv⟩

theorem phi_all {T : Table} (hT : Ordered T) {A : AKey → Prop} (hA : ∀ p, A p → Supp T A p) :
    ∀ n, Phi T A n := by
  intro n
  induction n with
  | zero => intro a b st fr gs _ _ _ v hv; simp [inhB] at hv
  | succ n ih => exact phi_step hT hA n ih

end QM.Types
