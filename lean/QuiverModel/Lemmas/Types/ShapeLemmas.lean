import QuiverModel.Core.Types.Shape
import QuiverModel.Lemmas.Types.InhLemmas
/-
Consequences of the well-formedness classes: in an ordered table children have smaller ids; a
first-order type unfolds to first-order children; the meaning of a first-order (cycle-free) type
does not depend on the boundary stack.
-/
namespace QM.Types

theorem orderedFrom_spec (T : Table) :
    ∀ (l : List Ty) (i : Nat), orderedFrom T i l = true →
      ∀ k ty, l[k]? = some ty → (∀ c ∈ ty.children T, c < i + k) ∧ ty.tupleOk T = true := by
  intro l
  induction l with
  | nil => intro i _ k ty h; simp at h
  | cons t rest ih =>
    intro i h k ty hk
    simp only [orderedFrom, Bool.and_eq_true, List.all_eq_true, decide_eq_true_eq] at h
    cases k with
    | zero =>
      simp only [List.getElem?_cons_zero, Option.some.injEq] at hk
      subst hk
      exact ⟨fun c hc => by simpa using h.1.1 c hc, h.1.2⟩
    | succ k =>
      simp only [List.getElem?_cons_succ] at hk
      have := ih (i + 1) h.2 k ty hk
      exact ⟨fun c hc => by have := this.1 c hc; omega, this.2⟩

theorem ordered_children {T : Table} (h : Ordered T) {t : Nat} {ty : Ty} (hty : T.types[t]? = some ty) :
    ∀ c ∈ ty.children T, c < t := by
  have := orderedFrom_spec T T.types 0 h t ty hty
  intro c hc
  simpa using this.1 c hc

theorem FO.unfold {T : Table} {t : Nat} (h : FO T t) :
    ∃ ty, T.types[t]? = some ty ∧ ty.isFO = true ∧ ty.tupleOk T = true ∧ ∀ c ∈ ty.children T, FO T c := by
  obtain ⟨n, hn⟩ := h
  cases n with
  | zero => simp [foB] at hn
  | succ n =>
    unfold foB at hn
    cases hty : T.types[t]? with
    | none => simp [hty] at hn
    | some ty =>
      simp only [hty, Bool.and_eq_true, List.all_eq_true] at hn
      exact ⟨ty, rfl, hn.1.1, hn.1.2, fun c hc => ⟨n, hn.2 c hc⟩⟩

theorem FO.union {T : Table} {t : Nat} {ids : List Nat} (h : FO T t)
    (hty : T.types[t]? = some (.union ids)) : ∀ i ∈ ids, FO T i := by
  obtain ⟨ty, h1, _, _, h4⟩ := h.unfold
  rw [hty] at h1; cases h1
  exact h4

theorem FO.tuple {T : Table} {t id : Nat} (h : FO T t) (hty : T.types[t]? = some (.tuple id)) :
    ∃ info, T.tuples[id]? = some info ∧ ∀ f ∈ info.fields, FO T f.2 := by
  obtain ⟨ty, h1, _, h3, h4⟩ := h.unfold
  rw [hty] at h1; cases h1
  simp only [Ty.tupleOk, decide_eq_true_eq] at h3
  refine ⟨T.tuples[id], by simp [h3], fun f hf => h4 _ ?_⟩
  simp only [Ty.children, Table.fieldTypes, List.getElem?_eq_getElem h3, List.mem_map]
  exact ⟨f, hf, rfl⟩

theorem FO.part {T : Table} {t : Nat} {pn : Option Name} {pfs : List (Name × Nat)} (h : FO T t)
    (hty : T.types[t]? = some (.part pn pfs)) : ∀ pf ∈ pfs, FO T pf.2 := by
  obtain ⟨ty, h1, _, _, h4⟩ := h.unfold
  rw [hty] at h1; cases h1
  intro pf hpf
  exact h4 _ (by simp only [Ty.children, List.mem_map]; exact ⟨pf, hpf, rfl⟩)

/-- the meaning of a first-order cycle-free type does not depend on the boundary stack -/
theorem inh_stack_irrel {T : Table} :
    ∀ (n : Nat) (t : Nat), foB T n t = true → ∀ (st st' : List Nat) (v : V), inh T st t v → inh T st' t v := by
  intro n
  induction n with
  | zero => intro t h; simp [foB] at h
  | succ n ih =>
    intro t h st st' v hv
    have hfo : FO T t := ⟨n + 1, h⟩
    unfold foB at h
    cases hty : T.types[t]? with
    | none => simp [hty] at h
    | some ty =>
      simp only [hty, Bool.and_eq_true, List.all_eq_true] at h
      obtain ⟨⟨hisfo, _⟩, hch⟩ := h
      cases ty with
      | integer => exact (inh_integer hty).mpr ((inh_integer hty).mp hv)
      | binary => exact (inh_binary hty).mpr ((inh_binary hty).mp hv)
      | reference => exact (inh_reference hty).mpr ((inh_reference hty).mp hv)
      | resource r => exact (inh_resource hty).mpr ((inh_resource hty).mp hv)
      | union ids =>
        obtain ⟨i, hi, hiv⟩ := (inh_union hty).mp hv
        exact (inh_union hty).mpr ⟨i, hi, ih i (hch i (by simpa [Ty.children] using hi)) _ _ v hiv⟩
      | tuple id =>
        obtain ⟨info, hinfo, _⟩ := hfo.tuple hty
        obtain ⟨name, fs, rfl, hname, hf⟩ := (inh_tuple hty hinfo).mp hv
        refine (inh_tuple hty hinfo).mpr ⟨name, fs, rfl, hname, ?_⟩
        refine FieldsRel.imp (fun c hc v hP => ih c (hch c ?_) _ _ v hP) hf
        simpa [Ty.children, Table.fieldTypes, hinfo] using hc
      | part pn pfs =>
        obtain ⟨name, fs, rfl, hname, hf⟩ := (inh_part hty).mp hv
        refine (inh_part hty).mpr ⟨name, fs, rfl, hname, fun pf hpf => ?_⟩
        obtain ⟨q, hq, hql, hqv⟩ := hf pf hpf
        refine ⟨q, hq, hql, ih pf.2 (hch pf.2 ?_) _ _ _ hqv⟩
        simp only [Ty.children, List.mem_map]; exact ⟨pf, hpf, rfl⟩
      | callable _ _ _ => simp [Ty.isFO] at hisfo
      | cycle _ => simp [Ty.isFO] at hisfo
      | process _ _ => simp [Ty.isFO] at hisfo
      | «variable» _ => simp [Ty.isFO] at hisfo

theorem FO.stack_irrel {T : Table} {t : Nat} (h : FO T t) {st st' : List Nat} {v : V}
    (hv : inh T st t v) : inh T st' t v := by
  obtain ⟨n, hn⟩ := h
  exact inh_stack_irrel n t hn st st' v hv

end QM.Types
