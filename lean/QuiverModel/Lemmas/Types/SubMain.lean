import QuiverModel.Lemmas.Types.Sub
/-
The ALL-mode checker and `Sub` agree on first-order types, from every state:

* `checkRel_sub` — a `true` verdict (from assumptions that are `Sub`-valid or pending) is a `Sub` fact;
* `checkRel_comp` — with fuel above the rank sum the checker always answers, and it answers `true`
  on every `Sub` pair, whatever the assumption set and the stacks.
-/
namespace QM.Types

theorem checkRel_sub {T : Table} (hd : PartsDistinct T) (fuel : Nat) (asm : Asm) (st : Stk) (x y : Nat)
    (hx : FO T x) (hy : FO T y) (hasm : ∀ p ∈ asm, Sub T p.1 p.2.1) (asm' : Asm)
    (h : checkRel T .all fuel asm st x y = some (true, asm')) : Sub T x y :=
  (checkRel_good (Rules.sub hd) (childLt_rk T) fuel (rk T x + rk T y + 1) asm st x y hx hy (by omega)
    (fun p hp => Or.inl (hasm p hp)) true asm' h).2 rfl

/-- the check answers, and answers `true` when `P` holds -/
def Comp (res : Res) (P : Prop) : Prop :=
  (∃ r asm', res = some (r, asm')) ∧ (P → ∃ asm', res = some (true, asm'))

theorem Comp.const_true {asm : Asm} {P : Prop} : Comp (some (true, asm)) P :=
  ⟨⟨true, asm, rfl⟩, fun _ => ⟨asm, rfl⟩⟩

theorem Comp.const_false {asm : Asm} {P : Prop} (h : ¬ P) : Comp (some (false, asm)) P :=
  ⟨⟨false, asm, rfl⟩, fun hp => absurd hp h⟩

theorem Comp.imp {res : Res} {P Q : Prop} (h : Comp res Q) (hPQ : P → Q) : Comp res P :=
  ⟨h.1, fun hp => h.2 (hPQ hp)⟩

theorem allS_comp {α : Type} {f : Asm → α → Res} {R : α → Prop} :
    ∀ (l : List α), (∀ x ∈ l, ∀ s, Comp (f s x) (R x)) → ∀ s, Comp (allS f l s) (∀ x ∈ l, R x) := by
  intro l
  induction l with
  | nil => intro _ s; simp only [allS]; exact Comp.const_true
  | cons x xs ih =>
    intro hf s
    have hx := hf x (by simp) s
    have hrest := ih (fun y hy => hf y (by simp [hy]))
    constructor
    · obtain ⟨r, s1, hr⟩ := hx.1
      unfold allS
      rw [hr]
      cases r with
      | false => exact ⟨false, s1, rfl⟩
      | true => exact (hrest s1).1
    · intro hall
      obtain ⟨s1, hr⟩ := hx.2 (hall x (by simp))
      unfold allS
      rw [hr]
      exact (hrest s1).2 (fun y hy => hall y (by simp [hy]))

theorem anyS_comp {α : Type} {f : Asm → α → Res} {R : α → Prop} :
    ∀ (l : List α), (∀ x ∈ l, ∀ s, Comp (f s x) (R x)) → ∀ s, Comp (anyS f l s) (∃ x ∈ l, R x) := by
  intro l
  induction l with
  | nil => intro _ s; simp only [anyS]; exact Comp.const_false (by simp)
  | cons x xs ih =>
    intro hf s
    have hx := hf x (by simp) s
    have hrest := ih (fun y hy => hf y (by simp [hy]))
    obtain ⟨r, s1, hr⟩ := hx.1
    cases r with
    | true =>
      unfold anyS
      rw [hr]
      exact Comp.const_true
    | false =>
      unfold anyS
      rw [hr]
      refine ⟨(hrest s1).1, ?_⟩
      rintro ⟨y, hy, hRy⟩
      rcases List.mem_cons.mp hy with rfl | hy
      · obtain ⟨s2, hr2⟩ := hx.2 hRy
        rw [hr] at hr2
        simp at hr2
      · exact (hrest s1).2 ⟨y, hy, hRy⟩

theorem Comp.restore {inner : Res} {snapshot : Asm} {P : Prop} (h : Comp inner P) :
    Comp (restoreOnFail Variant.current snapshot inner) P := by
  obtain ⟨⟨r, s1, hr⟩, h2⟩ := h
  constructor
  · rw [hr]
    cases r <;> simp [restoreOnFail]
  · intro hp
    obtain ⟨s2, hr2⟩ := h2 hp
    rw [hr2]
    exact ⟨s2, by simp [restoreOnFail]⟩

/-- the recursive call answers (and answers `true` on `Sub` pairs) on every first-order pair with rank
sum below `bound` -/
def RecComp (T : Table) (rec : Rec) (bound : Nat) : Prop :=
  ∀ asm st x y, FO T x → FO T y → rk T x + rk T y < bound → Comp (rec asm st x y) (Sub T x y)

section
variable {T : Table} {rec : Rec} {asm : Asm} {st : Stk} {a b : Nat}
  (ha : FO T a) (hb : FO T b) (hrec : RecComp T rec (rk T a + rk T b))
include ha hb hrec

theorem unionLeft_comp {vs : List Nat} (hta : T.types[a]? = some (.union vs)) :
    Comp (unionLeft Variant.current .all rec asm st a b vs) (Sub T a b) := by
  unfold unionLeft
  obtain ⟨tb, htb, _⟩ := hb.unfold
  refine Comp.restore ((allS_comp (R := fun v => Sub T v b) vs (fun v hv s => ?_) _).imp
    (Sub.union_left_iff hta htb).mp)
  have hlt : rk T v < rk T a := childLt_rk T hta ha v (by simpa [Ty.children] using hv)
  exact hrec s _ v b (ha.union hta v hv) hb (by omega)

theorem unionRight_comp {ta : Ty} {ws : List Nat} (hta : T.types[a]? = some ta)
    (hnu : ta.isUnion = false) (htb : T.types[b]? = some (.union ws)) :
    Comp (unionRight Variant.current rec asm st a b ws) (Sub T a b) := by
  unfold unionRight
  refine Comp.restore ((anyS_comp (R := fun w => Sub T a w) ws (fun w hw s => ?_) _).imp
    (Sub.union_right_iff hta hnu htb).mp)
  have hlt : rk T w < rk T b := childLt_rk T htb hb w (by simpa [Ty.children] using hw)
  exact hrec s _ a w ha (hb.union htb w hw) (by omega)

theorem tupleTuple_comp {i1 i2 : Nat} (hta : T.types[a]? = some (.tuple i1))
    (htb : T.types[b]? = some (.tuple i2)) :
    Comp (tupleTuple Variant.current T .all rec asm st i1 i2) (Sub T a b) := by
  obtain ⟨info1, h1, hf1⟩ := ha.tuple hta
  obtain ⟨info2, h2, hf2⟩ := hb.tuple htb
  unfold tupleTuple
  split
  · exact Comp.const_true
  · simp only [h1, h2]
    split
    · unfold tupleFields
      refine (allS_comp (R := fun p => p.1.1 = p.2.1 ∧ Sub T p.1.2 p.2.2) _ (fun p hp s => ?_) asm).imp
        (fun h => ((Sub.tuple_tuple_iff hta htb h1 h2).mp h).2.2)
      have hp1 : p.1 ∈ info1.fields := (List.of_mem_zip hp).1
      have hp2 : p.2 ∈ info2.fields := (List.of_mem_zip hp).2
      have hlt1 : rk T p.1.2 < rk T a := childLt_rk T hta ha _ (by
        simp only [Ty.children, Table.fieldTypes, h1, List.mem_map]; exact ⟨p.1, hp1, rfl⟩)
      have hlt2 : rk T p.2.2 < rk T b := childLt_rk T htb hb _ (by
        simp only [Ty.children, Table.fieldTypes, h2, List.mem_map]; exact ⟨p.2, hp2, rfl⟩)
      split
      · exact (hrec s st _ _ (hf1 _ hp1) (hf2 _ hp2) (by omega)).imp (fun h => h.2)
      · rename_i hl
        exact Comp.const_false (fun h => hl h.1)
    · rename_i hnl
      exact Comp.const_false (fun h => hnl
        ⟨((Sub.tuple_tuple_iff hta htb h1 h2).mp h).1, ((Sub.tuple_tuple_iff hta htb h1 h2).mp h).2.1⟩)

theorem tuplePart_comp {c : Nat} {pn : Option Name} {pfs : List (Name × Nat)}
    (hta : T.types[a]? = some (.tuple c)) (htb : T.types[b]? = some (.part pn pfs)) :
    Comp (tuplePart T rec asm st c pn pfs) (Sub T a b) := by
  obtain ⟨ci, hc, hfc⟩ := ha.tuple hta
  have hfp := hb.part htb
  unfold tuplePart
  simp only [hc]
  split
  · rename_i hname
    exact Comp.const_false (fun h => ((Sub.tuple_part_iff hta htb hc).mp h).1 hname)
  · unfold tuplePartFields
    refine (allS_comp (R := fun pf => ∃ cf ∈ ci.fields, cf.1 = some pf.1 ∧ Sub T cf.2 pf.2) pfs
      (fun pf hpf s => ?_) asm).imp (fun h => ((Sub.tuple_part_iff hta htb hc).mp h).2)
    refine (anyS_comp (R := fun cf => cf.1 = some pf.1 ∧ Sub T cf.2 pf.2) ci.fields
      (fun cf hcf s' => ?_) s).imp (fun ⟨cf, hcf, h⟩ => ⟨cf, hcf, h⟩)
    have hlt1 : rk T cf.2 < rk T a := childLt_rk T hta ha _ (by
      simp only [Ty.children, Table.fieldTypes, hc, List.mem_map]; exact ⟨cf, hcf, rfl⟩)
    have hlt2 : rk T pf.2 < rk T b := childLt_rk T htb hb _ (by
      simp only [Ty.children, List.mem_map]; exact ⟨pf, hpf, rfl⟩)
    split
    · exact (hrec s' st _ _ (hfc _ hcf) (hfp _ hpf) (by omega)).imp (fun h => h.2)
    · rename_i hl
      exact Comp.const_false (fun h => hl h.1)

theorem partPart_comp {n1 n2 : Option Name} {fs1 fs2 : List (Name × Nat)}
    (hta : T.types[a]? = some (.part n1 fs1)) (htb : T.types[b]? = some (.part n2 fs2)) :
    Comp (partPart Variant.current .all rec asm st n1 fs1 n2 fs2) (Sub T a b) := by
  have hf1 := ha.part hta
  have hf2 := hb.part htb
  unfold partPart
  split
  · rename_i hname
    exact Comp.const_false (fun h => by
      have := ((Sub.part_part_iff hta htb).mp h).1
      rw [this] at hname
      simp at hname)
  · unfold partPartFields
    simp only [Variant.current, Bool.false_eq_true, if_false]
    refine (allS_comp
      (R := fun f2 => ∃ f1, fs1.find? (fun f1 => f1.1 == f2.1) = some f1 ∧ Sub T f1.2 f2.2) fs2
      (fun f2 hf2mem s => ?_) asm).imp (fun h => ((Sub.part_part_iff hta htb).mp h).2)
    split
    · rename_i f1 hfind
      have hmem : f1 ∈ fs1 := List.mem_of_find?_eq_some hfind
      have hlt1 : rk T f1.2 < rk T a := childLt_rk T hta ha _ (by
        simp only [Ty.children, List.mem_map]; exact ⟨f1, hmem, rfl⟩)
      have hlt2 : rk T f2.2 < rk T b := childLt_rk T htb hb _ (by
        simp only [Ty.children, List.mem_map]; exact ⟨f2, hf2mem, rfl⟩)
      refine (hrec s st _ _ (hf1 _ hmem) (hf2 _ hf2mem) (by omega)).imp ?_
      rintro ⟨f1', hfind', h⟩
      rw [hfind] at hfind'
      cases hfind'
      exact h
    · rename_i hfind
      exact Comp.const_false (by
        rintro ⟨f1, hfind', _⟩
        rw [hfind] at hfind'
        cases hfind')

end

/-- no structural arm relates the two shapes -/
theorem Sub.struct_false {T : Table} {a b : Nat} {ta tb : Ty}
    (hta : T.types[a]? = some ta) (hnu : ta.isUnion = false)
    (htb : T.types[b]? = some tb) (hnub : tb.isUnion = false)
    (hfalse : ∀ r, subStruct T r ta tb = false) : ¬ Sub T a b := by
  intro h
  obtain ⟨n, hn⟩ := (Sub.struct_iff hta hnu htb hnub).mp h
  rw [hfalse] at hn
  cases hn

theorem relStep_comp {T : Table} {rec : Rec} {asm : Asm} {st : Stk} {a b : Nat} {ta tb : Ty}
    (ha : FO T a) (hb : FO T b) (hta : T.types[a]? = some ta) (htb : T.types[b]? = some tb)
    (hrec : RecComp T rec (rk T a + rk T b)) :
    Comp (relStep Variant.current T .all rec asm st a b ta tb) (Sub T a b) := by
  obtain ⟨ta', hta', hfa, hoka, hcha⟩ := ha.unfold
  obtain ⟨tb', htb', hfb, hokb, hchb⟩ := hb.unfold
  rw [hta] at hta'; cases hta'
  rw [htb] at htb'; cases htb'
  clear hoka hcha hokb hchb
  have other : ∀ {ta : Ty}, T.types[a]? = some ta → ta.isUnion = false → ta.isFO = true →
      Comp (relStep Variant.current T .all rec asm st a b ta tb) (Sub T a b) := by
    intro ta hta hnu hfa
    cases ta <;> simp only [Ty.isFO, Bool.false_eq_true] at hfa <;>
      cases tb <;> simp only [Ty.isFO, Bool.false_eq_true] at hfb
    all_goals first
      | (simp [Ty.isUnion] at hnu; done)
      | (simp only [relStep]; exact unionRight_comp ha hb hrec hta hnu htb)
      | (simp only [relStep]; exact tupleTuple_comp ha hb hrec hta htb)
      | (simp only [relStep]; exact tuplePart_comp ha hb hrec hta htb)
      | (simp only [relStep]; exact partPart_comp ha hb hrec hta htb)
      | (simp only [relStep]; exact Comp.const_true)
      | (simp only [relStep]
         exact Comp.const_false (Sub.struct_false hta rfl htb rfl (fun r => by simp [subStruct])))
      | (simp only [relStep, partTuple]
         exact Comp.const_false (Sub.struct_false hta rfl htb rfl (fun r => by simp [subStruct])))
      | (-- two resource types
         simp only [relStep]
         rename_i r1 r2
         by_cases hr : r1 = r2
         · simp only [hr, decide_true]; exact Comp.const_true
         · simp only [hr, decide_false]
           exact Comp.const_false (fun h => by
             obtain ⟨n, hn⟩ := (Sub.struct_iff hta rfl htb rfl).mp h
             simp [subStruct, hr] at hn))
  cases hu : ta.isUnion with
  | true =>
    cases ta <;> simp [Ty.isUnion] at hu
    rename_i vs
    cases vs with
    | nil => simp only [relStep]; exact Comp.const_true
    | cons x xs =>
      cases tb <;> simp only [Ty.isFO, Bool.false_eq_true] at hfb
      all_goals (simp only [relStep]; exact unionLeft_comp ha hb hrec hta)
  | false => exact other hta hu hfa

theorem RecComp.mono {T : Table} {rec : Rec} {n m : Nat} (h : RecComp T rec n) (hm : m ≤ n) :
    RecComp T rec m :=
  fun asm st x y hx hy hlt => h asm st x y hx hy (by omega)

/-- **with fuel above the rank sum the ALL-mode check of a first-order pair always answers, and it
answers `true` on every `Sub` pair — from every assumption set and every pair of stacks** -/
theorem checkRel_comp (T : Table) : ∀ (n : Nat), RecComp T (checkRel T .all n) n := by
  intro n
  induction n with
  | zero => intro asm st x y _ _ h; omega
  | succ n ih =>
    intro asm st x y hx hy hlt
    unfold checkRel checkRelV
    split
    · exact Comp.const_true
    · split
      · exact Comp.const_true
      · split
        · rename_i ta tb hta htb
          exact relStep_comp hx hy hta htb (ih.mono (by omega))
        · rename_i hnone
          obtain ⟨ta, hta, _⟩ := hx.unfold
          obtain ⟨tb, htb, _⟩ := hy.unfold
          exact absurd htb (hnone ta tb hta)

end QM.Types
