import QuiverModel.Lemmas.Types.RecShape
/-
Soundness of `checkRel` (mode ALL, the relation as it is now) on RECURSIVE first-order types, stage 1:
a successful run leaves a set of assumptions that is *supported* — every assumption is justified by one
step of the relation whose premises are derivable from the set again (`Der`, `Supp`). Purely syntactic;
the meaning of types enters in stage 2 (`RecSound.lean`).
-/
namespace QM.Types

def Atom (ty : Ty) : Prop :=
  ty = .integer ∨ ty = .binary ∨ ty = .reference ∨ ∃ r, ty = .resource r

/-- `(a, b)` below the stacks `st` is derivable by the ALL-mode arms from the assumptions `A` -/
inductive Der (T : Table) (A : AKey → Prop) : Nat → Nat → Stk → Prop
  | refl {a : Nat} {st : Stk} : st.l = st.r → Der T A a a st
  | hyp {a b : Nat} {st : Stk} : A (a, b, st) → Der T A a b st
  | never_left {a b : Nat} {st : Stk} : T.types[a]? = some (.union []) → Der T A a b st
  | atom {a b : Nat} {st : Stk} {ty : Ty} :
      T.types[a]? = some ty → T.types[b]? = some ty → Atom ty → Der T A a b st
  | cycle_left_dangling {a b : Nat} {st : Stk} {d : Nat} :
      T.types[a]? = some (.cycle d) → resolveCycle st.l d = none → Der T A a b st
  | cycle_left {a b : Nat} {st : Stk} {d sid : Nat} :
      T.types[a]? = some (.cycle d) → resolveCycle st.l d = some sid →
      Der T A sid b { st with l := st.l.drop d } → Der T A a b st
  | cycle_right_dangling {a b : Nat} {st : Stk} {d : Nat} :
      T.types[b]? = some (.cycle d) → resolveCycle st.r d = none → Der T A a b st
  | cycle_right {a b : Nat} {st : Stk} {d sid : Nat} :
      T.types[b]? = some (.cycle d) → resolveCycle st.r d = some sid →
      Der T A a sid { st with r := st.r.drop d } → Der T A a b st
  | union_left {a b : Nat} {st : Stk} {vs : List Nat} :
      T.types[a]? = some (.union vs) → (∀ v ∈ vs, Der T A v b (st.pushL a)) → Der T A a b st
  | union_right {a b : Nat} {st : Stk} {ws : List Nat} (w : Nat) :
      T.types[b]? = some (.union ws) → w ∈ ws → Der T A a w (st.pushR b) → Der T A a b st
  | tuple_same {a b : Nat} {st : Stk} {i : Nat} :
      T.types[a]? = some (.tuple i) → T.types[b]? = some (.tuple i) → st.l = st.r → Der T A a b st
  | tuple_tuple {a b : Nat} {st : Stk} {i1 i2 : Nat} {info1 info2 : TupleInfo} :
      T.types[a]? = some (.tuple i1) → T.types[b]? = some (.tuple i2) →
      T.tuples[i1]? = some info1 → T.tuples[i2]? = some info2 →
      info1.name = info2.name → info1.fields.length = info2.fields.length →
      (∀ p ∈ info1.fields.zip info2.fields, p.1.1 = p.2.1) →
      (∀ p ∈ info1.fields.zip info2.fields, Der T A p.1.2 p.2.2 st) → Der T A a b st
  | tuple_part {a b : Nat} {st : Stk} {c : Nat} {ci : TupleInfo} {pn : Option Name}
      {pfs : List (Name × Nat)} (sel : Name × Nat → Option Name × Nat) :
      T.types[a]? = some (.tuple c) → T.types[b]? = some (.part pn pfs) → T.tuples[c]? = some ci →
      ¬ (pn.isSome ∧ ci.name ≠ pn) →
      (∀ pf ∈ pfs, sel pf ∈ ci.fields ∧ (sel pf).1 = some pf.1) →
      (∀ pf ∈ pfs, Der T A (sel pf).2 pf.2 st) → Der T A a b st
  | part_part {a b : Nat} {st : Stk} {n1 n2 : Option Name} {fs1 fs2 : List (Name × Nat)}
      (sel : Name × Nat → Name × Nat) :
      T.types[a]? = some (.part n1 fs1) → T.types[b]? = some (.part n2 fs2) →
      nameConflict Variant.current .all n1 n2 = false →
      (∀ f2 ∈ fs2, fs1.find? (fun f1 => f1.1 == f2.1) = some (sel f2)) →
      (∀ f2 ∈ fs2, Der T A (sel f2).2 f2.2 st) → Der T A a b st

theorem Der.mono {T : Table} {A A' : AKey → Prop} (hA : ∀ p, A p → A' p) {a b : Nat} {st : Stk}
    (h : Der T A a b st) : Der T A' a b st := by
  induction h with
  | refl h => exact .refl h
  | hyp h => exact .hyp (hA _ h)
  | never_left h => exact .never_left h
  | atom h1 h2 h3 => exact .atom h1 h2 h3
  | cycle_left_dangling h1 h2 => exact .cycle_left_dangling h1 h2
  | cycle_left h1 h2 _ ih => exact .cycle_left h1 h2 ih
  | cycle_right_dangling h1 h2 => exact .cycle_right_dangling h1 h2
  | cycle_right h1 h2 _ ih => exact .cycle_right h1 h2 ih
  | union_left h1 _ ih => exact .union_left h1 ih
  | union_right w h1 h2 _ ih => exact .union_right w h1 h2 ih
  | tuple_same h1 h2 h3 => exact .tuple_same h1 h2 h3
  | tuple_tuple h1 h2 h3 h4 h5 h6 h7 _ ih => exact .tuple_tuple h1 h2 h3 h4 h5 h6 h7 ih
  | tuple_part sel h1 h2 h3 h4 h5 _ ih => exact .tuple_part sel h1 h2 h3 h4 h5 ih
  | part_part sel h1 h2 h3 h4 _ ih => exact .part_part sel h1 h2 h3 h4 ih

/-- the assumption `(a, b, st)` is justified by one step of a union arm -/
def Supp (T : Table) (A : AKey → Prop) (p : AKey) : Prop :=
  (∃ vs, T.types[p.1]? = some (.union vs) ∧ ∀ v ∈ vs, Der T A v p.2.1 (p.2.2.pushL p.1)) ∨
  (∃ ws w, T.types[p.2.1]? = some (.union ws) ∧ w ∈ ws ∧ Der T A p.1 w (p.2.2.pushR p.2.1))

theorem Supp.mono {T : Table} {A A' : AKey → Prop} (hA : ∀ p, A p → A' p) {p : AKey}
    (h : Supp T A p) : Supp T A' p := by
  rcases h with ⟨vs, h1, h2⟩ | ⟨ws, w, h1, h2, h3⟩
  · exact Or.inl ⟨vs, h1, fun v hv => (h2 v hv).mono hA⟩
  · exact Or.inr ⟨ws, w, h1, h2, h3.mono hA⟩

/-- a property of assumption sets that survives growth -/
def MonoP (P : (AKey → Prop) → Prop) : Prop := ∀ A A', (∀ p, A p → A' p) → P A → P A'

/-- what a sub-check guarantees: the set only grows, everything new in it is supported by the NEW set,
and a `true` verdict gives `P` of the new set -/
def GoodS (T : Table) (res : Res) (asm : Asm) (P : (AKey → Prop) → Prop) : Prop :=
  ∀ r asm', res = some (r, asm') →
    (∀ p ∈ asm, p ∈ asm') ∧ (∀ p ∈ asm', p ∈ asm ∨ Supp T (· ∈ asm') p) ∧ (r = true → P (· ∈ asm'))

theorem GoodS.const_true {T : Table} {asm : Asm} {P : (AKey → Prop) → Prop} (hP : P (· ∈ asm)) :
    GoodS T (some (true, asm)) asm P := by
  intro r asm' h
  simp only [Option.some.injEq, Prod.mk.injEq] at h
  obtain ⟨rfl, rfl⟩ := h
  exact ⟨fun _ hp => hp, fun _ hp => Or.inl hp, fun _ => hP⟩

theorem GoodS.const_false {T : Table} {asm : Asm} {P : (AKey → Prop) → Prop} :
    GoodS T (some (false, asm)) asm P := by
  intro r asm' h
  simp only [Option.some.injEq, Prod.mk.injEq] at h
  obtain ⟨rfl, rfl⟩ := h
  exact ⟨fun _ hp => hp, fun _ hp => Or.inl hp, fun h => by simp at h⟩

theorem GoodS.imp {T : Table} {res : Res} {asm : Asm} {P Q : (AKey → Prop) → Prop}
    (h : GoodS T res asm P) (hPQ : ∀ A, P A → Q A) : GoodS T res asm Q :=
  fun r asm' hr => ⟨(h r asm' hr).1, (h r asm' hr).2.1, fun hrt => hPQ _ ((h r asm' hr).2.2 hrt)⟩

/-- two checks in sequence: the facts about the intermediate set are facts about the final one -/
theorem supp_trans {T : Table} {asm asm1 asm2 : Asm}
    (h1 : ∀ p ∈ asm1, p ∈ asm ∨ Supp T (· ∈ asm1) p) (hsub : ∀ p ∈ asm1, p ∈ asm2)
    (h2 : ∀ p ∈ asm2, p ∈ asm1 ∨ Supp T (· ∈ asm2) p) :
    ∀ p ∈ asm2, p ∈ asm ∨ Supp T (· ∈ asm2) p := by
  intro p hp
  rcases h2 p hp with h | h
  · rcases h1 p h with h' | h'
    · exact Or.inl h'
    · exact Or.inr (h'.mono (fun q hq => hsub q hq))
  · exact Or.inr h

theorem allS_goodS {α : Type} (T : Table) {f : Asm → α → Res} {R : α → (AKey → Prop) → Prop}
    (hR : ∀ x, MonoP (R x)) :
    ∀ (l : List α), (∀ x ∈ l, ∀ s, GoodS T (f s x) s (R x)) →
      ∀ s, GoodS T (allS f l s) s (fun A => ∀ x ∈ l, R x A) := by
  intro l
  induction l with
  | nil =>
    intro _ s
    simp only [allS]
    exact GoodS.const_true (fun x hx => by simp at hx)
  | cons x xs ih =>
    intro hf s r asm' h
    unfold allS at h
    cases hfx : f s x with
    | none => simp [hfx] at h
    | some p =>
      obtain ⟨b, s1⟩ := p
      have hx := hf x (by simp) s b s1 hfx
      rw [hfx] at h
      cases b with
      | false =>
        simp only [Option.some.injEq, Prod.mk.injEq] at h
        obtain ⟨rfl, rfl⟩ := h
        exact ⟨hx.1, hx.2.1, fun h => by simp at h⟩
      | true =>
        simp only at h
        have hrest := ih (fun y hy => hf y (by simp [hy])) s1 r asm' h
        refine ⟨fun p hp => hrest.1 p (hx.1 p hp), supp_trans hx.2.1 hrest.1 hrest.2.1, fun hr y hy => ?_⟩
        rcases List.mem_cons.mp hy with rfl | hy
        · exact hR _ _ _ (fun q hq => hrest.1 q hq) (hx.2.2 rfl)
        · exact hrest.2.2 hr y hy

theorem anyS_goodS {α : Type} (T : Table) {f : Asm → α → Res} {R : α → (AKey → Prop) → Prop} :
    ∀ (l : List α), (∀ x ∈ l, ∀ s, GoodS T (f s x) s (R x)) →
      ∀ s, GoodS T (anyS f l s) s (fun A => ∃ x ∈ l, R x A) := by
  intro l
  induction l with
  | nil =>
    intro _ s
    simp only [anyS]
    exact GoodS.const_false
  | cons x xs ih =>
    intro hf s r asm' h
    unfold anyS at h
    cases hfx : f s x with
    | none => simp [hfx] at h
    | some p =>
      obtain ⟨b, s1⟩ := p
      have hx := hf x (by simp) s b s1 hfx
      rw [hfx] at h
      cases b with
      | true =>
        simp only [Option.some.injEq, Prod.mk.injEq] at h
        obtain ⟨rfl, rfl⟩ := h
        exact ⟨hx.1, hx.2.1, fun _ => ⟨x, by simp, hx.2.2 rfl⟩⟩
      | false =>
        simp only at h
        have hrest := ih (fun y hy => hf y (by simp [hy])) s1 r asm' h
        refine ⟨fun p hp => hrest.1 p (hx.1 p hp), supp_trans hx.2.1 hrest.1 hrest.2.1, fun hr => ?_⟩
        obtain ⟨y, hy, hRy⟩ := hrest.2.2 hr
        exact ⟨y, by simp [hy], hRy⟩

/-- a union arm: the key is assumed, the variants are checked, and on success the key is supported -/
theorem GoodS.of_restore {T : Table} {asm : Asm} {k : AKey} {inner : Res} {P : (AKey → Prop) → Prop}
    (h : GoodS T inner (k :: asm) P) (hP : ∀ A, P A → Supp T A k) :
    GoodS T (restoreOnFail Variant.current asm inner) asm (fun A => A k) := by
  intro r asm' hr
  cases hin : inner with
  | none => simp [hin, restoreOnFail] at hr
  | some p =>
    obtain ⟨r0, s0⟩ := p
    have h0 := h r0 s0 hin
    rw [hin] at hr
    cases r0 with
    | true =>
      simp only [restoreOnFail, Option.some.injEq, Prod.mk.injEq] at hr
      obtain ⟨rfl, rfl⟩ := hr
      have hk : k ∈ s0 := h0.1 k (by simp)
      refine ⟨fun p hp => h0.1 p (by simp [hp]), fun p hp => ?_, fun _ => hk⟩
      rcases h0.2.1 p hp with hmem | hs
      · rcases List.mem_cons.mp hmem with rfl | hmem
        · exact Or.inr (hP _ (h0.2.2 rfl))
        · exact Or.inl hmem
      · exact Or.inr hs
    | false =>
      simp only [restoreOnFail, Variant.current, Bool.false_eq_true, if_false, Option.some.injEq,
        Prod.mk.injEq] at hr
      obtain ⟨rfl, rfl⟩ := hr
      exact ⟨fun _ hp => hp, fun _ hp => Or.inl hp, fun h => by simp at h⟩

end QM.Types
