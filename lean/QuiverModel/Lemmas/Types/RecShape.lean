import QuiverModel.Lemmas.Types.ShapeLemmas
/-
Recursive first-order types (`RFO`: first-order plus `Cycle` nodes) and closedness relative to a
list of guard flags (`closedB`): unfolding lemmas, monotonicity in the fuel and in the flags.
-/
namespace QM.Types

theorem RFO.unfold {T : Table} {t : Nat} (h : RFO T t) :
    ∃ ty, T.types[t]? = some ty ∧ ty.isRFO = true ∧ ty.tupleOk T = true ∧ ∀ c ∈ ty.children T, RFO T c := by
  obtain ⟨n, hn⟩ := h
  cases n with
  | zero => simp [rfoB] at hn
  | succ n =>
    unfold rfoB at hn
    cases hty : T.types[t]? with
    | none => simp [hty] at hn
    | some ty =>
      simp only [hty, Bool.and_eq_true, List.all_eq_true] at hn
      exact ⟨ty, rfl, hn.1.1, hn.1.2, fun c hc => ⟨n, hn.2 c hc⟩⟩

theorem RFO.union {T : Table} {t : Nat} {ids : List Nat} (h : RFO T t)
    (hty : T.types[t]? = some (.union ids)) : ∀ i ∈ ids, RFO T i := by
  obtain ⟨ty, h1, _, _, h4⟩ := h.unfold
  rw [hty] at h1; cases h1
  exact h4

theorem RFO.tuple {T : Table} {t id : Nat} (h : RFO T t) (hty : T.types[t]? = some (.tuple id)) :
    ∃ info, T.tuples[id]? = some info ∧ ∀ f ∈ info.fields, RFO T f.2 := by
  obtain ⟨ty, h1, _, h3, h4⟩ := h.unfold
  rw [hty] at h1; cases h1
  simp only [Ty.tupleOk, decide_eq_true_eq] at h3
  refine ⟨T.tuples[id], by simp [h3], fun f hf => h4 _ ?_⟩
  simp only [Ty.children, Table.fieldTypes, List.getElem?_eq_getElem h3, List.mem_map]
  exact ⟨f, hf, rfl⟩

theorem RFO.part {T : Table} {t : Nat} {pn : Option Name} {pfs : List (Name × Nat)} (h : RFO T t)
    (hty : T.types[t]? = some (.part pn pfs)) : ∀ pf ∈ pfs, RFO T pf.2 := by
  obtain ⟨ty, h1, _, _, h4⟩ := h.unfold
  rw [hty] at h1; cases h1
  intro pf hpf
  exact h4 _ (by simp only [Ty.children, List.mem_map]; exact ⟨pf, hpf, rfl⟩)

end QM.Types
