import QuiverModel.Core.Types.Compat
import QuiverModel.Core.Types.Rename
/-
`TypeIndex.build` as "the first entry of each concrete shape", and its behaviour under an embedding
of type tables (`Embeds`): when the larger table has no duplicate entries, the index entry of a key in
the larger table is the image of the index entry of the key in the smaller one.
-/
namespace QM.Types

/-! ### association lists with first-insertion-wins -/

theorem lookupFirst_insertFirst_self {κ : Type} [DecidableEq κ] (k : κ) (v : Nat) (m : List (κ × Nat)) :
    ∃ j, lookupFirst k (insertFirst k v m) = some j := by
  unfold insertFirst
  by_cases h : m.any (fun e => decide (e.1 = k)) = true
  · simp only [h, if_true]
    obtain ⟨e, he, hk⟩ := List.any_eq_true.mp h
    unfold lookupFirst
    cases hf : m.find? (fun e => decide (e.1 = k)) with
    | none =>
      have := List.find?_eq_none.mp hf e he
      simp [hk] at this
    | some e' => exact ⟨e'.2, rfl⟩
  · simp only [h, Bool.false_eq_true, if_false]
    unfold lookupFirst
    cases hf : (m ++ [(k, v)]).find? (fun e => decide (e.1 = k)) with
    | none =>
      have := List.find?_eq_none.mp hf (k, v) (by simp)
      simp at this
    | some e' => exact ⟨e'.2, rfl⟩

/-- a lookup in the extended list: the old answer, or the new entry -/
theorem lookupFirst_insertFirst {κ : Type} [DecidableEq κ] (k k' : κ) (v j : Nat) (m : List (κ × Nat))
    (h : lookupFirst k (insertFirst k' v m) = some j) :
    lookupFirst k m = some j ∨ (k = k' ∧ j = v) := by
  unfold insertFirst at h
  by_cases hany : m.any (fun e => decide (e.1 = k')) = true
  · simp only [hany, if_true] at h; exact Or.inl h
  · simp only [hany, Bool.false_eq_true, if_false] at h
    unfold lookupFirst at h ⊢
    rw [List.find?_append] at h
    cases hf : m.find? (fun e => decide (e.1 = k)) with
    | some e => simp only [hf, Option.some_or] at h; exact Or.inl h
    | none =>
      simp only [hf, Option.none_or] at h
      by_cases hk : k' = k
      · simp [List.find?, hk] at h
        exact Or.inr ⟨hk.symm, h.symm⟩
      · simp [List.find?, hk] at h

/-- an existing answer is kept -/
theorem lookupFirst_insertFirst_mono {κ : Type} [DecidableEq κ] (k k' : κ) (v j : Nat)
    (m : List (κ × Nat)) (h : lookupFirst k m = some j) : lookupFirst k (insertFirst k' v m) = some j := by
  unfold insertFirst
  split
  · exact h
  · unfold lookupFirst at h ⊢
    rw [List.find?_append]
    cases hf : m.find? (fun e => decide (e.1 = k)) with
    | none => simp [hf] at h
    | some e => simp only [hf, Option.some_or]; rw [hf] at h; exact h

/-! ### one component of the index = a fold of `insertFirst` along a key extractor -/

/-- the fold `TypeIndex.buildFrom` performs on one association list -/
def assocFrom {κ : Type} [DecidableEq κ] (keyOf : Ty → Option κ) :
    List (κ × Nat) → Nat → List Ty → List (κ × Nat)
  | m, _, [] => m
  | m, i, ty :: rest =>
    assocFrom keyOf (match keyOf ty with | some k => insertFirst k i m | none => m) (i + 1) rest

/-- every answer of the folded list is an old answer or the index of an entry with that key -/
theorem assocFrom_sound {κ : Type} [DecidableEq κ] (keyOf : Ty → Option κ) :
    ∀ (tys : List Ty) (m : List (κ × Nat)) (i : Nat) (k : κ) (j : Nat),
      lookupFirst k (assocFrom keyOf m i tys) = some j →
      lookupFirst k m = some j ∨ ∃ (n : Nat) (ty : Ty), tys[n]? = some ty ∧ keyOf ty = some k ∧ j = i + n := by
  intro tys
  induction tys with
  | nil => intro m i k j h; exact Or.inl h
  | cons ty rest ih =>
    intro m i k j h
    unfold assocFrom at h
    rcases ih _ (i + 1) k j h with hold | ⟨n, ty', hn, hk, hj⟩
    · cases hkey : keyOf ty with
      | none => simp only [hkey] at hold; exact Or.inl hold
      | some k' =>
        simp only [hkey] at hold
        rcases lookupFirst_insertFirst k k' i j m hold with h1 | ⟨rfl, rfl⟩
        · exact Or.inl h1
        · exact Or.inr ⟨0, ty, by simp, hkey, by omega⟩
    · exact Or.inr ⟨n + 1, ty', by simpa using hn, hk, by omega⟩

/-- an entry with key `k` at position `n` gives the folded list an answer for `k` -/
theorem assocFrom_complete {κ : Type} [DecidableEq κ] (keyOf : Ty → Option κ) :
    ∀ (tys : List Ty) (m : List (κ × Nat)) (i : Nat) (k : κ),
      ((∃ j, lookupFirst k m = some j) ∨ ∃ (n : Nat) (ty : Ty), tys[n]? = some ty ∧ keyOf ty = some k) →
      ∃ j, lookupFirst k (assocFrom keyOf m i tys) = some j := by
  intro tys
  induction tys with
  | nil =>
    intro m i k h
    rcases h with h | ⟨n, ty, hn, _⟩
    · exact h
    · simp at hn
  | cons ty rest ih =>
    intro m i k h
    unfold assocFrom
    apply ih
    rcases h with ⟨j, hj⟩ | ⟨n, ty', hn, hk⟩
    · left
      cases hkey : keyOf ty with
      | none => exact ⟨j, hj⟩
      | some k' => exact ⟨j, lookupFirst_insertFirst_mono k k' i j m hj⟩
    · cases n with
      | zero =>
        simp only [List.getElem?_cons_zero, Option.some.injEq] at hn
        subst hn
        left
        simp only [hk]
        exact lookupFirst_insertFirst_self k i m
      | succ n => right; exact ⟨n, ty', by simpa using hn, hk⟩

/-- the fold on one of the three primitive slots -/
def primFrom (p : Ty → Bool) : Option Nat → Nat → List Ty → Option Nat
  | o, _, [] => o
  | o, i, ty :: rest => primFrom p (if p ty then o.orElse (fun _ => some i) else o) (i + 1) rest

theorem primFrom_sound (p : Ty → Bool) :
    ∀ (tys : List Ty) (o : Option Nat) (i j : Nat), primFrom p o i tys = some j →
      o = some j ∨ ∃ (n : Nat) (ty : Ty), tys[n]? = some ty ∧ p ty = true ∧ j = i + n := by
  intro tys
  induction tys with
  | nil => intro o i j h; exact Or.inl h
  | cons ty rest ih =>
    intro o i j h
    unfold primFrom at h
    rcases ih _ (i + 1) j h with hold | ⟨n, ty', hn, hp, hj⟩
    · by_cases hpt : p ty = true
      · simp only [hpt, if_true] at hold
        cases o with
        | some x => simp at hold; exact Or.inl (by rw [hold])
        | none =>
          simp at hold
          exact Or.inr ⟨0, ty, by simp, hpt, by omega⟩
      · simp only [hpt, Bool.false_eq_true, if_false] at hold; exact Or.inl hold
    · exact Or.inr ⟨n + 1, ty', by simpa using hn, hp, by omega⟩

theorem primFrom_complete (p : Ty → Bool) :
    ∀ (tys : List Ty) (o : Option Nat) (i : Nat),
      (o.isSome ∨ ∃ (n : Nat) (ty : Ty), tys[n]? = some ty ∧ p ty = true) → ∃ j, primFrom p o i tys = some j := by
  intro tys
  induction tys with
  | nil =>
    intro o i h
    rcases h with h | ⟨n, ty, hn, _⟩
    · cases o with
      | none => simp at h
      | some x => exact ⟨x, rfl⟩
    · simp at hn
  | cons ty rest ih =>
    intro o i h
    unfold primFrom
    apply ih
    rcases h with h | ⟨n, ty', hn, hp⟩
    · left
      cases o with
      | none => simp at h
      | some x => split <;> simp
    · cases n with
      | zero =>
        simp only [List.getElem?_cons_zero, Option.some.injEq] at hn
        subst hn
        left
        simp only [hp, if_true]
        cases o <;> simp
      | succ n => right; exact ⟨n, ty', by simpa using hn, hp⟩

end QM.Types

namespace QM.Types

/-! ### the components of `TypeIndex.build` -/

def tupleKey (T : Table) : Ty → Option Nat
  | .tuple tid => if tid < T.tuples.length then some tid else none
  | _ => none

def callKey (T : Table) : Ty → Option (Nat × Nat)
  | .callable p r c => if (T.types[c]?).map isNeverTy = some true then some (p, r) else none
  | _ => none

def procKey : Ty → Option (Option Nat × Option Nat)
  | .process s r => some (s, r)
  | _ => none

def resKey : Ty → Option Name
  | .resource n => some n
  | _ => none

def isIntTy : Ty → Bool | .integer => true | _ => false
def isBinTy : Ty → Bool | .binary => true | _ => false
def isRefTy : Ty → Bool | .reference => true | _ => false

theorem buildFrom_tuple (T : Table) : ∀ (tys : List Ty) (idx : TypeIndex) (i : Nat),
    (TypeIndex.buildFrom T idx i tys).tupleToType = assocFrom (tupleKey T) idx.tupleToType i tys := by
  intro tys
  induction tys with
  | nil => intro idx i; rfl
  | cons ty rest ih =>
    intro idx i
    unfold TypeIndex.buildFrom assocFrom
    rw [ih]
    congr 1
    cases ty <;> simp only [TypeIndex.step, tupleKey] <;> (try split) <;> rfl

theorem buildFrom_callable (T : Table) : ∀ (tys : List Ty) (idx : TypeIndex) (i : Nat),
    (TypeIndex.buildFrom T idx i tys).callableToType = assocFrom (callKey T) idx.callableToType i tys := by
  intro tys
  induction tys with
  | nil => intro idx i; rfl
  | cons ty rest ih =>
    intro idx i
    unfold TypeIndex.buildFrom assocFrom
    rw [ih]
    congr 1
    cases ty <;> simp only [TypeIndex.step, callKey] <;> (try split) <;> rfl

theorem buildFrom_process (T : Table) : ∀ (tys : List Ty) (idx : TypeIndex) (i : Nat),
    (TypeIndex.buildFrom T idx i tys).processToType = assocFrom procKey idx.processToType i tys := by
  intro tys
  induction tys with
  | nil => intro idx i; rfl
  | cons ty rest ih =>
    intro idx i
    unfold TypeIndex.buildFrom assocFrom
    rw [ih]
    congr 1
    cases ty <;> simp only [TypeIndex.step, procKey] <;> (try split) <;> rfl

theorem buildFrom_resource (T : Table) : ∀ (tys : List Ty) (idx : TypeIndex) (i : Nat),
    (TypeIndex.buildFrom T idx i tys).resourceToType = assocFrom resKey idx.resourceToType i tys := by
  intro tys
  induction tys with
  | nil => intro idx i; rfl
  | cons ty rest ih =>
    intro idx i
    unfold TypeIndex.buildFrom assocFrom
    rw [ih]
    congr 1
    cases ty <;> simp only [TypeIndex.step, resKey] <;> (try split) <;> rfl

theorem buildFrom_integer (T : Table) : ∀ (tys : List Ty) (idx : TypeIndex) (i : Nat),
    (TypeIndex.buildFrom T idx i tys).integer = primFrom isIntTy idx.integer i tys := by
  intro tys
  induction tys with
  | nil => intro idx i; rfl
  | cons ty rest ih =>
    intro idx i
    unfold TypeIndex.buildFrom primFrom
    rw [ih]
    congr 1
    cases ty <;> simp [TypeIndex.step, isIntTy] <;> (try split) <;> rfl

theorem buildFrom_binary (T : Table) : ∀ (tys : List Ty) (idx : TypeIndex) (i : Nat),
    (TypeIndex.buildFrom T idx i tys).binary = primFrom isBinTy idx.binary i tys := by
  intro tys
  induction tys with
  | nil => intro idx i; rfl
  | cons ty rest ih =>
    intro idx i
    unfold TypeIndex.buildFrom primFrom
    rw [ih]
    congr 1
    cases ty <;> simp [TypeIndex.step, isBinTy] <;> (try split) <;> rfl

theorem buildFrom_reference (T : Table) : ∀ (tys : List Ty) (idx : TypeIndex) (i : Nat),
    (TypeIndex.buildFrom T idx i tys).reference = primFrom isRefTy idx.reference i tys := by
  intro tys
  induction tys with
  | nil => intro idx i; rfl
  | cons ty rest ih =>
    intro idx i
    unfold TypeIndex.buildFrom primFrom
    rw [ih]
    congr 1
    cases ty <;> simp [TypeIndex.step, isRefTy] <;> (try split) <;> rfl

end QM.Types

namespace QM.Types

/-! ### the index entries: where they point, and that they exist -/

theorem nodup_getElem?_inj {α : Type} : ∀ {l : List α}, l.Nodup → ∀ {i j : Nat} {x : α},
    l[i]? = some x → l[j]? = some x → i = j := by
  intro l
  induction l with
  | nil => intro _ i j x h; simp at h
  | cons y ys ih =>
    intro hnd i j x hi hj
    simp only [List.nodup_cons] at hnd
    cases i with
    | zero =>
      cases j with
      | zero => rfl
      | succ j =>
        simp only [List.getElem?_cons_zero, Option.some.injEq] at hi
        simp only [List.getElem?_cons_succ] at hj
        subst hi
        exact absurd (List.mem_of_getElem? hj) hnd.1
    | succ i =>
      cases j with
      | zero =>
        simp only [List.getElem?_cons_zero, Option.some.injEq] at hj
        simp only [List.getElem?_cons_succ] at hi
        subst hj
        exact absurd (List.mem_of_getElem? hi) hnd.1
      | succ j =>
        simp only [List.getElem?_cons_succ] at hi hj
        rw [ih hnd.2 hi hj]

theorem lookupFirst_nil {κ : Type} [DecidableEq κ] (k : κ) : lookupFirst k ([] : List (κ × Nat)) = none := rfl

/-- an entry of an association component of the index points at an entry with that key… -/
theorem build_assoc_sound {κ : Type} [DecidableEq κ] (keyOf : Ty → Option κ) (T : Table) (k : κ) (j : Nat)
    (h : lookupFirst k (assocFrom keyOf [] 0 T.types) = some j) :
    ∃ ty, T.types[j]? = some ty ∧ keyOf ty = some k := by
  rcases assocFrom_sound keyOf T.types [] 0 k j h with h0 | ⟨n, ty, hn, hk, hj⟩
  · simp [lookupFirst_nil] at h0
  · exact ⟨ty, by rw [hj]; simpa using hn, hk⟩

/-- …and every key that occurs has one -/
theorem build_assoc_complete {κ : Type} [DecidableEq κ] (keyOf : Ty → Option κ) (T : Table) (k : κ)
    (n : Nat) (ty : Ty) (hn : T.types[n]? = some ty) (hk : keyOf ty = some k) :
    ∃ j, lookupFirst k (assocFrom keyOf [] 0 T.types) = some j :=
  assocFrom_complete keyOf T.types [] 0 k (Or.inr ⟨n, ty, hn, hk⟩)

theorem build_prim_sound (p : Ty → Bool) (T : Table) (j : Nat) (h : primFrom p none 0 T.types = some j) :
    ∃ ty, T.types[j]? = some ty ∧ p ty = true := by
  rcases primFrom_sound p T.types none 0 j h with h0 | ⟨n, ty, hn, hp, hj⟩
  · cases h0
  · exact ⟨ty, by rw [hj]; simpa using hn, hp⟩

theorem build_prim_complete (p : Ty → Bool) (T : Table) (n : Nat) (ty : Ty) (hn : T.types[n]? = some ty)
    (hp : p ty = true) : ∃ j, primFrom p none 0 T.types = some j :=
  primFrom_complete p T.types none 0 (Or.inr ⟨n, ty, hn, hp⟩)

/-! ### under an embedding into a duplicate-free table -/

section
variable {ρ τ : Nat → Nat} {T T' : Table} (E : Embeds ρ τ T T') (hnd : T'.types.Nodup)
include E hnd

/-- the generic step: a key `k` of `T` whose entries rename to entries with key `k'` of `T'`, and keys
`k'` of `T'` determine the entry -/
theorem assoc_embeds {κ κ' : Type} [DecidableEq κ] [DecidableEq κ'] (keyOf : Ty → Option κ)
    (keyOf' : Ty → Option κ') (k : κ) (k' : κ')
    (hren : ∀ ty, keyOf ty = some k → keyOf' (ty.rename ρ τ) = some k')
    (huniq : ∀ (i j : Nat) (ty1 ty2 : Ty), T'.types[i]? = some ty1 → T'.types[j]? = some ty2 → keyOf' ty1 = some k' →
      keyOf' ty2 = some k' → i = j)
    (j : Nat) (h : lookupFirst k (assocFrom keyOf [] 0 T.types) = some j) :
    lookupFirst k' (assocFrom keyOf' [] 0 T'.types) = some (ρ j) := by
  obtain ⟨ty, hty, hk⟩ := build_assoc_sound keyOf T k j h
  have hty' : T'.types[ρ j]? = some (ty.rename ρ τ) := by rw [E.types, hty]; rfl
  obtain ⟨j', hj'⟩ := build_assoc_complete keyOf' T' k' (ρ j) _ hty' (hren ty hk)
  obtain ⟨ty', hty'', hk'⟩ := build_assoc_sound keyOf' T' k' j' hj'
  rw [huniq j' (ρ j) ty' _ hty'' hty' hk' (hren ty hk)] at hj'
  exact hj'

theorem tuple_index_embeds (tid j : Nat)
    (h : lookupFirst tid (TypeIndex.build T).tupleToType = some j) :
    lookupFirst (τ tid) (TypeIndex.build T').tupleToType = some (ρ j) := by
  unfold TypeIndex.build at h ⊢
  rw [buildFrom_tuple] at h ⊢
  refine assoc_embeds E hnd (tupleKey T) (tupleKey T') tid (τ tid) ?_ ?_ j h
  · intro ty hk
    cases ty <;> simp only [tupleKey] at hk <;> try cases hk
    rename_i t
    split at hk
    · rename_i hlt
      cases hk
      have : T'.tuples[τ tid]? = (T.tuples[tid]?).map (TupleInfo.rename ρ) := E.tuples tid
      have hlt' : τ tid < T'.tuples.length := by
        rw [List.getElem?_eq_getElem hlt] at this
        exact (List.getElem?_eq_some_iff.mp this).1
      simp [Ty.rename, tupleKey, hlt']
    · cases hk
  · intro i j' ty1 ty2 h1 h2 hk1 hk2
    have e1 : ty1 = .tuple (τ tid) := by
      cases ty1 <;> simp only [tupleKey] at hk1 <;> try cases hk1
      split at hk1 <;> simp_all
    have e2 : ty2 = .tuple (τ tid) := by
      cases ty2 <;> simp only [tupleKey] at hk2 <;> try cases hk2
      split at hk2 <;> simp_all
    subst e1; subst e2
    exact nodup_getElem?_inj hnd h1 h2

theorem process_index_embeds (s r : Option Nat) (j : Nat)
    (h : lookupFirst (s, r) (TypeIndex.build T).processToType = some j) :
    lookupFirst (s.map ρ, r.map ρ) (TypeIndex.build T').processToType = some (ρ j) := by
  unfold TypeIndex.build at h ⊢
  rw [buildFrom_process] at h ⊢
  refine assoc_embeds E hnd procKey procKey (s, r) (s.map ρ, r.map ρ) ?_ ?_ j h
  · intro ty hk
    cases ty <;> simp only [procKey] at hk <;> try cases hk
    simp [Ty.rename, procKey]
  · intro i j' ty1 ty2 h1 h2 hk1 hk2
    have e1 : ty1 = .process (s.map ρ) (r.map ρ) := by
      cases ty1 <;> simp only [procKey] at hk1 <;> try cases hk1
      simp_all
    have e2 : ty2 = .process (s.map ρ) (r.map ρ) := by
      cases ty2 <;> simp only [procKey] at hk2 <;> try cases hk2
      simp_all
    subst e1; subst e2
    exact nodup_getElem?_inj hnd h1 h2

theorem resource_index_embeds (n : Name) (j : Nat)
    (h : lookupFirst n (TypeIndex.build T).resourceToType = some j) :
    lookupFirst n (TypeIndex.build T').resourceToType = some (ρ j) := by
  unfold TypeIndex.build at h ⊢
  rw [buildFrom_resource] at h ⊢
  refine assoc_embeds E hnd resKey resKey n n ?_ ?_ j h
  · intro ty hk
    cases ty <;> simp only [resKey] at hk <;> try cases hk
    simp [Ty.rename, resKey]
  · intro i j' ty1 ty2 h1 h2 hk1 hk2
    have e1 : ty1 = .resource n := by
      cases ty1 <;> simp only [resKey] at hk1 <;> try cases hk1
      simp_all
    have e2 : ty2 = .resource n := by
      cases ty2 <;> simp only [resKey] at hk2 <;> try cases hk2
      simp_all
    subst e1; subst e2
    exact nodup_getElem?_inj hnd h1 h2

omit E hnd in
theorem isNeverTy_rename (ty : Ty) : isNeverTy (ty.rename ρ τ) = isNeverTy ty := by
  cases ty <;> simp only [Ty.rename, isNeverTy]
  rename_i ids
  cases ids <;> simp [isNeverTy]

omit E hnd in
theorem isNeverTy_eq {ty : Ty} (h : isNeverTy ty = true) : ty = .union [] := by
  cases ty <;> simp only [isNeverTy, Bool.false_eq_true] at h
  rename_i ids
  cases ids
  · rfl
  · simp [isNeverTy] at h

theorem callable_index_embeds (p r j : Nat)
    (h : lookupFirst (p, r) (TypeIndex.build T).callableToType = some j) :
    lookupFirst (ρ p, ρ r) (TypeIndex.build T').callableToType = some (ρ j) := by
  unfold TypeIndex.build at h ⊢
  rw [buildFrom_callable] at h ⊢
  refine assoc_embeds E hnd (callKey T) (callKey T') (p, r) (ρ p, ρ r) ?_ ?_ j h
  · intro ty hk
    cases ty <;> simp only [callKey] at hk <;> try cases hk
    rename_i p0 r0 c0
    split at hk
    · rename_i hnever
      cases hk
      have hc : (T'.types[ρ c0]?).map isNeverTy = some true := by
        rw [E.types]
        cases htc : T.types[c0]? with
        | none => simp [htc] at hnever
        | some tc =>
          simp only [htc, Option.map_some, Option.some.injEq] at hnever ⊢
          rw [isNeverTy_rename]; exact hnever
      simp [Ty.rename, callKey, hc]
    · cases hk
  · intro i j' ty1 ty2 h1 h2 hk1 hk2
    -- both are never-receiving callables with the same parameter and result …
    have key : ∀ ty, callKey T' ty = some (ρ p, ρ r) →
        ∃ c, ty = .callable (ρ p) (ρ r) c ∧ T'.types[c]? = some (.union []) := by
      intro ty hk
      cases ty <;> simp only [callKey] at hk <;> try cases hk
      rename_i p0 r0 c0
      split at hk
      · rename_i hnever
        simp only [Option.some.injEq, Prod.mk.injEq] at hk
        obtain ⟨rfl, rfl⟩ := hk
        cases htc : T'.types[c0]? with
        | none => simp [htc] at hnever
        | some tc =>
          simp only [htc, Option.map_some, Option.some.injEq] at hnever
          exact ⟨c0, rfl, by rw [htc, isNeverTy_eq hnever]⟩
      · cases hk
    obtain ⟨c1, rfl, hc1⟩ := key ty1 hk1
    obtain ⟨c2, rfl, hc2⟩ := key ty2 hk2
    -- … and a duplicate-free table has one `never` entry
    have : c1 = c2 := nodup_getElem?_inj hnd hc1 hc2
    subst this
    exact nodup_getElem?_inj hnd h1 h2

/-- the generic step for the three primitive slots -/
theorem prim_embeds (p : Ty → Bool) (prim : Ty) (hp : ∀ ty, p ty = true ↔ ty = prim)
    (hren : prim.rename ρ τ = prim) (j : Nat) (h : primFrom p none 0 T.types = some j) :
    primFrom p none 0 T'.types = some (ρ j) := by
  obtain ⟨ty, hty, hpt⟩ := build_prim_sound p T j h
  rw [(hp ty).mp hpt] at hty
  have hty' : T'.types[ρ j]? = some prim := by rw [E.types, hty]; simp [hren]
  obtain ⟨j', hj'⟩ := build_prim_complete p T' (ρ j) prim hty' ((hp prim).mpr rfl)
  obtain ⟨ty', hty'', hpt'⟩ := build_prim_sound p T' j' hj'
  rw [(hp ty').mp hpt'] at hty''
  rw [nodup_getElem?_inj hnd hty'' hty'] at hj'
  exact hj'

theorem integer_index_embeds (j : Nat) (h : (TypeIndex.build T).integer = some j) :
    (TypeIndex.build T').integer = some (ρ j) := by
  unfold TypeIndex.build at h ⊢
  rw [buildFrom_integer] at h ⊢
  exact prim_embeds E hnd isIntTy .integer (fun ty => by cases ty <;> simp [isIntTy]) rfl j h

theorem binary_index_embeds (j : Nat) (h : (TypeIndex.build T).binary = some j) :
    (TypeIndex.build T').binary = some (ρ j) := by
  unfold TypeIndex.build at h ⊢
  rw [buildFrom_binary] at h ⊢
  exact prim_embeds E hnd isBinTy .binary (fun ty => by cases ty <;> simp [isBinTy]) rfl j h

theorem reference_index_embeds (j : Nat) (h : (TypeIndex.build T).reference = some j) :
    (TypeIndex.build T').reference = some (ρ j) := by
  unfold TypeIndex.build at h ⊢
  rw [buildFrom_reference] at h ⊢
  exact prim_embeds E hnd isRefTy .reference (fun ty => by cases ty <;> simp [isRefTy]) rfl j h

end

end QM.Types
