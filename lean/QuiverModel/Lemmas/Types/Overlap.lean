import QuiverModel.Lemmas.Types.ShapeLemmas
/-
Completeness of `checkRel` in mode ANY (overlap) on first-order cycle-free types: a `false`
verdict means the two types share no well-labelled value. No invariant on the assumption set is
needed (looking an assumption up can only answer `true`), and no ordering of the table.
-/
namespace QM.Types

def Disjoint (T : Table) (a b : Nat) : Prop :=
  ∀ st st' v, v.wf = true → ¬ (inh T st a v ∧ inh T st' b v)

/-! ### well-labelled values -/

theorem labelsDistinct_unique :
    ∀ (fs : List (Option Name × V)), labelsDistinct fs = true →
      ∀ q1 ∈ fs, ∀ q2 ∈ fs, ∀ n, q1.1 = some n → q2.1 = some n → q1 = q2 := by
  intro fs
  induction fs with
  | nil => intro _ q1 h1; simp at h1
  | cons q rest ih =>
    intro h q1 h1 q2 h2 n hn1 hn2
    simp only [labelsDistinct, Bool.and_eq_true] at h
    obtain ⟨hq, hrest⟩ := h
    have hnot : ∀ r ∈ rest, q.1 = some n → r.1 ≠ some n := by
      intro r hr hqn hrn
      rw [hqn] at hq
      simp only [Bool.not_eq_true', List.any_eq_false, decide_eq_true_eq] at hq
      exact hq r hr hrn
    rcases List.mem_cons.mp h1 with e1 | h1' <;> rcases List.mem_cons.mp h2 with e2 | h2'
    · rw [e1, e2]
    · subst e1; exact absurd hn2 (hnot q2 h2' hn1)
    · subst e2; exact absurd hn1 (hnot q1 h1' hn2)
    · exact ih hrest q1 h1' q2 h2' n hn1 hn2

theorem wfAll_mem : (fs : VFields) → fs.wfAll = true → ∀ q ∈ fs.toList, q.2.wf = true
  | .nil, _ => by intro q hq; simp [VFields.toList] at hq
  | .cons l v rest, h => by
    simp only [VFields.wfAll, Bool.and_eq_true] at h
    intro q hq
    simp only [VFields.toList, List.mem_cons] at hq
    rcases hq with rfl | hq
    · exact h.1
    · exact wfAll_mem rest h.2 q hq

theorem V.wf_tup {name : Option Name} {fs : VFields} (h : (V.tup name fs).wf = true) :
    labelsDistinct fs.toList = true ∧ ∀ q ∈ fs.toList, q.2.wf = true := by
  simp only [V.wf, Bool.and_eq_true] at h
  exact ⟨h.1, wfAll_mem fs h.2⟩

/-! ### `false` verdicts of the state-threading loops -/

theorem anyS_false {α : Type} {f : Asm → α → Res} :
    ∀ (l : List α) (s s' : Asm), anyS f l s = some (false, s') →
      ∀ x ∈ l, ∃ s1 s2, f s1 x = some (false, s2) := by
  intro l
  induction l with
  | nil => intro s s' _ x hx; simp at hx
  | cons y ys ih =>
    intro s s' h x hx
    unfold anyS at h
    cases hf : f s y with
    | none => simp [hf] at h
    | some p =>
      obtain ⟨b, s1⟩ := p
      rw [hf] at h
      cases b with
      | true => simp at h
      | false =>
        simp only at h
        rcases List.mem_cons.mp hx with rfl | hx
        · exact ⟨s, s1, hf⟩
        · exact ih s1 s' h x hx

theorem allS_false {α : Type} {f : Asm → α → Res} :
    ∀ (l : List α) (s s' : Asm), allS f l s = some (false, s') →
      ∃ x ∈ l, ∃ s1 s2, f s1 x = some (false, s2) := by
  intro l
  induction l with
  | nil => intro s s' h; simp [allS] at h
  | cons y ys ih =>
    intro s s' h
    unfold allS at h
    cases hf : f s y with
    | none => simp [hf] at h
    | some p =>
      obtain ⟨b, s1⟩ := p
      rw [hf] at h
      cases b with
      | false => exact ⟨y, by simp, s, s1, hf⟩
      | true =>
        simp only at h
        obtain ⟨x, hx, hrest⟩ := ih s1 s' h
        exact ⟨x, by simp [hx], hrest⟩

theorem restoreOnFail_false {vr : Variant} {asm s' : Asm} {inner : Res}
    (h : restoreOnFail vr asm inner = some (false, s')) : ∃ s'', inner = some (false, s'') := by
  cases inner with
  | none => simp [restoreOnFail] at h
  | some p =>
    obtain ⟨b, s1⟩ := p
    cases b with
    | true => simp [restoreOnFail] at h
    | false => exact ⟨s1, rfl⟩

/-- the recursive call only answers `false` on disjoint first-order types -/
def RecBad (T : Table) (rec : Rec) : Prop :=
  ∀ asm st x y asm', rec asm st x y = some (false, asm') → FO T x → FO T y → Disjoint T x y

/-! ### shapes -/

/-- the value constructor a first-order non-union type admits -/
def shapeB : Ty → V → Bool
  | .integer, .int _ => true
  | .binary, .bin _ => true
  | .reference, .ref _ => true
  | .resource r, .res r' => decide (r = r')
  | .tuple _, .tup _ _ => true
  | .part _ _, .tup _ _ => true
  | _, _ => false

theorem inh_shape {T : Table} {st : List Nat} {t : Nat} {ty : Ty} {v : V} (hty : T.types[t]? = some ty)
    (hfo : ty.isFO = true) (hnu : ∀ vs, ty ≠ .union vs) (h : inh T st t v) : shapeB ty v = true := by
  obtain ⟨n, hn⟩ := h
  cases n with
  | zero => simp [inhB] at hn
  | succ n =>
    unfold inhB at hn
    simp only [hty] at hn
    cases ty <;> simp only [Ty.isFO, Bool.false_eq_true] at hfo
    all_goals first
      | exact absurd rfl (hnu _)
      | (cases v <;> simp_all [shapeB])
      | (cases v <;> simp [shapeB] at hn ⊢ <;> (split at hn <;> simp_all))

end QM.Types

namespace QM.Types

theorem FieldsRel.length {P : Nat → V → Prop} {l : List (Option Name × Nat)}
    {fs : List (Option Name × V)} (h : FieldsRel P l fs) : l.length = fs.length := by
  induction h with
  | nil => rfl
  | cons _ _ _ ih => simp [ih]

theorem FieldsRel.of_mem_right {P : Nat → V → Prop} {l : List (Option Name × Nat)}
    {fs : List (Option Name × V)} (h : FieldsRel P l fs) :
    ∀ q ∈ fs, ∃ cf ∈ l, cf.1 = q.1 ∧ P cf.2 q.2 := by
  induction h with
  | nil => intro q hq; simp at hq
  | cons h1 h2 _ ih =>
    intro q hq
    rcases List.mem_cons.mp hq with rfl | hq
    · exact ⟨_, by simp, h1, h2⟩
    · obtain ⟨cf, hcf, hl, hv⟩ := ih q hq
      exact ⟨cf, by simp [hcf], hl, hv⟩

theorem FieldsRel.zip_mem {P Q : Nat → V → Prop} :
    ∀ {l1 l2 : List (Option Name × Nat)} {fs : List (Option Name × V)},
      FieldsRel P l1 fs → FieldsRel Q l2 fs →
      ∀ p ∈ l1.zip l2, ∃ q ∈ fs, p.1.1 = q.1 ∧ P p.1.2 q.2 ∧ p.2.1 = q.1 ∧ Q p.2.2 q.2 := by
  intro l1 l2 fs h1
  induction h1 generalizing l2 with
  | nil => intro _ p hp; simp at hp
  | cons ha hb _ ih =>
    intro h2 p hp
    cases h2 with
    | cons hc hd he =>
      simp only [List.zip_cons_cons, List.mem_cons] at hp
      rcases hp with rfl | hp
      · exact ⟨_, by simp, ha, hb, hc, hd⟩
      · obtain ⟨q, hq, hrest⟩ := ih he p hp
        exact ⟨q, by simp [hq], hrest⟩

section
variable {T : Table} {rec : Rec} (hrec : RecBad T rec) {asm : Asm} {st : Stk} {a b : Nat}
  (ha : FO T a) (hb : FO T b)
include hrec ha hb

theorem unionLeft_bad {vs : List Nat} (hta : T.types[a]? = some (.union vs)) {s' : Asm}
    (h : unionLeft Variant.current .any rec asm st a b vs = some (false, s')) : Disjoint T a b := by
  unfold unionLeft at h
  obtain ⟨s'', hin⟩ := restoreOnFail_false h
  simp only at hin
  have hall := anyS_false vs _ _ hin
  intro st1 st2 v hwf ⟨hav, hbv⟩
  obtain ⟨i, hi, hiv⟩ := (inh_union hta).mp hav
  obtain ⟨s1, s2, hr⟩ := hall i hi
  exact hrec s1 _ i b s2 hr (ha.union hta i hi) hb _ _ v hwf ⟨hiv, hbv⟩

theorem unionRight_bad {vs : List Nat} (htb : T.types[b]? = some (.union vs)) {s' : Asm}
    (h : unionRight Variant.current rec asm st a b vs = some (false, s')) : Disjoint T a b := by
  unfold unionRight at h
  obtain ⟨s'', hin⟩ := restoreOnFail_false h
  have hall := anyS_false vs _ _ hin
  intro st1 st2 v hwf ⟨hav, hbv⟩
  obtain ⟨i, hi, hiv⟩ := (inh_union htb).mp hbv
  obtain ⟨s1, s2, hr⟩ := hall i hi
  exact hrec s1 _ a i s2 hr ha (hb.union htb i hi) _ _ v hwf ⟨hav, hiv⟩

theorem tupleTuple_bad {i1 i2 : Nat} (hta : T.types[a]? = some (.tuple i1))
    (htb : T.types[b]? = some (.tuple i2)) {s' : Asm}
    (h : tupleTuple Variant.current T .any rec asm st i1 i2 = some (false, s')) : Disjoint T a b := by
  obtain ⟨info1, h1, hf1⟩ := ha.tuple hta
  obtain ⟨info2, h2, hf2⟩ := hb.tuple htb
  intro st1 st2 v hwf ⟨hav, hbv⟩
  obtain ⟨name, fs, rfl, hn1, hr1⟩ := (inh_tuple hta h1).mp hav
  obtain ⟨name', fs', hv', hn2, hr2⟩ := (inh_tuple htb h2).mp hbv
  simp only [V.tup.injEq] at hv'
  obtain ⟨rfl, rfl⟩ := hv'
  obtain ⟨_, hwfq⟩ := V.wf_tup hwf
  unfold tupleTuple at h
  split at h
  · simp at h
  · simp only [h1, h2] at h
    split at h
    · unfold tupleFields at h
      obtain ⟨p, hp, s1, s2, hfp⟩ := allS_false _ _ _ h
      obtain ⟨q, hq, hl1, hv1, hl2, hv2⟩ := FieldsRel.zip_mem hr1 hr2 p hp
      split at hfp
      · exact hrec s1 st _ _ s2 hfp (hf1 _ (List.of_mem_zip hp).1) (hf2 _ (List.of_mem_zip hp).2)
          _ _ q.2 (hwfq q hq) ⟨hv1, hv2⟩
      · rename_i hne
        exact hne (hl1.trans hl2.symm)
    · rename_i hne
      exact hne ⟨hn1.symm.trans hn2, by rw [hr1.length, hr2.length]⟩

theorem tuplePart_bad {c : Nat} {pn : Option Name} {pfs : List (Name × Nat)}
    (hta : T.types[a]? = some (.tuple c)) (htb : T.types[b]? = some (.part pn pfs)) {s' : Asm}
    (h : tuplePart T rec asm st c pn pfs = some (false, s')) : Disjoint T a b := by
  obtain ⟨ci, hc, hfc⟩ := ha.tuple hta
  have hfp := hb.part htb
  intro st1 st2 v hwf ⟨hav, hbv⟩
  obtain ⟨name, fs, rfl, hn1, hr1⟩ := (inh_tuple hta hc).mp hav
  obtain ⟨name', fs', hv', hn2, hr2⟩ := (inh_part htb).mp hbv
  simp only [V.tup.injEq] at hv'
  obtain ⟨rfl, rfl⟩ := hv'
  obtain ⟨_, hwfq⟩ := V.wf_tup hwf
  unfold tuplePart at h
  simp only [hc] at h
  split at h
  · rename_i hconf
    rcases hn2 with hpn | hpn
    · rw [hpn] at hconf; simp at hconf
    · exact hconf.2 (hn1 ▸ hpn)
  · unfold tuplePartFields at h
    obtain ⟨pf, hpf, s1, s2, hany⟩ := allS_false _ _ _ h
    obtain ⟨q, hq, hql, hqv⟩ := hr2 pf hpf
    obtain ⟨cf, hcf, hcl, hcv⟩ := hr1.of_mem_right q hq
    obtain ⟨s3, s4, hfc'⟩ := anyS_false _ _ _ hany cf hcf
    split at hfc'
    · exact hrec s3 st _ _ s4 hfc' (hfc _ hcf) (hfp _ hpf) _ _ q.2 (hwfq q hq) ⟨hcv, hqv⟩
    · rename_i hne
      exact hne (hcl.trans hql)

theorem partTuple_bad {c : Nat} {pn : Option Name} {pfs : List (Name × Nat)}
    (hta : T.types[a]? = some (.part pn pfs)) (htb : T.types[b]? = some (.tuple c)) {s' : Asm}
    (h : partTuple Variant.current T .any rec asm st pn pfs c = some (false, s')) : Disjoint T a b := by
  obtain ⟨ci, hc, hfc⟩ := hb.tuple htb
  have hfp := ha.part hta
  intro st1 st2 v hwf ⟨hav, hbv⟩
  obtain ⟨name, fs, rfl, hn1, hr1⟩ := (inh_tuple htb hc).mp hbv
  obtain ⟨name', fs', hv', hn2, hr2⟩ := (inh_part hta).mp hav
  simp only [V.tup.injEq] at hv'
  obtain ⟨rfl, rfl⟩ := hv'
  obtain ⟨_, hwfq⟩ := V.wf_tup hwf
  unfold partTuple at h
  simp only [Variant.current, hc] at h
  split at h
  · rename_i hconf
    rcases hn2 with hpn | hpn
    · rw [hpn] at hconf; simp at hconf
    · exact hconf.2 (hn1 ▸ hpn)
  · unfold partTupleFields at h
    obtain ⟨pf, hpf, s1, s2, hany⟩ := allS_false _ _ _ h
    obtain ⟨q, hq, hql, hqv⟩ := hr2 pf hpf
    obtain ⟨cf, hcf, hcl, hcv⟩ := hr1.of_mem_right q hq
    obtain ⟨s3, s4, hfc'⟩ := anyS_false _ _ _ hany cf hcf
    split at hfc'
    · exact hrec s3 st _ _ s4 hfc' (hfp _ hpf) (hfc _ hcf) _ _ q.2 (hwfq q hq) ⟨hqv, hcv⟩
    · rename_i hne
      exact hne (hcl.trans hql)

theorem partPart_bad {n1 n2 : Option Name} {fs1 fs2 : List (Name × Nat)}
    (hta : T.types[a]? = some (.part n1 fs1)) (htb : T.types[b]? = some (.part n2 fs2)) {s' : Asm}
    (h : partPart Variant.current .any rec asm st n1 fs1 n2 fs2 = some (false, s')) :
    Disjoint T a b := by
  have hf1 := ha.part hta
  have hf2 := hb.part htb
  intro st1 st2 v hwf ⟨hav, hbv⟩
  obtain ⟨name, fs, rfl, hn1, hr1⟩ := (inh_part hta).mp hav
  obtain ⟨name', fs', hv', hn2, hr2⟩ := (inh_part htb).mp hbv
  simp only [V.tup.injEq] at hv'
  obtain ⟨rfl, rfl⟩ := hv'
  obtain ⟨hdist, hwfq⟩ := V.wf_tup hwf
  unfold partPart at h
  split at h
  · rename_i hconf
    simp only [nameConflict, Variant.current, Bool.false_eq_true, if_false, Bool.and_eq_true,
      decide_eq_true_eq] at hconf
    obtain ⟨⟨h1s, h2s⟩, hne⟩ := hconf
    rcases hn1 with h | h
    · rw [h] at h1s; simp at h1s
    · rcases hn2 with h' | h'
      · rw [h'] at h2s; simp at h2s
      · exact hne (h.symm.trans h')
  · unfold partPartFields at h
    simp only [Variant.current, Bool.false_eq_true, if_false] at h
    obtain ⟨f2, hf2m, s1, s2, hm⟩ := allS_false _ _ _ h
    split at hm
    · rename_i f1 hfind
      have hmem : f1 ∈ fs1 := List.mem_of_find?_eq_some hfind
      have hl : f1.1 = f2.1 := by simpa using List.find?_some hfind
      obtain ⟨q1, hq1, hql1, hqv1⟩ := hr1 f1 hmem
      obtain ⟨q2, hq2, hql2, hqv2⟩ := hr2 f2 hf2m
      have : q1 = q2 := labelsDistinct_unique _ hdist q1 hq1 q2 hq2 f1.1 hql1 (hl ▸ hql2)
      subst this
      exact hrec s1 st _ _ s2 hm (hf1 _ hmem) (hf2 _ hf2m) _ _ q1.2 (hwfq q1 hq1) ⟨hqv1, hqv2⟩
    · simp at hm

end

/-- one unfolding: a `false` verdict in overlap mode on a first-order pair means disjoint -/
theorem relStep_bad {T : Table} {rec : Rec} (hrec : RecBad T rec) {asm : Asm} {st : Stk}
    {a b : Nat} {ta tb : Ty} (ha : FO T a) (hb : FO T b) (hta : T.types[a]? = some ta)
    (htb : T.types[b]? = some tb) {s' : Asm}
    (h : relStep Variant.current T .any rec asm st a b ta tb = some (false, s')) : Disjoint T a b := by
  obtain ⟨ta', hta', hfa, _, _⟩ := ha.unfold
  obtain ⟨tb', htb', hfb, _, _⟩ := hb.unfold
  rw [hta] at hta'; cases hta'
  rw [htb] at htb'; cases htb'
  -- two non-union types of different shape share no value
  have shapes : (∀ vs, ta ≠ .union vs) → (∀ vs, tb ≠ .union vs) →
      (∀ v, ¬ (shapeB ta v = true ∧ shapeB tb v = true)) → Disjoint T a b := by
    intro hua hub hsh st1 st2 v _ ⟨hav, hbv⟩
    exact hsh v ⟨inh_shape hta hfa hua hav, inh_shape htb hfb hub hbv⟩
  by_cases hu : ∃ vs, ta = .union vs
  · obtain ⟨vs, rfl⟩ := hu
    cases vs with
    | nil =>
      intro st1 st2 v _ ⟨hav, _⟩
      obtain ⟨i, hi, _⟩ := (inh_union hta).mp hav
      simp at hi
    | cons x xs =>
      cases tb <;> simp only [Ty.isFO, Bool.false_eq_true] at hfb
      all_goals (simp only [relStep] at h; exact unionLeft_bad hrec ha hb hta h)
  · have hua : ∀ vs, ta ≠ .union vs := fun vs h => hu ⟨vs, h⟩
    cases ta <;> simp only [Ty.isFO, Bool.false_eq_true] at hfa <;>
      cases tb <;> simp only [Ty.isFO, Bool.false_eq_true] at hfb
    all_goals first
      | exact absurd rfl (hua _)
      | (simp only [relStep] at h; exact unionRight_bad hrec ha hb htb h)
      | (simp only [relStep] at h; exact tupleTuple_bad hrec ha hb hta htb h)
      | (simp only [relStep] at h; exact tuplePart_bad hrec ha hb hta htb h)
      | (simp only [relStep] at h; exact partTuple_bad hrec ha hb hta htb h)
      | (simp only [relStep] at h; exact partPart_bad hrec ha hb hta htb h)
      | (simp [relStep] at h <;> done)
      | (simp only [relStep, Option.some.injEq, Prod.mk.injEq, decide_eq_false_iff_not] at h
         refine shapes hua (by intro vs h; cases h) ?_
         intro v; cases v <;> simp [shapeB]
         intro h1 h2; exact h.1 (h1.trans h2.symm))
      | (refine shapes hua (by intro vs h; cases h) ?_
         intro v; cases v <;> simp [shapeB] <;> done)

/-- `checkRel` in mode ANY answers `false` only on disjoint first-order types -/
theorem checkRel_any_bad {T : Table} : ∀ (n : Nat), RecBad T (checkRel T .any n) := by
  intro n
  induction n with
  | zero => intro asm st x y asm' h; simp [checkRel, checkRelV] at h
  | succ n ih =>
    intro asm st x y asm' h hx hy
    unfold checkRel checkRelV at h
    split at h
    · simp at h
    · split at h
      · simp at h
      · split at h
        · rename_i ta tb hta htb
          exact relStep_bad ih hx hy hta htb h
        · rename_i hne
          -- one of the ids is missing: impossible for first-order types
          obtain ⟨ta, hta, _⟩ := hx.unfold
          obtain ⟨tb, htb, _⟩ := hy.unfold
          exact absurd htb (hne ta tb hta)

end QM.Types
