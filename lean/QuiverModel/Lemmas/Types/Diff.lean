import QuiverModel.Lemmas.Types.Meet
import QuiverModel.Lemmas.Types.Rank
/-
`complement` (narrowing.rs `compute_complement` / `subtract_one`) never drops a value on first-order
types: a well-labelled value of the original type that is not a value of the narrowed type is a
value of the result, read in the table the function returns. Uses the soundness of assignability
(for the `is_compatible(a, b) ⇒ []` shortcut) and the label comparison of the tuple arm (fix e0ad7de).
-/
namespace QM.Types

/-! ### `contains_cycle` finds nothing in a first-order type -/

theorem anyC_false {f : List Nat → Nat → Option (Bool × List Nat)} :
    ∀ (l seen : List Nat) (r : Bool) (seen' : List Nat),
      (∀ c ∈ l, ∀ s r s', f s c = some (r, s') → r = false) →
      anyC f l seen = some (r, seen') → r = false := by
  intro l
  induction l with
  | nil =>
    intro seen r seen' _ h
    simp only [anyC, Option.some.injEq, Prod.mk.injEq] at h
    exact h.1.symm
  | cons c cs ih =>
    intro seen r seen' hf h
    unfold anyC at h
    cases hc : f seen c with
    | none => simp [hc] at h
    | some p =>
      obtain ⟨rc, s1⟩ := p
      have := hf c (by simp) seen rc s1 hc
      subst this
      simp only [hc] at h
      exact ih s1 r seen' (fun c' hc' => hf c' (by simp [hc'])) h

theorem containsCycleAux_fo (vr : Variant) {T : Table} :
    ∀ (fuel : Nat) (seen : List Nat) (id : Nat) (r : Bool) (seen' : List Nat), FO T id →
      containsCycleAux vr T fuel seen id = some (r, seen') → r = false := by
  intro fuel
  induction fuel with
  | zero => intro seen id r seen' _ h; simp [containsCycleAux] at h
  | succ fuel ih =>
    intro seen id r seen' hfo h
    unfold containsCycleAux at h
    split at h
    · simp only [Option.some.injEq, Prod.mk.injEq] at h; exact h.1.symm
    · obtain ⟨ty, hty, hisfo, _, hch⟩ := hfo.unfold
      simp only [hty] at h
      have children : ∀ (l : List Nat), (∀ c ∈ l, FO T c) → ∀ s r s',
          anyC (containsCycleAux vr T fuel) l s = some (r, s') → r = false :=
        fun l hl s r s' hh => anyC_false l s r s' (fun c hc s0 r0 s0' h0 => ih s0 c r0 s0' (hl c hc) h0) hh
      cases ty <;> simp only [Ty.isFO, Bool.false_eq_true] at hisfo
      · simp only [Option.some.injEq, Prod.mk.injEq] at h; exact h.1.symm
      · simp only [Option.some.injEq, Prod.mk.injEq] at h; exact h.1.symm
      · simp only [Option.some.injEq, Prod.mk.injEq] at h; exact h.1.symm
      · -- tuple
        rename_i tid
        obtain ⟨info, hinfo, hf⟩ := hfo.tuple hty
        simp only [hinfo] at h
        exact children _ (fun c hc => by
          obtain ⟨f, hf', rfl⟩ := List.mem_map.mp hc
          exact hf f hf') _ _ _ h
      · -- partial
        rename_i pn pfs
        exact children _ (fun c hc => by
          obtain ⟨f, hf', rfl⟩ := List.mem_map.mp hc
          exact hfo.part hty f hf') _ _ _ h
      · -- union
        rename_i ids
        exact children _ (hfo.union hty) _ _ _ h
      · simp only [Option.some.injEq, Prod.mk.injEq] at h; exact h.1.symm

theorem cyclicPair_fo (vr : Variant) {T : Table} {a b : Nat} (ha : FO T a) (hb : FO T b) {c : Bool}
    (h : cyclicPair vr T a b = some c) : c = false := by
  unfold cyclicPair containsCycle at h
  cases ha' : containsCycleAux vr T (T.types.length + 2) [] a with
  | none => simp [ha'] at h
  | some pa =>
    obtain ⟨ra, sa⟩ := pa
    have := containsCycleAux_fo vr _ _ _ _ _ ha ha'
    subst this
    simp only [ha', Option.map_some, Bool.false_eq_true, if_false] at h
    cases hb' : containsCycleAux vr T (T.types.length + 2) [] b with
    | none => simp [hb'] at h
    | some pb =>
      obtain ⟨rb, sb⟩ := pb
      have := containsCycleAux_fo vr _ _ _ _ _ hb hb'
      subst this
      simp only [hb', Option.map_some, Option.some.injEq] at h
      exact h.symm

/-! ### one subtraction -/

/-- what `subtract_one` guarantees about its result `(T', out)` for operands `a`, `b` of `T` -/
def DiffOk (T : Table) (a b : Nat) (res : LRes) : Prop :=
  ∀ T' out, res = some (T', out) →
    Table.Sub T T' ∧ (∀ p ∈ out, FO T' p) ∧
      ∀ v, v.wf = true → inh T [] a v → ¬ inh T [] b v → ∃ p ∈ out, inh T' [] p v

/-- the recursive call (`compute_complement`) is good on first-order operands of any table -/
def RecDiff (rec : Table → Nat → Nat → TRes) : Prop :=
  ∀ T a b, FO T a → FO T b → ∀ T' r, rec T a b = some (T', r) →
    Table.Sub T T' ∧ FO T' r ∧ ∀ v, v.wf = true → inh T [] a v → ¬ inh T [] b v → inh T' [] r v

theorem DiffOk.keep {T : Table} {a b : Nat} (ha : FO T a) : DiffOk T a b (some (T, [a])) := by
  intro T' out h
  simp only [Option.some.injEq, Prod.mk.injEq] at h
  obtain ⟨rfl, rfl⟩ := h
  exact ⟨Table.Sub.refl _, fun p hp => by simp at hp; exact hp ▸ ha, fun v _ hav _ => ⟨a, by simp, hav⟩⟩

theorem DiffOk.of_sub {T T0 : Table} {a b : Nat} {res : LRes} (hsub : Table.Sub T T0) (ha : FO T a)
    (hb : FO T b) (h : DiffOk T0 a b res) : DiffOk T a b res := by
  intro T' out hr
  obtain ⟨h1, h2, h3⟩ := h T' out hr
  exact ⟨hsub.trans h1, h2, fun v hwf hav hbv =>
    h3 v hwf ((ha.inh_sub hsub [] [] v).mp hav) (fun hb0 => hbv ((hb.inh_sub hsub [] [] v).mpr hb0))⟩

theorem setFieldType_split (pre : List (Option Name × Nat)) (p : Option Name × Nat)
    (rest : List (Option Name × Nat)) (fc : Nat) :
    setFieldType (pre ++ p :: rest) pre.length fc = pre ++ (p.1, fc) :: rest := by
  unfold setFieldType
  have : (pre ++ p :: rest)[pre.length]? = some p := by simp
  rw [this]
  simp

/-- a value list that fits `pre ++ s` splits accordingly -/
theorem FieldsRel.split {P : Nat → V → Prop} :
    ∀ {pre s : List (Option Name × Nat)} {qs : List (Option Name × V)}, FieldsRel P (pre ++ s) qs →
      ∃ qpre qsuf, qs = qpre ++ qsuf ∧ FieldsRel P pre qpre ∧ FieldsRel P s qsuf := by
  intro pre
  induction pre with
  | nil => intro s qs h; exact ⟨[], qs, rfl, .nil, h⟩
  | cons p rest ih =>
    intro s qs h
    cases h with
    | cons h1 h2 h3 =>
      obtain ⟨qpre, qsuf, rfl, hp, hs⟩ := ih h3
      exact ⟨_ :: qpre, qsuf, rfl, .cons h1 h2 hp, hs⟩

theorem FieldsRel.append {P : Nat → V → Prop} :
    ∀ {pre s : List (Option Name × Nat)} {qpre qsuf : List (Option Name × V)},
      FieldsRel P pre qpre → FieldsRel P s qsuf → FieldsRel P (pre ++ s) (qpre ++ qsuf) := by
  intro pre s qpre qsuf h1 h2
  induction h1 with
  | nil => exact h2
  | cons ha hb _ ih => exact .cons ha hb ih

/-- the field loop of the tuple arm: a value list that fits `fields1` but fails `s2` at or after
position `i` on a field TYPE (labels agree) is in one of the pieces -/
theorem subtractFields_ok {rec : Table → Nat → Nat → TRes} (hrec : RecDiff rec) (never : Nat)
    (name : Option Name) :
    ∀ (s1 s2 pre : List (Option Name × Nat)) (T : Table), s1.length = s2.length →
      labelsDiffer s1 s2 = false →
      (∀ f ∈ pre ++ s1, FO T f.2) → (∀ f ∈ s2, FO T f.2) → T.types[never]? = some (.union []) →
      ∀ T' out, subtractFields rec never name (pre ++ s1) T pre.length (s1.zip s2) = some (T', out) →
        Table.Sub T T' ∧ (∀ p ∈ out, FO T' p) ∧
          ∀ qpre qsuf, (∀ q ∈ qpre ++ qsuf, q.2.wf = true) → FieldsRel (inh T []) pre qpre →
            FieldsRel (inh T []) s1 qsuf → ¬ FieldsRel (inh T []) s2 qsuf →
            ∃ p ∈ out, inh T' [] p (.tup name (VFields.ofList (qpre ++ qsuf))) := by
  intro s1
  induction s1 with
  | nil =>
    intro s2 pre T hlen _ _ _ _ T' out h
    cases s2 with
    | cons _ _ => simp at hlen
    | nil =>
      simp only [List.zip_nil_left, subtractFields, Option.some.injEq, Prod.mk.injEq] at h
      obtain ⟨rfl, rfl⟩ := h
      refine ⟨Table.Sub.refl _, by simp, fun qpre qsuf _ _ h1 h2 => ?_⟩
      cases h1
      exact absurd FieldsRel.nil h2
  | cons p1 r1 ih =>
    intro s2 pre T hlen hlab hf1 hf2 hnever T' out h
    cases s2 with
    | nil => simp at hlen
    | cons p2 r2 =>
      simp only [labelsDiffer, List.zip_cons_cons, List.any_cons, Bool.or_eq_false_iff,
        decide_eq_false_iff_not, ne_eq, Decidable.not_not] at hlab
      obtain ⟨hl12, hlabr⟩ := hlab
      simp only [List.zip_cons_cons] at h
      unfold subtractFields at h
      have hfp1 : FO T p1.2 := hf1 p1 (by simp)
      have hfp2 : FO T p2.2 := hf2 p2 (by simp)
      cases hr : rec T p1.2 p2.2 with
      | none => simp [hr] at h
      | some pr =>
        obtain ⟨T1, fc⟩ := pr
        obtain ⟨hsub1, hfofc, hkeepfc⟩ := hrec T p1.2 p2.2 hfp1 hfp2 T1 fc hr
        simp only [hr] at h
        have hnever1 := hsub1.types _ _ hnever
        -- the rest of the loop runs with `pre ++ [p1]` as prefix
        have hpre : pre ++ p1 :: r1 = (pre ++ [p1]) ++ r1 := by simp
        have hlenpre : pre.length + 1 = (pre ++ [p1]).length := by simp
        -- moving value lists between tables
        have move : ∀ {Ta Tb : Table} (_ : Table.Sub Ta Tb) (l : List (Option Name × Nat)),
            (∀ f ∈ l, FO Ta f.2) → ∀ qs, FieldsRel (inh Ta []) l qs → FieldsRel (inh Tb []) l qs := by
          intro Ta Tb hs l hl qs hq
          exact FieldsRel.imp (fun c hc v hv => by
            obtain ⟨f, hf, rfl⟩ := List.mem_map.mp hc
            exact ((hl f hf).inh_sub hs [] [] v).mp hv) hq
        have moveNot : ∀ {Ta Tb : Table} (_ : Table.Sub Ta Tb) (l : List (Option Name × Nat)),
            (∀ f ∈ l, FO Ta f.2) → ∀ qs, ¬ FieldsRel (inh Ta []) l qs → ¬ FieldsRel (inh Tb []) l qs := by
          intro Ta Tb hs l hl qs hq hq'
          exact hq (FieldsRel.imp (fun c hc v hv => by
            obtain ⟨f, hf, rfl⟩ := List.mem_map.mp hc
            exact ((hl f hf).inh_sub hs [] [] v).mpr hv) hq')
        -- the common continuation: what the rest of the loop gives for a later failing position
        have later : ∀ (Tk : Table) (_ : Table.Sub T1 Tk) (_ : Tk.types[never]? = some (.union [])) T'' out'',
            subtractFields rec never name (pre ++ p1 :: r1) Tk (pre.length + 1) (r1.zip r2) = some (T'', out'') →
            Table.Sub Tk T'' ∧ (∀ p ∈ out'', FO T'' p) ∧
              ∀ qpre q qr, (∀ x ∈ qpre ++ q :: qr, x.2.wf = true) → FieldsRel (inh T []) pre qpre →
                p1.1 = q.1 → inh T [] p1.2 q.2 → FieldsRel (inh T []) r1 qr →
                ¬ FieldsRel (inh T []) r2 qr →
                ∃ p ∈ out'', inh T'' [] p (.tup name (VFields.ofList (qpre ++ q :: qr))) := by
          intro Tk hsubk hneverk T'' out'' hloop
          rw [hpre, hlenpre] at hloop
          have hsubTk := hsub1.trans hsubk
          obtain ⟨hs, hfo, hk⟩ := ih r2 (pre ++ [p1]) Tk (by simpa using hlen) hlabr
            (fun f hf => (hf1 f (by rw [hpre]; exact hf)).sub hsubTk)
            (fun f hf => (hf2 f (by simp [hf])).sub hsubTk) hneverk T'' out'' hloop
          refine ⟨hs, hfo, fun qpre q qr hwf hpreq hlq hvq hr1 hr2 => ?_⟩
          have := hk (qpre ++ [q]) qr (by simpa using hwf)
            (move hsubTk _ (fun f hf => hf1 f (by
              rcases List.mem_append.mp hf with h | h
              · exact List.mem_append.mpr (Or.inl h)
              · simp at h; subst h; simp)) _
              (FieldsRel.append hpreq (.cons hlq hvq .nil)))
            (move hsubTk _ (fun f hf => hf1 f (by simp [hf])) _ hr1)
            (moveNot hsubTk _ (fun f hf => hf2 f (by simp [hf])) _ hr2)
          simpa using this
        split at h
        · -- the field difference is never: no value fails at this position
          rename_i hfcn
          obtain ⟨hs, hfo, hk⟩ := later T1 (Table.Sub.refl _) hnever1 T' out h
          refine ⟨hsub1.trans hs, hfo, fun qpre qsuf hwf hpreq h1 h2 => ?_⟩
          cases h1 with
          | cons ha hb hc =>
            rename_i q qr
            by_cases hq2 : inh T [] p2.2 q.2
            · exact hk qpre q qr hwf hpreq ha hb hc (fun hr2 => h2 (.cons (hl12 ▸ ha) hq2 hr2))
            · have := hkeepfc q.2 (hwf q (by simp)) hb hq2
              rw [hfcn] at this
              exact absurd this (not_inh_never hnever1 _ _)
        · -- a piece for this position
          obtain ⟨hsub2, hget2⟩ := registerTuple_spec T1 name (setFieldType (pre ++ p1 :: r1) pre.length fc)
          obtain ⟨hsub3, hget3⟩ := registerType_spec
            (T1.registerTuple name (setFieldType (pre ++ p1 :: r1) pre.length fc)).1
            (.tuple (T1.registerTuple name (setFieldType (pre ++ p1 :: r1) pre.length fc)).2)
          generalize hTk : ((T1.registerTuple name (setFieldType (pre ++ p1 :: r1) pre.length fc)).1.registerType
            (.tuple (T1.registerTuple name (setFieldType (pre ++ p1 :: r1) pre.length fc)).2)) = reg at h hsub3 hget3
          have hsub1k : Table.Sub T1 reg.1 := hsub2.trans hsub3
          have hneverk := hsub1k.types _ _ hnever1
          cases hloop : subtractFields rec never name (pre ++ p1 :: r1) reg.1 (pre.length + 1) (r1.zip r2) with
          | none => simp [hloop] at h
          | some pr2 =>
            obtain ⟨T3, out3⟩ := pr2
            simp only [hloop, Option.some.injEq, Prod.mk.injEq] at h
            obtain ⟨rfl, rfl⟩ := h
            obtain ⟨hs, hfo, hk⟩ := later reg.1 hsub1k hneverk T3 out3 hloop
            have hsubT3 : Table.Sub T T3 := hsub1.trans (hsub1k.trans hs)
            have hget2'0 := (hsub3.trans hs).tuples _ _ hget2
            have hget3' := hs.types _ _ hget3
            have hget2' : T3.tuples[(T1.registerTuple name (setFieldType (pre ++ p1 :: r1) pre.length fc)).2]? =
                some ⟨name, pre ++ (p1.1, fc) :: r1⟩ := by
              rw [← setFieldType_split pre p1 r1 fc]; exact hget2'0
            -- the piece is first-order in the final table
            have hpiecefo : FO T3 reg.2 := FO.of_tuple hget3' hget2' (fun f hf => by
              rcases List.mem_append.mp hf with h | h
              · exact (hf1 f (List.mem_append.mpr (Or.inl h))).sub hsubT3
              · rcases List.mem_cons.mp h with rfl | h
                · exact hfofc.sub (hsub1k.trans hs)
                · exact (hf1 f (by simp [h])).sub hsubT3)
            refine ⟨hsub1.trans (hsub1k.trans hs), ?_, fun qpre qsuf hwf hpreq h1 h2 => ?_⟩
            · intro p hp
              rcases List.mem_cons.mp hp with rfl | hp
              · exact hpiecefo
              · exact hfo p hp
            · cases h1 with
              | cons ha hb hc =>
                rename_i q qr
                by_cases hq2 : inh T [] p2.2 q.2
                · obtain ⟨p, hp, hpv⟩ := hk qpre q qr hwf hpreq ha hb hc
                    (fun hr2 => h2 (.cons (hl12 ▸ ha) hq2 hr2))
                  exact ⟨p, List.mem_cons_of_mem _ hp, hpv⟩
                · -- the value is in the piece built for this position
                  refine ⟨reg.2, by simp, ?_⟩
                  refine (inh_tuple hget3' hget2').mpr ⟨name, _, rfl, rfl, ?_⟩
                  rw [VFields.toList_ofList]
                  refine FieldsRel.append (move hsubT3 _ (fun f hf => hf1 f (List.mem_append.mpr (Or.inl hf))) _ hpreq) ?_
                  refine .cons ha ?_ (move hsubT3 _ (fun f hf => hf1 f (by simp [hf])) _ hc)
                  exact (hfofc.inh_sub (hsub1k.trans hs) [] [] _).mp (hkeepfc q.2 (hwf q (by simp)) hb hq2)

theorem diffTuple_ok (vr : Variant) (hvr : vr.narrowIgnoresLabels = false)
    {rec : Table → Nat → Nat → TRes} (hrec : RecDiff rec) {T : Table} {a b never id1 id2 : Nat}
    (ha : FO T a) (hb : FO T b) (hta : T.types[a]? = some (.tuple id1))
    (htb : T.types[b]? = some (.tuple id2)) (hnever : T.types[never]? = some (.union [])) :
    DiffOk T a b (diffTuple vr rec T never a id1 id2) := by
  obtain ⟨i1, h1, hf1⟩ := ha.tuple hta
  obtain ⟨i2, h2, hf2⟩ := hb.tuple htb
  unfold diffTuple
  simp only [h1, h2, hvr, Bool.not_false, Bool.true_and]
  split
  · exact DiffOk.keep ha
  · rename_i hok
    split
    · exact DiffOk.keep ha
    · rename_i hlab
      have hlen : i1.fields.length = i2.fields.length := by
        by_cases h : i1.fields.length = i2.fields.length
        · exact h
        · exact absurd (Or.inr h) hok
      have hname : i1.name = i2.name := by
        by_cases h : i1.name = i2.name
        · exact h
        · exact absurd (Or.inl h) hok
      have hlab' : labelsDiffer i1.fields i2.fields = false := by simpa using hlab
      intro T' out h
      obtain ⟨hs, hfo, hk⟩ := subtractFields_ok hrec never i1.name i1.fields i2.fields [] T hlen hlab'
        (by simpa using hf1) hf2 hnever T' out (by simpa using h)
      refine ⟨hs, hfo, fun v hwf hav hbv => ?_⟩
      obtain ⟨name, fs, rfl, hn1, hr1⟩ := (inh_tuple hta h1).mp hav
      have hr2 : ¬ FieldsRel (inh T []) i2.fields fs.toList := fun hr2 =>
        hbv ((inh_tuple htb h2).mpr ⟨name, fs, rfl, hn1.trans hname, hr2⟩)
      obtain ⟨p, hp, hpv⟩ := hk [] fs.toList (by simpa using (V.wf_tup hwf).2) .nil hr1 hr2
      refine ⟨p, hp, ?_⟩
      simpa [VFields.ofList_toList, hn1] using hpv

/-- `subtract_one` is good on first-order operands (current label rule) -/
theorem subtractOne_ok (vr : Variant) (hvr : vr.narrowIgnoresLabels = false) (rf : Nat)
    {rec : Table → Nat → Nat → TRes} (hrec : RecDiff rec) (T : Table) (a b : Nat) (ha : FO T a)
    (hb : FO T b) : DiffOk T a b (subtractOne vr rf rec T a b) := by
  unfold subtractOne
  split
  · -- a = b: nothing of a is outside b
    rename_i hab
    subst hab
    intro T' out h
    simp only [Option.some.injEq, Prod.mk.injEq] at h
    obtain ⟨rfl, rfl⟩ := h
    exact ⟨Table.Sub.refl _, by simp, fun v _ hav hbv => absurd hav hbv⟩
  · obtain ⟨ta, hta, hfa, _, _⟩ := ha.unfold
    obtain ⟨tb, htb, hfb, _, _⟩ := hb.unfold
    simp only [hta, htb]
    have hnc : (isCycleTy ta || isCycleTy tb) = false := by
      cases ta <;> cases tb <;> simp_all [Ty.isFO, isCycleTy]
    simp only [hnc, Bool.false_eq_true, if_false]
    cases hcp : cyclicPair vr T a b with
    | none => intro T' out h; simp at h
    | some cyclic =>
      have := cyclicPair_fo vr ha hb hcp
      subst this
      simp only
      unfold diffShortcut
      simp only [Bool.false_eq_true, if_false]
      cases hic : isCompatible T rf a b with
      | none => intro T' out h; simp at h
      | some c =>
        cases c with
        | true =>
          -- assignable: every value of a is a value of b
          intro T' out h
          simp only [Option.some.injEq, Prod.mk.injEq] at h
          obtain ⟨rfl, rfl⟩ := h
          have hsound : ∀ v, inh T [] a v → inh T [] b v := by
            unfold isCompatible at hic
            cases hc : checkRel T .all rf [] {} a b with
            | none => simp [hc] at hic
            | some p =>
              obtain ⟨r, asm'⟩ := p
              rw [hc] at hic
              simp only [Option.map_some, Option.some.injEq] at hic
              subst hic
              have := checkRel_good_any T rf (rk T a + rk T b + 1) [] {} a b ha hb (by omega)
                (fun p hp => by simp at hp) true asm' hc
              exact fun v hv => this.2 rfl [] [] v hv
          exact ⟨Table.Sub.refl _, by simp, fun v _ hav hbv => absurd (hsound v hav) hbv⟩
        | false =>
          simp only
          cases hov : typesOverlap T rf a b with
          | none => intro T' out h; simp at h
          | some o =>
            cases o with
            | false => exact DiffOk.keep ha
            | true =>
              simp only
              obtain ⟨hsub0, hnever, _, _⟩ := never_spec T
              refine DiffOk.of_sub hsub0 ha hb ?_
              have ha0 := ha.sub hsub0
              have hb0 := hb.sub hsub0
              have hta0 := hsub0.types _ _ hta
              have htb0 := hsub0.types _ _ htb
              cases ta <;> simp only [Ty.isFO, Bool.false_eq_true] at hfa <;>
                cases tb <;> simp only [Ty.isFO, Bool.false_eq_true] at hfb
              all_goals first
                | exact DiffOk.keep ha0
                | exact diffTuple_ok vr hvr hrec ha0 hb0 hta0 htb0 hnever

/-! ### the loops of `compute_complement` -/

section
variable {sub : Table → Nat → Nat → LRes}
  (hsubok : ∀ T a b, FO T a → FO T b → DiffOk T a b (sub T a b))
include hsubok

theorem subtractPieces_ok (nv : Nat) :
    ∀ (pieces : List Nat) (T : Table), (∀ p ∈ pieces, FO T p) → FO T nv →
      ∀ T' out, subtractPieces sub nv T pieces = some (T', out) →
        Table.Sub T T' ∧ (∀ p ∈ out, FO T' p) ∧
          ∀ v, v.wf = true → (∃ p ∈ pieces, inh T [] p v) → ¬ inh T [] nv v →
            ∃ p ∈ out, inh T' [] p v := by
  intro pieces
  induction pieces with
  | nil =>
    intro T _ _ T' out h
    simp only [subtractPieces, Option.some.injEq, Prod.mk.injEq] at h
    obtain ⟨rfl, rfl⟩ := h
    exact ⟨Table.Sub.refl _, by simp, fun v _ hp _ => by obtain ⟨p, hp, _⟩ := hp; simp at hp⟩
  | cons piece rest ih =>
    intro T hps hnv T' out h
    unfold subtractPieces at h
    cases hs : sub T piece nv with
    | none => simp [hs] at h
    | some pr =>
      obtain ⟨T1, out1⟩ := pr
      obtain ⟨hsub1, hfo1, hkeep1⟩ := hsubok T piece nv (hps piece (by simp)) hnv T1 out1 hs
      simp only [hs] at h
      cases hl : subtractPieces sub nv T1 rest with
      | none => simp [hl] at h
      | some pr2 =>
        obtain ⟨T2, out2⟩ := pr2
        obtain ⟨hsub2, hfo2, hkeep2⟩ := ih T1 (fun p hp => (hps p (by simp [hp])).sub hsub1) (hnv.sub hsub1)
          T2 out2 hl
        simp only [hl, Option.some.injEq, Prod.mk.injEq] at h
        obtain ⟨rfl, rfl⟩ := h
        refine ⟨hsub1.trans hsub2, ?_, fun v hwf hp hnvv => ?_⟩
        · intro p hp
          rcases List.mem_append.mp hp with hp | hp
          · exact (hfo1 p hp).sub hsub2
          · exact hfo2 p hp
        · obtain ⟨p, hp, hpv⟩ := hp
          rcases List.mem_cons.mp hp with rfl | hp
          · obtain ⟨q, hq, hqv⟩ := hkeep1 v hwf hpv hnvv
            exact ⟨q, List.mem_append.mpr (Or.inl hq), ((hfo1 q hq).inh_sub hsub2 [] [] v).mp hqv⟩
          · obtain ⟨q, hq, hqv⟩ := hkeep2 v hwf
              ⟨p, hp, ((hps p (by simp [hp])).inh_sub hsub1 [] [] v).mp hpv⟩
              (fun h1 => hnvv ((hnv.inh_sub hsub1 [] [] v).mpr h1))
            exact ⟨q, List.mem_append.mpr (Or.inr hq), hqv⟩

theorem complementLoop_ok :
    ∀ (nvs pieces : List Nat) (T : Table), (∀ p ∈ pieces, FO T p) → (∀ n ∈ nvs, FO T n) →
      ∀ T' out, complementLoop sub T pieces nvs = some (T', out) →
        Table.Sub T T' ∧ (∀ p ∈ out, FO T' p) ∧
          ∀ v, v.wf = true → (∃ p ∈ pieces, inh T [] p v) → (∀ n ∈ nvs, ¬ inh T [] n v) →
            ∃ p ∈ out, inh T' [] p v := by
  intro nvs
  induction nvs with
  | nil =>
    intro pieces T hps _ T' out h
    simp only [complementLoop, Option.some.injEq, Prod.mk.injEq] at h
    obtain ⟨rfl, rfl⟩ := h
    exact ⟨Table.Sub.refl _, hps, fun v _ hp _ => hp⟩
  | cons nv rest ih =>
    intro pieces T hps hns T' out h
    unfold complementLoop at h
    cases hs : subtractPieces sub nv T pieces with
    | none => simp [hs] at h
    | some pr =>
      obtain ⟨T1, next⟩ := pr
      obtain ⟨hsub1, hfo1, hkeep1⟩ := subtractPieces_ok hsubok nv pieces T hps (hns nv (by simp)) T1 next hs
      simp only [hs] at h
      obtain ⟨hsub2, hfo2, hkeep2⟩ := ih next T1 hfo1 (fun n hn => (hns n (by simp [hn])).sub hsub1) T' out h
      refine ⟨hsub1.trans hsub2, hfo2, fun v hwf hp hn => ?_⟩
      exact hkeep2 v hwf (hkeep1 v hwf hp (hn nv (by simp)))
        (fun n hnm h1 => hn n (by simp [hnm]) (((hns n (by simp [hnm])).inh_sub hsub1 [] [] v).mpr h1))

end

/-- **`compute_complement` never drops a value** (first-order operands, any table, any fuels;
variants of the narrowing code that compare field labels) -/
theorem complement_ok (vr : Variant) (hvr : vr.narrowIgnoresLabels = false) (rf : Nat) :
    ∀ (fuel : Nat), RecDiff (complement vr rf fuel) := by
  intro fuel
  induction fuel with
  | zero => intro T a b _ _ T' r h; simp [complement] at h
  | succ fuel ih =>
    intro T a b ha hb T' r h
    unfold complement at h
    obtain ⟨havfo, havsem⟩ := getVariants_sem ha
    obtain ⟨hbvfo, hbvsem⟩ := getVariants_sem hb
    simp only at h
    cases hl : complementLoop (subtractOne vr rf (complement vr rf fuel)) T (getVariants T a)
        (getVariants T b) with
    | none => simp [hl] at h
    | some pr =>
      obtain ⟨T1, out⟩ := pr
      simp only [hl, Option.some.injEq] at h
      obtain ⟨hsub1, hfo1, hkeep1⟩ := complementLoop_ok
        (fun T a b ha hb => subtractOne_ok vr hvr rf ih T a b ha hb)
        (getVariants T b) (getVariants T a) T havfo hbvfo T1 out hl
      obtain ⟨hsub2, hfo2⟩ := unionIds_sub_fo T1 out hfo1
      have hT' : T' = (unionIds T1 out).1 := by rw [h]
      have hr : r = (unionIds T1 out).2 := by rw [h]
      subst hT' hr
      refine ⟨hsub1.trans hsub2, hfo2, fun v hwf hav hbv => ?_⟩
      obtain ⟨p, hp, hpv⟩ := hkeep1 v hwf ((havsem v).mp hav)
        (fun n hn hnv => hbv ((hbvsem v).mpr ⟨n, hn, hnv⟩))
      exact (unionIds_sem T1 out hfo1 v).mpr ⟨p, hp, hpv⟩

end QM.Types
