import QuiverModel.Lemmas.Types.SoundMain
/-
The first-order rank of a type id — the least fuel with which `foB` accepts it — is a measure that
strictly decreases from a first-order type to its children, on ANY table. With it the soundness
proof needs no ordering hypothesis on the table.
-/
namespace QM.Types

theorem exists_least {P : Nat → Prop} : (∃ n, P n) → ∃ m, P m ∧ ∀ k < m, ¬ P k := by
  rintro ⟨n, hn⟩
  induction n using Nat.strongRecOn with
  | _ n ih =>
    by_cases h : ∃ k < n, P k
    · obtain ⟨k, hk, hPk⟩ := h
      exact ih k hk hPk
    · exact ⟨n, hn, fun k hk hPk => h ⟨k, hk, hPk⟩⟩

open Classical in
/-- least `n` with `foB T n t` (0 when `t` is not first-order) -/
noncomputable def rk (T : Table) (t : Nat) : Nat :=
  if h : ∃ n, foB T n t = true then Classical.choose (exists_least h) else 0

theorem rk_spec {T : Table} {t : Nat} (h : FO T t) :
    foB T (rk T t) t = true ∧ ∀ k < rk T t, ¬ foB T k t = true := by
  have h' : ∃ n, foB T n t = true := h
  unfold rk
  simp only [h', dite_true]
  exact Classical.choose_spec (exists_least h')

theorem childLt_rk (T : Table) : ChildLt T (rk T) := by
  intro t ty hty hfo c hc
  obtain ⟨hspec, _⟩ := rk_spec hfo
  cases hn : rk T t with
  | zero => rw [hn] at hspec; simp [foB] at hspec
  | succ m =>
    rw [hn] at hspec
    unfold foB at hspec
    simp only [hty, Bool.and_eq_true, List.all_eq_true] at hspec
    have hc' : foB T m c = true := hspec.2 c hc
    have hfoc : FO T c := ⟨m, hc'⟩
    obtain ⟨_, hmin⟩ := rk_spec hfoc
    by_cases hle : rk T c ≤ m
    · omega
    · exact absurd hc' (hmin m (by omega))

/-- `checkRel` in mode ALL is sound on first-order types of any table -/
theorem checkRel_good_any (T : Table) :
    ∀ (n bound : Nat), RecGood T (Valid T) (rk T) (checkRel T .all n) bound :=
  checkRel_good (Rules.valid T) (childLt_rk T)

end QM.Types
