import QuiverModel.Core.Types.Narrow
import QuiverModel.Lemmas.Types.ShapeLemmas
/-
Registration only appends: every lookup that succeeded still gives the same entry
(`Table.Sub T T'`), first-order types stay first-order with the same meaning, and `unionIds`
denotes the union of its arguments (`union_flatten` — typing.rs `union_type_ids`).
-/
namespace QM.Types

/-- every entry of `T` is an entry of `T'` at the same index -/
structure Table.Sub (T T' : Table) : Prop where
  types : ∀ (t : Nat) (ty : Ty), T.types[t]? = some ty → T'.types[t]? = some ty
  tuples : ∀ (i : Nat) (info : TupleInfo), T.tuples[i]? = some info → T'.tuples[i]? = some info

theorem Table.Sub.refl (T : Table) : Table.Sub T T := ⟨fun _ _ h => h, fun _ _ h => h⟩

theorem Table.Sub.trans {A B C : Table} (h1 : Table.Sub A B) (h2 : Table.Sub B C) : Table.Sub A C :=
  ⟨fun t ty h => h2.types t ty (h1.types t ty h), fun i info h => h2.tuples i info (h1.tuples i info h)⟩

theorem position_some {α : Type} [DecidableEq α] {x : α} :
    ∀ {l : List α} {i : Nat}, position x l = some i → l[i]? = some x := by
  intro l
  induction l with
  | nil => intro i h; simp [position] at h
  | cons y ys ih =>
    intro i h
    unfold position at h
    split at h
    · rename_i heq
      simp only [Option.some.injEq] at h
      subst h
      simp [heq]
    · cases hp : position x ys with
      | none => simp [hp] at h
      | some j =>
        simp only [hp, Option.map_some, Option.some.injEq] at h
        subst h
        simpa using ih hp

theorem registerType_spec (T : Table) (ty : Ty) :
    Table.Sub T (T.registerType ty).1 ∧ (T.registerType ty).1.types[(T.registerType ty).2]? = some ty := by
  unfold Table.registerType
  cases hp : position ty T.types with
  | some i => exact ⟨Table.Sub.refl T, position_some hp⟩
  | none =>
    refine ⟨⟨fun t ty' h => ?_, fun _ _ h => h⟩, by simp⟩
    simp only
    rw [List.getElem?_append_left (List.getElem?_eq_some_iff.mp h).1]
    exact h

section
variable {T T' : Table} (hsub : Table.Sub T T')
include hsub

theorem foB_sub : ∀ (n t : Nat), foB T n t = true → foB T' n t = true := by
  intro n
  induction n with
  | zero => intro t h; simp [foB] at h
  | succ n ih =>
    intro t h
    unfold foB at h ⊢
    cases hty : T.types[t]? with
    | none => simp [hty] at h
    | some ty =>
      simp only [hty, Bool.and_eq_true, List.all_eq_true] at h
      obtain ⟨⟨hfo, hok⟩, hch⟩ := h
      simp only [hsub.types t ty hty, Bool.and_eq_true, List.all_eq_true]
      -- the children of `ty` are the same in both tables (its tuple id resolves in `T`)
      have hchildren : ty.children T' = ty.children T ∧ ty.tupleOk T' = true := by
        by_cases htu : ∃ id, ty = .tuple id
        · obtain ⟨id, rfl⟩ := htu
          simp only [Ty.tupleOk, decide_eq_true_eq] at hok
          have hid : T.tuples[id]? = some T.tuples[id] := by simp [hok]
          have hid' := hsub.tuples id _ hid
          refine ⟨by simp [Ty.children, Table.fieldTypes, hid, hid'], ?_⟩
          simp only [Ty.tupleOk, decide_eq_true_eq]
          exact (List.getElem?_eq_some_iff.mp hid').1
        · cases ty <;> first | exact absurd ⟨_, rfl⟩ htu | exact ⟨rfl, rfl⟩
      refine ⟨⟨hfo, hchildren.2⟩, fun c hc => ih c (hch c (hchildren.1 ▸ hc))⟩

theorem FO.sub {t : Nat} (h : FO T t) : FO T' t := by
  obtain ⟨n, hn⟩ := h
  exact ⟨n, foB_sub hsub n t hn⟩

/-- a first-order type means the same in a larger table -/
theorem inh_sub : ∀ (n t : Nat), foB T n t = true → ∀ (st st' : List Nat) (v : V),
    (inh T st t v ↔ inh T' st' t v) := by
  intro n
  induction n with
  | zero => intro t h; simp [foB] at h
  | succ n ih =>
    intro t h st st' v
    have hfo : FO T t := ⟨n + 1, h⟩
    unfold foB at h
    cases hty : T.types[t]? with
    | none => simp [hty] at h
    | some ty =>
      simp only [hty, Bool.and_eq_true, List.all_eq_true] at h
      obtain ⟨⟨hisfo, _⟩, hch⟩ := h
      have hty' := hsub.types t ty hty
      cases ty with
      | integer => rw [inh_integer hty, inh_integer hty']
      | binary => rw [inh_binary hty, inh_binary hty']
      | reference => rw [inh_reference hty, inh_reference hty']
      | resource r => rw [inh_resource hty, inh_resource hty']
      | union ids =>
        rw [inh_union hty, inh_union hty']
        constructor
        · rintro ⟨i, hi, hv⟩
          exact ⟨i, hi, (ih i (hch i (by simpa [Ty.children] using hi)) _ _ v).mp hv⟩
        · rintro ⟨i, hi, hv⟩
          exact ⟨i, hi, (ih i (hch i (by simpa [Ty.children] using hi)) _ _ v).mpr hv⟩
      | tuple id =>
        obtain ⟨info, hinfo, _⟩ := hfo.tuple hty
        have hinfo' := hsub.tuples id info hinfo
        rw [inh_tuple hty hinfo, inh_tuple hty' hinfo']
        have hc : ∀ c ∈ info.fields.map (·.2), ∀ v, (inh T st c v ↔ inh T' st' c v) := by
          intro c hc v
          exact ih c (hch c (by simpa [Ty.children, Table.fieldTypes, hinfo] using hc)) _ _ v
        constructor
        · rintro ⟨name, fs, rfl, hn, hf⟩
          exact ⟨name, fs, rfl, hn, FieldsRel.imp (fun c hcm v hP => (hc c hcm v).mp hP) hf⟩
        · rintro ⟨name, fs, rfl, hn, hf⟩
          exact ⟨name, fs, rfl, hn, FieldsRel.imp (fun c hcm v hP => (hc c hcm v).mpr hP) hf⟩
      | part pn pfs =>
        rw [inh_part hty, inh_part hty']
        have hc : ∀ pf ∈ pfs, ∀ v, (inh T st pf.2 v ↔ inh T' st' pf.2 v) := by
          intro pf hpf v
          exact ih pf.2 (hch pf.2 (by simp only [Ty.children, List.mem_map]; exact ⟨pf, hpf, rfl⟩)) _ _ v
        constructor
        · rintro ⟨name, fs, rfl, hn, hf⟩
          refine ⟨name, fs, rfl, hn, fun pf hpf => ?_⟩
          obtain ⟨q, hq, hql, hqv⟩ := hf pf hpf
          exact ⟨q, hq, hql, (hc pf hpf _).mp hqv⟩
        · rintro ⟨name, fs, rfl, hn, hf⟩
          refine ⟨name, fs, rfl, hn, fun pf hpf => ?_⟩
          obtain ⟨q, hq, hql, hqv⟩ := hf pf hpf
          exact ⟨q, hq, hql, (hc pf hpf _).mpr hqv⟩
      | callable _ _ _ => simp [Ty.isFO] at hisfo
      | cycle _ => simp [Ty.isFO] at hisfo
      | process _ _ => simp [Ty.isFO] at hisfo
      | «variable» _ => simp [Ty.isFO] at hisfo

theorem FO.inh_sub {t : Nat} (h : FO T t) (st st' : List Nat) (v : V) :
    inh T st t v ↔ inh T' st' t v := by
  obtain ⟨n, hn⟩ := h
  exact QM.Types.inh_sub hsub n t hn st st' v

end

/-! ### `unionIds` -/

theorem mem_dedupKeep : ∀ (l seen : List Nat) (x : Nat), x ∈ dedupKeep seen l ↔ x ∈ l ∧ x ∉ seen := by
  intro l
  induction l with
  | nil => intro seen x; simp [dedupKeep]
  | cons y ys ih =>
    intro seen x
    unfold dedupKeep
    split
    · rename_i hc
      have hy : y ∈ seen := by simpa using hc
      rw [ih]
      constructor
      · rintro ⟨h1, h2⟩; exact ⟨List.mem_cons_of_mem _ h1, h2⟩
      · rintro ⟨h1, h2⟩
        rcases List.mem_cons.mp h1 with rfl | h1
        · exact absurd hy h2
        · exact ⟨h1, h2⟩
    · rename_i hc
      have hy : y ∉ seen := by simpa using hc
      simp only [List.mem_cons, ih]
      constructor
      · rintro (rfl | ⟨h1, h2⟩)
        · exact ⟨Or.inl rfl, hy⟩
        · exact ⟨Or.inr h1, fun h => h2 (Or.inr h)⟩
      · rintro ⟨rfl | h1, h2⟩
        · exact Or.inl rfl
        · by_cases hxy : x = y
          · exact Or.inl hxy
          · exact Or.inr ⟨h1, fun h => by rcases h with h | h; exact hxy h; exact h2 h⟩

/-- flattening one level of unions does not change what the ids denote together -/
theorem flattenIds_sem {T : Table} :
    ∀ (ids : List Nat), (∀ i ∈ ids, FO T i) →
      (∀ j ∈ flattenIds T ids, FO T j) ∧
        ∀ v, (∃ j ∈ flattenIds T ids, inh T [] j v) ↔ ∃ i ∈ ids, inh T [] i v := by
  intro ids
  induction ids with
  | nil => intro _; simp [flattenIds]
  | cons i rest ih =>
    intro hfo
    have hi : FO T i := hfo i (by simp)
    obtain ⟨ihfo, ihsem⟩ := ih (fun j hj => hfo j (by simp [hj]))
    obtain ⟨ty, hty, _⟩ := hi.unfold
    -- the head contributes its variants (a union) or itself
    have head : (∀ j ∈ (match T.types[i]? with | some (.union vs) => vs | _ => [i]), FO T j) ∧
        ∀ v, (∃ j ∈ (match T.types[i]? with | some (.union vs) => vs | _ => [i]), inh T [] j v) ↔
          inh T [] i v := by
      by_cases hu : ∃ vs, ty = .union vs
      · obtain ⟨vs, rfl⟩ := hu
        simp only [hty]
        refine ⟨hi.union hty, fun v => ?_⟩
        rw [inh_union hty]
        constructor
        · rintro ⟨j, hj, hv⟩; exact ⟨j, hj, (hi.union hty j hj).stack_irrel hv⟩
        · rintro ⟨j, hj, hv⟩; exact ⟨j, hj, (hi.union hty j hj).stack_irrel hv⟩
      · have : (match T.types[i]? with | some (.union vs) => vs | _ => [i]) = [i] := by
          rw [hty]
          cases ty <;> first | rfl | exact absurd ⟨_, rfl⟩ hu
        rw [this]
        exact ⟨fun j hj => by simp at hj; exact hj ▸ hi, fun v => by simp⟩
    unfold flattenIds
    refine ⟨fun j hj => ?_, fun v => ?_⟩
    · rcases List.mem_append.mp hj with h | h
      · exact head.1 j h
      · exact ihfo j h
    · constructor
      · rintro ⟨j, hj, hv⟩
        rcases List.mem_append.mp hj with h | h
        · exact ⟨i, by simp, (head.2 v).mp ⟨j, h, hv⟩⟩
        · obtain ⟨k, hk, hkv⟩ := (ihsem v).mp ⟨j, h, hv⟩
          exact ⟨k, by simp [hk], hkv⟩
      · rintro ⟨k, hk, hkv⟩
        rcases List.mem_cons.mp hk with rfl | hk
        · obtain ⟨j, hj, hv⟩ := (head.2 v).mpr hkv
          exact ⟨j, List.mem_append.mpr (Or.inl hj), hv⟩
        · obtain ⟨j, hj, hv⟩ := (ihsem v).mpr ⟨k, hk, hkv⟩
          exact ⟨j, List.mem_append.mpr (Or.inr hj), hv⟩

/-- **`union_type_ids` denotes the union of its arguments** (first-order arguments): the result id,
read in the table the function returns, has exactly the values of the arguments. -/
theorem unionIds_sem (T : Table) (ids : List Nat) (hfo : ∀ i ∈ ids, FO T i) (v : V) :
    inh (unionIds T ids).1 [] (unionIds T ids).2 v ↔ ∃ i ∈ ids, inh T [] i v := by
  obtain ⟨hflatfo, hflat⟩ := flattenIds_sem ids hfo
  have hdedup : ∀ x, x ∈ dedupKeep [] (flattenIds T ids) ↔ x ∈ flattenIds T ids := by
    intro x; rw [mem_dedupKeep]; simp
  rw [← hflat v]
  unfold unionIds
  -- a union node registered for the list `u` denotes the union of `u`
  have reg : ∀ (u : List Nat), (∀ x, x ∈ u ↔ x ∈ flattenIds T ids) →
      (inh (T.registerType (.union u)).1 [] (T.registerType (.union u)).2 v ↔
        ∃ j ∈ flattenIds T ids, inh T [] j v) := by
    intro u hu
    obtain ⟨hsub, hget⟩ := registerType_spec T (.union u)
    rw [inh_union hget]
    constructor
    · rintro ⟨j, hj, hv⟩
      have hjf := (hu j).mp hj
      exact ⟨j, hjf, ((hflatfo j hjf).inh_sub hsub [] _ v).mpr hv⟩
    · rintro ⟨j, hj, hv⟩
      exact ⟨j, (hu j).mpr hj, ((hflatfo j hj).inh_sub hsub [] _ v).mp hv⟩
  cases hd : dedupKeep [] (flattenIds T ids) with
  | nil =>
    simp only
    rw [hd] at hdedup
    have := reg [] (fun x => hdedup x)
    exact this
  | cons x rest =>
    cases rest with
    | nil =>
      simp only
      rw [hd] at hdedup
      constructor
      · intro hv; exact ⟨x, (hdedup x).mp (by simp), hv⟩
      · rintro ⟨j, hj, hv⟩
        have : j = x := by simpa using (hdedup j).mpr hj
        exact this ▸ hv
    | cons y rest' =>
      simp only
      rw [hd] at hdedup
      exact reg (x :: y :: rest') (fun z => hdedup z)

end QM.Types
