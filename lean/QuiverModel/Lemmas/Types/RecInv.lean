import QuiverModel.Lemmas.Types.RecShape
/-
Invariants of stage 2 of the recursive soundness proof:

* `Chain t st` — `t` sits below a strictly increasing stack (an ordered table: children have smaller ids);
  then `pushStack st t = t :: st`, so the checker's stacks are the stacks `inhB` keeps;
* guard flags (`closedB`): closedness relative to flags, monotone in the flags; frames (`FramesOK`):
  every stack entry with the flags it was entered under, so that closedness can be re-established after
  a `Cycle` is resolved; `countTrue` of the flags strictly drops along such a jump;
* `inhB` one unfolding at the level of the fuel.
-/
namespace QM.Types

/-! ### sorted stacks -/

def Chain : Nat → List Nat → Prop
  | _, [] => True
  | t, x :: xs => t < x ∧ Chain x xs

theorem Chain.lt_all : ∀ {st : List Nat} {t : Nat}, Chain t st → ∀ x ∈ st, t < x := by
  intro st
  induction st with
  | nil => intro t _ x hx; simp at hx
  | cons y ys ih =>
    intro t h x hx
    rcases List.mem_cons.mp hx with rfl | hx
    · exact h.1
    · exact Nat.lt_trans h.1 (ih h.2 x hx)

theorem Chain.child {st : List Nat} {t c : Nat} (h : Chain t st) (hc : c < t) : Chain c st := by
  cases st with
  | nil => trivial
  | cons y ys => exact ⟨Nat.lt_trans hc h.1, h.2⟩

theorem Chain.push {st : List Nat} {t c : Nat} (h : Chain t st) (hc : c < t) : Chain c (t :: st) :=
  ⟨hc, h⟩

theorem pushStack_chain {st : List Nat} {t : Nat} (h : Chain t st) : pushStack st t = t :: st := by
  unfold pushStack
  have hnm : ¬ t ∈ st := fun hm => by
    have := h.lt_all t hm
    omega
  simp [hnm]

/-- a sorted stack below its `k`-th entry -/
theorem Chain.drop : ∀ {st : List Nat} {t : Nat} (k : Nat) {sid : Nat}, Chain t st →
    st[k]? = some sid → Chain sid (st.drop (k + 1)) := by
  intro st
  induction st with
  | nil => intro t k sid _ h; simp at h
  | cons y ys ih =>
    intro t k sid h hk
    cases k with
    | zero =>
      simp only [List.getElem?_cons_zero, Option.some.injEq] at hk
      subst hk
      simpa using h.2
    | succ k =>
      simp only [List.getElem?_cons_succ] at hk
      simpa using ih k h.2 hk

theorem Chain.resolve {st : List Nat} {t d sid : Nat} (h : Chain t st)
    (hr : resolveCycle st d = some sid) : Chain sid (st.drop d) := by
  unfold resolveCycle at hr
  split at hr
  · cases hr
  · rename_i hd
    have := h.drop (d - 1) hr
    rwa [show d - 1 + 1 = d by omega] at this

/-! ### guard flags -/

def ClosedAt (T : Table) (gs : List Bool) (t : Nat) : Prop := ∃ n, closedB T n gs t = true

/-- `gs'` has every flag `gs` has -/
def FlagsLe (gs gs' : List Bool) : Prop :=
  gs.length = gs'.length ∧ ∀ k : Nat, gs[k]?.getD false = true → gs'[k]?.getD false = true

theorem FlagsLe.refl (gs : List Bool) : FlagsLe gs gs := ⟨rfl, fun _ h => h⟩

theorem FlagsLe.trans {a b c : List Bool} (h1 : FlagsLe a b) (h2 : FlagsLe b c) : FlagsLe a c :=
  ⟨h1.1.trans h2.1, fun k h => h2.2 k (h1.2 k h)⟩

theorem FlagsLe.cons {gs gs' : List Bool} (f : Bool) (h : FlagsLe gs gs') : FlagsLe (f :: gs) (f :: gs') := by
  refine ⟨by simp [h.1], fun k hk => ?_⟩
  cases k with
  | zero => simpa using hk
  | succ k => simpa using h.2 k (by simpa using hk)

theorem FlagsLe.allTrue (gs : List Bool) : FlagsLe gs (gs.map (fun _ => true)) := by
  refine ⟨by simp, fun k hk => ?_⟩
  have hlt : k < gs.length := by
    by_cases h : k < gs.length
    · exact h
    · simp [List.getElem?_eq_none (Nat.le_of_not_lt h)] at hk
  simp [hlt]

theorem FlagsLe.map_true {gs gs' : List Bool} (h : FlagsLe gs gs') :
    gs.map (fun _ => true) = gs'.map (fun _ => true) := by
  apply List.ext_getElem
  · simp [h.1]
  · intro i h1 h2; simp

theorem FlagsLe.drop {gs gs' : List Bool} (h : FlagsLe gs gs') (j : Nat) :
    FlagsLe (gs.drop j) (gs'.drop j) := by
  refine ⟨by simp [h.1], fun k hk => ?_⟩
  simp only [List.getElem?_drop] at hk ⊢
  exact h.2 _ hk

theorem closedB_flags {T : Table} : ∀ (n : Nat) (gs gs' : List Bool) (t : Nat), FlagsLe gs gs' →
    closedB T n gs t = true → closedB T n gs' t = true := by
  intro n
  induction n with
  | zero => intro gs gs' t _ h; simp [closedB] at h
  | succ n ih =>
    intro gs gs' t hle h
    unfold closedB at h ⊢
    cases hty : T.types[t]? with
    | none => simp [hty] at h
    | some ty =>
      simp only [hty] at h ⊢
      cases ty with
      | integer => rfl
      | binary => rfl
      | reference => rfl
      | resource _ => rfl
      | «variable» _ => simp at h
      | cycle d =>
        simp only [Bool.and_eq_true, decide_eq_true_eq] at h ⊢
        exact ⟨h.1, hle.2 _ h.2⟩
      | union ids =>
        simp only [List.all_eq_true] at h ⊢
        exact fun i hi => ih _ _ i (hle.cons false) (h i hi)
      | tuple id =>
        cases hinfo : T.tuples[id]? with
        | none => simp [hinfo] at h
        | some info =>
          simp only [hinfo, List.all_eq_true] at h ⊢
          rw [← hle.map_true]
          exact h
      | part pn fs =>
        simp only [List.all_eq_true] at h ⊢
        rw [← hle.map_true]
        exact h
      | callable p r c =>
        simp only [Bool.and_eq_true] at h ⊢
        rw [← hle.map_true]
        exact h
      | process s r =>
        cases s <;> cases r <;> simp only [Bool.false_eq_true] at h ⊢
        simp only [Bool.and_eq_true] at h ⊢
        rw [← hle.map_true]
        exact h

theorem ClosedAt.flags {T : Table} {gs gs' : List Bool} {t : Nat} (h : ClosedAt T gs t)
    (hle : FlagsLe gs gs') : ClosedAt T gs' t := by
  obtain ⟨n, hn⟩ := h
  exact ⟨n, closedB_flags n gs gs' t hle hn⟩

theorem ClosedAt.in_table {T : Table} {gs : List Bool} {t : Nat} (h : ClosedAt T gs t) :
    ∃ ty, T.types[t]? = some ty := by
  obtain ⟨n, hn⟩ := h
  cases n with
  | zero => simp [closedB] at hn
  | succ n =>
    unfold closedB at hn
    cases hty : T.types[t]? with
    | none => simp [hty] at hn
    | some ty => exact ⟨ty, rfl⟩

theorem ClosedAt.union {T : Table} {gs : List Bool} {t : Nat} {ids : List Nat} (h : ClosedAt T gs t)
    (hty : T.types[t]? = some (.union ids)) : ∀ i ∈ ids, ClosedAt T (false :: gs) i := by
  obtain ⟨n, hn⟩ := h
  cases n with
  | zero => simp [closedB] at hn
  | succ n =>
    unfold closedB at hn
    simp only [hty, List.all_eq_true] at hn
    exact fun i hi => ⟨n, hn i hi⟩

theorem ClosedAt.tuple {T : Table} {gs : List Bool} {t id : Nat} (h : ClosedAt T gs t)
    (hty : T.types[t]? = some (.tuple id)) :
    ∃ info, T.tuples[id]? = some info ∧ ∀ f ∈ info.fields, ClosedAt T (gs.map (fun _ => true)) f.2 := by
  obtain ⟨n, hn⟩ := h
  cases n with
  | zero => simp [closedB] at hn
  | succ n =>
    unfold closedB at hn
    simp only [hty] at hn
    cases hinfo : T.tuples[id]? with
    | none => simp [hinfo] at hn
    | some info =>
      simp only [hinfo, List.all_eq_true] at hn
      exact ⟨info, rfl, fun f hf => ⟨n, hn f hf⟩⟩

theorem ClosedAt.part {T : Table} {gs : List Bool} {t : Nat} {pn : Option Name} {pfs : List (Name × Nat)}
    (h : ClosedAt T gs t) (hty : T.types[t]? = some (.part pn pfs)) :
    ∀ pf ∈ pfs, ClosedAt T (gs.map (fun _ => true)) pf.2 := by
  obtain ⟨n, hn⟩ := h
  cases n with
  | zero => simp [closedB] at hn
  | succ n =>
    unfold closedB at hn
    simp only [hty, List.all_eq_true] at hn
    exact fun pf hpf => ⟨n, hn pf hpf⟩

theorem ClosedAt.cycle {T : Table} {gs : List Bool} {t d : Nat} (h : ClosedAt T gs t)
    (hty : T.types[t]? = some (.cycle d)) : d ≠ 0 ∧ gs[d - 1]?.getD false = true := by
  obtain ⟨n, hn⟩ := h
  cases n with
  | zero => simp [closedB] at hn
  | succ n =>
    unfold closedB at hn
    simp only [hty, Bool.and_eq_true, decide_eq_true_eq] at hn
    exact hn

/-! ### counting the flags that are set -/

def countTrue : List Bool → Nat
  | [] => 0
  | true :: gs => countTrue gs + 1
  | false :: gs => countTrue gs

theorem countTrue_le : ∀ {gs gs' : List Bool}, FlagsLe gs gs' → countTrue gs ≤ countTrue gs' := by
  intro gs
  induction gs with
  | nil => intro gs' h; cases gs' with
    | nil => exact Nat.le_refl _
    | cons _ _ => simp [FlagsLe] at h
  | cons f fs ih =>
    intro gs' h
    cases gs' with
    | nil => simp [FlagsLe] at h
    | cons f' fs' =>
      have htail : FlagsLe fs fs' := by
        refine ⟨by simpa using h.1, fun k hk => ?_⟩
        simpa using h.2 (k + 1) (by simpa using hk)
      have := ih htail
      cases f with
      | false => cases f' <;> simp only [countTrue] <;> omega
      | true =>
        have : f' = true := by simpa using h.2 0 (by simp)
        subst this
        simp only [countTrue]; omega

/-- a set flag at position `k` is counted on top of everything below it -/
theorem countTrue_drop : ∀ (gs : List Bool) (k : Nat), gs[k]?.getD false = true →
    countTrue (gs.drop (k + 1)) + 1 ≤ countTrue gs := by
  intro gs
  induction gs with
  | nil => intro k h; simp at h
  | cons f fs ih =>
    intro k h
    cases k with
    | zero =>
      have : f = true := by simpa using h
      subst this
      simp [countTrue]
    | succ k =>
      have := ih k (by simpa using h)
      cases f <;> simp only [List.drop_succ_cons, countTrue] <;> omega

/-! ### frames: every stack entry with the flags it was entered under -/

abbrev Frame := Nat × List Bool

def FramesOK (T : Table) : List Frame → List Bool → Prop
  | [], [] => True
  | fr :: rest, _ :: gs => ClosedAt T fr.2 fr.1 ∧ FlagsLe fr.2 gs ∧ FramesOK T rest fr.2
  | _, _ => False

theorem FramesOK.length {T : Table} : ∀ {fr : List Frame} {gs : List Bool}, FramesOK T fr gs →
    gs.length = fr.length := by
  intro fr
  induction fr with
  | nil => intro gs h; cases gs with
    | nil => rfl
    | cons _ _ => exact absurd h (by simp [FramesOK])
  | cons f rest ih =>
    intro gs h
    cases gs with
    | nil => exact absurd h (by simp [FramesOK])
    | cons g gs =>
      simp only [FramesOK] at h
      have := ih h.2.2
      simp only [List.length_cons]
      rw [← h.2.1.1, this]

theorem FramesOK.weaken {T : Table} : ∀ {fr : List Frame} {gs gs' : List Bool}, FramesOK T fr gs →
    FlagsLe gs gs' → FramesOK T fr gs' := by
  intro fr
  cases fr with
  | nil =>
    intro gs gs' h hle
    cases gs with
    | nil => cases gs' with
      | nil => trivial
      | cons _ _ => simp [FlagsLe] at hle
    | cons _ _ => exact absurd h (by simp [FramesOK])
  | cons f rest =>
    intro gs gs' h hle
    cases gs with
    | nil => exact absurd h (by simp [FramesOK])
    | cons g gs =>
      cases gs' with
      | nil => simp [FlagsLe] at hle
      | cons g' gs' =>
        simp only [FramesOK] at h ⊢
        have htail : FlagsLe gs gs' := by
          refine ⟨by simpa using hle.1, fun k hk => ?_⟩
          simpa using hle.2 (k + 1) (by simpa using hk)
        exact ⟨h.1, h.2.1.trans htail, h.2.2⟩

theorem FramesOK.push {T : Table} {fr : List Frame} {gs : List Bool} {y : Nat} (h : FramesOK T fr gs)
    (hy : ClosedAt T gs y) : FramesOK T ((y, gs) :: fr) (false :: gs) :=
  ⟨hy, FlagsLe.refl gs, h⟩

theorem FramesOK.allTrue {T : Table} {fr : List Frame} {gs : List Bool} (h : FramesOK T fr gs) :
    FramesOK T fr (gs.map (fun _ => true)) :=
  h.weaken (FlagsLe.allTrue gs)

/-- jumping to the `k`-th frame -/
theorem FramesOK.jump {T : Table} : ∀ {fr : List Frame} {gs : List Bool} (k : Nat) {f : Frame},
    FramesOK T fr gs → fr[k]? = some f →
    ClosedAt T f.2 f.1 ∧ FramesOK T (fr.drop (k + 1)) f.2 ∧ FlagsLe f.2 (gs.drop (k + 1)) := by
  intro fr
  induction fr with
  | nil => intro gs k f _ h; simp at h
  | cons f0 rest ih =>
    intro gs k f h hk
    cases gs with
    | nil => exact absurd h (by simp [FramesOK])
    | cons g gs =>
      simp only [FramesOK] at h
      cases k with
      | zero =>
        simp only [List.getElem?_cons_zero, Option.some.injEq] at hk
        subst hk
        exact ⟨h.1, by simpa using h.2.2, by simpa using h.2.1⟩
      | succ k =>
        simp only [List.getElem?_cons_succ] at hk
        obtain ⟨h1, h2, h3⟩ := ih k h.2.2 hk
        refine ⟨h1, by simpa using h2, ?_⟩
        simpa using h3.trans (h.2.1.drop (k + 1))

end QM.Types
