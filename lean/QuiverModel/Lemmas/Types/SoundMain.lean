import QuiverModel.Lemmas.Types.Sound
/-
Soundness of `checkRel` (mode ALL, the relation as it is now) on first-order cycle-free types of an
ordered table: one unfolding (`relStep_good`), then induction on the fuel (`checkRel_good`).
-/
namespace QM.Types

theorem Good.of_restore {W : Nat → Nat → Prop} {asm : Asm} {k : AKey} {inner : Res} {P : Prop}
    (h : Good W inner (k :: asm) P) (hP : P → W k.1 k.2.1) :
    Good W (restoreOnFail Variant.current asm inner) asm (W k.1 k.2.1) := by
  intro r asm' hr
  cases hin : inner with
  | none => simp [hin, restoreOnFail] at hr
  | some p =>
    obtain ⟨r0, s0⟩ := p
    have h0 := h r0 s0 hin
    rw [hin] at hr
    cases r0 with
    | true =>
      simp only [restoreOnFail, Option.some.injEq, Prod.mk.injEq] at hr
      obtain ⟨rfl, rfl⟩ := hr
      have hv : W k.1 k.2.1 := hP (h0.2 rfl)
      refine ⟨fun p hp => ?_, fun _ => hv⟩
      rcases h0.1 p hp with hmem | hval
      · rcases List.mem_cons.mp hmem with rfl | hmem
        · exact Or.inr hv
        · exact Or.inl hmem
      · exact Or.inr hval
    | false =>
      simp only [restoreOnFail, Variant.current, Bool.false_eq_true, if_false, Option.some.injEq,
        Prod.mk.injEq] at hr
      obtain ⟨rfl, rfl⟩ := hr
      exact ⟨Post.refl _ _, fun h => by simp at h⟩

section
variable {T : Table} {W : Nat → Nat → Prop} (hW : Rules T W) {μ : Nat → Nat} (hT : ChildLt T μ) {rec : Rec}
  {asm : Asm} {st : Stk} {a b : Nat}
  (ha : FO T a) (hb : FO T b) (hrec : RecGood T W μ rec (μ a + μ b)) (hinv : Inv W μ asm (μ a + μ b + 1))
include hW hT ha hb hrec hinv

theorem unionLeft_good {vs : List Nat} (hta : T.types[a]? = some (.union vs)) :
    Good W (unionLeft Variant.current .all rec asm st a b vs) asm (W a b) := by
  unfold unionLeft
  obtain ⟨tb, htb, _⟩ := hb.unfold
  refine Good.of_restore (k := akey Variant.current st a b) (P := ∀ v ∈ vs, W v b) ?_
    (hW.union_left hta htb)
  refine allS_good W (m := μ a + μ b) vs (fun v hv s hs => ?_) _ hinv.cons
  have hlt : μ v < μ a := hT hta ha v (by simpa [Ty.children] using hv)
  exact hrec s _ v b (ha.union hta v hv) hb (by omega) (hs.mono (by omega))

theorem unionRight_good {vs : List Nat} (htb : T.types[b]? = some (.union vs)) :
    Good W (unionRight Variant.current rec asm st a b vs) asm (W a b) := by
  unfold unionRight
  refine Good.of_restore (k := akey Variant.current st a b) (P := ∃ v ∈ vs, W a v) ?_
    (hW.union_right htb)
  refine anyS_good W (m := μ a + μ b) vs (fun v hv s hs => ?_) _ hinv.cons
  have hlt : μ v < μ b := hT htb hb v (by simpa [Ty.children] using hv)
  exact hrec s _ a v ha (hb.union htb v hv) (by omega) (hs.mono (by omega))

theorem tupleTuple_good {i1 i2 : Nat} (hta : T.types[a]? = some (.tuple i1))
    (htb : T.types[b]? = some (.tuple i2)) :
    Good W (tupleTuple Variant.current T .all rec asm st i1 i2) asm (W a b) := by
  obtain ⟨info1, h1, hf1⟩ := ha.tuple hta
  obtain ⟨info2, h2, hf2⟩ := hb.tuple htb
  unfold tupleTuple
  split
  · rename_i heq
    obtain ⟨heq, _⟩ := heq
    subst heq
    exact Good.const_true (hW.tuple_same ha hta htb)
  · simp only [h1, h2]
    split
    · rename_i hnl
      unfold tupleFields
      refine (allS_good W (m := μ a + μ b) (R := fun p => p.1.1 = p.2.1 ∧ W p.1.2 p.2.2) _
        (fun p hp s hs => ?_) asm (hinv.mono (by omega))).imp
        (fun hz => hW.tuple_tuple hta htb h1 h2 hnl.1 hnl.2 hz)
      have hp1 : p.1 ∈ info1.fields := (List.of_mem_zip hp).1
      have hp2 : p.2 ∈ info2.fields := (List.of_mem_zip hp).2
      have hlt1 : μ p.1.2 < μ a := hT hta ha _ (by
        simp only [Ty.children, Table.fieldTypes, h1, List.mem_map]; exact ⟨p.1, hp1, rfl⟩)
      have hlt2 : μ p.2.2 < μ b := hT htb hb _ (by
        simp only [Ty.children, Table.fieldTypes, h2, List.mem_map]; exact ⟨p.2, hp2, rfl⟩)
      split
      · rename_i hl
        exact (hrec s st _ _ (hf1 _ hp1) (hf2 _ hp2) (by omega) (hs.mono (by omega))).imp
          (fun hv => ⟨hl, hv⟩)
      · exact Good.const_false
    · exact Good.const_false

theorem tuplePart_good {c : Nat} {pn : Option Name} {pfs : List (Name × Nat)}
    (hta : T.types[a]? = some (.tuple c)) (htb : T.types[b]? = some (.part pn pfs)) :
    Good W (tuplePart T rec asm st c pn pfs) asm (W a b) := by
  obtain ⟨ci, hc, hfc⟩ := ha.tuple hta
  have hfp := hb.part htb
  unfold tuplePart
  simp only [hc]
  split
  · exact Good.const_false
  · rename_i hname
    unfold tuplePartFields
    refine (allS_good W (m := μ a + μ b)
      (R := fun pf => ∃ cf ∈ ci.fields, cf.1 = some pf.1 ∧ W cf.2 pf.2) pfs
      (fun pf hpf s hs => ?_) asm (hinv.mono (by omega))).imp
      (fun hf => hW.tuple_part hta htb hc hname hf)
    refine (anyS_good W (m := μ a + μ b) (R := fun cf => cf.1 = some pf.1 ∧ W cf.2 pf.2) ci.fields
      (fun cf hcf s' hs' => ?_) s hs).imp id
    have hlt1 : μ cf.2 < μ a := hT hta ha _ (by
      simp only [Ty.children, Table.fieldTypes, hc, List.mem_map]; exact ⟨cf, hcf, rfl⟩)
    have hlt2 : μ pf.2 < μ b := hT htb hb _ (by
      simp only [Ty.children, List.mem_map]; exact ⟨pf, hpf, rfl⟩)
    split
    · rename_i hl
      exact (hrec s' st _ _ (hfc _ hcf) (hfp _ hpf) (by omega) (hs'.mono (by omega))).imp
        (fun hv => ⟨hl, hv⟩)
    · exact Good.const_false

theorem partPart_good {n1 n2 : Option Name} {fs1 fs2 : List (Name × Nat)}
    (hta : T.types[a]? = some (.part n1 fs1)) (htb : T.types[b]? = some (.part n2 fs2)) :
    Good W (partPart Variant.current .all rec asm st n1 fs1 n2 fs2) asm (W a b) := by
  have hf1 := ha.part hta
  have hf2 := hb.part htb
  unfold partPart
  split
  · exact Good.const_false
  · rename_i hname
    unfold partPartFields
    simp only [Variant.current, Bool.false_eq_true, if_false]
    refine (allS_good W (m := μ a + μ b)
      (R := fun f2 => ∃ f1, fs1.find? (fun f1 => f1.1 == f2.1) = some f1 ∧ W f1.2 f2.2) fs2
      (fun f2 hf2mem s hs => ?_) asm (hinv.mono (by omega))).imp
      (fun hf => hW.part_part hta htb (by simpa using hname) hf)
    split
    · rename_i f1 hfind
      have hmem : f1 ∈ fs1 := List.mem_of_find?_eq_some hfind
      have hl : f1.1 = f2.1 := by
        have := List.find?_some hfind
        simpa using this
      have hlt1 : μ f1.2 < μ a := hT hta ha _ (by
        simp only [Ty.children, List.mem_map]; exact ⟨f1, hmem, rfl⟩)
      have hlt2 : μ f2.2 < μ b := hT htb hb _ (by
        simp only [Ty.children, List.mem_map]; exact ⟨f2, hf2mem, rfl⟩)
      exact (hrec s st _ _ (hf1 _ hmem) (hf2 _ hf2mem) (by omega) (hs.mono (by omega))).imp
        (fun hv => ⟨f1, hfind, hv⟩)
    · exact Good.const_false

end

end QM.Types

namespace QM.Types

theorem Valid.of_same_ty {T : Table} {a b : Nat} {ty : Ty}
    (hta : T.types[a]? = some ty) (htb : T.types[b]? = some ty)
    (hatom : ty = .integer ∨ ty = .binary ∨ ty = .reference ∨ ∃ r, ty = .resource r) : Valid T a b := by
  intro st st' v hv
  rcases hatom with rfl | rfl | rfl | ⟨r, rfl⟩
  · exact (inh_integer htb).mpr ((inh_integer hta).mp hv)
  · exact (inh_binary htb).mpr ((inh_binary hta).mp hv)
  · exact (inh_reference htb).mpr ((inh_reference hta).mp hv)
  · exact (inh_resource htb).mpr ((inh_resource hta).mp hv)

/-- semantic containment is closed under the rules -/
theorem Rules.valid (T : Table) : Rules T (Valid T) where
  refl_fo := Valid.refl_fo
  never_left := fun h _ => Valid.never_left h
  union_left := fun h _ hv => Valid.union_left h hv
  union_right := Valid.union_right
  tuple_same := by
    intro a b i ha hta htb
    obtain ⟨info1, h1, hf1⟩ := ha.tuple hta
    intro st1 st2 v hv
    obtain ⟨name, fs, rfl, hn, hf⟩ := (inh_tuple hta h1).mp hv
    exact (inh_tuple htb h1).mpr ⟨name, fs, rfl, hn,
      FieldsRel.imp (fun c hc v hP => by
        obtain ⟨f, hf, rfl⟩ := List.mem_map.mp hc
        exact (hf1 f hf).stack_irrel hP) hf⟩
  tuple_tuple := Valid.tuple_tuple
  tuple_part := Valid.tuple_part
  part_part := by
    intro a b n1 n2 fs1 fs2 hta htb hname hf
    refine Valid.part_part hta htb hname (fun f2 hf2 => ?_)
    obtain ⟨f1, hfind, hv⟩ := hf f2 hf2
    exact ⟨f1, List.mem_of_find?_eq_some hfind, by simpa using List.find?_some hfind, hv⟩
  same_atom := Valid.of_same_ty

/-- one unfolding of the relation is good on a first-order pair if the recursive call is good on
all first-order pairs with a smaller id sum -/
theorem relStep_good {T : Table} {W : Nat → Nat → Prop} (hW : Rules T W) {μ : Nat → Nat} (hT : ChildLt T μ)
    {rec : Rec} {asm : Asm}
    {st : Stk} {a b : Nat}
    {ta tb : Ty} (ha : FO T a) (hb : FO T b) (hta : T.types[a]? = some ta)
    (htb : T.types[b]? = some tb) (hrec : RecGood T W μ rec (μ a + μ b))
    (hinv : Inv W μ asm (μ a + μ b + 1)) :
    Good W (relStep Variant.current T .all rec asm st a b ta tb) asm (W a b) := by
  obtain ⟨ta', hta', hfa, _, _⟩ := ha.unfold
  obtain ⟨tb', htb', hfb, _, _⟩ := hb.unfold
  rw [hta] at hta'; cases hta'
  rw [htb] at htb'; cases htb'
  have other : ∀ {ta : Ty}, T.types[a]? = some ta → (∀ vs, ta ≠ .union vs) → ta.isFO = true →
      Good W (relStep Variant.current T .all rec asm st a b ta tb) asm (W a b) := by
    intro ta hta hnu hfa
    cases ta <;> simp only [Ty.isFO, Bool.false_eq_true] at hfa <;>
      cases tb <;> simp only [Ty.isFO, Bool.false_eq_true] at hfb
    all_goals first
      | exact absurd rfl (hnu _)
      | (simp only [relStep]; exact Good.const_false)
      | (simp only [relStep, partTuple]; exact Good.const_false)
      | (simp only [relStep]; exact unionRight_good hW hT ha hb hrec hinv htb)
      | (simp only [relStep]; exact tupleTuple_good hW hT ha hb hrec hinv hta htb)
      | (simp only [relStep]; exact tuplePart_good hW hT ha hb hrec hinv hta htb)
      | (simp only [relStep]; exact partPart_good hW hT ha hb hrec hinv hta htb)
      | (simp only [relStep]
         exact Good.const_true (hW.same_atom hta htb (by simp)))
      | (simp only [relStep]
         intro r asm' h
         simp only [Option.some.injEq, Prod.mk.injEq] at h
         obtain ⟨rfl, rfl⟩ := h
         refine ⟨Post.refl _ _, fun hr => ?_⟩
         simp only [decide_eq_true_eq] at hr
         subst hr
         exact hW.same_atom hta htb (by simp))
  by_cases hu : ∃ vs, ta = .union vs
  · obtain ⟨vs, rfl⟩ := hu
    cases vs with
    | nil => simp only [relStep]; exact Good.const_true (hW.never_left hta htb)
    | cons x xs =>
      cases tb <;> simp only [Ty.isFO, Bool.false_eq_true] at hfb
      all_goals (simp only [relStep]; exact unionLeft_good hW hT ha hb hrec hinv hta)
  · exact other hta (fun vs h => hu ⟨vs, h⟩) hfa

/-- on an ordered table the ids themselves are a measure -/
theorem ChildLt.of_ordered {T : Table} (hT : Ordered T) : ChildLt T id :=
  fun hty _ c hc => ordered_children hT hty c hc

/-- `checkRel` in mode ALL is good on every first-order pair of an ordered table, whatever valid
or pending assumptions it starts from. -/
theorem checkRel_good {T : Table} {W : Nat → Nat → Prop} (hW : Rules T W) {μ : Nat → Nat} (hT : ChildLt T μ) :
    ∀ (n bound : Nat), RecGood T W μ (checkRel T .all n) bound := by
  intro n
  induction n with
  | zero =>
    intro bound asm st x y _ _ _ _ r asm' h
    simp [checkRel, checkRelV] at h
  | succ n ih =>
    intro bound asm st x y hx hy _ hinv
    unfold checkRel checkRelV
    split
    · rename_i heq
      obtain ⟨heq, _⟩ := heq
      subst heq
      exact Good.const_true (hW.refl_fo hx)
    · split
      · rename_i hc
        have hmem : akey Variant.current st x y ∈ asm := by simpa using hc
        rcases hinv _ hmem with hv | hle
        · exact Good.const_true hv
        · simp only [akey_fst, akey_snd] at hle; omega
      · split
        · rename_i ta tb hta htb
          exact relStep_good hW hT hx hy hta htb (ih (μ x + μ y)) hinv
        · exact Good.const_false

end QM.Types
