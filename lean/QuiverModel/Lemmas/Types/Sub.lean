import QuiverModel.Lemmas.Types.Rank
/-
`Sub T a b` — the stateless, syntactic reading of ALL-mode `check_type_relation` on first-order
types: the same arms in the same order, but no assumption set, no stacks and no equal-id shortcuts.

* `checkRel … = some (true, _)` from any state whose assumptions are `Sub`-valid or pending ⟹ `Sub`
  (the `Good` framework of `Sound.lean`, instantiated with `Rules.sub`);
* `Sub a b` ⟹ `checkRel` answers `true` from EVERY state, with any fuel above the rank sum
  (`checkRel_comp`);
* `Sub` is transitive (`Sub.trans`).

So on first-order types (partial types without repeated field names) the verdict of the checker does
not depend on its state, and it is transitive.
-/
namespace QM.Types

/-- the structural arms (neither side a union) -/
def subStruct (T : Table) (rec : Nat → Nat → Bool) : Ty → Ty → Bool
  | .integer, .integer => true
  | .binary, .binary => true
  | .reference, .reference => true
  | .resource r1, .resource r2 => decide (r1 = r2)
  | .tuple i1, .tuple i2 =>
    match T.tuples[i1]?, T.tuples[i2]? with
    | some info1, some info2 =>
      decide (info1.name = info2.name ∧ info1.fields.length = info2.fields.length) &&
        (info1.fields.zip info2.fields).all (fun p => decide (p.1.1 = p.2.1) && rec p.1.2 p.2.2)
    | _, _ => false
  | .tuple c, .part pn pfs =>
    match T.tuples[c]? with
    | none => false
    | some ci =>
      !(decide (pn.isSome ∧ ci.name ≠ pn)) &&
        pfs.all (fun pf => ci.fields.any (fun cf => decide (cf.1 = some pf.1) && rec cf.2 pf.2))
  | .part n1 fs1, .part n2 fs2 =>
    !(nameConflict Variant.current .all n1 n2) &&
      fs2.all (fun f2 =>
        match fs1.find? (fun f1 => f1.1 == f2.1) with
        | some f1 => rec f1.2 f2.2
        | none => false)
  | _, _ => false

def Ty.isUnion : Ty → Bool
  | .union _ => true
  | _ => false

def subStep (T : Table) (rec : Nat → Nat → Bool) (a b : Nat) (ta tb : Ty) : Bool :=
  match ta with
  | .union vs => vs.all (fun v => rec v b)
  | _ =>
    match tb with
    | .union ws => ws.any (fun w => rec a w)
    | _ => subStruct T rec ta tb

def subB (T : Table) : Nat → Nat → Nat → Bool
  | 0, _, _ => false
  | n + 1, a, b =>
    match T.types[a]?, T.types[b]? with
    | some ta, some tb => subStep T (subB T n) a b ta tb
    | _, _ => false

def Sub (T : Table) (a b : Nat) : Prop := ∃ n, subB T n a b = true

theorem subStruct_mono {T : Table} {r r' : Nat → Nat → Bool} (h : ∀ x y, r x y = true → r' x y = true)
    (ta tb : Ty) : subStruct T r ta tb = true → subStruct T r' ta tb = true := by
  cases ta <;> cases tb <;> simp only [subStruct, imp_self, Bool.false_eq_true, false_imp_iff]
  · -- tuple / tuple
    rename_i i1 i2
    cases T.tuples[i1]? <;> cases T.tuples[i2]? <;> simp only [Bool.false_eq_true, false_imp_iff]
    simp only [Bool.and_eq_true, List.all_eq_true, decide_eq_true_eq]
    exact fun ⟨h1, h2⟩ => ⟨h1, fun p hp => ⟨(h2 p hp).1, h _ _ (h2 p hp).2⟩⟩
  · -- tuple / part
    rename_i c pn pfs
    cases T.tuples[c]? <;> simp only [Bool.false_eq_true, false_imp_iff]
    simp only [Bool.and_eq_true, List.all_eq_true, List.any_eq_true, decide_eq_true_eq]
    exact fun ⟨h1, h2⟩ => ⟨h1, fun pf hpf => by
      obtain ⟨cf, hcf, hl, hr⟩ := h2 pf hpf
      exact ⟨cf, hcf, hl, h _ _ hr⟩⟩
  · -- part / part
    rename_i n1 fs1 n2 fs2
    simp only [Bool.and_eq_true, List.all_eq_true]
    refine fun ⟨h1, h2⟩ => ⟨h1, fun f2 hf2 => ?_⟩
    have := h2 f2 hf2
    cases hfind : fs1.find? (fun f1 => f1.1 == f2.1) with
    | none => simp [hfind] at this
    | some f1 => simp only [hfind] at this ⊢; exact h _ _ this

theorem subStep_mono {T : Table} {r r' : Nat → Nat → Bool} (h : ∀ x y, r x y = true → r' x y = true)
    (a b : Nat) (ta tb : Ty) : subStep T r a b ta tb = true → subStep T r' a b ta tb = true := by
  unfold subStep
  cases ta
  case union vs =>
    simp only [List.all_eq_true]
    exact fun hv v hvm => h _ _ (hv v hvm)
  all_goals
    cases tb
    case union ws =>
      simp only [List.any_eq_true]
      exact fun ⟨w, hw, hr⟩ => ⟨w, hw, h _ _ hr⟩
    all_goals exact subStruct_mono h _ _

theorem subB_mono (T : Table) : ∀ {n m : Nat}, n ≤ m → ∀ a b, subB T n a b = true → subB T m a b = true := by
  intro n
  induction n with
  | zero => intro m _ a b h; simp [subB] at h
  | succ n ih =>
    intro m hm a b h
    cases m with
    | zero => omega
    | succ m =>
      unfold subB at h ⊢
      cases hta : T.types[a]? with
      | none => simp [hta] at h
      | some ta =>
        cases htb : T.types[b]? with
        | none => simp [hta, htb] at h
        | some tb =>
          simp only [hta, htb] at h ⊢
          exact subStep_mono (fun x y => ih (by omega) x y) _ _ _ _ h

/-- finitely many `Sub` facts share one fuel -/
theorem Sub.common {T : Table} {α : Type} (f g : α → Nat) :
    ∀ (l : List α), (∀ x ∈ l, Sub T (f x) (g x)) → ∃ n, ∀ x ∈ l, subB T n (f x) (g x) = true := by
  intro l
  induction l with
  | nil => intro _; exact ⟨0, fun x hx => by simp at hx⟩
  | cons y ys ih =>
    intro h
    obtain ⟨n1, hn1⟩ := h y (by simp)
    obtain ⟨n2, hn2⟩ := ih (fun x hx => h x (by simp [hx]))
    refine ⟨max n1 n2, fun x hx => ?_⟩
    rcases List.mem_cons.mp hx with rfl | hx
    · exact subB_mono T (Nat.le_max_left _ _) _ _ hn1
    · exact subB_mono T (Nat.le_max_right _ _) _ _ (hn2 x hx)

/-- one unfolding, as an equivalence on `Sub` -/
theorem Sub.unfold {T : Table} {a b : Nat} {ta tb : Ty} (hta : T.types[a]? = some ta)
    (htb : T.types[b]? = some tb) : Sub T a b ↔ ∃ n, subStep T (subB T n) a b ta tb = true := by
  constructor
  · rintro ⟨n, hn⟩
    cases n with
    | zero => simp [subB] at hn
    | succ n => unfold subB at hn; simp only [hta, htb] at hn; exact ⟨n, hn⟩
  · rintro ⟨n, hn⟩
    exact ⟨n + 1, by unfold subB; simp only [hta, htb]; exact hn⟩

theorem Sub.in_table {T : Table} {a b : Nat} (h : Sub T a b) :
    (∃ ta, T.types[a]? = some ta) ∧ ∃ tb, T.types[b]? = some tb := by
  obtain ⟨n, hn⟩ := h
  cases n with
  | zero => simp [subB] at hn
  | succ n =>
    unfold subB at hn
    cases hta : T.types[a]? <;> cases htb : T.types[b]? <;> simp [hta, htb] at hn
    exact ⟨⟨_, rfl⟩, ⟨_, rfl⟩⟩

/-- finitely many facts that are monotone in the fuel share one fuel -/
theorem common_fuel {α : Type} (P : Nat → α → Prop) (mono : ∀ n m x, n ≤ m → P n x → P m x) :
    ∀ (l : List α), (∀ x ∈ l, ∃ n, P n x) → ∃ n, ∀ x ∈ l, P n x := by
  intro l
  induction l with
  | nil => intro _; exact ⟨0, fun x hx => by simp at hx⟩
  | cons y ys ih =>
    intro h
    obtain ⟨n1, hn1⟩ := h y (by simp)
    obtain ⟨n2, hn2⟩ := ih (fun x hx => h x (by simp [hx]))
    refine ⟨max n1 n2, fun x hx => ?_⟩
    rcases List.mem_cons.mp hx with rfl | hx
    · exact mono _ _ _ (Nat.le_max_left _ _) hn1
    · exact mono _ _ _ (Nat.le_max_right _ _) (hn2 x hx)

/-! ### one characterisation per arm -/

theorem Sub.union_left_iff {T : Table} {a b : Nat} {vs : List Nat} {tb : Ty}
    (hta : T.types[a]? = some (.union vs)) (htb : T.types[b]? = some tb) :
    Sub T a b ↔ ∀ v ∈ vs, Sub T v b := by
  rw [Sub.unfold hta htb]
  simp only [subStep, List.all_eq_true]
  constructor
  · rintro ⟨n, hn⟩ v hv
    exact ⟨n, hn v hv⟩
  · intro h
    exact common_fuel (fun n v => subB T n v b = true) (fun n m x hnm => subB_mono T hnm x b) vs h

theorem Sub.union_right_iff {T : Table} {a b : Nat} {ta : Ty} {ws : List Nat}
    (hta : T.types[a]? = some ta) (hnu : ta.isUnion = false) (htb : T.types[b]? = some (.union ws)) :
    Sub T a b ↔ ∃ w ∈ ws, Sub T a w := by
  rw [Sub.unfold hta htb]
  have hstep : ∀ n, subStep T (subB T n) a b ta (.union ws) = ws.any (fun w => subB T n a w) := by
    intro n
    cases ta
    case union vs => simp [Ty.isUnion] at hnu
    all_goals rfl
  simp only [hstep, List.any_eq_true]
  constructor
  · rintro ⟨n, w, hw, hn⟩
    exact ⟨w, hw, n, hn⟩
  · rintro ⟨w, hw, n, hn⟩
    exact ⟨n, w, hw, hn⟩

theorem Sub.struct_iff {T : Table} {a b : Nat} {ta tb : Ty}
    (hta : T.types[a]? = some ta) (hnu : ta.isUnion = false)
    (htb : T.types[b]? = some tb) (hnub : tb.isUnion = false) :
    Sub T a b ↔ ∃ n, subStruct T (subB T n) ta tb = true := by
  rw [Sub.unfold hta htb]
  have hstep : ∀ n, subStep T (subB T n) a b ta tb = subStruct T (subB T n) ta tb := by
    intro n
    cases ta
    case union vs => simp [Ty.isUnion] at hnu
    all_goals
      simp only [subStep]
      cases tb
      case union ws => simp [Ty.isUnion] at hnub
      all_goals rfl
  simp only [hstep]

theorem Sub.tuple_tuple_iff {T : Table} {a b i1 i2 : Nat} {info1 info2 : TupleInfo}
    (hta : T.types[a]? = some (.tuple i1)) (htb : T.types[b]? = some (.tuple i2))
    (h1 : T.tuples[i1]? = some info1) (h2 : T.tuples[i2]? = some info2) :
    Sub T a b ↔ info1.name = info2.name ∧ info1.fields.length = info2.fields.length ∧
      ∀ p ∈ info1.fields.zip info2.fields, p.1.1 = p.2.1 ∧ Sub T p.1.2 p.2.2 := by
  rw [Sub.struct_iff hta rfl htb rfl]
  simp only [subStruct, h1, h2, Bool.and_eq_true, decide_eq_true_eq, List.all_eq_true]
  constructor
  · rintro ⟨n, ⟨hn, hl⟩, hz⟩
    exact ⟨hn, hl, fun p hp => ⟨(hz p hp).1, n, (hz p hp).2⟩⟩
  · rintro ⟨hn, hl, hz⟩
    obtain ⟨n, hn'⟩ := common_fuel (fun n (p : (Option Name × Nat) × (Option Name × Nat)) =>
      subB T n p.1.2 p.2.2 = true) (fun n m x hnm => subB_mono T hnm _ _) _ (fun p hp => (hz p hp).2)
    exact ⟨n, ⟨hn, hl⟩, fun p hp => ⟨(hz p hp).1, hn' p hp⟩⟩

theorem Sub.tuple_part_iff {T : Table} {a b c : Nat} {ci : TupleInfo} {pn : Option Name}
    {pfs : List (Name × Nat)} (hta : T.types[a]? = some (.tuple c))
    (htb : T.types[b]? = some (.part pn pfs)) (hc : T.tuples[c]? = some ci) :
    Sub T a b ↔ ¬ (pn.isSome ∧ ci.name ≠ pn) ∧
      ∀ pf ∈ pfs, ∃ cf ∈ ci.fields, cf.1 = some pf.1 ∧ Sub T cf.2 pf.2 := by
  rw [Sub.struct_iff hta rfl htb rfl]
  simp only [subStruct, hc, Bool.and_eq_true, Bool.not_eq_true', decide_eq_false_iff_not,
    List.all_eq_true, List.any_eq_true, decide_eq_true_eq]
  constructor
  · rintro ⟨n, hname, hf⟩
    refine ⟨hname, fun pf hpf => ?_⟩
    obtain ⟨cf, hcf, hl, hr⟩ := hf pf hpf
    exact ⟨cf, hcf, hl, n, hr⟩
  · rintro ⟨hname, hf⟩
    obtain ⟨n, hn⟩ := common_fuel (fun n (pf : Name × Nat) =>
      ∃ cf ∈ ci.fields, cf.1 = some pf.1 ∧ subB T n cf.2 pf.2 = true)
      (fun n m x hnm ⟨cf, hcf, hl, hr⟩ => ⟨cf, hcf, hl, subB_mono T hnm _ _ hr⟩) pfs
      (fun pf hpf => by
        obtain ⟨cf, hcf, hl, n, hr⟩ := hf pf hpf
        exact ⟨n, cf, hcf, hl, hr⟩)
    exact ⟨n, hname, hn⟩

theorem Sub.part_part_iff {T : Table} {a b : Nat} {n1 n2 : Option Name} {fs1 fs2 : List (Name × Nat)}
    (hta : T.types[a]? = some (.part n1 fs1)) (htb : T.types[b]? = some (.part n2 fs2)) :
    Sub T a b ↔ nameConflict Variant.current .all n1 n2 = false ∧
      ∀ f2 ∈ fs2, ∃ f1, fs1.find? (fun f1 => f1.1 == f2.1) = some f1 ∧ Sub T f1.2 f2.2 := by
  rw [Sub.struct_iff hta rfl htb rfl]
  simp only [subStruct, Bool.and_eq_true, Bool.not_eq_true', List.all_eq_true]
  constructor
  · rintro ⟨n, hname, hf⟩
    refine ⟨hname, fun f2 hf2 => ?_⟩
    have := hf f2 hf2
    cases hfind : fs1.find? (fun f1 => f1.1 == f2.1) with
    | none => simp [hfind] at this
    | some f1 => simp only [hfind] at this; exact ⟨f1, rfl, n, this⟩
  · rintro ⟨hname, hf⟩
    obtain ⟨n, hn⟩ := common_fuel (fun n (f2 : Name × Nat) =>
      ∃ f1, fs1.find? (fun f1 => f1.1 == f2.1) = some f1 ∧ subB T n f1.2 f2.2 = true)
      (fun n m x hnm ⟨f1, hfind, hr⟩ => ⟨f1, hfind, subB_mono T hnm _ _ hr⟩) fs2
      (fun f2 hf2 => by
        obtain ⟨f1, hfind, n, hr⟩ := hf f2 hf2
        exact ⟨n, f1, hfind, hr⟩)
    refine ⟨n, hname, fun f2 hf2 => ?_⟩
    obtain ⟨f1, hfind, hr⟩ := hn f2 hf2
    simp only [hfind]
    exact hr

theorem Sub.same_atom {T : Table} {a b : Nat} {ty : Ty} (hta : T.types[a]? = some ty)
    (htb : T.types[b]? = some ty)
    (hatom : ty = .integer ∨ ty = .binary ∨ ty = .reference ∨ ∃ r, ty = .resource r) : Sub T a b := by
  refine ⟨1, ?_⟩
  unfold subB
  simp only [hta, htb]
  rcases hatom with rfl | rfl | rfl | ⟨r, rfl⟩ <;> simp [subStep, subStruct]

/-! ### reflexivity, the general right-union rule, and the closure rules -/

/-- a type that is below a variant is below the union (whatever its own shape) -/
theorem Sub.union_right_gen {T : Table} {b i : Nat} {ws : List Nat}
    (htb : T.types[b]? = some (.union ws)) (hi : i ∈ ws) :
    ∀ (n a : Nat), subB T n a i = true → Sub T a b := by
  intro n
  induction n with
  | zero => intro a h; simp [subB] at h
  | succ n ih =>
    intro a h
    have hsub : Sub T a i := ⟨n + 1, h⟩
    obtain ⟨⟨ta, hta⟩, ⟨ti, hti⟩⟩ := hsub.in_table
    unfold subB at h
    simp only [hta, hti] at h
    cases hu : ta.isUnion with
    | true =>
      cases ta <;> simp [Ty.isUnion] at hu
      rename_i vs
      simp only [subStep, List.all_eq_true] at h
      exact (Sub.union_left_iff hta htb).mpr (fun v hv => ih v (h v hv))
    | false => exact (Sub.union_right_iff hta hu htb).mpr ⟨i, hi, hsub⟩

theorem mem_zip_self {α : Type} : ∀ (l : List α) (p : α × α), p ∈ l.zip l → p.1 = p.2 ∧ p.1 ∈ l := by
  intro l
  induction l with
  | nil => intro p hp; simp at hp
  | cons x xs ih =>
    intro p hp
    simp only [List.zip_cons_cons, List.mem_cons] at hp
    rcases hp with rfl | hp
    · exact ⟨rfl, by simp⟩
    · exact ⟨(ih p hp).1, by simp [(ih p hp).2]⟩

theorem find_self_of_nodup : ∀ (fs : List (Name × Nat)) (f : Name × Nat),
    (fs.map (·.1)).Nodup → f ∈ fs → fs.find? (fun f1 => f1.1 == f.1) = some f := by
  intro fs
  induction fs with
  | nil => intro f _ hf; simp at hf
  | cons x xs ih =>
    intro f hnd hf
    simp only [List.map_cons, List.nodup_cons, List.mem_map, not_exists, not_and] at hnd
    rcases List.mem_cons.mp hf with rfl | hf
    · simp [List.find?]
    · have hne : x.1 ≠ f.1 := fun h => hnd.1 f hf h.symm
      simp only [List.find?, beq_iff_eq, hne, ↓reduceIte]
      rw [show (x.1 == f.1) = false from by simpa using hne]
      exact ih f hnd.2 hf

theorem PartsDistinct.nodup {T : Table} (hd : PartsDistinct T) {t : Nat} {pn : Option Name}
    {fs : List (Name × Nat)} (h : T.types[t]? = some (.part pn fs)) : (fs.map (·.1)).Nodup := by
  have hmem : Ty.part pn fs ∈ T.types := List.mem_of_getElem? h
  have := (List.all_eq_true.mp hd) _ hmem
  simpa using this

theorem Sub.refl_of_foB {T : Table} (hd : PartsDistinct T) :
    ∀ (n t : Nat), foB T n t = true → Sub T t t := by
  intro n
  induction n with
  | zero => intro t h; simp [foB] at h
  | succ n ih =>
    intro t h
    unfold foB at h
    cases hty : T.types[t]? with
    | none => simp [hty] at h
    | some ty =>
      simp only [hty, Bool.and_eq_true, List.all_eq_true] at h
      obtain ⟨⟨hfo, hok⟩, hch⟩ := h
      cases ty <;> simp only [Ty.isFO, Bool.false_eq_true] at hfo
      case integer => exact Sub.same_atom hty hty (by simp)
      case binary => exact Sub.same_atom hty hty (by simp)
      case reference => exact Sub.same_atom hty hty (by simp)
      case resource r => exact Sub.same_atom hty hty (by simp)
      case union vs =>
        refine (Sub.union_left_iff hty hty).mpr (fun v hv => ?_)
        obtain ⟨m, hm⟩ := ih v (hch v (by simpa [Ty.children] using hv))
        exact Sub.union_right_gen hty hv m v hm
      case tuple id =>
        simp only [Ty.tupleOk, decide_eq_true_eq] at hok
        have hinfo : T.tuples[id]? = some T.tuples[id] := List.getElem?_eq_getElem hok
        refine (Sub.tuple_tuple_iff hty hty hinfo hinfo).mpr ⟨rfl, rfl, fun p hp => ?_⟩
        obtain ⟨heq, hmem⟩ := mem_zip_self _ p hp
        refine ⟨by rw [heq], ?_⟩
        rw [← heq]
        exact ih _ (hch _ (by
          simp only [Ty.children, Table.fieldTypes, hinfo, List.mem_map]
          exact ⟨p.1, hmem, rfl⟩))
      case part pn fs =>
        refine (Sub.part_part_iff hty hty).mpr ⟨by simp [nameConflict, Variant.current], fun f2 hf2 => ?_⟩
        exact ⟨f2, find_self_of_nodup fs f2 (hd.nodup hty) hf2,
          ih _ (hch _ (by simp only [Ty.children, List.mem_map]; exact ⟨f2, hf2, rfl⟩))⟩

theorem Sub.refl {T : Table} (hd : PartsDistinct T) {t : Nat} (h : FO T t) : Sub T t t := by
  obtain ⟨n, hn⟩ := h
  exact Sub.refl_of_foB hd n t hn

/-- `Sub` is closed under the rules of the ALL-mode arms -/
theorem Rules.sub {T : Table} (hd : PartsDistinct T) : Rules T (Sub T) where
  refl_fo := Sub.refl hd
  never_left := fun hta htb => (Sub.union_left_iff hta htb).mpr (fun v hv => by simp at hv)
  union_left := fun hta htb h => (Sub.union_left_iff hta htb).mpr h
  union_right := by
    rintro a b vs htb ⟨i, hi, n, hn⟩
    exact Sub.union_right_gen htb hi n a hn
  tuple_same := by
    intro a b i ha hta htb
    obtain ⟨info, h1, hf⟩ := ha.tuple hta
    refine (Sub.tuple_tuple_iff hta htb h1 h1).mpr ⟨rfl, rfl, fun p hp => ?_⟩
    obtain ⟨heq, hmem⟩ := mem_zip_self _ p hp
    refine ⟨by rw [heq], ?_⟩
    rw [← heq]
    exact Sub.refl hd (hf _ hmem)
  tuple_tuple := fun hta htb h1 h2 hn hl hz => (Sub.tuple_tuple_iff hta htb h1 h2).mpr ⟨hn, hl, hz⟩
  tuple_part := fun hta htb hc hn hf => (Sub.tuple_part_iff hta htb hc).mpr ⟨hn, hf⟩
  part_part := fun hta htb hn hf => (Sub.part_part_iff hta htb).mpr ⟨hn, hf⟩
  same_atom := Sub.same_atom

end QM.Types
