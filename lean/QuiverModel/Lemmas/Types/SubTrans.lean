import QuiverModel.Lemmas.Types.SubMain
/-
`Sub` is transitive (no hypothesis on the table or the types: the fuel of the two derivations is the
measure). With `checkRel_sub` / `checkRel_comp` this gives transitivity of the checker's verdicts on
first-order types.
-/
namespace QM.Types

theorem subStep_union_right {T : Table} {r : Nat → Nat → Bool} {a b : Nat} {ta : Ty} {ws : List Nat}
    (hnu : ta.isUnion = false) : subStep T r a b ta (.union ws) = ws.any (fun w => r a w) := by
  cases ta
  case union vs => simp [Ty.isUnion] at hnu
  all_goals rfl

theorem subStep_struct {T : Table} {r : Nat → Nat → Bool} {a b : Nat} {ta tb : Ty}
    (hnu : ta.isUnion = false) (hnub : tb.isUnion = false) :
    subStep T r a b ta tb = subStruct T r ta tb := by
  cases ta
  case union vs => simp [Ty.isUnion] at hnu
  all_goals
    simp only [subStep]
    cases tb
    case union ws => simp [Ty.isUnion] at hnub
    all_goals rfl

theorem zip_trans {α β γ : Type} : ∀ (l1 : List α) (l2 : List β) (l3 : List γ),
    l1.length = l2.length → l2.length = l3.length → ∀ p ∈ l1.zip l3,
      ∃ q, (p.1, q) ∈ l1.zip l2 ∧ (q, p.2) ∈ l2.zip l3 := by
  intro l1
  induction l1 with
  | nil => intro l2 l3 _ _ p hp; simp at hp
  | cons x xs ih =>
    intro l2 l3 h12 h23 p hp
    cases l2 with
    | nil => simp at h12
    | cons y ys =>
      cases l3 with
      | nil => simp at h23
      | cons z zs =>
        simp only [List.zip_cons_cons, List.mem_cons] at hp ⊢
        rcases hp with rfl | hp
        · exact ⟨y, Or.inl rfl, Or.inl rfl⟩
        · obtain ⟨q, hq1, hq2⟩ := ih ys zs (by simpa using h12) (by simpa using h23) p hp
          exact ⟨q, Or.inr hq1, Or.inr hq2⟩

theorem zip_mem_right {α β : Type} : ∀ (l1 : List α) (l2 : List β), l1.length = l2.length →
    ∀ y ∈ l2, ∃ x, (x, y) ∈ l1.zip l2 := by
  intro l1
  induction l1 with
  | nil => intro l2 h y hy; cases l2 with
    | nil => simp at hy
    | cons _ _ => simp at h
  | cons x xs ih =>
    intro l2 h y hy
    cases l2 with
    | nil => simp at hy
    | cons z zs =>
      rcases List.mem_cons.mp hy with rfl | hy
      · exact ⟨x, by simp⟩
      · obtain ⟨x', hx'⟩ := ih zs (by simpa using h) y hy
        exact ⟨x', by simp [hx']⟩

theorem nameConflict_trans {n1 n2 n3 : Option Name}
    (h12 : nameConflict Variant.current .all n1 n2 = false)
    (h23 : nameConflict Variant.current .all n2 n3 = false) :
    nameConflict Variant.current .all n1 n3 = false := by
  simp only [nameConflict, Variant.current, Bool.false_eq_true, if_false, Bool.and_eq_false_iff,
    decide_eq_false_iff_not, ne_eq, Decidable.not_not] at h12 h23 ⊢
  cases n3 with
  | none => left; rfl
  | some p =>
    right
    rcases h23 with h | h
    · simp at h
    · subst h
      rcases h12 with h | h
      · simp at h
      · exact h

/-- the structural arms compose -/
theorem subStruct_trans {T : Table} {r1 r2 : Nat → Nat → Bool} {a b c : Nat} {ta tb tc : Ty}
    (hta : T.types[a]? = some ta) (htb : T.types[b]? = some tb) (htc : T.types[c]? = some tc)
    (ih : ∀ x y z, r1 x y = true → r2 y z = true → Sub T x z)
    (s1 : subStruct T r1 ta tb = true) (s2 : subStruct T r2 tb tc = true) : Sub T a c := by
  cases ta <;> cases tb <;> simp only [subStruct, Bool.false_eq_true] at s1 <;>
    cases tc <;> simp only [subStruct, Bool.false_eq_true] at s2
  case integer.integer.integer => exact Sub.same_atom hta htc (by simp)
  case binary.binary.binary => exact Sub.same_atom hta htc (by simp)
  case reference.reference.reference => exact Sub.same_atom hta htc (by simp)
  case resource.resource.resource ra rb rc =>
    simp only [decide_eq_true_eq] at s1 s2
    subst s1; subst s2
    exact Sub.same_atom hta htc (by simp)
  case tuple.tuple.tuple i1 i2 i3 =>
    cases h1 : T.tuples[i1]? with
    | none => simp [h1] at s1
    | some info1 =>
      cases h2 : T.tuples[i2]? with
      | none => simp [h1, h2] at s1
      | some info2 =>
        cases h3 : T.tuples[i3]? with
        | none => simp [h2, h3] at s2
        | some info3 =>
          simp only [h1, h2, h3, Bool.and_eq_true, decide_eq_true_eq, List.all_eq_true] at s1 s2
          obtain ⟨⟨hn12, hl12⟩, hz12⟩ := s1
          obtain ⟨⟨hn23, hl23⟩, hz23⟩ := s2
          refine (Sub.tuple_tuple_iff hta htc h1 h3).mpr ⟨hn12.trans hn23, hl12.trans hl23, fun p hp => ?_⟩
          obtain ⟨q, hq1, hq2⟩ := zip_trans _ _ _ hl12 hl23 p hp
          have e1 := hz12 _ hq1
          have e2 := hz23 _ hq2
          exact ⟨e1.1.trans e2.1, ih _ _ _ e1.2 e2.2⟩
  case tuple.tuple.part i1 i2 pn pfs =>
    cases h1 : T.tuples[i1]? with
    | none => simp [h1] at s1
    | some info1 =>
      cases h2 : T.tuples[i2]? with
      | none => simp [h1, h2] at s1
      | some info2 =>
        simp only [h1, h2, Bool.and_eq_true, decide_eq_true_eq, List.all_eq_true, Bool.not_eq_true',
          decide_eq_false_iff_not, List.any_eq_true] at s1 s2
        obtain ⟨⟨hn12, hl12⟩, hz12⟩ := s1
        obtain ⟨hname, hf⟩ := s2
        refine (Sub.tuple_part_iff hta htc h1).mpr ⟨by rw [hn12]; exact hname, fun pf hpf => ?_⟩
        obtain ⟨cf2, hcf2, hl2, hr2⟩ := hf pf hpf
        obtain ⟨cf1, hcf1⟩ := zip_mem_right _ _ hl12 cf2 hcf2
        have e1 := hz12 _ hcf1
        exact ⟨cf1, (List.of_mem_zip hcf1).1, e1.1.trans hl2, ih _ _ _ e1.2 hr2⟩
  case tuple.part.part i1 pn1 pfs1 pn2 pfs2 =>
    cases h1 : T.tuples[i1]? with
    | none => simp [h1] at s1
    | some ci =>
      simp only [h1, Bool.and_eq_true, decide_eq_true_eq, List.all_eq_true, Bool.not_eq_true',
        decide_eq_false_iff_not, List.any_eq_true] at s1 s2
      obtain ⟨hname1, hf1⟩ := s1
      obtain ⟨hname2, hf2⟩ := s2
      refine (Sub.tuple_part_iff hta htc h1).mpr ⟨?_, fun f2 hf2mem => ?_⟩
      · rintro ⟨hsome, hne⟩
        simp only [nameConflict, Variant.current, Bool.false_eq_true, if_false, Bool.and_eq_false_iff,
          decide_eq_false_iff_not, ne_eq, Decidable.not_not] at hname2
        rcases hname2 with h | h
        · rw [h] at hsome; simp at hsome
        · subst h
          exact hname1 ⟨hsome, hne⟩
      · have := hf2 f2 hf2mem
        cases hfind : pfs1.find? (fun f1 => f1.1 == f2.1) with
        | none => simp [hfind] at this
        | some f1 =>
          simp only [hfind] at this
          have hmem : f1 ∈ pfs1 := List.mem_of_find?_eq_some hfind
          have hl : f1.1 = f2.1 := by simpa using List.find?_some hfind
          obtain ⟨cf, hcf, hcl, hr⟩ := hf1 f1 hmem
          exact ⟨cf, hcf, hl ▸ hcl, ih _ _ _ hr this⟩
  case part.part.part n1 fs1 n2 fs2 n3 fs3 =>
    simp only [Bool.and_eq_true, Bool.not_eq_true', List.all_eq_true] at s1 s2
    obtain ⟨hname1, hf1⟩ := s1
    obtain ⟨hname2, hf2⟩ := s2
    refine (Sub.part_part_iff hta htc).mpr ⟨nameConflict_trans hname1 hname2, fun f3 hf3 => ?_⟩
    have h23 := hf2 f3 hf3
    cases hfind2 : fs2.find? (fun f => f.1 == f3.1) with
    | none => simp [hfind2] at h23
    | some f2 =>
      simp only [hfind2] at h23
      have hmem2 : f2 ∈ fs2 := List.mem_of_find?_eq_some hfind2
      have hl2 : f2.1 = f3.1 := by simpa using List.find?_some hfind2
      have h12 := hf1 f2 hmem2
      cases hfind1 : fs1.find? (fun f => f.1 == f2.1) with
      | none => simp [hfind1] at h12
      | some f1 =>
        simp only [hfind1] at h12
        exact ⟨f1, by rw [← hl2]; exact hfind1, ih _ _ _ h12 h23⟩

theorem Sub.trans_aux (T : Table) : ∀ (k n1 n2 a b c : Nat), n1 + n2 ≤ k →
    subB T n1 a b = true → subB T n2 b c = true → Sub T a c := by
  intro k
  induction k with
  | zero =>
    intro n1 n2 a b c hk h1 _
    have : n1 = 0 := by omega
    subst this
    simp [subB] at h1
  | succ k ih =>
    intro n1 n2 a b c hk h1 h2
    cases n1 with
    | zero => simp [subB] at h1
    | succ m1 =>
      cases n2 with
      | zero => simp [subB] at h2
      | succ m2 =>
        have hab : Sub T a b := ⟨m1 + 1, h1⟩
        have hbc : Sub T b c := ⟨m2 + 1, h2⟩
        obtain ⟨⟨ta, hta⟩, ⟨tb, htb⟩⟩ := hab.in_table
        obtain ⟨_, ⟨tc, htc⟩⟩ := hbc.in_table
        have h1' := h1
        have h2' := h2
        unfold subB at h1' h2'
        simp only [hta, htb] at h1'
        simp only [htb, htc] at h2'
        cases hua : ta.isUnion with
        | true =>
          cases ta <;> simp [Ty.isUnion] at hua
          rename_i vs
          simp only [subStep, List.all_eq_true] at h1'
          exact (Sub.union_left_iff hta htc).mpr
            (fun v hv => ih m1 (m2 + 1) v b c (by omega) (h1' v hv) h2)
        | false =>
          cases hub : tb.isUnion with
          | true =>
            cases tb <;> simp [Ty.isUnion] at hub
            rename_i ws
            rw [subStep_union_right hua] at h1'
            simp only [List.any_eq_true] at h1'
            obtain ⟨w, hw, h1w⟩ := h1'
            simp only [subStep, List.all_eq_true] at h2'
            exact ih m1 m2 a w c (by omega) h1w (h2' w hw)
          | false =>
            cases huc : tc.isUnion with
            | true =>
              cases tc <;> simp [Ty.isUnion] at huc
              rename_i us
              rw [subStep_union_right hub] at h2'
              simp only [List.any_eq_true] at h2'
              obtain ⟨u, hu, h2u⟩ := h2'
              have : Sub T a u := ih (m1 + 1) m2 a b u (by omega) h1 h2u
              exact (Sub.union_right_iff hta hua htc).mpr ⟨u, hu, this⟩
            | false =>
              rw [subStep_struct hua hub] at h1'
              rw [subStep_struct hub huc] at h2'
              exact subStruct_trans hta htb htc
                (fun x y z hxy hyz => ih m1 m2 x y z (by omega) hxy hyz) h1' h2'

/-- **`Sub` is transitive** -/
theorem Sub.trans {T : Table} {a b c : Nat} (hab : Sub T a b) (hbc : Sub T b c) : Sub T a c := by
  obtain ⟨n1, h1⟩ := hab
  obtain ⟨n2, h2⟩ := hbc
  exact Sub.trans_aux T (n1 + n2) n1 n2 a b c (Nat.le_refl _) h1 h2

end QM.Types
