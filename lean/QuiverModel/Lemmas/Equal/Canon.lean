import QuiverModel.Core.Equal.Basic
/-
Lemmas about `compute_canonical_tuples` (owner: C13): closed form, minimality, `canon_spec`,
stability under table growth.
-/
namespace QM.Equal
open QM QM.VM

/-- Index of the first entry of `ts` with shape `s` (`ts.length` if there is none). -/
def firstIdx (s : Shape) : List TupleInfo → Nat
  | [] => 0
  | t :: ts => if t.shape = s then 0 else firstIdx s ts + 1

theorem firstIdx_le (s : Shape) (ts : List TupleInfo) : firstIdx s ts ≤ ts.length := by
  induction ts with
  | nil => simp [firstIdx]
  | cons t ts ih => simp only [firstIdx]; split <;> simp <;> omega

theorem firstIdx_lt_iff (s : Shape) (ts : List TupleInfo) :
    firstIdx s ts < ts.length ↔ ∃ t ∈ ts, t.shape = s := by
  induction ts with
  | nil => simp [firstIdx]
  | cons t ts ih =>
    simp only [firstIdx]
    by_cases h : t.shape = s
    · simp [h]
    · simp [h, ih]

theorem firstIdx_spec (s : Shape) (ts : List TupleInfo) (h : firstIdx s ts < ts.length) :
    (ts[firstIdx s ts]).shape = s ∧ ∀ k (hk : k < firstIdx s ts), (ts[k]'(by omega)).shape ≠ s := by
  induction ts with
  | nil => simp at h
  | cons t ts ih =>
    by_cases ht : t.shape = s
    · simp [firstIdx, ht]
    · have h' : firstIdx s ts < ts.length := by simp [firstIdx, ht] at h; exact h
      have := ih h'
      simp only [firstIdx, ht, if_false]
      refine ⟨by simpa using this.1, ?_⟩
      intro k hk
      cases k with
      | zero => simpa using ht
      | succ k => simpa using this.2 k (by omega)

theorem firstIdx_append_of_mem (s : Shape) (pre rest : List TupleInfo) (h : ∃ t ∈ pre, t.shape = s) :
    firstIdx s (pre ++ rest) = firstIdx s pre := by
  induction pre with
  | nil => simp at h
  | cons t pre ih =>
    by_cases ht : t.shape = s
    · simp [firstIdx, ht]
    · have : ∃ t ∈ pre, t.shape = s := by
        obtain ⟨u, hu, hs⟩ := h
        simp at hu
        rcases hu with rfl | hu
        · exact absurd hs ht
        · exact ⟨u, hu, hs⟩
      simp [firstIdx, ht, ih this]

theorem firstIdx_append_of_not_mem (s : Shape) (pre rest : List TupleInfo) (h : ¬ ∃ t ∈ pre, t.shape = s) :
    firstIdx s (pre ++ rest) = pre.length + firstIdx s rest := by
  induction pre with
  | nil => simp
  | cons t pre ih =>
    have ht : ¬ t.shape = s := fun e => h ⟨t, by simp, e⟩
    have h' : ¬ ∃ t ∈ pre, t.shape = s := fun ⟨u, hu, hs⟩ => h ⟨u, by simp [hu], hs⟩
    simp [firstIdx, ht, ih h']; omega

/-- Loop invariant of `compute_canonical_tuples`: `by_shape` maps exactly the shapes seen so far,
each to its first index. -/
def SeenInv (seen : List (Shape × Nat)) (pre : List TupleInfo) : Prop :=
  ∀ s, lookupShape s seen = if (∃ t ∈ pre, t.shape = s) then some (firstIdx s pre) else none

theorem canonGo_eq (rest : List TupleInfo) : ∀ (seen : List (Shape × Nat)) (pre : List TupleInfo),
    SeenInv seen pre →
    canonGo seen pre.length rest = rest.map (fun t => firstIdx t.shape (pre ++ rest)) := by
  induction rest with
  | nil => intros; simp [canonGo]
  | cons t rest ih =>
    intro seen pre inv
    have hpre : pre ++ t :: rest = (pre ++ [t]) ++ rest := by simp
    have hlen : pre.length + 1 = (pre ++ [t]).length := by simp
    simp only [canonGo, List.map_cons]
    by_cases hm : ∃ u ∈ pre, u.shape = t.shape
    · have hl := inv t.shape
      simp only [hm, if_true] at hl
      rw [hl]
      simp only
      have inv' : SeenInv seen (pre ++ [t]) := by
        intro s
        rw [inv s]
        by_cases hs : ∃ u ∈ pre, u.shape = s
        · have : ∃ u ∈ pre ++ [t], u.shape = s := by
            obtain ⟨u, hu, e⟩ := hs; exact ⟨u, by simp [hu], e⟩
          simp [hs, firstIdx_append_of_mem s pre [t] hs]
        · have hts : t.shape ≠ s := by
            intro e; apply hs; obtain ⟨u, hu, e'⟩ := hm; exact ⟨u, hu, e'.trans e⟩
          have : ¬ ∃ u ∈ pre ++ [t], u.shape = s := by
            rintro ⟨u, hu, e⟩
            simp at hu
            rcases hu with hu | rfl
            · exact hs ⟨u, hu, e⟩
            · exact hts e
          simp [hs, hts]
      rw [hlen, ih seen (pre ++ [t]) inv', ← hpre, firstIdx_append_of_mem _ _ _ hm]
    · have hl := inv t.shape
      simp only [hm, if_false] at hl
      rw [hl]
      simp only
      have inv' : SeenInv ((t.shape, pre.length) :: seen) (pre ++ [t]) := by
        intro s
        simp only [lookupShape]
        by_cases hts : t.shape = s
        · have : ∃ u ∈ pre ++ [t], u.shape = s := ⟨t, by simp, hts⟩
          have hn : ¬ ∃ u ∈ pre, u.shape = s := by rw [← hts]; exact hm
          simp [hts, firstIdx_append_of_not_mem s pre [t] hn, firstIdx]
        · rw [if_neg hts, inv s]
          by_cases hs : ∃ u ∈ pre, u.shape = s
          · have : ∃ u ∈ pre ++ [t], u.shape = s := by
              obtain ⟨u, hu, e⟩ := hs; exact ⟨u, by simp [hu], e⟩
            simp [hs, firstIdx_append_of_mem s pre [t] hs]
          · have : ¬ ∃ u ∈ pre ++ [t], u.shape = s := by
              rintro ⟨u, hu, e⟩
              simp at hu
              rcases hu with hu | rfl
              · exact hs ⟨u, hu, e⟩
              · exact hts e
            simp [hs, hts]
      rw [hlen, ih _ (pre ++ [t]) inv', ← hpre, firstIdx_append_of_not_mem _ _ _ hm]
      simp [firstIdx]

/-- Closed form of `compute_canonical_tuples`: every id is mapped to the first id with its shape. -/
theorem canonicalTuples_eq (ts : List TupleInfo) :
    canonicalTuples ts = ts.map (fun t => firstIdx t.shape ts) := by
  have := canonGo_eq ts [] [] (by intro s; simp [lookupShape])
  simpa [canonicalTuples] using this

theorem canonicalTuples_length (ts : List TupleInfo) : (canonicalTuples ts).length = ts.length := by
  simp [canonicalTuples_eq]

theorem canonicalTuples_getElem (ts : List TupleInfo) (i : Nat) (hi : i < ts.length) :
    (canonicalTuples ts)[i]'(by simpa [canonicalTuples_length] using hi) = firstIdx (ts[i]).shape ts := by
  simp [canonicalTuples_eq]

/-- **Minimality**: the canonical id of `i` is the *lowest* id with the same name and labels. -/
theorem canon_least (ts : List TupleInfo) (i : Nat) (hi : i < ts.length) :
    let k := (canonicalTuples ts)[i]'(by simpa [canonicalTuples_length] using hi)
    ∃ hk : k < ts.length, k ≤ i ∧ (ts[k]).shape = (ts[i]).shape ∧
      ∀ m (hm : m < k), (ts[m]'(by omega)).shape ≠ (ts[i]).shape := by
  intro k
  have hk : k = firstIdx (ts[i]).shape ts := canonicalTuples_getElem ts i hi
  have hlt : firstIdx (ts[i]).shape ts < ts.length :=
    (firstIdx_lt_iff _ _).2 ⟨ts[i], List.getElem_mem hi, rfl⟩
  have sp := firstIdx_spec _ ts hlt
  refine ⟨by omega, ?_, ?_, ?_⟩
  · rw [hk]
    apply Nat.le_of_not_lt
    intro h
    exact sp.2 i h rfl
  · simp only [hk]; exact sp.1
  · intro m hm
    exact sp.2 m (by omega)

/-- **`canon_spec`**: two tuple ids in range have the same canonical id exactly when they have the
same name and the same field labels (field types play no role — `TupleInfo` does not carry them). -/
theorem canon_spec (ts : List TupleInfo) (i j : Nat) (hi : i < ts.length) (hj : j < ts.length) :
    (canonicalTuples ts)[i]'(by simpa [canonicalTuples_length] using hi)
      = (canonicalTuples ts)[j]'(by simpa [canonicalTuples_length] using hj)
    ↔ (ts[i]).name = (ts[j]).name ∧ (ts[i]).labels = (ts[j]).labels := by
  rw [canonicalTuples_getElem ts i hi, canonicalTuples_getElem ts j hj]
  have hli : firstIdx (ts[i]).shape ts < ts.length :=
    (firstIdx_lt_iff _ _).2 ⟨ts[i], List.getElem_mem hi, rfl⟩
  have hlj : firstIdx (ts[j]).shape ts < ts.length :=
    (firstIdx_lt_iff _ _).2 ⟨ts[j], List.getElem_mem hj, rfl⟩
  have si := (firstIdx_spec _ ts hli).1
  have sj := (firstIdx_spec _ ts hlj).1
  have hshape : (ts[i]).shape = (ts[j]).shape ↔ (ts[i]).name = (ts[j]).name ∧ (ts[i]).labels = (ts[j]).labels := by
    simp [TupleInfo.shape]
  rw [← hshape]
  constructor
  · intro h
    rw [← si, ← sj]
    simp only [h]
  · intro h; rw [h]

/-- The executor-side reading `canonical_tuple(id)` for a coherent context and ids in range. -/
theorem canonOf_ofProgram (ts : List TupleInfo) (cs : List Const) (hp : List Rope) (i : Nat)
    (hi : i < ts.length) :
    (Ctx.ofProgram ts cs hp).canonOf i = firstIdx (ts[i]).shape ts := by
  simp [Ctx.canonOf, Ctx.ofProgram, canonicalTuples_eq, hi]

/-- Canonical ids are **stable under program growth** (the REPL appends tuples and recomputes the
table at every update): ids already present keep their canonical id. -/
theorem canon_append_stable (ts more : List TupleInfo) (i : Nat) (hi : i < ts.length) :
    (canonicalTuples (ts ++ more))[i]'(by simp [canonicalTuples_length]; omega)
      = (canonicalTuples ts)[i]'(by simpa [canonicalTuples_length] using hi) := by
  rw [canonicalTuples_getElem ts i hi, canonicalTuples_getElem (ts ++ more) i (by simp; omega)]
  have : (ts ++ more)[i]'(by simp; omega) = ts[i] := by simp [List.getElem_append_left hi]
  rw [this]
  exact firstIdx_append_of_mem _ ts more ⟨ts[i], List.getElem_mem hi, rfl⟩

/-- `canonical_tuple` falls back to the id itself outside the table. -/
theorem canonOf_out_of_range (X : Ctx) (i : Nat) (h : X.canon.length ≤ i) : X.canonOf i = i := by
  simp [Ctx.canonOf, h]

example : canonicalTuples
    [⟨none, []⟩, ⟨some "Ok", []⟩, ⟨some "P", [some "x", none]⟩, ⟨some "P", [some "y", none]⟩,
     ⟨some "P", [some "x", none]⟩, ⟨some "Q", [some "x", none]⟩, ⟨some "P", [some "x", none]⟩]
    = [0, 1, 2, 3, 2, 5, 2] := by decide

end QM.Equal
