import QuiverModel.Core.Equal.Basic
/-
Lemmas about `create_ref` (owner: C13): the minted word as a number, injectivity within the
2^48 guard, the multi-worker minting invariant.
-/
namespace QM.Equal
open QM QM.VM


theorem mintRef_toNat (w : UInt16) (c : UInt64) (hc : c.toNat < 2 ^ 48) :
    (mintRef w c).toNat = w.toNat * 2 ^ 48 + c.toNat := by
  unfold mintRef
  rw [UInt64.toNat_or, UInt64.toNat_shiftLeft]
  have hw : w.toNat < 2 ^ 16 := w.toNat_lt
  simp only [UInt16.toNat_toUInt64]
  have h48 : (48 : UInt64).toNat % 64 = 48 := by decide
  rw [h48, Nat.shiftLeft_eq]
  have : w.toNat * 2 ^ 48 < 2 ^ 64 := by omega
  rw [Nat.mod_eq_of_lt this, ← Nat.shiftLeft_eq, ← Nat.shiftLeft_add_eq_or_of_lt hc, Nat.shiftLeft_eq]

/-- Unconditionally, the minted word is the bitwise OR on naturals (no truncation: the shifted
worker id is below `2^64`). -/
theorem mintRef_toNat_or (w : UInt16) (c : UInt64) :
    (mintRef w c).toNat = (w.toNat * 2 ^ 48) ||| c.toNat := by
  unfold mintRef
  rw [UInt64.toNat_or, UInt64.toNat_shiftLeft]
  have hw : w.toNat < 2 ^ 16 := w.toNat_lt
  simp only [UInt16.toNat_toUInt64]
  have h48 : (48 : UInt64).toNat % 64 = 48 := by decide
  rw [h48, Nat.shiftLeft_eq]
  have : w.toNat * 2 ^ 48 < 2 ^ 64 := by omega
  rw [Nat.mod_eq_of_lt this]

theorem mintRef_injective (w₁ w₂ : UInt16) (c₁ c₂ : UInt64)
    (h₁ : c₁.toNat < 2 ^ 48) (h₂ : c₂.toNat < 2 ^ 48) (h : mintRef w₁ c₁ = mintRef w₂ c₂) :
    w₁ = w₂ ∧ c₁ = c₂ := by
  have hn := congrArg UInt64.toNat h
  rw [mintRef_toNat w₁ c₁ h₁, mintRef_toNat w₂ c₂ h₂] at hn
  have hw : w₁.toNat = w₂.toNat := by omega
  have hc : c₁.toNat = c₂.toNat := by omega
  exact ⟨UInt16.toNat_inj.1 hw, UInt64.toNat_inj.1 hc⟩

/-- The worker and the counter can be read back from a ref minted within the guard. -/
theorem mintRef_decode (w : UInt16) (c : UInt64) (hc : c.toNat < 2 ^ 48) :
    (mintRef w c).toNat / 2 ^ 48 = w.toNat ∧ (mintRef w c).toNat % 2 ^ 48 = c.toNat := by
  rw [mintRef_toNat w c hc]
  constructor <;> omega

/-- Beyond the guard the counter spills into the worker field: worker 0's `2^48`-th ref *is*
worker 1's first ref. -/
theorem mintRef_collision_beyond_guard : mintRef 0 (2 ^ 48) = mintRef 1 0 := by decide

/-! ### The multi-worker minting model -/

/-- Invariant of the minting system with `n` workers. -/
structure MintInv (n : Nat) (s : MintState) : Prop where
  len : s.counters.length = n
  bound : ∀ (w : Nat) (c : UInt64), s.counters[w]? = some c → c.toNat ≤ s.minted.length
  shape : ∀ w r, (w, r) ∈ s.minted →
    ∃ c k : UInt64, s.counters[w]? = some c ∧ k.toNat < c.toNat ∧ r = mintRef (UInt16.ofNat w) k
  nodup : (s.minted.map Prod.snd).Nodup

theorem MintInv.init (n : Nat) : MintInv n (MintState.init n) := by
  refine ⟨by simp [MintState.init], ?_, ?_, ?_⟩
  · intro w c h
    simp [MintState.init, List.getElem?_replicate] at h
    simp [← h.2]
  · intro w r h; simp [MintState.init] at h
  · simp [MintState.init]

theorem MintInv.step (n : Nat) (hn : n ≤ 65536) (s s' : MintState) (w : Nat)
    (inv : MintInv n s) (hroom : s.minted.length < 2 ^ 48) (h : s.mint w = some s') :
    MintInv n s' ∧ s'.minted.length = s.minted.length + 1 := by
  unfold MintState.mint at h
  cases hc : s.counters[w]? with
  | none => simp [hc] at h
  | some c =>
    have hwlt : w < n := by
      have := (List.getElem?_eq_some_iff.1 hc).1
      rw [inv.len] at this; exact this
    have hcb : c.toNat ≤ s.minted.length := inv.bound w c hc
    have hc48 : c.toNat < 2 ^ 48 := by omega
    have hne : c ≠ 0xFFFFFFFFFFFFFFFF := by
      intro e; rw [e] at hc48; revert hc48; decide
    have hsucc : (c + 1).toNat = c.toNat + 1 := by
      rw [UInt64.toNat_add]
      have : (1 : UInt64).toNat = 1 := by decide
      rw [this]
      apply Nat.mod_eq_of_lt
      have : (2:Nat) ^ 48 < 2 ^ 64 := by decide
      omega
    simp only [hc, createRef, hne, if_false] at h
    cases h
    refine ⟨⟨?_, ?_, ?_, ?_⟩, by simp⟩
    · simp [inv.len]
    · intro w' c' h'
      simp only [List.length_cons]
      by_cases e : w' = w
      · subst e
        rw [List.getElem?_set_self (by rw [inv.len]; exact hwlt)] at h'
        cases h'
        omega
      · rw [List.getElem?_set_ne (Ne.symm e)] at h'
        have := inv.bound w' c' h'
        omega
    · intro w' r h'
      simp only [List.mem_cons, Prod.mk.injEq] at h'
      rcases h' with ⟨rfl, rfl⟩ | h'
      · refine ⟨c + 1, c, ?_, by omega, rfl⟩
        rw [List.getElem?_set_self (by rw [inv.len]; exact hwlt)]
      · obtain ⟨c', k, hc', hk, hr⟩ := inv.shape w' r h'
        by_cases e : w' = w
        · subst e
          rw [hc] at hc'; cases hc'
          refine ⟨c + 1, k, ?_, by omega, hr⟩
          rw [List.getElem?_set_self (by rw [inv.len]; exact hwlt)]
        · exact ⟨c', k, by rw [List.getElem?_set_ne (Ne.symm e)]; exact hc', hk, hr⟩
    · simp only [List.map_cons, List.nodup_cons]
      refine ⟨?_, inv.nodup⟩
      intro hmem
      obtain ⟨⟨w', r⟩, hm, hr⟩ := List.mem_map.1 hmem
      simp only at hr
      obtain ⟨c', k, hc', hk, hr'⟩ := inv.shape w' r hm
      rw [hr] at hr'
      have hr := hr'.symm
      have hw'lt : w' < n := by
        have := (List.getElem?_eq_some_iff.1 hc').1
        rw [inv.len] at this; exact this
      have hc'b := inv.bound w' c' hc'
      have hk48 : k.toNat < 2 ^ 48 := by omega
      have := mintRef_injective _ _ _ _ hk48 hc48 hr
      have hww : w' = w := by
        have h1 := congrArg UInt16.toNat this.1
        simp only [UInt16.toNat_ofNat'] at h1
        rw [Nat.mod_eq_of_lt (by omega), Nat.mod_eq_of_lt (by omega)] at h1
        exact h1
      subst hww
      rw [hc] at hc'; cases hc'
      rw [this.2] at hk
      omega

theorem MintInv.run (n : Nat) (hn : n ≤ 65536) : ∀ (ws : List Nat) (s s' : MintState),
    MintInv n s → s.minted.length + ws.length ≤ 2 ^ 48 → s.run ws = some s' → MintInv n s'
  | [], s, s', inv, _, h => by simp [MintState.run] at h; subst h; exact inv
  | w :: ws, s, s', inv, hb, h => by
    simp only [MintState.run] at h
    cases hm : s.mint w with
    | none => simp [hm] at h
    | some s1 =>
      simp only [hm] at h
      simp only [List.length_cons] at hb
      obtain ⟨inv1, hl1⟩ := MintInv.step n hn s s1 w inv (by omega) hm
      exact MintInv.run n hn ws s1 s' inv1 (by omega) h

end QM.Equal
