import QuiverModel.Lemmas.Equal.Canon
/-
Lemmas about `values_equal` (owner: C13): the binary arm, canonical ids in a coherent context,
the mutual induction `valuesEqual ↔ erase =`.
-/
namespace QM.Equal
open QM QM.VM

/-- The stored length of a well-formed rope is the length of its flattening. -/
theorem Rope.len_eq : ∀ r : Rope, r.LenOK → r.len = r.toVec.length
  | .owned _, _ => rfl
  | .zeroed _, _ => by simp [Rope.len, Rope.toVec]
  | .slice p off l, h => by
    have ih := Rope.len_eq p h.1
    have hb := h.2
    simp only [Rope.len, Rope.toVec, List.length_take, List.length_drop]
    omega
  | .concat l r t, h => by
    have i1 := Rope.len_eq l h.1
    have i2 := Rope.len_eq r h.2.1
    simp only [Rope.len, Rope.toVec, List.length_append, h.2.2, i1, i2]
  | .tiled u c, h => by
    have ih := Rope.len_eq u h.1
    have hb := h.2
    simp only [Rope.len, Rope.toVec, List.length_flatten, List.map_replicate, List.sum_replicate_nat]
    rw [Nat.min_eq_left hb, ih, Nat.mul_comm]

theorem Rope.lenOKB_iff : ∀ r : Rope, r.lenOKB = true ↔ r.LenOK
  | .owned _ => by simp [Rope.lenOKB, Rope.LenOK]
  | .zeroed _ => by simp [Rope.lenOKB, Rope.LenOK]
  | .slice p _ _ => by simp [Rope.lenOKB, Rope.LenOK, Rope.lenOKB_iff p]
  | .concat l r _ => by simp [Rope.lenOKB, Rope.LenOK, Rope.lenOKB_iff l, Rope.lenOKB_iff r, and_assoc]
  | .tiled u _ => by simp [Rope.lenOKB, Rope.LenOK, Rope.lenOKB_iff u]

/-! The smart constructors preserve the invariant and have the expected bytes: every rope the
builtins can allocate (`binary_concat`, `binary_slice`, `binary_repeat`, `binary_new`, literals)
satisfies `LenOK`, so `Ctx.Coherent`'s heap clause is an invariant of the allocation API. -/

theorem Rope.mkConcat_ok (l r : Rope) (hl : l.LenOK) (hr : r.LenOK) :
    (Rope.mkConcat l r).LenOK ∧ (Rope.mkConcat l r).toVec = l.toVec ++ r.toVec :=
  ⟨⟨hl, hr, rfl⟩, rfl⟩

theorem Rope.mkSlice_ok (p : Rope) (off l : Nat) (hp : p.LenOK) (r : Rope)
    (h : Rope.mkSlice p off l = some r) :
    r.LenOK ∧ r.toVec = (p.toVec.drop off).take l := by
  unfold Rope.mkSlice at h
  have hlen := Rope.len_eq p hp
  split at h
  · cases h
  · rename_i hb
    split at h
    · cases h; rename_i hz; subst hz; simp [Rope.LenOK, Rope.toVec]
    · split at h
      · cases h; rename_i hf
        refine ⟨hp, ?_⟩
        rw [hf.1, hf.2, hlen]; simp
      · cases h
        refine ⟨⟨hp, by omega⟩, rfl⟩

theorem Rope.mkTiled_ok (u : Rope) (c : Nat) (hu : u.LenOK)
    (hsize : (Rope.mkTiled u c).len ≤ maxBinarySize) :
    (Rope.mkTiled u c).LenOK ∧ (Rope.mkTiled u c).toVec = (List.replicate c u.toVec).flatten := by
  have hlen := Rope.len_eq u hu
  unfold Rope.mkTiled at hsize ⊢
  split
  · rename_i h
    refine ⟨trivial, ?_⟩
    rcases h with rfl | h0
    · simp [Rope.toVec]
    · have : u.toVec = [] := List.eq_nil_of_length_eq_zero (by omega)
      simp [Rope.toVec, this]
  · split
    · rename_i h1; subst h1
      exact ⟨hu, by simp⟩
    · rename_i h0 h1
      rw [if_neg h0, if_neg h1] at hsize
      refine ⟨⟨hu, ?_⟩, rfl⟩
      simp only [Rope.len] at hsize
      have hmax : maxBinarySize < usizeMax := by decide
      by_cases hle : u.len * c ≤ usizeMax
      · exact hle
      · rw [Nat.min_eq_right (by omega)] at hsize; omega

/-- What `update_program` and the allocation discipline establish: the canonical table is the one
`compute_canonical_tuples` produces for the tuple table, and every heap rope stores its true length. -/
def Ctx.Coherent (X : Ctx) : Prop :=
  X.canon = canonicalTuples X.tuples ∧ ∀ r ∈ X.heap, r.LenOK

theorem Ctx.ofProgram_coherent (ts cs hp) (h : ∀ r ∈ hp, Rope.LenOK r) : (Ctx.ofProgram ts cs hp).Coherent :=
  ⟨rfl, h⟩

/-- **Binary equality does not depend on the rope shape**: all four sub-arms compute "both handles
resolve and the flattened bytes agree" — for the heap/heap arm this needs the length invariant
(the `len()` fast path answers `false` as soon as the *stored* lengths differ). -/
theorem binEqual_eq (X : Ctx) (hH : ∀ r ∈ X.heap, r.LenOK) (a b : Bin) :
    binEqual X a b = (match X.bytesOf a, X.bytesOf b with
      | some x, some y => x == y
      | _, _ => false) := by
  cases a <;> cases b <;> simp only [binEqual, Ctx.bytesOf]
  · rfl
  · rfl
  · cases X.constBytes _ <;> cases X.heapBytes _ <;> simp
    rw [Bool.eq_iff_iff]; simp only [beq_iff_eq]; exact eq_comm
  · rename_i ia ib
    simp only [Ctx.heapBytes]
    cases ha : X.heap[ia]? with
    | none => simp
    | some ra =>
      cases hb : X.heap[ib]? with
      | none => simp
      | some rb =>
        have la := Rope.len_eq ra (hH ra (List.mem_of_getElem? ha))
        have lb := Rope.len_eq rb (hH rb (List.mem_of_getElem? hb))
        simp only [Option.map_some]
        by_cases hl : ra.len = rb.len
        · simp [hl]
        · have : ra.toVec ≠ rb.toVec := by
            intro e; apply hl; rw [la, lb, e]
          simp [hl, this]

/-- Without the invariant the verdict *does* depend on the shape: a `Concat` node that stores a
wrong total is unequal to the flat binary with the same bytes. -/
theorem binEqual_needs_LenOK :
    let X : Ctx := { tuples := [], canon := [], consts := [],
                     heap := [.concat (.owned [1]) (.owned [2]) 3, .owned [1, 2]] }
    binEqual X (.heap 0) (.heap 1) = false ∧ X.heapBytes 0 = X.heapBytes 1 := by
  decide

theorem canonOf_eq_iff (X : Ctx) (hX : X.Coherent) (i j : Nat) (ti tj : TupleInfo)
    (hi : X.tuples[i]? = some ti) (hj : X.tuples[j]? = some tj) :
    X.canonOf i = X.canonOf j ↔ ti.name = tj.name ∧ ti.labels = tj.labels := by
  obtain ⟨hi', rfl⟩ := List.getElem?_eq_some_iff.1 hi
  obtain ⟨hj', rfl⟩ := List.getElem?_eq_some_iff.1 hj
  have := canon_spec X.tuples i j hi' hj'
  rw [← this]
  unfold Ctx.canonOf
  rw [hX.1]
  simp [canonicalTuples_length, hi', hj']

theorem eraseList_length_eq (X : Ctx) : ∀ (as bs : ValList), eraseList X as = eraseList X bs → as.length = bs.length
  | .nil, .nil, _ => rfl
  | .nil, .cons _ _, h => by simp [eraseList] at h
  | .cons _ _, .nil, h => by simp [eraseList] at h
  | .cons a as, .cons b bs, h => by
    simp only [eraseList, SVList.cons.injEq] at h
    have := eraseList_length_eq X as bs h.2
    simp [ValList.length] at this ⊢
    exact this

theorem erase_bin_of_wf (X : Ctx) (b : Bin) (h : (X.bytesOf b).isSome) :
    ∃ bs, X.bytesOf b = some bs ∧ erase X (.bin b) = .bin bs := by
  cases hb : X.bytesOf b with
  | none => simp [hb] at h
  | some bs => exact ⟨bs, rfl, by simp [erase, hb]⟩

theorem erase_tup_of_some (X : Ctx) (id : Nat) (fs : ValList) (t : TupleInfo) (h : X.tuples[id]? = some t) :
    erase X (.tup id fs) = .tup t.name t.labels (eraseList X fs) := by
  simp [erase, h]

@[simp] theorem erase_int (X : Ctx) (z : Int) : erase X (.int z) = .int z := by simp [erase]
@[simp] theorem erase_ref (X : Ctx) (r : Nat) : erase X (.ref r) = .ref r := by simp [erase]
@[simp] theorem erase_fn (X : Ctx) (i : Nat) (cs : ValList) : erase X (.fn i cs) = .fn i (eraseList X cs) := by
  simp [erase]
@[simp] theorem erase_builtin (X : Ctx) (i : Nat) : erase X (.builtin i) = .builtin i := by simp [erase]
@[simp] theorem erase_proc (X : Ctx) (p f : Nat) : erase X (.proc p f) = .proc p := by simp [erase]
@[simp] theorem erase_res (X : Ctx) (r t : Nat) : erase X (.res r t) = .res r := by simp [erase]

mutual
theorem valuesEqual_iff_erase_aux (X : Ctx) (hX : X.Coherent) (pf : Nat → Nat) :
    ∀ (a b : Val), WF X pf a → WF X pf b → (valuesEqual X a b = true ↔ erase X a = erase X b)
  | .int x, b, _, hb => by
    cases b
    all_goals try (simp [valuesEqual]; done)
    case bin => obtain ⟨bs, _, e⟩ := erase_bin_of_wf X _ hb; simp [valuesEqual, e]
    case tup => obtain ⟨⟨t, ht, _⟩, _⟩ := hb; simp [valuesEqual, erase_tup_of_some X _ _ t ht]
  | .bin x, b, ha, hb => by
    obtain ⟨as, hxa, ea⟩ := erase_bin_of_wf X _ ha
    cases b
    all_goals try (simp [valuesEqual, ea]; done)
    case bin =>
      obtain ⟨bs, hxb, eb⟩ := erase_bin_of_wf X _ hb
      simp [valuesEqual, binEqual_eq X hX.2, hxa, hxb, ea, eb]
    case tup => obtain ⟨⟨t, ht, _⟩, _⟩ := hb; simp [valuesEqual, erase_tup_of_some X _ _ t ht, ea]
  | .ref x, b, _, hb => by
    cases b
    all_goals try (simp [valuesEqual]; done)
    case bin => obtain ⟨bs, _, e⟩ := erase_bin_of_wf X _ hb; simp [valuesEqual, e]
    case tup => obtain ⟨⟨t, ht, _⟩, _⟩ := hb; simp [valuesEqual, erase_tup_of_some X _ _ t ht]
  | .tup ta ea, b, ha, hb => by
    obtain ⟨⟨t1, ht1, hl1⟩, hwa⟩ := ha
    have e1 := erase_tup_of_some X ta ea t1 ht1
    cases b
    all_goals try (simp [valuesEqual, e1]; done)
    case bin => obtain ⟨bs, _, e⟩ := erase_bin_of_wf X _ hb; simp [valuesEqual, e, e1]
    case tup tb eb =>
      obtain ⟨⟨t2, ht2, hl2⟩, hwb⟩ := hb
      have e2 := erase_tup_of_some X tb eb t2 ht2
      have hz := zipAllEqual_iff_eraseList_aux X hX pf ea eb hwa hwb
      have hc := canonOf_eq_iff X hX ta tb t1 t2 ht1 ht2
      simp only [valuesEqual, e1, e2, SV.tup.injEq, Bool.and_eq_true, beq_iff_eq, hc, ← hz]
      constructor
      · rintro ⟨⟨h1, h2⟩, h3, h4⟩; exact ⟨h1, h2, h3, h4⟩
      · rintro ⟨h1, h2, h3, h4⟩; exact ⟨⟨h1, h2⟩, h3, h4⟩
  | .fn ia ca, b, ha, hb => by
    cases b
    all_goals try (simp [valuesEqual]; done)
    case bin => obtain ⟨bs, _, e⟩ := erase_bin_of_wf X _ hb; simp [valuesEqual, e]
    case tup => obtain ⟨⟨t, ht, _⟩, _⟩ := hb; simp [valuesEqual, erase_tup_of_some X _ _ t ht]
    case fn ib cb =>
      have hz := zipAllEqual_iff_eraseList_aux X hX pf ca cb ha hb
      simp only [valuesEqual, erase_fn, SV.fn.injEq, Bool.and_eq_true, beq_iff_eq, ← hz]
  | .builtin x, b, _, hb => by
    cases b
    all_goals try (simp [valuesEqual]; done)
    case bin => obtain ⟨bs, _, e⟩ := erase_bin_of_wf X _ hb; simp [valuesEqual, e]
    case tup => obtain ⟨⟨t, ht, _⟩, _⟩ := hb; simp [valuesEqual, erase_tup_of_some X _ _ t ht]
  | .proc p f, b, ha, hb => by
    cases b
    all_goals try (simp [valuesEqual]; done)
    case bin => obtain ⟨bs, _, e⟩ := erase_bin_of_wf X _ hb; simp [valuesEqual, e]
    case tup => obtain ⟨⟨t, ht, _⟩, _⟩ := hb; simp [valuesEqual, erase_tup_of_some X _ _ t ht]
    case proc q g =>
      simp only [WF] at ha hb
      simp only [valuesEqual, erase_proc, SV.proc.injEq, Bool.and_eq_true, beq_iff_eq, ha, hb]
      constructor
      · exact fun h => h.1
      · intro h; exact ⟨h, by rw [h]⟩
  | .res r t, b, _, hb => by
    cases b
    all_goals try (simp [valuesEqual]; done)
    case bin => obtain ⟨bs, _, e⟩ := erase_bin_of_wf X _ hb; simp [valuesEqual, e]
    case tup => obtain ⟨⟨t, ht, _⟩, _⟩ := hb; simp [valuesEqual, erase_tup_of_some X _ _ t ht]
theorem zipAllEqual_iff_eraseList_aux (X : Ctx) (hX : X.Coherent) (pf : Nat → Nat) :
    ∀ (as bs : ValList), WFList X pf as → WFList X pf bs →
      ((as.length = bs.length ∧ zipAllEqual X as bs = true) ↔ eraseList X as = eraseList X bs)
  | .nil, .nil, _, _ => by simp [zipAllEqual, eraseList]
  | .nil, .cons _ _, _, _ => by simp [eraseList, ValList.length]
  | .cons _ _, .nil, _, _ => by simp [eraseList, ValList.length]
  | .cons a as, .cons b bs, ha, hb => by
    simp only [WFList] at ha hb
    have h1 := valuesEqual_iff_erase_aux X hX pf a b ha.1 hb.1
    have h2 := zipAllEqual_iff_eraseList_aux X hX pf as bs ha.2 hb.2
    simp only [zipAllEqual, eraseList, SVList.cons.injEq, Bool.and_eq_true, ← h1, ← h2]
    simp [ValList.length]
    constructor <;> rintro ⟨h1, h2, h3⟩ <;> exact ⟨h2, h1, h3⟩
end

/-! ### `WF` = the driver's decidable check + coherence of process handles -/

mutual
/-- Every process handle inside the value carries the function index `pf pid`. -/
def ProcOK (pf : Nat → Nat) : Val → Prop
  | .proc pid f => f = pf pid
  | .tup _ fs => ProcOKList pf fs
  | .fn _ caps => ProcOKList pf caps
  | _ => True
def ProcOKList (pf : Nat → Nat) : ValList → Prop
  | .nil => True
  | .cons v vs => ProcOK pf v ∧ ProcOKList pf vs
end

mutual
/-- `WF` is the decidable check the driver evaluates (`wfB`) plus coherence of process handles. -/
theorem WF_iff_wfB (X : Ctx) (pf : Nat → Nat) : ∀ a : Val, WF X pf a ↔ (wfB X a = true ∧ ProcOK pf a)
  | .int _ => by simp [WF, wfB, ProcOK]
  | .bin _ => by simp [WF, wfB, ProcOK]
  | .ref _ => by simp [WF, wfB, ProcOK]
  | .builtin _ => by simp [WF, wfB, ProcOK]
  | .proc _ _ => by simp [WF, wfB, ProcOK]
  | .res _ _ => by simp [WF, wfB, ProcOK]
  | .fn _ caps => by
    have := WFList_iff_wfListB X pf caps
    simp [WF, wfB, ProcOK, this]
  | .tup id fs => by
    have := WFList_iff_wfListB X pf fs
    simp only [WF, wfB, ProcOK, this, Bool.and_eq_true]
    cases h : X.tuples[id]? with
    | none => simp
    | some t => simp [ValList.length]; constructor <;> (intro h; simp_all)
theorem WFList_iff_wfListB (X : Ctx) (pf : Nat → Nat) :
    ∀ l : ValList, WFList X pf l ↔ (wfListB X l = true ∧ ProcOKList pf l)
  | .nil => by simp [WFList, wfListB, ProcOKList]
  | .cons v vs => by
    have h1 := WF_iff_wfB X pf v
    have h2 := WFList_iff_wfListB X pf vs
    simp only [WFList, wfListB, ProcOKList, h1, h2, Bool.and_eq_true]
    constructor
    · rintro ⟨⟨a, b⟩, c, d⟩; exact ⟨⟨a, c⟩, b, d⟩
    · rintro ⟨⟨a, c⟩, b, d⟩; exact ⟨⟨a, b⟩, c, d⟩
end


end QM.Equal
