import QuiverModel.Lemmas.Heap.Basic
/-
The accounting invariant of M-Heap and the three "workhorse" lemmas every value-movement site is
proved with: retain-and-add-to-a-root, remove-from-a-root-and-release, move-between-roots.
-/
namespace QM.Heap
open State

/-- what the counts are compared with: occurrences reachable from the roots + occurrences in handles
in transit that are still counted -/
def State.total (s : State) (i : Nat) : Nat := s.countRefs i + s.floating i

/-- **Acct**: every count is exactly the number of references (paths) that exist. Stated for every
index, so it also says that no root mentions a slot beyond the heap. -/
def Acct (s : State) : Prop := ∀ i, s.rc i = s.countRefs i + s.floating i

/-- the full invariant of the heap part of an executor -/
structure Inv (s : State) : Prop where
  shapeRc : s.refcounts.size = s.heap.size
  shapeFr : s.freed.size = s.heap.size
  acct : Acct s
  /-- a freed slot has count 0 -/
  freedZero : ∀ i, s.isFreed i = true → s.rc i = 0
  /-- the reuse pool holds freed slots only … -/
  freeFreed : ∀ j ∈ s.free, s.isFreed j = true
  /-- … all of them … -/
  freedFree : ∀ i, s.isFreed i = true → i ∈ s.free
  /-- … once each -/
  freeNodup : s.free.Nodup
  /-- a live slot at count 0 is queued for reclamation, unless it was never retained -/
  queued : ∀ i, i < s.heap.size → s.rc i = 0 → s.isFreed i = false → i ∈ s.pendingFree ∨ i ∈ s.fresh
  /-- queued indices are slots -/
  pendLt : ∀ j ∈ s.pendingFree, j < s.heap.size
  /-- none of the heap's debug assertions (`retain` / `release` / `get_binary_data` / `materialize`
  of a freed slot, `release` underflow) has fired -/
  noUaf : s.uaf = false

/-- a handle that may be used: its slots exist and are not freed -/
def Live (s : State) (v : Val) : Prop := ∀ j, 0 < v.count j → j < s.heap.size ∧ s.isFreed j = false
def LiveL (s : State) (vs : List Val) : Prop := ∀ j, 0 < countList j vs → j < s.heap.size ∧ s.isFreed j = false

theorem live_tuple {s : State} {id : Nat} {fs : List Val} : Live s (.tuple id fs) ↔ LiveL s fs := by
  simp [Live, LiveL]
theorem live_func {s : State} {id : Nat} {fs : List Val} : Live s (.func id fs) ↔ LiveL s fs := by
  simp [Live, LiveL]
theorem liveL_cons {s : State} {v : Val} {vs : List Val} : LiveL s (v :: vs) ↔ Live s v ∧ LiveL s vs := by
  constructor
  · intro h; exact ⟨fun j hj => h j (by simp; omega), fun j hj => h j (by simp; omega)⟩
  · intro ⟨h1, h2⟩ j hj
    simp only [countList_cons] at hj
    by_cases hc : 0 < v.count j
    · exact h1 j hc
    · exact h2 j (by omega)
theorem liveL_nil {s : State} : LiveL s [] := by intro j hj; simp at hj
theorem liveL_append {s : State} {xs ys : List Val} : LiveL s (xs ++ ys) ↔ LiveL s xs ∧ LiveL s ys := by
  constructor
  · intro h; exact ⟨fun j hj => h j (by simp; omega), fun j hj => h j (by simp; omega)⟩
  · intro ⟨h1, h2⟩ j hj
    simp only [countList_append] at hj
    by_cases hc : 0 < countList j xs
    · exact h1 j hc
    · exact h2 j (by omega)

theorem isFreed_lt {s : State} {i : Nat} (h : s.isFreed i = true) : i < s.freed.size := by
  unfold State.isFreed at h
  by_cases hi : i < s.freed.size
  · exact hi
  · simp [Array.getD_eq_getD_getElem?, hi] at h

theorem rc_pos_lt {s : State} {i : Nat} (h : 0 < s.rc i) : i < s.refcounts.size := by
  unfold State.rc at h
  by_cases hi : i < s.refcounts.size
  · exact hi
  · simp [Array.getD_eq_getD_getElem?, hi] at h

/-- non-root fields coincide -/
structure HeapEq (s t : State) : Prop where
  heap : t.heap = s.heap
  refcounts : t.refcounts = s.refcounts
  free : t.free = s.free
  pendingFree : t.pendingFree = s.pendingFree
  freed : t.freed = s.freed
  fresh : t.fresh = s.fresh
  uaf : t.uaf = s.uaf

theorem HeapEq.refl (s : State) : HeapEq s s := ⟨rfl, rfl, rfl, rfl, rfl, rfl, rfl⟩
theorem HeapEq.rc {s t : State} (h : HeapEq s t) (i : Nat) : t.rc i = s.rc i := by simp [State.rc, h.refcounts]
theorem HeapEq.isFreed {s t : State} (h : HeapEq s t) (i : Nat) : t.isFreed i = s.isFreed i := by
  simp [State.isFreed, h.freed]

/-- a value inside the roots is live -/
theorem Inv.live_of_counted {s : State} (h : Inv s) {v : Val}
    (hv : ∀ j, v.count j ≤ s.countRefs j + s.floating j) : Live s v := by
  intro j hj
  have hrc : 0 < s.rc j := by rw [h.acct j]; have := hv j; omega
  refine ⟨by rw [← h.shapeRc]; exact rc_pos_lt hrc, ?_⟩
  cases hf : s.isFreed j with
  | false => rfl
  | true => have := h.freedZero j hf; omega

/-- **retain and add to a root** -/
theorem inv_retain_add {s : State} (h : Inv s) {v : Val} (hv : Live s v) {t : State}
    (ht : HeapEq (retain s v) t)
    (hc : ∀ i, t.countRefs i + t.floating i = s.countRefs i + s.floating i + v.count i) : Inv t := by
  have hsr := sameRoots_retain s v
  have hrange : InRange s v := fun j hj => by rw [h.shapeRc]; exact (hv j hj).1
  have hrc : ∀ i, t.rc i = s.rc i + v.count i := fun i => by rw [ht.rc, rc_retain s v hrange]
  have hfr : ∀ i, t.isFreed i = s.isFreed i := fun i => by
    rw [ht.isFreed]; simp [State.isFreed, hsr.freed]
  have hheap : t.heap = s.heap := ht.heap.trans hsr.heap
  have hfree : t.free = s.free := ht.free.trans hsr.free
  constructor
  · rw [ht.refcounts, hsr.size, hheap]; exact h.shapeRc
  · rw [ht.freed, hsr.freed, hheap]; exact h.shapeFr
  · intro i; rw [hrc, hc, h.acct i]
  · intro i hi
    rw [hfr] at hi
    rw [hrc, h.freedZero i hi]
    cases Nat.eq_zero_or_pos (v.count i) with
    | inl h0 => omega
    | inr hp => have := (hv i hp).2; rw [hi] at this; cases this
  · intro j hj; rw [hfree] at hj; rw [hfr]; exact h.freeFreed j hj
  · intro i hi; rw [hfr] at hi; rw [hfree]; exact h.freedFree i hi
  · rw [hfree]; exact h.freeNodup
  · intro i hi hz hnf
    rw [hheap] at hi; rw [hrc] at hz; rw [hfr] at hnf
    rw [ht.pendingFree, pendingFree_retain, ht.fresh]
    cases h.queued i hi (by omega) hnf with
    | inl hp => exact Or.inl hp
    | inr hf => exact Or.inr (fresh_retain s v i (by omega) hf)
  · intro j hj; rw [ht.pendingFree, pendingFree_retain] at hj; rw [hheap]; exact h.pendLt j hj
  · rw [ht.uaf, uaf_retain s v (fun j hj => (hv j hj).2)]; exact h.noUaf

/-- **remove from a root and release** -/
theorem inv_remove_release {s : State} (h : Inv s) {v : Val} {s1 : State} (h1 : HeapEq s s1)
    (hc : ∀ i, s1.countRefs i + s1.floating i + v.count i = s.countRefs i + s.floating i) :
    Inv (release s1 v) := by
  have hsr := sameRoots_release s1 v
  have hrc : ∀ i, (release s1 v).rc i = s.rc i - v.count i := fun i => by rw [rc_release, h1.rc]
  have hfr : ∀ i, (release s1 v).isFreed i = s.isFreed i := fun i => by
    simp [State.isFreed, hsr.freed, h1.freed]
  have hcr : ∀ i, (release s1 v).countRefs i + (release s1 v).floating i = s1.countRefs i + s1.floating i := by
    intro i; simp [State.countRefs, State.constCount, State.floating, hsr.procs, hsr.consts, hsr.transit]
  constructor
  · rw [hsr.size, hsr.heap, h1.refcounts, h1.heap]; exact h.shapeRc
  · rw [hsr.freed, hsr.heap, h1.freed, h1.heap]; exact h.shapeFr
  · intro i; rw [hrc, hcr, h.acct i]; have := hc i; omega
  · intro i hi; rw [hfr] at hi; rw [hrc, h.freedZero i hi]; omega
  · intro j hj; rw [hsr.free, h1.free] at hj; rw [hfr]; exact h.freeFreed j hj
  · intro i hi; rw [hfr] at hi; rw [hsr.free, h1.free]; exact h.freedFree i hi
  · rw [hsr.free, h1.free]; exact h.freeNodup
  · intro i hi hz hnf
    rw [hsr.heap, h1.heap] at hi; rw [hfr] at hnf
    by_cases hp : 0 < s.rc i
    · left; exact release_queues s1 v i (by rw [h1.rc]; exact hp) hz
    · cases h.queued i hi (by omega) hnf with
      | inl hq => left; exact pendingFree_release_mono s1 v i (by rw [h1.pendingFree]; exact hq)
      | inr hf => right; rw [fresh_release, h1.fresh]; exact hf
  · intro j hj
    rw [hsr.heap, h1.heap]
    cases mem_pendingFree_release s1 v j hj with
    | inl hq => rw [h1.pendingFree] at hq; exact h.pendLt j hq
    | inr hp =>
      have : 0 < s.rc j := by rw [h.acct j]; have := hc j; omega
      rw [← h.shapeRc]; exact rc_pos_lt this
  · rw [uaf_release s1 v (fun j => by rw [h1.rc, h.acct j]; have := hc j; omega)
      (fun j hj => by rw [h1.isFreed] at hj; rw [h1.rc]; exact h.freedZero j hj), h1.uaf]
    exact h.noUaf

/-- **move between roots** (no count changes) -/
theorem inv_move {s : State} (h : Inv s) {t : State} (ht : HeapEq s t)
    (hc : ∀ i, t.countRefs i + t.floating i = s.countRefs i + s.floating i) : Inv t := by
  constructor
  · rw [ht.refcounts, ht.heap]; exact h.shapeRc
  · rw [ht.freed, ht.heap]; exact h.shapeFr
  · intro i; rw [ht.rc, hc, h.acct i]
  · intro i hi; rw [ht.isFreed] at hi; rw [ht.rc]; exact h.freedZero i hi
  · intro j hj; rw [ht.free] at hj; rw [ht.isFreed]; exact h.freeFreed j hj
  · intro i hi; rw [ht.isFreed] at hi; rw [ht.free]; exact h.freedFree i hi
  · rw [ht.free]; exact h.freeNodup
  · intro i hi hz hnf
    rw [ht.heap] at hi; rw [ht.rc] at hz; rw [ht.isFreed] at hnf
    rw [ht.pendingFree, ht.fresh]; exact h.queued i hi hz hnf
  · intro j hj; rw [ht.pendingFree] at hj; rw [ht.heap]; exact h.pendLt j hj
  · rw [ht.uaf]; exact h.noUaf

end QM.Heap
