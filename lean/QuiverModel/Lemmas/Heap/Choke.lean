import QuiverModel.Lemmas.Heap.Inv
/-
Every choke point of M-Heap preserves the invariant.
-/
namespace QM.Heap
open State

/-! ### association lists -/

theorem aget_aset_same {α : Type} (m : List (Nat × α)) (k : Nat) (v : α) : aget (aset m k v) k = some v := by
  induction m with
  | nil => simp [aset, aget]
  | cons e m ih =>
    obtain ⟨k', v'⟩ := e
    by_cases h : k' = k <;> simp [aset, aget, h, ih]

theorem aget_aset_ne {α : Type} (m : List (Nat × α)) (k k' : Nat) (v : α) (hne : k' ≠ k) :
    aget (aset m k v) k' = aget m k' := by
  have hne' : ¬ k = k' := fun e => hne e.symm
  induction m with
  | nil => simp [aset, aget, hne']
  | cons e m ih =>
    obtain ⟨k'', v''⟩ := e
    by_cases h : k'' = k
    · subst h; simp [aset, aget, hne']
    · by_cases h2 : k'' = k'
      · subst h2; simp [aset, aget, h]
      · simp [aset, aget, h, h2, ih]

theorem procsCount_aset (m : List (Nat × Proc)) (pid : Nat) (p p' : Proc) (i : Nat)
    (h : aget m pid = some p) :
    procsCount i (aset m pid p') + p.count i = procsCount i m + p'.count i := by
  induction m with
  | nil => simp [aget] at h
  | cons e m ih =>
    obtain ⟨k, q⟩ := e
    by_cases hk : k = pid
    · simp [aget, hk] at h; subst h
      simp [aset, hk, procsCount]; omega
    · simp [aget, hk] at h
      simp [aset, hk, procsCount]; have := ih h; omega

theorem procsCount_aset_new (m : List (Nat × Proc)) (pid : Nat) (p' : Proc) (i : Nat)
    (h : aget m pid = none) :
    procsCount i (aset m pid p') = procsCount i m + p'.count i := by
  induction m with
  | nil => simp [aset, procsCount]
  | cons e m ih =>
    obtain ⟨k, q⟩ := e
    by_cases hk : k = pid
    · simp [aget, hk] at h
    · simp [aget, hk] at h
      simp [aset, hk, procsCount]; have := ih h; omega

@[simp] theorem getProc_setProc_same (s : State) (pid : Nat) (p : Proc) :
    (s.setProc pid p).getProc pid = some p := by simp [getProc, setProc, aget_aset_same]

theorem getProc_setProc_ne (s : State) (pid pid' : Nat) (p : Proc) (h : pid' ≠ pid) :
    (s.setProc pid p).getProc pid' = s.getProc pid' := by simp [getProc, setProc, aget_aset_ne _ _ _ _ h]

theorem heapEq_setProc (s : State) (pid : Nat) (p : Proc) : HeapEq s (s.setProc pid p) := by
  constructor <;> simp [setProc]

theorem total_setProc (s : State) (pid : Nat) (p p' : Proc) (i : Nat) (h : s.getProc pid = some p) :
    (s.setProc pid p').countRefs i + (s.setProc pid p').floating i + p.count i
      = s.countRefs i + s.floating i + p'.count i := by
  have := procsCount_aset s.procs pid p p' i h
  simp only [countRefs, constCount, floating, setProc]; omega

theorem total_setProc_new (s : State) (pid : Nat) (p' : Proc) (i : Nat) (h : s.getProc pid = none) :
    (s.setProc pid p').countRefs i + (s.setProc pid p').floating i
      = s.countRefs i + s.floating i + p'.count i := by
  have := procsCount_aset_new s.procs pid p' i h
  simp only [countRefs, constCount, floating, setProc]; omega

theorem getProc_of_sameRoots {s t : State} (h : SameRoots s t) (pid : Nat) : t.getProc pid = s.getProc pid := by
  simp [getProc, h.procs]

theorem total_of_sameRoots {s t : State} (h : SameRoots s t) (i : Nat) :
    t.countRefs i + t.floating i = s.countRefs i + s.floating i := by
  simp [countRefs, constCount, floating, h.procs, h.consts, h.transit]

/-- a process's roots are counted -/
theorem procsCount_ge (m : List (Nat × Proc)) (pid : Nat) (p : Proc) (i : Nat) (h : aget m pid = some p) :
    p.count i ≤ procsCount i m := by
  induction m with
  | nil => simp [aget] at h
  | cons e m ih =>
    obtain ⟨k, q⟩ := e
    by_cases hk : k = pid
    · simp [aget, hk] at h; subst h; simp [procsCount]
    · simp [aget, hk] at h; simp [procsCount]; have := ih h; omega

theorem count_le_total (s : State) (pid : Nat) (p : Proc) (i : Nat) (h : s.getProc pid = some p) :
    p.count i ≤ s.countRefs i + s.floating i := by
  have := procsCount_ge s.procs pid p i h
  simp only [countRefs]; omega

/-! ### the pieces of a process's roots -/

theorem Proc.count_eq (p : Proc) (i : Nat) :
    p.count i = countList i p.stack + countList i p.locals + countList i p.mailbox
      + countList i (Res.vals p.result) + countList i (selVals p.selectState)
      + countList i (awaitingVals p.awaiting) := by
  simp [Proc.count, Proc.roots]; omega

/-! ### choke points -/

theorem inv_pushValue {s : State} (h : Inv s) (pid : Nat) {v : Val} (hv : Live s v) :
    Inv (pushValue s pid v) := by
  unfold pushValue
  split
  · rename_i p hp
    refine inv_retain_add h hv (heapEq_setProc _ _ _) ?_
    intro i
    have hsr := sameRoots_retain s v
    have := total_setProc (retain s v) pid p { p with stack := v :: p.stack } i
      (by rw [getProc_of_sameRoots hsr]; exact hp)
    have h2 := total_of_sameRoots hsr i
    simp only [Proc.count_eq, countList_cons] at this
    omega
  · exact h

theorem inv_pushLocal {s : State} (h : Inv s) (pid : Nat) {v : Val} (hv : Live s v) :
    Inv (pushLocal s pid v) := by
  unfold pushLocal
  split
  · rename_i p hp
    refine inv_retain_add h hv (heapEq_setProc _ _ _) ?_
    intro i
    have hsr := sameRoots_retain s v
    have := total_setProc (retain s v) pid p { p with locals := p.locals ++ [v] } i
      (by rw [getProc_of_sameRoots hsr]; exact hp)
    have h2 := total_of_sameRoots hsr i
    simp only [Proc.count_eq, countList_append, countList_cons, countList_nil] at this
    omega
  · exact h

theorem inv_popValue {s : State} (h : Inv s) (pid : Nat) : Inv (popValue s pid).2 := by
  unfold popValue
  split
  · rename_i p hp
    split
    · rename_i v rest hst
      refine inv_remove_release h (heapEq_setProc _ _ _) ?_
      intro i
      have := total_setProc s pid p { p with stack := rest } i hp
      simp only [Proc.count_eq, hst, countList_cons] at this
      omega
    · exact h
  · exact h

theorem inv_truncateLocals {s : State} (h : Inv s) (pid len : Nat) : Inv (truncateLocals s pid len) := by
  unfold truncateLocals
  split
  · rename_i p hp
    split
    · have : releaseList (s.setProc pid { p with locals := p.locals.take len }) (p.locals.drop len)
          = release (s.setProc pid { p with locals := p.locals.take len }) (.tuple 0 (p.locals.drop len)) := by
        simp [release]
      rw [this]
      refine inv_remove_release h (heapEq_setProc _ _ _) ?_
      intro i
      have := total_setProc s pid p { p with locals := p.locals.take len } i hp
      have h2 := countList_take_drop i len p.locals
      simp only [Proc.count_eq, count_tuple] at this ⊢
      omega
    · exact h
  · exact h

theorem inv_replaceLocals {s : State} (h : Inv s) (pid : Nat) {newLocals : List Val}
    (hv : LiveL s newLocals) : Inv (replaceLocals s pid newLocals).2 := by
  unfold replaceLocals
  split
  · exact h
  · rename_i p hp
    have hsr := sameRoots_retainList s newLocals
    have e1 : retainList s newLocals = retain s (.tuple 0 newLocals) := by simp [retain]
    -- virtual intermediate state: both the old and the new bindings are rooted
    have h0 : Inv ((retainList s newLocals).setProc pid { p with locals := newLocals ++ p.locals }) := by
      rw [e1]
      refine inv_retain_add h (live_tuple.mpr hv) (heapEq_setProc _ _ _) ?_
      intro i
      have := total_setProc (retain s (.tuple 0 newLocals)) pid p { p with locals := newLocals ++ p.locals } i
        (by rw [← e1, getProc_of_sameRoots hsr]; exact hp)
      have h2 := total_of_sameRoots (e1 ▸ hsr) i
      simp only [Proc.count_eq, countList_append, count_tuple] at this ⊢
      omega
    have e2 : ∀ t, releaseList t p.locals = release t (.tuple 0 p.locals) := by intro t; simp [release]
    simp only [e2]
    refine inv_remove_release h0 ?_ ?_
    · constructor <;> simp [setProc]
    · intro i
      have a := total_setProc (retainList s newLocals) pid p { p with locals := newLocals ++ p.locals } i
        (by rw [getProc_of_sameRoots hsr]; exact hp)
      have b := total_setProc (retainList s newLocals) pid p { p with locals := newLocals } i
        (by rw [getProc_of_sameRoots hsr]; exact hp)
      simp only [Proc.count_eq, countList_append, count_tuple] at a b ⊢
      omega

theorem count_splitOrphans (keep : List Nat) (i : Nat) (vs : List Val) (index : Nat) :
    countList i (splitOrphans keep index vs).1 + countList i (splitOrphans keep index vs).2
      = countList i vs := by
  induction vs generalizing index with
  | nil => simp [splitOrphans]
  | cons v vs ih =>
    simp only [splitOrphans]
    have := ih (index + 1)
    split <;> simp [Val.nil] <;> omega

theorem inv_releaseOrphanLocals {s : State} (h : Inv s) (pid : Nat) (keep : List Nat) :
    Inv (releaseOrphanLocals s pid keep).2 := by
  unfold releaseOrphanLocals
  split
  · exact h
  · rename_i p hp
    have e2 : ∀ t vs, releaseList t vs = release t (.tuple 0 vs) := by intro t vs; simp [release]
    simp only [e2]
    refine inv_remove_release h (heapEq_setProc _ _ _) ?_
    intro i
    have := total_setProc s pid p { p with locals := (splitOrphans keep 0 p.locals).1 } i hp
    have h2 := count_splitOrphans keep i p.locals 0
    simp only [Proc.count_eq, count_tuple] at this ⊢
    omega

end QM.Heap
