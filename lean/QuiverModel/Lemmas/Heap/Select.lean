import QuiverModel.Core.Heap.Select
import QuiverModel.Lemmas.Heap.Reach
/-
The select machinery keeps the invariant, is `Stable`, and leaves nothing in transit.
-/
namespace QM.Heap
open State

/-! ### primitives -/

theorem goodT_releaseTransitN (n : Nat) : ∀ {s : State}, Inv s →
    Good s (releaseTransitN s n) ∧ (releaseTransitN s n).transit = s.transit.drop n := by
  induction n with
  | zero => intro s h; exact ⟨Good.refl h, by simp [releaseTransitN]⟩
  | succ n ih =>
    intro s h
    have g1 := good_releaseTransit h 0
    have t1 := transit_releaseTransit s 0
    have ⟨g2, t2⟩ := ih g1.inv
    simp only [releaseTransitN]
    refine ⟨g1.trans g2, ?_⟩
    rw [t2, t1]
    cases s.transit with
    | nil => simp
    | cons x xs => simp

theorem countList_take_append_drop (i k : Nat) (v : Val) (l : List Val) :
    countList i (l.take k ++ [v] ++ l.drop k) = countList i l + v.count i := by
  have := countList_take_drop i k l
  simp only [countList_append, countList_cons, countList_nil]; omega

theorem good_retainIntoTransit {s : State} (h : Inv s) (k : Nat) {v : Val} (hv : Live s v) :
    Good s (retainIntoTransit s k v) := by
  unfold retainIntoTransit
  have hsr := sameRoots_retain s v
  refine ⟨inv_retain_add h hv ⟨rfl, rfl, rfl, rfl, rfl, rfl, rfl⟩ ?_,
    (Stable.of_sameRoots hsr).trans (Stable.of_eq rfl rfl)⟩
  intro i
  have := countList_take_append_drop i k v s.transit
  simp only [countRefs, constCount, floating, hsr.procs, hsr.consts] at this ⊢
  omega

theorem transit_retainIntoTransit (s : State) (k : Nat) (v : Val) :
    (retainIntoTransit s k v).transit = s.transit.take k ++ [v] ++ s.transit.drop k := rfl

/-- a root change of one process together with a change of the transit list that keeps the total
number of occurrences of every slot -/
theorem good_move {s : State} (h : Inv s) {pid : Nat} {p p' : Proc} (hp : s.getProc pid = some p)
    (tr : List Val) (hc : ∀ i, p'.count i + countList i tr = p.count i + countList i s.transit) :
    Good s { (s.setProc pid p') with transit := tr } := by
  refine ⟨inv_move h ⟨rfl, rfl, rfl, rfl, rfl, rfl, rfl⟩ ?_, Stable.of_eq rfl rfl⟩
  intro i
  have := total_setProc s pid p p' i hp
  have := hc i
  simp only [countRefs, constCount, floating, setProc] at *
  omega

/-- the same with a `retain` of a handle that enters a root or the transit list -/
theorem good_retain_move {s : State} (h : Inv s) {v : Val} (hv : Live s v) {pid : Nat} {p p' : Proc}
    (hp : s.getProc pid = some p) (tr : List Val)
    (hc : ∀ i, p'.count i + countList i tr = p.count i + countList i s.transit + v.count i) :
    Good s { ((retain s v).setProc pid p') with transit := tr } := by
  have hsr := sameRoots_retain s v
  refine ⟨inv_retain_add h hv ⟨rfl, rfl, rfl, rfl, rfl, rfl, rfl⟩ ?_,
    (Stable.of_sameRoots hsr).trans (Stable.of_eq rfl rfl)⟩
  intro i
  have := total_setProc (retain s v) pid p p' i (by rw [getProc_of_sameRoots hsr]; exact hp)
  have h2 := total_of_sameRoots hsr i
  have := hc i
  simp only [countRefs, constCount, floating, setProc, hsr.transit] at *
  omega

/-! ### the awaiting map -/

theorem awaitingVals_aremove (m : List (Nat × Option Val)) (k : Nat) (i : Nat) :
    countList i (awaitingVals (aremove m k)) + prevCount i (aget m k) = countList i (awaitingVals m) := by
  induction m with
  | nil => simp [aremove, aget, awaitingVals, prevCount]
  | cons e m ih =>
    obtain ⟨k', v'⟩ := e
    by_cases hk : k' = k
    · subst hk
      cases v' <;> simp [aremove, aget, awaitingVals, prevCount]; omega
    · cases v' <;> simp [aremove, aget, hk, awaitingVals] <;> omega

theorem removeAwaits_count (srcs : List Val) : ∀ (aw : List (Nat × Option Val)) (i : Nat),
    countList i (awaitingVals (removeAwaits aw srcs).1) + countList i (removeAwaits aw srcs).2
      = countList i (awaitingVals aw) := by
  induction srcs with
  | nil => intro aw i; simp [removeAwaits]
  | cons x xs ih =>
    intro aw i
    cases x with
    | proc t f =>
      simp only [removeAwaits]
      have h1 := ih (aremove aw t) i
      have h2 := awaitingVals_aremove aw t i
      cases hq : aget aw t with
      | none => simp only [hq, prevCount] at h2 ⊢; omega
      | some o =>
        cases o with
        | none => simp only [hq, prevCount] at h2 ⊢; omega
        | some v => simp only [hq, prevCount, countList_cons] at h2 ⊢; omega
    | int _ => simpa [removeAwaits] using ih aw i
    | bin _ => simpa [removeAwaits] using ih aw i
    | ref _ => simpa [removeAwaits] using ih aw i
    | tuple _ _ => simpa [removeAwaits] using ih aw i
    | func _ _ => simpa [removeAwaits] using ih aw i
    | builtin _ => simpa [removeAwaits] using ih aw i
    | resource _ _ => simpa [removeAwaits] using ih aw i

theorem resetAwaits_count (ts : List Nat) : ∀ (aw : List (Nat × Option Val)) (i : Nat),
    countList i (awaitingVals (resetAwaits aw ts).1) + countList i (resetAwaits aw ts).2
      = countList i (awaitingVals aw) := by
  induction ts with
  | nil => intro aw i; simp [resetAwaits]
  | cons t ts ih =>
    intro aw i
    simp only [resetAwaits]
    have h1 := ih (aset aw t none) i
    have h2 := awaitingVals_aset aw t none i
    cases hq : aget aw t with
    | none => simp only [hq, prevCount] at h2 ⊢; omega
    | some o =>
      cases o with
      | none => simp only [hq, prevCount] at h2 ⊢; omega
      | some v => simp only [hq, prevCount, countList_cons] at h2 ⊢; omega

theorem countList_recvList (i : Nat) (r : Option (Nat × Val)) :
    countList i (recvList r) = match r with | some (_, m) => m.count i | none => 0 := by
  cases r with
  | none => simp [recvList]
  | some x => obtain ⟨a, m⟩ := x; simp [recvList]

theorem selVals_count (i : Nat) (st : SelectState) :
    countList i (selVals (some st)) = countList i st.sources + countList i (recvList st.receiving) := by
  simp only [selVals, SelectState.vals, countList_append]
  cases st.receiving with
  | none => simp [recvList]
  | some x => obtain ⟨a, m⟩ := x; simp [recvList]

theorem selVals_upd (i : Nat) (st : SelectState) (cs : List Nat) (r : Option (Nat × Val)) :
    countList i (selVals (some (st.upd cs r))) = countList i st.sources + countList i (recvList r) := by
  rw [selVals_count]; rfl

theorem drop_len_append {α : Type} (A X : List α) (n : Nat) (hn : n = A.length) : (A ++ X).drop n = X := by
  subst hn; simp

theorem take_len_append {α : Type} (A X : List α) (n : Nat) (hn : n = A.length) : (A ++ X).take n = A := by
  subst hn; simp

theorem procs_releaseTransit (s : State) (k : Nat) : (releaseTransit s k).procs = s.procs := by
  unfold releaseTransit; split
  · rw [(sameRoots_release _ _).procs]
  · rfl

theorem procs_releaseTransitN (n : Nat) : ∀ (s : State), (releaseTransitN s n).procs = s.procs := by
  induction n with
  | zero => intro s; rfl
  | succ n ih => intro s; simp only [releaseTransitN]; rw [ih, procs_releaseTransit]

theorem procs_retainIntoTransit (s : State) (k : Nat) (v : Val) : (retainIntoTransit s k v).procs = s.procs := by
  unfold retainIntoTransit; simp [(sameRoots_retain s v).procs]

theorem transit_rawPushTransit_head {s : State} {pid : Nat} {v : Val} {T : List Val} {p : Proc}
    (ht : s.transit = v :: T) (hp : s.getProc pid = some p) : (rawPushTransit s pid 0).transit = T := by
  unfold rawPushTransit
  simp [ht, hp, setProc]

/-! ### `complete_select` -/

theorem good_completeSelect {s : State} (h : Inv s) (pid : Nat) {result : Val} (hr : Live s result) :
    GoodT s (completeSelect s pid result).1 := by
  unfold completeSelect
  split
  · exact GoodT.refl h
  · rename_i p hp
    split
    · rename_i st hst
      simp only
      generalize hra : removeAwaits p.awaiting st.sources = ra
      obtain ⟨aw', stored⟩ := ra
      simp only
      have hcnt := fun i => removeAwaits_count st.sources p.awaiting i
      rw [hra] at hcnt
      simp only at hcnt
      -- step 1: the handles leave their roots
      have g1 : Good s { (s.setProc pid { p with selectState := none, awaiting := aw' }) with
          transit := st.sources ++ recvList st.receiving ++ stored ++ s.transit } := by
        refine good_move h hp _ ?_
        intro i
        have := hcnt i
        have h2 := selVals_count i st
        simp only [Proc.count_eq, hst, selVals, countList_append, countList_nil] at h2 ⊢
        omega
      generalize hs1 : ({ (s.setProc pid { p with selectState := none, awaiting := aw' }) with
          transit := st.sources ++ recvList st.receiving ++ stored ++ s.transit } : State) = s1 at g1
      have hp1 : s1.getProc pid = some { p with selectState := none, awaiting := aw' } := by
        rw [← hs1]; simp [getProc, setProc, aget_aset_same]
      have ht1 : s1.transit = (st.sources ++ recvList st.receiving) ++ (stored ++ s.transit) := by
        rw [← hs1]; simp [List.append_assoc]
      -- step 2: release sources and the in-flight message
      have ⟨g2, t2⟩ := goodT_releaseTransitN (st.sources.length + (recvList st.receiving).length) g1.inv
      rw [ht1, drop_len_append _ _ _ (by simp)] at t2
      generalize hs2 : releaseTransitN s1 (st.sources.length + (recvList st.receiving).length) = s2 at g2 t2
      have hp2 : s2.getProc pid = some { p with selectState := none, awaiting := aw' } := by
        rw [← hs2]; simp only [getProc, procs_releaseTransitN]; exact hp1
      -- step 3: retain the result
      have g3 := good_retainIntoTransit g2.inv stored.length (hr.stable (g1.stable.trans g2.stable))
      have t3 : (retainIntoTransit s2 stored.length result).transit = stored ++ (result :: s.transit) := by
        rw [transit_retainIntoTransit, t2, take_len_append _ _ _ rfl, drop_len_append _ _ _ rfl]
        simp [List.append_assoc]
      generalize hs3 : retainIntoTransit s2 stored.length result = s3 at g3 t3
      have hp3 : s3.getProc pid = some { p with selectState := none, awaiting := aw' } := by
        rw [← hs3]; simp only [getProc, procs_retainIntoTransit]; exact hp2
      -- step 4: release the stored results
      have ⟨g4, t4⟩ := goodT_releaseTransitN stored.length g3.inv
      rw [t3, drop_len_append _ _ _ rfl] at t4
      generalize hs4 : releaseTransitN s3 stored.length = s4 at g4 t4
      have hp4 : s4.getProc pid = some { p with selectState := none, awaiting := aw' } := by
        rw [← hs4]; simp only [getProc, procs_releaseTransitN]; exact hp3
      -- step 5: push
      have g5 := good_rawPushTransit g4.inv pid 0
      have t5 := transit_rawPushTransit_head t4 hp4
      have g6 := good_bump g5.inv pid
      exact ⟨g1.trans (g2.trans (g3.trans (g4.trans (g5.trans g6)))), by rw [transit_bump, t5]⟩
    · rename_i hst
      simp only
      have g3 := good_retainIntoTransit h 0 hr
      have t3 : (retainIntoTransit s 0 result).transit = result :: s.transit := by
        rw [transit_retainIntoTransit]; simp
      have hp3 : (retainIntoTransit s 0 result).getProc pid = some p := by
        simp only [getProc, procs_retainIntoTransit]; exact hp
      have g5 := good_rawPushTransit g3.inv pid 0
      have t5 := transit_rawPushTransit_head t3 hp3
      have g6 := good_bump g5.inv pid
      exact ⟨g3.trans (g5.trans g6), by rw [transit_bump, t5]⟩

/-! ### `call_receive_function` -/

theorem good_callReceiveFunction (env : SelEnv) (henv : ∀ id r, env.run id = some r → BuiltinOk r)
    {s : State} (h : Inv s) (pid receiveIdx msgIdx : Nat) {message source : Val}
    (hm : Live s message) (hsrc : Live s source)
    (hsel : ∀ p, s.getProc pid = some p → p.selectState ≠ none) :
    GoodT s (callReceiveFunction env s pid receiveIdx msgIdx message source).1 := by
  unfold callReceiveFunction
  split
  · exact GoodT.refl h
  · rename_i p hp
    simp only
    split
    · rename_i st hst
      have hsr := sameRoots_retain s message
      have g2 : Good s { ((retain s message).setProc pid { p with selectState := some (st.upd (setCursor st.cursors receiveIdx msgIdx) (some (receiveIdx, message))) }) with transit := recvList st.receiving ++ (retain s message).transit } := by
        refine good_retain_move h hm hp _ ?_
        intro i
        have h1 := selVals_count i st
        have h2 := selVals_upd i st (setCursor st.cursors receiveIdx msgIdx) (some (receiveIdx, message))
        simp only [Proc.count_eq, hst, countList_append, hsr.transit, recvList, countList_cons, countList_nil] at h1 h2 ⊢
        omega
      generalize hs2 : ({ ((retain s message).setProc pid { p with selectState := some (st.upd (setCursor st.cursors receiveIdx msgIdx) (some (receiveIdx, message))) }) with transit := recvList st.receiving ++ (retain s message).transit } : State) = s2 at g2
      have ht2 : s2.transit = recvList st.receiving ++ s.transit := by rw [← hs2]; simp [hsr.transit]
      have ⟨g3, t3⟩ := goodT_releaseTransitN (recvList st.receiving).length g2.inv
      rw [ht2, drop_len_append _ _ _ rfl] at t3
      have g3T : GoodT s (releaseTransitN s2 (recvList st.receiving).length) := ⟨g2.trans g3, t3⟩
      have g4 := goodT_pushValue g3.inv pid (hm.stable g3T.stable)
      have g5 := goodT_pushValue g4.inv pid (hsrc.stable (g3T.trans g4).stable)
      have g6 := good_handleCall g5.inv pid env.fnExists env.run henv
      exact g3T.trans (g4.trans (g5.trans g6))
    · rename_i hst
      exact absurd hst (hsel p hp)

/-! ### mailbox -/

theorem goodT_removeMessage {s : State} (h : Inv s) (pid msgIdx : Nat) : GoodT s (removeMessage s pid msgIdx) := by
  unfold removeMessage
  split
  · exact GoodT.refl h
  · rename_i p hp
    split
    · rename_i m hm
      have g1 : Good s { (s.setProc pid { p with mailbox := p.mailbox.eraseIdx msgIdx }) with
          transit := m :: s.transit } := by
        refine good_move h hp _ ?_
        intro i
        have := countList_eraseIdx hm i
        simp only [Proc.count_eq, countList_cons]; omega
      have ⟨g2, t2⟩ := goodT_releaseTransit_head g1.inv
      exact ⟨g1.trans g2, t2⟩
    · exact GoodT.refl h

/-- a message in the mailbox of a process is live -/
theorem live_of_mailbox {s : State} (h : Inv s) {pid : Nat} {p : Proc} (hp : s.getProc pid = some p)
    {m : Val} (hm : m ∈ p.mailbox) : Live s m :=
  h.live_root hp (fun i => by have := count_le_of_mem hm i; simp [Proc.count_eq]; omega)

theorem good_handleReceiveResult {s : State} (h : Inv s) (pid receiveIdx : Nat) (mv : Val) (rr : Option Val) :
    GoodT s (handleReceiveResult s pid receiveIdx mv rr).1 := by
  unfold handleReceiveResult
  split
  · exact GoodT.refl h
  · split
    · split
      · exact GoodT.refl h
      · split
        · exact GoodT.refl h
        · exact goodT_removeMessage h pid _
    · split
      · exact GoodT.refl h
      · rename_i p hp
        split
        · rename_i st hst
          simp only
          have g1 : Good s { (s.setProc pid { p with selectState := some (st.upd (setCursor st.cursors receiveIdx (st.cursors.getD receiveIdx 0 + 1)) none) }) with transit := recvList st.receiving ++ s.transit } := by
            refine good_move h hp _ ?_
            intro i
            have h1 := selVals_count i st
            have h2 := selVals_upd i st (setCursor st.cursors receiveIdx (st.cursors.getD receiveIdx 0 + 1)) none
            simp only [Proc.count_eq, hst, countList_append, recvList, countList_nil] at h1 h2 ⊢
            omega
          have ⟨g2, t2⟩ := goodT_releaseTransitN (recvList st.receiving).length g1.inv
          refine ⟨g1.trans g2, ?_⟩
          rw [t2]; exact drop_len_append _ _ _ rfl
        · exact GoodT.refl h

theorem scanFrom_mem (c : Val → Bool) : ∀ (idx : Nat) (l : List Val) (j : Nat) (m : Val),
    scanFrom c idx l = .inl (j, m) → m ∈ l := by
  intro idx l
  induction l generalizing idx with
  | nil => intro j m hh; simp [scanFrom] at hh
  | cons x xs ih =>
    intro j m hh
    simp only [scanFrom] at hh
    split at hh
    · simp only [Sum.inl.injEq, Prod.mk.injEq] at hh; rw [← hh.2]; simp
    · exact List.mem_cons_of_mem _ (ih _ j m hh)

theorem good_scanMailboxForMessage (env : SelEnv) (henv : ∀ id r, env.run id = some r → BuiltinOk r)
    {s : State} (h : Inv s) (pid receiveIdx : Nat) {source : Val} (hsrc : Live s source) (snap : SelectState)
    (hsel : ∀ p, s.getProc pid = some p → p.selectState ≠ none) :
    GoodT s (scanMailboxForMessage env s pid receiveIdx source snap).1
      ∧ ∀ v, (scanMailboxForMessage env s pid receiveIdx source snap).2 = .complete v →
          Live (scanMailboxForMessage env s pid receiveIdx source snap).1 v := by
  unfold scanMailboxForMessage
  split
  · refine ⟨GoodT.refl h, ?_⟩
    intro v hv; cases hv
  · rename_i p hp
    simp only
    split
    · rename_i msgIdx message hscan
      have hmem : message ∈ p.mailbox := List.mem_of_mem_drop (scanFrom_mem _ _ _ _ _ hscan)
      have hlive : Live s message := live_of_mailbox h hp hmem
      split
      · have g := goodT_removeMessage h pid msgIdx
        refine ⟨g, ?_⟩
        intro v hv; simp only [SelectResult.complete.injEq] at hv; subst hv
        exact hlive.stable g.stable
      · have g := good_callReceiveFunction env henv h pid receiveIdx msgIdx hlive hsrc hsel
        split
        · rename_i s' hc
          rw [hc] at g
          refine ⟨g, ?_⟩
          intro v hv; cases hv
        · rename_i s' o hne hc
          rw [hc] at g
          refine ⟨g, ?_⟩
          intro v hv; cases hv
    · rename_i cursor' hscan
      split
      · split
        · rename_i st hst
          split
          · refine ⟨goodT_setProc_same h hp ?_, ?_⟩
            · intro i
              have h1 := selVals_count i st
              have h2 := selVals_count i { st with cursors := setCursor st.cursors receiveIdx cursor' }
              simp only [Proc.count_eq, hst] at h1 h2 ⊢
              omega
            · intro v hv; cases hv
          · refine ⟨GoodT.refl h, ?_⟩
            intro v hv; cases hv
        · refine ⟨GoodT.refl h, ?_⟩
          intro v hv; cases hv
      · refine ⟨GoodT.refl h, ?_⟩
        intro v hv; cases hv

/-! ### the select state stays in place while sources are processed -/

def HasSel (s : State) (pid : Nat) : Prop := ∃ p st, s.getProc pid = some p ∧ p.selectState = some st

theorem HasSel.ne {s : State} {pid : Nat} (h : HasSel s pid) : ∀ p, s.getProc pid = some p → p.selectState ≠ none := by
  obtain ⟨p0, st, hp0, hst⟩ := h
  intro p hp; rw [hp0] at hp; cases hp; rw [hst]; simp

theorem getProc_releaseTransitN (s : State) (n pid : Nat) : (releaseTransitN s n).getProc pid = s.getProc pid := by
  simp only [getProc, procs_releaseTransitN]

theorem hasSel_removeMessage {s : State} {pid : Nat} (h : HasSel s pid) (k : Nat) : HasSel (removeMessage s pid k) pid := by
  obtain ⟨p, st, hp, hst⟩ := h
  unfold removeMessage
  rw [hp]
  simp only
  split
  · refine ⟨{ p with mailbox := p.mailbox.eraseIdx k }, st, ?_, hst⟩
    rw [getProc_releaseTransit]
    simp [getProc, setProc, aget_aset_same]
  · exact ⟨p, st, hp, hst⟩

theorem hasSel_handleReceiveResult {s : State} {pid : Nat} (h : HasSel s pid) (k : Nat) (mv : Val) (rr : Option Val) :
    HasSel (handleReceiveResult s pid k mv rr).1 pid := by
  obtain ⟨p, st, hp, hst⟩ := h
  unfold handleReceiveResult
  split
  · exact ⟨p, st, hp, hst⟩
  · split
    · rw [hp]; simp only [hst]
      exact hasSel_removeMessage ⟨p, st, hp, hst⟩ _
    · rw [hp]; simp only [hst]
      refine ⟨{ p with selectState := some (st.upd (setCursor st.cursors k (st.cursors.getD k 0 + 1)) none) }, st.upd (setCursor st.cursors k (st.cursors.getD k 0 + 1)) none, ?_, rfl⟩
      rw [getProc_releaseTransitN]
      simp [getProc, setProc, aget_aset_same]

theorem good_handleSelectReceive (env : SelEnv) (henv : ∀ id r, env.run id = some r → BuiltinOk r)
    {s : State} (h : Inv s) (pid srcIdx : Nat) {source : Val} (hsrc : Live s source) (snap : SelectState)
    (rr : Option Val) (hsel : HasSel s pid) (hrecv : ∀ k m, snap.receiving = some (k, m) → Live s m) :
    GoodT s (handleSelectReceive env s pid srcIdx source snap rr).1
      ∧ (∀ v, (handleSelectReceive env s pid srcIdx source snap rr).2 = .complete v →
          Live (handleSelectReceive env s pid srcIdx source snap rr).1 v)
      ∧ ((handleSelectReceive env s pid srcIdx source snap rr).2 = .continue_ →
          HasSel (handleSelectReceive env s pid srcIdx source snap rr).1 pid) := by
  have scan : ∀ {t : State}, Inv t → Live t source → HasSel t pid → ∀ idx,
      GoodT t (scanMailboxForMessage env t pid idx source snap).1
      ∧ (∀ v, (scanMailboxForMessage env t pid idx source snap).2 = .complete v →
          Live (scanMailboxForMessage env t pid idx source snap).1 v)
      ∧ ((scanMailboxForMessage env t pid idx source snap).2 = .continue_ →
          HasSel (scanMailboxForMessage env t pid idx source snap).1 pid) := by
    intro t ht hl hs idx
    have ⟨a, b⟩ := good_scanMailboxForMessage env henv ht pid idx hl snap hs.ne
    refine ⟨a, b, ?_⟩
    intro hc
    obtain ⟨p, st, hp, hst⟩ := hs
    unfold scanMailboxForMessage at hc ⊢
    rw [hp] at hc ⊢
    simp only at hc ⊢
    split at hc
    · split at hc
      · cases hc
      · split at hc <;> cases hc
    · rename_i c' hsc
      split
      · rw [hst]; simp only
        split
        · exact ⟨{ p with selectState := some { st with cursors := setCursor st.cursors idx c' } }, { st with cursors := setCursor st.cursors idx c' }, by simp [getProc, setProc, aget_aset_same], rfl⟩
        · exact ⟨p, st, hp, hst⟩
      · exact ⟨p, st, hp, hst⟩
  unfold handleSelectReceive
  simp only
  split
  · rename_i idx mv hrc
    split
    · have g1 := good_handleReceiveResult h pid ((snap.sources.take srcIdx).filter isReceiveSource).length mv rr
      have hs1 := hasSel_handleReceiveResult hsel ((snap.sources.take srcIdx).filter isReceiveSource).length mv rr
      split
      · rename_i s1 hc
        rw [hc] at g1
        refine ⟨g1, ?_, ?_⟩
        · intro v hv; cases hv
        · intro hv; cases hv
      · rename_i s1 value hc
        rw [hc] at g1
        refine ⟨g1, ?_, ?_⟩
        · intro v hv
          simp only [SelectResult.complete.injEq] at hv; subst hv
          -- the accepted message is the one held in `receiving`
          have : value = mv := by
            have := hc
            unfold handleReceiveResult at this
            split at this
            · cases this
            · split at this
              · split at this
                · cases this
                · split at this
                  · cases this
                  · simp only [Prod.mk.injEq, Option.some.injEq] at this; exact this.2.symm
              · split at this
                · cases this
                · split at this <;> cases this
          rw [this]
          exact (hrecv idx mv hrc).stable g1.stable
        · intro hv; cases hv
      · rename_i s1 hc
        rw [hc] at g1 hs1
        have ⟨a, b, c⟩ := scan g1.inv (hsrc.stable g1.stable) hs1 ((snap.sources.take srcIdx).filter isReceiveSource).length
        exact ⟨g1.trans a, b, c⟩
    · exact scan h hsrc hsel _
  · exact scan h hsrc hsel _

/-! ### `process_select_sources` -/

theorem aget_awaitingVals {aw : List (Nat × Option Val)} {t : Nat} {v : Val} (h : aget aw t = some (some v)) (i : Nat) :
    v.count i ≤ countList i (awaitingVals aw) := by
  induction aw with
  | nil => simp [aget] at h
  | cons e m ih =>
    obtain ⟨k, o⟩ := e
    by_cases hk : k = t
    · simp [aget, hk] at h; subst h; simp [awaitingVals]
    · simp [aget, hk] at h
      have := ih h
      cases o <;> simp [awaitingVals] <;> omega

theorem live_awaitedResult {s : State} (h : Inv s) {pid t : Nat} {v : Val} (hv : awaitedResult s pid t = some v) :
    Live s v := by
  unfold awaitedResult at hv
  split at hv
  · rename_i p hp
    split at hv
    · rename_i w hw
      simp only [Option.some.injEq] at hv; subst hv
      exact h.live_root hp (fun i => by have := aget_awaitingVals hw i; simp [Proc.count_eq]; omega)
    · cases hv
  · cases hv

theorem good_processSources (env : SelEnv) (henv : ∀ id r, env.run id = some r → BuiltinOk r) (pid : Nat)
    (snap : SelectState) (rr : Option Val) (startTime : Nat) :
    ∀ (rest : List Val) (s : State) (srcIdx : Nat), Inv s → LiveL s rest → HasSel s pid →
      (∀ k m, snap.receiving = some (k, m) → Live s m) →
      GoodT s (processSources env pid snap rr startTime s srcIdx rest).1 := by
  intro rest
  induction rest with
  | nil => intro s srcIdx h _ _ _; simp only [processSources]; exact GoodT.refl h
  | cons source rest ih =>
    intro s srcIdx h hl hsel hrecv
    have ⟨hsrc, hrest⟩ := liveL_cons.mp hl
    have recvCase : GoodT s
        (match handleSelectReceive env s pid srcIdx source snap rr with
          | (s, .complete v) => completeSelect s pid v
          | (s, .calledFunction) => (s, .ok)
          | (s, .error) => (s, .fail)
          | (s, .continue_) => processSources env pid snap rr startTime s (srcIdx + 1) rest).1 := by
      have ⟨g, lv, hs⟩ := good_handleSelectReceive env henv h pid srcIdx hsrc snap rr hsel hrecv
      cases hr : handleSelectReceive env s pid srcIdx source snap rr with
      | mk s1 res =>
        rw [hr] at g lv hs
        cases res with
        | complete v => exact g.trans (good_completeSelect g.inv pid (lv v rfl))
        | calledFunction => exact g
        | error => exact g
        | continue_ =>
          exact g.trans (ih s1 (srcIdx + 1) g.inv (hrest.stable g.stable) (hs rfl)
            (fun k m hk => (hrecv k m hk).stable g.stable))
    cases source with
    | int timeout =>
      simp only [processSources]
      split
      · exact good_completeSelect h pid live_nil
      · exact ih s (srcIdx + 1) h hrest hsel hrecv
    | proc target f =>
      simp only [processSources]
      split
      · exact GoodT.refl h
      · split
        · rename_i v hv
          exact good_completeSelect h pid (live_awaitedResult h hv)
        · exact ih s (srcIdx + 1) h hrest hsel hrecv
    | func id caps => simp only [processSources]; exact recvCase
    | builtin id => simp only [processSources]; exact recvCase
    | bin b => simp only [processSources]; exact GoodT.refl h
    | ref r => simp only [processSources]; exact GoodT.refl h
    | tuple id fs => simp only [processSources]; exact GoodT.refl h
    | resource a b => simp only [processSources]; exact GoodT.refl h

/-! ### `handle_select` -/

theorem good_handleSelectContinuation {s : State} (h : Inv s) (pid : Nat) :
    GoodT s (handleSelectContinuation s pid).1
      ∧ ∀ p, s.getProc pid = some p → p.selectState = none →
          (handleSelectContinuation s pid).1 = s := by
  unfold handleSelectContinuation
  split
  · exact ⟨GoodT.refl h, fun _ _ _ => rfl⟩
  · rename_i p hp
    split
    · exact ⟨GoodT.refl h, fun _ _ _ => rfl⟩
    · rename_i st hst
      refine ⟨?_, fun p' hp' hn => by rw [hp] at hp'; cases hp'; rw [hst] at hn; cases hn⟩
      split
      · exact GoodT.refl h
      · split
        · have r1 := rawPop_specT h pid
          cases hr : rawPop s pid with
          | mk o s1 =>
            rw [hr] at r1
            cases o with
            | none =>
              have := r1.2.2 rfl
              simp only at this ⊢; subst this; exact GoodT.refl h
            | some verdict =>
              simp only
              have ⟨t1, _⟩ := r1.2.1 verdict rfl
              have ⟨g2, t2⟩ := goodT_releaseTransit_head r1.1.inv
              exact ⟨r1.1.trans g2, by rw [t2, t1]; rfl⟩
        · exact GoodT.refl h

theorem count_sourcesOf (v : Val) (i : Nat) : countList i (sourcesOf v) = v.count i := by
  cases v <;> simp [sourcesOf]

theorem getProc_rawPop_selectState {s : State} {pid : Nat} {v : Val} {s1 : State}
    (hr : rawPop s pid = (some v, s1)) :
    ∃ p p1, s.getProc pid = some p ∧ s1.getProc pid = some p1 ∧ p1.selectState = p.selectState
      ∧ p1.awaiting = p.awaiting ∧ p1.frames = p.frames := by
  unfold rawPop at hr
  cases hp : s.getProc pid with
  | none => simp [hp] at hr
  | some p =>
    cases hst : p.stack with
    | nil => simp [hp, hst] at hr
    | cons x xs =>
      simp only [hp, hst, Prod.mk.injEq] at hr
      refine ⟨p, { p with stack := xs }, rfl, ?_, rfl, rfl, rfl⟩
      rw [← hr.2]; simp [getProc, setProc, aget_aset_same]

theorem good_initializeSelect (env : SelEnv) {s : State} (h : Inv s) (pid : Nat)
    (hnosel : ∀ p, s.getProc pid = some p → p.selectState = none) :
    GoodT s (initializeSelect env s pid).1 := by
  unfold initializeSelect
  have r1 := rawPop_specT h pid
  cases hr : rawPop s pid with
  | mk o s1 =>
    rw [hr] at r1
    cases o with
    | none =>
      have := r1.2.2 rfl
      simp only at this ⊢; subst this; exact GoodT.refl h
    | some value =>
      simp only
      have ⟨t1, _⟩ := r1.2.1 value rfl
      simp only at t1
      obtain ⟨p0, p1, hp0, hp1, hsel1, _, _⟩ := getProc_rawPop_selectState hr
      have hn1 : p1.selectState = none := by rw [hsel1]; exact hnosel p0 hp0
      rw [hp1]
      simp only
      generalize hst : newSelectState p1 (sourcesOf value) env.now = st
      have hsv : st.sources = sourcesOf value ∧ st.receiving = none := by rw [← hst]; exact ⟨rfl, rfl⟩
      split
      · -- no process sources
        have g2 : Good s1 { (s1.setProc pid { p1 with selectState := some st }) with transit := s1.transit.tail } := by
          refine good_move r1.1.inv hp1 _ ?_
          intro i
          have h1 := selVals_count i st
          have h2 := count_sourcesOf value i
          simp only [Proc.count_eq, hn1, selVals, t1, List.tail_cons, countList_cons, countList_nil, hsv.1, hsv.2,
            recvList] at h1 ⊢
          omega
        exact ⟨r1.1.trans g2, by simp [t1]⟩
      · generalize hra : resetAwaits p1.awaiting (pidTargets (sourcesOf value)) = ra
        have hcnt := fun i => resetAwaits_count (pidTargets (sourcesOf value)) p1.awaiting i
        rw [hra] at hcnt
        have g2 : Good s1 { (s1.setProc pid { p1 with selectState := some st, awaiting := ra.1 }) with transit := ra.2 ++ s1.transit.tail } := by
          refine good_move r1.1.inv hp1 _ ?_
          intro i
          have h1 := selVals_count i st
          have h2 := count_sourcesOf value i
          have h3 := hcnt i
          simp only [Proc.count_eq, hn1, selVals, t1, List.tail_cons, countList_cons, countList_nil, hsv.1, hsv.2,
            recvList, countList_append] at h1 ⊢
          omega
        have ⟨g3, t3⟩ := goodT_releaseTransitN ra.2.length g2.inv
        refine ⟨r1.1.trans (g2.trans g3), ?_⟩
        rw [t3]
        simp only [t1, List.tail_cons]
        exact drop_len_append _ _ _ rfl

theorem liveL_of_sources {s : State} (h : Inv s) {pid : Nat} {p : Proc} {st : SelectState}
    (hp : s.getProc pid = some p) (hst : p.selectState = some st) :
    LiveL s st.sources ∧ ∀ k m, st.receiving = some (k, m) → Live s m := by
  constructor
  · intro j hj
    have hl : Live s (.tuple 0 st.sources) := h.live_root hp (fun i => by
      have := selVals_count i st
      simp only [Proc.count_eq, hst, count_tuple] at this ⊢; omega)
    exact hl j (by simpa using hj)
  · intro k m hk
    exact h.live_root hp (fun i => by
      have := selVals_count i st
      simp only [Proc.count_eq, hst, hk, recvList, countList_cons, countList_nil] at this ⊢; omega)

/-- **`handle_select`** keeps the invariant, frees and overwrites no live slot, and leaves nothing
in transit -/
theorem good_handleSelect (env : SelEnv) (henv : ∀ id r, env.run id = some r → BuiltinOk r)
    {s : State} (h : Inv s) (pid : Nat) : GoodT s (handleSelect env s pid).1 := by
  unfold handleSelect
  have ⟨g1, _⟩ := good_handleSelectContinuation h pid
  cases hc : handleSelectContinuation s pid with
  | mk s1 o =>
    rw [hc] at g1
    simp only at g1
    cases o with
    | none => exact g1
    | some rr =>
      simp only
      cases hp : s1.getProc pid with
      | none => exact g1
      | some p =>
        simp only
        cases hst : p.selectState with
        | none =>
          simp only
          exact g1.trans (good_initializeSelect env g1.inv pid (fun p' hp' => by rw [hp] at hp'; cases hp'; exact hst))
        | some st =>
          simp only
          have ⟨hl, hrv⟩ := liveL_of_sources g1.inv hp hst
          cases hstart : st.startTime with
          | some t0 =>
            simp only
            exact g1.trans (good_processSources env henv pid st rr _ st.sources s1 0 g1.inv hl ⟨p, st, hp, hst⟩ hrv)
          | none =>
            simp only
            have g2 : GoodT s1 (s1.setProc pid { p with selectState := some { st with startTime := some env.now } }) := by
              refine goodT_setProc_same g1.inv hp ?_
              intro i
              have h1 := selVals_count i st
              have h2 := selVals_count i { st with startTime := some env.now }
              simp only [Proc.count_eq, hst] at h1 h2 ⊢
              omega
            refine g1.trans (g2.trans ?_)
            refine good_processSources env henv pid { st with startTime := some env.now } rr _ st.sources _ 0 g2.inv
              (hl.stable g2.stable) ⟨{ p with selectState := some { st with startTime := some env.now } }, { st with startTime := some env.now }, by simp [getProc, setProc, aget_aset_same], rfl⟩ ?_
            intro k m hk
            exact (hrv k m hk).stable g2.stable

/-- the repaired `handle_select`: parking without evaluating touches no count -/
theorem good_handleSelectWaiting (env : SelEnv) (henv : ∀ id r, env.run id = some r → BuiltinOk r) (pending : Bool)
    {s : State} (h : Inv s) (pid : Nat) : GoodT s (handleSelectWaiting env pending s pid).1 := by
  unfold handleSelectWaiting
  have ⟨g1, _⟩ := good_handleSelectContinuation h pid
  cases hc : handleSelectContinuation s pid with
  | mk s1 o =>
    rw [hc] at g1
    simp only at g1
    cases o with
    | none => exact g1
    | some rr =>
      simp only
      split
      · exact g1
      · exact good_handleSelect env henv h pid

/-- with the gate open it IS `handle_select` -/
theorem handleSelectWaiting_open (env : SelEnv) (s : State) (pid : Nat) :
    handleSelectWaiting env false s pid = handleSelect env s pid := by
  unfold handleSelectWaiting
  cases hc : handleSelectContinuation s pid with
  | mk s1 o =>
    cases o with
    | none => simp [handleSelect, hc]
    | some rr => simp

end QM.Heap
