import QuiverModel.Lemmas.Heap.Notify
/-
`reachable_heap_indices` (a set of indices) versus `countRefs` (a number of paths).
-/
namespace QM.Heap
open State

mutual
theorem mem_idxs_iff (v : Val) (i : Nat) : i ∈ v.idxs ↔ 0 < v.count i := by
  cases v with
  | bin b =>
    cases b with
    | const k => simp [Val.idxs, Val.count]
    | heap j =>
      simp only [Val.idxs, count_heapBin, List.mem_singleton]
      constructor
      · intro e; simp [e]
      · intro h; by_cases e : j = i
        · exact e.symm
        · simp [e] at h
  | tuple id fs => simp only [Val.idxs, count_tuple]; exact mem_idxsList_iff fs i
  | func id cs => simp only [Val.idxs, count_func]; exact mem_idxsList_iff cs i
  | int _ => simp [Val.idxs, Val.count]
  | ref _ => simp [Val.idxs, Val.count]
  | builtin _ => simp [Val.idxs, Val.count]
  | proc _ _ => simp [Val.idxs, Val.count]
  | resource _ _ => simp [Val.idxs, Val.count]
theorem mem_idxsList_iff (vs : List Val) (i : Nat) : i ∈ idxsList vs ↔ 0 < countList i vs := by
  cases vs with
  | nil => simp [idxsList]
  | cons v vs =>
    simp only [idxsList, List.mem_append, countList_cons]
    rw [mem_idxs_iff v i, mem_idxsList_iff vs i]; omega
end

theorem mem_procsIdxs_iff (m : List (Nat × Proc)) (i : Nat) : i ∈ procsIdxs m ↔ 0 < procsCount i m := by
  induction m with
  | nil => simp [procsIdxs, procsCount]
  | cons e m ih =>
    obtain ⟨k, p⟩ := e
    simp only [procsIdxs, procsCount, List.mem_append, ih, mem_idxsList_iff, Proc.count]; omega

theorem mem_constIdxs_iff (l : List (Option Bin)) (i : Nat) : i ∈ constIdxs l ↔ 0 < constCountL i l := by
  induction l with
  | nil => simp [constIdxs, constCountL]
  | cons x xs ih =>
    cases x with
    | none => simp [constIdxs, constCountL, ih]
    | some b =>
      cases b with
      | const k => simp [constIdxs, constCountL, ih]
      | heap j =>
        simp only [constIdxs, constCountL, List.mem_cons, ih]
        by_cases e : j = i
        · simp [e]; omega
        · have : ¬ i = j := fun h => e h.symm
          simp [e, this]

/-- a slot is in `reachable_heap_indices` exactly when some path from a root leads to it -/
theorem mem_reachable_iff (s : State) (i : Nat) : i ∈ s.reachable ↔ 0 < s.countRefs i := by
  simp only [reachable, countRefs, constCount, List.mem_append, mem_procsIdxs_iff, mem_constIdxs_iff]; omega

end QM.Heap
