import QuiverModel.Lemmas.Heap.Notify
/-
`reachable_heap_indices` (a set of indices) versus `countRefs` (a number of paths).
-/
namespace QM.Heap
open State

theorem mem_procsIdxs_iff (m : List (Nat × Proc)) (i : Nat) : i ∈ procsIdxs m ↔ 0 < procsCount i m := by
  induction m with
  | nil => simp [procsIdxs, procsCount]
  | cons e m ih =>
    obtain ⟨k, p⟩ := e
    simp only [procsIdxs, procsCount, List.mem_append, ih, mem_idxsList_iff, Proc.count]; omega

theorem mem_constIdxs_iff (l : List (Option Bin)) (i : Nat) : i ∈ constIdxs l ↔ 0 < constCountL i l := by
  induction l with
  | nil => simp [constIdxs, constCountL]
  | cons x xs ih =>
    cases x with
    | none => simp [constIdxs, constCountL, ih]
    | some b =>
      cases b with
      | const k => simp [constIdxs, constCountL, ih]
      | heap j =>
        simp only [constIdxs, constCountL, List.mem_cons, ih]
        by_cases e : j = i
        · simp [e]; omega
        · have : ¬ i = j := fun h => e h.symm
          simp [e, this]

/-- a slot is in `reachable_heap_indices` exactly when some path from a root leads to it -/
theorem mem_reachable_iff (s : State) (i : Nat) : i ∈ s.reachable ↔ 0 < s.countRefs i := by
  simp only [reachable, countRefs, constCount, List.mem_append, mem_procsIdxs_iff, mem_constIdxs_iff]; omega

end QM.Heap
