import QuiverModel.Core.Heap.Instr
import QuiverModel.Lemmas.Heap.Reclaim
/-
Specifications of the primitive steps the handlers are composed of: each keeps the invariant and is
`Stable` (never frees, never overwrites a live slot); values handed out are live.
-/
namespace QM.Heap
open State

/-- handler-level guarantee -/
structure Good (s t : State) : Prop where
  inv : Inv t
  stable : Stable s t

theorem Good.refl {s : State} (h : Inv s) : Good s s := ⟨h, Stable.refl s⟩
theorem Good.trans {a b c : State} (h1 : Good a b) (h2 : Good b c) : Good a c :=
  ⟨h2.inv, h1.stable.trans h2.stable⟩

theorem count_le_of_mem {v : Val} {vs : List Val} (h : v ∈ vs) (i : Nat) : v.count i ≤ countList i vs := by
  induction vs with
  | nil => cases h
  | cons x xs ih =>
    cases List.mem_cons.mp h with
    | inl e => subst e; simp
    | inr e => have := ih e; simp; omega

theorem count_le_of_getElem? {v : Val} {vs : List Val} {k : Nat} (h : vs[k]? = some v) (i : Nat) :
    v.count i ≤ countList i vs := count_le_of_mem (List.mem_of_getElem? h) i

theorem countList_eraseIdx {vs : List Val} {k : Nat} {v : Val} (h : vs[k]? = some v) (i : Nat) :
    countList i (vs.eraseIdx k) + v.count i = countList i vs := by
  induction vs generalizing k with
  | nil => simp at h
  | cons x xs ih =>
    cases k with
    | zero => simp at h; subst h; simp; omega
    | succ k => simp at h; have := ih h; simp; omega

theorem countList_reverse (vs : List Val) (i : Nat) : countList i vs.reverse = countList i vs := by
  induction vs with
  | nil => simp
  | cons x xs ih => simp [ih]; omega

theorem Live.of_le {s : State} {v w : Val} (hw : Live s w) (h : ∀ i, v.count i ≤ w.count i) : Live s v :=
  fun j hj => hw j (Nat.lt_of_lt_of_le hj (h j))

theorem live_of_heapfree {s : State} {v : Val} (h : ∀ i, v.count i = 0) : Live s v := by
  intro j hj; rw [h j] at hj; cases hj

theorem live_nil {s : State} : Live s Val.nil := live_of_heapfree (by intro i; simp [Val.nil])
theorem live_ok {s : State} : Live s Val.ok := live_of_heapfree (by intro i; simp [Val.ok])

/-- a value stored in a root of process `pid` is live -/
theorem Inv.live_root {s : State} (h : Inv s) {pid : Nat} {p : Proc} (hp : s.getProc pid = some p)
    {v : Val} (hv : ∀ i, v.count i ≤ p.count i) : Live s v :=
  h.live_of_counted (fun j => Nat.le_trans (hv j) (count_le_total s pid p j hp))

theorem Inv.live_transit {s : State} (h : Inv s) {v : Val} (hv : v ∈ s.transit) : Live s v :=
  h.live_of_counted (fun j => by have := count_le_of_mem hv j; simp only [floating]; omega)

/-! ### choke points: `Good` and liveness of what they return -/

theorem good_pushValue {s : State} (h : Inv s) (pid : Nat) {v : Val} (hv : Live s v) :
    Good s (pushValue s pid v) := by
  refine ⟨inv_pushValue h pid hv, ?_⟩
  unfold pushValue; split
  · exact (Stable.of_sameRoots (sameRoots_retain s v)).trans (stable_setProc _ _ _)
  · exact Stable.refl s

theorem good_pushLocal {s : State} (h : Inv s) (pid : Nat) {v : Val} (hv : Live s v) :
    Good s (pushLocal s pid v) := by
  refine ⟨inv_pushLocal h pid hv, ?_⟩
  unfold pushLocal; split
  · exact (Stable.of_sameRoots (sameRoots_retain s v)).trans (stable_setProc _ _ _)
  · exact Stable.refl s

theorem stable_release_setProc (s : State) (pid : Nat) (p : Proc) (v : Val) :
    Stable s (release (s.setProc pid p) v) :=
  (stable_setProc s pid p).trans (Stable.of_sameRoots (sameRoots_release _ v))

theorem stable_releaseList_setProc (s : State) (pid : Nat) (p : Proc) (vs : List Val) :
    Stable s (releaseList (s.setProc pid p) vs) :=
  (stable_setProc s pid p).trans (Stable.of_sameRoots (sameRoots_releaseList _ vs))

theorem popValue_spec {s : State} (h : Inv s) (pid : Nat) :
    Good s (popValue s pid).2 ∧ (popValue s pid).2.transit = s.transit
      ∧ ∀ v, (popValue s pid).1 = some v → Live (popValue s pid).2 v := by
  have hinv := inv_popValue h pid
  cases hp : s.getProc pid with
  | none =>
    simp only [popValue, hp]
    refine ⟨Good.refl h, trivial, ?_⟩
    intro v hv; cases hv
  | some p =>
    cases hst : p.stack with
    | nil =>
      simp only [popValue, hp, hst]
      refine ⟨Good.refl h, trivial, ?_⟩
      intro v hv; cases hv
    | cons v rest =>
      simp only [popValue, hp, hst] at hinv ⊢
      have hst' := stable_release_setProc s pid { p with stack := rest } v
      refine ⟨⟨hinv, hst'⟩, ?_, ?_⟩
      · rw [(sameRoots_release _ v).transit]; simp [setProc]
      · intro v' hv'
        simp only [Option.some.injEq] at hv'; subst hv'
        have : Live s v := h.live_root hp (fun i => by simp [Proc.count_eq, hst]; omega)
        exact this.stable hst'

theorem good_truncateLocals {s : State} (h : Inv s) (pid len : Nat) : Good s (truncateLocals s pid len) := by
  refine ⟨inv_truncateLocals h pid len, ?_⟩
  unfold truncateLocals; split
  · split
    · exact stable_releaseList_setProc _ _ _ _
    · exact Stable.refl s
  · exact Stable.refl s

theorem good_replaceLocals {s : State} (h : Inv s) (pid : Nat) {newLocals : List Val} (hv : LiveL s newLocals) :
    Good s (replaceLocals s pid newLocals).2 := by
  refine ⟨inv_replaceLocals h pid hv, ?_⟩
  unfold replaceLocals; split
  · exact Stable.refl s
  · exact (Stable.of_sameRoots (sameRoots_retainList s newLocals)).trans (stable_releaseList_setProc _ _ _ _)

theorem good_releaseOrphanLocals {s : State} (h : Inv s) (pid : Nat) (keep : List Nat) :
    Good s (releaseOrphanLocals s pid keep).2 := by
  refine ⟨inv_releaseOrphanLocals h pid keep, ?_⟩
  unfold releaseOrphanLocals; split
  · exact Stable.refl s
  · exact stable_releaseList_setProc _ _ _ _

/-! ### frames -/

theorem good_modFrames {s : State} (h : Inv s) (pid : Nat) (f : List Frame → List Frame) :
    Good s (modFrames s pid f) := by
  unfold modFrames; split
  · rename_i p hp
    refine ⟨inv_move h (heapEq_setProc _ _ _) ?_, stable_setProc _ _ _⟩
    intro i
    have := total_setProc s pid p { p with frames := f p.frames } i hp
    simp only [Proc.count_eq] at this; omega
  · exact Good.refl h

theorem good_bump {s : State} (h : Inv s) (pid : Nat) : Good s (bump s pid) := good_modFrames h pid _

theorem transit_modFrames (s : State) (pid : Nat) (f : List Frame → List Frame) :
    (modFrames s pid f).transit = s.transit := by
  unfold modFrames; split <;> simp [setProc]

theorem transit_bump (s : State) (pid : Nat) : (bump s pid).transit = s.transit := transit_modFrames s pid _

theorem transit_pushValue (s : State) (pid : Nat) (v : Val) : (pushValue s pid v).transit = s.transit := by
  unfold pushValue; split
  · simp [setProc, (sameRoots_retain s v).transit]
  · rfl

theorem transit_pushLocal (s : State) (pid : Nat) (v : Val) : (pushLocal s pid v).transit = s.transit := by
  unfold pushLocal; split
  · simp [setProc, (sameRoots_retain s v).transit]
  · rfl

theorem transit_truncateLocals (s : State) (pid len : Nat) : (truncateLocals s pid len).transit = s.transit := by
  unfold truncateLocals; split
  · split
    · rw [(sameRoots_releaseList _ _).transit]; simp [setProc]
    · rfl
  · rfl

/-! ### raw moves -/

theorem rawPop_spec {s : State} (h : Inv s) (pid : Nat) :
    Good s (rawPop s pid).2 ∧ (∀ v, (rawPop s pid).1 = some v → (rawPop s pid).2.transit = v :: s.transit)
      ∧ ((rawPop s pid).1 = none → (rawPop s pid).2 = s) := by
  unfold rawPop
  split
  · rename_i p hp
    split
    · rename_i v rest hst
      refine ⟨⟨inv_move h ?_ ?_, Stable.of_eq (by simp [setProc]) (by simp [setProc])⟩, ?_, ?_⟩
      · constructor <;> simp [setProc]
      · intro i
        have := total_setProc s pid p { p with stack := rest } i hp
        simp only [Proc.count_eq, hst, countList_cons] at this
        simp only [countRefs, constCount, floating, setProc, countList_cons] at this ⊢
        omega
      · intro v' hv'; simp only [Option.some.injEq] at hv'; subst hv'; rfl
      · intro e; cases e
    · refine ⟨Good.refl h, ?_, fun _ => rfl⟩
      intro v hv; cases hv
  · refine ⟨Good.refl h, ?_, fun _ => rfl⟩
    intro v hv; cases hv

theorem good_releaseTransit {s : State} (h : Inv s) (k : Nat) : Good s (releaseTransit s k) := by
  unfold releaseTransit; split
  · rename_i v hv
    refine ⟨inv_remove_release h (s1 := { s with transit := s.transit.eraseIdx k }) ?_ ?_, ?_⟩
    · constructor <;> rfl
    · intro i
      have := countList_eraseIdx hv i
      simp only [countRefs, constCount, floating]; omega
    · exact Stable.trans (b := { s with transit := s.transit.eraseIdx k }) (Stable.of_eq rfl rfl)
        (Stable.of_sameRoots (sameRoots_release _ v))
  · exact Good.refl h

theorem transit_releaseTransit (s : State) (k : Nat) :
    (releaseTransit s k).transit = s.transit.eraseIdx k := by
  unfold releaseTransit; split
  · rename_i v hv; rw [(sameRoots_release _ v).transit]
  · rename_i hv
    rw [List.eraseIdx_of_length_le]
    exact Nat.le_of_not_lt (fun hlt => by simp [hlt] at hv)

theorem good_rawPushTransit {s : State} (h : Inv s) (pid k : Nat) : Good s (rawPushTransit s pid k) := by
  unfold rawPushTransit; split
  · rename_i v p hv hp
    refine ⟨inv_move h ?_ ?_, Stable.of_eq (by simp [setProc]) (by simp [setProc])⟩
    · constructor <;> simp [setProc]
    · intro i
      have := total_setProc s pid p { p with stack := v :: p.stack } i hp
      have h2 := countList_eraseIdx hv i
      simp only [Proc.count_eq, countList_cons] at this
      simp only [countRefs, constCount, floating, setProc] at this ⊢
      omega
  · exact Good.refl h

theorem good_dropTransit {s : State} (h : Inv s) (k : Nat)
    (hfree : ∀ v, s.transit[k]? = some v → ∀ i, v.count i = 0) : Good s (dropTransit s k) := by
  unfold dropTransit
  refine ⟨inv_move h (by constructor <;> rfl) ?_, Stable.of_eq rfl rfl⟩
  intro i
  simp only [countRefs, constCount, floating]
  cases hv : s.transit[k]? with
  | none =>
    rw [List.eraseIdx_of_length_le (Nat.le_of_not_lt (fun hlt => by simp [hlt] at hv))]
  | some v => have := countList_eraseIdx hv i; have := hfree v hv i; omega

theorem good_rawPush {s : State} (h : Inv s) (pid : Nat) {v : Val} (hv : ∀ i, v.count i = 0) :
    Good s (rawPush s pid v) := by
  unfold rawPush; split
  · rename_i p hp
    refine ⟨inv_move h (heapEq_setProc _ _ _) ?_, stable_setProc _ _ _⟩
    intro i
    have := total_setProc s pid p { p with stack := v :: p.stack } i hp
    simp only [Proc.count_eq, countList_cons, hv i] at this; omega
  · exact Good.refl h

theorem transit_rawPush (s : State) (pid : Nat) (v : Val) : (rawPush s pid v).transit = s.transit := by
  unfold rawPush; split <;> simp [setProc]

end QM.Heap
