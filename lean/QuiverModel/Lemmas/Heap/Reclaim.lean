import QuiverModel.Lemmas.Heap.Alloc
/-
`process_pending_free`, `materialize`, `cached_constant_binary`.
-/
namespace QM.Heap
open State

/-- the invariant without the two clauses about `pending_free` (which the reclamation loop empties) -/
structure InvCore (s : State) : Prop where
  shapeRc : s.refcounts.size = s.heap.size
  shapeFr : s.freed.size = s.heap.size
  acct : Acct s
  freedZero : ∀ i, s.isFreed i = true → s.rc i = 0
  freeFreed : ∀ j ∈ s.free, s.isFreed j = true
  freedFree : ∀ i, s.isFreed i = true → i ∈ s.free
  freeNodup : s.free.Nodup

theorem Inv.core {s : State} (h : Inv s) : InvCore s :=
  ⟨h.shapeRc, h.shapeFr, h.acct, h.freedZero, h.freeFreed, h.freedFree, h.freeNodup⟩

theorem rootsEq_freeOne (s : State) (j : Nat) : RootsEq s (freeOne s j) := by
  unfold freeOne; split
  · exact ⟨rfl, rfl, rfl⟩
  · exact RootsEq.refl s

theorem rc_freeOne (s : State) (j i : Nat) : (freeOne s j).rc i = s.rc i := by
  unfold freeOne; split <;> rfl

theorem size_freeOne (s : State) (j : Nat) : (freeOne s j).heap.size = s.heap.size := by
  unfold freeOne; split <;> simp

theorem fresh_freeOne (s : State) (j : Nat) : (freeOne s j).fresh = s.fresh := by
  unfold freeOne; split <;> rfl

theorem pendingFree_freeOne (s : State) (j : Nat) : (freeOne s j).pendingFree = s.pendingFree := by
  unfold freeOne; split <;> rfl

theorem isFreed_freeOne (s : State) (j i : Nat) :
    (freeOne s j).isFreed i = if (i = j ∧ j < s.freed.size) ∧ s.rc j = 0 ∧ s.isFreed j = false then true else s.isFreed i := by
  unfold freeOne
  by_cases hc : s.rc j = 0 ∧ s.isFreed j = false
  · rw [if_pos hc]
    show (s.freed.setIfInBounds j true).getD i false = _
    rw [getD_setIfInBounds]
    by_cases h1 : j = i ∧ j < s.freed.size
    · have h2 : (i = j ∧ j < s.freed.size) ∧ s.rc j = 0 ∧ s.isFreed j = false := ⟨⟨h1.1.symm, h1.2⟩, hc⟩
      rw [if_pos h1, if_pos h2]
    · have h2 : ¬ ((i = j ∧ j < s.freed.size) ∧ s.rc j = 0 ∧ s.isFreed j = false) :=
        fun hh => h1 ⟨hh.1.1.symm, hh.1.2⟩
      rw [if_neg h1, if_neg h2]; rfl
  · rw [if_neg hc]
    have h2 : ¬ ((i = j ∧ j < s.freed.size) ∧ s.rc j = 0 ∧ s.isFreed j = false) := fun hh => hc hh.2
    rw [if_neg h2]

theorem isFreed_freeOne_mono (s : State) (j i : Nat) (h : s.isFreed i = true) : (freeOne s j).isFreed i = true := by
  rw [isFreed_freeOne]; split <;> simp [h]

theorem bytesAt_freeOne (s : State) (j i : Nat) (hs : s.freed.size = s.heap.size)
    (h : (freeOne s j).isFreed i = false) : (freeOne s j).bytesAt i = s.bytesAt i := by
  rw [isFreed_freeOne] at h
  unfold freeOne
  split
  · rename_i hc
    show ((s.heap.setIfInBounds j (.owned [])).getD i (.owned [])).toVec = _
    rw [getD_setIfInBounds]
    split
    · rename_i h1
      exfalso
      have h2 : (i = j ∧ j < s.freed.size) ∧ s.rc j = 0 ∧ s.isFreed j = false :=
        ⟨⟨h1.1.symm, by rw [hs]; exact h1.2⟩, hc⟩
      rw [if_pos h2] at h; cases h
    · rfl
  · rfl

theorem invCore_freeOne {s : State} (h : InvCore s) (j : Nat) (hj : j < s.heap.size) : InvCore (freeOne s j) := by
  have hrc := rc_freeOne s j
  have hfd := isFreed_freeOne s j
  have hre := rootsEq_freeOne s j
  by_cases hc : s.rc j = 0 ∧ s.isFreed j = false
  · have hjf : j < s.freed.size := by rw [h.shapeFr]; exact hj
    have hfree : (freeOne s j).free = j :: s.free := by unfold freeOne; rw [if_pos hc]
    have hfd' : ∀ i, (freeOne s j).isFreed i = if i = j then true else s.isFreed i := by
      intro i; rw [hfd]
      by_cases e : i = j
      · rw [if_pos e, if_pos ⟨⟨e, hjf⟩, hc⟩]
      · rw [if_neg e, if_neg (fun hh => e hh.1.1)]
    constructor
    · unfold freeOne; rw [if_pos hc]; simp [h.shapeRc]
    · unfold freeOne; rw [if_pos hc]; simp [h.shapeFr]
    · intro i; rw [hrc, hre.total]; exact h.acct i
    · intro i hi; rw [hrc]; rw [hfd'] at hi
      by_cases e : i = j
      · rw [e]; exact hc.1
      · rw [if_neg e] at hi; exact h.freedZero i hi
    · intro k hk; rw [hfree] at hk; rw [hfd']
      by_cases e : k = j
      · rw [if_pos e]
      · rw [if_neg e]
        cases List.mem_cons.mp hk with
        | inl e' => exact absurd e' e
        | inr e' => exact h.freeFreed k e'
    · intro i hi; rw [hfd'] at hi; rw [hfree]
      by_cases e : i = j
      · rw [e]; simp
      · rw [if_neg e] at hi; exact List.mem_cons_of_mem _ (h.freedFree i hi)
    · rw [hfree]
      refine List.nodup_cons.mpr ⟨?_, h.freeNodup⟩
      intro hm; have := h.freeFreed j hm; rw [hc.2] at this; cases this
  · have : freeOne s j = s := by unfold freeOne; rw [if_neg hc]
    rw [this]; exact h

theorem freeAll_spec (L : List Nat) : ∀ (s : State), InvCore s → (∀ j ∈ L, j < s.heap.size) →
    InvCore (freeAll s L) ∧ (freeAll s L).heap.size = s.heap.size
      ∧ (∀ i, (freeAll s L).rc i = s.rc i)
      ∧ (freeAll s L).fresh = s.fresh ∧ (freeAll s L).pendingFree = s.pendingFree
      ∧ RootsEq s (freeAll s L)
      ∧ (∀ i, s.isFreed i = true → (freeAll s L).isFreed i = true)
      ∧ (∀ i, i ∈ L → s.rc i = 0 → (freeAll s L).isFreed i = true)
      ∧ (∀ i, (freeAll s L).isFreed i = true → s.isFreed i = true ∨ (i ∈ L ∧ s.rc i = 0))
      ∧ (∀ i, (freeAll s L).isFreed i = false → (freeAll s L).bytesAt i = s.bytesAt i) := by
  induction L with
  | nil =>
    intro s h _
    have e : freeAll s [] = s := rfl
    rw [e]
    exact ⟨h, rfl, fun _ => rfl, rfl, rfl, RootsEq.refl s, fun _ a => a,
      fun _ a _ => absurd a List.not_mem_nil, fun _ a => Or.inl a, fun _ _ => rfl⟩
  | cons j L ih =>
    intro s h hL
    have hj : j < s.heap.size := hL j (by simp)
    have h1 := invCore_freeOne h j hj
    have hL' : ∀ k ∈ L, k < (freeOne s j).heap.size := by
      intro k hk; rw [size_freeOne]; exact hL k (List.mem_cons_of_mem _ hk)
    obtain ⟨a1, a2, a3, a4, a5, a6, a7, a8, a9, a10⟩ := ih (freeOne s j) h1 hL'
    have e : freeAll s (j :: L) = freeAll (freeOne s j) L := rfl
    rw [e]
    refine ⟨a1, by rw [a2, size_freeOne], fun i => by rw [a3, rc_freeOne], by rw [a4, fresh_freeOne],
      by rw [a5, pendingFree_freeOne], (rootsEq_freeOne s j).trans a6, ?_, ?_, ?_, ?_⟩
    · intro i hi; exact a7 i (isFreed_freeOne_mono s j i hi)
    · intro i hi hz
      cases List.mem_cons.mp hi with
      | inl e =>
        subst e
        apply a7
        rw [isFreed_freeOne]
        by_cases hf : s.isFreed i = false
        · rw [if_pos ⟨⟨rfl, by rw [h.shapeFr]; exact hj⟩, hz, hf⟩]
        · have : s.isFreed i = true := by cases hh : s.isFreed i <;> simp_all
          split <;> simp [this]
      | inr e => exact a8 i e (by rw [rc_freeOne]; exact hz)
    · intro i hi
      cases a9 i hi with
      | inl e =>
        rw [isFreed_freeOne] at e
        split at e
        · rename_i hc; exact Or.inr ⟨by rw [hc.1.1]; simp, by rw [hc.1.1]; exact hc.2.1⟩
        · exact Or.inl e
      | inr e => exact Or.inr ⟨List.mem_cons_of_mem _ e.1, by rw [← rc_freeOne s j]; exact e.2⟩
    · intro i hi
      rw [a10 i hi]
      apply bytesAt_freeOne s j i h.shapeFr
      cases hh : (freeOne s j).isFreed i with
      | false => rfl
      | true => have := a7 i hh; rw [this] at hi; cases hi

theorem uaf_freeOne (s : State) (j : Nat) : (freeOne s j).uaf = s.uaf := by
  unfold freeOne; split <;> rfl

theorem uaf_freeAll (L : List Nat) : ∀ (s : State), (freeAll s L).uaf = s.uaf := by
  induction L with
  | nil => intro s; rfl
  | cons j L ih => intro s; simp only [freeAll]; rw [ih, uaf_freeOne]

/-- `process_pending_free` preserves the invariant -/
theorem inv_processPendingFree {s : State} (h : Inv s) : Inv (processPendingFree s) := by
  unfold processPendingFree
  have h0 : InvCore { s with pendingFree := [] } :=
    ⟨h.shapeRc, h.shapeFr, h.acct, h.freedZero, h.freeFreed, h.freedFree, h.freeNodup⟩
  obtain ⟨a1, a2, a3, a4, a5, _, a7, a8, _, _⟩ := freeAll_spec s.pendingFree _ h0 h.pendLt
  refine ⟨a1.shapeRc, a1.shapeFr, a1.acct, a1.freedZero, a1.freeFreed, a1.freedFree, a1.freeNodup, ?_, ?_,
    by rw [uaf_freeAll]; exact h.noUaf⟩
  · intro i hi hz hnf
    right
    rw [a4]
    rw [a2] at hi; rw [a3] at hz
    have hz' : s.rc i = 0 := hz
    have hnf0 : s.isFreed i = false := by
      cases hh : s.isFreed i with
      | false => rfl
      | true => have := a7 i hh; rw [this] at hnf; cases hnf
    cases h.queued i hi hz' hnf0 with
    | inl hp => have := a8 i hp hz'; rw [this] at hnf; cases hnf
    | inr hf => exact hf
  · intro j hj; rw [a5] at hj; cases hj

/-- the reclamation loop empties the queue -/
theorem pendingFree_processPendingFree {s : State} (h : Inv s) : (processPendingFree s).pendingFree = [] := by
  unfold processPendingFree
  have h0 : InvCore { s with pendingFree := [] } :=
    ⟨h.shapeRc, h.shapeFr, h.acct, h.freedZero, h.freeFreed, h.freedFree, h.freeNodup⟩
  exact (freeAll_spec s.pendingFree _ h0 h.pendLt).2.2.2.2.1

/-- a slot freed by `process_pending_free` had count 0 -/
theorem freed_by_ppf {s : State} (h : Inv s) (i : Nat) (hf : (processPendingFree s).isFreed i = true)
    (hnf : s.isFreed i = false) : s.rc i = 0 ∧ i ∈ s.pendingFree := by
  unfold processPendingFree at hf
  have h0 : InvCore { s with pendingFree := [] } :=
    ⟨h.shapeRc, h.shapeFr, h.acct, h.freedZero, h.freeFreed, h.freedFree, h.freeNodup⟩
  obtain ⟨_, _, _, _, _, _, _, _, a9, _⟩ := freeAll_spec s.pendingFree _ h0 h.pendLt
  cases a9 i hf with
  | inl e => have e' : s.isFreed i = true := e; rw [e'] at hnf; cases hnf
  | inr e => exact ⟨e.2, e.1⟩

/-- every queued slot whose count is still 0 is freed -/
theorem ppf_frees {s : State} (h : Inv s) (i : Nat) (hq : i ∈ s.pendingFree) (hz : s.rc i = 0) :
    (processPendingFree s).isFreed i = true := by
  unfold processPendingFree
  have h0 : InvCore { s with pendingFree := [] } :=
    ⟨h.shapeRc, h.shapeFr, h.acct, h.freedZero, h.freeFreed, h.freedFree, h.freeNodup⟩
  exact (freeAll_spec s.pendingFree _ h0 h.pendLt).2.2.2.2.2.2.2.1 i hq hz

/-- slots that stay un-freed keep their bytes; sizes, counts and roots do not change -/
theorem ppf_frame {s : State} (h : Inv s) :
    (processPendingFree s).heap.size = s.heap.size ∧ (∀ i, (processPendingFree s).rc i = s.rc i)
      ∧ RootsEq s (processPendingFree s) ∧ (processPendingFree s).fresh = s.fresh
      ∧ (∀ i, (processPendingFree s).isFreed i = false → (processPendingFree s).bytesAt i = s.bytesAt i)
      ∧ (∀ i, s.isFreed i = true → (processPendingFree s).isFreed i = true) := by
  unfold processPendingFree
  have h0 : InvCore { s with pendingFree := [] } :=
    ⟨h.shapeRc, h.shapeFr, h.acct, h.freedZero, h.freeFreed, h.freedFree, h.freeNodup⟩
  obtain ⟨_, a2, a3, a4, _, a6, a7, _, _, a10⟩ := freeAll_spec s.pendingFree _ h0 h.pendLt
  exact ⟨a2, a3, ⟨a6.procs, a6.consts, a6.transit⟩, a4, a10, a7⟩

/-! ### materialize -/

theorem inv_materializeCore {s : State} (h : Inv s) (index : Nat) : Inv (materializeCore s index).2 := by
  unfold materializeCore
  split
  · exact h
  · exact ⟨by simpa using h.shapeRc, by simpa using h.shapeFr, h.acct, h.freedZero, h.freeFreed,
      h.freedFree, h.freeNodup, fun i hi hz hnf => h.queued i (by simpa using hi) hz hnf,
      fun j hj => by simpa using h.pendLt j hj, h.noUaf⟩
  · exact h

/-- flattening is content-preserving on every slot -/
theorem bytesAt_materializeCore (s : State) (index i : Nat) : (materializeCore s index).2.bytesAt i = s.bytesAt i := by
  unfold materializeCore
  split
  · rfl
  · rename_i bs hget
    show ((s.heap.setIfInBounds index (.owned bs)).getD i (.owned [])).toVec = _
    rw [getD_setIfInBounds]
    split
    · rename_i hc
      have : s.heap.getD i (.owned []) = .rope bs := by
        rw [← hc.1]; simp [Array.getD_eq_getD_getElem?, hget]
      simp [State.bytesAt, this, Data.toVec]
    · rfl
  · rfl

theorem materializeCore_fst (s : State) (index : Nat) (h : index < s.heap.size) :
    (materializeCore s index).1 = s.bytesAt index := by
  have hg : s.heap[index]? = some s.heap[index] := by simp [h]
  cases hd : s.heap[index] with
  | owned bs => simp [materializeCore, hg, hd, State.bytesAt, Array.getD_eq_getD_getElem?, Data.toVec]
  | rope bs => simp [materializeCore, hg, hd, State.bytesAt, Array.getD_eq_getD_getElem?, Data.toVec]

theorem stable_materializeCore (s : State) (index : Nat) : Stable s (materializeCore s index).2 := by
  refine ⟨?_, ?_⟩
  · unfold materializeCore; split <;> simp
  · intro i _ hf
    refine ⟨?_, bytesAt_materializeCore s index i⟩
    unfold materializeCore; split <;> exact hf

theorem rootsEq_materializeCore (s : State) (index : Nat) : RootsEq s (materializeCore s index).2 := by
  unfold materializeCore; split <;> exact ⟨rfl, rfl, rfl⟩

theorem inv_withUaf {s : State} (h : Inv s) {b : Bool} (hb : b = false) : Inv { s with uaf := b } :=
  ⟨h.shapeRc, h.shapeFr, h.acct, h.freedZero, h.freeFreed, h.freedFree, h.freeNodup, h.queued, h.pendLt, hb⟩

/-- `materialize` of a slot that is not freed (the handle is live) -/
theorem inv_materialize {s : State} (h : Inv s) (index : Nat) (hnf : s.isFreed index = false) :
    Inv (materialize s index).2 :=
  inv_withUaf (inv_materializeCore h index) (by simp [h.noUaf, hnf])

theorem bytesAt_materialize (s : State) (index i : Nat) : (materialize s index).2.bytesAt i = s.bytesAt i :=
  bytesAt_materializeCore s index i

theorem materialize_fst (s : State) (index : Nat) (h : index < s.heap.size) :
    (materialize s index).1 = s.bytesAt index := materializeCore_fst s index h

theorem stable_materialize (s : State) (index : Nat) : Stable s (materialize s index).2 := by
  have h := stable_materializeCore s index
  exact ⟨h.size, h.keep⟩

theorem rootsEq_materialize (s : State) (index : Nat) : RootsEq s (materialize s index).2 := by
  have h := rootsEq_materializeCore s index
  exact ⟨h.procs, h.consts, h.transit⟩

/-! ### the constant cache -/

theorem constCountL_append (i : Nat) (xs ys : List (Option Bin)) :
    constCountL i (xs ++ ys) = constCountL i xs + constCountL i ys := by
  induction xs with
  | nil => simp [constCountL]
  | cons x xs ih =>
    cases x with
    | none => simp [constCountL, ih]
    | some b => cases b <;> simp [constCountL, ih]; omega

theorem constCountL_replicate (i n : Nat) : constCountL i (List.replicate n none) = 0 := by
  induction n with
  | zero => simp [constCountL]
  | succ n ih => simp [List.replicate_succ, constCountL, ih]

theorem constCountL_set (i idx k : Nat) (l : List (Option Bin)) (h : l[k]? = some none) :
    constCountL i (l.set k (some (.heap idx))) = constCountL i l + (if idx = i then 1 else 0) := by
  induction l generalizing k with
  | nil => simp at h
  | cons x xs ih =>
    cases k with
    | zero =>
      simp at h; subst h
      simp [constCountL]; omega
    | succ k =>
      simp at h
      have := ih k h
      cases x with
      | none => simp [constCountL, this]
      | some b => cases b <;> simp [constCountL, this]; omega

theorem resizeCache_get (c : Array (Option Bin)) (index : Nat) (h : ∀ b, c[index]? ≠ some (some b)) :
    (resizeCache c index).toList[index]? = some none ∧ constCountL i (resizeCache c index).toList = constCountL i c.toList := by
  unfold resizeCache
  split
  · rename_i hle
    constructor
    · simp only [Array.toList_append, Array.toList_replicate]
      rw [List.getElem?_append_right (by simpa using hle)]
      rw [List.getElem?_replicate]
      simp; omega
    · simp [constCountL_append, constCountL_replicate]
  · rename_i hlt
    have hlt' : index < c.size := by omega
    constructor
    · have := h
      cases hc : c[index]? with
      | none => simp [hlt'] at hc
      | some o =>
        cases o with
        | none => simpa using hc
        | some b => exact absurd hc (h b)
    · rfl

theorem cachedConstantBinary_spec {s : State} (h : Inv s) (index : Nat) (bytes : Option Bytes) :
    Inv (cachedConstantBinary s index bytes).2 ∧ Stable s (cachedConstantBinary s index bytes).2
      ∧ (cachedConstantBinary s index bytes).2.procs = s.procs
      ∧ (cachedConstantBinary s index bytes).2.transit = s.transit
      ∧ (∀ b, (cachedConstantBinary s index bytes).1 = some b →
          Live (cachedConstantBinary s index bytes).2 (.bin b)) := by
  unfold cachedConstantBinary
  split
  · rename_i b hb
    refine ⟨h, Stable.refl s, rfl, rfl, ?_⟩
    intro b' hb'
    simp only [Option.some.injEq] at hb'; subst hb'
    -- a cached entry is a root, hence live
    apply h.live_of_counted
    intro j
    cases b with
    | const k => simp [Val.count]
    | heap k =>
      simp only [count_heapBin]
      split
      · rename_i e; subst e
        have hk : index < s.constantBinaries.size := by
          by_cases hlt : index < s.constantBinaries.size
          · exact hlt
          · simp [hlt] at hb
        have hmem : some (Bin.heap k) ∈ s.constantBinaries.toList := by
          have : s.constantBinaries[index] = some (Bin.heap k) := by simpa [hk] using hb
          rw [← this]; simp
        have : 1 ≤ constCountL k s.constantBinaries.toList := by
          generalize s.constantBinaries.toList = l at hmem
          induction l with
          | nil => cases hmem
          | cons x xs ih =>
            cases List.mem_cons.mp hmem with
            | inl e => rw [← e]; simp [constCountL]
            | inr e =>
              have := ih e
              cases x with
              | none => simpa [constCountL] using this
              | some b => cases b <;> simp [constCountL] <;> omega
        simp only [countRefs, constCount]; omega
      · omega
  · rename_i hmiss
    split
    · exact ⟨h, Stable.refl s, rfl, rfl, fun b hb => by cases hb⟩
    · rename_i bs
      split
      · rename_i s' ha
        have := allocate_none ha; subst this
        exact ⟨h, Stable.refl _, rfl, rfl, fun b hb => by cases hb⟩
      · rename_i idx s1 ha
        have h1 : Inv s1 := by have := inv_allocate h (.owned bs); rw [ha] at this; exact this
        have hst1 : Stable s s1 := by have := stable_allocate h (.owned bs); rw [ha] at this; exact this
        have hre1 : RootsEq s s1 := by have := rootsEq_allocate s (.owned bs); rw [ha] at this; exact this
        have hlive : Live s1 (.bin (.heap idx)) := allocate_live h ha
        have hnb : ∀ b, s1.constantBinaries[index]? ≠ some (some b) := by
          intro b; rw [hre1.consts]; exact fun e => hmiss b e
        have hinv : Inv (retain { s1 with constantBinaries :=
            (resizeCache s1.constantBinaries index).setIfInBounds index (some (.heap idx)) } (.bin (.heap idx))) := by
          refine inv_retain_add h1 hlive ?_ ?_
          · constructor <;> simp [retain, retainIdx, State.isFreed]
          · intro i
            have ⟨hget, hcnt⟩ := resizeCache_get (i := i) s1.constantBinaries index hnb
            simp only [retain, retainIdx, countRefs, constCount, floating, Array.toList_setIfInBounds,
              count_heapBin]
            rw [constCountL_set i idx index _ hget, hcnt]; omega
        refine ⟨hinv, ?_, ?_, ?_, ?_⟩
        · exact hst1.trans (Stable.of_eq (by simp [retain, retainIdx]) (by simp [retain, retainIdx]))
        · simp [retain, retainIdx, hre1.procs]
        · simp [retain, retainIdx, hre1.transit]
        · intro b hb
          simp only [Option.some.injEq] at hb; subst hb
          exact hlive.stable (Stable.of_eq (by simp [retain, retainIdx]) (by simp [retain, retainIdx]))

end QM.Heap
