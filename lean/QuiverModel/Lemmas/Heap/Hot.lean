import QuiverModel.Lemmas.Heap.Transfer
/-
Every hot instruction handler keeps the invariant, is `Stable`, and leaves nothing in transit.
-/
namespace QM.Heap
open State

/-- handler guarantee: invariant, stability, and the in-transit list is what it was -/
structure GoodT (s t : State) : Prop extends Good s t where
  transit : t.transit = s.transit

theorem GoodT.refl {s : State} (h : Inv s) : GoodT s s := ⟨Good.refl h, rfl⟩
theorem GoodT.trans {a b c : State} (h1 : GoodT a b) (h2 : GoodT b c) : GoodT a c :=
  ⟨h1.toGood.trans h2.toGood, h2.transit.trans h1.transit⟩

theorem goodT_pushValue {s : State} (h : Inv s) (pid : Nat) {v : Val} (hv : Live s v) :
    GoodT s (pushValue s pid v) := ⟨good_pushValue h pid hv, transit_pushValue s pid v⟩
theorem goodT_pushLocal {s : State} (h : Inv s) (pid : Nat) {v : Val} (hv : Live s v) :
    GoodT s (pushLocal s pid v) := ⟨good_pushLocal h pid hv, transit_pushLocal s pid v⟩
theorem goodT_bump {s : State} (h : Inv s) (pid : Nat) : GoodT s (bump s pid) :=
  ⟨good_bump h pid, transit_bump s pid⟩
theorem goodT_modFrames {s : State} (h : Inv s) (pid : Nat) (f : List Frame → List Frame) :
    GoodT s (modFrames s pid f) := ⟨good_modFrames h pid f, transit_modFrames s pid f⟩
theorem goodT_truncateLocals {s : State} (h : Inv s) (pid len : Nat) : GoodT s (truncateLocals s pid len) :=
  ⟨good_truncateLocals h pid len, transit_truncateLocals s pid len⟩

theorem goodT_push_bump {s : State} (h : Inv s) (pid : Nat) {v : Val} (hv : Live s v) :
    GoodT s (bump (pushValue s pid v) pid) :=
  (goodT_pushValue h pid hv).trans (goodT_bump (inv_pushValue h pid hv) pid)

theorem popValue_specT {s : State} (h : Inv s) (pid : Nat) :
    GoodT s (popValue s pid).2 ∧ ∀ v, (popValue s pid).1 = some v → Live (popValue s pid).2 v := by
  have ⟨a, b, c⟩ := popValue_spec h pid
  exact ⟨⟨a, b⟩, c⟩

/-- a value read (cloned) from the stack or the locals of a process is live -/
theorem live_of_stackOf {s : State} (h : Inv s) {pid : Nat} {v : Val} (hv : v ∈ stackOf s pid) : Live s v := by
  unfold stackOf at hv
  split at hv
  · rename_i p hp
    exact h.live_root hp (fun i => by have := count_le_of_mem hv i; simp [Proc.count_eq]; omega)
  · cases hv

theorem live_of_localsOf {s : State} (h : Inv s) {pid : Nat} {v : Val} (hv : v ∈ localsOf s pid) : Live s v := by
  unfold localsOf at hv
  split at hv
  · rename_i p hp
    exact h.live_root hp (fun i => by have := count_le_of_mem hv i; simp [Proc.count_eq]; omega)
  · cases hv

theorem popN_spec (pid : Nat) (n : Nat) : ∀ (s : State), Inv s →
    GoodT s (popN s pid n).2 ∧ ∀ vs, (popN s pid n).1 = some vs → LiveL (popN s pid n).2 vs := by
  induction n with
  | zero =>
    intro s h
    simp only [popN]
    refine ⟨GoodT.refl h, ?_⟩
    intro vs hvs; simp only [Option.some.injEq] at hvs; subst hvs; exact liveL_nil
  | succ n ih =>
    intro s h
    have sp := popValue_specT h pid
    simp only [popN]
    cases hpv : popValue s pid with
    | mk o s1 =>
      rw [hpv] at sp
      cases o with
      | none =>
        simp only
        refine ⟨sp.1, ?_⟩
        intro vs hvs; cases hvs
      | some v =>
        simp only
        have ⟨g2, l2⟩ := ih s1 sp.1.inv
        cases hpn : popN s1 pid n with
        | mk o2 s2 =>
          rw [hpn] at g2 l2
          cases o2 with
          | none =>
            simp only
            refine ⟨sp.1.trans g2, ?_⟩
            intro vs hvs; cases hvs
          | some vs2 =>
            simp only
            refine ⟨sp.1.trans g2, ?_⟩
            intro vs hvs; simp only [Option.some.injEq] at hvs; subst hvs
            exact liveL_cons.mpr ⟨(sp.2 v rfl).stable g2.stable, l2 vs2 rfl⟩

theorem pushLocals_spec (pid : Nat) (cs : List Val) : ∀ (s : State), Inv s → LiveL s cs →
    GoodT s (pushLocals s pid cs) := by
  induction cs with
  | nil => intro s h _; exact GoodT.refl h
  | cons c cs ih =>
    intro s h hl
    have ⟨hc, hcs⟩ := liveL_cons.mp hl
    have g1 := goodT_pushLocal h pid hc
    simp only [pushLocals]
    exact g1.trans (ih _ g1.inv (hcs.stable g1.stable))

theorem liveL_reverse {s : State} {vs : List Val} (h : LiveL s vs) : LiveL s vs.reverse := by
  intro j hj; rw [countList_reverse] at hj; exact h j hj

/-! ### handlers -/

theorem good_handleConstant {s : State} (h : Inv s) (pid index : Nat) (c : Option Const) :
    GoodT s (handleConstant s pid index c).1 := by
  unfold handleConstant
  split
  · exact GoodT.refl h
  · exact goodT_push_bump h pid (live_of_heapfree (by intro i; simp [Val.count]))
  · rename_i bs
    have ⟨a, b, c, d, e⟩ := cachedConstantBinary_spec h index (some bs)
    cases hc : cachedConstantBinary s index (some bs) with
    | mk o s1 =>
      rw [hc] at a b c d e
      cases o with
      | none => exact ⟨⟨a, b⟩, d⟩
      | some bin =>
        simp only
        exact GoodT.trans ⟨⟨a, b⟩, d⟩ (goodT_push_bump a pid (e bin rfl))

theorem good_handlePop {s : State} (h : Inv s) (pid : Nat) : GoodT s (handlePop s pid).1 := by
  unfold handlePop
  have sp := popValue_specT h pid
  cases hpv : popValue s pid with
  | mk o s1 =>
    rw [hpv] at sp
    cases o with
    | none => exact sp.1
    | some v => exact sp.1.trans (goodT_bump sp.1.inv pid)

theorem good_handleDuplicate {s : State} (h : Inv s) (pid : Nat) : GoodT s (handleDuplicate s pid).1 := by
  unfold handleDuplicate
  split
  · rename_i v rest hst
    exact goodT_push_bump h pid (live_of_stackOf h (pid := pid) (by rw [hst]; simp))
  · exact GoodT.refl h

theorem good_handlePick {s : State} (h : Inv s) (pid n : Nat) : GoodT s (handlePick s pid n).1 := by
  unfold handlePick
  split
  · rename_i v hv
    exact goodT_push_bump h pid (live_of_stackOf h (pid := pid) (List.mem_of_getElem? hv))
  · exact GoodT.refl h

theorem good_handleRotate {s : State} (h : Inv s) (pid n : Nat) : GoodT s (handleRotate s pid n).1 := by
  unfold handleRotate
  split
  · exact GoodT.refl h
  · rename_i p hp
    split
    · exact GoodT.refl h
    · split
      · rename_i item hitem
        have g1 : GoodT s (s.setProc pid { p with stack := item :: p.stack.eraseIdx (n - 1) }) := by
          refine ⟨⟨inv_move h (heapEq_setProc _ _ _) ?_, stable_setProc _ _ _⟩, by simp [setProc]⟩
          intro i
          have := total_setProc s pid p { p with stack := item :: p.stack.eraseIdx (n - 1) } i hp
          have h2 := countList_eraseIdx hitem i
          simp only [Proc.count_eq, countList_cons] at this; omega
        exact g1.trans (goodT_bump g1.inv pid)
      · exact GoodT.refl h

theorem good_handleLoad {s : State} (h : Inv s) (pid index : Nat) : GoodT s (handleLoad s pid index).1 := by
  unfold handleLoad
  split
  · exact GoodT.refl h
  · split
    · rename_i v hv
      exact goodT_push_bump h pid (live_of_localsOf h (pid := pid) (List.mem_of_getElem? hv))
    · exact GoodT.refl h

theorem good_handleStore {s : State} (h : Inv s) (pid : Nat) : GoodT s (handleStore s pid).1 := by
  unfold handleStore
  have sp := popValue_specT h pid
  cases hpv : popValue s pid with
  | mk o s1 =>
    rw [hpv] at sp
    cases o with
    | none => exact sp.1
    | some v =>
      have g2 := goodT_pushLocal sp.1.inv pid (sp.2 v rfl)
      exact sp.1.trans (g2.trans (goodT_bump g2.inv pid))

theorem good_handleTuple {s : State} (h : Inv s) (pid typeId : Nat) (size : Option Nat) :
    GoodT s (handleTuple s pid typeId size).1 := by
  unfold handleTuple
  split
  · exact GoodT.refl h
  · rename_i n
    have ⟨g, l⟩ := popN_spec pid n s h
    cases hpn : popN s pid n with
    | mk o s1 =>
      rw [hpn] at g l
      cases o with
      | none => exact g
      | some vs =>
        simp only
        exact g.trans (goodT_push_bump g.inv pid (live_tuple.mpr (liveL_reverse (l vs rfl))))

theorem good_handleFunction {s : State} (h : Inv s) (pid fi : Nat) (cc : Option Nat) :
    GoodT s (handleFunction s pid fi cc).1 := by
  unfold handleFunction
  split
  · exact GoodT.refl h
  · rename_i n
    have ⟨g, l⟩ := popN_spec pid n s h
    cases hpn : popN s pid n with
    | mk o s1 =>
      rw [hpn] at g l
      cases o with
      | none => exact g
      | some vs =>
        simp only
        exact g.trans (goodT_push_bump g.inv pid (live_func.mpr (liveL_reverse (l vs rfl))))

theorem good_handleGet {s : State} (h : Inv s) (pid index : Nat) : GoodT s (handleGet s pid index).1 := by
  unfold handleGet
  have sp := popValue_specT h pid
  cases hpv : popValue s pid with
  | mk o s1 =>
    rw [hpv] at sp
    cases o with
    | none => exact sp.1
    | some v =>
      cases v with
      | tuple id elements =>
        simp only
        split
        · rename_i element hel
          have hl : Live s1 element :=
            (sp.2 _ rfl).of_le (fun i => by simpa using count_le_of_getElem? hel i)
          exact sp.1.trans (goodT_push_bump sp.1.inv pid hl)
        · exact sp.1
      | _ => exact sp.1

theorem good_handleIsType {s : State} (h : Inv s) (pid : Nat) (isMatch : Val → Bool) :
    GoodT s (handleIsType s pid isMatch).1 := by
  unfold handleIsType
  have sp := popValue_specT h pid
  cases hpv : popValue s pid with
  | mk o s1 =>
    rw [hpv] at sp
    cases o with
    | none => exact sp.1
    | some v =>
      simp only
      refine sp.1.trans (goodT_push_bump sp.1.inv pid ?_)
      split
      · exact live_ok
      · exact live_nil

theorem good_handleNot {s : State} (h : Inv s) (pid : Nat) : GoodT s (handleNot s pid).1 := by
  unfold handleNot
  have sp := popValue_specT h pid
  cases hpv : popValue s pid with
  | mk o s1 =>
    rw [hpv] at sp
    cases o with
    | none => exact sp.1
    | some v =>
      simp only
      refine sp.1.trans (goodT_push_bump sp.1.inv pid ?_)
      split
      · exact live_ok
      · exact live_nil

theorem good_handleJump {s : State} (h : Inv s) (pid target : Nat) : GoodT s (handleJump s pid target).1 := by
  unfold handleJump
  exact goodT_modFrames h pid _

theorem good_handleJumpIf {s : State} (h : Inv s) (pid target : Nat) : GoodT s (handleJumpIf s pid target).1 := by
  unfold handleJumpIf
  have sp := popValue_specT h pid
  cases hpv : popValue s pid with
  | mk o s1 =>
    rw [hpv] at sp
    cases o with
    | none => exact sp.1
    | some v =>
      simp only
      split
      · exact sp.1.trans (goodT_modFrames sp.1.inv pid _)
      · exact sp.1.trans (goodT_bump sp.1.inv pid)

theorem good_handleReset {s : State} (h : Inv s) (pid index : Nat) : GoodT s (handleReset s pid index).1 := by
  unfold handleReset
  split
  · exact GoodT.refl h
  · simp only
    split
    · exact GoodT.refl h
    · have g := goodT_truncateLocals h pid ((by assumption : Frame).localsBase + index)
      exact g.trans (goodT_bump g.inv pid)

theorem good_handleBuiltin {s : State} (h : Inv s) (pid index : Nat) (e : Bool) :
    GoodT s (handleBuiltin s pid index e).1 := by
  unfold handleBuiltin
  split
  · exact GoodT.refl h
  · exact goodT_push_bump h pid (live_of_heapfree (by intro i; simp [Val.count]))

theorem good_handleEqual {s : State} (h : Inv s) (pid count : Nat) (eqv : State → Val → Val → Bool) :
    GoodT s (handleEqual s pid count eqv).1 := by
  unfold handleEqual
  split
  · exact GoodT.refl h
  · have ⟨g, l⟩ := popN_spec pid count s h
    cases hpn : popN s pid count with
    | mk o s1 =>
      rw [hpn] at g l
      cases o with
      | none => exact g
      | some vs =>
        simp only
        split
        · exact g
        · rename_i first rest hrev
          refine g.trans (goodT_push_bump g.inv pid ?_)
          split
          · exact live_ok
          · exact live_nil

end QM.Heap
