import QuiverModel.Lemmas.Heap.Hot
/-
Calls, the cold instructions (spawn, send, self, process ref), notifications, process creation,
REPL resume / compaction, frame pop and completion.
-/
namespace QM.Heap
open State

def Val.heapFree (v : Val) : Prop := ∀ i, v.count i = 0

/-- a builtin's result mentions only slots of its argument and the slots it allocated -/
def BuiltinOk (r : BuiltinRun) : Prop :=
  ∀ param idxs v, r.result param idxs = some v → ∀ j, 0 < v.count j → 0 < param.count j ∨ j ∈ idxs

theorem live_builtin_result {s s' : State} {r : BuiltinRun} (hr : BuiltinOk r) {param v : Val} {idxs : List Nat}
    {ds : List Data}
    (hres : r.result param idxs = some v) (hp : Live s' param) (hn : NewSlots s s' ds idxs) : Live s' v := by
  intro j hj
  cases hr param idxs v hres j hj with
  | inl hpj => exact hp j hpj
  | inr hmem =>
    obtain ⟨k, hk, hkj⟩ := List.getElem_of_mem hmem
    have hk2 : k < ds.length := by rw [← hn.1]; exact hk
    have ⟨a, b, _, _⟩ := hn.2 k j ds[k] (by simp [hk, hkj]) (by simp [hk2])
    exact ⟨a, b⟩

theorem goodT_noteAccess {s : State} (h : Inv s) {v : Val} (hv : Live s v) : GoodT s (noteAccess s v) := by
  have hany : v.idxs.any s.isFreed = false := by
    rw [List.any_eq_false]
    intro j hj
    have := (hv j ((mem_idxs_iff v j).mp hj)).2
    simp [this]
  unfold noteAccess
  exact ⟨⟨inv_withUaf h (by simp [h.noUaf, hany]), Stable.of_eq rfl rfl⟩, rfl⟩

theorem good_handleCall {s : State} (h : Inv s) (pid : Nat) (fnExists : Nat → Bool)
    (run : Nat → Option BuiltinRun) (hrun : ∀ id r, run id = some r → BuiltinOk r) :
    GoodT s (handleCall s pid fnExists run).1 := by
  unfold handleCall
  split
  · exact GoodT.refl h
  · rename_i fi caps rest hst
    split
    · exact GoodT.refl h
    · have hf : Live s (.func fi caps) := live_of_stackOf h (pid := pid) (by rw [hst]; simp)
      have sp1 := popValue_specT h pid
      have sp2 := popValue_specT sp1.1.inv pid
      simp only
      cases hpv : popValue (popValue s pid).2 pid with
      | mk o s2 =>
        rw [hpv] at sp2
        cases o with
        | none => exact sp1.1.trans sp2.1
        | some parameter =>
          simp only
          have g3 := goodT_pushValue sp2.1.inv pid (sp2.2 parameter rfl)
          have hl : LiveL (pushValue s2 pid parameter) caps :=
            (live_func.mp hf).stable ((sp1.1.trans (sp2.1.trans g3)).stable)
          have g4 := pushLocals_spec pid caps _ g3.inv hl
          exact sp1.1.trans (sp2.1.trans (g3.trans (g4.trans (goodT_modFrames g4.inv pid _))))
  · rename_i bid rest hst
    have sp1 := popValue_specT h pid
    have sp2 := popValue_specT sp1.1.inv pid
    simp only
    cases hpv : popValue (popValue s pid).2 pid with
    | mk o s2 =>
      rw [hpv] at sp2
      cases o with
      | none => exact sp1.1.trans sp2.1
      | some parameter =>
        simp only
        split
        · exact sp1.1.trans sp2.1
        · rename_i r hr
          have gn := goodT_noteAccess sp2.1.inv (sp2.2 parameter rfl)
          have g12 := (sp1.1.trans sp2.1).trans gn
          have hlp : Live (noteAccess s2 parameter) parameter := (sp2.2 parameter rfl).stable gn.stable
          split
          · exact g12
          rename_i ds hds
          have ⟨ga, ra, na⟩ := allocMany_spec ds (noteAccess s2 parameter) gn.inv
          cases ham : allocMany (noteAccess s2 parameter) ds with
          | mk oi s3 =>
            rw [ham] at ga ra na
            have g3 : GoodT (noteAccess s2 parameter) s3 := ⟨ga, ra.transit⟩
            cases oi with
            | none => exact g12.trans g3
            | some idxs =>
              simp only
              split
              · exact g12.trans g3
              · rename_i value hres
                split
                · exact g12.trans g3
                · have hl : Live s3 value :=
                    live_builtin_result (hrun bid r hr) hres (hlp.stable ga.stable) (na idxs rfl)
                  exact g12.trans (g3.trans (goodT_push_bump ga.inv pid hl))
  · exact GoodT.refl h

theorem good_handleTailCall {s : State} (h : Inv s) (pid : Nat) (recurse : Bool) (fnExists : Nat → Bool) :
    GoodT s (handleTailCall s pid recurse fnExists).1 := by
  unfold handleTailCall
  split
  · have sp := popValue_specT h pid
    cases hpv : popValue s pid with
    | mk o s1 =>
      rw [hpv] at sp
      cases o with
      | none => exact sp.1
      | some argument =>
        simp only
        split
        · exact sp.1
        · rename_i frame rest hfr
          have g2 := goodT_truncateLocals sp.1.inv pid (frame.localsBase + frame.capturesCount)
          have g3 := goodT_pushValue g2.inv pid ((sp.2 argument rfl).stable g2.stable)
          exact sp.1.trans (g2.trans (g3.trans (goodT_modFrames g3.inv pid _)))
  · have sp1 := popValue_specT h pid
    cases hpv : popValue s pid with
    | mk o s1 =>
      rw [hpv] at sp1
      cases o with
      | none => exact sp1.1
      | some fv =>
        simp only
        have sp2 := popValue_specT sp1.1.inv pid
        cases hpv2 : popValue s1 pid with
        | mk o2 s2 =>
          rw [hpv2] at sp2
          have g12 := sp1.1.trans sp2.1
          cases o2 with
          | none => exact g12
          | some argument =>
            simp only
            split
            · rename_i fi caps
              split
              · exact g12
              · split
                · exact g12
                · rename_i frame rest hfr
                  have hf : Live s2 (.func fi caps) := (sp1.2 _ rfl).stable sp2.1.stable
                  have g3 := goodT_truncateLocals sp2.1.inv pid frame.localsBase
                  have g4 := pushLocals_spec pid caps _ g3.inv ((live_func.mp hf).stable g3.stable)
                  have g5 := goodT_pushValue g4.inv pid ((sp2.2 argument rfl).stable (g3.trans g4).stable)
                  exact g12.trans (g3.trans (g4.trans (g5.trans (goodT_modFrames g5.inv pid _))))
            · exact g12

/-! ### raw pops -/

theorem rawPop_fst (s : State) (pid : Nat) : (rawPop s pid).1 = (stackOf s pid).head? := by
  unfold rawPop stackOf
  split
  · split <;> simp_all
  · rfl

theorem stackOf_rawPop (s : State) (pid : Nat) : stackOf (rawPop s pid).2 pid = (stackOf s pid).tail := by
  unfold rawPop
  cases hp : s.getProc pid with
  | none => simp [stackOf, hp]
  | some p =>
    cases hst : p.stack with
    | nil => simp [stackOf, hp, hst]
    | cons v rest =>
      have hp' : aget s.procs pid = some p := hp
      simp [stackOf, hp', hst, getProc, setProc, aget_aset_same]

theorem rawPop_specT {s : State} (h : Inv s) (pid : Nat) :
    Good s (rawPop s pid).2 ∧
      (∀ v, (rawPop s pid).1 = some v → (rawPop s pid).2.transit = v :: s.transit ∧ Live (rawPop s pid).2 v)
      ∧ ((rawPop s pid).1 = none → (rawPop s pid).2 = s) := by
  have ⟨a, b, c⟩ := rawPop_spec h pid
  refine ⟨a, ?_, c⟩
  intro v hv
  refine ⟨b v hv, ?_⟩
  exact a.inv.live_transit (by rw [b v hv]; simp)

theorem goodT_releaseTransit_head {s : State} (h : Inv s) : Good s (releaseTransit s 0)
    ∧ (releaseTransit s 0).transit = s.transit.tail := by
  refine ⟨good_releaseTransit h 0, ?_⟩
  rw [transit_releaseTransit]; cases s.transit <;> simp

theorem getProc_releaseTransit (s : State) (k pid : Nat) : (releaseTransit s k).getProc pid = s.getProc pid := by
  unfold releaseTransit; split
  · rw [getProc_of_sameRoots (sameRoots_release _ _)]; rfl
  · rfl

theorem rawPop_some_getProc {s : State} {pid : Nat} {v : Val} (h : (rawPop s pid).1 = some v) :
    ∃ p, (rawPop s pid).2.getProc pid = some p := by
  cases hp : s.getProc pid with
  | none => simp [rawPop, hp] at h
  | some p =>
    cases hst : p.stack with
    | nil => simp [rawPop, hp, hst] at h
    | cons x xs =>
      simp only [rawPop, hp, hst]
      exact ⟨{ p with stack := xs }, by simp [getProc, setProc, aget_aset_same]⟩

theorem good_handleSpawn {s : State} (h : Inv s) (pid : Nat) (hdepth : (stackOf s pid).length ≠ 1) :
    GoodT s (handleSpawn s pid).1 := by
  unfold handleSpawn
  split
  · exact GoodT.refl h
  · have r1 := rawPop_specT h pid
    have e1 := rawPop_fst s pid
    have st1 := stackOf_rawPop s pid
    cases hp1 : rawPop s pid with
    | mk o1 s1 =>
      rw [hp1] at r1 e1 st1
      cases o1 with
      | none =>
        have := r1.2.2 rfl
        simp only at this ⊢; subst this; exact GoodT.refl h
      | some fv =>
        simp only
        have ⟨t1, _⟩ := r1.2.1 fv rfl
        have r2 := rawPop_specT r1.1.inv pid
        have e2 := rawPop_fst s1 pid
        cases hp2 : rawPop s1 pid with
        | mk o2 s2 =>
          rw [hp2] at r2 e2
          cases o2 with
          | none =>
            exfalso
            simp only at e1 e2 st1
            rw [st1] at e2
            cases hs : stackOf s pid with
            | nil => rw [hs] at e1; cases e1
            | cons a rest =>
              cases rest with
              | nil => rw [hs] at hdepth; simp at hdepth
              | cons b rest' => rw [hs] at e2; cases e2
          | some argument =>
            simp only
            have ⟨t2, _⟩ := r2.2.1 argument rfl
            simp only at t1 t2
            have g3 := good_releaseTransit r2.1.inv 1
            have t3 := transit_releaseTransit s2 1
            have g4 := good_releaseTransit g3.inv 0
            have t4 := transit_releaseTransit (releaseTransit s2 1) 0
            have hfin : GoodT s (releaseTransit (releaseTransit s2 1) 0) := by
              refine ⟨r1.1.trans (r2.1.trans (g3.trans g4)), ?_⟩
              rw [t4, t3, t2, t1]; simp
            split <;> exact hfin

theorem good_handleSend {s : State} (h : Inv s) (pid : Nat) (hdepth : (stackOf s pid).length ≠ 1)
    (htarget : ∀ t, (stackOf s pid).head? = some t → (∃ a b, t = .proc a b) ∨ t.heapFree) :
    GoodT s (handleSend s pid).1 := by
  unfold handleSend
  split
  · exact GoodT.refl h
  · have r1 := rawPop_specT h pid
    have e1 := rawPop_fst s pid
    have st1 := stackOf_rawPop s pid
    cases hp1 : rawPop s pid with
    | mk o1 s1 =>
      rw [hp1] at r1 e1 st1
      cases o1 with
      | none =>
        have := r1.2.2 rfl
        simp only at this ⊢; subst this; exact GoodT.refl h
      | some tv =>
        simp only
        have ⟨t1, _⟩ := r1.2.1 tv rfl
        have r2 := rawPop_specT r1.1.inv pid
        have e2 := rawPop_fst s1 pid
        cases hp2 : rawPop s1 pid with
        | mk o2 s2 =>
          rw [hp2] at r2 e2
          cases o2 with
          | none =>
            exfalso
            simp only at e1 e2 st1
            rw [st1] at e2
            cases hs : stackOf s pid with
            | nil => rw [hs] at e1; cases e1
            | cons a rest =>
              cases rest with
              | nil => rw [hs] at hdepth; simp at hdepth
              | cons b rest' => rw [hs] at e2; cases e2
          | some message =>
            simp only
            have ⟨t2, _⟩ := r2.2.1 message rfl
            simp only at t1 t2
            have ⟨g3, t3⟩ := goodT_releaseTransit_head r2.1.inv
            have t3' : (releaseTransit s2 0).transit = tv :: s.transit := by rw [t3, t2, t1]; rfl
            have g123 := r1.1.trans (r2.1.trans g3)
            have htv := htarget tv (by simpa using e1.symm)
            cases tv with
            | proc a b =>
              simp only
              have g4 := good_rawPushTransit g3.inv pid 0
              have t4 : (rawPushTransit (releaseTransit s2 0) pid 0).transit = s.transit := by
                obtain ⟨p, hp⟩ := rawPop_some_getProc (s := s1) (pid := pid) (v := message) (by rw [hp2])
                rw [hp2] at hp
                have hp' : (releaseTransit s2 0).getProc pid = some p := by
                  rw [getProc_releaseTransit]; exact hp
                unfold rawPushTransit
                simp [t3', hp', setProc]
              exact ⟨g123.trans (g4.trans (good_bump g4.inv pid)), by rw [transit_bump, t4]⟩
            | _ =>
              simp only
              refine ⟨g123.trans (good_dropTransit g3.inv 0 ?_), by simp [dropTransit, t3']⟩
              intro v hv i
              rw [t3'] at hv; simp at hv; subst hv
              cases htv with
              | inl hp => cases hp with | intro a hp => cases hp with | intro b e => cases e
              | inr hf => exact hf i

end QM.Heap
