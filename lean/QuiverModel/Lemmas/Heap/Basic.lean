import QuiverModel.Core.Heap.Basic
namespace QM.Heap
open State

@[simp] theorem countList_nil (i : Nat) : countList i [] = 0 := by simp [countList]
@[simp] theorem countList_cons (i : Nat) (v : Val) (vs : List Val) :
    countList i (v :: vs) = v.count i + countList i vs := by simp [countList]
@[simp] theorem countList_append (i : Nat) (xs ys : List Val) :
    countList i (xs ++ ys) = countList i xs + countList i ys := by
  induction xs with
  | nil => simp
  | cons x xs ih => simp [ih]; omega
@[simp] theorem count_tuple (i id : Nat) (fs : List Val) : (Val.tuple id fs).count i = countList i fs := by
  simp [Val.count]
@[simp] theorem count_func (i id : Nat) (fs : List Val) : (Val.func id fs).count i = countList i fs := by
  simp [Val.count]
@[simp] theorem count_heapBin (i j : Nat) : (Val.bin (.heap j)).count i = if j = i then 1 else 0 := by
  simp [Val.count]

theorem countList_take_drop (i n : Nat) (xs : List Val) :
    countList i (xs.take n) + countList i (xs.drop n) = countList i xs := by
  rw [← countList_append, List.take_append_drop]

-- rc of leaf ops
theorem rc_retainIdx (s : State) (j i : Nat) (hj : j < s.refcounts.size) :
    (retainIdx s j).rc i = s.rc i + (if j = i then 1 else 0) := by
  simp only [retainIdx, rc, Array.getD_eq_getD_getElem?, Array.getElem?_modify]
  by_cases h : j = i
  · subst h; simp [hj]
  · simp [h]

theorem rc_releaseIdx (s : State) (j i : Nat) :
    (releaseIdx s j).rc i = s.rc i - (if j = i then 1 else 0) := by
  simp only [releaseIdx, rc, Array.getD_eq_getD_getElem?, Array.getElem?_setIfInBounds]
  by_cases h : j = i
  · subst h
    by_cases hj : j < s.refcounts.size
    · simp [hj]
    · simp [hj]
  · simp [h]
/-- the parts of the state `retain` / `release` never touch -/
structure SameRoots (s t : State) : Prop where
  heap : t.heap = s.heap
  freed : t.freed = s.freed
  free : t.free = s.free
  consts : t.constantBinaries = s.constantBinaries
  procs : t.procs = s.procs
  transit : t.transit = s.transit
  size : t.refcounts.size = s.refcounts.size

theorem SameRoots.refl (s : State) : SameRoots s s := ⟨rfl, rfl, rfl, rfl, rfl, rfl, rfl⟩
theorem SameRoots.trans {a b c : State} (h1 : SameRoots a b) (h2 : SameRoots b c) : SameRoots a c :=
  ⟨h2.heap.trans h1.heap, h2.freed.trans h1.freed, h2.free.trans h1.free, h2.consts.trans h1.consts,
   h2.procs.trans h1.procs, h2.transit.trans h1.transit, h2.size.trans h1.size⟩

theorem sameRoots_retainIdx (s : State) (j : Nat) : SameRoots s (retainIdx s j) := by
  constructor <;> simp [retainIdx]
theorem sameRoots_releaseIdx (s : State) (j : Nat) : SameRoots s (releaseIdx s j) := by
  constructor <;> simp [releaseIdx]

mutual
theorem sameRoots_retain (s : State) (v : Val) : SameRoots s (retain s v) := by
  cases v with
  | bin b => cases b <;> simp [retain, SameRoots.refl, sameRoots_retainIdx]
  | tuple id fs => simp [retain]; exact sameRoots_retainList s fs
  | func id cs => simp [retain]; exact sameRoots_retainList s cs
  | _ => simp [retain, SameRoots.refl]
theorem sameRoots_retainList (s : State) (vs : List Val) : SameRoots s (retainList s vs) := by
  cases vs with
  | nil => simp [retainList, SameRoots.refl]
  | cons v vs =>
    simp [retainList]
    exact (sameRoots_retain s v).trans (sameRoots_retainList _ vs)
end

mutual
theorem sameRoots_release (s : State) (v : Val) : SameRoots s (release s v) := by
  cases v with
  | bin b => cases b <;> simp [release, SameRoots.refl, sameRoots_releaseIdx]
  | tuple id fs => simp [release]; exact sameRoots_releaseList s fs
  | func id cs => simp [release]; exact sameRoots_releaseList s cs
  | _ => simp [release, SameRoots.refl]
theorem sameRoots_releaseList (s : State) (vs : List Val) : SameRoots s (releaseList s vs) := by
  cases vs with
  | nil => simp [releaseList, SameRoots.refl]
  | cons v vs =>
    simp [releaseList]
    exact (sameRoots_release s v).trans (sameRoots_releaseList _ vs)
end

/-! ### effect of `retain` / `release` on the counts -/

/-- every heap index occurring in `v` is a valid index of `refcounts` -/
def InRange (s : State) (v : Val) : Prop := ∀ j, 0 < v.count j → j < s.refcounts.size
def InRangeL (s : State) (vs : List Val) : Prop := ∀ j, 0 < countList j vs → j < s.refcounts.size

theorem inRange_tuple {s : State} {id : Nat} {fs : List Val} : InRange s (.tuple id fs) ↔ InRangeL s fs := by
  simp [InRange, InRangeL]
theorem inRange_func {s : State} {id : Nat} {fs : List Val} : InRange s (.func id fs) ↔ InRangeL s fs := by
  simp [InRange, InRangeL]

mutual
theorem rc_retain (s : State) (v : Val) (h : InRange s v) (i : Nat) :
    (retain s v).rc i = s.rc i + v.count i := by
  cases v with
  | bin b =>
    cases b with
    | const k => simp [retain, Val.count]
    | heap j =>
      simp only [retain, count_heapBin]
      exact rc_retainIdx s j i (h j (by simp))
  | tuple id fs => simp only [retain, count_tuple]; exact rc_retainList s fs (inRange_tuple.mp h) i
  | func id cs => simp only [retain, count_func]; exact rc_retainList s cs (inRange_func.mp h) i
  | int _ => simp [retain, Val.count]
  | ref _ => simp [retain, Val.count]
  | builtin _ => simp [retain, Val.count]
  | proc _ _ => simp [retain, Val.count]
  | resource _ _ => simp [retain, Val.count]
theorem rc_retainList (s : State) (vs : List Val) (h : InRangeL s vs) (i : Nat) :
    (retainList s vs).rc i = s.rc i + countList i vs := by
  cases vs with
  | nil => simp [retainList]
  | cons v vs =>
    simp only [retainList, countList_cons]
    have hv : InRange s v := fun j hj => h j (by simp; omega)
    have hvs : InRangeL (retain s v) vs := fun j hj => by
      rw [(sameRoots_retain s v).size]; exact h j (by simp; omega)
    rw [rc_retainList (retain s v) vs hvs i, rc_retain s v hv i]; omega
end

mutual
theorem rc_release (s : State) (v : Val) (i : Nat) :
    (release s v).rc i = s.rc i - v.count i := by
  cases v with
  | bin b =>
    cases b with
    | const k => simp [release, Val.count]
    | heap j => simp only [release, count_heapBin]; exact rc_releaseIdx s j i
  | tuple id fs => simp only [release, count_tuple]; exact rc_releaseList s fs i
  | func id cs => simp only [release, count_func]; exact rc_releaseList s cs i
  | int _ => simp [release, Val.count]
  | ref _ => simp [release, Val.count]
  | builtin _ => simp [release, Val.count]
  | proc _ _ => simp [release, Val.count]
  | resource _ _ => simp [release, Val.count]
theorem rc_releaseList (s : State) (vs : List Val) (i : Nat) :
    (releaseList s vs).rc i = s.rc i - countList i vs := by
  cases vs with
  | nil => simp [releaseList]
  | cons v vs =>
    simp only [releaseList, countList_cons]
    rw [rc_releaseList (release s v) vs i, rc_release s v i]; omega
end

/-! ### `pending_free` only grows under `release`, and catches every count that reaches 0 -/

theorem pendingFree_releaseIdx_mono (s : State) (j i : Nat) (h : i ∈ s.pendingFree) :
    i ∈ (releaseIdx s j).pendingFree := by
  simp only [releaseIdx]; split <;> simp [h]

mutual
theorem pendingFree_release_mono (s : State) (v : Val) (i : Nat) (h : i ∈ s.pendingFree) :
    i ∈ (release s v).pendingFree := by
  cases v with
  | bin b =>
    cases b with
    | const k => simpa [release] using h
    | heap j => simp only [release]; exact pendingFree_releaseIdx_mono s j i h
  | tuple id fs => simp only [release]; exact pendingFree_releaseList_mono s fs i h
  | func id cs => simp only [release]; exact pendingFree_releaseList_mono s cs i h
  | int _ => simpa [release] using h
  | ref _ => simpa [release] using h
  | builtin _ => simpa [release] using h
  | proc _ _ => simpa [release] using h
  | resource _ _ => simpa [release] using h
theorem pendingFree_releaseList_mono (s : State) (vs : List Val) (i : Nat) (h : i ∈ s.pendingFree) :
    i ∈ (releaseList s vs).pendingFree := by
  cases vs with
  | nil => simpa [releaseList] using h
  | cons v vs =>
    simp only [releaseList]
    exact pendingFree_releaseList_mono _ vs i (pendingFree_release_mono s v i h)
end

theorem mem_pendingFree_releaseIdx (s : State) (j i : Nat) (h : i ∈ (releaseIdx s j).pendingFree) :
    i ∈ s.pendingFree ∨ i = j := by
  simp only [releaseIdx] at h
  split at h
  · simp at h; cases h with
    | inl e => exact Or.inr e
    | inr e => exact Or.inl e
  · exact Or.inl h

mutual
theorem mem_pendingFree_release (s : State) (v : Val) (i : Nat) (h : i ∈ (release s v).pendingFree) :
    i ∈ s.pendingFree ∨ 0 < v.count i := by
  cases v with
  | bin b =>
    cases b with
    | const k => left; simpa [release] using h
    | heap j =>
      simp only [release] at h
      cases mem_pendingFree_releaseIdx s j i h with
      | inl e => exact Or.inl e
      | inr e => right; simp [e]
  | tuple id fs => simp only [release] at h; simpa using mem_pendingFree_releaseList s fs i h
  | func id cs => simp only [release] at h; simpa using mem_pendingFree_releaseList s cs i h
  | int _ => left; simpa [release] using h
  | ref _ => left; simpa [release] using h
  | builtin _ => left; simpa [release] using h
  | proc _ _ => left; simpa [release] using h
  | resource _ _ => left; simpa [release] using h
theorem mem_pendingFree_releaseList (s : State) (vs : List Val) (i : Nat)
    (h : i ∈ (releaseList s vs).pendingFree) : i ∈ s.pendingFree ∨ 0 < countList i vs := by
  cases vs with
  | nil => left; simpa [releaseList] using h
  | cons v vs =>
    simp only [releaseList] at h
    cases mem_pendingFree_releaseList _ vs i h with
    | inl e =>
      cases mem_pendingFree_release s v i e with
      | inl e2 => exact Or.inl e2
      | inr e2 => right; simp; omega
    | inr e => right; simp; omega
end

theorem releaseIdx_queues (s : State) (j i : Nat) (hpos : 0 < s.rc i) (hz : (releaseIdx s j).rc i = 0) :
    i ∈ (releaseIdx s j).pendingFree := by
  rw [rc_releaseIdx] at hz
  by_cases h : j = i
  · subst h
    simp only [releaseIdx]
    have : s.rc j - 1 = 0 := by simpa using hz
    simp [this]
  · simp [h] at hz; omega

mutual
theorem release_queues (s : State) (v : Val) (i : Nat) (hpos : 0 < s.rc i)
    (hz : (release s v).rc i = 0) : i ∈ (release s v).pendingFree := by
  cases v with
  | bin b =>
    cases b with
    | const k => simp [release] at hz; omega
    | heap j => simp only [release] at hz ⊢; exact releaseIdx_queues s j i hpos hz
  | tuple id fs => simp only [release] at hz ⊢; exact releaseList_queues s fs i hpos hz
  | func id cs => simp only [release] at hz ⊢; exact releaseList_queues s cs i hpos hz
  | int _ => simp [release] at hz; omega
  | ref _ => simp [release] at hz; omega
  | builtin _ => simp [release] at hz; omega
  | proc _ _ => simp [release] at hz; omega
  | resource _ _ => simp [release] at hz; omega
theorem releaseList_queues (s : State) (vs : List Val) (i : Nat) (hpos : 0 < s.rc i)
    (hz : (releaseList s vs).rc i = 0) : i ∈ (releaseList s vs).pendingFree := by
  cases vs with
  | nil => simp [releaseList] at hz; omega
  | cons v vs =>
    simp only [releaseList] at hz ⊢
    by_cases h1 : (release s v).rc i = 0
    · exact pendingFree_releaseList_mono _ vs i (release_queues s v i hpos h1)
    · exact releaseList_queues (release s v) vs i (by omega) hz
end

/-! ### `fresh` under `retain` / `release` -/

theorem fresh_retainIdx (s : State) (j i : Nat) (hne : j ≠ i) (h : i ∈ s.fresh) :
    i ∈ (retainIdx s j).fresh := by
  simp only [retainIdx, List.mem_filter]
  exact ⟨h, by simpa using fun e => hne e.symm⟩

theorem fresh_retainIdx_sub (s : State) (j i : Nat) (h : i ∈ (retainIdx s j).fresh) : i ∈ s.fresh := by
  simp only [retainIdx, List.mem_filter] at h; exact h.1

mutual
theorem fresh_retain (s : State) (v : Val) (i : Nat) (hc : v.count i = 0) (h : i ∈ s.fresh) :
    i ∈ (retain s v).fresh := by
  cases v with
  | bin b =>
    cases b with
    | const k => simpa [retain] using h
    | heap j =>
      simp only [retain]
      have : j ≠ i := by intro e; simp [e] at hc
      exact fresh_retainIdx s j i this h
  | tuple id fs => simp only [retain]; exact fresh_retainList s fs i (by simpa using hc) h
  | func id cs => simp only [retain]; exact fresh_retainList s cs i (by simpa using hc) h
  | int _ => simpa [retain] using h
  | ref _ => simpa [retain] using h
  | builtin _ => simpa [retain] using h
  | proc _ _ => simpa [retain] using h
  | resource _ _ => simpa [retain] using h
theorem fresh_retainList (s : State) (vs : List Val) (i : Nat) (hc : countList i vs = 0)
    (h : i ∈ s.fresh) : i ∈ (retainList s vs).fresh := by
  cases vs with
  | nil => simpa [retainList] using h
  | cons v vs =>
    simp only [retainList]
    simp only [countList_cons] at hc
    exact fresh_retainList _ vs i (by omega) (fresh_retain s v i (by omega) h)
end

mutual
theorem fresh_retain_sub (s : State) (v : Val) (i : Nat) (h : i ∈ (retain s v).fresh) : i ∈ s.fresh := by
  cases v with
  | bin b =>
    cases b with
    | const k => simpa [retain] using h
    | heap j => simp only [retain] at h; exact fresh_retainIdx_sub s j i h
  | tuple id fs => simp only [retain] at h; exact fresh_retainList_sub s fs i h
  | func id cs => simp only [retain] at h; exact fresh_retainList_sub s cs i h
  | int _ => simpa [retain] using h
  | ref _ => simpa [retain] using h
  | builtin _ => simpa [retain] using h
  | proc _ _ => simpa [retain] using h
  | resource _ _ => simpa [retain] using h
theorem fresh_retainList_sub (s : State) (vs : List Val) (i : Nat) (h : i ∈ (retainList s vs).fresh) :
    i ∈ s.fresh := by
  cases vs with
  | nil => simpa [retainList] using h
  | cons v vs =>
    simp only [retainList] at h
    exact fresh_retain_sub s v i (fresh_retainList_sub _ vs i h)
end

theorem pendingFree_retainIdx (s : State) (j : Nat) : (retainIdx s j).pendingFree = s.pendingFree := by
  simp [retainIdx]
mutual
theorem pendingFree_retain (s : State) (v : Val) : (retain s v).pendingFree = s.pendingFree := by
  cases v with
  | bin b => cases b <;> simp [retain, pendingFree_retainIdx]
  | tuple id fs => simp only [retain]; exact pendingFree_retainList s fs
  | func id cs => simp only [retain]; exact pendingFree_retainList s cs
  | _ => simp [retain]
theorem pendingFree_retainList (s : State) (vs : List Val) : (retainList s vs).pendingFree = s.pendingFree := by
  cases vs with
  | nil => simp [retainList]
  | cons v vs => simp only [retainList]; rw [pendingFree_retainList, pendingFree_retain]
end

theorem fresh_releaseIdx (s : State) (j : Nat) : (releaseIdx s j).fresh = s.fresh := by simp [releaseIdx]
mutual
theorem fresh_release (s : State) (v : Val) : (release s v).fresh = s.fresh := by
  cases v with
  | bin b => cases b <;> simp [release, fresh_releaseIdx]
  | tuple id fs => simp only [release]; exact fresh_releaseList s fs
  | func id cs => simp only [release]; exact fresh_releaseList s cs
  | _ => simp [release]
theorem fresh_releaseList (s : State) (vs : List Val) : (releaseList s vs).fresh = s.fresh := by
  cases vs with
  | nil => simp [releaseList]
  | cons v vs => simp only [releaseList]; rw [fresh_releaseList, fresh_release]
end

/-! ### the assertion flag `uaf` -/

theorem isFreed_of_sameRoots {s t : State} (h : SameRoots s t) (i : Nat) : t.isFreed i = s.isFreed i := by
  simp [State.isFreed, h.freed]

mutual
/-- `retain` of a value none of whose slots is freed fires no assertion -/
theorem uaf_retain (s : State) (v : Val) (hv : ∀ j, 0 < v.count j → s.isFreed j = false) :
    (retain s v).uaf = s.uaf := by
  cases v with
  | bin b =>
    cases b with
    | const k => simp [retain]
    | heap j => simp [retain, retainIdx, hv j (by simp)]
  | tuple id fs => simp only [retain]; exact uaf_retainList s fs (fun j hj => hv j (by simpa using hj))
  | func id cs => simp only [retain]; exact uaf_retainList s cs (fun j hj => hv j (by simpa using hj))
  | int _ => simp [retain]
  | ref _ => simp [retain]
  | builtin _ => simp [retain]
  | proc _ _ => simp [retain]
  | resource _ _ => simp [retain]
theorem uaf_retainList (s : State) (vs : List Val) (hv : ∀ j, 0 < countList j vs → s.isFreed j = false) :
    (retainList s vs).uaf = s.uaf := by
  cases vs with
  | nil => simp [retainList]
  | cons v vs =>
    simp only [retainList]
    rw [uaf_retainList (retain s v) vs (fun j hj => by
      rw [isFreed_of_sameRoots (sameRoots_retain s v)]; exact hv j (by simp; omega))]
    exact uaf_retain s v (fun j hj => hv j (by simp; omega))
end

mutual
/-- `release` of a value whose slots are counted at least as often as it mentions them, none freed,
fires no assertion (no use-after-free, no underflow) -/
theorem uaf_release (s : State) (v : Val) (hc : ∀ j, v.count j ≤ s.rc j)
    (hf : ∀ j, s.isFreed j = true → s.rc j = 0) : (release s v).uaf = s.uaf := by
  cases v with
  | bin b =>
    cases b with
    | const k => simp [release]
    | heap j =>
      have h1 : 1 ≤ s.rc j := by simpa using hc j
      have h2 : s.isFreed j = false := by
        cases hq : s.isFreed j with
        | false => rfl
        | true => have := hf j hq; omega
      have h3 : (s.rc j == 0) = false := by simp; omega
      simp [release, releaseIdx, h2, h3]
  | tuple id fs => simp only [release]; exact uaf_releaseList s fs (fun j => by simpa using hc j) hf
  | func id cs => simp only [release]; exact uaf_releaseList s cs (fun j => by simpa using hc j) hf
  | int _ => simp [release]
  | ref _ => simp [release]
  | builtin _ => simp [release]
  | proc _ _ => simp [release]
  | resource _ _ => simp [release]
theorem uaf_releaseList (s : State) (vs : List Val) (hc : ∀ j, countList j vs ≤ s.rc j)
    (hf : ∀ j, s.isFreed j = true → s.rc j = 0) : (releaseList s vs).uaf = s.uaf := by
  cases vs with
  | nil => simp [releaseList]
  | cons v vs =>
    simp only [releaseList]
    have hcv : ∀ j, v.count j ≤ s.rc j := fun j => by have := hc j; simp at this; omega
    rw [uaf_releaseList (release s v) vs
      (fun j => by rw [rc_release]; have := hc j; simp at this; omega)
      (fun j hj => by
        rw [isFreed_of_sameRoots (sameRoots_release s v)] at hj
        rw [rc_release, hf j hj]; omega)]
    exact uaf_release s v hcv hf
end

/-! ### `collect_heap_indices` versus `count` -/

mutual
theorem mem_idxs_iff (v : Val) (i : Nat) : i ∈ v.idxs ↔ 0 < v.count i := by
  cases v with
  | bin b =>
    cases b with
    | const k => simp [Val.idxs, Val.count]
    | heap j =>
      simp only [Val.idxs, count_heapBin, List.mem_singleton]
      constructor
      · intro e; simp [e]
      · intro h; by_cases e : j = i
        · exact e.symm
        · simp [e] at h
  | tuple id fs => simp only [Val.idxs, count_tuple]; exact mem_idxsList_iff fs i
  | func id cs => simp only [Val.idxs, count_func]; exact mem_idxsList_iff cs i
  | int _ => simp [Val.idxs, Val.count]
  | ref _ => simp [Val.idxs, Val.count]
  | builtin _ => simp [Val.idxs, Val.count]
  | proc _ _ => simp [Val.idxs, Val.count]
  | resource _ _ => simp [Val.idxs, Val.count]
theorem mem_idxsList_iff (vs : List Val) (i : Nat) : i ∈ idxsList vs ↔ 0 < countList i vs := by
  cases vs with
  | nil => simp [idxsList]
  | cons v vs =>
    simp only [idxsList, List.mem_append, countList_cons]
    rw [mem_idxs_iff v i, mem_idxsList_iff vs i]; omega
end


end QM.Heap
