import QuiverModel.Lemmas.Heap.Prim
/-
Allocation of several slots, and cross-process transfer by copy (`extract_heap_data` /
`inject_heap_data`).
-/
namespace QM.Heap
open State

/-- every slot handed out by `allocMany` exists, is not freed, holds the requested bytes, and was
not a live slot before -/
def NewSlots (s t : State) (ds : List Data) (idxs : List Nat) : Prop :=
  idxs.length = ds.length ∧
  ∀ (k j : Nat) (d : Data), idxs[k]? = some j → ds[k]? = some d →
    j < t.heap.size ∧ t.isFreed j = false ∧ t.bytesAt j = d.toVec ∧ (s.isFreed j = true ∨ s.heap.size ≤ j)

theorem stable_not_live {s t : State} (hst : Stable s t) {j : Nat} (h : t.isFreed j = true) :
    s.isFreed j = true ∨ s.heap.size ≤ j := by
  by_cases hj : j < s.heap.size
  · cases hf : s.isFreed j with
    | true => exact Or.inl rfl
    | false => have := (hst.keep j hj hf).1; rw [h] at this; cases this
  · exact Or.inr (Nat.le_of_not_lt hj)

theorem allocMany_spec (ds : List Data) : ∀ (s : State), Inv s →
    Good s (allocMany s ds).2 ∧ RootsEq s (allocMany s ds).2
      ∧ ∀ idxs, (allocMany s ds).1 = some idxs → NewSlots s (allocMany s ds).2 ds idxs := by
  induction ds with
  | nil =>
    intro s h
    simp only [allocMany]
    refine ⟨Good.refl h, RootsEq.refl s, ?_⟩
    intro idxs hi; simp only [Option.some.injEq] at hi; subst hi
    exact ⟨rfl, fun k j d hk => by simp at hk⟩
  | cons d rest ih =>
    intro s h
    have hinv1 := inv_allocate h d
    have hst1 := stable_allocate h d
    have hre1 := rootsEq_allocate s d
    simp only [allocMany]
    cases ha : allocate s d with
    | mk o s1 =>
      rw [ha] at hinv1 hst1 hre1
      cases o with
      | none =>
        simp only
        refine ⟨⟨hinv1, hst1⟩, hre1, ?_⟩
        intro idxs hi; cases hi
      | some idx =>
        simp only
        obtain ⟨g2, r2, n2⟩ := ih s1 hinv1
        cases hm : allocMany s1 rest with
        | mk o2 s2 =>
          rw [hm] at g2 r2 n2
          cases o2 with
          | none =>
            simp only
            refine ⟨⟨g2.inv, hst1.trans g2.stable⟩, hre1.trans r2, ?_⟩
            intro idxs hi; cases hi
          | some idxs2 =>
            simp only
            refine ⟨⟨g2.inv, hst1.trans g2.stable⟩, hre1.trans r2, ?_⟩
            intro idxs hi
            simp only [Option.some.injEq] at hi; subst hi
            have ⟨hlen, hall⟩ := n2 idxs2 rfl
            refine ⟨by simp [hlen], ?_⟩
            intro k j d' hk hd
            cases k with
            | zero =>
              simp at hk hd; subst hk; subst hd
              have ⟨a, b, c, e⟩ := allocate_some h ha
              have ⟨b', c'⟩ := g2.stable.keep idx a b
              refine ⟨Nat.lt_of_lt_of_le a g2.stable.size, b', by rw [c', c], ?_⟩
              cases e with
              | inl e => exact Or.inl e
              | inr e => exact Or.inr (Nat.le_of_eq e.symm)
            | succ k =>
              simp at hk hd
              have ⟨a, b, c, e⟩ := hall k j d' hk hd
              refine ⟨a, b, c, ?_⟩
              cases e with
              | inl e => exact stable_not_live hst1 e
              | inr e => exact Or.inr (Nat.le_trans hst1.size e)

/-! ### remap -/

mutual
theorem remap_count {f : Nat → Option Nat} {v v' : Val} (h : remap f v = some v') (k : Nat)
    (hk : 0 < v'.count k) : ∃ j, 0 < v.count j ∧ f j = some k := by
  cases v with
  | bin b =>
    cases b with
    | const c => simp [remap] at h; subst h; simp [Val.count] at hk
    | heap j =>
      simp only [remap, Option.map_eq_some_iff] at h
      obtain ⟨k', hf, hv⟩ := h
      subst hv
      simp only [count_heapBin] at hk
      have : k' = k := by
        by_cases e : k' = k
        · exact e
        · simp [e] at hk
      subst this
      exact ⟨j, by simp, hf⟩
  | tuple id fs =>
    simp only [remap, Option.map_eq_some_iff] at h
    obtain ⟨fs', hfs, hv⟩ := h
    subst hv
    simp only [count_tuple] at hk
    obtain ⟨j, hj, hf⟩ := remapList_count hfs k hk
    exact ⟨j, by simpa using hj, hf⟩
  | func id cs =>
    simp only [remap, Option.map_eq_some_iff] at h
    obtain ⟨cs', hcs, hv⟩ := h
    subst hv
    simp only [count_func] at hk
    obtain ⟨j, hj, hf⟩ := remapList_count hcs k hk
    exact ⟨j, by simpa using hj, hf⟩
  | int _ => simp [remap] at h; subst h; simp [Val.count] at hk
  | ref _ => simp [remap] at h; subst h; simp [Val.count] at hk
  | builtin _ => simp [remap] at h; subst h; simp [Val.count] at hk
  | proc _ _ => simp [remap] at h; subst h; simp [Val.count] at hk
  | resource _ _ => simp [remap] at h; subst h; simp [Val.count] at hk
theorem remapList_count {f : Nat → Option Nat} {vs vs' : List Val} (h : remapList f vs = some vs') (k : Nat)
    (hk : 0 < countList k vs') : ∃ j, 0 < countList j vs ∧ f j = some k := by
  cases vs with
  | nil => simp [remapList] at h; subst h; simp at hk
  | cons v vs =>
    simp only [remapList] at h
    cases hv : remap f v with
    | none => simp [hv] at h
    | some v' =>
      cases hvs : remapList f vs with
      | none => simp [hv, hvs] at h
      | some vs'' =>
        simp [hv, hvs] at h; subst h
        simp only [countList_cons] at hk
        by_cases h1 : 0 < v'.count k
        · obtain ⟨j, hj, hf⟩ := remap_count hv k h1
          exact ⟨j, by simp; omega, hf⟩
        · obtain ⟨j, hj, hf⟩ := remapList_count hvs k (by omega)
          exact ⟨j, by simp; omega, hf⟩
end

mutual
/-- re-indexing preserves the structural reading when the map preserves contents -/
theorem remap_erase {f : Nat → Option Nat} {look look' : Nat → Bytes} {v v' : Val} (h : remap f v = some v')
    (hl : ∀ j k, 0 < v.count j → f j = some k → look' k = look j) : erase look' v' = erase look v := by
  cases v with
  | bin b =>
    cases b with
    | const c => simp [remap] at h; subst h; simp [erase]
    | heap j =>
      simp only [remap, Option.map_eq_some_iff] at h
      obtain ⟨k', hf, hv⟩ := h
      subst hv
      simp [erase, hl j k' (by simp) hf]
  | tuple id fs =>
    simp only [remap, Option.map_eq_some_iff] at h
    obtain ⟨fs', hfs, hv⟩ := h
    subst hv
    simp only [erase]
    rw [remapList_erase hfs (fun j k hj => hl j k (by simpa using hj))]
  | func id cs =>
    simp only [remap, Option.map_eq_some_iff] at h
    obtain ⟨cs', hcs, hv⟩ := h
    subst hv
    simp only [erase]
    rw [remapList_erase hcs (fun j k hj => hl j k (by simpa using hj))]
  | int _ => simp [remap] at h; subst h; rfl
  | ref _ => simp [remap] at h; subst h; rfl
  | builtin _ => simp [remap] at h; subst h; rfl
  | proc _ _ => simp [remap] at h; subst h; rfl
  | resource _ _ => simp [remap] at h; subst h; rfl
theorem remapList_erase {f : Nat → Option Nat} {look look' : Nat → Bytes} {vs vs' : List Val}
    (h : remapList f vs = some vs')
    (hl : ∀ j k, 0 < countList j vs → f j = some k → look' k = look j) :
    eraseList look' vs' = eraseList look vs := by
  cases vs with
  | nil => simp [remapList] at h; subst h; rfl
  | cons v vs =>
    simp only [remapList] at h
    cases hv : remap f v with
    | none => simp [hv] at h
    | some v' =>
      cases hvs : remapList f vs with
      | none => simp [hv, hvs] at h
      | some vs'' =>
        simp [hv, hvs] at h; subst h
        simp only [eraseList]
        rw [remap_erase hv (fun j k hj => hl j k (by simp; omega)),
            remapList_erase hvs (fun j k hj => hl j k (by simp; omega))]
end

/-! ### inject -/

theorem injectHeapData_spec {s : State} (h : Inv s) (v : Val) (heapData : List Bytes) :
    Good s (injectHeapData s v heapData).2 ∧ RootsEq s (injectHeapData s v heapData).2
      ∧ ∀ v', (injectHeapData s v heapData).1 = some v' →
          Live (injectHeapData s v heapData).2 v'
          ∧ erase (injectHeapData s v heapData).2.bytesAt v' = erase (fun j => heapData.getD j []) v
          ∧ (∀ w, Live s w → ∀ j, 0 < v'.count j → w.count j = 0) := by
  obtain ⟨g, r, n⟩ := allocMany_spec (heapData.map Data.owned) s h
  unfold injectHeapData allocAll
  cases hm : allocMany s (heapData.map Data.owned) with
  | mk o s1 =>
    rw [hm] at g r n
    cases o with
    | none =>
      simp only
      refine ⟨g, r, ?_⟩
      intro v' hv'; cases hv'
    | some idxs =>
      simp only
      refine ⟨g, r, ?_⟩
      intro v' hv'
      have ⟨hlen, hall⟩ := n idxs rfl
      have hslot : ∀ j k, idxs[j]? = some k →
          k < s1.heap.size ∧ s1.isFreed k = false ∧ s1.bytesAt k = heapData.getD j []
            ∧ (s.isFreed k = true ∨ s.heap.size ≤ k) := by
        intro j k hjk
        have hj : j < heapData.length := by
          have : j < idxs.length := by
            by_cases hlt : j < idxs.length
            · exact hlt
            · simp [hlt] at hjk
          simpa [hlen] using this
        have hd : (heapData.map Data.owned)[j]? = some (Data.owned heapData[j]) := by simp [hj]
        have ⟨a, b, c, e⟩ := hall j k _ hjk hd
        refine ⟨a, b, ?_, e⟩
        rw [c]; simp [Data.toVec, hj]
      refine ⟨?_, ?_, ?_⟩
      · intro k hk
        obtain ⟨j, _, hf⟩ := remap_count hv' k hk
        have ⟨a, b, _, _⟩ := hslot j k hf
        exact ⟨a, b⟩
      · exact remap_erase hv' (fun j k _ hf => (hslot j k hf).2.2.1)
      · intro w hw k hk
        obtain ⟨j, _, hf⟩ := remap_count hv' k hk
        have ⟨_, _, _, e⟩ := hslot j k hf
        cases Nat.eq_zero_or_pos (w.count k) with
        | inl z => exact z
        | inr p =>
          have ⟨a, b⟩ := hw k p
          cases e with
          | inl e => rw [e] at b; cases b
          | inr e => omega

/-! ### extract -/

theorem indexOf_getElem? {x : Nat} {l : List Nat} {k : Nat} (h : indexOf x l = some k) : l[k]? = some x := by
  induction l generalizing k with
  | nil => simp [indexOf] at h
  | cons y ys ih =>
    simp only [indexOf] at h
    split at h
    · rename_i e; simp at h; subst h; simp [e]
    · simp only [Option.map_eq_some_iff] at h
      obtain ⟨k', hk', e⟩ := h
      subst e; simp [ih hk']

/-- the extracted copy reads structurally like the original -/
theorem extractHeapData_erase {s : State} {v v' : Val} {hd : List Bytes}
    (h : extractHeapData s v = some (v', hd)) :
    erase (fun j => hd.getD j []) v' = erase s.bytesAt v := by
  unfold extractHeapData at h
  simp only at h
  split at h
  · simp only [Option.map_eq_some_iff, Prod.mk.injEq] at h
    obtain ⟨w, hw, e1, e2⟩ := h
    subst e1; subst e2
    refine remap_erase hw ?_
    intro j k _ hf
    have := indexOf_getElem? hf
    simp [List.getD_eq_getElem?_getD, List.getElem?_map, this]
  · cases h

/-! ### an injection without heap data fails for a value that mentions a slot -/

mutual
theorem remap_none_of_count {v : Val} {j : Nat} (h : 0 < v.count j) : remap (fun _ => none) v = none := by
  cases v with
  | bin b =>
    cases b with
    | const c => simp [Val.count] at h
    | heap k => simp [remap]
  | tuple id fs => simp only [remap, remapList_none_of_count (by simpa using h), Option.map_none]
  | func id cs => simp only [remap, remapList_none_of_count (by simpa using h), Option.map_none]
  | int _ => simp [Val.count] at h
  | ref _ => simp [Val.count] at h
  | builtin _ => simp [Val.count] at h
  | proc _ _ => simp [Val.count] at h
  | resource _ _ => simp [Val.count] at h
theorem remapList_none_of_count {vs : List Val} {j : Nat} (h : 0 < countList j vs) :
    remapList (fun _ => none) vs = none := by
  cases vs with
  | nil => simp at h
  | cons v vs =>
    simp only [countList_cons] at h
    simp only [remapList]
    by_cases h1 : 0 < v.count j
    · rw [remap_none_of_count h1]
    · rw [remapList_none_of_count (vs := vs) (j := j) (by omega)]
      cases remap (fun _ => none) v <;> rfl
end

theorem injectHeapData_nil_fails (s : State) {v : Val} {j : Nat} (h : 0 < v.count j) :
    injectHeapData s v [] = (none, s) := by
  simp [injectHeapData, allocAll, allocMany, remap_none_of_count h]

end QM.Heap
