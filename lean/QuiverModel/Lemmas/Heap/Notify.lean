import QuiverModel.Lemmas.Heap.Cold
/-
self / process-ref, notifications, process creation, REPL resume and compaction, frame pop,
completion.
-/
namespace QM.Heap
open State

/-- replacing a process by one with the same roots (as a multiset of occurrences) -/
theorem goodT_setProc_same {s : State} (h : Inv s) {pid : Nat} {p p' : Proc} (hp : s.getProc pid = some p)
    (hc : ∀ i, p'.count i = p.count i) : GoodT s (s.setProc pid p') := by
  refine ⟨⟨inv_move h (heapEq_setProc _ _ _) ?_, stable_setProc _ _ _⟩, by simp [setProc]⟩
  intro i
  have := total_setProc s pid p p' i hp
  have := hc i; omega

theorem goodT_rawPush {s : State} (h : Inv s) (pid : Nat) {v : Val} (hv : ∀ i, v.count i = 0) :
    GoodT s (rawPush s pid v) := ⟨good_rawPush h pid hv, transit_rawPush s pid v⟩

theorem good_handleSelf {s : State} (h : Inv s) (pid : Nat) (sw : Option Nat) : GoodT s (handleSelf s pid sw).1 := by
  unfold handleSelf
  split
  · rename_i index
    have g := goodT_rawPush h pid (v := .proc pid index) (by intro i; simp [Val.count])
    exact g.trans (goodT_bump g.inv pid)
  · split
    · exact GoodT.refl h
    · have g := goodT_rawPush h pid (v := .proc pid (by assumption : Frame).fn) (by intro i; simp [Val.count])
      exact g.trans (goodT_bump g.inv pid)

theorem good_handleProcessRef {s : State} (h : Inv s) (pid a b : Nat) : GoodT s (handleProcessRef s pid a b).1 := by
  unfold handleProcessRef
  have g := goodT_rawPush h pid (v := .proc a b) (by intro i; simp [Val.count])
  exact g.trans (goodT_bump g.inv pid)

theorem good_notifySpawn {s : State} (h : Inv s) (id a b : Nat) : GoodT s (notifySpawn s id a b) := by
  unfold notifySpawn
  have g := goodT_rawPush h id (v := .proc a b) (by intro i; simp [Val.count])
  exact g.trans (goodT_bump g.inv id)

theorem inject_specT {s : State} (h : Inv s) (v : Val) (hd : List Bytes) :
    GoodT s (injectHeapData s v hd).2 ∧ RootsEq s (injectHeapData s v hd).2
      ∧ ∀ v', (injectHeapData s v hd).1 = some v' → Live (injectHeapData s v hd).2 v' := by
  have ⟨a, b, c⟩ := injectHeapData_spec h v hd
  exact ⟨⟨a, b.transit⟩, b, fun v' hv' => (c v' hv').1⟩

theorem good_notifyMessage {s : State} (h : Inv s) (id : Nat) (m : Val) (hd : List Bytes) :
    GoodT s (notifyMessage s id m hd).1 := by
  unfold notifyMessage
  have ⟨g, r, l⟩ := inject_specT h m hd
  cases hi : injectHeapData s m hd with
  | mk o s1 =>
    rw [hi] at g r l
    simp only at g r l
    cases o with
    | none => exact g
    | some injected =>
      simp only
      split
      · exact g
      · rename_i p hp
        have hsr := sameRoots_retain s1 injected
        have g2 : GoodT s1 ((retain s1 injected).setProc id { p with mailbox := p.mailbox ++ [injected] }) := by
          refine ⟨⟨inv_retain_add g.inv (l injected rfl) (heapEq_setProc _ _ _) ?_,
            (Stable.of_sameRoots hsr).trans (stable_setProc _ _ _)⟩, by simp [setProc, hsr.transit]⟩
          intro i
          have := total_setProc (retain s1 injected) id p { p with mailbox := p.mailbox ++ [injected] } i
            (by rw [getProc_of_sameRoots hsr]; exact hp)
          have h2 := total_of_sameRoots hsr i
          simp only [Proc.count_eq, countList_append, countList_cons, countList_nil] at this
          omega
        exact g.trans g2

/-! ### the awaiting map -/

def prevCount (i : Nat) : Option (Option Val) → Nat
  | some (some old) => old.count i
  | _ => 0

theorem awaitingVals_aset (m : List (Nat × Option Val)) (k : Nat) (nv : Option Val) (i : Nat) :
    countList i (awaitingVals (aset m k nv)) + prevCount i (aget m k)
      = countList i (awaitingVals m) + prevCount i (some nv) := by
  induction m with
  | nil => cases nv <;> simp [aset, aget, awaitingVals, prevCount]
  | cons e m ih =>
    obtain ⟨k', v'⟩ := e
    by_cases hk : k' = k
    · subst hk
      cases v' <;> cases nv <;> simp [aset, aget, awaitingVals, prevCount] <;> omega
    · cases v' <;> simp [aset, aget, hk, awaitingVals] <;> omega

theorem good_notifyResult {s : State} (h : Inv s) (awaiter awaited : Nat) (res : Val) (hd : List Bytes) :
    GoodT s (notifyResult s awaiter awaited res hd).1 := by
  unfold notifyResult
  split
  · exact GoodT.refl h
  · split
    · have ⟨g, r, l⟩ := inject_specT h res hd
      cases hi : injectHeapData s res hd with
      | mk o s1 =>
        rw [hi] at g r l
        simp only at g r l
        cases o with
        | none => exact g
        | some injected =>
          simp only
          split
          · exact g
          · rename_i p hp
            have hsr := sameRoots_retain s1 injected
            have hp' : (retain s1 injected).getProc awaiter = some p := by
              rw [getProc_of_sameRoots hsr]; exact hp
            have hcnt := fun i => awaitingVals_aset p.awaiting awaited (some injected) i
            have hst : Stable s1 ((retain s1 injected).setProc awaiter
                { p with awaiting := aset p.awaiting awaited (some injected) }) :=
              (Stable.of_sameRoots hsr).trans (stable_setProc _ _ _)
            have key : ∀ i, ((retain s1 injected).setProc awaiter
                  { p with awaiting := aset p.awaiting awaited (some injected) }).countRefs i
                + s1.floating i + prevCount i (aget p.awaiting awaited)
                = s1.countRefs i + s1.floating i + injected.count i := by
              intro i
              have := total_setProc (retain s1 injected) awaiter p
                { p with awaiting := aset p.awaiting awaited (some injected) } i hp'
              have h2 := total_of_sameRoots hsr i
              have h3 := hcnt i
              have hf : ((retain s1 injected).setProc awaiter
                  { p with awaiting := aset p.awaiting awaited (some injected) }).floating i = s1.floating i := by
                simp [floating, setProc, hsr.transit]
              have hf2 : (retain s1 injected).floating i = s1.floating i := by simp [floating, hsr.transit]
              have h5 : prevCount i (some (some injected)) = injected.count i := rfl
              simp only [Proc.count_eq] at this h3
              omega
            generalize ht1 : (retain s1 injected).setProc awaiter
                { p with awaiting := aset p.awaiting awaited (some injected) } = t1 at hst key
            have hheq : HeapEq (retain s1 injected) t1 := by rw [← ht1]; exact heapEq_setProc _ _ _
            have htr : t1.transit = s1.transit := by rw [← ht1]; simp [setProc, hsr.transit]
            split
            · rename_i old hprev
              -- virtual intermediate: the replaced value parked in transit
              have h0 : Inv { t1 with transit := old :: s1.transit } := by
                refine inv_retain_add g.inv (l injected rfl) ⟨hheq.heap, hheq.refcounts, hheq.free,
                  hheq.pendingFree, hheq.freed, hheq.fresh, hheq.uaf⟩ ?_
                intro i
                have := key i
                rw [hprev] at this
                simp only [prevCount] at this
                show t1.countRefs i + (old.count i + countList i s1.transit) = _
                simp only [floating] at this ⊢
                omega
              have g2 : GoodT s1 (release t1 old) := by
                refine ⟨⟨inv_remove_release h0 ⟨rfl, rfl, rfl, rfl, rfl, rfl, rfl⟩ ?_,
                  hst.trans (Stable.of_sameRoots (sameRoots_release _ old))⟩, ?_⟩
                · intro i
                  show t1.countRefs i + t1.floating i + old.count i
                    = t1.countRefs i + (old.count i + countList i s1.transit)
                  simp only [floating, htr]; omega
                · rw [(sameRoots_release _ old).transit]; exact htr
              exact g.trans g2
            · rename_i hprev
              have g2 : GoodT s1 t1 := by
                refine ⟨⟨inv_retain_add g.inv (l injected rfl) hheq ?_, hst⟩, htr⟩
                intro i
                have := key i
                have h4 : prevCount i (aget p.awaiting awaited) = 0 := by
                  cases hq : aget p.awaiting awaited with
                  | none => rfl
                  | some o =>
                    cases o with
                    | none => rfl
                    | some old => exact absurd hq (hprev old)
                simp only [floating, htr] at this ⊢
                omega
              exact g.trans g2
    · exact GoodT.refl h

theorem good_setError {s : State} (h : Inv s) (pid : Nat)
    (hres : ∀ p v, s.getProc pid = some p → p.result ≠ some (.ok v)) : GoodT s (setError s pid) := by
  unfold setError
  split
  · rename_i p hp
    refine ⟨⟨inv_move h (heapEq_setProc _ _ _) ?_, stable_setProc _ _ _⟩, by simp [setProc]⟩
    intro i
    have := total_setProc s pid p { p with result := some .err, frames := [] } i hp
    have hr : countList i (Res.vals p.result) = 0 := by
      cases hq : p.result with
      | none => simp [Res.vals]
      | some r =>
        cases r with
        | err => simp [Res.vals]
        | ok v => exact absurd hq (hres p v hp)
    have e0 : countList i (Res.vals (some Res.err)) = 0 := rfl
    simp only [Proc.count_eq] at this; omega
  · exact GoodT.refl h

theorem good_notifyEffectCompletion {s : State} (h : Inv s) (pid : Nat) (res : Option Val) (hd : List Bytes)
    (hrun : ∃ p, s.getProc pid = some p ∧ p.result = none) :
    GoodT s (notifyEffectCompletion s pid res hd).1 := by
  obtain ⟨p0, hp0, hres0⟩ := hrun
  unfold notifyEffectCompletion
  split
  · rename_i v
    have ⟨g, r, l⟩ := inject_specT h v hd
    cases hi : injectHeapData s v hd with
    | mk o s1 =>
      rw [hi] at g r l
      simp only at g r l
      cases o with
      | none => exact g
      | some injected =>
        simp only
        split
        · rename_i hnone; rw [r.getProc, hp0] at hnone; cases hnone
        · rename_i p hp
          have hsr := sameRoots_retain s1 injected
          have g2 : GoodT s1 ((retain s1 injected).setProc pid { p with stack := injected :: p.stack }) := by
            refine ⟨⟨inv_retain_add g.inv (l injected rfl) (heapEq_setProc _ _ _) ?_,
              (Stable.of_sameRoots hsr).trans (stable_setProc _ _ _)⟩, by simp [setProc, hsr.transit]⟩
            intro i
            have := total_setProc (retain s1 injected) pid p { p with stack := injected :: p.stack } i
              (by rw [getProc_of_sameRoots hsr]; exact hp)
            have h2 := total_of_sameRoots hsr i
            simp only [Proc.count_eq, countList_cons] at this
            omega
          exact g.trans (g2.trans (goodT_bump g2.inv pid))
  · have := good_setError h pid (fun p v hp => by rw [hp0] at hp; cases hp; rw [hres0]; simp)
    unfold setError at this
    rw [hp0] at this ⊢
    exact this

/-! ### process creation -/

theorem liveL_of_live_tuple_rev {s : State} {id : Nat} {vs : List Val} {a : Val} {rc : List Val}
    (h : Live s (.tuple id vs)) (hr : vs.reverse = a :: rc) : Live s a ∧ LiveL s rc.reverse := by
  have hl : LiveL s vs.reverse := liveL_reverse (live_tuple.mp h)
  rw [hr] at hl
  have ⟨x, y⟩ := liveL_cons.mp hl
  exact ⟨x, liveL_reverse y⟩

theorem good_spawnProcess {s : State} (h : Inv s) (id : Nat) (fi : Option Nat) (caps : List Val) (arg : Val)
    (hd : List Bytes) (persistent : Bool) (hnew : s.getProc id = none) :
    GoodT s (spawnProcess s id fi caps arg hd persistent).1 := by
  have gnew : ∀ p : Proc, (∀ i, p.count i = 0) → GoodT s (s.setProc id p) := by
    intro p hp
    refine ⟨⟨inv_move h (heapEq_setProc _ _ _) ?_, stable_setProc _ _ _⟩, by simp [setProc]⟩
    intro i
    have := total_setProc_new s id p i hnew
    have := hp i; omega
  unfold spawnProcess
  split
  · exact gnew _ (by intro i; simp [Proc.count, Proc.roots, Res.vals, selVals, awaitingVals, Val.nil])
  · rename_i f
    have g0 := gnew { persistent := persistent }
      (by intro i; simp [Proc.count, Proc.roots, Res.vals, selVals, awaitingVals])
    simp only
    have ⟨g, r, l⟩ := inject_specT g0.inv (.tuple 0 (caps ++ [arg])) hd
    split
    · rename_i tid injected s1 hi
      rw [hi] at g r l
      simp only at g r l
      have hl := l _ rfl
      split
      · rename_i a rcaps hrev
        have ⟨la, lc⟩ := liveL_of_live_tuple_rev hl hrev
        have g2 := pushLocals_spec id rcaps.reverse s1 g.inv lc
        have g3 := goodT_pushValue g2.inv id (la.stable g2.stable)
        exact g0.trans (g.trans (g2.trans (g3.trans (goodT_modFrames g3.inv id _))))
      · exact g0.trans g
    · rename_i o s1 hne hi
      rw [hi] at g
      exact g0.trans g

/-! ### REPL -/

theorem good_resumeProcess {s : State} (h : Inv s) (id fi : Nat) : GoodT s (resumeProcess s id fi).1 := by
  unfold resumeProcess
  split
  · exact GoodT.refl h
  · rename_i p hp
    split
    · rename_i v hres
      split
      · refine goodT_setProc_same h hp ?_
        intro i
        simp only [Proc.count_eq, hres, Res.vals, countList_cons, countList_nil]; omega
      · exact GoodT.refl h
    · exact GoodT.refl h

theorem mapM_getElem?_mem {l : List Val} : ∀ (ks : List Nat) (out : List Val),
    ks.mapM (fun i => l[i]?) = some out → ∀ v ∈ out, v ∈ l := by
  intro ks
  induction ks with
  | nil => intro out h v hv; simp at h; subst h; cases hv
  | cons k ks ih =>
    intro out h v hv
    simp only [List.mapM_cons, Option.bind_eq_bind] at h
    cases hk : l[k]? with
    | none => simp [hk] at h
    | some x =>
      cases hks : ks.mapM (fun i => l[i]?) with
      | none => simp [hk, hks] at h
      | some out' =>
        simp [hk, hks] at h; subst h
        cases List.mem_cons.mp hv with
        | inl e => subst e; exact List.mem_of_getElem? hk
        | inr e => exact ih out' hks v e

theorem liveL_of_forall {s : State} {vs : List Val} (h : ∀ v ∈ vs, Live s v) : LiveL s vs := by
  induction vs with
  | nil => exact liveL_nil
  | cons x xs ih =>
    exact liveL_cons.mpr ⟨h x (by simp), ih (fun v hv => h v (List.mem_cons_of_mem _ hv))⟩

theorem transit_replaceLocals (s : State) (pid : Nat) (nl : List Val) :
    (replaceLocals s pid nl).2.transit = s.transit := by
  unfold replaceLocals; split
  · rfl
  · simp only
    rw [(sameRoots_releaseList _ _).transit]; simp [setProc, (sameRoots_retainList s nl).transit]

theorem transit_releaseOrphanLocals (s : State) (pid : Nat) (keep : List Nat) :
    (releaseOrphanLocals s pid keep).2.transit = s.transit := by
  unfold releaseOrphanLocals; split
  · rfl
  · simp only
    rw [(sameRoots_releaseList _ _).transit]; simp [setProc]

theorem good_compactLocals {s : State} (h : Inv s) (pid : Nat) (keep : List Nat) :
    GoodT s (compactLocals s pid keep).1 := by
  unfold compactLocals
  split
  · exact GoodT.refl h
  · rename_i p hp
    split
    · exact GoodT.refl h
    · rename_i nl hnl
      have hl : LiveL s nl := liveL_of_forall (fun v hv => by
        have hm := mapM_getElem?_mem keep nl hnl v hv
        exact h.live_root hp (fun i => by have := count_le_of_mem hm i; simp [Proc.count_eq]; omega))
      exact ⟨good_replaceLocals h pid hl, transit_replaceLocals s pid nl⟩

theorem goodT_releaseOrphanLocals {s : State} (h : Inv s) (pid : Nat) (keep : List Nat) :
    GoodT s (releaseOrphanLocals s pid keep).2 :=
  ⟨good_releaseOrphanLocals h pid keep, transit_releaseOrphanLocals s pid keep⟩

/-! ### after the time slice -/

theorem good_popFrame {s : State} (h : Inv s) (pid : Nat) : GoodT s (popFrame s pid) := by
  unfold popFrame
  split
  · exact GoodT.refl h
  · rename_i p hp
    split
    · exact GoodT.refl h
    · rename_i frame rest hfr
      simp only
      have g1 : ∀ fs, GoodT s (s.setProc pid { p with frames := fs }) := by
        intro fs
        refine ⟨⟨inv_move h (heapEq_setProc _ _ _) ?_, stable_setProc _ _ _⟩, by simp [setProc]⟩
        intro i
        have := total_setProc s pid p { p with frames := fs } i hp
        simp only [Proc.count_eq] at this; omega
      split
      · exact (g1 _).trans (goodT_truncateLocals (g1 _).inv pid _)
      · exact g1 _

theorem good_finish {s : State} (h : Inv s) (pid : Nat)
    (hres : ∀ p v, s.getProc pid = some p → p.result ≠ some (.ok v)) : GoodT s (finish s pid).1 := by
  unfold finish
  split
  · exact GoodT.refl h
  · rename_i p hp
    have hr : ∀ i, countList i (Res.vals p.result) = 0 := by
      intro i
      cases hq : p.result with
      | none => simp [Res.vals]
      | some r =>
        cases r with
        | err => simp [Res.vals]
        | ok v => exact absurd hq (hres p v hp)
    split
    · exact GoodT.refl h
    · split
      · refine goodT_setProc_same h hp ?_
        intro i
        have := hr i
        have e0 : countList i (Res.vals (some Res.err)) = 0 := rfl
        simp only [Proc.count_eq] at *; omega
      · rename_i v rest hst
        refine goodT_setProc_same h hp ?_
        intro i
        have := hr i
        have e0 : countList i (Res.vals (some (Res.ok v))) = v.count i := by simp [Res.vals]
        simp only [Proc.count_eq, hst, countList_cons] at *; omega

theorem good_notifyAll (pid : Nat) (v : Val) (as : List Nat) : ∀ {s : State}, Inv s →
    GoodT s (notifyAll pid v s as) := by
  induction as with
  | nil => intro s h; exact GoodT.refl h
  | cons a rest ih =>
    intro s h
    have g := good_notifyResult h a pid v []
    simp only [notifyAll]
    exact g.trans (ih g.inv)

theorem good_notifyAwaiters {s : State} (h : Inv s) (pid : Nat) : GoodT s (notifyAwaiters s pid) := by
  unfold notifyAwaiters
  split
  · split
    · exact good_notifyAll pid _ _ h
    · exact GoodT.refl h
  · exact GoodT.refl h

/-! ### dead roots -/

theorem countList_map_insertStored (e : Nat × Val) (l : List (Nat × Val)) (i : Nat) :
    countList i ((insertStored e l).map (·.2)) = e.2.count i + countList i (l.map (·.2)) := by
  induction l with
  | nil => simp [insertStored]
  | cons x xs ih =>
    simp only [insertStored]
    split
    · simp
    · simp [ih]; omega

theorem countList_storedSorted (aw : List (Nat × Option Val)) (i : Nat) :
    countList i ((storedSorted aw).map (·.2)) = countList i (awaitingVals aw) := by
  induction aw with
  | nil => simp [storedSorted, awaitingVals]
  | cons e rest ih =>
    obtain ⟨t, o⟩ := e
    cases o with
    | none => simpa [storedSorted, awaitingVals] using ih
    | some v => simp [storedSorted, awaitingVals, countList_map_insertStored, ih]

theorem count_deadRoots (p : Proc) (i : Nat) :
    (withoutDeadRoots p).count i + countList i (deadRoots p) = p.count i := by
  have h1 := countList_reverse p.stack i
  have h2 := countList_storedSorted p.awaiting i
  unfold withoutDeadRoots deadRoots
  split
  · simp only [Proc.count_eq, countList_append, countList_nil, h1]; omega
  · simp only [Proc.count_eq, countList_append, countList_nil, h1, h2, selVals, awaitingVals]; omega

theorem good_releaseDeadRoots {s : State} (h : Inv s) (pid : Nat) : GoodT s (releaseDeadRoots s pid) := by
  unfold releaseDeadRoots
  split
  · exact GoodT.refl h
  · rename_i p hp
    have e2 : ∀ t vs, releaseList t vs = release t (.tuple 0 vs) := by intro t vs; simp [release]
    rw [e2]
    refine ⟨⟨inv_remove_release h (heapEq_setProc _ _ _) ?_, stable_release_setProc _ _ _ _⟩, ?_⟩
    · intro i
      have := total_setProc s pid p (withoutDeadRoots p) i hp
      have h2 := count_deadRoots p i
      simp only [count_tuple]; omega
    · rw [(sameRoots_release _ _).transit]; simp [setProc]

/-- after it, a process that cannot be resumed roots nothing but its result -/
theorem roots_after_releaseDeadRoots (p : Proc) (hp : p.persistent = false) :
    (withoutDeadRoots p).roots = Res.vals p.result := by
  simp [withoutDeadRoots, hp, Proc.roots, selVals, awaitingVals]

theorem good_notifyMessageGuarded {s : State} (h : Inv s) (id : Nat) (m : Val) (hd : List Bytes) :
    GoodT s (notifyMessageGuarded s id m hd).1 := by
  unfold notifyMessageGuarded
  split
  · split
    · exact good_notifyMessage h id m hd
    · exact GoodT.refl h
  · exact GoodT.refl h

/-- an undeliverable message allocates nothing (no stranded slot, no dead mailbox) -/
theorem notifyMessageGuarded_drop {s : State} (id : Nat) (m : Val) (hd : List Bytes)
    (hnd : ∀ p, s.getProc id = some p → deliverable p = false) : (notifyMessageGuarded s id m hd).1 = s := by
  unfold notifyMessageGuarded
  split
  · rename_i p hp; simp [hnd p hp]
  · rfl

end QM.Heap
