import QuiverModel.Lemmas.Heap.Select
/-
No instruction handler touches the stored result of any process (only completion, the `Err` arm,
`resume_process` and a failed effect do). Consequence: the side condition of
`acct_step_stepInstr` ("the running process has no stored result") can be stated on the state
BEFORE the instruction.
-/
namespace QM.Heap
open State

/-- the stored results of all processes are the same in `s` and `t` -/
def SameRes (s t : State) : Prop := ∀ q, (t.getProc q).map (·.result) = (s.getProc q).map (·.result)

theorem SameRes.refl (s : State) : SameRes s s := fun _ => rfl
theorem SameRes.trans {a b c : State} (h1 : SameRes a b) (h2 : SameRes b c) : SameRes a c :=
  fun q => (h2 q).trans (h1 q)

theorem SameRes.of_procs {s t : State} (h : t.procs = s.procs) : SameRes s t := by
  intro q; simp [getProc, h]

theorem SameRes.setProc {s : State} {pid : Nat} {p p' : Proc} (hp : s.getProc pid = some p)
    (hr : p'.result = p.result) : SameRes s (s.setProc pid p') := by
  intro q
  by_cases hq : q = pid
  · subst hq; simp [hp, hr]
  · rw [getProc_setProc_ne _ _ _ _ hq]

/-- `t` is `s` with process `pid` replaced by a process with the same stored result -/
theorem SameRes.of_setProc {s t : State} {pid : Nat} {p p' : Proc} (ht : t.procs = (s.setProc pid p').procs)
    (hp : s.getProc pid = some p) (hr : p'.result = p.result) : SameRes s t :=
  (SameRes.setProc hp hr).trans (SameRes.of_procs ht)

theorem sameRes_retain (s : State) (v : Val) : SameRes s (retain s v) := SameRes.of_procs (sameRoots_retain s v).procs
theorem sameRes_release (s : State) (v : Val) : SameRes s (release s v) := SameRes.of_procs (sameRoots_release s v).procs
theorem sameRes_releaseList (s : State) (vs : List Val) : SameRes s (releaseList s vs) :=
  SameRes.of_procs (sameRoots_releaseList s vs).procs

theorem sameRes_pushValue (s : State) (pid : Nat) (v : Val) : SameRes s (pushValue s pid v) := by
  unfold pushValue; split
  · rename_i p hp
    exact SameRes.of_setProc (p' := { p with stack := v :: p.stack })
      (by simp [setProc, (sameRoots_retain s v).procs]) hp rfl
  · exact SameRes.refl s

theorem sameRes_pushLocal (s : State) (pid : Nat) (v : Val) : SameRes s (pushLocal s pid v) := by
  unfold pushLocal; split
  · rename_i p hp
    exact SameRes.of_setProc (p' := { p with locals := p.locals ++ [v] })
      (by simp [setProc, (sameRoots_retain s v).procs]) hp rfl
  · exact SameRes.refl s

theorem sameRes_popValue (s : State) (pid : Nat) : SameRes s (popValue s pid).2 := by
  unfold popValue; split
  · rename_i p hp
    split
    · exact SameRes.of_setProc (sameRoots_release _ _).procs hp rfl
    · exact SameRes.refl s
  · exact SameRes.refl s

theorem sameRes_truncateLocals (s : State) (pid len : Nat) : SameRes s (truncateLocals s pid len) := by
  unfold truncateLocals; split
  · rename_i p hp
    split
    · exact SameRes.of_setProc (sameRoots_releaseList _ _).procs hp rfl
    · exact SameRes.refl s
  · exact SameRes.refl s

theorem sameRes_modFrames (s : State) (pid : Nat) (f : List Frame → List Frame) : SameRes s (modFrames s pid f) := by
  unfold modFrames; split
  · rename_i p hp; exact SameRes.of_setProc rfl hp rfl
  · exact SameRes.refl s

theorem sameRes_bump (s : State) (pid : Nat) : SameRes s (bump s pid) := sameRes_modFrames s pid _

theorem sameRes_rawPop (s : State) (pid : Nat) : SameRes s (rawPop s pid).2 := by
  unfold rawPop; split
  · rename_i p hp
    split
    · exact SameRes.of_setProc rfl hp rfl
    · exact SameRes.refl s
  · exact SameRes.refl s

theorem sameRes_releaseTransit (s : State) (k : Nat) : SameRes s (releaseTransit s k) :=
  SameRes.of_procs (procs_releaseTransit s k)

theorem sameRes_rawPushTransit (s : State) (pid k : Nat) : SameRes s (rawPushTransit s pid k) := by
  unfold rawPushTransit; split
  · rename_i v p hv hp; exact SameRes.of_setProc rfl hp rfl
  · exact SameRes.refl s

theorem sameRes_dropTransit (s : State) (k : Nat) : SameRes s (dropTransit s k) := SameRes.of_procs rfl

theorem sameRes_rawPush (s : State) (pid : Nat) (v : Val) : SameRes s (rawPush s pid v) := by
  unfold rawPush; split
  · rename_i p hp; exact SameRes.of_setProc rfl hp rfl
  · exact SameRes.refl s

theorem sameRes_popN (pid : Nat) (n : Nat) : ∀ s : State, SameRes s (popN s pid n).2 := by
  induction n with
  | zero => intro s; exact SameRes.refl s
  | succ n ih =>
    intro s
    have h1 := sameRes_popValue s pid
    simp only [popN]
    cases hp : popValue s pid with
    | mk o s1 =>
      rw [hp] at h1
      cases o with
      | none => exact h1
      | some v =>
        simp only
        have h2 := ih s1
        cases hn : popN s1 pid n with
        | mk o2 s2 =>
          rw [hn] at h2
          cases o2 <;> exact h1.trans h2

theorem sameRes_pushLocals (pid : Nat) (cs : List Val) : ∀ s : State, SameRes s (pushLocals s pid cs) := by
  induction cs with
  | nil => intro s; exact SameRes.refl s
  | cons c cs ih => intro s; simp only [pushLocals]; exact (sameRes_pushLocal s pid c).trans (ih _)

theorem procs_allocMany (ds : List Data) : ∀ s : State, (allocMany s ds).2.procs = s.procs := by
  induction ds with
  | nil => intro s; rfl
  | cons d rest ih =>
    intro s
    have h1 := (rootsEq_allocate s d).procs
    simp only [allocMany]
    cases ha : allocate s d with
    | mk o s1 =>
      rw [ha] at h1
      cases o with
      | none => exact h1
      | some idx =>
        simp only
        have h2 := ih s1
        cases hm : allocMany s1 rest with
        | mk o2 s2 =>
          rw [hm] at h2
          cases o2 <;> exact h2.trans h1

theorem sameRes_allocMany (ds : List Data) (s : State) : SameRes s (allocMany s ds).2 :=
  SameRes.of_procs (procs_allocMany ds s)

theorem sameRes_cachedConstantBinary (s : State) (index : Nat) (bytes : Option Bytes) :
    SameRes s (cachedConstantBinary s index bytes).2 := by
  unfold cachedConstantBinary
  split
  · exact SameRes.refl s
  · split
    · exact SameRes.refl s
    · rename_i bs
      have h1 := (rootsEq_allocate s (.owned bs)).procs
      split
      · rename_i s' ha; rw [ha] at h1; exact SameRes.of_procs h1
      · rename_i idx s1 ha
        rw [ha] at h1
        exact SameRes.of_procs (by rw [(sameRoots_retain _ _).procs]; exact h1)

/-! ### handlers -/

theorem sameRes_after_pop {s : State} {pid : Nat} {o : Option Val} {s1 t : State}
    (hp : popValue s pid = (o, s1)) (h : SameRes s1 t) : SameRes s t := by
  have := sameRes_popValue s pid; rw [hp] at this; exact this.trans h

theorem sameRes_push_bump (s : State) (pid : Nat) (v : Val) : SameRes s (bump (pushValue s pid v) pid) :=
  (sameRes_pushValue s pid v).trans (sameRes_bump _ pid)

theorem sameRes_handleConstant (s : State) (pid index : Nat) (c : Option Const) :
    SameRes s (handleConstant s pid index c).1 := by
  unfold handleConstant
  split
  · exact SameRes.refl s
  · exact sameRes_push_bump s pid _
  · rename_i bs
    have h1 := sameRes_cachedConstantBinary s index (some bs)
    split
    · rename_i s' hc; rw [hc] at h1; exact h1
    · rename_i b s' hc; rw [hc] at h1; exact h1.trans (sameRes_push_bump _ pid _)

theorem sameRes_handlePop (s : State) (pid : Nat) : SameRes s (handlePop s pid).1 := by
  unfold handlePop
  split
  · rename_i s' hp; exact sameRes_after_pop hp (SameRes.refl _)
  · rename_i v s' hp; exact sameRes_after_pop hp (sameRes_bump _ pid)

theorem sameRes_handleDuplicate (s : State) (pid : Nat) : SameRes s (handleDuplicate s pid).1 := by
  unfold handleDuplicate
  split
  · exact sameRes_push_bump s pid _
  · exact SameRes.refl s

theorem sameRes_handlePick (s : State) (pid n : Nat) : SameRes s (handlePick s pid n).1 := by
  unfold handlePick
  split
  · exact sameRes_push_bump s pid _
  · exact SameRes.refl s

theorem sameRes_handleRotate (s : State) (pid n : Nat) : SameRes s (handleRotate s pid n).1 := by
  unfold handleRotate
  split
  · exact SameRes.refl s
  · rename_i p hp
    split
    · exact SameRes.refl s
    · split
      · rename_i item hitem
        exact SameRes.trans (b := s.setProc pid { p with stack := item :: p.stack.eraseIdx (n - 1) })
          (SameRes.of_setProc rfl hp rfl) (sameRes_bump _ pid)
      · exact SameRes.refl s

theorem sameRes_handleLoad (s : State) (pid index : Nat) : SameRes s (handleLoad s pid index).1 := by
  unfold handleLoad
  split
  · exact SameRes.refl s
  · split
    · exact sameRes_push_bump s pid _
    · exact SameRes.refl s

theorem sameRes_handleStore (s : State) (pid : Nat) : SameRes s (handleStore s pid).1 := by
  unfold handleStore
  split
  · rename_i s' hp; exact sameRes_after_pop hp (SameRes.refl _)
  · rename_i v s' hp
    exact sameRes_after_pop hp ((sameRes_pushLocal _ pid v).trans (sameRes_bump _ pid))

theorem sameRes_popN_push (s : State) (pid n : Nat) (mk : List Val → Val) :
    SameRes s (match popN s pid n with
      | (none, s) => (s, Out.fail)
      | (some vs, s) => (bump (pushValue s pid (mk vs)) pid, Out.ok)).1 := by
  have h1 := sameRes_popN pid n s
  split
  · rename_i s' hp; rw [hp] at h1; exact h1
  · rename_i vs s' hp; rw [hp] at h1; exact h1.trans (sameRes_push_bump _ pid _)

theorem sameRes_handleTuple (s : State) (pid t : Nat) (sz : Option Nat) : SameRes s (handleTuple s pid t sz).1 := by
  unfold handleTuple
  split
  · exact SameRes.refl s
  · exact sameRes_popN_push s pid _ (fun vs => .tuple t vs.reverse)

theorem sameRes_handleFunction (s : State) (pid fi : Nat) (c : Option Nat) :
    SameRes s (handleFunction s pid fi c).1 := by
  unfold handleFunction
  split
  · exact SameRes.refl s
  · exact sameRes_popN_push s pid _ (fun vs => .func fi vs.reverse)

theorem sameRes_handleGet (s : State) (pid index : Nat) : SameRes s (handleGet s pid index).1 := by
  unfold handleGet
  split
  · rename_i s' hp; exact sameRes_after_pop hp (SameRes.refl _)
  · rename_i id els s' hp
    split
    · exact sameRes_after_pop hp (sameRes_push_bump _ pid _)
    · exact sameRes_after_pop hp (SameRes.refl _)
  · rename_i v s' hne hp; exact sameRes_after_pop hp (SameRes.refl _)

theorem sameRes_handleIsType (s : State) (pid : Nat) (m : Val → Bool) : SameRes s (handleIsType s pid m).1 := by
  unfold handleIsType
  split
  · rename_i s' hp; exact sameRes_after_pop hp (SameRes.refl _)
  · rename_i v s' hp; exact sameRes_after_pop hp (sameRes_push_bump _ pid _)

theorem sameRes_handleNot (s : State) (pid : Nat) : SameRes s (handleNot s pid).1 := by
  unfold handleNot
  split
  · rename_i s' hp; exact sameRes_after_pop hp (SameRes.refl _)
  · rename_i v s' hp; exact sameRes_after_pop hp (sameRes_push_bump _ pid _)

theorem sameRes_handleJumpIf (s : State) (pid t : Nat) : SameRes s (handleJumpIf s pid t).1 := by
  unfold handleJumpIf
  split
  · rename_i s' hp; exact sameRes_after_pop hp (SameRes.refl _)
  · rename_i c s' hp
    split
    · exact sameRes_after_pop hp (sameRes_modFrames _ pid _)
    · exact sameRes_after_pop hp (sameRes_bump _ pid)

theorem sameRes_handleReset (s : State) (pid index : Nat) : SameRes s (handleReset s pid index).1 := by
  unfold handleReset
  split
  · exact SameRes.refl s
  · simp only
    split
    · exact SameRes.refl s
    · exact (sameRes_truncateLocals s pid _).trans (sameRes_bump _ pid)

theorem sameRes_handleBuiltin (s : State) (pid index : Nat) (k : Bool) : SameRes s (handleBuiltin s pid index k).1 := by
  unfold handleBuiltin
  split
  · exact SameRes.refl s
  · exact sameRes_push_bump s pid _

theorem sameRes_handleEqual (s : State) (pid n : Nat) (eqv : State → Val → Val → Bool) :
    SameRes s (handleEqual s pid n eqv).1 := by
  unfold handleEqual
  split
  · exact SameRes.refl s
  · have h1 := sameRes_popN pid n s
    split
    · rename_i s' hp; rw [hp] at h1; exact h1
    · rename_i vs s' hp
      rw [hp] at h1
      simp only
      split
      · exact h1
      · exact h1.trans (sameRes_push_bump _ pid _)

theorem sameRes_handleCall (s : State) (pid : Nat) (fx : Nat → Bool) (run : Nat → Option BuiltinRun) :
    SameRes s (handleCall s pid fx run).1 := by
  unfold handleCall
  split
  · exact SameRes.refl s
  · rename_i fi caps rest hst
    split
    · exact SameRes.refl s
    · have h1 := sameRes_popValue s pid
      have h2 := sameRes_popValue (popValue s pid).2 pid
      simp only
      split
      · rename_i s' hp; rw [hp] at h2; exact h1.trans h2
      · rename_i par s' hp
        rw [hp] at h2
        exact h1.trans (h2.trans ((sameRes_pushValue _ pid par).trans
          ((sameRes_pushLocals pid caps _).trans (sameRes_modFrames _ pid _))))
  · rename_i bid rest hst
    have h1 := sameRes_popValue s pid
    have h2 := sameRes_popValue (popValue s pid).2 pid
    simp only
    split
    · rename_i s' hp; rw [hp] at h2; exact h1.trans h2
    · rename_i par s' hp
      rw [hp] at h2
      have h12 := h1.trans h2
      split
      · exact h12
      · rename_i r hr
        have h3 : SameRes s' (noteAccess s' par) := SameRes.of_procs rfl
        split
        · exact h12.trans h3
        · rename_i ds hds
          have h4 := sameRes_allocMany ds (noteAccess s' par)
          split
          · rename_i s3 ha; rw [ha] at h4; exact h12.trans (h3.trans h4)
          · rename_i idxs s3 ha
            rw [ha] at h4
            have h1234 := h12.trans (h3.trans h4)
            split
            · exact h1234
            · split
              · exact h1234
              · exact h1234.trans (sameRes_push_bump _ pid _)
  · exact SameRes.refl s

theorem sameRes_handleTailCall (s : State) (pid : Nat) (r : Bool) (fx : Nat → Bool) :
    SameRes s (handleTailCall s pid r fx).1 := by
  unfold handleTailCall
  split
  · split
    · rename_i s' hp; exact sameRes_after_pop hp (SameRes.refl _)
    · rename_i arg s' hp
      split
      · exact sameRes_after_pop hp (SameRes.refl _)
      · exact sameRes_after_pop hp ((sameRes_truncateLocals _ pid _).trans
          ((sameRes_pushValue _ pid arg).trans (sameRes_modFrames _ pid _)))
  · split
    · rename_i s' hp; exact sameRes_after_pop hp (SameRes.refl _)
    · rename_i fv s1 hp1
      split
      · rename_i s' hp; exact sameRes_after_pop hp1 (sameRes_after_pop hp (SameRes.refl _))
      · rename_i arg s2 hp2
        have h12 : SameRes s s2 := sameRes_after_pop hp1 (sameRes_after_pop hp2 (SameRes.refl _))
        split
        · rename_i fi caps
          split
          · exact h12
          · split
            · exact h12
            · exact h12.trans ((sameRes_truncateLocals _ pid _).trans ((sameRes_pushLocals pid caps _).trans
                ((sameRes_pushValue _ pid arg).trans (sameRes_modFrames _ pid _))))
        · exact h12

theorem sameRes_handleSpawn (s : State) (pid : Nat) : SameRes s (handleSpawn s pid).1 := by
  unfold handleSpawn
  split
  · exact SameRes.refl s
  · have h1 := sameRes_rawPop s pid
    split
    · rename_i s' hp; rw [hp] at h1; exact h1
    · rename_i fv s1 hp
      rw [hp] at h1
      have h2 := sameRes_rawPop s1 pid
      split
      · rename_i s' hp2; rw [hp2] at h2; exact h1.trans (h2.trans (sameRes_dropTransit _ 0))
      · rename_i arg s2 hp2
        rw [hp2] at h2
        have h := h1.trans (h2.trans ((sameRes_releaseTransit s2 1).trans (sameRes_releaseTransit _ 0)))
        simp only
        split <;> exact h

theorem sameRes_handleSend (s : State) (pid : Nat) : SameRes s (handleSend s pid).1 := by
  unfold handleSend
  split
  · exact SameRes.refl s
  · have h1 := sameRes_rawPop s pid
    split
    · rename_i s' hp; rw [hp] at h1; exact h1
    · rename_i tv s1 hp
      rw [hp] at h1
      have h2 := sameRes_rawPop s1 pid
      split
      · rename_i s' hp2; rw [hp2] at h2; exact h1.trans (h2.trans (sameRes_dropTransit _ 0))
      · rename_i msg s2 hp2
        rw [hp2] at h2
        have h := h1.trans (h2.trans (sameRes_releaseTransit s2 0))
        simp only
        split
        · exact h.trans ((sameRes_rawPushTransit _ pid 0).trans (sameRes_bump _ pid))
        · exact h.trans (sameRes_dropTransit _ 0)

theorem sameRes_handleSelf (s : State) (pid : Nat) (sw : Option Nat) : SameRes s (handleSelf s pid sw).1 := by
  unfold handleSelf
  split
  · exact (sameRes_rawPush s pid _).trans (sameRes_bump _ pid)
  · split
    · exact SameRes.refl s
    · exact (sameRes_rawPush s pid _).trans (sameRes_bump _ pid)

/-- **no instruction handler touches a stored result** -/
theorem sameRes_exec (env : Env) (s : State) (pid : Nat) (i : Instr) : SameRes s (exec env s pid i).1 := by
  cases i with
  | constant index c => exact sameRes_handleConstant s pid index c
  | pop => exact sameRes_handlePop s pid
  | duplicate => exact sameRes_handleDuplicate s pid
  | pick n => exact sameRes_handlePick s pid n
  | rotate n => exact sameRes_handleRotate s pid n
  | load index => exact sameRes_handleLoad s pid index
  | store => exact sameRes_handleStore s pid
  | tuple t sz => exact sameRes_handleTuple s pid t sz
  | get index => exact sameRes_handleGet s pid index
  | isType t => exact sameRes_handleIsType s pid _
  | jump t => exact sameRes_modFrames s pid _
  | jumpIf t => exact sameRes_handleJumpIf s pid t
  | call => exact sameRes_handleCall s pid _ _
  | tailCall r => exact sameRes_handleTailCall s pid r _
  | function fi c => exact sameRes_handleFunction s pid fi c
  | reset index => exact sameRes_handleReset s pid index
  | builtin index k => exact sameRes_handleBuiltin s pid index k
  | equal n => exact sameRes_handleEqual s pid n _
  | not => exact sameRes_handleNot s pid
  | spawn => exact sameRes_handleSpawn s pid
  | send => exact sameRes_handleSend s pid
  | self sw => exact sameRes_handleSelf s pid sw
  | processRef a b => exact (sameRes_rawPush s pid _).trans (sameRes_bump _ pid)

end QM.Heap
