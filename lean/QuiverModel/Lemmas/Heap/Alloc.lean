import QuiverModel.Lemmas.Heap.Choke
/-
`allocate`, `process_pending_free`, `materialize`, `cached_constant_binary`: invariant, and the
`Stable` relation (what every operation other than reclamation guarantees to a live slot).
-/
namespace QM.Heap
open State

theorem getD_setIfInBounds {α : Type} (a : Array α) (i j : Nat) (v d : α) :
    (a.setIfInBounds i v).getD j d = if i = j ∧ i < a.size then v else a.getD j d := by
  simp only [Array.getD_eq_getD_getElem?, Array.getElem?_setIfInBounds]
  by_cases h : i = j
  · subst h
    by_cases hi : i < a.size <;> simp [hi]
  · simp [h]

theorem getD_push {α : Type} (a : Array α) (j : Nat) (v d : α) :
    (a.push v).getD j d = if j = a.size then v else a.getD j d := by
  simp only [Array.getD_eq_getD_getElem?, Array.getElem?_push]
  by_cases h : j = a.size
  · simp [h]
  · have h' : ¬ a.size = j := fun e => h e.symm
    simp [h]

theorem getD_oob {α : Type} (a : Array α) (j : Nat) (d : α) (h : a.size ≤ j) : a.getD j d = d := by
  simp [Array.getD_eq_getD_getElem?, Nat.not_lt.mpr h]

/-- sizes grow; a slot that is live keeps its freed flag off and its bytes -/
structure Stable (s t : State) : Prop where
  size : s.heap.size ≤ t.heap.size
  keep : ∀ i, i < s.heap.size → s.isFreed i = false → t.isFreed i = false ∧ t.bytesAt i = s.bytesAt i

theorem Stable.refl (s : State) : Stable s s := ⟨Nat.le_refl _, fun _ _ h => ⟨h, rfl⟩⟩
theorem Stable.trans {a b c : State} (h1 : Stable a b) (h2 : Stable b c) : Stable a c := by
  refine ⟨Nat.le_trans h1.size h2.size, ?_⟩
  intro i hi hf
  have ⟨f1, b1⟩ := h1.keep i hi hf
  have ⟨f2, b2⟩ := h2.keep i (Nat.lt_of_lt_of_le hi h1.size) f1
  exact ⟨f2, b2.trans b1⟩

theorem Stable.of_eq {s t : State} (hh : t.heap = s.heap) (hf : t.freed = s.freed) : Stable s t := by
  refine ⟨by rw [hh]; exact Nat.le_refl _, ?_⟩
  intro i _ h
  exact ⟨by simpa [State.isFreed, hf] using h, by simp [State.bytesAt, hh]⟩

theorem Stable.of_sameRoots {s t : State} (h : SameRoots s t) : Stable s t := Stable.of_eq h.heap h.freed

theorem Live.stable {s t : State} {v : Val} (h : Live s v) (hst : Stable s t) : Live t v := by
  intro j hj
  have ⟨a, b⟩ := h j hj
  exact ⟨Nat.lt_of_lt_of_le a hst.size, (hst.keep j a b).1⟩

theorem LiveL.stable {s t : State} {vs : List Val} (h : LiveL s vs) (hst : Stable s t) : LiveL t vs := by
  intro j hj
  have ⟨a, b⟩ := h j hj
  exact ⟨Nat.lt_of_lt_of_le a hst.size, (hst.keep j a b).1⟩

theorem stable_setProc (s : State) (pid : Nat) (p : Proc) : Stable s (s.setProc pid p) :=
  Stable.of_eq (by simp [setProc]) (by simp [setProc])

/-! ### allocate -/

/-- the roots (processes, constant cache, transit) coincide -/
structure RootsEq (s t : State) : Prop where
  procs : t.procs = s.procs
  consts : t.constantBinaries = s.constantBinaries
  transit : t.transit = s.transit

theorem RootsEq.refl (s : State) : RootsEq s s := ⟨rfl, rfl, rfl⟩
theorem RootsEq.trans {a b c : State} (h1 : RootsEq a b) (h2 : RootsEq b c) : RootsEq a c :=
  ⟨h2.procs.trans h1.procs, h2.consts.trans h1.consts, h2.transit.trans h1.transit⟩
theorem RootsEq.total {s t : State} (h : RootsEq s t) (i : Nat) :
    t.countRefs i + t.floating i = s.countRefs i + s.floating i := by
  simp [countRefs, constCount, floating, h.procs, h.consts, h.transit]
theorem RootsEq.getProc {s t : State} (h : RootsEq s t) (pid : Nat) : t.getProc pid = s.getProc pid := by
  simp [State.getProc, h.procs]
theorem RootsEq.of_sameRoots {s t : State} (h : SameRoots s t) : RootsEq s t := ⟨h.procs, h.consts, h.transit⟩

theorem allocate_none {s t : State} {d : Data} (h : allocate s d = (none, t)) : t = s := by
  unfold allocate at h
  split at h
  · cases h; rfl
  · split at h <;> cases h

theorem rootsEq_allocate (s : State) (d : Data) : RootsEq s (allocate s d).2 := by
  unfold allocate
  split
  · exact RootsEq.refl s
  · split <;> exact ⟨rfl, rfl, rfl⟩

theorem inv_allocate {s : State} (h : Inv s) (d : Data) : Inv (allocate s d).2 := by
  unfold allocate
  split
  · exact h
  · split
    · rename_i index rest hfree
      have hmem : index ∈ s.free := by rw [hfree]; simp
      have hfr : s.isFreed index = true := h.freeFreed index hmem
      have hlt : index < s.freed.size := isFreed_lt hfr
      have hrc0 : s.rc index = 0 := h.freedZero index hfr
      have hnd : index ∉ rest := by have := h.freeNodup; rw [hfree] at this; exact (List.nodup_cons.mp this).1
      have hrc : ∀ i, (s.refcounts.setIfInBounds index 0).getD i 0 = s.rc i := by
        intro i; rw [getD_setIfInBounds]
        split
        · rename_i hc; rw [← hc.1]; exact hrc0.symm
        · rfl
      have hfd : ∀ i, (s.freed.setIfInBounds index false).getD i false
          = if i = index then false else s.isFreed i := by
        intro i; rw [getD_setIfInBounds]
        by_cases hi : index = i
        · subst hi; simp [hlt]
        · have : ¬ i = index := fun e => hi e.symm
          simp [hi, this, State.isFreed]
      constructor
      · simp only [Array.size_setIfInBounds]; exact h.shapeRc
      · simp only [Array.size_setIfInBounds]; exact h.shapeFr
      · intro i
        show (s.refcounts.setIfInBounds index 0).getD i 0 = _
        rw [hrc]; exact h.acct i
      · intro i hi
        simp only [State.isFreed] at hi; rw [hfd] at hi
        show (s.refcounts.setIfInBounds index 0).getD i 0 = 0
        rw [hrc]
        split at hi
        · cases hi
        · exact h.freedZero i hi
      · intro j hj
        show (s.freed.setIfInBounds index false).getD j false = true
        rw [hfd]
        have hj' : j ∈ s.free := by rw [hfree]; exact List.mem_cons_of_mem _ hj
        have : ¬ j = index := fun e => hnd (e ▸ hj)
        simp [this]; exact h.freeFreed j hj'
      · intro i hi
        simp only [State.isFreed] at hi; rw [hfd] at hi
        split at hi
        · cases hi
        · rename_i hne
          have := h.freedFree i hi
          rw [hfree] at this
          cases List.mem_cons.mp this with
          | inl e => exact absurd e hne
          | inr e => exact e
      · have := h.freeNodup; rw [hfree] at this; exact (List.nodup_cons.mp this).2
      · intro i hi hz hnf
        simp only [Array.size_setIfInBounds] at hi
        have hz' : s.rc i = 0 := by rw [← hrc i]; exact hz
        simp only [State.isFreed] at hnf; rw [hfd] at hnf
        by_cases hie : i = index
        · right; simp [hie]
        · simp [hie] at hnf
          cases h.queued i hi hz' hnf with
          | inl a => exact Or.inl a
          | inr a => exact Or.inr (List.mem_cons_of_mem _ a)
      · intro j hj; simp only [Array.size_setIfInBounds]; exact h.pendLt j hj
      · exact h.noUaf
    · rename_i hfree
      have hrc : ∀ i, (s.refcounts.push 0).getD i 0 = s.rc i := by
        intro i; rw [getD_push]
        split
        · rename_i hc; simp [State.rc, getD_oob _ _ _ (Nat.le_of_eq hc.symm)]
        · rfl
      have hfd : ∀ i, (s.freed.push false).getD i false = s.isFreed i := by
        intro i; rw [getD_push]
        split
        · rename_i hc; simp [State.isFreed, getD_oob _ _ _ (Nat.le_of_eq hc.symm)]
        · rfl
      constructor
      · simp [h.shapeRc]
      · simp [h.shapeFr]
      · intro i
        show (s.refcounts.push 0).getD i 0 = _
        rw [hrc]; exact h.acct i
      · intro i hi
        simp only [State.isFreed] at hi; rw [hfd] at hi
        show (s.refcounts.push 0).getD i 0 = 0
        rw [hrc]; exact h.freedZero i hi
      · intro j hj
        show (s.freed.push false).getD j false = true
        rw [hfd]; exact h.freeFreed j hj
      · intro i hi
        simp only [State.isFreed] at hi; rw [hfd] at hi
        exact h.freedFree i hi
      · exact h.freeNodup
      · intro i hi hz hnf
        simp only [Array.size_push] at hi
        have hz' : s.rc i = 0 := by rw [← hrc i]; exact hz
        simp only [State.isFreed] at hnf; rw [hfd] at hnf
        by_cases hie : i = s.heap.size
        · right; simp [hie]
        · cases h.queued i (by omega) hz' hnf with
          | inl a => exact Or.inl a
          | inr a => exact Or.inr (List.mem_cons_of_mem _ a)
      · intro j hj; simp only [Array.size_push]; have := h.pendLt j hj; omega
      · exact h.noUaf

theorem stable_allocate {s : State} (h : Inv s) (d : Data) : Stable s (allocate s d).2 := by
  unfold allocate
  split
  · exact Stable.refl s
  · split
    · rename_i index rest hfree
      have hmem : index ∈ s.free := by rw [hfree]; simp
      have hfr : s.isFreed index = true := h.freeFreed index hmem
      refine ⟨by simp, ?_⟩
      intro i hi hnf
      have hne : ¬ index = i := by intro e; rw [e] at hfr; rw [hfr] at hnf; cases hnf
      constructor
      · show (s.freed.setIfInBounds index false).getD i false = false
        rw [getD_setIfInBounds, if_neg (fun hc => hne hc.1)]; exact hnf
      · show ((s.heap.setIfInBounds index d).getD i (.owned [])).toVec = _
        rw [getD_setIfInBounds, if_neg (fun hc => hne hc.1)]; rfl
    · refine ⟨by simp, ?_⟩
      intro i hi hnf
      have hne : ¬ i = s.heap.size := by omega
      have hne2 : ¬ i = s.freed.size := by rw [h.shapeFr]; exact hne
      constructor
      · show (s.freed.push false).getD i false = false
        rw [getD_push, if_neg hne2]; exact hnf
      · show ((s.heap.push d).getD i (.owned [])).toVec = _
        rw [getD_push, if_neg hne]; rfl

/-- what the caller of `allocate` learns about the slot it got -/
theorem allocate_some {s t : State} (h : Inv s) {d : Data} {idx : Nat} (ha : allocate s d = (some idx, t)) :
    idx < t.heap.size ∧ t.isFreed idx = false ∧ t.bytesAt idx = d.toVec
      ∧ (s.isFreed idx = true ∨ idx = s.heap.size) := by
  unfold allocate at ha
  split at ha
  · cases ha
  · split at ha
    · rename_i index rest hfree
      have hmem : index ∈ s.free := by rw [hfree]; simp
      have hfr : s.isFreed index = true := h.freeFreed index hmem
      have hlt : index < s.freed.size := isFreed_lt hfr
      have hlt2 : index < s.heap.size := by rw [← h.shapeFr]; exact hlt
      simp only [Prod.mk.injEq, Option.some.injEq] at ha
      obtain ⟨hidx, ht⟩ := ha
      subst hidx; subst ht
      refine ⟨by simpa using hlt2, ?_, ?_, Or.inl hfr⟩
      · show (s.freed.setIfInBounds index false).getD index false = false
        rw [getD_setIfInBounds]; simp [hlt]
      · show ((s.heap.setIfInBounds index d).getD index (.owned [])).toVec = _
        rw [getD_setIfInBounds]; simp [hlt2]
    · simp only [Prod.mk.injEq, Option.some.injEq] at ha
      obtain ⟨hidx, ht⟩ := ha
      subst hidx; subst ht
      refine ⟨by simp, ?_, ?_, Or.inr rfl⟩
      · show (s.freed.push false).getD s.heap.size false = false
        rw [getD_push]; simp [h.shapeFr]
      · show ((s.heap.push d).getD s.heap.size (.owned [])).toVec = _
        rw [getD_push]; simp

/-- the slot handed out is not mentioned by any handle that was live before -/
theorem allocate_fresh {s t : State} (h : Inv s) {d : Data} {idx : Nat} (ha : allocate s d = (some idx, t))
    {v : Val} (hv : Live s v) : v.count idx = 0 := by
  have ⟨_, _, _, hor⟩ := allocate_some h ha
  cases Nat.eq_zero_or_pos (v.count idx) with
  | inl e => exact e
  | inr hp =>
    have ⟨a, b⟩ := hv idx hp
    cases hor with
    | inl hf => rw [hf] at b; cases b
    | inr he => omega

/-- a handle to the new slot is live -/
theorem allocate_live {s t : State} (h : Inv s) {d : Data} {idx : Nat} (ha : allocate s d = (some idx, t)) :
    Live t (.bin (.heap idx)) := by
  have ⟨a, b, _, _⟩ := allocate_some h ha
  intro j hj
  have : idx = j := by
    by_cases e : idx = j
    · exact e
    · simp [e] at hj
  subst this; exact ⟨a, b⟩

end QM.Heap
