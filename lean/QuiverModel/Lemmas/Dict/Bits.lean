import QuiverModel.Core.Dict
/-
Bit-level facts behind M-Dict: the bitmap of a `Node` seen as the sorted list `slots b` of its set
positions below 32, `rank b f` = number of set positions below `f` (= the compact child index the
source computes as `popcount(bitmap & (bit - 1))`), and what `|||`, `andNot` do to them.
Core Lean only (no Mathlib).
-/
namespace QM.Dict

/-- set positions below `n`, ascending -/
def slotsUpTo (b n : Nat) : List Nat := (List.range n).filter (fun i => b.testBit i)

/-- the occupied slots of a 32-way node, ascending -/
def slots (b : Nat) : List Nat := slotsUpTo b 32

/-- number of occupied slots below `f` -/
def rank (b f : Nat) : Nat := (slotsUpTo b f).length

theorem slotsUpTo_succ (b n : Nat) :
    slotsUpTo b (n + 1) = slotsUpTo b n ++ (if b.testBit n then [n] else []) := by
  simp [slotsUpTo, List.range_succ, List.filter_append, List.filter_cons]

theorem mem_slotsUpTo {b n g : Nat} : g ∈ slotsUpTo b n ↔ g < n ∧ b.testBit g = true := by
  simp [slotsUpTo]

theorem mem_slots {b g : Nat} : g ∈ slots b ↔ g < 32 ∧ b.testBit g = true := mem_slotsUpTo

theorem slotsUpTo_nodup (b n : Nat) : (slotsUpTo b n).Nodup :=
  List.Nodup.sublist List.filter_sublist List.nodup_range

theorem slots_nodup (b : Nat) : (slots b).Nodup := slotsUpTo_nodup b 32

theorem slotsUpTo_length_le (b n : Nat) : (slotsUpTo b n).length ≤ n := by
  have := List.length_filter_le (fun i => b.testBit i) (List.range n)
  simpa [slotsUpTo] using this

theorem rank_mono {b f g : Nat} (h : f ≤ g) : rank b f ≤ rank b g := by
  induction g with
  | zero => have : f = 0 := by omega
            subst this; exact Nat.le_refl _
  | succ g ih =>
    by_cases hfg : f = g + 1
    · subst hfg; exact Nat.le_refl _
    · have := ih (by omega)
      simp only [rank, slotsUpTo_succ, List.length_append] at *
      omega

/-- the slot `f`, if occupied, sits at compact index `rank b f` -/
theorem slotsUpTo_getElem?_rank {b f n : Nat} (hf : b.testBit f = true) (hn : f < n) :
    (slotsUpTo b n)[rank b f]? = some f := by
  induction n with
  | zero => omega
  | succ n ih =>
    rw [slotsUpTo_succ]
    by_cases hfn : f = n
    · subst hfn
      simp [hf, rank]
    · have := ih (by omega)
      rw [List.getElem?_append_left]
      · exact this
      · have h2 : (slotsUpTo b n)[rank b f]? ≠ none := by rw [this]; simp
        exact (List.getElem?_eq_some_iff.mp this).1

theorem slots_getElem?_rank {b f : Nat} (hf : b.testBit f = true) (h32 : f < 32) :
    (slots b)[rank b f]? = some f := slotsUpTo_getElem?_rank hf h32

theorem rank_lt_length {b f : Nat} (hf : b.testBit f = true) (h32 : f < 32) :
    rank b f < (slots b).length :=
  (List.getElem?_eq_some_iff.mp (slots_getElem?_rank hf h32)).1

theorem rank_le_length {b f : Nat} (h32 : f ≤ 32) : rank b f ≤ (slots b).length :=
  rank_mono h32

/-! ### setting a bit -/

theorem testBit_or_bit (b f g : Nat) :
    (b ||| 1 <<< f).testBit g = (b.testBit g || decide (f = g)) := by
  rw [Nat.testBit_or, Nat.one_shiftLeft, Nat.testBit_two_pow]

theorem slotsUpTo_or_le {b f n : Nat} (hn : n ≤ f) : slotsUpTo (b ||| 1 <<< f) n = slotsUpTo b n := by
  unfold slotsUpTo
  apply List.filter_congr
  intro g hg
  have : g < n := by simpa using hg
  rw [testBit_or_bit]
  have : ¬ f = g := by omega
  simp [this]

theorem insertIdx_length_append {α : Type} (l m : List α) (x : α) :
    (l ++ m).insertIdx l.length x = l ++ x :: m := by
  induction l with
  | nil => simp
  | cons h t ih => simp [List.insertIdx_succ_cons, ih]

theorem insertIdx_append_left {α : Type} (l m : List α) (x : α) (i : Nat) (hi : i ≤ l.length) :
    (l ++ m).insertIdx i x = l.insertIdx i x ++ m := by
  induction l generalizing i with
  | nil => have : i = 0 := by simpa using hi
           subst this; simp
  | cons h t ih =>
    cases i with
    | zero => simp
    | succ i => simp [List.insertIdx_succ_cons, ih i (by simpa using hi)]

theorem slotsUpTo_or_gt {b f n : Nat} (hf : b.testBit f = false) (hn : f < n) :
    slotsUpTo (b ||| 1 <<< f) n = (slotsUpTo b n).insertIdx (rank b f) f := by
  induction n with
  | zero => omega
  | succ n ih =>
    rw [slotsUpTo_succ, slotsUpTo_succ]
    by_cases hfn : f = n
    · subst hfn
      rw [slotsUpTo_or_le (Nat.le_refl _), testBit_or_bit]
      simp only [hf, decide_true, Bool.or_true, if_true, Bool.false_eq_true, if_false]
      have := insertIdx_length_append (slotsUpTo b f) [] f
      simp [rank] at this ⊢
    · rw [ih (by omega), testBit_or_bit]
      have hne : ¬ f = n := hfn
      simp only [hne, decide_false, Bool.or_false]
      rw [insertIdx_append_left]
      exact rank_mono (by omega)

theorem slots_or {b f : Nat} (hf : b.testBit f = false) (h32 : f < 32) :
    slots (b ||| 1 <<< f) = (slots b).insertIdx (rank b f) f := slotsUpTo_or_gt hf h32

/-! ### clearing a bit -/

theorem testBit_andNot_bit {b f g : Nat} (hf : f < 64) (hg : g < 64) :
    (andNot b (1 <<< f)).testBit g = (b.testBit g && !decide (f = g)) := by
  unfold andNot
  rw [Nat.testBit_and, Nat.one_shiftLeft]
  have h2 : (2:Nat) ^ f < 2 ^ 64 := Nat.pow_lt_pow_right (by omega) hf
  have : 18446744073709551615 - 2 ^ f = 2 ^ 64 - (2 ^ f + 1) := by omega
  rw [this, Nat.testBit_two_pow_sub_succ h2, Nat.testBit_two_pow]
  simp [hg]

theorem slotsUpTo_andNot_le {b f n : Nat} (hf : f < 64) (hn : n ≤ f) :
    slotsUpTo (andNot b (1 <<< f)) n = slotsUpTo b n := by
  unfold slotsUpTo
  apply List.filter_congr
  intro g hg
  have : g < n := by simpa using hg
  rw [testBit_andNot_bit hf (by omega)]
  have : ¬ f = g := by omega
  simp [this]

theorem eraseIdx_length_append {α : Type} (l m : List α) (x : α) :
    (l ++ x :: m).eraseIdx l.length = l ++ m := by
  induction l with
  | nil => simp
  | cons h t ih => simp [ih]

theorem slotsUpTo_andNot_gt {b f n : Nat} (hf : b.testBit f = true) (hn : f < n) (hn64 : n ≤ 64) :
    slotsUpTo (andNot b (1 <<< f)) n = (slotsUpTo b n).eraseIdx (rank b f) := by
  induction n with
  | zero => omega
  | succ n ih =>
    rw [slotsUpTo_succ, slotsUpTo_succ]
    by_cases hfn : f = n
    · subst hfn
      rw [slotsUpTo_andNot_le (by omega) (Nat.le_refl _), testBit_andNot_bit (by omega) (by omega)]
      simp only [hf, decide_true, Bool.not_true, Bool.and_false, Bool.false_eq_true, if_false, if_true]
      have := eraseIdx_length_append (slotsUpTo b f) [] f
      simpa [rank] using this.symm
    · rw [ih (by omega) (by omega), testBit_andNot_bit (by omega) (by omega)]
      have hne : ¬ f = n := hfn
      simp only [hne, decide_false, Bool.not_false, Bool.and_true]
      rw [List.eraseIdx_append_of_lt_length]
      have h1 := slotsUpTo_getElem?_rank hf (show f < n by omega)
      exact (List.getElem?_eq_some_iff.mp h1).1

theorem slots_andNot {b f : Nat} (hf : b.testBit f = true) (h32 : f < 32) :
    slots (andNot b (1 <<< f)) = (slots b).eraseIdx (rank b f) :=
  slotsUpTo_andNot_gt hf h32 (by omega)

/-! ### `popcount`, `slot_index`, the bitmap test -/

theorem popcountNat_eq (n x : Nat) : popcountNat n x = (slotsUpTo x n).length := by
  induction n generalizing x with
  | zero => simp [popcountNat, slotsUpTo]
  | succ n ih =>
    unfold popcountNat
    by_cases hx : x = 0
    · subst hx
      have : slotsUpTo 0 (n + 1) = [] := List.filter_eq_nil_iff.mpr (by simp)
      rw [this]; simp
    · simp only [hx, if_false]
      rw [ih (x / 2)]
      unfold slotsUpTo
      rw [List.range_succ_eq_map, List.filter_cons, List.filter_map, Nat.testBit_zero]
      have hcomp : ((fun i => x.testBit i) ∘ Nat.succ) = (fun i => (x / 2).testBit i) := by
        funext i; simp [Nat.testBit_succ]
      rw [hcomp]
      rcases Nat.mod_two_eq_zero_or_one x with h | h <;> simp [h] <;> omega

theorem slotsUpTo_mask {b f n : Nat} (hn : f ≤ n) :
    slotsUpTo (b &&& (1 <<< f - 1)) n = slotsUpTo b f := by
  induction n with
  | zero =>
    have : f = 0 := by omega
    subst this; simp [slotsUpTo]
  | succ n ih =>
    by_cases hfn : f = n + 1
    · subst hfn
      unfold slotsUpTo
      apply List.filter_congr
      intro g hg
      have : g < n + 1 := by simpa using hg
      rw [Nat.testBit_and, Nat.one_shiftLeft, Nat.testBit_two_pow_sub_one]
      simp [this]
    · rw [slotsUpTo_succ, ih (by omega), Nat.testBit_and, Nat.one_shiftLeft, Nat.testBit_two_pow_sub_one]
      have : ¬ n < f := by omega
      simp [this]

/-- `slot_index` computes the rank -/
theorem slotIndex_eq_rank {b f : Nat} (hf : f ≤ 64) : slotIndex b (1 <<< f) = rank b f := by
  unfold slotIndex popcount rank
  rw [popcountNat_eq, slotsUpTo_mask hf]

theorem slotsUpTo_of_lt_two_pow {b m n : Nat} (hb : b < 2 ^ m) (hn : m ≤ n) :
    slotsUpTo b n = slotsUpTo b m := by
  induction n with
  | zero => have : m = 0 := by omega
            subst this; rfl
  | succ n ih =>
    by_cases hmn : m = n + 1
    · subst hmn; rfl
    · rw [slotsUpTo_succ, ih (by omega)]
      have : b.testBit n = false := by
        apply Nat.testBit_lt_two_pow
        exact Nat.lt_of_lt_of_le hb (Nat.pow_le_pow_right (by omega) (by omega))
      simp [this]

/-- `popcount` of a 32-bit bitmap is the number of occupied slots -/
theorem popcount_eq_slots_length {b : Nat} (hb : b < 2 ^ 32) : popcount b = (slots b).length := by
  unfold popcount slots
  rw [popcountNat_eq, slotsUpTo_of_lt_two_pow hb (by omega)]

/-- the test `[bitmap, bit] %int.and =0` -/
theorem and_bit_eq_zero_iff (b f : Nat) : b &&& 1 <<< f = 0 ↔ b.testBit f = false := by
  rw [Nat.one_shiftLeft]
  constructor
  · intro h
    have := congrArg (fun x => x.testBit f) h
    simpa [Nat.testBit_and, Nat.testBit_two_pow] using this
  · intro h
    apply Nat.eq_of_testBit_eq
    intro i
    rw [Nat.testBit_and, Nat.testBit_two_pow, Nat.zero_testBit]
    by_cases hfi : f = i
    · subst hfi; simp [h]
    · simp [hfi]

/-! ### range of the results -/

theorem lt_two_pow_of_testBit {b n : Nat} (h : ∀ i, n ≤ i → b.testBit i = false) : b < 2 ^ n := by
  apply Nat.lt_pow_two_of_testBit
  intro i hi
  exact h i hi

theorem or_bit_lt {b f : Nat} (hb : b < 2 ^ 32) (hf : f < 32) : b ||| 1 <<< f < 2 ^ 32 := by
  rw [Nat.one_shiftLeft]
  exact Nat.or_lt_two_pow hb (Nat.pow_lt_pow_right (by omega) hf)

theorem andNot_lt {b x : Nat} (hb : b < 2 ^ 32) : andNot b x < 2 ^ 32 := by
  unfold andNot
  exact Nat.lt_of_le_of_lt Nat.and_le_left hb

theorem bit_lt {f : Nat} (hf : f < 32) : 1 <<< f < 2 ^ 32 := by
  rw [Nat.one_shiftLeft]; exact Nat.pow_lt_pow_right (by omega) hf

/-! ### fragments and prefixes -/

theorem fragment_eq (h s : Nat) : fragment h s = h / 2 ^ s % 32 := by
  unfold fragment
  rw [Nat.shiftRight_eq_div_pow]
  exact Nat.and_two_pow_sub_one_eq_mod _ 5

theorem fragment_lt (h s : Nat) : fragment h s < 32 := by
  rw [fragment_eq]; omega

/-- the low `s+5` bits are the low `s` bits plus the fragment at `s` -/
theorem mod_succ_level (h s : Nat) : h % 2 ^ (s + 5) = h % 2 ^ s + fragment h s * 2 ^ s := by
  rw [fragment_eq, Nat.pow_add, Nat.mod_mul, Nat.mul_comm]

/-- two hashes that agree below `s` and in the fragment at `s` agree below `s+5` -/
theorem prefix_step {h p s : Nat} (hp : h % 2 ^ s = p) :
    h % 2 ^ (s + 5) = p + fragment h s * 2 ^ s := by
  rw [mod_succ_level, hp]

/-- a key stored under slot `g` of a node at `s` has fragment `g` -/
theorem fragment_of_prefix {h p s g : Nat} (hp : h % 2 ^ s = p)
    (hg : h % 2 ^ (s + 5) = p + g * 2 ^ s) : fragment h s = g := by
  rw [prefix_step hp] at hg
  have h2 : fragment h s * 2 ^ s = g * 2 ^ s := by omega
  exact Nat.eq_of_mul_eq_mul_right (Nat.two_pow_pos s) h2

theorem prefix_of_child {h p s g : Nat} (hg : h % 2 ^ (s + 5) = p + g * 2 ^ s) (hp : p < 2 ^ s) :
    h % 2 ^ s = p := by
  have h1 := mod_succ_level h s
  have h2 : h % 2 ^ s < 2 ^ s := Nat.mod_lt _ (Nat.two_pow_pos s)
  rw [h1] at hg
  -- a + f·m = p + g·m with a, p < m
  have hm := Nat.two_pow_pos s
  generalize 2 ^ s = m at *
  generalize fragment h s = f at *
  generalize h % m = a at *
  rcases Nat.lt_trichotomy f g with hfg | hfg | hfg
  · have : (f + 1) * m ≤ g * m := Nat.mul_le_mul_right m hfg
    rw [Nat.add_mul] at this; omega
  · subst hfg; omega
  · have : (g + 1) * m ≤ f * m := Nat.mul_le_mul_right m hfg
    rw [Nat.add_mul] at this; omega

/-- different hashes below `2^32` that agree on the low `s` bits: `s < 32` -/
theorem shift_lt_of_ne {h1 h2 s : Nat} (hne : h1 ≠ h2) (b1 : h1 < 2 ^ 32) (b2 : h2 < 2 ^ 32)
    (hag : h1 % 2 ^ s = h2 % 2 ^ s) : s < 32 := by
  apply Classical.byContradiction
  intro hs
  have hs : 32 ≤ s := by omega
  have hp : (2:Nat) ^ 32 ≤ 2 ^ s := Nat.pow_le_pow_right (by omega) hs
  rw [Nat.mod_eq_of_lt (by omega), Nat.mod_eq_of_lt (by omega)] at hag
  exact hne hag

/-! ### small bitmaps -/

theorem slots_bit {f : Nat} (hf : f < 32) : slots (1 <<< f) = [f] := by
  have h0 : slots 0 = [] := by decide
  have h1 : rank 0 f = 0 := by
    have : slotsUpTo 0 f = [] := List.filter_eq_nil_iff.mpr (by simp)
    simp [rank, this]
  have := slots_or (b := 0) (f := f) (by simp) hf
  simpa [h0, h1] using this

theorem slots_two_bits_fin : ∀ f g : Fin 32, f.val < g.val →
    slots (1 <<< f.val ||| 1 <<< g.val) = [f.val, g.val] := by decide +kernel

theorem slots_two_bits {f g : Nat} (hfg : f < g) (hg : g < 32) :
    slots (1 <<< f ||| 1 <<< g) = [f, g] :=
  slots_two_bits_fin ⟨f, by omega⟩ ⟨g, hg⟩ hfg

end QM.Dict
