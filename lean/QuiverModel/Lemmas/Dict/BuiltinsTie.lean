import QuiverModel.Core.Dict
import QuiverModel.Core.Builtins.Integer
import QuiverModel.Core.Builtins.Binary
/-
Tie between the `Nat` arithmetic of M-Dict and the i64 builtin model of C12 (`QM.Builtins.integer*`,
itself tied to builtins/integer.rs by C12's differential): on the ranges the dict module uses, the
builtins return exactly what `Core/Dict.lean` computes.
-/
namespace QM.Dict
open QM.Builtins QM

theorem toI64_nat {a : Nat} (ha : a < 2 ^ 63) : toI64 (a : Int) = .ok (BitVec.ofNat 64 a) := by
  unfold toI64
  have : FitsI64 (a : Int) := by unfold FitsI64; omega
  simp [this, BitVec.ofInt_natCast]

theorem toInt_ofNat_small {a : Nat} (ha : a < 2 ^ 63) : (BitVec.ofNat 64 a).toInt = (a : Int) := by
  rw [BitVec.toInt_eq_toNat_of_lt]
  · simp; omega
  · simp; omega

/-- `%int.and` -/
theorem integerAnd_tie {a b : Nat} (ha : a < 2 ^ 63) (hb : b < 2 ^ 63) :
    integerAnd a b = .ok ((a &&& b : Nat) : Int) := by
  unfold integerAnd two64
  rw [toI64_nat ha, toI64_nat hb]
  simp only [Outcome.map, Outcome.bind]
  congr 1
  have h1 : a &&& b < 2 ^ 63 := Nat.lt_of_le_of_lt Nat.and_le_left ha
  rw [← toInt_ofNat_small h1]
  congr 1
  apply BitVec.eq_of_toNat_eq
  simp [Nat.mod_eq_of_lt (show a < 2 ^ 64 by omega), Nat.mod_eq_of_lt (show b < 2 ^ 64 by omega)]

/-- `%int.or` -/
theorem integerOr_tie {a b : Nat} (ha : a < 2 ^ 63) (hb : b < 2 ^ 63) :
    integerOr a b = .ok ((a ||| b : Nat) : Int) := by
  unfold integerOr two64
  rw [toI64_nat ha, toI64_nat hb]
  simp only [Outcome.map, Outcome.bind]
  congr 1
  have h1 : a ||| b < 2 ^ 63 := Nat.or_lt_two_pow ha hb
  rw [← toInt_ofNat_small h1]
  congr 1
  apply BitVec.eq_of_toNat_eq
  simp [Nat.mod_eq_of_lt (show a < 2 ^ 64 by omega), Nat.mod_eq_of_lt (show b < 2 ^ 64 by omega)]

/-- `%int.popcount` -/
theorem integerPopcount_tie {a : Nat} (ha : a < 2 ^ 63) :
    integerPopcount a = .ok ((popcount a : Nat) : Int) := by
  unfold integerPopcount
  rw [toI64_nat ha]
  simp only [Outcome.map, Outcome.bind, popcount64, popcount]
  congr 2
  simp only [BitVec.toNat_ofNat, Nat.mod_eq_of_lt (show a < 2 ^ 64 by omega)]
  -- the two `popcountNat` are the same function
  generalize 64 = n
  induction n generalizing a with
  | zero => simp [QM.Builtins.popcountNat, QM.Dict.popcountNat]
  | succ n ih =>
    unfold QM.Builtins.popcountNat QM.Dict.popcountNat
    split
    · rfl
    · rw [ih (by omega)]

/-- `[1, f] %int.shift` for a slot number -/
theorem integerShift_left_tie {f : Nat} (hf : f < 63) :
    integerShift 1 (f : Int) = .ok ((1 <<< f : Nat) : Int) := by
  unfold integerShift two64
  have h1 : toI64 (1 : Int) = .ok (BitVec.ofNat 64 1) := toI64_nat (a := 1) (by omega)
  have h2 : toI64 (f : Int) = .ok (BitVec.ofNat 64 f) := toI64_nat (by omega)
  rw [h1, h2]
  simp only
  by_cases h0 : f = 0
  · subst h0; simp
  · have hne : ¬ ((f : Int) = 0) := by omega
    have hpos : (f : Int) > 0 := by omega
    have hlt : ¬ (f ≥ 64) := by omega
    simp only [hne, if_false, hlt, hpos, if_true, Int.natAbs_natCast]
    congr 1
    have h3 : 1 <<< f < 2 ^ 63 := by
      rw [Nat.one_shiftLeft]; exact Nat.pow_lt_pow_right (by omega) hf
    rw [← toInt_ofNat_small h3]
    congr 1

/-- `[0, shift] %num.sub ~> [hash, ~] %int.shift`: right shift of a non-negative value -/
theorem integerShift_right_tie {h s : Nat} (hh : h < 2 ^ 63) (hs : s < 2 ^ 63) :
    integerShift h (0 - (s : Int)) = .ok ((h >>> s : Nat) : Int) := by
  unfold integerShift two64
  have h1 : toI64 (h : Int) = .ok (BitVec.ofNat 64 h) := toI64_nat hh
  have h2 : toI64 (0 - (s : Int)) = .ok (BitVec.ofInt 64 (0 - (s : Int))) := by
    unfold toI64
    have : FitsI64 (0 - (s : Int)) := by unfold FitsI64; omega
    rw [if_pos this]
  rw [h1, h2]
  simp only
  by_cases h0 : s = 0
  · subst h0; simp [toInt_ofNat_small hh]
  · have hne : ¬ (0 - (s : Int) = 0) := by omega
    have hneg : ¬ (0 - (s : Int) > 0) := by omega
    have habs : (0 - (s : Int)).natAbs = s := by omega
    simp only [hne, if_false, habs, hneg]
    by_cases h64 : s ≥ 64
    · simp only [h64, if_true, toInt_ofNat_small hh]
      have : h >>> s = 0 := by
        rw [Nat.shiftRight_eq_div_pow]
        apply Nat.div_eq_of_lt
        exact Nat.lt_of_lt_of_le hh (Nat.pow_le_pow_right (by omega) (by omega))
      simp [this]
    · simp only [h64, if_false]
      congr 1
      have h3 : h >>> s < 2 ^ 63 := Nat.lt_of_le_of_lt (Nat.shiftRight_le _ _) hh
      rw [← toInt_ofNat_small h3]
      congr 1
      have hmsb : (BitVec.ofNat 64 h).msb = false := by
        rw [BitVec.msb_eq_false_iff_two_mul_lt]; simp; omega
      rw [BitVec.sshiftRight_eq_of_msb_false hmsb]
      apply BitVec.eq_of_toNat_eq
      simp [Nat.mod_eq_of_lt (show h < 2 ^ 64 by omega), Nat.mod_eq_of_lt (show h >>> s < 2 ^ 64 by omega)]

/-- `[bitmap, bit %int.not] %int.and`: clearing a bit through the 64-bit complement -/
theorem integerNot_and_tie {a b : Nat} (ha : a < 2 ^ 63) (hb : b < 2 ^ 63) :
    (integerNot b).bind (fun nb => integerAnd a nb) = .ok ((andNot a b : Nat) : Int) := by
  unfold integerNot
  rw [toI64_nat hb]
  simp only [Outcome.map, Outcome.bind]
  unfold integerAnd two64
  rw [toI64_nat ha]
  have hfit : FitsI64 ((~~~ BitVec.ofNat 64 b).toInt) := by
    unfold FitsI64
    have := BitVec.toInt_lt (x := ~~~ BitVec.ofNat 64 b)
    have := BitVec.le_toInt (x := ~~~ BitVec.ofNat 64 b)
    omega
  simp only [toI64, hfit, if_true, Outcome.map, Outcome.bind, BitVec.ofInt_toInt]
  congr 1
  have h1 : andNot a b < 2 ^ 63 := Nat.lt_of_le_of_lt Nat.and_le_left ha
  rw [← toInt_ofNat_small h1]
  congr 1
  apply BitVec.eq_of_toNat_eq
  simp only [BitVec.toNat_and, BitVec.toNat_not, BitVec.toNat_ofNat, andNot]
  rw [Nat.mod_eq_of_lt (show a < 2 ^ 64 by omega), Nat.mod_eq_of_lt (show b < 2 ^ 64 by omega)]
  have h2 : a &&& (18446744073709551615 - b) < 2 ^ 64 :=
    Nat.lt_of_le_of_lt Nat.and_le_left (by omega)
  rw [Nat.mod_eq_of_lt h2]

/-- `fragment`, as the source computes it with the builtins:
`[0, shift] %num.sub ~> [hash, ~] %int.shift ~> [~, 31] %int.and` -/
theorem fragment_tie {h s : Nat} (hh : h < 2 ^ 63) (hs : s < 2 ^ 63) :
    ((integerSubtract 0 (s : Int)).bind fun ns => (integerShift h ns).bind fun x => integerAnd x 31) =
      .ok ((fragment h s : Nat) : Int) := by
  simp only [integerSubtract, Outcome.bind]
  rw [integerShift_right_tie hh hs]
  simp only [Outcome.bind]
  have h3 : h >>> s < 2 ^ 63 := Nat.lt_of_le_of_lt (Nat.shiftRight_le _ _) hh
  exact integerAnd_tie (b := 31) h3 (by omega)

/-- `slot_index`, as the source computes it: `[bit, 1] %num.sub ~> [bitmap, ~] %int.and ~> %int.popcount` -/
theorem slotIndex_tie {bitmap bit : Nat} (hb : bitmap < 2 ^ 63) (hbit : bit < 2 ^ 63) (h1 : 1 ≤ bit) :
    ((integerSubtract (bit : Int) 1).bind fun m => (integerAnd bitmap m).bind integerPopcount) =
      .ok ((slotIndex bitmap bit : Nat) : Int) := by
  simp only [integerSubtract, Outcome.bind]
  have : (bit : Int) - 1 = ((bit - 1 : Nat) : Int) := by omega
  rw [this, integerAnd_tie hb (by omega)]
  simp only
  exact integerPopcount_tie (Nat.lt_of_le_of_lt Nat.and_le_left hb)

/-- `__binary_hash32__`: the hash of M-Dict's production instance is C12's model of the builtin -/
theorem fnv1a32_tie (v : List UInt8) :
    QM.Builtins.fnv1a32 QM.Builtins.fnv32Offset QM.Builtins.fnv32Prime v = QM.Dict.fnv1a32 v := rfl

theorem fnv1a32_lt (v : List UInt8) : QM.Dict.fnv1a32 v < 2 ^ 32 := by
  unfold QM.Dict.fnv1a32
  have : ∀ (l : List UInt8) (init : Nat), init < 2 ^ 32 →
      l.foldl (fun h b => ((h ^^^ b.toNat) * 16777619) % 4294967296) init < 2 ^ 32 := by
    intro l
    induction l with
    | nil => intro init h; simpa using h
    | cons b t ih => intro init _; simp only [List.foldl_cons]; exact ih _ (by omega)
  exact this v _ (by omega)

/-- the production hash satisfies the hypothesis of the `C19.*` theorems -/
theorem keyHash_lt (k : Key) : keyHash k < 2 ^ 32 := fnv1a32_lt _

end QM.Dict
