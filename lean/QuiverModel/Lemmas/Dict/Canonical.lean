import QuiverModel.Lemmas.Dict.Entries
/-
Canonical shape: a well-formed trie is determined by its contents (up to the order of entries
inside collision buckets) — the claim in the comment above `collapse_node` in std/dict.qv.
-/
namespace QM.Dict

variable {K V : Type}

/-- equal up to the order of entries inside collision buckets -/
inductive Similar : Dict K V → Dict K V → Prop
  | empty : Similar .empty .empty
  | leaf {h k v} : Similar (.leaf h k v) (.leaf h k v)
  | collision {h es es'} : es.Perm es' → Similar (.collision h es) (.collision h es')
  | node {b cs cs'} : cs.length = cs'.length →
      (∀ i (h1 : i < cs.length) (h2 : i < cs'.length), Similar cs[i] cs'[i]) →
      Similar (.node b cs) (.node b cs')

theorem nodup_of_nodup_map {α β : Type} {f : α → β} {l : List α} (h : (l.map f).Nodup) : l.Nodup :=
  List.Pairwise.of_map f (fun _ _ hab heq => hab (congrArg f heq)) h

variable {hash : K → Nat}

theorem WF.toList_ne_nil {d : Dict K V} {s p : Nat} (h : WF hash d s p) : toList d ≠ [] := by
  induction h with
  | leaf => simp
  | collision _ _ h3 _ => intro h; rw [toList_collision] at h; subst h; simp at h3
  | @node s p b cs hb hs hp hl hc _ hne ih =>
    match cs, hne, hl, ih with
    | c :: cs', _, hl, ih =>
      have hpos : 0 < (slots b).length := by rw [← hl]; simp
      have hz : ((slots b)[0], c) ∈ (slots b).zip (c :: cs') :=
        zip_mem_of_getElem? (List.getElem?_eq_getElem hpos) (by simp)
      have := ih _ _ hz
      rw [toList_node]
      simp only [List.flatMap_cons]
      intro h
      exact this (List.append_eq_nil_iff.mp h).1

/-- the contents of the child in slot `g` are the contents of the node routed to `g` -/
theorem mem_child_iff {b : Nat} {cs : List (Dict K V)} {s p : Nat} (h : WF hash (.node b cs) s p)
    {g : Nat} {c : Dict K V} (hg : (g, c) ∈ (slots b).zip cs) (e : K × V) :
    e ∈ toList c ↔ e ∈ toList (Dict.node b cs) ∧ fragment (hash e.1) s = g := by
  cases h with
  | node hb hs hp hl hc hsingle hne =>
    have hwf : WF hash (Dict.node b cs) s p := WF.node hb hs hp hl hc hsingle hne
    constructor
    · intro he
      have hm : e ∈ toList (Dict.node b cs) := mem_toList_node.mpr ⟨c, (List.of_mem_zip hg).2, he⟩
      exact ⟨hm, fragment_of_prefix (hwf.prefix_of_mem e hm) ((hc g c hg).prefix_of_mem e he)⟩
    · rintro ⟨hm, hf⟩
      obtain ⟨g', c', hg', he'⟩ := (mem_node_zip hl).mp hm
      have := fragment_of_prefix (hwf.prefix_of_mem e hm) ((hc g' c' hg').prefix_of_mem e he')
      rw [hf] at this
      subst this
      rw [zip_functional (slots_nodup b) hg hg']
      exact he'

/-- a node holds two keys with different hashes -/
theorem WF.two_hashes {d : Dict K V} {s p : Nat} (h : WF hash d s p) (hn : isNode d) :
    ∃ e1 ∈ toList d, ∃ e2 ∈ toList d, hash e1.1 ≠ hash e2.1 := by
  induction h with
  | leaf => exact absurd hn (by simp [isNode])
  | collision => exact absurd hn (by simp [isNode])
  | @node s p b cs hb hs hp hl hc hsingle hne ih =>
    match cs, hne, hl, hc, hsingle, ih with
    | [c], _, hl, hc, hsingle, ih =>
      have hpos : 0 < (slots b).length := by rw [← hl]; simp
      have hz : ((slots b)[0], c) ∈ (slots b).zip [c] :=
        zip_mem_of_getElem? (List.getElem?_eq_getElem hpos) (by simp)
      obtain ⟨e1, h1, e2, h2, hne⟩ := ih _ _ hz (isNode_iff.mpr (hsingle c rfl))
      exact ⟨e1, mem_toList_node.mpr ⟨c, by simp, h1⟩, e2, mem_toList_node.mpr ⟨c, by simp, h2⟩, hne⟩
    | c1 :: c2 :: rest, _, hl, hc, _, _ =>
      have hlen : 2 ≤ (slots b).length := by rw [← hl]; simp
      have hz1 : ((slots b)[0], c1) ∈ (slots b).zip (c1 :: c2 :: rest) :=
        zip_mem_of_getElem? (List.getElem?_eq_getElem (by omega)) (by simp)
      have hz2 : ((slots b)[1], c2) ∈ (slots b).zip (c1 :: c2 :: rest) :=
        zip_mem_of_getElem? (List.getElem?_eq_getElem (by omega)) (by simp)
      obtain ⟨e1, h1⟩ := List.exists_mem_of_ne_nil _ (hc _ _ hz1).toList_ne_nil
      obtain ⟨e2, h2⟩ := List.exists_mem_of_ne_nil _ (hc _ _ hz2).toList_ne_nil
      refine ⟨e1, mem_toList_node.mpr ⟨c1, by simp, h1⟩, e2, mem_toList_node.mpr ⟨c2, by simp, h2⟩, ?_⟩
      intro heq
      have p1 := (hc _ _ hz1).prefix_of_mem e1 h1
      have p2 := (hc _ _ hz2).prefix_of_mem e2 h2
      rw [heq, p2] at p1
      have h3 : (slots b)[1] * 2 ^ s = (slots b)[0] * 2 ^ s := by omega
      have h4 := Nat.eq_of_mul_eq_mul_right (Nat.two_pow_pos s) h3
      have := (List.getElem_inj (h₀ := (by omega : 1 < (slots b).length))
        (h₁ := (by omega : 0 < (slots b).length)) (slots_nodup b)).mp h4
      simp at this

theorem leaf_vs_collision {h k v h' es s p} (h2 : WF hash (Dict.collision h' es : Dict K V) s p)
    (hc : ∀ e, e ∈ toList (Dict.leaf h k v : Dict K V) ↔ e ∈ toList (Dict.collision h' es)) : False := by
  cases h2 with
  | collision _ _ h3 h4 =>
    match es, h3, h4, hc with
    | e1 :: e2 :: rest, _, h4, hc =>
      have a1 := (hc e1).mpr (by simp)
      have a2 := (hc e2).mpr (by simp)
      simp at a1 a2
      subst a1 a2
      simp at h4

theorem leaf_or_collision_vs_node {d d' : Dict K V} {s p : Nat} (hd : ¬ isNode d)
    (h1 : WF hash d s p) (h2 : WF hash d' s p) (hn : isNode d')
    (hc : ∀ e, e ∈ toList d ↔ e ∈ toList d') : False := by
  obtain ⟨e1, m1, e2, m2, hne⟩ := h2.two_hashes hn
  rw [← hc] at m1 m2
  cases h1 with
  | leaf => simp at m1 m2; subst m1 m2; exact hne rfl
  | collision hh => simp at m1 m2; exact hne ((hh e1 m1).trans (hh e2 m2).symm)
  | node => exact hd trivial

/-- **canonical shape**: two well-formed tries (at the same level and prefix) with the same contents
are the same tree, up to the order of entries inside collision buckets. -/
theorem canonical {d₁ : Dict K V} {s p : Nat} (h₁ : WF hash d₁ s p) :
    ∀ {d₂ : Dict K V}, WF hash d₂ s p → (∀ e, e ∈ toList d₁ ↔ e ∈ toList d₂) → Similar d₁ d₂ := by
  induction h₁ with
  | @leaf s p h k v a1 a2 =>
    intro d₂ h₂ hc
    cases h₂ with
    | leaf b1 b2 =>
      have := (hc (k, v)).mp (by simp)
      simp at this
      obtain ⟨rfl, rfl⟩ := this
      subst a1 b1
      exact Similar.leaf
    | collision b1 b2 b3 b4 => exact (leaf_vs_collision (WF.collision b1 b2 b3 b4) hc).elim
    | node b1 b2 b3 b4 b5 b6 b7 =>
      exact (leaf_or_collision_vs_node (by simp [isNode]) (WF.leaf a1 a2)
        (WF.node b1 b2 b3 b4 b5 b6 b7) trivial hc).elim
  | @collision s p h es a1 a2 a3 a4 =>
    intro d₂ h₂ hc
    cases h₂ with
    | leaf b1 b2 =>
      exact (leaf_vs_collision (WF.collision a1 a2 a3 a4) (fun e => (hc e).symm)).elim
    | @collision _ _ h' es' b1 b2 b3 b4 =>
      simp only [toList_collision] at hc
      have hh : h = h' := by
        match es, a3, a1, hc with
        | e :: _, _, a1, hc => rw [← a1 e (by simp), b1 e ((hc e).mp (by simp))]
      subst hh
      exact Similar.collision ((List.perm_ext_iff_of_nodup (nodup_of_nodup_map a4)
        (nodup_of_nodup_map b4)).mpr hc)
    | node b1 b2 b3 b4 b5 b6 b7 =>
      exact (leaf_or_collision_vs_node (by simp [isNode]) (WF.collision a1 a2 a3 a4)
        (WF.node b1 b2 b3 b4 b5 b6 b7) trivial hc).elim
  | @node s p b cs a1 a2 a3 a4 a5 a6 a7 ih =>
    intro d₂ h₂ hc
    have hw1 : WF hash (Dict.node b cs) s p := WF.node a1 a2 a3 a4 a5 a6 a7
    cases h₂ with
    | leaf b1 b2 =>
      exact (leaf_or_collision_vs_node (by simp [isNode]) (WF.leaf b1 b2) hw1 trivial
        (fun e => (hc e).symm)).elim
    | collision b1 b2 b3 b4 =>
      exact (leaf_or_collision_vs_node (by simp [isNode]) (WF.collision b1 b2 b3 b4) hw1 trivial
        (fun e => (hc e).symm)).elim
    | @node _ _ b' cs' b1 b2 b3 b4 b5 b6 b7 =>
      have hw2 : WF hash (Dict.node b' cs') s p := WF.node b1 b2 b3 b4 b5 b6 b7
      -- a slot is occupied iff some stored key is routed to it
      have occ : ∀ {b : Nat} {cs : List (Dict K V)}, WF hash (Dict.node b cs) s p → ∀ i,
          i ∈ slots b ↔ ∃ e ∈ toList (Dict.node b cs), fragment (hash e.1) s = i := by
        intro b cs hw i
        cases hw with
        | node c1 c2 c3 c4 c5 c6 c7 =>
          have hw : WF hash (Dict.node b cs) s p := WF.node c1 c2 c3 c4 c5 c6 c7
          constructor
          · intro hi
            obtain ⟨j, hj, rfl⟩ := List.mem_iff_getElem.mp hi
            have hz : ((slots b)[j], cs[j]'(by omega)) ∈ (slots b).zip cs :=
              zip_mem_of_getElem? (List.getElem?_eq_getElem hj) (List.getElem?_eq_getElem (by omega))
            obtain ⟨e, he⟩ := List.exists_mem_of_ne_nil _ (c5 _ _ hz).toList_ne_nil
            exact ⟨e, ((mem_child_iff hw hz e).mp he).1, ((mem_child_iff hw hz e).mp he).2⟩
          · rintro ⟨e, he, hf⟩
            obtain ⟨g, c, hg, hec⟩ := (mem_node_zip c4).mp he
            have := ((mem_child_iff hw hg e).mp hec).2
            rw [hf] at this; subst this
            exact (List.of_mem_zip hg).1
      have hbb : b = b' := by
        apply Nat.eq_of_testBit_eq
        intro i
        by_cases hi : i < 32
        · have e1 := occ hw1 i
          have e2 := occ hw2 i
          have : i ∈ slots b ↔ i ∈ slots b' := by
            rw [e1, e2]
            constructor
            · rintro ⟨e, he, hf⟩; exact ⟨e, (hc e).mp he, hf⟩
            · rintro ⟨e, he, hf⟩; exact ⟨e, (hc e).mpr he, hf⟩
          simp only [mem_slots, hi, true_and] at this
          cases h1 : b.testBit i <;> cases h2 : b'.testBit i <;> simp_all
        · have hp : (2:Nat) ^ 32 ≤ 2 ^ i := Nat.pow_le_pow_right (by omega) (by omega)
          rw [Nat.testBit_lt_two_pow (by omega), Nat.testBit_lt_two_pow (by omega)]
      subst hbb
      refine Similar.node (by rw [a4, b4]) ?_
      intro i hi1 hi2
      have hs : i < (slots b).length := by omega
      have hz1 : ((slots b)[i], cs[i]) ∈ (slots b).zip cs :=
        zip_mem_of_getElem? (List.getElem?_eq_getElem hs) (List.getElem?_eq_getElem hi1)
      have hz2 : ((slots b)[i], cs'[i]) ∈ (slots b).zip cs' :=
        zip_mem_of_getElem? (List.getElem?_eq_getElem hs) (List.getElem?_eq_getElem hi2)
      apply ih _ _ hz1 (b5 _ _ hz2)
      intro e
      rw [mem_child_iff hw1 hz1, mem_child_iff hw2 hz2, hc]

end QM.Dict
