import QuiverModel.Core.Dict
/-
The source's tail-recursive list helpers are the standard list operations; association-list facts
about `zip slots children`; collision-bucket operations as plain list functions. Core Lean only.
-/
namespace QM.Dict

variable {α β : Type}

theorem revcat_eq (a b : List α) : revcat a b = a.reverse ++ b := by
  induction a generalizing b with
  | nil => simp [revcat]
  | cons h t ih => simp [revcat, ih]

theorem length_eq (l : List α) (n : Nat) : length l n = l.length + n := by
  induction l generalizing n with
  | nil => simp [length]
  | cons h t ih => simp [length, ih]; omega

theorem map_eq (l : List α) (f : α → β) (acc : List β) : map l f acc = acc.reverse ++ l.map f := by
  induction l generalizing acc with
  | nil => simp [map, revcat_eq]
  | cons h t ih => simp [map, ih]

theorem childAt_eq {K V : Type} (cs : List (Dict K V)) (i : Nat) : childAt cs i = cs[i]?.getD .empty := by
  induction cs generalizing i with
  | nil => simp [childAt]
  | cons h t ih =>
    unfold childAt
    cases i with
    | zero => simp
    | succ i => simp [ih]

theorem insertAt_eq (l : List α) (i : Nat) (x : α) (acc : List α) (h : i ≤ l.length) :
    insertAt l i x acc = acc.reverse ++ l.insertIdx i x := by
  induction l generalizing i acc with
  | nil =>
    have : i = 0 := by simpa using h
    subst this; simp [insertAt, revcat_eq]
  | cons a t ih =>
    unfold insertAt
    cases i with
    | zero => simp [revcat_eq]
    | succ i =>
      simp only [Nat.add_one_ne_zero, if_false, Nat.add_sub_cancel]
      rw [ih i (a :: acc) (by simpa using h)]
      simp [List.insertIdx_succ_cons]

theorem updateAt_eq (l : List α) (i : Nat) (x : α) (acc : List α) :
    updateAt l i x acc = acc.reverse ++ l.set i x := by
  induction l generalizing i acc with
  | nil => simp [updateAt, revcat_eq]
  | cons a t ih =>
    unfold updateAt
    cases i with
    | zero => simp [revcat_eq]
    | succ i => simp [ih]

theorem removeAt_eq (l : List α) (i : Nat) (acc : List α) :
    removeAt l i acc = acc.reverse ++ l.eraseIdx i := by
  induction l generalizing i acc with
  | nil => simp [removeAt, revcat_eq]
  | cons a t ih =>
    unfold removeAt
    cases i with
    | zero => simp [revcat_eq]
    | succ i => simp [ih]

/-! ### association lists `zip l cs` with distinct first components -/

theorem zip_mem_of_getElem? {l : List α} {cs : List β} {i : Nat} {f : α} {c : β}
    (h1 : l[i]? = some f) (h2 : cs[i]? = some c) : (f, c) ∈ l.zip cs := by
  rw [List.mem_iff_getElem?]
  exact ⟨i, by simp [List.getElem?_zip_eq_some, h1, h2]⟩

theorem zip_functional {l : List α} {cs : List β} {f : α} {c c' : β} (hn : l.Nodup)
    (h1 : (f, c) ∈ l.zip cs) (h2 : (f, c') ∈ l.zip cs) : c = c' := by
  induction l generalizing cs with
  | nil => simp at h1
  | cons a t ih =>
    cases cs with
    | nil => simp at h1
    | cons b cs =>
      simp only [List.zip_cons_cons, List.mem_cons, Prod.mk.injEq] at h1 h2
      have hnt := (List.nodup_cons.mp hn)
      rcases h1 with ⟨rfl, rfl⟩ | h1 <;> rcases h2 with ⟨h2a, rfl⟩ | h2
      · rfl
      · exact absurd (List.of_mem_zip h2).1 hnt.1
      · subst h2a; exact absurd (List.of_mem_zip h1).1 hnt.1
      · exact ih hnt.2 h1 h2

theorem exists_zip_of_mem {l : List α} {cs : List β} (hl : l.length = cs.length) {c : β}
    (hc : c ∈ cs) : ∃ f, (f, c) ∈ l.zip cs := by
  obtain ⟨i, hi, rfl⟩ := List.mem_iff_getElem.mp hc
  exact ⟨l[i]'(by omega), zip_mem_of_getElem? (List.getElem?_eq_getElem (by omega)) (List.getElem?_eq_getElem hi)⟩

theorem zip_insertIdx {l : List α} {cs : List β} (hl : l.length = cs.length) {i : Nat}
    (f : α) (x : β) :
    (l.insertIdx i f).zip (cs.insertIdx i x) = (l.zip cs).insertIdx i (f, x) := by
  induction l generalizing cs i with
  | nil =>
    cases cs with
    | nil => cases i <;> simp
    | cons b cs => simp at hl
  | cons a t ih =>
    cases cs with
    | nil => simp at hl
    | cons b cs =>
      cases i with
      | zero => simp
      | succ i =>
        simp only [List.insertIdx_succ_cons, List.zip_cons_cons]
        rw [ih (by simpa using hl)]

theorem mem_zip_insertIdx {l : List α} {cs : List β} (hl : l.length = cs.length) {i : Nat}
    (hi : i ≤ l.length) (f g : α) (x c : β) :
    (g, c) ∈ (l.insertIdx i f).zip (cs.insertIdx i x) ↔ (g = f ∧ c = x) ∨ (g, c) ∈ l.zip cs := by
  rw [zip_insertIdx hl, List.mem_insertIdx (by simp [List.length_zip, ← hl]; exact hi)]
  simp

theorem mem_zip_set {l : List α} {cs : List β} (hn : l.Nodup) (hl : l.length = cs.length) {i : Nat}
    {f : α} (hf : l[i]? = some f) (g : α) (x c : β) :
    (g, c) ∈ l.zip (cs.set i x) ↔ (g = f ∧ c = x) ∨ (g ≠ f ∧ (g, c) ∈ l.zip cs) := by
  induction l generalizing cs i with
  | nil => simp at hf
  | cons a t ih =>
    cases cs with
    | nil => simp at hl
    | cons b cs =>
      have hnt := List.nodup_cons.mp hn
      cases i with
      | zero =>
        simp only [List.getElem?_cons_zero, Option.some.injEq] at hf
        subst hf
        simp only [List.set_cons_zero, List.zip_cons_cons, List.mem_cons, Prod.mk.injEq]
        constructor
        · rintro (⟨rfl, rfl⟩ | h)
          · exact Or.inl ⟨rfl, rfl⟩
          · refine Or.inr ⟨?_, Or.inr h⟩
            rintro rfl; exact hnt.1 (List.of_mem_zip h).1
        · rintro (⟨rfl, rfl⟩ | ⟨hne, (⟨rfl, _⟩ | h)⟩)
          · exact Or.inl ⟨rfl, rfl⟩
          · exact absurd rfl hne
          · exact Or.inr h
      | succ i =>
        simp only [List.getElem?_cons_succ] at hf
        have hft : f ∈ t := List.mem_of_getElem? hf
        simp only [List.set_cons_succ, List.zip_cons_cons, List.mem_cons, Prod.mk.injEq]
        rw [ih hnt.2 (by simpa using hl) hf]
        constructor
        · rintro (⟨rfl, rfl⟩ | h | h)
          · refine Or.inr ⟨?_, Or.inl ⟨rfl, rfl⟩⟩
            rintro rfl; exact hnt.1 hft
          · exact Or.inl h
          · exact Or.inr ⟨h.1, Or.inr h.2⟩
        · rintro (h | ⟨hne, (h | h)⟩)
          · exact Or.inr (Or.inl h)
          · exact Or.inl h
          · exact Or.inr (Or.inr ⟨hne, h⟩)

theorem mem_zip_eraseIdx {l : List α} {cs : List β} (hn : l.Nodup) (hl : l.length = cs.length)
    {i : Nat} {f : α} (hf : l[i]? = some f) (g : α) (c : β) :
    (g, c) ∈ (l.eraseIdx i).zip (cs.eraseIdx i) ↔ g ≠ f ∧ (g, c) ∈ l.zip cs := by
  induction l generalizing cs i with
  | nil => simp at hf
  | cons a t ih =>
    cases cs with
    | nil => simp at hl
    | cons b cs =>
      have hnt := List.nodup_cons.mp hn
      cases i with
      | zero =>
        simp only [List.getElem?_cons_zero, Option.some.injEq] at hf
        subst hf
        simp only [List.eraseIdx_cons_zero, List.zip_cons_cons, List.mem_cons, Prod.mk.injEq]
        constructor
        · intro h
          refine ⟨?_, Or.inr h⟩
          rintro rfl; exact hnt.1 (List.of_mem_zip h).1
        · rintro ⟨hne, (⟨rfl, _⟩ | h)⟩
          · exact absurd rfl hne
          · exact h
      | succ i =>
        simp only [List.getElem?_cons_succ] at hf
        have hft : f ∈ t := List.mem_of_getElem? hf
        simp only [List.eraseIdx_cons_succ, List.zip_cons_cons, List.mem_cons, Prod.mk.injEq]
        rw [ih hnt.2 (by simpa using hl) hf]
        constructor
        · rintro (⟨rfl, rfl⟩ | h)
          · refine ⟨?_, Or.inl ⟨rfl, rfl⟩⟩
            rintro rfl; exact hnt.1 hft
          · exact ⟨h.1, Or.inr h.2⟩
        · rintro ⟨hne, (h | h)⟩
          · exact Or.inl h
          · exact Or.inr ⟨hne, h⟩

/-! ### collision buckets -/

variable {K V : Type} [DecidableEq K]

/-- `bucket_put` without the accumulator -/
def bput : List (K × V) → K → V → List (K × V)
  | [], k, v => [(k, v)]
  | (k', v') :: t, k, v => if k' = k then (k, v) :: t else (k', v') :: bput t k v

/-- `bucket_remove` without the accumulator -/
def brem : List (K × V) → K → List (K × V)
  | [], _ => []
  | (k', v') :: t, k => if k' = k then t else (k', v') :: brem t k

theorem bucketPut_eq (es : List (K × V)) (k : K) (v : V) (acc : List (K × V)) :
    bucketPut es k v acc = acc.reverse ++ bput es k v := by
  induction es generalizing acc with
  | nil => simp [bucketPut, bput, revcat_eq]
  | cons e t ih =>
    obtain ⟨k', v'⟩ := e
    unfold bucketPut bput
    split
    · simp [revcat_eq]
    · simp [ih]

theorem bucketRemove_eq (es : List (K × V)) (k : K) (acc : List (K × V)) :
    bucketRemove es k acc = acc.reverse ++ brem es k := by
  induction es generalizing acc with
  | nil => simp [bucketRemove, brem, revcat_eq]
  | cons e t ih =>
    obtain ⟨k', v'⟩ := e
    unfold bucketRemove brem
    split
    · simp [revcat_eq]
    · simp [ih]

theorem mem_bput {es : List (K × V)} (hn : (es.map (·.1)).Nodup) (k : K) (v : V) (a : K) (b : V) :
    (a, b) ∈ bput es k v ↔ (a = k ∧ b = v) ∨ (a ≠ k ∧ (a, b) ∈ es) := by
  induction es with
  | nil => simp [bput]
  | cons e t ih =>
    obtain ⟨k', v'⟩ := e
    simp only [List.map_cons, List.nodup_cons, List.mem_map, Prod.exists, exists_and_right,
      exists_eq_right, not_exists] at hn
    unfold bput
    split
    · rename_i hk; subst hk
      simp only [List.mem_cons, Prod.mk.injEq]
      constructor
      · rintro (h | h)
        · exact Or.inl h
        · refine Or.inr ⟨?_, Or.inr h⟩
          rintro rfl; exact hn.1 _ h
      · rintro (h | ⟨hne, (⟨rfl, _⟩ | h)⟩)
        · exact Or.inl h
        · exact absurd rfl hne
        · exact Or.inr h
    · rename_i hk
      simp only [List.mem_cons, Prod.mk.injEq]
      rw [ih hn.2]
      constructor
      · rintro (⟨rfl, rfl⟩ | h | h)
        · exact Or.inr ⟨hk, Or.inl ⟨rfl, rfl⟩⟩
        · exact Or.inl h
        · exact Or.inr ⟨h.1, Or.inr h.2⟩
      · rintro (h | ⟨hne, (h | h)⟩)
        · exact Or.inr (Or.inl h)
        · exact Or.inl h
        · exact Or.inr (Or.inr ⟨hne, h⟩)

theorem keys_bput (es : List (K × V)) (k : K) (v : V) (a : K) :
    a ∈ (bput es k v).map (·.1) ↔ a = k ∨ a ∈ es.map (·.1) := by
  induction es with
  | nil => simp [bput]
  | cons e t ih =>
    obtain ⟨k', v'⟩ := e
    unfold bput
    split
    · rename_i hk; subst hk; simp
    · simp only [List.map_cons, List.mem_cons, ih]
      constructor
      · rintro (h | h | h) <;> simp [h]
      · rintro (h | h | h) <;> simp [h]

theorem nodup_bput {es : List (K × V)} (hn : (es.map (·.1)).Nodup) (k : K) (v : V) :
    ((bput es k v).map (·.1)).Nodup := by
  induction es with
  | nil => simp [bput]
  | cons e t ih =>
    obtain ⟨k', v'⟩ := e
    simp only [List.map_cons, List.nodup_cons] at hn
    unfold bput
    split
    · rename_i hk; subst hk; simpa using hn
    · rename_i hk
      simp only [List.map_cons, List.nodup_cons]
      refine ⟨?_, ih hn.2⟩
      rw [keys_bput]
      rintro (h | h)
      · exact hk h
      · exact hn.1 h

theorem length_bput (es : List (K × V)) (k : K) (v : V) :
    es.length ≤ (bput es k v).length ∧ 1 ≤ (bput es k v).length := by
  induction es with
  | nil => simp [bput]
  | cons e t ih =>
    obtain ⟨k', v'⟩ := e
    unfold bput
    split <;> simp <;> omega

theorem mem_brem {es : List (K × V)} (hn : (es.map (·.1)).Nodup) (k : K) (a : K) (b : V) :
    (a, b) ∈ brem es k ↔ a ≠ k ∧ (a, b) ∈ es := by
  induction es with
  | nil => simp [brem]
  | cons e t ih =>
    obtain ⟨k', v'⟩ := e
    simp only [List.map_cons, List.nodup_cons, List.mem_map, Prod.exists, exists_and_right,
      exists_eq_right, not_exists] at hn
    unfold brem
    split
    · rename_i hk; subst hk
      simp only [List.mem_cons, Prod.mk.injEq]
      constructor
      · intro h
        refine ⟨?_, Or.inr h⟩
        rintro rfl; exact hn.1 _ h
      · rintro ⟨hne, (⟨rfl, _⟩ | h)⟩
        · exact absurd rfl hne
        · exact h
    · rename_i hk
      simp only [List.mem_cons, Prod.mk.injEq]
      rw [ih hn.2]
      constructor
      · rintro (⟨rfl, rfl⟩ | h)
        · exact ⟨hk, Or.inl ⟨rfl, rfl⟩⟩
        · exact ⟨h.1, Or.inr h.2⟩
      · rintro ⟨hne, (h | h)⟩
        · exact Or.inl h
        · exact Or.inr ⟨hne, h⟩

theorem brem_sublist (es : List (K × V)) (k : K) : (brem es k).Sublist es := by
  induction es with
  | nil => simp [brem]
  | cons e t ih =>
    obtain ⟨k', v'⟩ := e
    unfold brem
    split
    · exact List.sublist_cons_self _ _
    · exact List.Sublist.cons_cons _ ih

theorem nodup_brem {es : List (K × V)} (hn : (es.map (·.1)).Nodup) (k : K) :
    ((brem es k).map (·.1)).Nodup :=
  List.Nodup.sublist ((brem_sublist es k).map _) hn

theorem bucketGet_eq_some {es : List (K × V)} (hn : (es.map (·.1)).Nodup) (k : K) (v : V) :
    bucketGet es k = some v ↔ (k, v) ∈ es := by
  induction es with
  | nil => simp [bucketGet]
  | cons e t ih =>
    obtain ⟨k', v'⟩ := e
    simp only [List.map_cons, List.nodup_cons, List.mem_map, Prod.exists, exists_and_right,
      exists_eq_right, not_exists] at hn
    unfold bucketGet
    split
    · rename_i hk; subst hk
      simp only [Option.some.injEq, List.mem_cons, Prod.mk.injEq, true_and]
      constructor
      · intro h; exact Or.inl h.symm
      · rintro (h | h)
        · exact h.symm
        · exact absurd h (hn.1 _)
    · rename_i hk
      rw [ih hn.2]
      simp only [List.mem_cons, Prod.mk.injEq]
      constructor
      · intro h; exact Or.inr h
      · rintro (⟨rfl, _⟩ | h)
        · exact absurd rfl hk
        · exact h

end QM.Dict
