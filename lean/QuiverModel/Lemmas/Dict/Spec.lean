import QuiverModel.Lemmas.Dict.Bits
import QuiverModel.Lemmas.Dict.Lists
/-
Specification side of M-Dict: the contents of a trie (`toList`, independent of any hash function),
the abstraction `toMap`, the invariant `WF`, and the refinement lemmas for `get`, `put`, `remove`
at an arbitrary level `(shift, prefix)` of the trie — for every key type and every hash function.
-/
namespace QM.Dict

variable {K V : Type}

/-! ### contents and abstraction -/

mutual
/-- every `[key, value]` stored in the trie, left to right (no hash function involved) -/
def toList : Dict K V → List (K × V)
  | .empty => []
  | .leaf _ k v => [(k, v)]
  | .collision _ es => es
  | .node _ cs => toListL cs
def toListL : List (Dict K V) → List (K × V)
  | [] => []
  | c :: cs => toList c ++ toListL cs
end

theorem toListL_eq (cs : List (Dict K V)) : toListL cs = cs.flatMap toList := by
  induction cs with
  | nil => simp [toListL]
  | cons c cs ih => simp [toListL, ih]

@[simp] theorem toList_empty : toList (Dict.empty : Dict K V) = [] := by simp [toList]
@[simp] theorem toList_leaf (h : Nat) (k : K) (v : V) : toList (Dict.leaf h k v) = [(k, v)] := by
  simp [toList]
@[simp] theorem toList_collision (h : Nat) (es : List (K × V)) : toList (Dict.collision h es) = es := by
  simp [toList]
theorem toList_node (b : Nat) (cs : List (Dict K V)) : toList (Dict.node b cs) = cs.flatMap toList := by
  simp [toList, toListL_eq]

theorem mem_toList_node {b : Nat} {cs : List (Dict K V)} {e : K × V} :
    e ∈ toList (Dict.node b cs) ↔ ∃ c ∈ cs, e ∈ toList c := by
  simp [toList_node, List.mem_flatMap]

/-- the finite map a trie denotes: first binding of `k` among its contents -/
def toMap [DecidableEq K] (d : Dict K V) (k : K) : Option V := (toList d).lookup k

/-! ### the invariant -/

/-- `WF hash d s p`: `d` is a non-empty, canonical subtree at shift `s` all of whose keys have
`hash k % 2^s = p`.
* leaf: stores its key's hash; * collision bucket: ≥ 2 entries, one hash, distinct keys;
* node: 32-bit bitmap, `s < 32`, one child per set bit **in slot order** (`zip (slots b) cs`), each
  child well-formed one level down under the prefix extended by its slot, never `Empty`
  (there is no `WF` rule for `empty`), and a lone child is itself a node (canonical shape). -/
inductive WF (hash : K → Nat) : Dict K V → Nat → Nat → Prop
  | leaf {s p h k v} : h = hash k → h % 2 ^ s = p → WF hash (.leaf h k v) s p
  | collision {s p h es} : (∀ e ∈ es, hash e.1 = h) → h % 2 ^ s = p → 2 ≤ es.length →
      (es.map (·.1)).Nodup → WF hash (.collision h es) s p
  | node {s p b cs} : b < 2 ^ 32 → s < 32 → p < 2 ^ s → cs.length = (slots b).length →
      (∀ f c, (f, c) ∈ (slots b).zip cs → WF hash c (s + 5) (p + f * 2 ^ s)) →
      (∀ c, cs = [c] → ∃ b' cs', c = .node b' cs') → cs ≠ [] →
      WF hash (.node b cs) s p

/-- a whole dict: `Empty`, or a well-formed tree at shift 0 -/
def WF0 (hash : K → Nat) (d : Dict K V) (s p : Nat) : Prop := d = .empty ∨ WF hash d s p

variable {hash : K → Nat}

theorem WF.ne_empty {d : Dict K V} {s p : Nat} (h : WF hash d s p) : d ≠ .empty := by
  cases h <;> simp

/-- every key below a well-formed subtree carries the subtree's prefix -/
theorem WF.prefix_of_mem {d : Dict K V} {s p : Nat} (h : WF hash d s p) :
    ∀ e ∈ toList d, hash e.1 % 2 ^ s = p := by
  induction h with
  | leaf h1 h2 => intro e he; simp at he; subst he; subst h1; exact h2
  | collision h1 h2 _ _ => intro e he; simp at he; rw [h1 e he]; exact h2
  | node hb hs hp hl hc _ _ ih =>
    intro e he
    obtain ⟨c, hc1, hc2⟩ := mem_toList_node.mp he
    obtain ⟨f, hf⟩ := exists_zip_of_mem hl.symm hc1
    exact prefix_of_child (ih f c hf e hc2) hp

/-- the child selected by `child_at` + `slot_index` for an occupied slot is the one zipped with it -/
theorem child_of_slot {b : Nat} {cs : List (Dict K V)} {f : Nat} (hl : cs.length = (slots b).length)
    (hf : b.testBit f = true) (h32 : f < 32) :
    (f, childAt cs (slotIndex b (1 <<< f))) ∈ (slots b).zip cs ∧
    cs[rank b f]? = some (childAt cs (slotIndex b (1 <<< f))) := by
  rw [slotIndex_eq_rank (by omega), childAt_eq]
  have h1 := slots_getElem?_rank hf h32
  have h2 : rank b f < cs.length := by rw [hl]; exact rank_lt_length hf h32
  have h3 : cs[rank b f]? = some cs[rank b f] := List.getElem?_eq_getElem h2
  rw [h3]
  exact ⟨zip_mem_of_getElem? h1 h3, rfl⟩

variable [DecidableEq K]

/-! ### `get` refines membership -/

theorem get_node_set {b : Nat} {cs : List (Dict K V)} {k : K} {h s : Nat}
    (hbit : b.testBit (fragment h s) = true) :
    get (.node b cs) k h s = get (childAt cs (slotIndex b (1 <<< fragment h s))) k h (s + 5) := by
  rw [get]; simp [bitOf, and_bit_eq_zero_iff, hbit]

theorem get_node_unset {b : Nat} {cs : List (Dict K V)} {k : K} {h s : Nat}
    (hbit : b.testBit (fragment h s) = false) : get (.node b cs) k h s = none := by
  rw [get]; simp [bitOf, and_bit_eq_zero_iff, hbit]

theorem get_iff {d : Dict K V} {s p : Nat} (h : WF hash d s p) (k : K) (v : V)
    (hk : hash k % 2 ^ s = p) : get d k (hash k) s = some v ↔ (k, v) ∈ toList d := by
  induction h with
  | @leaf s p h k' v' h1 h2 =>
    unfold get
    by_cases hkk : k' = k
    · subst hkk; simp; exact eq_comm
    · simp [hkk]; intro h; exact absurd h.symm hkk
  | collision h1 h2 h3 h4 =>
    unfold get
    simpa using bucketGet_eq_some h4 k v
  | @node s p b cs hb hs hp hl hc _ _ ih =>
    have h32 := fragment_lt (hash k) s
    by_cases hbit : b.testBit (fragment (hash k) s) = true
    · obtain ⟨hz, _⟩ := child_of_slot hl hbit h32
      rw [get_node_set hbit, ih _ _ hz (prefix_step hk)]
      constructor
      · intro hm
        exact mem_toList_node.mpr ⟨_, (List.of_mem_zip hz).2, hm⟩
      · intro hm
        obtain ⟨c, hc1, hc2⟩ := mem_toList_node.mp hm
        obtain ⟨g, hg⟩ := exists_zip_of_mem hl.symm hc1
        have hpre := (hc g c hg).prefix_of_mem _ hc2
        have : fragment (hash k) s = g := fragment_of_prefix hk hpre
        subst this
        rw [zip_functional (slots_nodup b) hz hg]
        exact hc2
    · have hbit' : b.testBit (fragment (hash k) s) = false := by simpa using hbit
      rw [get_node_unset hbit']
      constructor
      · intro h; simp at h
      · intro hm
        exfalso
        obtain ⟨c, hc1, hc2⟩ := mem_toList_node.mp hm
        obtain ⟨g, hg⟩ := exists_zip_of_mem hl.symm hc1
        have hpre := (hc g c hg).prefix_of_mem _ hc2
        have : fragment (hash k) s = g := fragment_of_prefix hk hpre
        subst this
        have := (mem_slots.mp (List.of_mem_zip hg).1).2
        rw [this] at hbit'; cases hbit'


/-! ### `put` -/

/-- `d` is a `Node` -/
def isNode : Dict K V → Prop
  | .node _ _ => True
  | _ => False

omit [DecidableEq K] in
theorem isNode_iff {d : Dict K V} : isNode d ↔ ∃ b cs, d = .node b cs := by
  cases d <;> simp [isNode]

omit [DecidableEq K] in
theorem mem_node_zip {b : Nat} {cs : List (Dict K V)} {l : List Nat} (hl : cs.length = l.length)
    {e : K × V} : e ∈ toList (Dict.node b cs) ↔ ∃ g c, (g, c) ∈ l.zip cs ∧ e ∈ toList c := by
  rw [mem_toList_node]
  constructor
  · rintro ⟨c, hc1, hc2⟩
    obtain ⟨g, hg⟩ := exists_zip_of_mem hl.symm hc1
    exact ⟨g, c, hg, hc2⟩
  · rintro ⟨g, c, hg, hc2⟩
    exact ⟨c, (List.of_mem_zip hg).2, hc2⟩

theorem splitPair_spec (hb : ∀ k, hash k < 2 ^ 32) {k1 k2 : K} {v1 v2 : V} (hne : k1 ≠ k2) :
    ∀ (fuel s p : Nat) (d : Dict K V), hash k1 % 2 ^ s = p → hash k2 % 2 ^ s = p →
      splitPair fuel (hash k1) k1 v1 (hash k2) k2 v2 s = some d →
      WF hash d s p ∧ (∀ e, e ∈ toList d ↔ e = (k1, v1) ∨ e = (k2, v2)) ∧
        (hash k1 ≠ hash k2 → isNode d) := by
  intro fuel
  induction fuel with
  | zero => intro s p d _ _ h; simp [splitPair] at h
  | succ fuel ih =>
    intro s p d hp1 hp2 h
    unfold splitPair at h
    have hps : p < 2 ^ s := by rw [← hp1]; exact Nat.mod_lt _ (Nat.two_pow_pos s)
    by_cases heq : hash k1 = hash k2
    · simp only [heq, if_true, Option.some.injEq] at h
      subst h
      have hl : bucketPut (bucketPut ([] : List (K × V)) k1 v1 []) k2 v2 [] = [(k1, v1), (k2, v2)] := by
        simp [bucketPut_eq, bput, hne]
      rw [hl]
      refine ⟨?_, ?_, fun h => absurd heq h⟩
      · apply WF.collision
        · intro e he
          simp at he
          rcases he with rfl | rfl <;> simp [heq]
        · rw [← heq]; exact hp1
        · simp
        · simp [hne]
      · intro e; simp
    · have hs : s < 32 := shift_lt_of_ne heq (hb k1) (hb k2) (by rw [hp1, hp2])
      have f1lt := fragment_lt (hash k1) s
      have f2lt := fragment_lt (hash k2) s
      simp only [heq, if_false] at h
      by_cases hf : fragment (hash k1) s = fragment (hash k2) s
      · simp only [hf, if_true] at h
        cases hrec : splitPair fuel (hash k1) k1 v1 (hash k2) k2 v2 (s + 5) with
        | none => simp [hrec] at h
        | some c =>
          simp only [hrec, Option.some.injEq] at h
          subst h
          have hp2' := prefix_step hp2
          have hp1' := prefix_step hp1
          rw [hf] at hp1'
          obtain ⟨w1, w2, w3⟩ := ih (s + 5) _ c hp1' hp2' hrec
          refine ⟨?_, ?_, fun _ => trivial⟩
          · apply WF.node (bit_lt f2lt) hs hps
            · simp [slots_bit f2lt]
            · intro g c' hg
              simp [slots_bit f2lt] at hg
              obtain ⟨rfl, rfl⟩ := hg
              exact w1
            · intro c' hc'
              simp at hc'; subst hc'
              exact isNode_iff.mp (w3 heq)
            · simp
          · intro e
            rw [mem_toList_node]; simp [w2]
      · simp only [hf, if_false] at h
        have hl1 : WF hash (Dict.leaf (hash k1) k1 v1) (s + 5) (p + fragment (hash k1) s * 2 ^ s) :=
          WF.leaf rfl (prefix_step hp1)
        have hl2 : WF hash (Dict.leaf (hash k2) k2 v2) (s + 5) (p + fragment (hash k2) s * 2 ^ s) :=
          WF.leaf rfl (prefix_step hp2)
        by_cases hlt : fragment (hash k1) s < fragment (hash k2) s
        · simp only [hlt, if_true, Option.some.injEq] at h
          subst h
          refine ⟨?_, ?_, fun _ => trivial⟩
          · apply WF.node _ hs hps
            · simp [slots_two_bits hlt f2lt]
            · intro g c' hg
              simp [slots_two_bits hlt f2lt] at hg
              rcases hg with ⟨rfl, rfl⟩ | ⟨rfl, rfl⟩
              · exact hl1
              · exact hl2
            · intro c' hc'; simp at hc'
            · simp
            · exact Nat.or_lt_two_pow (bit_lt f1lt) (bit_lt f2lt)
          · intro e
            rw [mem_toList_node]; simp
        · simp only [hlt, if_false, Option.some.injEq] at h
          subst h
          have hlt' : fragment (hash k2) s < fragment (hash k1) s := by omega
          refine ⟨?_, ?_, fun _ => trivial⟩
          · apply WF.node _ hs hps
            · rw [Nat.or_comm]; simp [slots_two_bits hlt' f1lt]
            · intro g c' hg
              rw [Nat.or_comm] at hg
              simp [slots_two_bits hlt' f1lt] at hg
              rcases hg with ⟨rfl, rfl⟩ | ⟨rfl, rfl⟩
              · exact hl2
              · exact hl1
            · intro c' hc'; simp at hc'
            · simp
            · exact Nat.or_lt_two_pow (bit_lt f1lt) (bit_lt f2lt)
          · intro e
            rw [mem_toList_node]; simp; exact Or.comm

omit [DecidableEq K] in
theorem splitNode_spec (hb : ∀ k, hash k < 2 ^ 32) {c : Dict K V} {chash : Nat} {k : K} {v : V}
    (hcb : chash < 2 ^ 32) (hne : chash ≠ hash k)
    (hc : ∀ s' p', chash % 2 ^ s' = p' → WF hash c s' p') :
    ∀ (fuel s p : Nat) (d : Dict K V), chash % 2 ^ s = p → hash k % 2 ^ s = p →
      splitNode fuel c chash (hash k) k v s = some d →
      WF hash d s p ∧ (∀ e, e ∈ toList d ↔ e = (k, v) ∨ e ∈ toList c) ∧ isNode d := by
  intro fuel
  induction fuel with
  | zero => intro s p d _ _ h; simp [splitNode] at h
  | succ fuel ih =>
    intro s p d hp1 hp2 h
    unfold splitNode at h
    have hps : p < 2 ^ s := by rw [← hp1]; exact Nat.mod_lt _ (Nat.two_pow_pos s)
    have hs : s < 32 := shift_lt_of_ne hne hcb (hb k) (by rw [hp1, hp2])
    have f1lt := fragment_lt chash s
    have f2lt := fragment_lt (hash k) s
    by_cases hf : fragment chash s = fragment (hash k) s
    · simp only [hf, if_true] at h
      cases hrec : splitNode fuel c chash (hash k) k v (s + 5) with
      | none => simp [hrec] at h
      | some c' =>
        simp only [hrec, Option.some.injEq] at h
        subst h
        have hp2' := prefix_step hp2
        have hp1' := prefix_step hp1
        rw [hf] at hp1'
        obtain ⟨w1, w2, w3⟩ := ih (s + 5) _ c' hp1' hp2' hrec
        refine ⟨?_, ?_, trivial⟩
        · apply WF.node (bit_lt f2lt) hs hps
          · simp [slots_bit f2lt]
          · intro g c'' hg
            simp [slots_bit f2lt] at hg
            obtain ⟨rfl, rfl⟩ := hg
            exact w1
          · intro c'' hc'
            simp at hc'; subst hc'
            exact isNode_iff.mp w3
          · simp
        · intro e
          rw [mem_toList_node]; simp [w2]
    · simp only [hf, if_false] at h
      have hl1 : WF hash c (s + 5) (p + fragment chash s * 2 ^ s) := hc _ _ (prefix_step hp1)
      have hl2 : WF hash (Dict.leaf (hash k) k v) (s + 5) (p + fragment (hash k) s * 2 ^ s) :=
        WF.leaf rfl (prefix_step hp2)
      by_cases hlt : fragment chash s < fragment (hash k) s
      · simp only [hlt, if_true, Option.some.injEq] at h
        subst h
        refine ⟨?_, ?_, trivial⟩
        · apply WF.node _ hs hps
          · simp [slots_two_bits hlt f2lt]
          · intro g c' hg
            simp [slots_two_bits hlt f2lt] at hg
            rcases hg with ⟨rfl, rfl⟩ | ⟨rfl, rfl⟩
            · exact hl1
            · exact hl2
          · intro c' hc'; simp at hc'
          · simp
          · exact Nat.or_lt_two_pow (bit_lt f1lt) (bit_lt f2lt)
        · intro e
          rw [mem_toList_node]; simp; exact Or.comm
      · simp only [hlt, if_false, Option.some.injEq] at h
        subst h
        have hlt' : fragment (hash k) s < fragment chash s := by omega
        refine ⟨?_, ?_, trivial⟩
        · apply WF.node _ hs hps
          · rw [Nat.or_comm]; simp [slots_two_bits hlt' f1lt]
          · intro g c' hg
            rw [Nat.or_comm] at hg
            simp [slots_two_bits hlt' f1lt] at hg
            rcases hg with ⟨rfl, rfl⟩ | ⟨rfl, rfl⟩
            · exact hl2
            · exact hl1
          · intro c' hc'; simp at hc'
          · simp
          · exact Nat.or_lt_two_pow (bit_lt f1lt) (bit_lt f2lt)
        · intro e
          rw [mem_toList_node]; simp

theorem put_node_unset {fuel b : Nat} {cs : List (Dict K V)} {k : K} {v : V} {h s : Nat}
    (hbit : b.testBit (fragment h s) = false) :
    put fuel (.node b cs) k v h s =
      some (.node (b ||| 1 <<< fragment h s)
        (insertAt cs (slotIndex b (1 <<< fragment h s)) (.leaf h k v) [])) := by
  rw [put]; simp [bitOf, and_bit_eq_zero_iff, hbit]

theorem put_node_set {fuel b : Nat} {cs : List (Dict K V)} {k : K} {v : V} {h s : Nat}
    (hbit : b.testBit (fragment h s) = true) :
    put fuel (.node b cs) k v h s =
      (put fuel (childAt cs (slotIndex b (1 <<< fragment h s))) k v h (s + 5)).map
        (fun newChild => .node b (updateAt cs (slotIndex b (1 <<< fragment h s)) newChild [])) := by
  rw [put]; simp only [bitOf, and_bit_eq_zero_iff, hbit]
  cases put fuel (childAt cs (slotIndex b (1 <<< fragment h s))) k v h (s + 5) <;> simp

/-- `put` at level `(s, p)`: preserves the invariant, adds exactly `(k, v)` (replacing any binding
of `k`), keeps nodes nodes. For every fuel that returns a result. -/
theorem put_spec (hb : ∀ k, hash k < 2 ^ 32) {d : Dict K V} {s p : Nat} (h : WF hash d s p)
    (fuel : Nat) (k : K) (v : V) (hk : hash k % 2 ^ s = p) (d' : Dict K V)
    (hput : put fuel d k v (hash k) s = some d') :
    WF hash d' s p ∧ (∀ e, e ∈ toList d' ↔ e = (k, v) ∨ (e.1 ≠ k ∧ e ∈ toList d)) ∧
      (isNode d → isNode d') := by
  induction h generalizing d' with
  | @leaf s p h k' v' h1 h2 =>
    unfold put at hput
    by_cases hkk : k' = k
    · subst hkk
      simp only [if_true, Option.some.injEq] at hput
      subst hput
      refine ⟨WF.leaf rfl hk, ?_, fun h => h⟩
      intro e; simp
      intro h1 h2
      subst h2; exact absurd rfl h1
    · simp only [hkk, if_false] at hput
      subst h1
      obtain ⟨w1, w2, _⟩ := splitPair_spec hb hkk fuel s p d' h2 hk hput
      refine ⟨w1, ?_, fun h => by simp [isNode] at h⟩
      intro e; rw [w2]; simp
      constructor
      · rintro (h | h)
        · subst h; exact Or.inr ⟨hkk, rfl⟩
        · exact Or.inl h
      · rintro (h | ⟨_, h⟩)
        · exact Or.inr h
        · exact Or.inl h
  | @collision s p chash es h1 h2 h3 h4 =>
    unfold put at hput
    by_cases hh : chash = hash k
    · simp only [hh, if_true, Option.some.injEq] at hput
      subst hput
      rw [bucketPut_eq]
      simp only [List.reverse_nil, List.nil_append]
      refine ⟨?_, ?_, fun h => by simp [isNode] at h⟩
      · apply WF.collision
        · intro e he
          obtain ⟨a, b⟩ := e
          rcases (mem_bput h4 k v a b).mp he with ⟨rfl, _⟩ | ⟨_, h⟩
          · rfl
          · rw [← hh]; exact h1 _ h
        · exact hk
        · have := length_bput es k v; omega
        · exact nodup_bput h4 k v
      · intro e
        obtain ⟨a, b⟩ := e
        simp only [toList_collision]
        rw [mem_bput h4 k v a b]
        simp
    · simp only [hh, if_false] at hput
      have hcb : chash < 2 ^ 32 := by
        match es, h3, h1 with
        | e :: _, _, h1 => rw [← h1 e (by simp)]; exact hb _
      obtain ⟨w1, w2, w3⟩ := splitNode_spec hb hcb hh
        (fun s' p' hp' => WF.collision h1 hp' h3 h4) fuel s p d' h2 hk hput
      refine ⟨w1, ?_, fun _ => w3⟩
      intro e; rw [w2]; simp only [toList_collision]
      constructor
      · rintro (h | h)
        · exact Or.inl h
        · refine Or.inr ⟨?_, h⟩
          intro hek; apply hh; rw [← hek]; exact (h1 e h).symm
      · rintro (h | ⟨_, h⟩)
        · exact Or.inl h
        · exact Or.inr h
  | @node s p b cs hb32 hs hp hl hc hsingle hne ih =>
    have h32 := fragment_lt (hash k) s
    have hwf : WF hash (Dict.node b cs) s p := WF.node hb32 hs hp hl hc hsingle hne
    by_cases hbit : b.testBit (fragment (hash k) s) = true
    · obtain ⟨hz, hget⟩ := child_of_slot hl hbit h32
      rw [put_node_set hbit] at hput
      cases hrec : put fuel (childAt cs (slotIndex b (1 <<< fragment (hash k) s))) k v (hash k) (s + 5) with
      | none => simp [hrec] at hput
      | some nc =>
        simp only [hrec, Option.map_some, Option.some.injEq] at hput
        subst hput
        obtain ⟨w1, w2, w3⟩ := ih _ _ hz (prefix_step hk) nc hrec
        rw [updateAt_eq, slotIndex_eq_rank (by omega)]
        simp only [List.reverse_nil, List.nil_append]
        have hslot := slots_getElem?_rank hbit h32
        have hl' : (cs.set (rank b (fragment (hash k) s)) nc).length = (slots b).length := by
          simp [hl]
        refine ⟨?_, ?_, fun _ => trivial⟩
        · apply WF.node hb32 hs hp hl'
          · intro g c hg
            rcases (mem_zip_set (slots_nodup b) hl.symm hslot g nc c).mp hg with ⟨rfl, rfl⟩ | ⟨_, h⟩
            · exact w1
            · exact hc g c h
          · intro c hcs
            -- a lone child: it was a node, and `put` keeps nodes nodes
            have hlen : cs.length = 1 := by
              have := congrArg List.length hcs; simpa using this
            match cs, hlen, hsingle, hget, hcs with
            | [c0], _, hsingle, hget, hcs =>
              have hr : rank b (fragment (hash k) s) = 0 := by
                cases hr : rank b (fragment (hash k) s) with
                | zero => rfl
                | succ n => rw [hr] at hget; simp at hget
              rw [hr] at hget hcs
              simp at hget hcs
              subst hcs
              rw [← hget] at w3
              exact isNode_iff.mp (w3 (isNode_iff.mpr (hsingle c0 rfl)))
          · intro hnil
            have := congrArg List.length hnil
            simp at this
            exact hne this
        · intro e
          rw [mem_node_zip hl', mem_node_zip hl]
          constructor
          · rintro ⟨g, c, hg, he⟩
            rcases (mem_zip_set (slots_nodup b) hl.symm hslot g nc c).mp hg with ⟨rfl, rfl⟩ | ⟨hgf, h⟩
            · rcases (w2 e).mp he with h | ⟨h1, h2⟩
              · exact Or.inl h
              · exact Or.inr ⟨h1, _, _, hz, h2⟩
            · refine Or.inr ⟨?_, g, c, h, he⟩
              intro hek
              apply hgf
              have := (hc g c h).prefix_of_mem e he
              rw [hek] at this
              exact (fragment_of_prefix hk this).symm
          · rintro (h | ⟨h1, g, c, hg, he⟩)
            · exact ⟨_, nc, (mem_zip_set (slots_nodup b) hl.symm hslot _ nc nc).mpr (Or.inl ⟨rfl, rfl⟩),
                (w2 e).mpr (Or.inl h)⟩
            · by_cases hgf : g = fragment (hash k) s
              · subst hgf
                have := zip_functional (slots_nodup b) hz hg
                subst this
                exact ⟨_, nc, (mem_zip_set (slots_nodup b) hl.symm hslot _ nc nc).mpr (Or.inl ⟨rfl, rfl⟩),
                  (w2 e).mpr (Or.inr ⟨h1, he⟩)⟩
              · exact ⟨g, c, (mem_zip_set (slots_nodup b) hl.symm hslot g nc c).mpr (Or.inr ⟨hgf, hg⟩), he⟩
    · have hbit' : b.testBit (fragment (hash k) s) = false := by simpa using hbit
      rw [put_node_unset hbit'] at hput
      simp only [Option.some.injEq] at hput
      subst hput
      have hr : rank b (fragment (hash k) s) ≤ cs.length := by
        rw [hl]; exact rank_le_length (by omega)
      rw [slotIndex_eq_rank (by omega), insertAt_eq _ _ _ _ hr]
      simp only [List.reverse_nil, List.nil_append]
      have hl' : (cs.insertIdx (rank b (fragment (hash k) s)) (Dict.leaf (hash k) k v)).length =
          (slots (b ||| 1 <<< fragment (hash k) s)).length := by
        rw [slots_or hbit' h32, List.length_insertIdx, List.length_insertIdx]
        simp [hl ▸ hr, hl]
      have hmem : ∀ g c, (g, c) ∈ (slots (b ||| 1 <<< fragment (hash k) s)).zip
            (cs.insertIdx (rank b (fragment (hash k) s)) (Dict.leaf (hash k) k v)) ↔
          (g = fragment (hash k) s ∧ c = Dict.leaf (hash k) k v) ∨ (g, c) ∈ (slots b).zip cs := by
        intro g c
        rw [slots_or hbit' h32]
        exact mem_zip_insertIdx hl.symm (hl ▸ hr) _ g _ c
      refine ⟨?_, ?_, fun _ => trivial⟩
      · apply WF.node (or_bit_lt hb32 h32) hs hp hl'
        · intro g c hg
          rcases (hmem g c).mp hg with ⟨rfl, rfl⟩ | h
          · exact WF.leaf rfl (prefix_step hk)
          · exact hc g c h
        · intro c hcs
          exfalso
          have := congrArg List.length hcs
          rw [List.length_insertIdx] at this
          simp [hr] at this
          exact hne this
        · intro hnil
          have := congrArg List.length hnil
          rw [List.length_insertIdx] at this
          simp [hr] at this
      · intro e
        rw [mem_node_zip hl', mem_node_zip hl]
        constructor
        · rintro ⟨g, c, hg, he⟩
          rcases (hmem g c).mp hg with ⟨rfl, rfl⟩ | h
          · simp at he; exact Or.inl he
          · refine Or.inr ⟨?_, g, c, h, he⟩
            intro hek
            have hpre := (hc g c h).prefix_of_mem e he
            rw [hek] at hpre
            have hgf := fragment_of_prefix hk hpre
            have := (mem_slots.mp (List.of_mem_zip h).1).2
            rw [← hgf, hbit'] at this; cases this
        · rintro (h | ⟨_, g, c, hg, he⟩)
          · exact ⟨_, _, (hmem _ _).mpr (Or.inl ⟨rfl, rfl⟩), by simp [h]⟩
          · exact ⟨g, c, (hmem g c).mpr (Or.inr hg), he⟩

/-! ### fuel: 7 levels of 5-bit fragments cover 32 bits -/

theorem splitPair_isSome (hb : ∀ k, hash k < 2 ^ 32) {k1 k2 : K} {v1 v2 : V} :
    ∀ (fuel s : Nat), hash k1 % 2 ^ s = hash k2 % 2 ^ s → s ≤ 36 → 37 ≤ s + 5 * fuel →
      (splitPair fuel (hash k1) k1 v1 (hash k2) k2 v2 s).isSome = true := by
  intro fuel
  induction fuel with
  | zero => intro s _ h1 h2; omega
  | succ fuel ih =>
    intro s hag h1 h2
    unfold splitPair
    by_cases heq : hash k1 = hash k2
    · simp [heq]
    · have hs : s < 32 := shift_lt_of_ne heq (hb k1) (hb k2) hag
      simp only [heq, if_false]
      by_cases hf : fragment (hash k1) s = fragment (hash k2) s
      · simp only [hf, if_true]
        have := ih (s + 5) (by rw [mod_succ_level, mod_succ_level, hag, hf]) (by omega) (by omega)
        cases hrec : splitPair fuel (hash k1) k1 v1 (hash k2) k2 v2 (s + 5) with
        | none => rw [hrec] at this; simp at this
        | some c => simp
      · simp only [hf, if_false]
        split <;> simp

omit [DecidableEq K] in
theorem splitNode_isSome {c : Dict K V} {chash h : Nat} {k : K} {v : V}
    (hcb : chash < 2 ^ 32) (hhb : h < 2 ^ 32) (hne : chash ≠ h) :
    ∀ (fuel s : Nat), chash % 2 ^ s = h % 2 ^ s → 37 ≤ s + 5 * fuel →
      (splitNode fuel c chash h k v s).isSome = true := by
  intro fuel
  induction fuel with
  | zero =>
    intro s hag h2
    have := shift_lt_of_ne hne hcb hhb hag
    omega
  | succ fuel ih =>
    intro s hag h2
    unfold splitNode
    by_cases hf : fragment chash s = fragment h s
    · simp only [hf, if_true]
      have := ih (s + 5) (by rw [mod_succ_level, mod_succ_level, hag, hf]) (by omega)
      cases hrec : splitNode fuel c chash h k v (s + 5) with
      | none => rw [hrec] at this; simp at this
      | some c => simp
    · simp only [hf, if_false]
      split <;> simp

/-- under the invariant `put` never runs out of fuel once `37 ≤ s + 5 * fuel` (at the root: 8) -/
theorem put_isSome (hb : ∀ k, hash k < 2 ^ 32) {d : Dict K V} {s p : Nat} (h : WF hash d s p)
    (fuel : Nat) (k : K) (v : V) (hk : hash k % 2 ^ s = p) (hs36 : s ≤ 36)
    (hfuel : 37 ≤ s + 5 * fuel) : (put fuel d k v (hash k) s).isSome = true := by
  induction h with
  | @leaf s p h k' v' h1 h2 =>
    unfold put
    split
    · simp
    · subst h1
      exact splitPair_isSome hb fuel s (by rw [h2, hk]) hs36 hfuel
  | @collision s p chash es h1 h2 h3 h4 =>
    unfold put
    split
    · simp
    · rename_i hh
      have hcb : chash < 2 ^ 32 := by
        match es, h3, h1 with
        | e :: _, _, h1 => rw [← h1 e (by simp)]; exact hb _
      exact splitNode_isSome hcb (hb k) hh fuel s (by rw [h2, hk]) hfuel
  | @node s p b cs hb32 hs hp hl hc hsingle hne ih =>
    have h32 := fragment_lt (hash k) s
    by_cases hbit : b.testBit (fragment (hash k) s) = true
    · obtain ⟨hz, _⟩ := child_of_slot hl hbit h32
      rw [put_node_set hbit]
      have := ih _ _ hz (prefix_step hk) (by omega) (by omega)
      simpa using this
    · have hbit' : b.testBit (fragment (hash k) s) = false := by simpa using hbit
      rw [put_node_unset hbit']; simp

/-! ### `remove` -/

omit [DecidableEq K] in
/-- a leaf or bucket one level down is also well-formed one level up (node collapse hoists it) -/
theorem WF.lift {d : Dict K V} {s p f : Nat} (h : WF hash d (s + 5) (p + f * 2 ^ s))
    (hn : ¬ isNode d) (hp : p < 2 ^ s) : WF hash d s p := by
  cases h with
  | leaf h1 h2 => exact WF.leaf h1 (prefix_of_child h2 hp)
  | collision h1 h2 h3 h4 => exact WF.collision h1 (prefix_of_child h2 hp) h3 h4
  | node => exact absurd trivial hn

omit [DecidableEq K] in
/-- `collapse_node` turns a node-in-the-making (everything but the lone-child rule) into a
canonical tree with the same contents -/
theorem collapse_spec {b : Nat} {cs : List (Dict K V)} {s p : Nat} (hb32 : b < 2 ^ 32) (hs : s < 32)
    (hp : p < 2 ^ s) (hl : cs.length = (slots b).length)
    (hc : ∀ f c, (f, c) ∈ (slots b).zip cs → WF hash c (s + 5) (p + f * 2 ^ s)) :
    WF0 hash (collapseNode b cs) s p ∧ toList (collapseNode b cs) = toList (Dict.node b cs) := by
  match cs, hl, hc with
  | [], _, _ => simp [collapseNode, WF0, toList_node]
  | [only], hl, hc =>
    obtain ⟨f, hf⟩ := exists_zip_of_mem (l := slots b) hl.symm (List.mem_singleton.mpr rfl)
    have hw := hc f only hf
    cases only with
    | node b' cs' =>
      simp only [collapseNode]
      exact ⟨Or.inr (WF.node hb32 hs hp hl hc (by intro c hc'; simp at hc'; exact ⟨b', cs', hc'.symm⟩) (by simp)), trivial⟩
    | empty => exact absurd rfl hw.ne_empty
    | leaf h k v =>
      simp only [collapseNode]
      exact ⟨Or.inr (hw.lift (by simp [isNode]) hp), by simp [toList_node]⟩
    | collision h es =>
      simp only [collapseNode]
      exact ⟨Or.inr (hw.lift (by simp [isNode]) hp), by simp [toList_node]⟩
  | c1 :: c2 :: rest, hl, hc =>
    simp only [collapseNode]
    exact ⟨Or.inr (WF.node hb32 hs hp hl hc (by intro c hc'; simp at hc') (by simp)), trivial⟩

theorem remove_node_unset {b : Nat} {cs : List (Dict K V)} {k : K} {h s : Nat}
    (hbit : b.testBit (fragment h s) = false) : remove (.node b cs) k h s = .node b cs := by
  rw [remove]; simp [bitOf, and_bit_eq_zero_iff, hbit]

theorem remove_node_set_empty {b : Nat} {cs : List (Dict K V)} {k : K} {h s : Nat}
    (hbit : b.testBit (fragment h s) = true)
    (hrec : remove (childAt cs (slotIndex b (1 <<< fragment h s))) k h (s + 5) = .empty) :
    remove (.node b cs) k h s =
      removeSlot b (1 <<< fragment h s) cs (slotIndex b (1 <<< fragment h s)) := by
  rw [remove]; simp [bitOf, and_bit_eq_zero_iff, hbit, hrec]

theorem remove_node_set_ne {b : Nat} {cs : List (Dict K V)} {k : K} {h s : Nat} {r : Dict K V}
    (hbit : b.testBit (fragment h s) = true)
    (hrec : remove (childAt cs (slotIndex b (1 <<< fragment h s))) k h (s + 5) = r)
    (hr : r ≠ .empty) :
    remove (.node b cs) k h s =
      collapseNode b (updateAt cs (slotIndex b (1 <<< fragment h s)) r []) := by
  rw [remove]; simp only [bitOf, and_bit_eq_zero_iff, hbit, hrec]
  cases r <;> simp at hr ⊢

/-- `remove` at level `(s, p)`: the result is `Empty` or well-formed, and holds exactly the
bindings of the other keys. -/
theorem remove_spec {d : Dict K V} {s p : Nat} (h : WF hash d s p) (k : K)
    (hk : hash k % 2 ^ s = p) :
    WF0 hash (remove d k (hash k) s) s p ∧
      (∀ e, e ∈ toList (remove d k (hash k) s) ↔ (e.1 ≠ k ∧ e ∈ toList d)) := by
  induction h with
  | @leaf s p h k' v' h1 h2 =>
    unfold remove
    by_cases hkk : k' = k
    · subst hkk
      simp only [if_true]
      refine ⟨Or.inl rfl, ?_⟩
      intro e; simp
      intro h1 h2; subst h2; exact absurd rfl h1
    · simp only [hkk, if_false]
      refine ⟨Or.inr (WF.leaf h1 h2), ?_⟩
      intro e; simp
      intro h; subst h; exact hkk
  | @collision s p chash es h1 h2 h3 h4 =>
    have hmem := mem_brem h4 k
    have hnd := nodup_brem h4 k
    unfold remove
    rw [bucketRemove_eq]
    simp only [List.reverse_nil, List.nil_append]
    split
    · rename_i hkept
      refine ⟨Or.inl rfl, ?_⟩
      intro e; obtain ⟨a, b⟩ := e
      simp only [toList_empty, toList_collision, ← hmem, hkept]
    · rename_i k1 v1 hkept
      have hk1 : (k1, v1) ∈ es := ((hmem k1 v1).mp (by rw [hkept]; simp)).2
      refine ⟨Or.inr (WF.leaf (h1 _ hk1).symm h2), ?_⟩
      intro e; obtain ⟨a, b⟩ := e
      simp only [toList_leaf, toList_collision, ← hmem, hkept]
    · rename_i hn1 hn2
      refine ⟨Or.inr (WF.collision ?_ h2 ?_ hnd), ?_⟩
      · intro e he
        obtain ⟨a, b⟩ := e
        exact h1 _ ((hmem a b).mp he).2
      · match hb : brem es k, hn1, hn2 with
        | [], hn1, _ => exact absurd rfl hn1
        | [(a, b)], _, hn2 => exact absurd rfl (hn2 a b)
        | _ :: _ :: _, _, _ => simp
      · intro e; obtain ⟨a, b⟩ := e
        simp only [toList_collision, ← hmem]
  | @node s p b cs hb32 hs hp hl hc hsingle hne ih =>
    have h32 := fragment_lt (hash k) s
    have hwf : WF hash (Dict.node b cs) s p := WF.node hb32 hs hp hl hc hsingle hne
    by_cases hbit : b.testBit (fragment (hash k) s) = true
    · obtain ⟨hz, hget⟩ := child_of_slot hl hbit h32
      obtain ⟨w1, w2⟩ := ih _ _ hz (prefix_step hk)
      have hslot := slots_getElem?_rank hbit h32
      -- keys in another slot differ from `k`
      have hother : ∀ g c e, (g, c) ∈ (slots b).zip cs → g ≠ fragment (hash k) s → e ∈ toList c →
          e.1 ≠ k := by
        intro g c e hg hgf he hek
        apply hgf
        have := (hc g c hg).prefix_of_mem e he
        rw [hek] at this
        exact (fragment_of_prefix hk this).symm
      cases hrec : remove (childAt cs (slotIndex b (1 <<< fragment (hash k) s))) k (hash k) (s + 5) with
      | empty =>
        rw [remove_node_set_empty hbit hrec, removeSlot, removeAt_eq, slotIndex_eq_rank (by omega)]
        simp only [List.reverse_nil, List.nil_append]
        rw [hrec] at w2
        have hl' : (cs.eraseIdx (rank b (fragment (hash k) s))).length =
            (slots (andNot b (1 <<< fragment (hash k) s))).length := by
          rw [slots_andNot hbit h32, List.length_eraseIdx, List.length_eraseIdx, hl]
        have hmem : ∀ g c, (g, c) ∈ (slots (andNot b (1 <<< fragment (hash k) s))).zip
              (cs.eraseIdx (rank b (fragment (hash k) s))) ↔
            g ≠ fragment (hash k) s ∧ (g, c) ∈ (slots b).zip cs := by
          intro g c
          rw [slots_andNot hbit h32]
          exact mem_zip_eraseIdx (slots_nodup b) hl.symm hslot g c
        obtain ⟨c1, c2⟩ := collapse_spec (hash := hash) (andNot_lt hb32) hs hp hl'
          (fun g c hg => hc g c ((hmem g c).mp hg).2)
        refine ⟨c1, ?_⟩
        intro e
        rw [c2, mem_node_zip hl', mem_node_zip hl]
        constructor
        · rintro ⟨g, c, hg, he⟩
          obtain ⟨hgf, hg'⟩ := (hmem g c).mp hg
          exact ⟨hother g c e hg' hgf he, g, c, hg', he⟩
        · rintro ⟨hek, g, c, hg, he⟩
          by_cases hgf : g = fragment (hash k) s
          · subst hgf
            have := zip_functional (slots_nodup b) hz hg
            subst this
            have := (w2 e).mpr ⟨hek, he⟩
            simp at this
          · exact ⟨g, c, (hmem g c).mpr ⟨hgf, hg⟩, he⟩
      | _ =>
        all_goals
          rename_i hrec'
          have hr : remove (childAt cs (slotIndex b (1 <<< fragment (hash k) s))) k (hash k) (s + 5) ≠ .empty := by
            rw [hrec]; simp
          rw [remove_node_set_ne hbit rfl hr]
          generalize remove (childAt cs (slotIndex b (1 <<< fragment (hash k) s))) k (hash k) (s + 5) = r at *
          have wr : WF hash r (s + 5) (p + fragment (hash k) s * 2 ^ s) := by
            rcases w1 with h | h
            · exact absurd h hr
            · exact h
          rw [updateAt_eq, slotIndex_eq_rank (by omega)]
          simp only [List.reverse_nil, List.nil_append]
          have hl' : (cs.set (rank b (fragment (hash k) s)) r).length = (slots b).length := by
            simp [hl]
          have hmem := fun g c => mem_zip_set (slots_nodup b) hl.symm hslot g r c
          obtain ⟨c1, c2⟩ := collapse_spec (hash := hash) hb32 hs hp hl'
            (fun g c hg => by
              rcases (hmem g c).mp hg with ⟨rfl, rfl⟩ | ⟨_, h⟩
              · exact wr
              · exact hc g c h)
          refine ⟨c1, ?_⟩
          intro e
          rw [c2, mem_node_zip hl', mem_node_zip hl]
          constructor
          · rintro ⟨g, c, hg, he⟩
            rcases (hmem g c).mp hg with ⟨rfl, rfl⟩ | ⟨hgf, h⟩
            · obtain ⟨h1, h2⟩ := (w2 e).mp he
              exact ⟨h1, _, _, hz, h2⟩
            · exact ⟨hother g c e h hgf he, g, c, h, he⟩
          · rintro ⟨hek, g, c, hg, he⟩
            by_cases hgf : g = fragment (hash k) s
            · subst hgf
              have := zip_functional (slots_nodup b) hz hg
              subst this
              exact ⟨_, r, (hmem _ r).mpr (Or.inl ⟨rfl, rfl⟩), (w2 e).mpr ⟨hek, he⟩⟩
            · exact ⟨g, c, (hmem g c).mpr (Or.inr ⟨hgf, hg⟩), he⟩
    · have hbit' : b.testBit (fragment (hash k) s) = false := by simpa using hbit
      rw [remove_node_unset hbit']
      refine ⟨Or.inr hwf, ?_⟩
      intro e
      constructor
      · intro he
        refine ⟨?_, he⟩
        intro hek
        have := (get_iff hwf k e.2 hk).mpr (by rw [← hek]; exact he)
        rw [get_node_unset hbit'] at this
        cases this
      · exact fun h => h.2

end QM.Dict
