import QuiverModel.Lemmas.Dict.Spec
/-
`entries` (the worklist traversal) enumerates the contents; contents of a well-formed trie have
distinct keys.
-/
namespace QM.Dict

variable {K V : Type}

theorem flatMap_reverse_perm {α β : Type} (l : List α) (f : α → List β) :
    (l.reverse.flatMap f).Perm (l.flatMap f) :=
  List.Perm.flatMap_right f (List.reverse_perm l)

/-- the worklist traversal yields, up to order, the contents of the pending nodes plus `acc` -/
theorem entries_perm (wl : List (Dict K V)) (acc : List (K × V)) :
    (entries wl acc).Perm (wl.flatMap toList ++ acc) := by
  fun_induction entries wl acc with
  | case1 acc => simp
  | case2 acc rest ih => simpa using ih
  | case3 acc rest h k v ih =>
    refine ih.trans ?_
    simp only [List.flatMap_cons, toList_leaf, List.cons_append]
    exact List.perm_middle
  | case4 acc rest h ents ih =>
    refine ih.trans ?_
    rw [revcat_eq]
    simp only [List.flatMap_cons, toList_collision, List.append_assoc]
    refine (List.perm_append_comm_assoc _ _ _).trans ?_
    exact List.Perm.append_right _ (List.reverse_perm ents)
  | case5 acc rest b cs ih =>
    refine ih.trans ?_
    rw [revcat_eq]
    simp only [List.flatMap_append, List.flatMap_cons, toList_node]
    exact List.Perm.append_right _ (List.Perm.append_right _ (flatMap_reverse_perm cs toList))

variable {hash : K → Nat}

theorem keys_nodup_zip {s p : Nat} :
    ∀ (l : List Nat) (cs : List (Dict K V)), l.Nodup → p < 2 ^ s →
      (∀ g c, (g, c) ∈ l.zip cs → ((toList c).map (·.1)).Nodup ∧
        ∀ e ∈ toList c, hash e.1 % 2 ^ (s + 5) = p + g * 2 ^ s) →
      ((cs.take l.length).flatMap toList |>.map (·.1)).Nodup := by
  intro l
  induction l with
  | nil => intro cs _ _ _; simp
  | cons a l ih =>
    intro cs hn hp h
    cases cs with
    | nil => simp
    | cons c cs =>
      have hnl := List.nodup_cons.mp hn
      simp only [List.length_cons, List.take_succ_cons, List.flatMap_cons, List.map_append]
      rw [List.nodup_append]
      refine ⟨(h a c (by simp)).1, ih cs hnl.2 hp (fun g c' hg => h g c' (by simp [hg])), ?_⟩
      intro k1 hk1 k2 hk2 heq
      subst heq
      obtain ⟨e1, he1, rfl⟩ := List.mem_map.mp hk1
      obtain ⟨e2, he2, he2k⟩ := List.mem_map.mp hk2
      obtain ⟨c', hc', he2c⟩ := List.mem_flatMap.mp he2
      have hc'' : c' ∈ cs := List.mem_of_mem_take hc'
      -- slot of c'
      obtain ⟨i, hi, rfl⟩ := List.mem_iff_getElem.mp hc'
      have hi' : i < l.length := by
        have := List.length_take_le l.length cs; omega
      have hi'' : i < cs.length := by
        simp [List.length_take] at hi; omega
      have hz : (l[i], cs[i]) ∈ (a :: l).zip (c :: cs) := by
        simp only [List.zip_cons_cons, List.mem_cons]
        right
        exact zip_mem_of_getElem? (List.getElem?_eq_getElem hi') (List.getElem?_eq_getElem hi'')
      have hce : (cs.take l.length)[i] = cs[i] := by simp
      rw [hce] at he2c
      have p1 := (h a c (by simp)).2 e1 he1
      have p2 := (h _ _ hz).2 e2 he2c
      rw [he2k, p1] at p2
      have : a * 2 ^ s = l[i] * 2 ^ s := by omega
      have : a = l[i] := Nat.eq_of_mul_eq_mul_right (Nat.two_pow_pos s) this
      exact hnl.1 (this ▸ List.getElem_mem hi')

/-- the keys stored in a well-formed trie are pairwise different -/
theorem WF.keys_nodup {d : Dict K V} {s p : Nat} (h : WF hash d s p) :
    ((toList d).map (·.1)).Nodup := by
  induction h with
  | leaf => simp
  | collision _ _ _ h4 => simpa using h4
  | @node s p b cs hb hs hp hl hc _ _ ih =>
    rw [toList_node]
    have := keys_nodup_zip (hash := hash) (s := s) (p := p) (slots b) cs (slots_nodup b) hp
      (fun g c hg => ⟨ih g c hg, (hc g c hg).prefix_of_mem⟩)
    rw [← hl, List.take_length] at this
    exact this

end QM.Dict
