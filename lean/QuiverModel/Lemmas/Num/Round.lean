import QuiverModel.Lemmas.Num.Kernel
import Mathlib.Algebra.Order.Field.Basic
/-
Lemmas for the rounding family of M-Num: truncated division as a relation to ℚ. Owned by C20.
-/
open QM QM.Num QM.Builtins
namespace C20

/-- truncation toward zero, as a relation between an integer and a rational -/
def IsTrunc (t : Int) (q : ℚ) : Prop :=
  (0 ≤ q → (t : ℚ) ≤ q ∧ q < t + 1) ∧ (q ≤ 0 → (t : ℚ) - 1 < q ∧ q ≤ t)

theorem tdiv_isTrunc (n d : Int) (hd : 0 < d) : IsTrunc (n.tdiv d) ((n : ℚ) / (d : ℚ)) := by
  have hdq : (0 : ℚ) < d := by exact_mod_cast hd
  have hsplit := Int.mul_tdiv_add_tmod n d
  have hq : (n : ℚ) / d = (n.tdiv d : ℚ) + (n.tmod d : ℚ) / d := by
    have : (n : ℚ) = (d : ℚ) * (n.tdiv d : ℚ) + (n.tmod d : ℚ) := by exact_mod_cast hsplit.symm
    rw [this]; field_simp
  have hupper : n.tmod d < d := Int.tmod_lt_of_pos n hd
  have hlower : -d < n.tmod d := by
    have := Int.tmod_lt_of_pos (-n) hd
    rw [Int.neg_tmod] at this; omega
  constructor
  · intro h0
    have hn : 0 ≤ n := by
      by_contra hc
      have : (n : ℚ) < 0 := by exact_mod_cast (not_le.mp hc)
      have := div_neg_of_neg_of_pos this hdq
      linarith
    have hr0 : 0 ≤ n.tmod d := Int.tmod_nonneg d hn
    have h1 : (0 : ℚ) ≤ (n.tmod d : ℚ) / d := div_nonneg (by exact_mod_cast hr0) (le_of_lt hdq)
    have h2 : (n.tmod d : ℚ) / d < 1 := by
      rw [div_lt_one hdq]; exact_mod_cast hupper
    rw [hq]; constructor <;> linarith
  · intro h0
    have hn : n ≤ 0 := by
      by_contra hc
      have : (0 : ℚ) < n := by exact_mod_cast (not_le.mp hc)
      have := div_pos this hdq
      linarith
    have hr0 : n.tmod d ≤ 0 := by
      have := Int.tmod_nonneg d (show 0 ≤ -n by omega)
      rw [Int.neg_tmod] at this; omega
    have h1 : (n.tmod d : ℚ) / d ≤ 0 := div_nonpos_of_nonpos_of_nonneg (by exact_mod_cast hr0) (le_of_lt hdq)
    have h2 : -1 < (n.tmod d : ℚ) / d := by
      rw [lt_div_iff₀ hdq]; have : (-(d:ℤ) : ℚ) < (n.tmod d : ℤ) := by exact_mod_cast hlower
      linarith
    rw [hq]; constructor <;> linarith

theorem toQ_int (t : Int) : toQ (.int t) = (t : ℚ) := rfl
theorem canon_int (t : Int) : Canon (.int t) := trivial
theorem not_surd_int (t : Int) : ¬ isSurd (.int t) := fun h => h

theorem canon_half (f : Int) : Canon (.rat (f * 2 + 1) 2) := by
  refine ⟨by decide, ?_⟩
  have h1 : (Int.gcd (f * 2 + 1) 2 : Int) ∣ 2 := Int.gcd_dvd_right _ _
  have h2 : (Int.gcd (f * 2 + 1) 2 : Int) ∣ f * 2 + 1 := Int.gcd_dvd_left _ _
  have h3 : (Int.gcd (f * 2 + 1) 2 : Int) ∣ 1 := by
    have : (Int.gcd (f * 2 + 1) 2 : Int) ∣ f * 2 := Dvd.dvd.mul_left h1 f
    exact (Int.dvd_add_right this).mp h2
  have h4 := Int.le_of_dvd (by decide) h3
  have h5 : 0 < Int.gcd (f * 2 + 1) 2 := Nat.pos_of_ne_zero (fun h => by
    have := (Int.gcd_eq_zero_iff.mp h).2; omega)
  omega

theorem sgnQ_eq_zero' {q : ℚ} : sgnQ q = 0 ↔ q = 0 := (sgnQ_cases q).2.1
theorem sgnQ_lt_zero' {q : ℚ} : sgnQ q = -1 ↔ q < 0 := (sgnQ_cases q).1
theorem sgnQ_pos' {q : ℚ} : sgnQ q = 1 ↔ 0 < q := (sgnQ_cases q).2.2

theorem sgnQ_sub_one {a b : ℚ} : sgnQ (a - b) = 1 ↔ b < a := by rw [sgnQ_pos', sub_pos]
theorem sgnQ_sub_neg_one {a b : ℚ} : sgnQ (a - b) = -1 ↔ a < b := by rw [sgnQ_lt_zero', sub_neg]
theorem sgnQ_sub_zero {a b : ℚ} : sgnQ (a - b) = 0 ↔ a = b := by rw [sgnQ_eq_zero', sub_eq_zero]

end C20
