import QuiverModel.Core.Num
/-
Lemmas about M-Num (`QuiverModel.Core.Num`): semantics in ℚ, canonical form, specifications of
the rational kernel (`reduce`, `radd`, …). Owned by C20; importable read-only by others.
-/
import Mathlib.Data.Rat.Defs
import Mathlib.Tactic.Ring
import Mathlib.Tactic.Linarith
import Mathlib.Tactic.FieldSimp
import Mathlib.Data.Int.GCD
open QM QM.Num QM.Builtins

namespace C20

/-- three-way comparison, the value of `__integer_compare__` -/
def cmp (a b : Int) : Int := if a < b then -1 else if a > b then 1 else 0

@[simp] theorem ok_bind {α β} (v : α) (f : α → Res β) : (Res.ok v >>= f) = f v := rfl
@[simp] theorem pure_eq {α} (v : α) : (pure v : Res α) = Res.ok v := rfl
@[simp] theorem iAdd_eq (a b : Int) : iAdd a b = .ok (a + b) := rfl
@[simp] theorem iSub_eq (a b : Int) : iSub a b = .ok (a - b) := rfl
@[simp] theorem iMul_eq (a b : Int) : iMul a b = .ok (a * b) := rfl
@[simp] theorem iGcd_eq (a b : Int) : iGcd a b = .ok ((Int.gcd a b : ℕ) : ℤ) := rfl
@[simp] theorem iAbs_eq (a : Int) : iAbs a = .ok ((a.natAbs : ℕ) : ℤ) := rfl
@[simp] theorem iCompare_eq (a b : Int) : iCompare a b = .ok (cmp a b) := rfl
theorem iDiv_eq {a b : Int} (h : b ≠ 0) : iDiv a b = .ok (Int.tdiv a b) := by
  simp [iDiv, integerDivide, h, lift]
theorem iMod_eq {a b : Int} (h : b ≠ 0) : iMod a b = .ok (Int.tmod a b) := by
  simp [iMod, integerModulo, h, lift]
theorem iSqrt_eq {a : Int} (h : 0 ≤ a) : iSqrt a = .ok ((Nat.sqrt a.toNat : ℕ) : ℤ) := by
  simp [iSqrt, integerSqrt, lift, Int.not_lt.mpr h]

theorem cmp_eq_neg_one {a b : Int} : cmp a b = -1 ↔ a < b := by
  unfold cmp; split <;> [simp [*]; (split <;> simp [*])]
theorem cmp_eq_one {a b : Int} : cmp a b = 1 ↔ b < a := by
  unfold cmp; split <;> [(simp; omega); (split <;> simp [*])]
theorem cmp_eq_zero {a b : Int} : cmp a b = 0 ↔ a = b := by
  unfold cmp; split <;> [(simp; omega); (split <;> simp <;> omega)]

/-- the result of `reduce`, as a plain function -/
def reduceP (n d : Int) : Rt :=
  if d < 0 then ⟨-(Int.tdiv n (Int.gcd n d)), -(Int.tdiv d (Int.gcd n d))⟩
  else ⟨Int.tdiv n (Int.gcd n d), Int.tdiv d (Int.gcd n d)⟩

theorem gcd_ne_zero_of_right {n d : Int} (hd : d ≠ 0) : ((Int.gcd n d : ℕ) : ℤ) ≠ 0 := by
  intro h
  have : Int.gcd n d = 0 := by exact_mod_cast h
  exact hd (Int.gcd_eq_zero_iff.mp this).2

theorem reduce_eq {n d : Int} (hd : d ≠ 0) : reduce ⟨n, d⟩ = .ok (reduceP n d) := by
  unfold reduce reduceP
  have hg := gcd_ne_zero_of_right (n := n) hd
  by_cases h : d < 0
  · have h2 : ¬ (0 < d) := by omega
    simp [reduceF, cmp_eq_neg_one, h, h2, iDiv_eq hg]
  · simp [reduceF, cmp_eq_neg_one, h, iDiv_eq hg]


/-! ### semantics and canonical form -/

def _root_.QM.Num.Rt.toQ (r : Rt) : ℚ := (r.n : ℚ) / (r.d : ℚ)

/-- canonical rational: denominator positive, lowest terms -/
def _root_.QM.Num.Rt.Canon (r : Rt) : Prop := 0 < r.d ∧ Int.gcd r.n r.d = 1

theorem reduceP_spec {n d : Int} (hd : d ≠ 0) :
    (reduceP n d).Canon ∧ (reduceP n d).toQ = (n : ℚ) / (d : ℚ) := by
  have hg0 : Int.gcd n d ≠ 0 := fun h => hd (Int.gcd_eq_zero_iff.mp h).2
  have hgpos : 0 < Int.gcd n d := Nat.pos_of_ne_zero hg0
  have hgz : (0 : ℤ) < (Int.gcd n d : ℤ) := by exact_mod_cast hgpos
  obtain ⟨n', hn⟩ := Int.gcd_dvd_left n d
  obtain ⟨d', hd'⟩ := Int.gcd_dvd_right n d
  have hcop := Int.gcd_div_gcd_div_gcd (i := n) (j := d) hgpos
  have e1 : n.tdiv (Int.gcd n d) = n' := by
    rw [Int.tdiv_eq_ediv_of_dvd (Int.gcd_dvd_left n d)]
    exact Int.ediv_eq_of_eq_mul_right (ne_of_gt hgz) hn
  have e2 : d.tdiv (Int.gcd n d) = d' := by
    rw [Int.tdiv_eq_ediv_of_dvd (Int.gcd_dvd_right n d)]
    exact Int.ediv_eq_of_eq_mul_right (ne_of_gt hgz) hd'
  have c1 : Int.gcd n' d' = 1 := by
    have a1 : n / (Int.gcd n d : ℤ) = n' := by
      exact Int.ediv_eq_of_eq_mul_right (ne_of_gt hgz) hn
    have a2 : d / (Int.gcd n d : ℤ) = d' := by
      exact Int.ediv_eq_of_eq_mul_right (ne_of_gt hgz) hd'
    rw [a1, a2] at hcop; exact hcop
  have hd'0 : d' ≠ 0 := by rintro rfl; simp at hd'; exact hd hd'
  have hgq : ((Int.gcd n d : ℤ) : ℚ) ≠ 0 := by exact_mod_cast (ne_of_gt hgz)
  have hd'q : (d' : ℚ) ≠ 0 := by exact_mod_cast hd'0
  have hval : (n' : ℚ) / (d' : ℚ) = (n : ℚ) / (d : ℚ) := by
    have hnq : (n : ℚ) = ((Int.gcd n d : ℤ) : ℚ) * n' := by exact_mod_cast hn
    have hdq : (d : ℚ) = ((Int.gcd n d : ℤ) : ℚ) * d' := by exact_mod_cast hd'
    rw [hnq, hdq]; field_simp
  unfold reduceP QM.Num.Rt.Canon QM.Num.Rt.toQ
  by_cases h : d < 0
  · have hd'neg : d' < 0 := by
      by_contra hc
      have : 0 ≤ (Int.gcd n d : ℤ) * d' := Int.mul_nonneg (le_of_lt hgz) (by omega)
      omega
    simp only [h, if_true, e1, e2]
    refine ⟨⟨by omega, by simpa using c1⟩, ?_⟩
    push_cast
    rw [neg_div_neg_eq]; exact hval
  · have hd'pos : 0 < d' := by
      by_contra hc
      have : (Int.gcd n d : ℤ) * d' ≤ 0 := Int.mul_nonpos_of_nonneg_of_nonpos (le_of_lt hgz) (by omega)
      omega
    simp only [h, if_false, e1, e2]
    exact ⟨⟨hd'pos, c1⟩, hval⟩


theorem reduce_spec {n d : Int} (hd : d ≠ 0) :
    ∃ z, reduce ⟨n, d⟩ = .ok z ∧ z.Canon ∧ z.toQ = (n : ℚ) / (d : ℚ) :=
  ⟨reduceP n d, reduce_eq hd, (reduceP_spec hd).1, (reduceP_spec hd).2⟩

theorem Rt.Canon.ne {r : Rt} (h : r.Canon) : r.d ≠ 0 := ne_of_gt h.1

theorem rneg_spec {x : Rt} (hx : x.d ≠ 0) :
    ∃ z, rneg x = .ok z ∧ z.Canon ∧ z.toQ = - x.toQ := by
  obtain ⟨z, h1, h2, h3⟩ := reduce_spec (n := -x.n) hx
  refine ⟨z, by simp [rneg, h1], h2, ?_⟩
  rw [h3]; unfold QM.Num.Rt.toQ; push_cast; ring

theorem radd_spec {x y : Rt} (hx : x.d ≠ 0) (hy : y.d ≠ 0) :
    ∃ z, radd x y = .ok z ∧ z.Canon ∧ z.toQ = x.toQ + y.toQ := by
  obtain ⟨z, h1, h2, h3⟩ := reduce_spec (n := x.n * y.d + y.n * x.d) (mul_ne_zero hx hy)
  refine ⟨z, by simp [radd, h1], h2, ?_⟩
  have hxq : (x.d : ℚ) ≠ 0 := by exact_mod_cast hx
  have hyq : (y.d : ℚ) ≠ 0 := by exact_mod_cast hy
  rw [h3]; unfold QM.Num.Rt.toQ; push_cast; field_simp

theorem rsub_spec {x y : Rt} (hx : x.d ≠ 0) (hy : y.d ≠ 0) :
    ∃ z, rsub x y = .ok z ∧ z.Canon ∧ z.toQ = x.toQ - y.toQ := by
  obtain ⟨z, h1, h2, h3⟩ := reduce_spec (n := x.n * y.d - y.n * x.d) (mul_ne_zero hx hy)
  refine ⟨z, by simp [rsub, h1], h2, ?_⟩
  have hxq : (x.d : ℚ) ≠ 0 := by exact_mod_cast hx
  have hyq : (y.d : ℚ) ≠ 0 := by exact_mod_cast hy
  rw [h3]; unfold QM.Num.Rt.toQ; push_cast; field_simp

theorem rmul_spec {x y : Rt} (hx : x.d ≠ 0) (hy : y.d ≠ 0) :
    ∃ z, rmul x y = .ok z ∧ z.Canon ∧ z.toQ = x.toQ * y.toQ := by
  obtain ⟨z, h1, h2, h3⟩ := reduce_spec (n := x.n * y.n) (mul_ne_zero hx hy)
  refine ⟨z, by simp [rmul, h1], h2, ?_⟩
  have hxq : (x.d : ℚ) ≠ 0 := by exact_mod_cast hx
  have hyq : (y.d : ℚ) ≠ 0 := by exact_mod_cast hy
  rw [h3]; unfold QM.Num.Rt.toQ; push_cast; field_simp

theorem rquot_spec {x y : Rt} (hx : x.d ≠ 0) (hy : y.d ≠ 0) (hyn : y.n ≠ 0) :
    ∃ z, rquot x y = .ok z ∧ z.Canon ∧ z.toQ = x.toQ / y.toQ := by
  obtain ⟨z, h1, h2, h3⟩ := reduce_spec (n := x.n * y.d) (mul_ne_zero hx hyn)
  refine ⟨z, by simp [rquot, h1], h2, ?_⟩
  have hxq : (x.d : ℚ) ≠ 0 := by exact_mod_cast hx
  have hyq : (y.d : ℚ) ≠ 0 := by exact_mod_cast hy
  have hynq : (y.n : ℚ) ≠ 0 := by exact_mod_cast hyn
  rw [h3]; unfold QM.Num.Rt.toQ; push_cast; field_simp

/-- sign of a rational number as -1 / 0 / 1 -/
def sgnQ (q : ℚ) : Int := if q < 0 then -1 else if 0 < q then 1 else 0

theorem cmp_cast_sub (a b : Int) : cmp a b = sgnQ ((a : ℚ) - (b : ℚ)) := by
  unfold cmp sgnQ
  have h1 : ((a : ℚ) - b < 0) ↔ a < b := by rw [sub_neg]; exact Int.cast_lt
  have h2 : (0 < (a : ℚ) - b) ↔ a > b := by rw [sub_pos]; exact Int.cast_lt
  simp only [h1, h2]

theorem sgnQ_mul_pos {q p : ℚ} (hp : 0 < p) : sgnQ (q * p) = sgnQ q := by
  unfold sgnQ
  have h1 : q * p < 0 ↔ q < 0 := by
    constructor
    · intro h; by_contra hc; have := mul_nonneg (not_lt.mp hc) (le_of_lt hp); linarith
    · intro h; exact mul_neg_of_neg_of_pos h hp
  have h2 : 0 < q * p ↔ 0 < q := by
    constructor
    · intro h; by_contra hc; have := mul_nonpos_of_nonpos_of_nonneg (not_lt.mp hc) (le_of_lt hp); linarith
    · intro h; exact mul_pos h hp
  simp only [h1, h2]

theorem rsign_spec (x : Rt) (hx : 0 < x.d) : rsign x = .ok (sgnQ x.toQ) := by
  have hq : (0 : ℚ) < x.d := by exact_mod_cast hx
  have : sgnQ x.toQ = sgnQ ((x.n : ℚ) - ((0 : ℤ) : ℚ)) := by
    have e : ((x.n : ℚ) - ((0 : ℤ) : ℚ)) = x.toQ * x.d := by
      unfold QM.Num.Rt.toQ; field_simp; simp
    rw [e, sgnQ_mul_pos hq]
  simp [rsign, this, cmp_cast_sub]

theorem rcompare_spec (x y : Rt) (hx : 0 < x.d) (hy : 0 < y.d) :
    rcompare x y = .ok (sgnQ (x.toQ - y.toQ)) := by
  have hxq : (0 : ℚ) < x.d := by exact_mod_cast hx
  have hyq : (0 : ℚ) < y.d := by exact_mod_cast hy
  have e : (x.n : ℚ) * y.d - (y.n : ℚ) * x.d = (x.toQ - y.toQ) * ((x.d : ℚ) * y.d) := by
    unfold QM.Num.Rt.toQ; field_simp
  simp [rcompare, cmp_cast_sub, e, sgnQ_mul_pos (mul_pos hxq hyq)]


/-! ### numbers: semantics, canonical form, kinds -/

def coeffQ (c : Coeff) : ℚ := (toRational c).toQ

/-- value of an integer / rational number (for a surd: its rational part; see `toQsqrt`) -/
def toQ : Num → ℚ
  | .int z => (z : ℚ)
  | .rat n d => (n : ℚ) / (d : ℚ)
  | .surd a _ _ => coeffQ a

/-- `a + b·√n` as the triple `(a, b, n)`; integers and rationals are `(q, 0, 1)` -/
def toQsqrt : Num → ℚ × ℚ × ℕ
  | .int z => ((z : ℚ), 0, 1)
  | .rat n d => ((n : ℚ) / (d : ℚ), 0, 1)
  | .surd a b n => (coeffQ a, coeffQ b, n.toNat)

/-- square-free: no square of an integer ≥ 2 divides `m` -/
def SqFree (m : Int) : Prop := ∀ e : Int, 2 ≤ e → ¬ (e * e ∣ m)

/-- canonical surd coefficient: a bare integer, or a rational in lowest terms that is not integral
(`lower` has been applied) -/
def CanonCoeff : Coeff → Prop
  | .int _ => True
  | .rat n d => 1 < d ∧ Int.gcd n d = 1

/-- the module's canonical form (header of num.qv) -/
def Canon : Num → Prop
  | .int _ => True
  | .rat n d => 0 < d ∧ Int.gcd n d = 1
  | .surd a b n => CanonCoeff a ∧ CanonCoeff b ∧ coeffQ b ≠ 0 ∧ 1 < n ∧ SqFree n

def isInt : Num → Prop | .int _ => True | _ => False
def isRat : Num → Prop | .rat _ _ => True | _ => False
def isSurd : Num → Prop | .surd _ _ _ => True | _ => False

instance (x : Num) : Decidable (isInt x) := by cases x <;> unfold isInt <;> exact inferInstance
instance (x : Num) : Decidable (isRat x) := by cases x <;> unfold isRat <;> exact inferInstance
instance (x : Num) : Decidable (isSurd x) := by cases x <;> unfold isSurd <;> exact inferInstance

theorem toNum_toQ (r : Rt) : toQ r.toNum = r.toQ := rfl
theorem toNum_canon {r : Rt} (h : r.Canon) : Canon r.toNum := h
theorem toNum_isRat (r : Rt) : isRat r.toNum := trivial

/-! ### division -/

theorem divCoeff_spec (x y : Coeff) (hx : (toRational x).d ≠ 0) (hy : (toRational y).d ≠ 0) :
    ((toRational y).n = 0 → divCoeff x y = .ok none) ∧
    ((toRational y).n ≠ 0 → ∃ z : Rt, divCoeff x y = .ok (some z.toNum) ∧ z.Canon ∧
        z.toQ = (toRational x).toQ / (toRational y).toQ) := by
  constructor
  · intro h; simp [divCoeff, h]
  · intro h
    obtain ⟨z, h1, h2, h3⟩ := reduce_spec (n := (toRational x).n * (toRational y).d)
      (d := (toRational x).d * (toRational y).n) (mul_ne_zero hx h)
    refine ⟨z, by simp [divCoeff, h, h1], h2, ?_⟩
    have hxq : ((toRational x).d : ℚ) ≠ 0 := by exact_mod_cast hx
    have hyq : ((toRational y).d : ℚ) ≠ 0 := by exact_mod_cast hy
    have hynq : ((toRational y).n : ℚ) ≠ 0 := by exact_mod_cast h
    rw [h3]; unfold QM.Num.Rt.toQ; push_cast; field_simp

/-- coefficient view of a non-surd number -/
def coeffOf : Num → Coeff
  | .int z => .int z
  | .rat n d => .rat n d
  | .surd a _ _ => a

theorem div_eq_divCoeff (x y : Num) (nx : ¬ isSurd x) (ny : ¬ isSurd y) :
    div (some x) (some y) = divCoeff (coeffOf x) (coeffOf y) := by
  cases x <;> cases y <;> first | rfl | exact absurd trivial nx | exact absurd trivial ny

theorem toQ_coeffOf (x : Num) (nx : ¬ isSurd x) : (toRational (coeffOf x)).toQ = toQ x := by
  cases x <;> first | exact absurd trivial nx | (simp [coeffOf, toRational, toQ, QM.Num.Rt.toQ])

theorem coeffOf_d_pos (x : Num) (hx : Canon x) (nx : ¬ isSurd x) : 0 < (toRational (coeffOf x)).d := by
  cases x with
  | int z => simp [coeffOf, toRational]
  | rat n d => exact hx.1
  | surd a b n => exact absurd trivial nx

theorem sgnQ_cases (q : ℚ) :
    (sgnQ q = -1 ↔ q < 0) ∧ (sgnQ q = 0 ↔ q = 0) ∧ (sgnQ q = 1 ↔ 0 < q) := by
  unfold sgnQ
  rcases lt_trichotomy q 0 with h | h | h
  · simp [h, not_lt.mpr (le_of_lt h), ne_of_lt h]
  · simp [h]
  · simp [h, not_lt.mpr (le_of_lt h), ne_of_gt h]


theorem binop_nil {α} (op : Option Num → Option Num → Res (Option α))
    (h1 : ∀ y, op none y = .ok none) (h2 : ∀ v, op (some v) none = .ok none) (x y : Option Num) :
    op none y = .ok none ∧ op x none = .ok none := by
  refine ⟨h1 y, ?_⟩
  cases x with
  | none => exact h1 none
  | some v => exact h2 v

def kind : Num → Nat
  | .int _ => 0
  | .rat _ _ => 1
  | .surd _ _ _ => 2

theorem rat_unique {n d n' d' : Int} (h1 : 0 < d) (c1 : Int.gcd n d = 1) (h2 : 0 < d')
    (c2 : Int.gcd n' d' = 1) (he : (n : ℚ) / (d : ℚ) = (n' : ℚ) / (d' : ℚ)) : n = n' ∧ d = d' := by
  have a1 := Rat.num_div_eq_of_coprime h1 c1
  have a2 := Rat.num_div_eq_of_coprime h2 c2
  have b1 := Rat.den_div_eq_of_coprime h1 c1
  have b2 := Rat.den_div_eq_of_coprime h2 c2
  rw [he] at a1 b1
  exact ⟨a1.symm.trans a2, b1.symm.trans b2⟩

theorem coeff_unique {a a' : Coeff} (h : CanonCoeff a) (h' : CanonCoeff a') (he : coeffQ a = coeffQ a') :
    a = a' := by
  cases a with
  | int z =>
    cases a' with
    | int z' =>
      simp [coeffQ, toRational, QM.Num.Rt.toQ] at he
      rw [he]
    | rat n d =>
      exfalso
      have := rat_unique (n := z) (d := 1) (n' := n) (d' := d) (by norm_num) (by simp) (by have := h'.1; omega) h'.2
        (by simpa [coeffQ, toRational, QM.Num.Rt.toQ] using he)
      have := h'.1; omega
  | rat n d =>
    cases a' with
    | int z =>
      exfalso
      have := rat_unique (n := z) (d := 1) (n' := n) (d' := d) (by norm_num) (by simp) (by have := h.1; omega) h.2
        (by simpa [coeffQ, toRational, QM.Num.Rt.toQ] using he.symm)
      have := h.1; omega
    | rat n' d' =>
      have := rat_unique (by have := h.1; omega) h.2 (by have := h'.1; omega) h'.2
        (by simpa [coeffQ, toRational, QM.Num.Rt.toQ] using he)
      rw [this.1, this.2]


end C20
